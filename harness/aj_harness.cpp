// Correspondence harness: reads one operation per line, calls the real library in-process, prints a canonical result.
// Built by tools/check.py from /repo's working tree with -DBBLANCHON_ARDUINOJSON_VERIF -fsanitize=address,undefined.
#include "common.hpp"
#include <climits>
#include <cmath>
#include <fstream>

static Spy SPY0(0);
static Spy HSPY[3] = {Spy(0), Spy(1), Spy(2)};
static const char* LIT[] = {"lit0", "lit1", "", "a", "key", "123", "-4.5e2"};
static string HLOG() { string l = GLOG; GLOG.clear(); return l.empty() ? l : l.substr(1); }

static int cfgBits() {
  return (ARDUINOJSON_ENABLE_COMMENTS ? 1 : 0) | (ARDUINOJSON_ENABLE_NAN ? 2 : 0) | (ARDUINOJSON_ENABLE_INFINITY ? 4 : 0) |
         (ARDUINOJSON_DECODE_UNICODE ? 8 : 0);
}

static void prefill(JsonDocument& d) {
  d["old"][0] = 1; d["old"][1] = 2.5; d["old"][2]["x"] = string("y"); d["s"] = string("a string that is owned"); d["big"] = 1234567890123LL;
}

#ifdef AJ_ARDUINO
struct MockStream : Stream {
  const char* p; size_t n; size_t pos = 0;
  MockStream(const char* p_, size_t n_) : p(p_), n(n_) {}
  int read() override { if (pos < n) return (unsigned char)p[pos++]; return -1; }
  size_t readBytes(char* b, size_t k) override { size_t i = 0; while (i < k && pos < n) b[i++] = p[pos++]; return i; }
};
struct MockPrint : Print {
  string out;
  size_t write(uint8_t c) override { out += (char)c; return 1; }
  size_t write(const uint8_t* b, size_t n) override { out.append((const char*)b, n); return n; }
};
#endif


// ---- C13 copyArray: destinations live in exactly-sized heap blocks so that ASan sees any write beyond them
template <typename T> static string cellStr(T v) { return std::to_string((long long)v); }
template <> string cellStr<unsigned long long>(unsigned long long v) { return std::to_string(v); }
template <> string cellStr<unsigned long>(unsigned long v) { return std::to_string(v); }
template <> string cellStr<float>(float v) { uint32_t b; memcpy(&b, &v, 4); char t[16]; snprintf(t, 16, "%08x", b); return t; }
template <> string cellStr<double>(double v) { uint64_t b; memcpy(&b, &v, 8); char t[24]; snprintf(t, 24, "%016llx", (unsigned long long)b); return t; }
template <typename T> static string copyOut1(JsonVariantConst src, size_t n) {
  T* dst = (T*)malloc(n * sizeof(T)); memset((void*)dst, 0x5A, n * sizeof(T));
  size_t c = copyArray(src.as<JsonArrayConst>(), dst, n);
  string o = std::to_string(c); for (size_t i = 0; i < n; i++) o += " " + cellStr<T>(dst[i]);
  free(dst); return o; }
template <typename T> static string copyOutFixed3(JsonVariantConst src) {
  struct S { T a[3]; }; S* s = (S*)malloc(sizeof(S)); memset((void*)s, 0x5A, sizeof(S));
  size_t c = copyArray(src.as<JsonArrayConst>(), s->a);
  string o = std::to_string(c); for (size_t i = 0; i < 3; i++) o += " " + cellStr<T>(s->a[i]);
  free(s); return o; }
template <typename T> static string copyOut2(JsonVariantConst src) {
  struct S { T a[2][3]; }; S* s = (S*)malloc(sizeof(S)); memset((void*)s, 0x5A, sizeof(S));
  size_t c = copyArray(src.as<JsonArrayConst>(), s->a);
  string o = std::to_string(c); for (size_t i = 0; i < 2; i++) for (size_t j = 0; j < 3; j++) o += " " + cellStr<T>(s->a[i][j]);
  free(s); return o; }
template <size_t N> static string copyStrN(JsonVariantConst src) {
  struct S { char a[N]; }; S* s = (S*)malloc(sizeof(S)); memset((void*)s, 0x5A, sizeof(S));
  size_t c = copyArray(src, s->a);
  string o = std::to_string(c) + " " + hexs(string(s->a, N)); free(s); return o; }

// one deserialization through reader kind `rk`; fmt 'j' or 'm'; filter optional
template <typename... Opts>
static DeserializationError deser(char fmt, JsonDocument& d, int rk, const string& in, long& consumed, Opts... opts) {
  consumed = -1;
  DeserializationError e;
#define CALL(...) (fmt == 'j' ? deserializeJson(d, __VA_ARGS__, opts...) : deserializeMsgPack(d, __VA_ARGS__, opts...))
  switch (rk) {
    case 0: { Block b(in); CountingReader r{b.p, in.size()}; e = CALL(r); consumed = (long)r.pos; break; }
    case 1: { Block b(in, true); e = CALL((const char*)b.p); break; }
    case 2: { Block b(in); e = CALL((const char*)b.p, in.size()); break; }
    case 3: { e = CALL(in); break; }
#if __cplusplus >= 201703L
    case 4: { Block b(in); std::string_view sv(b.p, in.size()); e = CALL(sv); break; }
#endif
    case 5: { std::istringstream is(in); e = CALL(is); if (is.eof() && !is.fail()) consumed = (long)in.size(); else { is.clear(); consumed = (long)is.tellg(); } break; }
    case 6: { JsonDocument src; src.set(in.c_str()); e = CALL(src.as<JsonVariantConst>()); break; }
    case 7: { Block b(in); e = CALL((const unsigned char*)b.p, in.size()); break; }
    case 8: { Block b(in); CountingReader r{b.p, in.size()}; r.chunk = 3; e = CALL(r); consumed = (long)r.pos; break; }
    case 9: { Block b(in); BlockBuf bb(b.p, in.size(), 1 + in.size() % 7); std::istream is(&bb); e = CALL(is); consumed = (long)bb.consumed(); break; }
#ifdef AJ_ARDUINO
    case 20: { ::String s(in.c_str()); e = CALL(s); break; }
    case 21: { Block b(in); MockStream ms(b.p, in.size()); e = CALL((Stream&)ms); consumed = (long)ms.pos; break; }
    case 22: { Block b(in); e = CALL(reinterpret_cast<const __FlashStringHelper*>(convertPtrToFlash(b.p)), in.size()); break; }
    case 23: { Block b(in, true); e = CALL(reinterpret_cast<const __FlashStringHelper*>(convertPtrToFlash(b.p))); break; }
#endif
    default: e = DeserializationError::InvalidInput; consumed = -2;
  }
#undef CALL
  return e;
}

static string num(long v) { return v < 0 ? string("-") : std::to_string(v); }

// serialize through every destination kind; returns "" if all agree with `ref`, else the name of the first that differs
// a stream buffer that cannot report or change its position (a socket, a pipe, a UART): tellp() is -1; bytes are delivered through overflow/xsputn only
struct NoSeekBuf : std::streambuf {
  string got;
  int_type overflow(int_type c) override { if (c != traits_type::eof()) got += (char)c; return c; }
  std::streamsize xsputn(const char* p, std::streamsize n) override { got.append(p, (size_t)n); return n; }
};
template <typename F1, typename F2>
static string destCheck(const JsonDocument& d, const string& ref, size_t measured, F1 ser, F2 serBuf, bool nulRule) {
  (void)serBuf;
  if (measured != ref.size()) return "measure";
  { NoSeekBuf nb; std::ostream os(&nb); size_t n = ser(d, os); if (nb.got != ref || n != ref.size() || !os.good()) return "ostream-without-position"; }
  { std::ostringstream os; size_t n = ser(d, os); if (os.str() != ref || n != ref.size()) return "ostream"; }
  // a stream with formatting state left over by the caller (width, fill, adjustment, flags): serialization is unformatted output
  { std::ostringstream os; os.width(9); os.fill('*'); os.setf(std::ios::left, std::ios::adjustfield); os.setf(std::ios::hex | std::ios::showbase | std::ios::uppercase);
    size_t n = ser(d, os); if (os.str() != ref || n != ref.size()) return "ostream-with-formatting-state"; }
  { string big(ref.size() + 16, (char)0xAA); size_t n = serBuf(d, &big[8], ref.size() + 1);
    if (n != ref.size() || big.compare(8, ref.size(), ref) != 0) return "buffer";
    if (nulRule && big[8 + ref.size()] != 0) return "buffer-nul";
    if (!nulRule && (unsigned char)big[8 + ref.size()] != 0xAA) return "buffer-touched";
    for (int i = 0; i < 8; i++) if ((unsigned char)big[i] != 0xAA) return "buffer-underrun";
    for (size_t i = 8 + ref.size() + 1; i < big.size(); i++) if ((unsigned char)big[i] != 0xAA) return "buffer-overrun"; }
  return "";
}

// a pointer to a string that is longer than `s`, starts with `s`, and is already known to the document under test: a literal kept for a
// linked string (ARENA) or the bytes of a string value some reference designates (a pool node). A view (ptr, s.size()) then ALIASES that string.
static const char* aliasIn(JsonVariantConst v, const string& s) {
  if (v.is<JsonString>()) { JsonString js = v.as<JsonString>(); if (js.c_str() && js.size() > s.size() && memcmp(js.c_str(), s.data(), s.size()) == 0) return js.c_str(); return nullptr; }
  if (v.is<JsonArrayConst>()) { for (JsonVariantConst e : v.as<JsonArrayConst>()) if (const char* p = aliasIn(e, s)) return p; return nullptr; }
  if (v.is<JsonObjectConst>()) for (JsonPairConst kv : v.as<JsonObjectConst>()) {
    JsonString k = kv.key(); if (k.c_str() && k.size() > s.size() && memcmp(k.c_str(), s.data(), s.size()) == 0) return k.c_str();
    if (const char* p = aliasIn(kv.value(), s)) return p; }
  return nullptr;
}
static const char* aliasOf(const string& s, std::vector<JsonDocument>& docs) {
  for (auto& d : docs) if (const char* p = aliasIn(d.as<JsonVariantConst>(), s)) return p;
  for (auto& a : ARENA) if (a.size() > s.size() && memcmp(a.data(), s.data(), s.size()) == 0) return a.c_str();
  return nullptr;
}

struct StrWriter { string out; size_t write(uint8_t c) { out += (char)c; return 1; } size_t write(const uint8_t* s, size_t n) { out.append((const char*)s, n); return n; } };

int main(int argc, char** argv) {
  (void)argc; (void)argv;
  std::ios::sync_with_stdio(false);
  string line;
  while (std::getline(std::cin, line)) {
    std::istringstream is(line);
    string op; is >> op;
    string out;
    if (op == "jsonde" || op == "jsonfilt") {
      int cfg, rk, lim; string fhex, hex;
      is >> cfg >> rk >> lim; if (op == "jsonfilt") is >> fhex; is >> hex;
      if (cfg != cfgBits()) { std::cout << "cfg-mismatch\n"; continue; }
      string in = unhex(hex);
      bool pre = rk >= 100; if (pre) rk -= 100;
      JsonDocument d(&SPY0); if (pre) prefill(d);
      SPY0.requested = 0;
      long consumed; DeserializationError e;
      if (op == "jsonfilt") {
        // the Filter option is a view of the filter document: it is created first (on a document that says `true`) and the document is filled afterwards
        JsonDocument fd; fd.set(true); DeserializationOption::Filter fopt(fd.as<JsonVariantConst>());
        string f = unhex(fhex); deserializeJson(fd, f, DeserializationOption::NestingLimit(20));
        SPY0.markPeak(); size_t base = SPY0.cur;
        // both orders of the two options are legal: odd limits pass (NestingLimit, Filter), even ones (Filter, NestingLimit)
        if (lim % 2) e = deser('j', d, rk, in, consumed, DeserializationOption::NestingLimit((uint8_t)lim), fopt);
        else e = deser('j', d, rk, in, consumed, fopt, DeserializationOption::NestingLimit((uint8_t)lim));
        size_t req = SPY0.requested; long pk = (long)SPY0.peak - (long)base, fin = (long)SPY0.cur - (long)base;
        JsonDocument u(&SPY0); SPY0.requested = 0; long c2;
        SPY0.markPeak(); base = SPY0.cur;
        DeserializationError eu = deser('j', u, rk, in, c2, DeserializationOption::NestingLimit((uint8_t)lim));
        long pku = (long)SPY0.peak - (long)base, finu = (long)SPY0.cur - (long)base;
        out = string(e.c_str()) + " " + showS(d.as<JsonVariantConst>()) + " " + num(consumed) + " req=" + std::to_string(req) + " requ=" + std::to_string(SPY0.requested) +
              (pre ? string("") : " reqpk=" + std::to_string(pk) + " reqpku=" + std::to_string(pku) + " reqfin=" + std::to_string(fin) + " reqfinu=" + std::to_string(finu)) +
              " requ:" + eu.c_str() + ":" + showS(u.as<JsonVariantConst>());
      } else {
        e = deser('j', d, rk, in, consumed, DeserializationOption::NestingLimit((uint8_t)lim));
        out = string(e.c_str()) + " " + showS(d.as<JsonVariantConst>()) + " " + num(consumed);
        // as<const char*>() of every string must be NUL-terminated at size(): checked inside show via JsonString? do it for root strings
        if (d.is<const char*>()) { JsonString s = d.as<JsonString>(); if (s.c_str()[s.size()] != 0) out += " NOT-NUL-TERMINATED"; }
      }
    } else if (op == "mpde" || op == "mpde0") {
      int rk, lim; string fhex, hex; is >> rk >> lim >> fhex >> hex;
      if ((op == "mpde0") != (ARDUINOJSON_USE_DOUBLE == 0)) { std::cout << "cfg-mismatch\n"; continue; }
      string in = unhex(hex);
      bool pre = rk >= 100; if (pre) rk -= 100;
      JsonDocument d(&SPY0); if (pre) prefill(d);
      SPY0.requested = 0;
      long consumed; DeserializationError e;
      size_t base = 0;
      if (fhex == "-") e = deser('m', d, rk, in, consumed, DeserializationOption::NestingLimit((uint8_t)lim));
      else {
        JsonDocument fd; fd.set(true); DeserializationOption::Filter fopt(fd.as<JsonVariantConst>());
        string f = unhex(fhex); deserializeJson(fd, f, DeserializationOption::NestingLimit(20));
        SPY0.markPeak(); base = SPY0.cur;
        if (lim % 2) e = deser('m', d, rk, in, consumed, DeserializationOption::NestingLimit((uint8_t)lim), fopt);
        else e = deser('m', d, rk, in, consumed, fopt, DeserializationOption::NestingLimit((uint8_t)lim));
      }
      size_t req = SPY0.requested; long pk = (long)SPY0.peak - (long)base, fin = (long)SPY0.cur - (long)base;
      string mp; serializeMsgPack(d, mp);
      out = string(e.c_str()) + " " + showS(d.as<JsonVariantConst>()) + " " + num(consumed) + " " + (mp.empty() ? "-" : hexs(mp)) + " req=" + std::to_string(req);
      if (fhex != "-") { JsonDocument u(&SPY0); SPY0.requested = 0; long c2; SPY0.markPeak(); base = SPY0.cur;
        DeserializationError eu = deser('m', u, rk, in, c2, DeserializationOption::NestingLimit((uint8_t)lim)); out += " requ=" + std::to_string(SPY0.requested);
        if (!pre) out += " reqpk=" + std::to_string(pk) + " reqpku=" + std::to_string((long)SPY0.peak - (long)base) + " reqfin=" + std::to_string(fin) + " reqfinu=" + std::to_string((long)SPY0.cur - (long)base);
        out += string(" requc=") + std::to_string((int)eu.code()); }
    } else if (op == "jsonser" || op == "mpser") {
      int cfg = cfgBits(); string spec; if (op == "jsonser") is >> cfg; is >> spec;
      if (cfg != cfgBits()) { std::cout << "cfg-mismatch\n"; continue; }
      JsonDocument d(&SPY0);
      bool ok = buildDoc(d, spec);
      long callsBefore = SPY0.calls;
      if (op == "jsonser") {
        string c, p; size_t rc = serializeJson(d, c); size_t rp = serializeJsonPretty(d, p);
        string bad = destCheck(d, c, measureJson(d), [](const JsonDocument& x, std::ostream& o) { return serializeJson(x, o); },
                               [](const JsonDocument& x, char* b, size_t n) { return serializeJson(x, b, n); }, true);
        if (bad.empty()) bad = destCheck(d, p, measureJsonPretty(d), [](const JsonDocument& x, std::ostream& o) { return serializeJsonPretty(x, o); },
                               [](const JsonDocument& x, char* b, size_t n) { return serializeJsonPretty(x, b, n); }, true);
        if (bad.empty() && (rc != c.size() || rp != p.size())) bad = "string-count";
        { StrWriter w; size_t n = serializeJson(d, w); if (bad.empty() && (w.out != c || n != c.size())) bad = "custom-writer"; }
#ifdef AJ_ARDUINO
        { MockPrint mp; size_t n = serializeJson(d, (Print&)mp); if (bad.empty() && (mp.out != c || n != c.size())) bad = "print"; }
        { ::String s; s.limitCapacityTo((size_t)1 << 30);   // the test double refuses to grow past 1024 bytes unless told otherwise
          size_t n = serializeJson(d, s); if (bad.empty() && (string(s.c_str()) != string(c.c_str()) || n != c.size())) bad = "arduino-string"; }
#endif
        if (bad.empty() && SPY0.calls != callsBefore) bad = "allocator-called";
        out = string(ok ? "ok " : "nomem ") + showS(d.as<JsonVariantConst>()) + " " + (c.empty() ? "-" : hexs(c)) + " " + (p.empty() ? "-" : hexs(p)) + " " + (bad.empty() ? "dest-ok" : "dest-mismatch:" + bad);
      } else {
        string c; size_t rc = serializeMsgPack(d, c);
        string bad = destCheck(d, c, measureMsgPack(d), [](const JsonDocument& x, std::ostream& o) { return serializeMsgPack(x, o); },
                               [](const JsonDocument& x, char* b, size_t n) { return serializeMsgPack(x, b, n); }, false);
        if (bad.empty() && rc != c.size()) bad = "string-count";
        { StrWriter w; size_t n = serializeMsgPack(d, w); if (bad.empty() && (w.out != c || n != c.size())) bad = "custom-writer"; }
        if (bad.empty() && SPY0.calls != callsBefore) bad = "allocator-called";
        out = string(ok ? "ok " : "nomem ") + showS(d.as<JsonVariantConst>()) + " " + (c.empty() ? "-" : hexs(c)) + " " + (bad.empty() ? "dest-ok" : "dest-mismatch:" + bad);
      }
    } else if (op == "jsonbuf" || op == "prettybuf" || op == "mpbuf") {
      // bounded buffer of capacity cap surrounded by guard bytes
      int cfg; size_t cap; string spec; is >> cfg >> cap >> spec;
      if (cfg != cfgBits()) { std::cout << "cfg-mismatch\n"; continue; }
      JsonDocument d(&SPY0); buildDoc(d, spec);
      const size_t G = 16;
      char* blk = (char*)malloc(cap + 2 * G); memset(blk, 0xAA, cap + 2 * G);
      size_t ret = op == "jsonbuf" ? serializeJson(d, blk + G, cap) : op == "prettybuf" ? serializeJsonPretty(d, blk + G, cap) : serializeMsgPack(d, blk + G, cap);
      bool guard = true;
      for (size_t i = 0; i < G; i++) if ((unsigned char)blk[i] != 0xAA || (unsigned char)blk[G + cap + i] != 0xAA) guard = false;
      // property oracle, evaluated on the implementation's own full text
      string ref; if (op == "jsonbuf") serializeJson(d, ref); else if (op == "prettybuf") serializeJsonPretty(d, ref); else serializeMsgPack(d, ref);
      size_t want = ref.size() < cap ? ref.size() : cap; string badbuf;
      if (ret != want) badbuf = "count";
      else if (memcmp(blk + G, ref.data(), want) != 0) badbuf = "prefix";
      else {
        bool text = op != "mpbuf"; size_t i = want;
        if (text && ref.size() < cap) { if (blk[G + i] != 0) badbuf = "nul-missing"; i++; }
        for (; i < cap && badbuf.empty(); i++) if ((unsigned char)blk[G + i] != 0xAA) badbuf = "touched-beyond";
      }
      out = "ret=" + std::to_string(ret) + " buf=" + (cap ? hexs(blk + G, cap) : "-") + (guard ? " guard-ok" : " GUARD-BROKEN") + (badbuf.empty() ? " buf-ok" : " BUF-BAD:" + badbuf);
      free(blk);
    } else if (op == "jsonrt" || op == "mprt") {
      // C07/C17: serialize, deserialize the result, serialize again
      int cfg = cfgBits(); string spec; if (op == "jsonrt") is >> cfg; is >> spec;
      if (cfg != cfgBits()) { std::cout << "cfg-mismatch\n"; continue; }
      JsonDocument d(&SPY0), d2(&SPY0); buildDoc(d, spec);
      string a, b; DeserializationError e;
      if (op == "jsonrt") { serializeJson(d, a); e = deserializeJson(d2, a.data(), a.size(), DeserializationOption::NestingLimit(250)); serializeJson(d2, b); }
      else { serializeMsgPack(d, a); e = deserializeMsgPack(d2, a.data(), a.size(), DeserializationOption::NestingLimit(250)); serializeMsgPack(d2, b); }
      out = showS(d.as<JsonVariantConst>()) + " " + (a.empty() ? "-" : hexs(a)) + " " + e.c_str() + " " + showS(d2.as<JsonVariantConst>()) + " " + (b.empty() ? "-" : hexs(b)) +
            (d.as<JsonVariantConst>() == d2.as<JsonVariantConst>() ? " eq" : " ne");
    } else if (op == "cross") {
      // C07: JSON -> document -> MessagePack -> document, compared with the document obtained from the JSON text
      int cfg; string hex; is >> cfg >> hex;
      if (cfg != cfgBits()) { std::cout << "cfg-mismatch\n"; continue; }
      string in = unhex(hex); JsonDocument d(&SPY0), d2(&SPY0);
      DeserializationError e = deserializeJson(d, in.data(), in.size(), DeserializationOption::NestingLimit(250));
      string mp; serializeMsgPack(d, mp);
      DeserializationError e2 = deserializeMsgPack(d2, mp.data(), mp.size(), DeserializationOption::NestingLimit(250));
      out = string(e.c_str()) + " " + showS(d.as<JsonVariantConst>()) + " " + e2.c_str() + " " + showS(d2.as<JsonVariantConst>()) +
            (d.as<JsonVariantConst>() == d2.as<JsonVariantConst>() ? " eq" : " ne");
    } else if (op == "geoq") {
      out = std::to_string((int)ARDUINOJSON_POOL_CAPACITY) + " " + std::to_string((int)ARDUINOJSON_INITIAL_POOL_COUNT) + " " + std::to_string((int)ARDUINOJSON_SLOT_ID_SIZE) + " " +
            std::to_string((int)StringNode::sizeForLength(0)) + " " + std::to_string((unsigned long long)StringNode::maxLength);
    } else if (op == "copyarr" || op == "copyarr3" || op == "copyarr2") {
      // C13: copyArray(document -> C array) with destination length n (pointer+length form), T(&)[3] and T(&)[2][3]
      int cfg; string kind, spec; size_t n = 0; is >> cfg >> kind; if (op == "copyarr") is >> n; is >> spec;
      if (cfg != cfgBits()) { std::cout << "cfg-mismatch\n"; continue; }
      JsonDocument d(&SPY0); buildDoc(d, spec);
      JsonVariantConst v = d.as<JsonVariantConst>();
#define CA_DISPATCH(F, ...) (kind == "i8" ? F<signed char>(__VA_ARGS__) : kind == "u8" ? F<unsigned char>(__VA_ARGS__) : kind == "i16" ? F<short>(__VA_ARGS__) : kind == "u16" ? F<unsigned short>(__VA_ARGS__) : \
        kind == "i32" ? F<int>(__VA_ARGS__) : kind == "u32" ? F<unsigned int>(__VA_ARGS__) : kind == "i64" ? F<long long>(__VA_ARGS__) : kind == "u64" ? F<unsigned long long>(__VA_ARGS__) : \
        kind == "f" ? F<float>(__VA_ARGS__) : F<double>(__VA_ARGS__))
      if (op == "copyarr") out = CA_DISPATCH(copyOut1, v, n);
      else if (op == "copyarr3") out = CA_DISPATCH(copyOutFixed3, v);
      else out = CA_DISPATCH(copyOut2, v);
    } else if (op == "copystr") {
      size_t n; string spec; is >> n >> spec;
      JsonDocument d(&SPY0); buildDoc(d, spec);
      JsonVariantConst v = d.as<JsonVariantConst>();
      out = n == 1 ? copyStrN<1>(v) : n == 2 ? copyStrN<2>(v) : n == 4 ? copyStrN<4>(v) : n == 8 ? copyStrN<8>(v) : string("bad-size");
    } else if (op == "jsonmem") {
      // C06: memory requested by one deserializeJson call (total of the sizes asked for, and the high-water mark)
      int cfg, lim; string hex; is >> cfg >> lim >> hex;
      if (cfg != cfgBits()) { std::cout << "cfg-mismatch\n"; continue; }
      string in = unhex(hex); Block b(in); CountingReader r{b.p, in.size()};
      JsonDocument d(&SPY0); SPY0.requested = 0; SPY0.markPeak(); size_t base = SPY0.cur;
      DeserializationError e = deserializeJson(d, r, DeserializationOption::NestingLimit((uint8_t)lim));
      out = string(e.c_str()) + " " + std::to_string(r.pos) + " req=" + std::to_string(SPY0.requested) + " peak=" + std::to_string(SPY0.peak - base);
    } else if (op == "copyeq") {
      // C04: copies are deep, equal to their source and independent of it (set(), copy constructor, member assignment), for documents of any origin
      string spec; is >> spec;
      JsonDocument d(&SPY0); buildDoc(d, spec);
      string before = showS(d.as<JsonVariantConst>());
      JsonDocument d2(&SPY0); bool r2 = d2.set(d.as<JsonVariantConst>());
      JsonDocument d3(d);
      JsonDocument d4(&SPY0); d4["x"] = d.as<JsonVariantConst>();
      string s2 = showS(d2.as<JsonVariantConst>()), s3 = showS(d3.as<JsonVariantConst>()), s4 = showS(d4["x"].as<JsonVariantConst>());
      bool eq = d2.as<JsonVariantConst>() == d.as<JsonVariantConst>();
      // mutate the copies: the source must not move
      d2.to<JsonArray>().add("changed"); d3.clear(); d4["x"]["k"] = 1; d4["x"].add(2);
      string after = showS(d.as<JsonVariantConst>());
      out = before + " " + s2 + " " + s3 + " " + s4 + " set=" + (r2 ? "1" : "0") + " eq=" + (eq ? "1" : "0") + " src=" + (after == before ? "same" : "CHANGED");
    } else if (op == "mpdoc") {
      // slot-level tie of deserializeMsgPack: mpdoc <limit> <pre 0|1> <fail: - | a<k> | f<k>> <hex>
      int lim, pre; string fail, hex; is >> lim >> pre >> fail >> hex;
      { string g1; if (is >> g1) { int b_, c_, so_; unsigned long long mx_; is >> b_ >> c_ >> so_ >> mx_;
          if (atoi(g1.c_str()) != ARDUINOJSON_POOL_CAPACITY || b_ != ARDUINOJSON_INITIAL_POOL_COUNT || c_ != ARDUINOJSON_SLOT_ID_SIZE || so_ != (int)StringNode::sizeForLength(0) || mx_ != (unsigned long long)StringNode::maxLength) { std::cout << "geo-mismatch\n"; continue; } } }
      string in = unhex(hex); Block b(in); CountingReader r{b.p, in.size()};
      {
        Spy L(0); L.logging = true; GLOG.clear();
        {
          JsonDocument d(&L);
          if (pre) deserializeJson(d, "[1,\"abc\",{\"k\":2,\"abc\":12345678901}]");
          GLOG.clear();
          if (fail[0] == 'a') L.failAt.insert(L.calls + atol(fail.c_str() + 1));
          if (fail[0] == 'f') L.failFrom = L.calls + atol(fail.c_str() + 1);
          DeserializationError e = deserializeMsgPack(d, r, DeserializationOption::NestingLimit((uint8_t)lim));
          out = string(e.c_str()) + " " + showS(d.as<JsonVariantConst>()) + " " + std::to_string(r.pos) + " o=" + (d.overflowed() ? "1" : "0") + "|" + HLOG();
          L.failAt.clear(); L.failFrom = -1; L.logging = false;
        }
        if (!L.live.empty()) out += " LEAK";
      }
    } else if (op == "pairkey") {
      // C14: members copied by hand through the iteration API - for (JsonPair kv : src) dst[kv.key()] = kv.value(); - then the source goes away.
      // pairkey <key kind> <hexkey> <hexvalue>: prints the source before, the destination after the copy, and the destination after the source was destroyed
      string kk, hk, hv; is >> kk >> hk >> hv; string key = unhex(hk), sval = unhex(hv);
      JsonDocument dst(&SPY0); JsonObject dobj = dst.to<JsonObject>();
      string before, mid;
      {
        JsonDocument* src = new JsonDocument(&SPY0); JsonObject so = src->to<JsonObject>();
        so["first"] = 1;
#define KEY_SV(ks, body) else if (kk == "sv") { std::string kc_ = ks; std::string_view KEY(kc_); body; }
#define WITHKEY2(kk, ks, body) do { \
        if (kk == "sp") { std::vector<char> kb_(ks.begin(), ks.end()); kb_.push_back(0); char* KEY = kb_.data(); body; memset(kb_.data(), 'Z', kb_.size()); } \
        else if (kk == "sj") { string kl_ = ks + "97"; JsonString KEY(kl_.data(), ks.size(), JsonString::Copied); body; } \
        else if (kk == "sjl") { JsonString KEY(keep(ks), JsonString::Linked); body; } \
        KEY_SV(ks, body) \
        else { const string& KEY = ks; body; } } while (0)
        WITHKEY2(kk, key, so[KEY] = sval);
#undef WITHKEY2
#undef KEY_SV
        so["last"] = sval;
        before = showS(src->as<JsonVariantConst>());
        for (JsonPair kv : so) dobj[kv.key()] = kv.value();
        mid = showS(dst.as<JsonVariantConst>());
        delete src;
      }
      { JsonDocument scratch(&SPY0); for (int i = 0; i < 8; i++) scratch.add(string(40 + i, 'Q')); }      // recycle the released blocks
      out = before + " " + mid + " " + showS(dst.as<JsonVariantConst>());
    } else if (op == "mpdocf") {
      // slot-level tie of the FILTERED deserializeMsgPack: mpdocf <limit> <pre 0|1> <fail> <filter-json-hex> <hex> [geometry]
      int lim, pre; string fail, fhex, hex; is >> lim >> pre >> fail >> fhex >> hex;
      { string g1; if (is >> g1) { int b_, c_, so_; unsigned long long mx_; is >> b_ >> c_ >> so_ >> mx_;
          if (atoi(g1.c_str()) != ARDUINOJSON_POOL_CAPACITY || b_ != ARDUINOJSON_INITIAL_POOL_COUNT || c_ != ARDUINOJSON_SLOT_ID_SIZE || so_ != (int)StringNode::sizeForLength(0) || mx_ != (unsigned long long)StringNode::maxLength) { std::cout << "geo-mismatch\n"; continue; } } }
      string in = unhex(hex); Block b(in); CountingReader r{b.p, in.size()};
      JsonDocument fd; fd.set(true); DeserializationOption::Filter fopt(fd.as<JsonVariantConst>());
      { string f = unhex(fhex); deserializeJson(fd, f, DeserializationOption::NestingLimit(20)); }
      {
        Spy L(0); L.logging = true; GLOG.clear();
        {
          JsonDocument d(&L);
          if (pre) deserializeJson(d, "[1,\"abc\",{\"k\":2,\"abc\":12345678901}]");
          GLOG.clear();
          if (fail[0] == 'a') L.failAt.insert(L.calls + atol(fail.c_str() + 1));
          if (fail[0] == 'f') L.failFrom = L.calls + atol(fail.c_str() + 1);
          DeserializationError e = (lim % 2) ? deserializeMsgPack(d, r, DeserializationOption::NestingLimit((uint8_t)lim), fopt)
                                             : deserializeMsgPack(d, r, fopt, DeserializationOption::NestingLimit((uint8_t)lim));
          out = string(e.c_str()) + " " + showS(d.as<JsonVariantConst>()) + " " + std::to_string(r.pos) + " o=" + (d.overflowed() ? "1" : "0") + "|" + HLOG();
          L.failAt.clear(); L.failFrom = -1; L.logging = false;
        }
        if (!L.live.empty()) out += " LEAK";
      }
    } else if (op == "jsondocf") {
      // slot-level tie of the FILTERED deserializeJson: like jsondoc, with a filter document (built with another allocator)
      // jsondocf <cfg> <limit> <pre 0|1> <fail: - | a<k> | f<k>> <filter-hex> <hex> [geometry]
      int cfg, lim, pre; string fail, fhex, hex; is >> cfg >> lim >> pre >> fail >> fhex >> hex;
      if (cfg != cfgBits()) { std::cout << "cfg-mismatch\n"; continue; }
      { string g1; if (is >> g1) { int b_, c_, so_; unsigned long long mx_; is >> b_ >> c_ >> so_ >> mx_;
          if (atoi(g1.c_str()) != ARDUINOJSON_POOL_CAPACITY || b_ != ARDUINOJSON_INITIAL_POOL_COUNT || c_ != ARDUINOJSON_SLOT_ID_SIZE || so_ != (int)StringNode::sizeForLength(0) || mx_ != (unsigned long long)StringNode::maxLength) { std::cout << "geo-mismatch\n"; continue; } } }
      string in = unhex(hex); Block b(in); CountingReader r{b.p, in.size()};
      JsonDocument fd; fd.set(true); DeserializationOption::Filter fopt(fd.as<JsonVariantConst>());
      { string f = unhex(fhex); deserializeJson(fd, f, DeserializationOption::NestingLimit(20)); }
      {
        Spy L(0); L.logging = true; GLOG.clear();
        {
          JsonDocument d(&L);
          if (pre) deserializeJson(d, "[1,\"abc\",{\"k\":2,\"abc\":12345678901}]");
          GLOG.clear();
          if (fail[0] == 'a') L.failAt.insert(L.calls + atol(fail.c_str() + 1));
          if (fail[0] == 'f') L.failFrom = L.calls + atol(fail.c_str() + 1);
          DeserializationError e = (lim % 2) ? deserializeJson(d, r, DeserializationOption::NestingLimit((uint8_t)lim), fopt)
                                             : deserializeJson(d, r, fopt, DeserializationOption::NestingLimit((uint8_t)lim));
          out = string(e.c_str()) + " " + showS(d.as<JsonVariantConst>()) + " " + std::to_string(r.pos) + " o=" + (d.overflowed() ? "1" : "0") + "|" + HLOG();
          L.failAt.clear(); L.failFrom = -1; L.logging = false;
        }
        if (!L.live.empty()) out += " LEAK";
      }
    } else if (op == "jsondoc") {
      // slot-level tie of deserializeJson: code, document, bytes consumed, overflowed flag AND the allocator log, under a failure schedule.
      // jsondoc <cfg> <limit> <pre 0|1> <fail: - | a<k> | f<k>> <hex>
      int cfg, lim, pre; string fail, hex; is >> cfg >> lim >> pre >> fail >> hex;
      if (cfg != cfgBits()) { std::cout << "cfg-mismatch\n"; continue; }
      { string g1; if (is >> g1) { int b_, c_, so_; unsigned long long mx_; is >> b_ >> c_ >> so_ >> mx_;
          if (atoi(g1.c_str()) != ARDUINOJSON_POOL_CAPACITY || b_ != ARDUINOJSON_INITIAL_POOL_COUNT || c_ != ARDUINOJSON_SLOT_ID_SIZE || so_ != (int)StringNode::sizeForLength(0) || mx_ != (unsigned long long)StringNode::maxLength) { std::cout << "geo-mismatch\n"; continue; } } }
      string in = unhex(hex); Block b(in); CountingReader r{b.p, in.size()};
      {
        Spy L(0); L.logging = true; GLOG.clear();
        {
          JsonDocument d(&L);
          if (pre) deserializeJson(d, "[1,\"abc\",{\"k\":2,\"abc\":12345678901}]");
          GLOG.clear();
          if (fail[0] == 'a') L.failAt.insert(L.calls + atol(fail.c_str() + 1));
          if (fail[0] == 'f') L.failFrom = L.calls + atol(fail.c_str() + 1);
          DeserializationError e = deserializeJson(d, r, DeserializationOption::NestingLimit((uint8_t)lim));
          out = string(e.c_str()) + " " + showS(d.as<JsonVariantConst>()) + " " + std::to_string(r.pos) + " o=" + (d.overflowed() ? "1" : "0") + "|" + HLOG();
          L.failAt.clear(); L.failFrom = -1; L.logging = false;
        }
        if (!L.live.empty()) out += " LEAK";
      }
    } else if (op == "conv") {
      // C13: every typed extraction of the root value
      int cfg; string spec; is >> cfg >> spec;
      if (cfg != cfgBits()) { std::cout << "cfg-mismatch\n"; continue; }
      JsonDocument d(&SPY0); buildDoc(d, spec);
      JsonVariantConst v = d.as<JsonVariantConst>();
      char buf[400];
      float f = v.as<float>(); double g = v.as<double>(); uint32_t fb; uint64_t gb; memcpy(&fb, &f, 4); memcpy(&gb, &g, 8);
      snprintf(buf, sizeof buf, "i8=%d u8=%u i16=%d u16=%u i32=%d u32=%u i64=%lld u64=%llu f=%08x d=%016llx is=%d%d%d%d%d%d%d%d%d%d",
               (int)v.as<int8_t>(), (unsigned)v.as<uint8_t>(), (int)v.as<int16_t>(), (unsigned)v.as<uint16_t>(), (int)v.as<int32_t>(), (unsigned)v.as<uint32_t>(),
               (long long)v.as<int64_t>(), (unsigned long long)v.as<uint64_t>(), fb, (unsigned long long)gb,
               (int)v.is<int8_t>(), (int)v.is<uint8_t>(), (int)v.is<int16_t>(), (int)v.is<uint16_t>(), (int)v.is<int32_t>(), (int)v.is<uint32_t>(),
               (int)v.is<int64_t>(), (int)v.is<uint64_t>(), (int)v.is<float>(), (int)v.is<double>());
      out = buf;
      // the other integral spellings must agree with the fixed-width type of the same size and signedness
      if (v.as<long>() != (long)v.as<int64_t>() || v.as<unsigned long>() != (unsigned long)v.as<uint64_t>() || v.as<long long>() != v.as<int64_t>() ||
          v.as<short>() != v.as<int16_t>() || v.as<int>() != v.as<int32_t>() || v.as<signed char>() != v.as<int8_t>() || v.as<unsigned char>() != v.as<uint8_t>() ||
          (v | (int32_t)77) != (v.is<int32_t>() ? v.as<int32_t>() : 77))
        out += " ALIAS-MISMATCH";
    } else if (op == "cmp") {
      string sa, sb; is >> sa >> sb;
      JsonDocument da(&SPY0), db(&SPY0);
      bool ua = sa == "?", ub = sb == "?";
      if (!ua) buildDoc(da, sa); if (!ub) buildDoc(db, sb);
      JsonVariantConst a = ua ? JsonVariantConst() : da.as<JsonVariantConst>(), b = ub ? JsonVariantConst() : db.as<JsonVariantConst>();
      auto bits = [](JsonVariantConst x, JsonVariantConst y) { string r; r += x == y ? '1' : '0'; r += x != y ? '1' : '0'; r += x < y ? '1' : '0'; r += x <= y ? '1' : '0'; r += x > y ? '1' : '0'; r += x >= y ? '1' : '0'; return r; };
      out = bits(a, b) + " " + bits(b, a);
    } else if (op == "cmps") {
      string sa, sc; is >> sa >> sc;
      JsonDocument da(&SPY0); buildDoc(da, sa); JsonVariantConst a = da.as<JsonVariantConst>();
      string kind = sc.substr(0, sc.find(':')), val = sc.substr(sc.find(':') + 1);
#define BITS(X) { auto xx_ = (X); string r, q; r += a == xx_ ? '1' : '0'; r += a != xx_ ? '1' : '0'; r += a < xx_ ? '1' : '0'; r += a <= xx_ ? '1' : '0'; r += a > xx_ ? '1' : '0'; r += a >= xx_ ? '1' : '0'; \
                  q += xx_ == a ? '1' : '0'; q += xx_ != a ? '1' : '0'; q += xx_ < a ? '1' : '0'; q += xx_ <= a ? '1' : '0'; q += xx_ > a ? '1' : '0'; q += xx_ >= a ? '1' : '0'; out = r + " " + q; }
      if (kind == "i64") BITS((long long)strtoll(val.c_str(), 0, 10))
      else if (kind == "u64") BITS((unsigned long long)strtoull(val.c_str(), 0, 10))
      else if (kind == "i32") BITS((int32_t)strtoll(val.c_str(), 0, 10))
      else if (kind == "u32") BITS((uint32_t)strtoull(val.c_str(), 0, 10))
      else if (kind == "i16") BITS((int16_t)strtoll(val.c_str(), 0, 10))
      else if (kind == "u16") BITS((uint16_t)strtoull(val.c_str(), 0, 10))
      else if (kind == "b") BITS(val == "1")
      else if (kind == "d") { uint64_t bb = strtoull(val.c_str(), 0, 16); double g; memcpy(&g, &bb, 8); BITS(g) }
      else if (kind == "f") { uint32_t bb = (uint32_t)strtoul(val.c_str(), 0, 16); float g; memcpy(&g, &bb, 4); BITS(g) }
      else if (kind == "s") { string x = unhex(val); BITS(x) }
      else if (kind == "cs") { string x0 = unhex(val); const char* x = keep(x0); BITS(x) }
#if __cplusplus >= 201703L
      // "pv:k" / "pj:k": the first k bytes of the variant's OWN string, seen through a string_view / JsonString that shares its address
      else if (kind == "pv" || kind == "pj") { JsonString own = a.as<JsonString>(); size_t k = (size_t)atol(val.c_str());
        if (!own.c_str() || k > own.size()) out = "n/a";
        else if (kind == "pv") { std::string_view x(own.c_str(), k); BITS(x) }
        else { JsonString x(own.c_str(), k, JsonString::Linked); BITS(x) } }
#endif
      else out = "bad-kind";
#undef BITS
    } else if (op == "reset" || op == "geo" || op == "root" || op == "mem" || op == "memw" || op == "elem" || op == "elemw" || op == "set" || op == "setm" ||
               op == "sete" || op == "add" || op == "addv" || op == "toarr" || op == "toobj" || op == "remi" || op == "remk" || op == "clear" || op == "cleardoc" ||
               op == "copydoc" || op == "swapdoc" || op == "movedoc" || op == "shrink" || op == "obs" || op == "obsx" || op == "failat" || op == "failfrom" || op == "nofail" || op == "ledger" ||
               op == "hser" || op == "liveq" || op == "deserj" || op == "deserm" || op == "rd2") {
      // API histories over 3 documents (each with its own spying allocator) and 10 references
      static std::vector<JsonDocument>* docsp = nullptr;
      static std::vector<JsonVariant> refs(10);
      if (!docsp) { docsp = new std::vector<JsonDocument>(); for (int i = 0; i < 3; i++) { HSPY[i].logging = true; docsp->emplace_back(&HSPY[i]); } }
      std::vector<JsonDocument>& docs = *docsp;
      auto val = [&](JsonVariant dst, bool viaAdd, const string& kind, const string& arg) -> bool {
#define DO(x) (viaAdd ? dst.add(x) : dst.set(x))
        if (kind == "null") return DO(nullptr);
        if (kind == "bool") return DO(arg == "1");
        if (kind == "i") return DO((long long)strtoll(arg.c_str(), 0, 10));
        if (kind == "u") return DO((unsigned long long)strtoull(arg.c_str(), 0, 10));
        if (kind == "i8") return DO((signed char)strtoll(arg.c_str(), 0, 10));
        if (kind == "u16") return DO((unsigned short)strtoull(arg.c_str(), 0, 10));
        if (kind == "f") { uint32_t b = (uint32_t)strtoul(arg.c_str(), 0, 16); float f; memcpy(&f, &b, 4); return DO(f); }
        if (kind == "d") { uint64_t b = strtoull(arg.c_str(), 0, 16); double f; memcpy(&f, &b, 8); return DO(f); }
        if (kind == "sl") return DO(LIT[atoi(arg.c_str())]);
        if (kind == "sc") { string s = unhex(arg); return DO(s); }
#if __cplusplus >= 201703L
        // sized kinds are slices of a longer buffer: the byte after the slice is not a terminator
        if (kind == "sva") { string s = unhex(arg); std::vector<JsonDocument> none_; /* values: only literals - a view into the target's own storage would dangle once the target is cleared */ const char* al = aliasOf(s, none_); if (al) { std::string_view v(al, s.size()); return DO(v); } string s2 = s + "97"; std::string_view v(s2.data(), s.size()); return DO(v); }
        if (kind == "sv") { string s = unhex(arg); size_t n = s.size(); s += "97"; std::string_view v(s.data(), n); bool r = DO(v); s.assign(s.size(), 'Z'); return r; }
#endif
        if (kind == "sp") { string s = unhex(arg); std::vector<char> b(s.begin(), s.end()); b.push_back(0); char* p = b.data(); bool r = DO(p); memset(b.data(), 'Z', b.size()); return r; }
        if (kind == "sj") { string s = unhex(arg); size_t n = s.size(); s += "97"; bool r = DO(JsonString(s.data(), n, JsonString::Copied)); s.assign(s.size(), 'Z'); return r; }
        if (kind == "sjl") { string s = unhex(arg); return DO(JsonString(keep(s), JsonString::Linked)); }
        if (kind == "raw") { string s = unhex(arg); return DO(serialized(s)); }
        if (kind == "ref") return DO(refs[atoi(arg.c_str())]);
        if (kind == "doc") return DO(docs[atoi(arg.c_str())]);
        return false;
#undef DO
      };
      // WITHKEY(kk, keybytes, expr-using-KEY): the key is handed to the library through source kind kk (default std::string)
#if __cplusplus >= 201703L
#define KEY_SV(ks, body) else if (kk == "sv") { string kl_ = ks + "97"; std::string_view KEY(kl_.data(), ks.size()); body; } \
        else if (kk == "sva") { string kl_ = ks + "97"; const char* al_ = aliasOf(ks, docs); std::string_view KEY(al_ ? al_ : kl_.data(), ks.size()); body; }
#else
#define KEY_SV(ks, body)
#endif
#define WITHKEY(kk, ks, body) do { \
        if (kk == "sp") { std::vector<char> kb_(ks.begin(), ks.end()); kb_.push_back(0); char* KEY = kb_.data(); body; memset(kb_.data(), 'Z', kb_.size()); } \
        else if (kk == "sj") { string kl_ = ks + "97"; JsonString KEY(kl_.data(), ks.size(), JsonString::Copied); body; } \
        else if (kk == "sjl") { JsonString KEY(keep(ks), JsonString::Linked); body; } \
        KEY_SV(ks, body) \
        else { const string& KEY = ks; body; } } while (0)
      if (op == "reset") { for (int i = 0; i < 3; i++) { JsonDocument e(&HSPY[i]); swap(docs[i], e); } for (auto& r : refs) r = JsonVariant(); for (auto& s : HSPY) { s.resetCounters(); s.logging = true; } GLOG.clear(); }
      else if (op == "geo") { int a, b, c, so; unsigned long long mx = StringNode::maxLength; is >> a >> b >> c >> so; is >> mx;
        if (a != ARDUINOJSON_POOL_CAPACITY || b != ARDUINOJSON_INITIAL_POOL_COUNT || c != ARDUINOJSON_SLOT_ID_SIZE || so != (int)StringNode::sizeForLength(0) || mx != (unsigned long long)StringNode::maxLength) { std::cout << "geo-mismatch\n"; continue; } }
      else if (op == "root") { int r, d; is >> r >> d; refs[r] = docs[d].as<JsonVariant>(); }
      else if (op == "mem") { int r, r2; string k, kk; is >> r >> r2 >> k >> kk; string key = unhex(k); JsonVariant v; WITHKEY(kk, key, v = refs[r2][KEY]); refs[r] = v; }
      else if (op == "memw") { int r, r2; string k, kk; is >> r >> r2 >> k >> kk; string key = unhex(k); JsonVariant v; WITHKEY(kk, key, v = refs[r2][KEY].template to<JsonVariant>()); refs[r] = v; }
      else if (op == "elem") { int r, r2; size_t i; is >> r >> r2 >> i; JsonVariant v = refs[r2][i]; refs[r] = v; }
      else if (op == "elemw") { int r, r2; size_t i; is >> r >> r2 >> i; refs[r] = refs[r2][i].to<JsonVariant>(); }
      else if (op == "set") { int r; string k, a; is >> r >> k >> a; out = val(refs[r], false, k, a) ? "1" : "0"; }
      else if (op == "setm") { int r; string key, k, a, kk; is >> r >> key >> k >> a >> kk; string ks = unhex(key); bool ok = false;
#define SETM_BODY { auto px = refs[r][KEY]; \
        if (k == "null") ok = px.set(nullptr); else if (k == "i") ok = px.set((long long)strtoll(a.c_str(), 0, 10)); else if (k == "sc") { string s = unhex(a); ok = px.set(s); } \
        else if (k == "sl") ok = px.set(LIT[atoi(a.c_str())]); else if (k == "ref") ok = px.set(refs[atoi(a.c_str())]); \
        else if (k == "d") { uint64_t b = strtoull(a.c_str(), 0, 16); double f; memcpy(&f, &b, 8); ok = px.set(f); } else ok = false; }
        WITHKEY(kk, ks, SETM_BODY); out = ok ? "1" : "0"; }
      else if (op == "sete") { int r; size_t i; string k, a; is >> r >> i >> k >> a; auto px = refs[r][i]; bool ok;
        if (k == "null") ok = px.set(nullptr); else if (k == "i") ok = px.set((long long)strtoll(a.c_str(), 0, 10)); else if (k == "sc") { string s = unhex(a); ok = px.set(s); }
        else if (k == "ref") ok = px.set(refs[atoi(a.c_str())]); else ok = false; out = ok ? "1" : "0"; }
      else if (op == "add") { int r; string k, a; is >> r >> k >> a; out = val(refs[r], true, k, a) ? "1" : "0"; }
      else if (op == "addv") { int r, r2; is >> r >> r2; refs[r] = refs[r2].add<JsonVariant>(); }
      else if (op == "toarr") { int r, r2; is >> r >> r2; JsonArray a = refs[r2].to<JsonArray>(); refs[r] = a; }
      else if (op == "toobj") { int r, r2; is >> r >> r2; JsonObject o = refs[r2].to<JsonObject>(); refs[r] = o; }
      else if (op == "remi") { int r; size_t i; is >> r >> i; refs[r].remove(i); }
      else if (op == "remk") { int r; string k, kk; is >> r >> k >> kk; string key = unhex(k); WITHKEY(kk, key, refs[r].remove(KEY)); }
      else if (op == "clear") { int r; is >> r; refs[r].clear(); }
      else if (op == "cleardoc") { int d; is >> d; docs[d].clear(); }
      else if (op == "copydoc") { int d, e; is >> d >> e; docs[d] = docs[e]; }
      else if (op == "swapdoc") { int d, e; is >> d >> e; swap(docs[d], docs[e]); }
      else if (op == "shrink") { int d; is >> d; docs[d].shrinkToFit(); }
      else if (op == "rd2") {
        // read-only expressions on refs[r][x][y] through the chained proxies of the mutable API (is/as/isNull/size/nesting/operator|/==): none may change the document
        int r; string t1, a1, t2, a2; is >> r >> t1 >> a1 >> t2 >> a2; string k1 = unhex(a1), k2 = unhex(a2); size_t i1 = (size_t)atol(a1.c_str()), i2 = (size_t)atol(a2.c_str());
        auto probe = [&](auto&& p) { (void)p.isNull(); (void)p.template is<int>(); (void)p.template as<long long>(); (void)p.size(); (void)p.nesting(); (void)(p | 5); (void)(p == 3);
                                     (void)p.template as<JsonVariantConst>(); return showS(p.template as<JsonVariantConst>()); };
        if (t1 == "m" && t2 == "m") out = probe(refs[r][k1][k2]);
        else if (t1 == "m" && t2 == "e") out = probe(refs[r][k1][i2]);
        else if (t1 == "e" && t2 == "m") out = probe(refs[r][i1][k2]);
        else out = probe(refs[r][i1][i2]); }
      else if (op == "deserj" || op == "deserm") { int r, lim; string hex; is >> r >> lim >> hex; string in = unhex(hex);
        DeserializationError e = op == "deserj" ? deserializeJson(refs[r], in.data(), in.size(), DeserializationOption::NestingLimit((uint8_t)lim))
                                                : deserializeMsgPack(refs[r], in.data(), in.size(), DeserializationOption::NestingLimit((uint8_t)lim));
        out = e.c_str(); }
      else if (op == "failat") { int d; long k; is >> d >> k; HSPY[d].failAt.insert(HSPY[d].calls + k); }
      else if (op == "failfrom") { int d; long k; is >> d >> k; HSPY[d].failFrom = HSPY[d].calls + k; }
      else if (op == "nofail") { int d; is >> d; HSPY[d].failAt.clear(); HSPY[d].failFrom = -1; }
      else if (op == "ledger") { for (int i = 0; i < 3; i++) out += "L" + std::to_string(i) + "=" + std::to_string(HSPY[i].live.size()) + " "; }
      else if (op == "hser") { int d; is >> d; string j, m; serializeJson(docs[d], j); serializeMsgPack(docs[d], m); out = (j.empty() ? "-" : hexs(j)) + " " + (m.empty() ? "-" : hexs(m)); }
      else if (op == "obs") {
        string sx; for (auto& d : docs) { show(d.as<JsonVariantConst>(), sx); sx += " n=" + std::to_string(d.nesting()) + " z=" + std::to_string(d.size()) + " o=" + (d.overflowed() ? "1" : "0") + " ; "; }
        int r; while (is >> r) { sx += "r" + std::to_string(r) + "="; show(refs[r], sx); sx += " z=" + std::to_string(refs[r].size()) + " n=" + std::to_string(refs[r].nesting()) + " "; }
        out = sx; }
      else if (op == "obsx") { int r; is >> r; JsonVariantConst v = refs[r]; char buf[300];
        double g = v.as<double>(); float f = v.as<float>(); uint32_t fb; uint64_t gb; memcpy(&fb, &f, 4); memcpy(&gb, &g, 8);
        JsonString js = v.as<JsonString>();
        snprintf(buf, sizeof buf, "i64=%lld u64=%llu i8=%d f=%08x d=%016llx b=%d is=%d%d%d%d%d%d%d%d str=%s", (long long)v.as<long long>(), (unsigned long long)v.as<unsigned long long>(), (int)v.as<signed char>(),
                 fb, (unsigned long long)gb, (int)v.as<bool>(), (int)v.is<long long>(), (int)v.is<double>(), (int)v.is<bool>(), (int)v.is<const char*>(), (int)v.is<JsonString>(),
                 (int)v.is<JsonArrayConst>(), (int)v.is<JsonObjectConst>(), (int)v.isNull(), "");
        out = string(buf) + (js.c_str() ? "S" + hexs(js.c_str(), js.size()) : string("null"));      // the string is appended outside the fixed buffer: it may be as long as the longest storable string
        if (js.c_str() && js.c_str()[js.size()] != 0) out += " NOT-NUL-TERMINATED";
        const char* cs = v.as<const char*>(); if ((cs == nullptr) != (js.c_str() == nullptr)) out += " CSTR-MISMATCH"; }
      string lg = HLOG();
      if (UNTERMINATED) { out += " NOT-NUL-TERMINATED"; UNTERMINATED = 0; }
      out = op + " " + out + "|" + lg;
      for (auto& sp : HSPY) if (sp.bad) out += " ALLOCATOR-MISUSE";
    } else if (op == "jsonre" || op == "mpre") {
      // C03: the same document object is filled, traversed, serialized, (implicitly) cleared and reused
      int cfg = cfgBits(), lim; string ha, hb; if (op == "jsonre") is >> cfg; is >> lim >> ha >> hb;
      if (cfg != cfgBits()) { std::cout << "cfg-mismatch\n"; continue; }
      string a = unhex(ha), b = unhex(hb);
      JsonDocument d(&SPY0);
      auto once = [&](const string& in) {
        DeserializationError e = op == "jsonre" ? deserializeJson(d, in.data(), in.size(), DeserializationOption::NestingLimit((uint8_t)lim))
                                                : deserializeMsgPack(d, in.data(), in.size(), DeserializationOption::NestingLimit((uint8_t)lim));
        string j; serializeJson(d, j); string m; serializeMsgPack(d, m);
        return string(e.c_str()) + " " + showS(d.as<JsonVariantConst>());
      };
      out = once(a) + " ; " + once(b);
      d.clear(); out += " ; " + once(a);
    } else if (op == "dfaultall") {
      // C05 for deserialization: every single-failure position k in 1..N and every fail-from-k schedule of one input
      char fmt; string hex; is >> fmt >> hex; string in = unhex(hex);
      auto deserOnce = [&](JsonDocument& d) { return fmt == 'j' ? deserializeJson(d, in.data(), in.size(), DeserializationOption::NestingLimit(20))
                                                                : deserializeMsgPack(d, in.data(), in.size(), DeserializationOption::NestingLimit(20)); };
      static Spy FS(7);
      FS.resetCounters();
      string ref; DeserializationError refErr;
      { JsonDocument d(&FS); refErr = deserOnce(d); ref = showS(d.as<JsonVariantConst>()); }
      long N = FS.calls; string bad; long runs = 0;
      if (!FS.live.empty()) bad = "leak-in-reference-run";
      for (int mode = 0; mode < 2 && bad.empty(); mode++)
        for (long k = 1; k <= N && bad.empty(); k++) {
          FS.resetCounters();
          if (mode == 0) FS.failAt.insert(k); else FS.failFrom = k;
          runs++;
          {
            JsonDocument d(&FS);
            DeserializationError e = deserOnce(d);
            bool failed = FS.nfailed > 0;
            string tag = string(mode ? "from" : "single") + " k=" + std::to_string(k);
            string t = showS(d.as<JsonVariantConst>());     // the partial document must be traversable
            string j; serializeJson(d, j); string m; serializeMsgPack(d, m);
            // a failed allocation must never end in Ok; NoMemory is expected unless the input is malformed anyway (then its own error may come first)
            if (failed && (e == DeserializationError::Ok || (e != DeserializationError::NoMemory && refErr == DeserializationError::Ok)))
              bad = tag + ": an allocation failed but the call returned " + e.c_str();
            else if (failed && !d.overflowed()) bad = tag + ": an allocation failed but overflowed() is false";
            else if (!failed && (e != refErr || t != ref)) bad = tag + ": no allocation failed but the result differs from the reference run";
            d.clear();
            if (bad.empty() && !FS.live.empty()) bad = tag + ": " + std::to_string(FS.live.size()) + " block(s) still allocated after clear()";
            // after clear() the document works normally as soon as allocation succeeds again
            FS.failAt.clear(); FS.failFrom = -1;
            DeserializationError e2 = deserOnce(d);
            if (bad.empty() && (e2 != refErr || showS(d.as<JsonVariantConst>()) != ref)) bad = tag + ": after clear() the document does not work normally (" + e2.c_str() + ")";
          }
          if (bad.empty() && !FS.live.empty()) bad = string(mode ? "from" : "single") + " k=" + std::to_string(k) + ": blocks left after destruction";
          if (FS.bad) bad = "allocator misuse";
        }
      out = "N=" + std::to_string(N) + " runs=" + std::to_string(runs) + " ref=" + refErr.c_str() + (bad.empty() ? " all-ok" : " BAD " + bad);
    } else if (op == "streamf") {
      // successive filtered calls on one reader (counting reader and block-buffered std::istream)
      int cfg, lim, chunk; string fhex, hex; is >> cfg >> lim >> chunk >> fhex >> hex;
      if (cfg != cfgBits()) { std::cout << "cfg-mismatch\n"; continue; }
      string in = unhex(hex); Block b(in); CountingReader r{b.p, in.size()}; r.chunk = (size_t)chunk;
      BlockBuf bb(b.p, in.size(), 1 + in.size() % 7); std::istream bis(&bb);
      JsonDocument fd; string f = unhex(fhex); deserializeJson(fd, f, DeserializationOption::NestingLimit(20));
      for (int k = 0; k < 40; k++) {
        JsonDocument d(&SPY0), d3(&SPY0);
        DeserializationError e = deserializeJson(d, r, DeserializationOption::Filter(fd.as<JsonVariantConst>()), DeserializationOption::NestingLimit((uint8_t)lim));
        DeserializationError e3 = deserializeJson(d3, bis, DeserializationOption::Filter(fd.as<JsonVariantConst>()), DeserializationOption::NestingLimit((uint8_t)lim));
        out += string(e.c_str()) + " " + showS(d.as<JsonVariantConst>()) + " " + std::to_string(r.pos) + ";";
        if (e != e3 || showS(d.as<JsonVariantConst>()) != showS(d3.as<JsonVariantConst>()) || bb.consumed() != r.pos) out += "ISTREAM-DIFFERS:block-buffered;";
        if (e != DeserializationError::Ok) break;
        if (r.pos >= in.size()) break;
      }
    } else if (op == "stream" || op == "mpstream") {
      // successive calls on one reader until the input is exhausted or 40 calls were made
      int cfg = 0, lim, chunk; string hex;
      if (op == "stream") is >> cfg;
      is >> lim >> chunk >> hex;
      if (op == "stream" && cfg != cfgBits()) { std::cout << "cfg-mismatch\n"; continue; }
      string in = unhex(hex); Block b(in); CountingReader r{b.p, in.size()}; r.chunk = (size_t)chunk;
      std::istringstream iss(in);
      BlockBuf bb(b.p, in.size(), 1 + in.size() % 7); std::istream bis(&bb);
      for (int k = 0; k < 40; k++) {
        JsonDocument d(&SPY0), d2(&SPY0), d3(&SPY0);
        DeserializationError e3 = op == "stream" ? deserializeJson(d3, bis, DeserializationOption::NestingLimit((uint8_t)lim))
                                                 : deserializeMsgPack(d3, bis, DeserializationOption::NestingLimit((uint8_t)lim));
        DeserializationError e = op == "stream" ? deserializeJson(d, r, DeserializationOption::NestingLimit((uint8_t)lim))
                                                : deserializeMsgPack(d, r, DeserializationOption::NestingLimit((uint8_t)lim));
        DeserializationError e2 = op == "stream" ? deserializeJson(d2, iss, DeserializationOption::NestingLimit((uint8_t)lim))
                                                 : deserializeMsgPack(d2, iss, DeserializationOption::NestingLimit((uint8_t)lim));
        out += string(e.c_str()) + " " + showS(d.as<JsonVariantConst>()) + " " + std::to_string(r.pos) + ";";
        if (e != e2 || showS(d.as<JsonVariantConst>()) != showS(d2.as<JsonVariantConst>())) out += "ISTREAM-DIFFERS;";
        if (e != e3 || showS(d.as<JsonVariantConst>()) != showS(d3.as<JsonVariantConst>()) || bb.consumed() != r.pos) out += "ISTREAM-DIFFERS:block-buffered;";
        if (e != DeserializationError::Ok) break;
        if (r.pos >= in.size()) break;
      }
    } else if (op == "depth") {
      // C15: code, nesting and stack bytes used below the call
      char fmt; int cfg, lim; string fhex, hex; is >> fmt >> cfg >> lim >> fhex >> hex;
      string in = unhex(hex); Block b(in); CountingReader r{b.p, in.size()};
      JsonDocument d(&SPY0); DeserializationError e;
      char top; uintptr_t base = (uintptr_t)&top;
      if (fhex == "-") e = fmt == 'j' ? deserializeJson(d, r, DeserializationOption::NestingLimit((uint8_t)lim)) : deserializeMsgPack(d, r, DeserializationOption::NestingLimit((uint8_t)lim));
      else {
        JsonDocument fd; string f = unhex(fhex); deserializeJson(fd, f, DeserializationOption::NestingLimit(20));
        // both orders of the two options are legal: odd limits pass (NestingLimit, Filter), even ones (Filter, NestingLimit)
        if (lim % 2)
          e = fmt == 'j' ? deserializeJson(d, r, DeserializationOption::NestingLimit((uint8_t)lim), DeserializationOption::Filter(fd.as<JsonVariantConst>()))
                         : deserializeMsgPack(d, r, DeserializationOption::NestingLimit((uint8_t)lim), DeserializationOption::Filter(fd.as<JsonVariantConst>()));
        else
          e = fmt == 'j' ? deserializeJson(d, r, DeserializationOption::Filter(fd.as<JsonVariantConst>()), DeserializationOption::NestingLimit((uint8_t)lim))
                         : deserializeMsgPack(d, r, DeserializationOption::Filter(fd.as<JsonVariantConst>()), DeserializationOption::NestingLimit((uint8_t)lim));
      }
      long used = r.lowStack == ~(uintptr_t)0 ? 0 : (long)(base - r.lowStack);
      out = string(e.c_str()) + " nesting=" + std::to_string(d.nesting()) + " pos=" + std::to_string(r.pos) + " stack=" + std::to_string(used);
    } else {
      out = "bad-op";
    }
    if (SPY0.bad) out += " ALLOCATOR-MISUSE";
    std::cout << out << "\n";
    std::cout.flush();
  }
  std::cout.flush();
  if (!SPY0.live.empty()) { std::cout << "LEAK " << SPY0.live.size() << "\n"; return 3; }
  return 0;
}
