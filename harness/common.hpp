// Shared pieces of the correspondence harness: hex, canonical tree printer, term builder, spying allocator.
// Everything here calls the real library in-process; nothing re-implements library behaviour.
#pragma once
#ifdef AJ_ARDUINO
#  include <Arduino.h>
#endif
#include <ArduinoJson.h>
#include <cstdio>
#include <cstdlib>
#include <cstring>
#include <deque>
#include <iostream>
#include <map>
#include <set>
#include <sstream>
#include <streambuf>
#include <string>
#include <vector>
#if __cplusplus >= 201703L
#  include <string_view>
#endif

using namespace ArduinoJson;
using namespace ArduinoJson::detail;
using std::string;

static string hexs(const char* p, size_t n) {
  static const char* H = "0123456789abcdef";
  string o;
  o.reserve(2 * n);
  for (size_t i = 0; i < n; i++) {
    unsigned char c = (unsigned char)p[i];
    o += H[c >> 4];
    o += H[c & 15];
  }
  return o;
}
static string hexs(const string& s) { return hexs(s.data(), s.size()); }
static int hv(char c) { return c <= '9' ? c - '0' : (c >= 'a' ? c - 'a' + 10 : c - 'A' + 10); }
static string unhex(const string& s) {
  string o;
  if (s == "-") return o;
  for (size_t i = 0; i + 1 < s.size(); i += 2) o += (char)(hv(s[i]) * 16 + hv(s[i + 1]));
  return o;
}

// canonical tree: storage kind, integer value, float bits, string bytes in hex, members in document order
static int UNTERMINATED = 0;   // strings met by show() whose byte at [size] is not NUL (every string the library hands out is documented as terminated)
static void show(JsonVariantConst v, string& o) {
  const VariantData* d = VariantAttorney::getData(v);
  if (!d) { o += "?"; return; }
  char buf[48];
  switch (d->type()) {
    case VariantType::Null: o += "N"; break;
    case VariantType::Boolean: o += v.as<bool>() ? "T" : "F"; break;
    case VariantType::Uint32:
#if ARDUINOJSON_USE_LONG_LONG
    case VariantType::Uint64:
#endif
      snprintf(buf, 48, "U%llu", (unsigned long long)v.as<uint64_t>()); o += buf; break;
    case VariantType::Int32:
#if ARDUINOJSON_USE_LONG_LONG
    case VariantType::Int64:
#endif
      snprintf(buf, 48, "I%lld", (long long)v.as<int64_t>()); o += buf; break;
    case VariantType::Float: { float f = v.as<float>(); uint32_t b; memcpy(&b, &f, 4); snprintf(buf, 48, "f%08x", b); o += buf; break; }
#if ARDUINOJSON_USE_DOUBLE
    case VariantType::Double: { double f = v.as<double>(); uint64_t b; memcpy(&b, &f, 8); snprintf(buf, 48, "d%016llx", (unsigned long long)b); o += buf; break; }
#endif
    case VariantType::LinkedString:
    case VariantType::OwnedString: { JsonString s = v.as<JsonString>(); o += "S" + hexs(s.c_str(), s.size()); if (s.c_str() && s.c_str()[s.size()] != 0) UNTERMINATED++; break; }
    case VariantType::RawString: { JsonString s = d->asRawString(); o += "R" + hexs(s.c_str(), s.size()); break; }
    case VariantType::Array: {
      o += "["; bool first = true;
      for (JsonVariantConst e : v.as<JsonArrayConst>()) { if (!first) o += ","; first = false; show(e, o); }
      o += "]"; break; }
    case VariantType::Object: {
      o += "{"; bool first = true;
      for (JsonPairConst kv : v.as<JsonObjectConst>()) {
        if (!first) o += ","; first = false;
        o += hexs(kv.key().c_str(), kv.key().size()); if (kv.key().c_str() && kv.key().c_str()[kv.key().size()] != 0) UNTERMINATED++; o += ":"; show(kv.value(), o); }
      o += "}"; break; }
  }
}
static string showS(JsonVariantConst v) { string o; show(v, o); return o; }

// storage for strings handed over by address
static std::deque<string> ARENA;
static const char* keep(const string& s) { ARENA.push_back(s); return ARENA.back().c_str(); }

// term := N | T | F | U<dec> | I<dec> | f<8hex> | d<16hex> | S<hex> | L<hex> | R<hex> | [t,..] | {[l]<hex>:t,..}
static bool build(JsonVariant dst, const char*& p) {
  char c = *p++;
  auto hexrun = [&]() { string h; while (isxdigit((unsigned char)*p)) h += *p++; return unhex(h); };
  switch (c) {
    case 'N': return dst.set(nullptr);
    case 'T': return dst.set(true);
    case 'F': return dst.set(false);
    case 'U': { char* e; unsigned long long v = strtoull(p, &e, 10); p = e; return dst.set(v); }
    case 'I': { char* e; long long v = strtoll(p, &e, 10); p = e; return dst.set(v); }
    case 'f': { string h(p, 8); p += 8; uint32_t b = (uint32_t)strtoul(h.c_str(), 0, 16); float f; memcpy(&f, &b, 4); return dst.set(f); }
    case 'd': { string h(p, 16); p += 16; uint64_t b = strtoull(h.c_str(), 0, 16); double f; memcpy(&f, &b, 8); return dst.set(f); }
    case 'S': { string s = hexrun(); return dst.set(s); }
    case 'L': { string s = hexrun(); return dst.set(keep(s)); }
    case 'R': { string s = hexrun(); return dst.set(serialized(s)); }
    case 'B': { string s = hexrun(); return dst.set(MsgPackBinary(s.data(), s.size())); }
    case 'X': { string s = hexrun(); if (s.empty()) return false; return dst.set(MsgPackExtension((int8_t)s[0], s.data() + 1, s.size() - 1)); }
    case '[': {
      JsonArray a = dst.to<JsonArray>(); bool ok = true;
      if (*p == ']') { p++; return true; }
      for (;;) {
        JsonVariant e = a.add<JsonVariant>();
        if (e.isUnbound()) { ok = false; JsonDocument tmp; JsonVariant t = tmp.to<JsonVariant>(); build(t, p); }
        else ok = build(e, p) && ok;
        if (*p == ',') { p++; continue; }
        if (*p == ']') { p++; break; }
        return false;
      }
      return ok; }
    case '{': {
      JsonObject ob = dst.to<JsonObject>(); bool ok = true;
      if (*p == '}') { p++; return true; }
      for (;;) {
        bool linked = false;
        if (*p == 'l') { linked = true; p++; }
        string k = hexrun();
        if (*p != ':') return false;
        p++;
        JsonVariant m = linked ? ob[keep(k)].to<JsonVariant>() : ob[k].to<JsonVariant>();
        if (m.isUnbound()) { ok = false; JsonDocument tmp; JsonVariant t = tmp.to<JsonVariant>(); build(t, p); }
        else ok = build(m, p) && ok;
        if (*p == ',') { p++; continue; }
        if (*p == '}') { p++; break; }
        return false;
      }
      return ok; }
  }
  return false;
}

// document source: t:<term> | m:<msgpack hex> | j:<json hex>
static bool buildDoc(JsonDocument& doc, const string& spec) {
  if (spec.size() < 2 || spec[1] != ':') return false;
  string body = spec.substr(2);
  if (spec[0] == 't') { const char* p = body.c_str(); return build(doc.to<JsonVariant>(), p); }
  if (spec[0] == 'm') { string b = unhex(body); return deserializeMsgPack(doc, b.data(), b.size(), DeserializationOption::NestingLimit(100)) == DeserializationError::Ok; }
  if (spec[0] == 'j') { string b = unhex(body); return deserializeJson(doc, b.data(), b.size(), DeserializationOption::NestingLimit(100)) == DeserializationError::Ok; }
  return false;
}

// Spying allocator: ledger of live blocks, call log, failure schedule (positions of allocate / growing reallocate)
static string GLOG;   // chronological log shared by all logging allocators

struct Spy : Allocator {
  int id;
  std::map<void*, size_t> live;
  long calls = 0;          // allocate + reallocate calls, 1-based positions
  std::set<long> failAt;   // one-shot failures
  long failFrom = -1;      // fail every call from this position on
  string log;
  bool logging = false;
  size_t requested = 0;    // total bytes requested by successful and failed calls
  size_t cur = 0, peak = 0; // bytes currently held, and their high-water mark since markPeak()
  void markPeak() { peak = cur; }
  long nalloc = 0, nrealloc = 0, nfree = 0, nfailed = 0;
  bool bad = false;
  explicit Spy(int i = 0) : id(i) {}
  void resetCounters() { calls = 0; failAt.clear(); failFrom = -1; log.clear(); requested = 0; nalloc = nrealloc = nfree = nfailed = 0; bad = false; }
  bool shouldFail() const { return failAt.count(calls) || (failFrom >= 0 && calls >= failFrom); }
  void* allocate(size_t n) override {
    calls++; nalloc++; requested += n;
    bool f = shouldFail();
    if (logging) GLOG += " a" + std::to_string(id) + ":A" + std::to_string(n) + (f ? "!" : "");
    if (f) { nfailed++; return nullptr; }
    void* p = malloc(n ? n : 1);
    live[p] = n; cur += n; if (cur > peak) peak = cur;
    return p;
  }
  void deallocate(void* p) override {
    nfree++;
    if (logging) GLOG += " a" + std::to_string(id) + ":D";
    if (!live.count(p)) { bad = true; std::cout << "BADFREE" << std::endl; abort(); }
    memset(p, 0xDD, live[p]);
    cur -= live[p];
    live.erase(p);
    free(p);
  }
  void* reallocate(void* p, size_t n) override {
    calls++; nrealloc++;
    size_t old = 0;
    if (p) { if (!live.count(p)) { bad = true; std::cout << "BADREALLOC" << std::endl; abort(); } old = live[p]; }
    bool growing = n > old;        // reallocate(nullptr, 0) asks for nothing and is never made to fail
    if (growing) requested += n - old;
    bool f = growing && shouldFail();
    if (logging) GLOG += " a" + std::to_string(id) + ":R" + std::to_string(n) + (f ? "!" : "");
    if (f) { nfailed++; return nullptr; }
    // always move the block so that stale pointers are caught by ASan
    void* q = malloc(n ? n : 1);
    if (p) { memcpy(q, p, old < n ? old : n); memset(p, 0xDD, old); live.erase(p); free(p); }
    live[q] = n; cur += n; cur -= old; if (cur > peak) peak = cur;
    return q;
  }
  size_t liveBytes() const { size_t s = 0; for (auto& kv : live) s += kv.second; return s; }
};

struct CountingReader {
  const char* p; size_t n; size_t pos = 0; size_t chunk = 0;  // chunk>0: readBytes delivers at most `chunk` bytes per call
  uintptr_t lowStack = ~(uintptr_t)0;
  int read() { char probe; uintptr_t a = (uintptr_t)&probe; if (a < lowStack) lowStack = a; if (pos < n) return (unsigned char)p[pos++]; return -1; }
  size_t readBytes(char* b, size_t k) {
    char probe; uintptr_t a = (uintptr_t)&probe; if (a < lowStack) lowStack = a;
    size_t i = 0; while (i < k && pos < n) b[i++] = p[pos++]; return i; }
};

// std::streambuf that refills from the input in blocks of `bs` bytes (a file or socket buffer in miniature); it overrides
// underflow() only, as a minimal user stream buffer does
struct BlockBuf : std::streambuf {
  const char* p; size_t n; size_t off = 0; size_t bs; std::vector<char> buf;
  BlockBuf(const char* p_, size_t n_, size_t bs_) : p(p_), n(n_), bs(bs_ ? bs_ : 1), buf(bs_ ? bs_ : 1) { setg(buf.data(), buf.data(), buf.data()); }
  int_type underflow() override {
    if (gptr() < egptr()) return traits_type::to_int_type(*gptr());
    if (off >= n) return traits_type::eof();
    size_t k = n - off < bs ? n - off : bs;
    memcpy(buf.data(), p + off, k); off += k;
    setg(buf.data(), buf.data(), buf.data() + k);
    return traits_type::to_int_type(*gptr());
  }
  size_t consumed() const { return off - (size_t)(egptr() - gptr()); }
};

// exactly-sized heap copy of the input, so that ASan sees any read beyond it
struct Block {
  char* p; size_t n;
  explicit Block(const string& s, bool zeroTerminated = false) {
    n = s.size() + (zeroTerminated ? 1 : 0);
    p = (char*)malloc(n ? n : 1);
    memcpy(p, s.data(), s.size());
    if (zeroTerminated) p[s.size()] = 0;
  }
  ~Block() { free(p); }
};
