// Translator, part 3: the character classes and the hex-digit decoder of the JSON deserializer, obtained by CALLING the private static
// functions of the class compiled from /repo for every byte value. tools/gen_tables.py turns the output into lean/AJ/Gen/Tables.lean on
// every run; lean/AJ/Props/C10Gen.lean proves that the model's predicates are exactly these tables.
#include <cstdio>
#include <cstring>
#include <cstdint>
#include <string>
#include <istream>
#include <ostream>
#include <sstream>
#include <utility>
#include <type_traits>
#include <new>
#include <limits>
#define private public
#define protected public
#include <ArduinoJson.h>
#undef private
#undef protected
using namespace ArduinoJson;
using namespace ArduinoJson::detail;
typedef JsonDeserializer<BoundedReader<const char*>> JD;
int main() {
  printf("cls_number");
  for (int c = 0; c < 256; c++) if (JD::canBeInNumber((char)c)) printf(" %d", c);
  printf("\ncls_unquoted");
  for (int c = 0; c < 256; c++) if (JD::canBeInNonQuotedString((char)c)) printf(" %d", c);
  printf("\ncls_quote");
  for (int c = 0; c < 256; c++) if (JD::isQuote((char)c)) printf(" %d", c);
  printf("\ncls_space");
  for (int c = 0; c < 256; c++) if (JD::isSpace((char)c)) printf(" %d", c);      // called with the char the deserializer holds
  printf("\nhexdigit");
  for (int c = 0; c < 256; c++) { unsigned v = JD::decodeHex((char)c); if (v <= 0x0F) printf(" %d:%u", c, v); }
  printf("\n");
  return 0;
}
