// Translator, part 8: the six comparison operators between two JsonVariantConst, obtained by CALLING the public API compiled from /repo on every ordered
// pair of 18 values (null, booleans, integers of both signs and at the 64-bit limits, floats, doubles, NaN, strings, arrays, objects).
// tools/gen_tables.py turns the output into lean/AJ/Gen/Tables.lean on every run; lean/AJ/Props/C18Gen.lean evaluates the comparison model on the same pairs.
#include <ArduinoJson.h>
#include <cstdio>
#include <cstring>
#include <vector>
using namespace ArduinoJson;
int main() {
  std::vector<JsonDocument> docs(18);
  docs[0].clear();                       // null
  docs[1].set(true); docs[2].set(false);
  docs[3].set(0); docs[4].set(1); docs[5].set(-1);
  docs[6].set(1.0f); docs[7].set(1.5); 
  { unsigned long long b = 0x7FF8000000000000ull; double g; memcpy(&g, &b, 8); docs[8].set(g); }      // NaN
  docs[9].set(9223372036854775808ull); docs[10].set(-9223372036854775807ll - 1);
  docs[11].set("a"); docs[12].set("b"); docs[13].set("");
  deserializeJson(docs[14], "[1]"); deserializeJson(docs[15], "[1,2]"); deserializeJson(docs[16], "{\"a\":1}"); deserializeJson(docs[17], "{\"a\":1,\"b\":2}");
  printf("cmp_rows");
  for (int i = 0; i < 18; i++) for (int j = 0; j < 18; j++) {
    JsonVariantConst a = docs[i].as<JsonVariantConst>(), b = docs[j].as<JsonVariantConst>();
    printf(" %d:%d:%d%d%d%d%d%d", i, j, (int)(a == b), (int)(a != b), (int)(a < b), (int)(a <= b), (int)(a > b), (int)(a >= b));
  }
  printf("\n");
  return 0;
}
