// Translator, part 6: typed extraction as<T>() for a fixed list of stored values at and around every type boundary, obtained by CALLING the public API
// compiled from /repo. For each stored value: as<int8_t>() … as<uint64_t>(), the bits of as<float>() and as<double>(). tools/gen_tables.py turns the
// output into lean/AJ/Gen/Tables.lean on every run; lean/AJ/Props/C13Gen.lean proves by kernel evaluation that the conversion model gives the same.
#include <ArduinoJson.h>
#include <cstdio>
#include <cstring>
#include <cstdint>
using namespace ArduinoJson;
static void row(const char* tag, unsigned long long payload, JsonVariantConst v) {
  float f = v.as<float>(); double g = v.as<double>(); uint32_t fb; uint64_t gb; memcpy(&fb, &f, 4); memcpy(&gb, &g, 8);
  if (f != f) fb = 0x7fc00000u;             // NaN payloads are not observable behaviour
  if (g != g) gb = 0x7ff8000000000000ull;
  printf(" %s:%llu:%d:%u:%d:%u:%d:%u:%lld:%llu:%u:%llu", tag, payload, (int)v.as<int8_t>(), (unsigned)v.as<uint8_t>(), (int)v.as<int16_t>(), (unsigned)v.as<uint16_t>(),
         (int)v.as<int32_t>(), (unsigned)v.as<uint32_t>(), (long long)v.as<int64_t>(), (unsigned long long)v.as<uint64_t>(), fb, (unsigned long long)gb);
}
int main() {
  const unsigned long long us[] = {0, 1, 127, 128, 255, 256, 32767, 32768, 65535, 65536, 2147483647ull, 2147483648ull, 4294967295ull, 4294967296ull, 16777217ull, 9007199254740993ull,
                                   9223372036854775807ull, 9223372036854775808ull, 18446744073709551615ull};
  const long long is[] = {-1, -128, -129, -32768, -32769, -2147483647ll - 1, -2147483649ll, -16777217ll, -9007199254740993ll, -9223372036854775807ll - 1};
  const unsigned long long ds[] = {0x0000000000000000ull, 0x8000000000000000ull, 0x3FE0000000000000ull, 0x3FF8000000000000ull, 0xBFF8000000000000ull, 0x405FC00000000000ull, 0x405FE00000000000ull,
                                   0x4060000000000000ull, 0x406FFCCCCCCCCCCDull, 0x4070000000000000ull, 0xC060000000000000ull, 0xC060100000000000ull, 0xC060200000000000ull, 0x40EFFFE000000000ull,
                                   0x40F0000000000000ull, 0x41DFFFFFFFC00000ull, 0x41E0000000000000ull, 0x41EFFFFFFFE00000ull, 0x41F0000000000000ull, 0x43DFFFFFFFFFFFFFull, 0x43E0000000000000ull,
                                   0x43EFFFFFFFFFFFFFull, 0x43F0000000000000ull, 0xC3E0000000000000ull, 0xC3E0000000000001ull, 0x46293E5939A08CEAull, 0xC6293E5939A08CEAull, 0x7FF8000000000000ull,
                                   0x7FF0000000000000ull, 0xFFF0000000000000ull, 0x00000000000007E8ull, 0x47EFFFFFE0000000ull, 0x47EFFFFFF0000000ull, 0x47F0000000000000ull, 0x3FB999999999999Aull,
                                   0x36A0000000000000ull, 0x3690000000000000ull};
  const unsigned fs[] = {0x00000000u, 0x80000000u, 0x3F000000u, 0x42FE0000u, 0x42FF0000u, 0x43000000u, 0xC3000000u, 0xC3008000u, 0x477FFF00u, 0x47800000u, 0x4EFFFFFFu, 0x4F000000u, 0x4F7FFFFFu,
                         0x4F800000u, 0x5EFFFFFFu, 0x5F000000u, 0x5F7FFFFFu, 0x5F800000u, 0xDF000000u, 0xDF000001u, 0x7F7FFFFFu, 0x7F800000u, 0xFF800000u, 0x7FC00000u, 0x00000001u, 0x3DCCCCCDu};
  printf("conv_rows");
  for (unsigned long long u : us) { JsonDocument d; d.set(u); row("U", u, d.as<JsonVariantConst>()); }
  for (long long i : is) { JsonDocument d; d.set(i); row("I", (unsigned long long)i, d.as<JsonVariantConst>()); }
  for (unsigned long long b : ds) { JsonDocument d; double g; memcpy(&g, &b, 8); d.set(g); row("D", b, d.as<JsonVariantConst>()); }
  for (unsigned b : fs) { JsonDocument d; float f; memcpy(&f, &b, 4); d.set(f); row("F", b, d.as<JsonVariantConst>()); }
  printf("\n");
  return 0;
}
