// Translator, part 11: nesting limits and streams, obtained by CALLING the public API compiled from /repo.
// (a) k nested arrays (JSON `[[…1…]]`, MessagePack `91 … 01`) read with NestingLimit(L), for k, L in 0..12: code and serialization of the document left;
// (b) streams of several documents read by successive calls on one reader: per call the code and the document.
// tools/gen_tables.py turns the output into lean/AJ/Gen/Tables.lean on every run; lean/AJ/Props/C15Gen.lean evaluates the models on the same data in the kernel.
#include <ArduinoJson.h>
#include <cstdio>
#include <string>
using namespace ArduinoJson;
struct CountReader {
  const char* p; size_t n; size_t pos;
  int read() { if (pos >= n) return -1; return (unsigned char)p[pos++]; }
  size_t readBytes(char* b, size_t k) { size_t i = 0; while (i < k && pos < n) b[i++] = p[pos++]; return i; }
};
static void hex(const std::string& s) { if (s.empty()) printf("-"); for (unsigned char c : s) printf("%02x", c); }
static int codeNo(DeserializationError e) {
  switch (e.code()) {
    case DeserializationError::Ok: return 0; case DeserializationError::EmptyInput: return 1; case DeserializationError::IncompleteInput: return 2;
    case DeserializationError::InvalidInput: return 3; case DeserializationError::NoMemory: return 4; case DeserializationError::TooDeep: return 5; }
  return 9;
}
int main() {
  printf("depth_rows");
  for (int k = 0; k <= 12; k++) for (int L = 0; L <= 12; L++) {
    std::string j(k, '['), m(k, (char)0x91); j += "1"; j += std::string(k, ']'); m += (char)1;
    JsonDocument dj, dm;
    DeserializationError ej = deserializeJson(dj, j, DeserializationOption::NestingLimit((uint8_t)L));
    DeserializationError em = deserializeMsgPack(dm, m, DeserializationOption::NestingLimit((uint8_t)L));
    std::string sj, sm; serializeJson(dj, sj); serializeJson(dm, sm);
    printf(" %d:%d:%d:", k, L, codeNo(ej)); hex(sj); printf(":%d:", codeNo(em)); hex(sm);
  }
  printf("\n");
  const char* streams[] = {"1 2 3", "[1][2]{\"a\":3}", "\"x\"\"y\" \"z\"", "{\"a\":1}\n{\"a\":2}\n", "1 2 x 3", "[1] [2", "true false null", "1.5\n-2\n[]\n", "  ", "7", "{}{}{}{}", "[1,2] 3 \"s\" {\"k\":[4]} null"};
  printf("stream_rows");
  for (const char* t : streams) {
    std::string in(t); CountReader r{in.data(), in.size(), 0};
    printf(" "); hex(in); printf(":");
    for (int call = 0; call < 8; call++) {
      JsonDocument d; DeserializationError e = deserializeJson(d, r, DeserializationOption::NestingLimit(10));
      std::string s; serializeJson(d, s);
      printf("%s%d.", call ? "," : "", codeNo(e)); hex(s);
      if (e) break;
      if (r.pos >= r.n) break;
    }
  }
  printf("\n");
  return 0;
}
