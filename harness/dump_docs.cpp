// Translator, part 9: whole documents through the serializers and the filter, obtained by CALLING the public API compiled from /repo.
// For each of a fixed list of JSON texts: serializeJson, serializeJsonPretty and serializeMsgPack of the document it denotes; and for each (filter, text) pair of a
// second list: result code and serializeJson of the filtered document. tools/gen_tables.py turns the output into lean/AJ/Gen/Tables.lean on every run;
// lean/AJ/Props/DocGen.lean evaluates the deserializer, serializer, MessagePack and filter models on the same data in the kernel.
#include <ArduinoJson.h>
#include <cstdio>
#include <string>
#include <vector>
using namespace ArduinoJson;
static void hex(const std::string& s) { if (s.empty()) printf("-"); for (unsigned char c : s) printf("%02x", c); }
int main() {
  const char* docs[] = {"null", "true", "false", "0", "-1", "255", "256", "65535", "65536", "4294967295", "4294967296", "-32", "-33", "-128", "-129", "-32768", "-32769", "-2147483648", "-2147483649",
    "1.5", "0.1", "1e10", "3.0", "16777217", "\"\"", "\"a\"", "\"hello world\"", "\"aaaaaaaaaaaaaaaaaaaaaaaaaaaaaaa\"", "\"aaaaaaaaaaaaaaaaaaaaaaaaaaaaaaaa\"", "\"q\\\"b\\\\s\\/\\b\\f\\n\\r\\t\"", "\"\\u00e9\\u20ac\\ud83d\\ude00\"",
    "[]", "{}", "[1]", "[1,2,3]", "[[],[[]],{}]", "{\"a\":1}", "{\"a\":1,\"b\":[true,null],\"c\":{\"d\":\"e\"}}", "[0,1,2,3,4,5,6,7,8,9,10,11,12,13,14]", "[0,1,2,3,4,5,6,7,8,9,10,11,12,13,14,15]",
    "{\"a\":0,\"b\":1,\"c\":2,\"d\":3,\"e\":4,\"f\":5,\"g\":6,\"h\":7,\"i\":8,\"j\":9,\"k\":10,\"l\":11,\"m\":12,\"n\":13,\"o\":14,\"p\":15}", "{\"k\":1,\"k\":2}", "[1.0,2.5,-0.0,1e-7,123456789.125]",
    "{\"\":\"\",\"x\":[{\"y\":[{\"z\":null}]}]}"};
  // two more texts built here: strings of 255 and 256 bytes (str 8 / str 16 boundary)
  static std::string s255 = "\"" + std::string(255, 'z') + "\"", s256 = "[\"" + std::string(256, 'y') + "\"]";
  std::vector<const char*> all(docs, docs + sizeof docs / sizeof docs[0]); all.push_back(s255.c_str()); all.push_back(s256.c_str());
  printf("doc_rows");
  for (const char* t : all) {
    JsonDocument d; deserializeJson(d, (const char*)t, DeserializationOption::NestingLimit(20));
    std::string c, p, m; serializeJson(d, c); serializeJsonPretty(d, p); serializeMsgPack(d, m);
    printf(" "); hex(t); printf(":"); hex(c); printf(":"); hex(p); printf(":"); hex(m);
  }
  printf("\nmpback_rows");
  for (const char* t : all) {
    JsonDocument d; deserializeJson(d, (const char*)t, DeserializationOption::NestingLimit(20));
    std::string m; serializeMsgPack(d, m);
    JsonDocument d2; DeserializationError e = deserializeMsgPack(d2, m, DeserializationOption::NestingLimit(20));
    std::string c2; serializeJson(d2, c2);
    printf(" "); hex(m); printf(":%d:", e == DeserializationError::Ok ? 0 : 3); hex(c2);
  }
  printf("\n");
  const char* filters[] = {"true", "false", "null", "{\"a\":true}", "{\"a\":{\"b\":true}}", "[true]", "[{\"a\":true}]", "{\"*\":true}", "{\"*\":{\"a\":true},\"b\":false}", "{\"a\":[true]}", "{}", "[]", "1", "\"x\""};
  const char* texts[] = {"{\"a\":1,\"b\":2}", "{\"a\":{\"b\":3,\"c\":4},\"b\":{\"a\":5}}", "[1,{\"a\":2,\"b\":3},[4]]", "{\"a\":[1,2,{\"a\":3}],\"c\":\"s\"}", "7", "\"s\"", "[[1],[2]]", "{\"a\":1,\"a\":[2]}", "{\"b\":{\"a\":1,\"z\":2}}"};
  printf("filter_rows");
  for (const char* f : filters) for (const char* t : texts) {
    JsonDocument fd; deserializeJson(fd, (const char*)f);
    JsonDocument d; DeserializationError e = deserializeJson(d, (const char*)t, DeserializationOption::Filter(fd), DeserializationOption::NestingLimit(20));
    std::string c; serializeJson(d, c);
    printf(" "); hex(f); printf(":"); hex(t); printf(":%d:", e == DeserializationError::Ok ? 0 : 3); hex(c);
  }
  printf("\n");
  return 0;
}
