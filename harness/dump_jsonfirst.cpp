// Translator, part 5: the dispatch of deserializeJson on the first byte, obtained by CALLING the public API compiled from /repo for each of the 256
// first bytes followed by three fixed tails (nothing; `1]`; `":1}x`). For each input: result code (as a number), bytes consumed, and the compact
// serialization of the document left. tools/gen_tables.py turns the output into lean/AJ/Gen/Tables.lean on every run (default build and the build with
// comments, NaN and Infinity enabled); lean/AJ/Props/C10Gen2.lean proves by kernel evaluation that the model answers the same on all inputs.
#include <ArduinoJson.h>
#include <cstdio>
#include <string>
using namespace ArduinoJson;
struct CountReader {
  const char* p; size_t n; size_t pos;
  int read() { if (pos >= n) return -1; return (unsigned char)p[pos++]; }
  size_t readBytes(char* b, size_t k) { size_t i = 0; while (i < k && pos < n) b[i++] = p[pos++]; return i; }
};
static int codeNo(DeserializationError e) {
  switch (e.code()) {
    case DeserializationError::Ok: return 0; case DeserializationError::EmptyInput: return 1; case DeserializationError::IncompleteInput: return 2;
    case DeserializationError::InvalidInput: return 3; case DeserializationError::NoMemory: return 4; case DeserializationError::TooDeep: return 5; }
  return 9;
}
int main() {
  const char* tails[3] = {"", "1]", "\":1}x"};
  const char* names[3] = {"jsonfirst_alone", "jsonfirst_elem", "jsonfirst_key"};
  for (int t = 0; t < 3; t++) {
    printf("%s", names[t]);
    for (int b = 0; b < 256; b++) {
      std::string in(1, (char)b); in += tails[t];
      CountReader r{in.data(), in.size(), 0};
      JsonDocument d;
      DeserializationError e = deserializeJson(d, r, DeserializationOption::NestingLimit(10));
      std::string out; serializeJson(d, out);
      printf(" %d:%d:%zu:", b, codeNo(e), r.pos);
      if (out.empty()) printf("-");
      for (unsigned char c : out) printf("%02x", c);
    }
    printf("\n");
  }
  return 0;
}
