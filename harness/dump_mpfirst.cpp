// Translator, part 4: the dispatch of deserializeMsgPack on the first byte, obtained by CALLING the public API compiled from /repo for each of the
// 256 first bytes followed by two fixed tails (nine zero bytes; the bytes 01..09). For each input: result code (as a number), bytes consumed, and the
// re-serialization of the document left. tools/gen_tables.py turns the output into lean/AJ/Gen/Tables.lean on every run; lean/AJ/Props/C09Gen.lean
// proves by kernel evaluation that the model answers exactly the same on all 512 inputs.
#include <ArduinoJson.h>
#include <cstdio>
#include <string>
using namespace ArduinoJson;
struct CountReader {
  const char* p; size_t n; size_t pos;
  int read() { if (pos >= n) return -1; return (unsigned char)p[pos++]; }
  size_t readBytes(char* b, size_t k) { size_t i = 0; while (i < k && pos < n) b[i++] = p[pos++]; return i; }
};
static int codeNo(DeserializationError e) {
  switch (e.code()) {
    case DeserializationError::Ok: return 0; case DeserializationError::EmptyInput: return 1; case DeserializationError::IncompleteInput: return 2;
    case DeserializationError::InvalidInput: return 3; case DeserializationError::NoMemory: return 4; case DeserializationError::TooDeep: return 5; }
  return 9;
}
int main() {
  for (int tail = 0; tail < 2; tail++) {
    printf(tail == 0 ? "mpfirst_zero" : "mpfirst_count");
    for (int b = 0; b < 256; b++) {
      std::string in(1, (char)b);
      for (int i = 1; i <= 9; i++) in += (char)(tail == 0 ? 0 : i);
      CountReader r{in.data(), in.size(), 0};
      JsonDocument d;
      DeserializationError e = deserializeMsgPack(d, r, DeserializationOption::NestingLimit(10));
      std::string out; serializeMsgPack(d, out);
      printf(" %d:%d:%zu:", b, codeNo(e), r.pos);
      if (out.empty()) printf("-");
      for (unsigned char c : out) printf("%02x", c);
    }
    printf("\n");
  }
  return 0;
}
