// Translator, part 7: numbers through text, obtained by CALLING the public API compiled from /repo.
// (a) print: serializeJson of a fixed list of doubles and floats (given by their bits) and of integers; (b) parse: deserializeJson of a fixed list of literals,
// recording the result code, whether the value is stored as an integer, its readings as uint64 / int64 and the bits of as<float>() / as<double>().
// tools/gen_tables.py turns the output into lean/AJ/Gen/Tables.lean on every run; lean/AJ/Props/C12Gen.lean evaluates the number printer, the number
// parser (through the whole deserializer model) and the conversions on the same data in the kernel.
#include <ArduinoJson.h>
#include <cstdio>
#include <cstring>
#include <cstdint>
#include <string>
using namespace ArduinoJson;
static void hex(const std::string& s) { if (s.empty()) printf("-"); for (unsigned char c : s) printf("%02x", c); }
int main() {
  const unsigned long long ds[] = {0x0000000000000000ull, 0x8000000000000000ull, 0x3FF0000000000000ull, 0x3FB999999999999Aull, 0x3FF8000000000000ull, 0x400921FB54442D18ull, 0xC00921FB54442D18ull,
      0x412E848000000000ull, 0x416312D000000000ull, 0x4163125FE0000000ull, 0x3EE4F8B588E368F1ull, 0x3F1A36E2EB1C432Dull, 0x3EB0C6F7A0B5ED8Dull, 0x7FEFFFFFFFFFFFFFull, 0x0010000000000000ull,
      0x0000000000000001ull, 0x7FF0000000000000ull, 0xFFF0000000000000ull, 0x7FF8000000000000ull, 0x4340000000000000ull, 0x433FFFFFFFFFFFFFull, 0x3FEFFFFFFFFFFFFFull, 0x3FC3333333333333ull,
      0x40C3880000000000ull, 0x4197D78400000000ull, 0x3FD5555555555555ull, 0x4058FF5C28F5C28Full, 0x3F50624DD2F1A9FCull, 0x44B52D02C7E14AF6ull, 0x3B4D2D0F8B1E4B3Bull, 0x4024000000000000ull,
      0x41CDCD6500000000ull, 0x41CDCD64FF800000ull, 0x3E112E0BE826D695ull, 0x3E112E0BE826D694ull};
  const unsigned fs[] = {0x00000000u, 0x80000000u, 0x3F800000u, 0x3DCCCCCDu, 0x40490FDBu, 0x7F7FFFFFu, 0x00800000u, 0x00000001u, 0x7F800000u, 0xFF800000u, 0x7FC00000u, 0x4B800000u, 0x4B7FFFFFu,
      0x49742400u, 0x4B18967Fu, 0x3A83126Fu, 0x3F7FFFFFu, 0x501502F9u, 0x3EAAAAABu, 0x42C7FAE1u};
  const unsigned long long us[] = {0, 7, 4294967295ull, 4294967296ull, 18446744073709551615ull};
  const long long is[] = {-1, -2147483648ll, -9223372036854775807ll - 1};
  printf("print_rows");
  for (unsigned long long b : ds) { JsonDocument d; double g; memcpy(&g, &b, 8); d.set(g); std::string s; serializeJson(d, s); printf(" 2:%llu:", b); hex(s); }
  for (unsigned b : fs) { JsonDocument d; float f; memcpy(&f, &b, 4); d.set(f); std::string s; serializeJson(d, s); printf(" 3:%u:", b); hex(s); }
  for (unsigned long long u : us) { JsonDocument d; d.set(u); std::string s; serializeJson(d, s); printf(" 0:%llu:", u); hex(s); }
  for (long long i : is) { JsonDocument d; d.set(i); std::string s; serializeJson(d, s); printf(" 1:%llu:", (unsigned long long)i); hex(s); }
  printf("\n");
  const char* lits[] = {"0", "-0", "7", "-7", "007", "4294967295", "4294967296", "18446744073709551615", "18446744073709551616", "-9223372036854775808", "-9223372036854775809", "9223372036854775808",
      "1.5", "-1.5", "0.1", "1e2", "1E+2", "1e-2", "1.0", "100.0", "1e308", "1.7976931348623157e308", "1e309", "-1e309", "4.9e-324", "2e-324", "1e-400", "3.4028235e38", "3.5e38", "1.17549435e-38",
      "123456789012345678901234567890", "0.000000000000000000000000000001", "12345678901234567890.5", "1.23456789012345678901234567890e5", ".5", "5.", "+1", "1e", "1e+", "--1", "1.2.3", "0x10", "1f",
      "16777217", "16777216.5", "0.30000000000000004", "299792458", "6.02214076e23", "6.62607015e-34", "1e22", "1e23", "9007199254740993", "2.2250738585072014e-308", "2.2250738585072011e-308",
      "1e00000000000000000000000000000000000001", "00000000000000000000000000000000000001.5"};
  printf("parse_rows");
  for (const char* l : lits) {
    JsonDocument d; DeserializationError e = deserializeJson(d, (const char*)l);
    JsonVariantConst v = d.as<JsonVariantConst>();
    float f = v.as<float>(); double g = v.as<double>(); uint32_t fb; uint64_t gb; memcpy(&fb, &f, 4); memcpy(&gb, &g, 8);
    if (f != f) fb = 0x7fc00000u;
    if (g != g) gb = 0x7ff8000000000000ull;
    int code = e == DeserializationError::Ok ? 0 : e == DeserializationError::InvalidInput ? 3 : e == DeserializationError::IncompleteInput ? 2 : e == DeserializationError::EmptyInput ? 1 : 4;
    printf(" "); hex(l); printf(":%d:%d:%llu:%lld:%u:%llu", code, (int)(v.is<long long>() || v.is<unsigned long long>()), (unsigned long long)v.as<unsigned long long>(), (long long)v.as<long long>(), fb, (unsigned long long)gb);
  }
  printf("\n");
  return 0;
}
