// Translator, part 1: prints constant tables and configuration facts by CALLING the library compiled from /repo.
// tools/gen_tables.py turns the output into lean/AJ/Gen/Tables.lean on every run.
#include <ArduinoJson.h>
#include <cstdio>
#include <cstring>
#include <cstdint>
using namespace ArduinoJson;
using namespace ArduinoJson::detail;
template <typename T> static unsigned long long bitsOf(T v) { unsigned long long b = 0; memcpy(&b, &v, sizeof(T)); return b; }
int main() {
  printf("escape");
  for (int c = 0; c < 256; c++) { unsigned char e = (unsigned char)EscapeSequence::escapeChar((char)c); if (e) printf(" %d:%d", c, e); }
  printf("\nunescape");
  for (int c = 1; c < 256; c++) { unsigned char e = (unsigned char)EscapeSequence::unescapeChar((char)c); if (e) printf(" %d:%d", c, e); }
  printf("\n");
  printf("hi64_i64 %llu\n", bitsOf(FloatTraits<double>::highest_for<int64_t>()));
  printf("hi64_u64 %llu\n", bitsOf(FloatTraits<double>::highest_for<uint64_t>()));
  printf("hi32_i32 %llu\n", bitsOf(FloatTraits<float>::highest_for<int32_t>()));
  printf("hi32_u32 %llu\n", bitsOf(FloatTraits<float>::highest_for<uint32_t>()));
  printf("hi32_i64 %llu\n", bitsOf(FloatTraits<float>::highest_for<int64_t>()));
  printf("hi32_u64 %llu\n", bitsOf(FloatTraits<float>::highest_for<uint64_t>()));
  printf("mantissa_max64 %llu\n", (unsigned long long)FloatTraits<double>::mantissa_max);
  printf("mantissa_max32 %llu\n", (unsigned long long)FloatTraits<float>::mantissa_max);
  printf("exponent_max64 %d\n", (int)FloatTraits<double>::exponent_max);
  printf("exponent_max32 %d\n", (int)FloatTraits<float>::exponent_max);
  printf("nesting_limit %d\n", (int)ARDUINOJSON_DEFAULT_NESTING_LIMIT);
  printf("pool_capacity %d\n", (int)ARDUINOJSON_POOL_CAPACITY);
  printf("initial_pool_count %d\n", (int)ARDUINOJSON_INITIAL_POOL_COUNT);
  printf("slot_id_size %d\n", (int)ARDUINOJSON_SLOT_ID_SIZE);
  printf("string_length_size %d\n", (int)ARDUINOJSON_STRING_LENGTH_SIZE);
  printf("slot_size %d\n", (int)ResourceManager::slotSize);
  printf("pool_object_size %d\n", (int)sizeof(MemoryPool<VariantData>));
  printf("string_overhead %d\n", (int)StringNode::sizeForLength(0));
  printf("string_max_length %llu\n", (unsigned long long)StringNode::maxLength);
  printf("null_slot %llu\n", (unsigned long long)NULL_SLOT);
  printf("max_pools %llu\n", (unsigned long long)MemoryPoolList<VariantData>::maxPools);
  printf("positive_exp_threshold_bits %llu\n", bitsOf((double)ARDUINOJSON_POSITIVE_EXPONENTIATION_THRESHOLD));
  printf("negative_exp_threshold_bits %llu\n", bitsOf((double)ARDUINOJSON_NEGATIVE_EXPONENTIATION_THRESHOLD));
  printf("use_double %d\n", (int)ARDUINOJSON_USE_DOUBLE);
  printf("use_long_long %d\n", (int)ARDUINOJSON_USE_LONG_LONG);
  printf("number_buffer %d\n", 64);
  return 0;
}
