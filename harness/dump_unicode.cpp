// Translator, part 10: strings through text, obtained by CALLING the public API compiled from /repo.
// (a) serializeJson of the one-byte string b, for all 256 bytes (the escaping decision for every byte); (b) deserializeJson of "\uXXXX" for 272 code units (every
// boundary of the UTF-8 lengths and of the surrogate ranges, lone surrogates included, and a spread over the BMP) and of 64 surrogate pairs: code and the bytes stored.
// tools/gen_tables.py turns the output into lean/AJ/Gen/Tables.lean on every run; lean/AJ/Props/C17Gen.lean evaluates the models on the same data in the kernel.
#include <ArduinoJson.h>
#include <cstdio>
#include <string>
using namespace ArduinoJson;
static void hex(const std::string& s) { if (s.empty()) printf("-"); for (unsigned char c : s) printf("%02x", c); }
static void decode(const std::string& text) {
  JsonDocument d; DeserializationError e = deserializeJson(d, text);
  JsonString js = d.as<JsonString>();
  std::string got = js.c_str() ? std::string(js.c_str(), js.size()) : std::string();
  printf(" "); hex(text); printf(":%d:%d:", e == DeserializationError::Ok ? 0 : e == DeserializationError::InvalidInput ? 3 : e == DeserializationError::IncompleteInput ? 2 : 4, js.c_str() ? 1 : 0); hex(got);
}
int main() {
  printf("escape_rows");
  for (int b = 0; b < 256; b++) { JsonDocument d; d.set(std::string(1, (char)b)); std::string s; serializeJson(d, s); printf(" %d:", b); hex(s); }
  printf("\nunicode_rows");
  char buf[32];
  for (int i = 0; i < 272; i++) {
    static const unsigned fixed[] = {0x0000, 0x0001, 0x001f, 0x0020, 0x0022, 0x005c, 0x007f, 0x0080, 0x00e9, 0x07ff, 0x0800, 0x20ac, 0xd7ff, 0xd800, 0xdbff, 0xdc00, 0xdfff, 0xe000, 0xfffe, 0xffff};
    unsigned cu = i < 20 ? fixed[i] : (unsigned)((i - 20) * 259 + 7) & 0xffff;
    snprintf(buf, sizeof buf, i % 2 ? "\"\\u%04X\"" : "\"\\u%04x\"", cu);
    decode(buf);
  }
  for (int i = 0; i < 64; i++) {
    unsigned hi = 0xd800 + (i * 17) % 1024, lo = 0xdc00 + (i * 401 + 3) % 1024;
    if (i == 0) { hi = 0xd800; lo = 0xdc00; } if (i == 1) { hi = 0xdbff; lo = 0xdfff; }
    snprintf(buf, sizeof buf, "\"\\u%04x\\u%04X\"", hi, lo);
    decode(buf);
  }
  decode("\"\\ud800\\u0041\""); decode("\"\\udc00\\ud800\""); decode("\"\\u12\""); decode("\"\\u12g4\""); decode("\"\\x\""); decode("\"a\\u00e9b\\ud83d\\ude00c\"");
  printf("\n");
  return 0;
}
