// C20 harness: the same per-thread workloads are executed sequentially and then concurrently (one JsonDocument set per
// thread, a further document shared read-only as copy source and as JsonVariantConst filter, the default allocator shared);
// every step's result must be identical. Built with ASan (quick) or TSan (thorough). Input: one hex JSON text per line.
#include <ArduinoJson.h>
#include <atomic>
#include <cstdio>
#include <cstring>
#include <iostream>
#include <sstream>
#include <string>
#include <thread>
#include <vector>
using namespace ArduinoJson;
using std::string;

static int hv(char c) { return c <= '9' ? c - '0' : (c >= 'a' ? c - 'a' + 10 : c - 'A' + 10); }
static string unhex(const string& s) { string o; for (size_t i = 0; i + 1 < s.size(); i += 2) o += (char)(hv(s[i]) * 16 + hv(s[i + 1])); return o; }
static string hexs(const string& s) { static const char* H = "0123456789abcdef"; string o; for (unsigned char c : s) { o += H[c >> 4]; o += H[c & 15]; } return o; }

static JsonDocument SHARED;          // accessed through const references / JsonVariantConst only
static JsonDocument SHARED_FILTER;

// one step of a thread's workload on its own documents; returns a digest of everything observable
static string step(JsonDocument& doc, JsonDocument& doc2, const string& text, int salt) {
  string out;
  DeserializationError e = deserializeJson(doc, text, DeserializationOption::NestingLimit(20));
  out += e.c_str();
  string j; serializeJson(doc, j); out += " " + hexs(j);
  string p; serializeJsonPretty(doc, p); out += " " + std::to_string(p.size());
  string m; serializeMsgPack(doc, m); out += " " + hexs(m);
  DeserializationError e2 = deserializeMsgPack(doc2, m.data(), m.size());
  out += string(" ") + e2.c_str() + (doc2.as<JsonVariantConst>() == doc.as<JsonVariantConst>() ? " eq" : " ne");
  // numbers through text: conversions and printing use scratch buffers
  char buf[64]; snprintf(buf, sizeof buf, "%d.%06de%d", salt % 977, (salt * 7919) % 1000000, salt % 37 - 18);
  doc2.clear(); doc2.set(buf);
  double d = doc2.as<double>(); long long ll = (long long)doc2.as<long long>();
  unsigned long long bits; memcpy(&bits, &d, 8);
  snprintf(buf, sizeof buf, " %016llx %lld", bits, ll); out += buf;
  doc2.clear(); doc2["n"] = d; doc2["i"] = (long long)salt * 1234567891LL; doc2["u"] = 18446744073709551615ULL - (unsigned)salt;
  string nj; serializeJson(doc2, nj); out += " " + hexs(nj);
  // shared read-only document: copy source and filter
  doc2.clear(); doc2["copy"] = SHARED.as<JsonVariantConst>(); doc2["k"] = SHARED.as<JsonVariantConst>()["list"][salt % 3];
  string cj; serializeJson(doc2, cj); out += " " + std::to_string(cj.size()) + ":" + hexs(cj.substr(0, 24));
  // many indexed and keyed reads of the shared read-only document (two arrays, interleaved positions): any cache or cursor kept inside the
  // shared document or the library would be raced here
  { unsigned long acc = 0; JsonVariantConst sh = SHARED.as<JsonVariantConst>();
    for (int j = 0; j < 60; j++) {
      JsonVariantConst a = sh["list"][(salt + j) % 3], b = sh["nested"]["a"][(salt + 2 * j) % 3], c = sh["wide"][(salt * 7 + j * 5) % 48];
      acc = acc * 31 + (unsigned long)a.as<long>() + (a.is<const char*>() ? 7 : 0);
      acc = acc * 31 + (unsigned long)b.as<long>() + (b.isNull() ? 3 : 0) + (b.as<bool>() ? 11 : 0);
      acc = acc * 31 + (unsigned long)c.as<long>();
    }
    out += " " + std::to_string(acc); }
  DeserializationError e3 = deserializeJson(doc2, text, DeserializationOption::Filter(SHARED_FILTER.as<JsonVariantConst>()), DeserializationOption::NestingLimit(20));
  string fj; serializeJson(doc2, fj); out += string(" ") + e3.c_str() + " " + hexs(fj);
  out += string(" ") + (doc.as<JsonVariantConst>() == SHARED.as<JsonVariantConst>() ? "1" : "0");
  return out;
}

int main(int argc, char** argv) {
  int nthreads = argc > 1 ? atoi(argv[1]) : 8;
  int rounds = argc > 2 ? atoi(argv[2]) : 3;
  std::vector<string> texts;
  string line;
  while (std::getline(std::cin, line)) if (!line.empty()) texts.push_back(unhex(line));
  deserializeJson(SHARED, "{\"list\":[1,\"two\",3.5],\"name\":\"shared document\",\"nested\":{\"a\":[true,null,-7],\"b\":\"\\u00e9\"},\"big\":12345678901234}");
  { JsonArray w = SHARED["wide"].to<JsonArray>(); for (int i = 0; i < 48; i++) w.add(1000000 + i); }
  deserializeJson(SHARED_FILTER, "{\"a\":true,\"list\":[true],\"*\":{\"b\":true}}");
  // sequential reference
  std::vector<std::vector<string>> seq(nthreads);
  for (int t = 0; t < nthreads; t++) {
    JsonDocument doc, doc2;
    for (size_t i = t; i < texts.size(); i += nthreads) seq[t].push_back(step(doc, doc2, texts[i], (int)i));
  }
  long divergences = 0, steps = 0;
  string first;
  for (int r = 0; r < rounds; r++) {
    std::vector<std::vector<string>> par(nthreads);
    std::atomic<int> ready(0);
    std::vector<std::thread> th;
    for (int t = 0; t < nthreads; t++) {
      th.emplace_back([&, t]() {
        JsonDocument doc, doc2;
        ready++;
        while (ready.load() < nthreads) std::this_thread::yield();
        for (size_t i = t; i < texts.size(); i += nthreads) {
          par[t].push_back(step(doc, doc2, texts[i], (int)i));
          if ((i + r) % 5 == 0) std::this_thread::yield();
        }
      });
    }
    for (auto& x : th) x.join();
    for (int t = 0; t < nthreads; t++)
      for (size_t k = 0; k < seq[t].size(); k++) {
        steps++;
        if (par[t][k] != seq[t][k]) {
          divergences++;
          if (first.empty()) first = "thread=" + std::to_string(t) + " step=" + std::to_string(k) + " text=" + hexs(texts[t + k * nthreads]).substr(0, 120) +
                                     " sequential=" + seq[t][k].substr(0, 200) + " concurrent=" + par[t][k].substr(0, 200);
        }
      }
  }
  if (divergences) std::cout << "DIVERGENCE count=" << divergences << " of " << steps << " " << first << "\n";
  else std::cout << "ok steps=" << steps << " threads=" << nthreads << " rounds=" << rounds << "\n";
  return divergences ? 1 : 0;
}
