def hello := "world"
