/- Helper lemmas: bit operations on Nat reduced to div/mod, finite checks over bytes. -/
namespace Bits

theorem and_low (x b : Nat) (hb : b < 256) : x &&& b = (x % 256) &&& b := by
  have h1 : b = 255 &&& b := by
    have : ∀ b : Fin 256, b.val = 255 &&& b.val := by decide +kernel
    exact this ⟨b, hb⟩
  have h2 : x &&& 255 = x % 256 := by
    have := Nat.and_two_pow_sub_one_eq_mod x 8
    simpa using this
  calc x &&& b = x &&& (255 &&& b) := by rw [← h1]
    _ = (x &&& 255) &&& b := by rw [Nat.and_assoc]
    _ = (x % 256) &&& b := by rw [h2]

theorem cont_eq (x : Nat) : ((x ||| 0x80) &&& 0xBF) = 0x80 + x % 64 := by
  rw [Nat.and_or_distrib_right, and_low x 0xBF (by decide)]
  have hfin : ∀ r : Fin 256, (r.val &&& 0xBF) ||| (0x80 &&& 0xBF) = 0x80 + r.val % 64 := by decide +kernel
  have := hfin ⟨x % 256, Nat.mod_lt _ (by decide)⟩
  simp only at this
  rw [this]
  omega

theorem or_C0 (x : Nat) (h : x < 0x20) : x ||| 0xC0 = 0xC0 + x := by
  have : ∀ r : Fin 32, r.val ||| 0xC0 = 0xC0 + r.val := by decide +kernel
  exact this ⟨x, h⟩
theorem or_E0 (x : Nat) (h : x < 0x10) : x ||| 0xE0 = 0xE0 + x := by
  have : ∀ r : Fin 16, r.val ||| 0xE0 = 0xE0 + r.val := by decide +kernel
  exact this ⟨x, h⟩
theorem or_F0 (x : Nat) (h : x < 0x10) : x ||| 0xF0 = 0xF0 + x := by
  have : ∀ r : Fin 16, r.val ||| 0xF0 = 0xF0 + r.val := by decide +kernel
  exact this ⟨x, h⟩

/-- quantification over all bytes through `Fin 256` -/
theorem all_bytes (P : UInt8 → Bool) (h : ∀ i : Fin 256, P (UInt8.ofNat i.val) = true) : ∀ c : UInt8, P c = true := by
  intro c
  have := h ⟨c.toNat, c.toNat_lt⟩
  simpa using this
end Bits
