/- An `IncompleteInput` text can be completed: leaf routines.
   `Ends r a`: the remaining input `r` is `a` followed by the end of the input or by a NUL. When a routine answers
   `IncompleteInput`, the part `a` it has read can be extended (`a ++ x`) to a phrase of the dialect. -/
import AJ.Lemmas.DialectSound2
import AJ.Lemmas.DialectClass
set_option linter.unusedSimpArgs false
set_option linter.unusedVariables false
namespace JD
open Spec.Dialect

/-- `r` is `a`, then the end of the input or a NUL -/
def Ends (r a : List Byte) : Prop := ∃ z, r = a ++ z ∧ z.headD 0 = 0

theorem Ends.nil {r : List Byte} (h : r.headD 0 = 0) : Ends r [] := ⟨r, rfl, h⟩
theorem Ends.cons {c : Byte} {r a : List Byte} (h : Ends r a) : Ends (c :: r) (c :: a) := by
  obtain ⟨z, rfl, hz⟩ := h; exact ⟨z, rfl, hz⟩
theorem Ends.prepend {r a : List Byte} (w : List Byte) (h : Ends r a) : Ends (w ++ r) (w ++ a) := by
  obtain ⟨z, rfl, hz⟩ := h; exact ⟨z, by simp, hz⟩
theorem Ends.length_le {r a : List Byte} (h : Ends r a) : a.length ≤ r.length := by
  obtain ⟨z, rfl, _⟩ := h; simp
/-- a remaining input that starts with a non-NUL byte: so does what is left of the text -/
theorem Ends.head {c : Byte} {r a : List Byte} (h : Ends (c :: r) a) (hc : c ≠ 0) : ∃ a', a = c :: a' ∧ Ends r a' := by
  obtain ⟨z, he, hz⟩ := h
  cases a with
  | nil =>
    simp only [List.nil_append] at he
    rw [← he] at hz
    exact absurd hz hc
  | cons b a' =>
    simp only [List.cons_append, List.cons.injEq] at he
    exact ⟨a', by rw [he.1], z, he.2, hz⟩

theorem Rem.head_zero {s : St} {r : List Byte} (h : Rem s r) (hc : (cur s).1 = 0) : r.headD 0 = 0 := by
  rw [← h.look.2.2.1]; exact hc

theorem beq_true_eq {a b : Byte} (h : (a == b) = true) : a = b := by simpa using h

/-! ## comments and white space -/

theorem skipBlock_inc : ∀ (fuel : Nat) (star : Bool) (s : St) (r : List Byte) (s' : St), Rem s r →
    skipBlock fuel star s = (.incomplete, s') → ∃ a, Ends r a ∧ Block star (a ++ [0x2A, 0x2F]) := by
  intro fuel
  induction fuel with
  | zero => intro star s r s' _ h; simp [skipBlock] at h
  | succ n ih =>
    intro star s r s' hr h
    simp only [skipBlock] at h
    split at h
    · rename_i h0
      refine ⟨[], Ends.nil (hr.head_zero (beq_true_eq h0)), ?_⟩
      exact Block.step star 0x2A [0x2F] (by decide) (by intro hh; exact absurd hh.1 (by decide)) Block.close
    · rename_i h0
      obtain ⟨t, rfl, e2⟩ := hr.step' (not_beq_ne h0)
      split at h
      · cases h
      · rename_i h1
        obtain ⟨a, ha, hb⟩ := ih _ _ _ _ e2 h
        refine ⟨(cur s).1 :: a, ha.cons, ?_⟩
        refine Block.step _ _ _ (not_beq_ne h0) ?_ hb
        intro hc
        apply h1
        simp [hc.1, hc.2]

theorem skipLine_inc : ∀ (fuel : Nat) (s : St) (c : Byte) (rest : List Byte) (s' : St), Rem s (c :: rest) →
    s.l.loaded = true → skipLine fuel s = (.incomplete, s') →
    ∃ a, Ends rest a ∧ (∀ c ∈ a, c ≠ 0 ∧ c ≠ 0x0A) := by
  intro fuel
  induction fuel with
  | zero => intro s c rest s' _ _ h; simp [skipLine] at h
  | succ n ih =>
    intro s c rest s' hr hl h
    simp only [skipLine] at h
    have hm := hr.move hl
    obtain ⟨c1, c2, c3, _, _⟩ := hm.look
    split at h
    · rename_i h0
      exact ⟨[], Ends.nil (hm.head_zero (beq_true_eq h0)), fun c hc => by cases hc⟩
    · rename_i h0
      have h0' := not_beq_ne h0
      have hrest : rest = (cur (mv s)).1 :: rest.tail := by
        cases rest with
        | nil => exact absurd c3 h0'
        | cons d t => have : (cur (mv s)).1 = d := c3; rw [this]; rfl
      split at h
      · cases h
      · rename_i h1
        rw [hrest] at c1
        obtain ⟨a, ha, hx⟩ := ih _ _ _ _ c1 c2 h
        refine ⟨(cur (mv s)).1 :: a, ?_, ?_⟩
        · rw [hrest]; exact ha.cons
        · intro d hd
          rcases List.mem_cons.mp hd with rfl | hd
          · exact ⟨h0', not_beq_ne h1⟩
          · exact hx d hd

theorem dws_lf_tail {cfg : Cfg} {w : List Byte} (h : DWs cfg (0x0A :: w)) : DWs cfg w := by
  generalize hg : (0x0A : Byte) :: w = g at h
  cases h with
  | nil => cases hg
  | ws c w0 _ hw0 => cases hg; exact hw0
  | block b w0 _ _ _ => simp at hg
  | line x w0 _ _ _ => simp at hg

/-- `skipSpaces` answered `IncompleteInput` (or `EmptyInput`): what it read is the beginning of dialect white space;
    the completion is empty, `*/` or a line feed -/
theorem skipSpaces_inc (cfg : Cfg) : ∀ (fuel : Nat) (s : St) (r : List Byte) (e : Code) (s' : St), Rem s r →
    skipSpaces cfg fuel s = (e, s') → (e = .incomplete ∨ e = .empty) → ∃ a x, Ends r a ∧ DWs cfg (a ++ x) := by
  intro fuel
  induction fuel with
  | zero =>
    intro s r e s' _ h he
    simp only [skipSpaces] at h
    injection h with h1 _
    subst h1
    rcases he with he | he <;> cases he
  | succ n ih =>
    intro s r e s' hr h he
    simp only [skipSpaces] at h
    split at h
    · rename_i h0
      exact ⟨[], [], Ends.nil (hr.head_zero (beq_true_eq h0)), DWs.nil⟩
    · rename_i h0
      have h0' := not_beq_ne h0
      obtain ⟨t, rfl, e2⟩ := hr.step' h0'
      split at h
      · rename_i hw
        obtain ⟨a, x, ha, hd⟩ := ih _ _ _ _ e2 h he
        exact ⟨(cur s).1 :: a, x, ha.cons, DWs.ws _ _ (isWs_byte hw) hd⟩
      · split at h
        · rename_i hcm
          simp only [Bool.and_eq_true, beq_iff_eq] at hcm
          obtain ⟨d1, d2, d3, _, _⟩ := e2.look
          split at h
          · rename_i hd
            have hd' : (cur (mv (cur s).2)).1 = 0x2A := by simpa using hd
            obtain ⟨t2, rfl, f2⟩ := e2.step' (by rw [hd']; decide)
            split at h
            · rename_i s1 heq
              obtain ⟨b, r1, rfl, hb2, hb3⟩ := skipBlock_sound _ _ _ _ _ f2 heq
              obtain ⟨a, x, ha, hdw⟩ := ih _ _ _ _ hb3 h he
              refine ⟨0x2F :: 0x2A :: b ++ a, x, ?_, ?_⟩
              · rw [hcm.2, hd']
                have := (ha.prepend b).cons (c := 0x2A) |>.cons (c := 0x2F)
                simpa using this
              · have := DWs.block b (a ++ x) hcm.1 hb2 hdw
                simpa using this
            · -- the block comment is not closed
              have hne := ne_skipBlock n false (mv (cur (mv (cur s).2)).2)
              have hinc : e = .incomplete := by
                rcases he with he | he
                · exact he
                · rw [h] at hne; exact absurd he hne
              subst hinc
              obtain ⟨a, ha, hb⟩ := skipBlock_inc _ _ _ _ _ f2 h
              refine ⟨0x2F :: 0x2A :: a, [0x2A, 0x2F], ?_, ?_⟩
              · rw [hcm.2, hd']; exact ha.cons.cons
              · have := DWs.block (a ++ [0x2A, 0x2F]) [] hcm.1 hb DWs.nil
                simpa using this
          · split at h
            · rename_i hd2
              have hd' : (cur (mv (cur s).2)).1 = 0x2F := by simpa using hd2
              obtain ⟨t2, ht2, _⟩ := e2.step' (by rw [hd']; decide)
              rw [hd'] at ht2
              subst ht2
              split at h
              · rename_i s1 heq
                obtain ⟨x1, r1, rfl, hx2, hx3, hx4⟩ := skipLine_sound _ _ _ _ _ d1 d2 heq
                obtain ⟨a, x, ha, hdw⟩ := ih _ _ _ _ hx3 h he
                obtain ⟨a', rfl, ha'⟩ := ha.head (by decide)
                refine ⟨0x2F :: 0x2F :: x1 ++ 0x0A :: a', x, ?_, ?_⟩
                · rw [hcm.2]
                  have := ((ha'.cons (c := 0x0A)).prepend x1).cons (c := 0x2F) |>.cons (c := 0x2F)
                  simpa using this
                · have := DWs.line x1 (a' ++ x) hcm.1 hx2 (dws_lf_tail hdw)
                  simpa using this
              · have hne := ne_skipLine n (cur (mv (cur s).2)).2
                have hinc : e = .incomplete := by
                  rcases he with he | he
                  · exact he
                  · rw [h] at hne; exact absurd he hne
                subst hinc
                obtain ⟨a, ha, hx⟩ := skipLine_inc _ _ _ _ _ d1 d2 h
                refine ⟨0x2F :: 0x2F :: a, [0x0A], ?_, ?_⟩
                · rw [hcm.2]; exact ha.cons.cons
                · have := DWs.line a [] hcm.1 hx DWs.nil
                  simpa using this
            · injection h with h1 _
              subst h1
              rcases he with he | he <;> cases he
        · injection h with h1 _
          subst h1
          rcases he with he | he <;> cases he

/-! ## keywords -/

theorem skipKeyword_inc : ∀ (ks : List Byte) (s : St) (r : List Byte) (s' : St), Rem s r →
    skipKeyword ks s = (.incomplete, s') → ∃ a x, Ends r a ∧ a ++ x = ks := by
  intro ks
  induction ks with
  | nil => intro s r s' _ h; simp [skipKeyword] at h
  | cons k ks ih =>
    intro s r s' hr h
    simp only [skipKeyword] at h
    split at h
    · rename_i h0
      exact ⟨[], k :: ks, Ends.nil (hr.head_zero (beq_true_eq h0)), rfl⟩
    · rename_i h0
      obtain ⟨t, rfl, e2⟩ := hr.step' (not_beq_ne h0)
      split at h
      · cases h
      · rename_i hk
        have hk' : (cur s).1 = k := by simpa using hk
        obtain ⟨a, x, ha, hx⟩ := ih _ _ _ e2 h
        exact ⟨k :: a, x, by rw [hk']; exact ha.cons, by rw [List.cons_append, hx]⟩

/-! ## strings -/

theorem parseHex4_inc : ∀ (n acc : Nat) (s : St) (r : List Byte) (v : Nat) (s' : St), Rem s r →
    parseHex4 n acc s = (.incomplete, v, s') →
    ∃ ds, Ends r ds ∧ ds.length < n ∧ ∀ c ∈ ds, Spec.hexVal c = some (decodeHex c) := by
  intro n
  induction n with
  | zero => intro acc s r v s' _ h; simp [parseHex4] at h
  | succ n ih =>
    intro acc s r v s' hr h
    simp only [parseHex4] at h
    split at h
    · rename_i h0
      exact ⟨[], Ends.nil (hr.head_zero (beq_true_eq h0)), by simp, fun c hc => by cases hc⟩
    · rename_i h0
      obtain ⟨t, rfl, e2⟩ := hr.step' (not_beq_ne h0)
      split at h
      · cases h
      · rename_i hv
        obtain ⟨ds, h1, h2, h3⟩ := ih _ _ _ _ _ e2 h
        refine ⟨(cur s).1 :: ds, h1.cons, by simp; omega, ?_⟩
        intro c hc
        rcases List.mem_cons.mp hc with rfl | hc
        · exact hexVal_of_decodeHex hv
        · exact h3 c hc

theorem hexVal_zero_digit : Spec.hexVal 0x30 = some 0 := by decide

theorem hex4_of_hexVal {a b c d : Byte} {x1 x2 x3 x4 : Nat} (ha : Spec.hexVal a = some x1) (hb : Spec.hexVal b = some x2)
    (hc : Spec.hexVal c = some x3) (hd : Spec.hexVal d = some x4) : ∃ cu, hex4 a b c d = some cu :=
  ⟨x1 * 4096 + x2 * 256 + x3 * 16 + x4, by simp only [hex4, ha, hb, hc, hd]⟩

theorem decodeBody_nil (cfg : Cfg) (stop : Byte) (hi : Nat) : decodeBody cfg stop hi [] = some [] := by
  rw [decodeBody.eq_def]

/-- a complete `\uXXXX` at the end of a body -/
theorem decodeBody_u_last {cfg : Cfg} {stop a b c d : Byte} {hi cu : Nat} (h1 : stop ≠ 0x5C)
    (hu : cfg.decodeUnicode = true) (hx : hex4 a b c d = some cu) :
    (decodeBody cfg stop hi [0x5C, 0x75, a, b, c, d]).isSome = true := by
  rw [decodeBody_u_on h1 hu, hx]
  simp only [decodeBody_nil]
  split
  · rfl
  · split <;> rfl

/-- `parseQuoted` answered `IncompleteInput`: what it read is the beginning of a string body; the completion is at
    most four bytes (a backslash after `\`, zeros after an unfinished `\uXXXX`) -/
theorem parseQuoted_inc {cfg : Cfg} {stop : Byte} (hq : IsQuote stop) :
    ∀ (fuel : Nat) (acc : List Byte) (hi : Nat) (s : St) (r : List Byte) (out : List Byte) (s' : St),
      Rem s r → parseQuoted cfg stop fuel acc hi s = (.incomplete, out, s') →
      ∃ a x, Ends r a ∧ x.length ≤ 4 ∧ ∀ hi', (decodeBody cfg stop hi' (a ++ x)).isSome = true := by
  obtain ⟨q0, q1, q2⟩ := isQuote_facts hq
  intro fuel
  induction fuel with
  | zero => intro acc hi s r out s' _ h; simp [parseQuoted] at h
  | succ n ih =>
    intro acc hi s r out s' hr h
    simp only [parseQuoted] at h
    split at h
    · split at h <;> cases h
    · rename_i hs
      have hs' := not_beq_ne hs
      split at h
      · rename_i h0
        exact ⟨[], [], Ends.nil (hr.head_zero (beq_true_eq h0)), by simp, fun _ => by simp [decodeBody_nil]⟩
      · rename_i h0
        have h0' := not_beq_ne h0
        obtain ⟨t, rfl, e2⟩ := hr.step' h0'
        split at h
        · rename_i hb
          have hb' : (cur s).1 = 0x5C := by simpa using hb
          split at h
          · rename_i hd0
            refine ⟨[0x5C], [0x5C], ?_, by simp, fun hi' => ?_⟩
            · rw [hb']; exact (Ends.nil (e2.head_zero (beq_true_eq hd0))).cons
            · show (decodeBody cfg stop hi' [0x5C, 0x5C]).isSome = true
              rw [decodeBody_esc q1 (by decide)]
              have : escapes.lookup (0x5C : Byte) = some 0x5C := by decide
              simp only [this, decodeBody_nil]
              rfl
          · rename_i hd0
            have hd0' := not_beq_ne hd0
            obtain ⟨t2, rfl, f2⟩ := e2.step' hd0'
            split at h
            · rename_i hdu
              have hdu' : (cur (mv (cur s).2)).1 = 0x75 := by simpa using hdu
              split at h
              · rename_i hcfg
                split at h
                · rename_i cu s1 heq
                  obtain ⟨a, b, c, d, r4, rfl, g2, g3, g4⟩ := parseHex4_four_sound f2 heq
                  have hrec : ∃ a' x, Ends r4 a' ∧ x.length ≤ 4 ∧
                      ∀ hi', (decodeBody cfg stop hi' (a' ++ x)).isSome = true := by
                    split at h
                    · exact ih _ _ _ _ _ _ g3 h
                    · split at h
                      · exact ih _ _ _ _ _ _ g3 h
                      · exact ih _ _ _ _ _ _ g3 h
                  obtain ⟨a', x, i1, i2, i3⟩ := hrec
                  refine ⟨0x5C :: 0x75 :: a :: b :: c :: d :: a', x, ?_, i2, fun hi' => ?_⟩
                  · rw [hb', hdu']; exact i1.cons.cons.cons.cons.cons.cons
                  · show (decodeBody cfg stop hi' (0x5C :: 0x75 :: a :: b :: c :: d :: (a' ++ x))).isSome = true
                    rw [decodeBody_u_on q1 hcfg, g2]
                    simp only
                    split
                    · exact i3 _
                    · split
                      · have := i3 hi'
                        cases hdb : decodeBody cfg stop hi' (a' ++ x) with
                        | none => rw [hdb] at this; cases this
                        | some y => rfl
                      · have := i3 hi'
                        cases hdb : decodeBody cfg stop hi' (a' ++ x) with
                        | none => rw [hdb] at this; cases this
                        | some y => rfl
                · rename_i e x1 s1 hne heq
                  injection h with h1 _
                  subst h1
                  obtain ⟨ds, j1, j2, j3⟩ := parseHex4_inc _ _ _ _ _ _ f2 heq
                  have hz := hexVal_zero_digit
                  -- complete the four digits with zeros
                  have key : ∃ x, x.length ≤ 4 ∧ ∃ a b c d, ds ++ x = [a, b, c, d] ∧ ∃ cu, hex4 a b c d = some cu := by
                    match ds, j2, j3 with
                    | [], _, _ => exact ⟨[0x30, 0x30, 0x30, 0x30], by simp, _, _, _, _, rfl, hex4_of_hexVal hz hz hz hz⟩
                    | [a], _, j3 =>
                      exact ⟨[0x30, 0x30, 0x30], by simp, _, _, _, _, rfl, hex4_of_hexVal (j3 a (by simp)) hz hz hz⟩
                    | [a, b], _, j3 =>
                      exact ⟨[0x30, 0x30], by simp, _, _, _, _, rfl, hex4_of_hexVal (j3 a (by simp)) (j3 b (by simp)) hz hz⟩
                    | [a, b, c], _, j3 =>
                      exact ⟨[0x30], by simp, _, _, _, _, rfl,
                        hex4_of_hexVal (j3 a (by simp)) (j3 b (by simp)) (j3 c (by simp)) hz⟩
                    | _ :: _ :: _ :: _ :: _, j2, _ => simp at j2; omega
                  obtain ⟨x, hx1, a, b, c, d, hx2, cu, hx3⟩ := key
                  refine ⟨0x5C :: 0x75 :: ds, x, ?_, hx1, fun hi' => ?_⟩
                  · rw [hb', hdu']; exact j1.cons.cons
                  · show (decodeBody cfg stop hi' (0x5C :: 0x75 :: (ds ++ x))).isSome = true
                    rw [hx2]
                    exact decodeBody_u_last q1 hcfg hx3
              · rename_i hcfg
                have hcfg' : cfg.decodeUnicode = false := by simpa using hcfg
                obtain ⟨k1, _, _, _, _⟩ := e2.look
                obtain ⟨a', x, i1, i2, i3⟩ := ih _ _ _ _ _ _ k1 h
                rw [hdu'] at i1
                obtain ⟨a'', rfl, i1'⟩ := i1.head (by decide)
                refine ⟨0x5C :: 0x75 :: a'', x, ?_, i2, fun hi' => ?_⟩
                · rw [hb', hdu']; exact i1'.cons.cons
                · show (decodeBody cfg stop hi' (0x5C :: 0x75 :: (a'' ++ x))).isSome = true
                  have := i3 hi'
                  rw [show 0x75 :: a'' ++ x = 0x75 :: (a'' ++ x) by rfl,
                    decodeBody_plain (Ne.symm q2) (by decide) (by decide)] at this
                  rw [decodeBody_u_off q1 hcfg']
                  cases hdb : decodeBody cfg stop hi' (a'' ++ x) with
                  | none => rw [hdb] at this; cases this
                  | some y => rfl
            · rename_i hdu
              have hdu' := not_beq_ne hdu
              split at h
              · cases h
              · rename_i hun
                have hun' := not_beq_ne hun
                obtain ⟨a', x, i1, i2, i3⟩ := ih _ _ _ _ _ _ f2 h
                refine ⟨0x5C :: (cur (mv (cur s).2)).1 :: a', x, ?_, i2, fun hi' => ?_⟩
                · rw [hb']; exact i1.cons.cons
                · show (decodeBody cfg stop hi' (0x5C :: (cur (mv (cur s).2)).1 :: (a' ++ x))).isSome = true
                  rw [decodeBody_esc q1 hdu', escapes_lookup hun']
                  have := i3 hi'
                  cases hdb : decodeBody cfg stop hi' (a' ++ x) with
                  | none => rw [hdb] at this; cases this
                  | some y => rfl
        · rename_i hb
          have hb' := not_beq_ne hb
          obtain ⟨a', x, i1, i2, i3⟩ := ih _ _ _ _ _ _ e2 h
          refine ⟨(cur s).1 :: a', x, i1.cons, i2, fun hi' => ?_⟩
          show (decodeBody cfg stop hi' ((cur s).1 :: (a' ++ x))).isSome = true
          rw [decodeBody_plain hs' h0' hb']
          have := i3 hi'
          cases hdb : decodeBody cfg stop hi' (a' ++ x) with
          | none => rw [hdb] at this; cases this
          | some y => rfl

end JD
