/- Grammar facts for the completion of `IncompleteInput` texts: a text of the dialect contains no NUL, a string body is
   at least as long as what it denotes, `0` is a number token under every configuration. -/
import AJ.Lemmas.ClassExt
import AJ.Lemmas.DialectComplete
set_option linter.unusedSimpArgs false
set_option linter.unusedVariables false
namespace JD
open Spec.Dialect

theorem utf8_length_le (cp : Nat) : (Spec.utf8 cp).length ≤ 4 := by
  unfold Spec.utf8
  split
  · simp
  · split
    · simp
    · split <;> simp

theorem hexVal_nz {c : Byte} {x : Nat} (h : Spec.hexVal c = some x) : c ≠ 0 := by
  intro h0; subst h0
  have : Spec.hexVal 0 = none := by decide
  rw [this] at h; cases h

theorem hex4_nz {a b c d : Byte} {cu : Nat} (h : hex4 a b c d = some cu) : a ≠ 0 ∧ b ≠ 0 ∧ c ≠ 0 ∧ d ≠ 0 := by
  unfold hex4 at h
  cases ha : Spec.hexVal a with
  | none => simp [ha] at h
  | some x1 =>
    cases hb : Spec.hexVal b with
    | none => simp [ha, hb] at h
    | some x2 =>
      cases hc : Spec.hexVal c with
      | none => simp [ha, hb, hc] at h
      | some x3 =>
        cases hd : Spec.hexVal d with
        | none => simp [ha, hb, hc, hd] at h
        | some x4 => exact ⟨hexVal_nz ha, hexVal_nz hb, hexVal_nz hc, hexVal_nz hd⟩

/-- a well-formed string body contains no NUL and is at least as long as the bytes it denotes -/
theorem decodeBody_facts (cfg : Cfg) (stop : Byte) : ∀ (n : Nat) (body : List Byte), body.length ≤ n →
    ∀ (hi : Nat) (y : List Byte), decodeBody cfg stop hi body = some y → y.length ≤ body.length ∧ ∀ c ∈ body, c ≠ 0 := by
  intro n
  induction n with
  | zero =>
    intro body hl hi y h
    have : body = [] := List.eq_nil_of_length_eq_zero (by omega)
    subst this
    rw [decodeBody_nil] at h
    injection h with h; subst h
    exact ⟨by simp, fun c hc => by cases hc⟩
  | succ n ih =>
    intro body hl hi y h
    cases body with
    | nil =>
      rw [decodeBody_nil] at h
      injection h with h; subst h
      exact ⟨by simp, fun c hc => by cases hc⟩
    | cons c t =>
      simp only [List.length_cons] at hl
      rw [decodeBody.eq_def] at h
      simp only at h
      split at h
      · cases h
      · rename_i hc0
        have hcs : c ≠ 0 := fun h0 => hc0 (Or.inr h0)
        split at h
        · cases hd : decodeBody cfg stop hi t with
          | none => rw [hd] at h; cases h
          | some y' =>
            rw [hd] at h
            simp only [Option.map_some, Option.some.injEq] at h
            subst h
            obtain ⟨i1, i2⟩ := ih t (by omega) hi y' hd
            refine ⟨by simp; omega, ?_⟩
            intro d hdm
            rcases List.mem_cons.mp hdm with rfl | hdm
            · exact hcs
            · exact i2 d hdm
        · -- backslash
          split at h
          · cases h
          · rename_i l t'
            simp only [List.length_cons] at hl
            split at h
            · rename_i hlu
              split at h
              · -- \\uXXXX decoded
                split at h
                · rename_i a b c' d t''
                  simp only [List.length_cons] at hl
                  split at h
                  · cases h
                  · rename_i cu hx
                    obtain ⟨n1, n2, n3, n4⟩ := hex4_nz hx
                    have hmem : ∀ y', (∃ hi', decodeBody cfg stop hi' t'' = some y') →
                        y'.length ≤ t''.length ∧ ∀ e ∈ c :: l :: a :: b :: c' :: d :: t'', e ≠ 0 := by
                      intro y' ⟨hi', hy'⟩
                      obtain ⟨i1, i2⟩ := ih t'' (by omega) hi' y' hy'
                      refine ⟨i1, ?_⟩
                      intro e he
                      simp only [List.mem_cons] at he
                      rcases he with rfl | rfl | rfl | rfl | rfl | rfl | he
                      · exact hcs
                      · rw [hlu]; decide
                      · exact n1
                      · exact n2
                      · exact n3
                      · exact n4
                      · exact i2 e he
                    split at h
                    · obtain ⟨i1, i2⟩ := hmem y ⟨_, h⟩
                      exact ⟨by simp; omega, i2⟩
                    · split at h
                      · cases hd : decodeBody cfg stop hi t'' with
                        | none => rw [hd] at h; cases h
                        | some y' =>
                          rw [hd] at h
                          simp only [Option.map_some, Option.some.injEq] at h
                          subst h
                          obtain ⟨i1, i2⟩ := hmem y' ⟨_, hd⟩
                          have := utf8_length_le (0x10000 + (hi * 1024 + cu % 1024))
                          exact ⟨by simp; omega, i2⟩
                      · cases hd : decodeBody cfg stop hi t'' with
                        | none => rw [hd] at h; cases h
                        | some y' =>
                          rw [hd] at h
                          simp only [Option.map_some, Option.some.injEq] at h
                          subst h
                          obtain ⟨i1, i2⟩ := hmem y' ⟨_, hd⟩
                          have := utf8_length_le cu
                          exact ⟨by simp; omega, i2⟩
                · cases h
              · -- \\u kept
                cases hd : decodeBody cfg stop hi t' with
                | none => rw [hd] at h; cases h
                | some y' =>
                  rw [hd] at h
                  simp only [Option.map_some, Option.some.injEq] at h
                  subst h
                  obtain ⟨i1, i2⟩ := ih t' (by omega) hi y' hd
                  refine ⟨by simp; omega, ?_⟩
                  intro e he
                  simp only [List.mem_cons] at he
                  rcases he with rfl | rfl | he
                  · exact hcs
                  · rw [hlu]; decide
                  · exact i2 e he
            · -- two-character escape
              split at h
              · cases h
              · rename_i x hx
                cases hd : decodeBody cfg stop hi t' with
                | none => rw [hd] at h; cases h
                | some y' =>
                  rw [hd] at h
                  simp only [Option.map_some, Option.some.injEq] at h
                  subst h
                  obtain ⟨i1, i2⟩ := ih t' (by omega) hi y' hd
                  refine ⟨by simp; omega, ?_⟩
                  intro e he
                  simp only [List.mem_cons] at he
                  rcases he with rfl | rfl | he
                  · exact hcs
                  · exact (escapes_lookup_some hx).2.2
                  · exact i2 e he

theorem decodeBody_length {cfg : Cfg} {stop : Byte} {hi : Nat} {body y : List Byte}
    (h : decodeBody cfg stop hi body = some y) : y.length ≤ body.length :=
  (decodeBody_facts cfg stop body.length body (Nat.le_refl _) hi y h).1

theorem decodeBody_nz {cfg : Cfg} {stop : Byte} {hi : Nat} {body y : List Byte}
    (h : decodeBody cfg stop hi body = some y) : ∀ c ∈ body, c ≠ 0 :=
  (decodeBody_facts cfg stop body.length body (Nat.le_refl _) hi y h).2

theorem key_nz {cfg : Cfg} {kt k : List Byte} (h : Key cfg kt k) : ∀ c ∈ kt, c ≠ 0 := by
  cases h with
  | quoted q body k hq hb _ =>
    intro c hc
    simp only [List.cons_append, List.mem_cons, List.mem_append, List.not_mem_nil, or_false] at hc
    rcases hc with rfl | hc | rfl
    · exact (isQuote_facts hq).1
    · exact decodeBody_nz hb c hc
    · exact (isQuote_facts hq).1
  | bare k _ hk =>
    intro c hc h0
    have := hk c hc
    rw [h0, inUnquoted_zero] at this
    cases this

theorem mem3 {c a b : Byte} {m : List Byte} (hc : c ∈ a :: m ++ [b]) : c = a ∨ c ∈ m ∨ c = b := by
  simp only [List.cons_append, List.mem_cons, List.mem_append, List.not_mem_nil, or_false] at hc
  exact hc

/-- a text of the dialect contains no NUL -/
theorem dialect_nz (cfg : Cfg) :
    (∀ L t v, Value cfg L t v → ∀ c ∈ t, c ≠ 0) ∧ (∀ L body xs, Elements cfg L body xs → ∀ c ∈ body, c ≠ 0) ∧
    (∀ L body ms, Members cfg L body ms → ∀ c ∈ body, c ≠ 0) := by
  have key : ∀ L t v (h : Value cfg L t v), ∀ c ∈ t, c ≠ 0 := by
    intro L t v h
    refine Value.rec (cfg := cfg)
      (motive_1 := fun L t v _ => ∀ c ∈ t, c ≠ 0)
      (motive_2 := fun L body xs _ => ∀ c ∈ body, c ≠ 0)
      (motive_3 := fun L body ms _ => ∀ c ∈ body, c ≠ 0)
      ?_ ?_ ?_ ?_ ?_ ?_ ?_ ?_ ?_ ?_ ?_ ?_ ?_ h
    · intro _ c hc; simp at hc; rcases hc with rfl | rfl | rfl | rfl <;> decide
    · intro _ c hc; simp at hc; rcases hc with rfl | rfl | rfl | rfl <;> decide
    · intro _ c hc; simp at hc; rcases hc with rfl | rfl | rfl | rfl | rfl <;> decide
    · intro _ lit v hn c hc h0
      have := hn.2.1 c hc
      rw [h0, inNumber_zero] at this
      cases this
    · intro _ q body s hq hb _ c hc
      rcases mem3 hc with rfl | hc | rfl
      · exact (isQuote_facts hq).1
      · exact decodeBody_nz hb c hc
      · exact (isQuote_facts hq).1
    · intro _ w hw c hc
      rcases mem3 hc with rfl | hc | rfl
      · decide
      · exact dws_no_nul hw c hc
      · decide
    · intro _ body xs _ ih c hc
      rcases mem3 hc with rfl | hc | rfl
      · decide
      · exact ih c hc
      · decide
    · intro _ w hw c hc
      rcases mem3 hc with rfl | hc | rfl
      · decide
      · exact dws_no_nul hw c hc
      · decide
    · intro _ body ms _ ih c hc
      rcases mem3 hc with rfl | hc | rfl
      · decide
      · exact ih c hc
      · decide
    · intro _ w1 t v w2 h1 _ h2 ihv c hc
      simp only [List.mem_append] at hc
      rcases hc with (hc | hc) | hc
      · exact dws_no_nul h1 c hc
      · exact ihv c hc
      · exact dws_no_nul h2 c hc
    · intro _ w1 t v w2 rest vs h1 _ h2 _ ihv ihr c hc
      simp only [List.mem_append, List.mem_cons] at hc
      rcases hc with ((hc | hc) | hc) | rfl | hc
      · exact dws_no_nul h1 c hc
      · exact ihv c hc
      · exact dws_no_nul h2 c hc
      · decide
      · exact ihr c hc
    · intro _ w1 kt k w2 w3 t v w4 h1 hk h2 h3 _ h4 ihv c hc
      simp only [List.mem_append, List.mem_cons] at hc
      rcases hc with ((((hc | hc) | hc) | rfl | hc) | hc) | hc
      · exact dws_no_nul h1 c hc
      · exact key_nz hk c hc
      · exact dws_no_nul h2 c hc
      · decide
      · exact dws_no_nul h3 c hc
      · exact ihv c hc
      · exact dws_no_nul h4 c hc
    · intro _ w1 kt k w2 w3 t v w4 rest ms' h1 hk h2 h3 _ h4 _ ihv ihr c hc
      simp only [List.mem_append, List.mem_cons] at hc
      rcases hc with (((((hc | hc) | hc) | rfl | hc) | hc) | hc) | rfl | hc
      · exact dws_no_nul h1 c hc
      · exact key_nz hk c hc
      · exact dws_no_nul h2 c hc
      · decide
      · exact dws_no_nul h3 c hc
      · exact ihv c hc
      · exact dws_no_nul h4 c hc
      · decide
      · exact ihr c hc
  refine ⟨key, ?_, ?_⟩
  · intro L body xs h c hc
    have := key (L + 1) _ _ (Value.arr L body xs h) c (by simp [hc])
    exact this
  · intro L body ms h c hc
    have := key (L + 1) _ _ (Value.obj L body ms h) c (by simp [hc])
    exact this

theorem value_nz {cfg : Cfg} {L : Nat} {t : List Byte} {v : Val} (h : Value cfg L t v) : ∀ c ∈ t, c ≠ 0 :=
  (dialect_nz cfg).1 L t v h

/-- `0` is a number token under every configuration -/
theorem numTok_zero (cfg : Cfg) : NumTok cfg [0x30] (.num (.uint 0)) := by
  refine ⟨by simp, ?_, by simp, ?_⟩
  · intro c hc
    simp only [List.mem_singleton] at hc
    subst hc
    unfold inNumber
    rfl
  · have hp : parseNumber cfg [0x30] = .uint (Digits.decVal [0x30]) :=
      Digits.parse_unsigned cfg [0x30] (by intro c hc; simp at hc; subst hc; decide) (by simp) (by decide)
    have hd : Digits.decVal [0x30] = 0 := by decide
    rw [hd] at hp
    simp only [numDen, hp]

end JD
