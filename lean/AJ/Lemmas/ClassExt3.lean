/- An `IncompleteInput` text can be completed: the mutually recursive routines. -/
import AJ.Lemmas.ClassExt2
set_option linter.unusedSimpArgs false
set_option linter.unusedVariables false
namespace JD
open Spec.Dialect

def IV (cfg : Cfg) (fuel : Nat) : Prop :=
  ∀ (L : Nat) (s : St) (r : List Byte) (v : Val) (s' : St), Rem s r → r.length + 4 ≤ cfg.maxStrLen →
    parseVariant cfg fuel L s = (.incomplete, v, s') →
    ∃ a x w body v', Ends r a ∧ a ++ x = w ++ body ∧ DWs cfg w ∧ Value cfg L body v'

def IE (cfg : Cfg) (fuel : Nat) : Prop :=
  ∀ (L : Nat) (s : St) (r : List Byte) (acc : List Val) (v : Val) (s' : St), Rem s r → r.length + 4 ≤ cfg.maxStrLen →
    parseElems cfg fuel L s acc = (.incomplete, v, s') →
    ∃ a x body xs, Ends r a ∧ a ++ x = body ++ [0x5D] ∧ Elements cfg L body xs

def IM (cfg : Cfg) (fuel : Nat) : Prop :=
  ∀ (L : Nat) (s : St) (r : List Byte) (acc : List (List Byte × Val)) (v : Val) (s' : St), Rem s r →
    r.length + 4 ≤ cfg.maxStrLen → parseMembers cfg fuel L s acc = (.incomplete, v, s') →
    ∃ a x body ms, Ends r a ∧ a ++ x = body ++ [0x7D] ∧ Members cfg L body ms

theorem tuple_eq3 {α β : Type} {e e' : Code} {a a' : α} {b b' : β} (h : (e, a, b) = (e', a', b')) :
    e = e' ∧ a = a' ∧ b = b' := by
  injection h with h1 h2; injection h2 with h2 h3; exact ⟨h1, h2, h3⟩

theorem parseNumeric_ne_incomplete (cfg : Cfg) (s : St) : (parseNumeric cfg s).1 ≠ .incomplete := by
  unfold parseNumeric
  generalize scanNumber cfg (Gen.number_buffer - 1) [] s = q
  obtain ⟨buf, X⟩ := q
  simp only
  split <;> exact Code.noConfusion

theorem value_zero (cfg : Cfg) (L : Nat) : Value cfg L [0x30] (.num (.uint 0)) := Value.num L _ _ (numTok_zero cfg)

/-- a string completed by `parseQuoted_inc` -/
theorem str_completion {cfg : Cfg} {q : Byte} {a x r : List Byte} (ha : Ends r a) (hx : x.length ≤ 4)
    (hd : (decodeBody cfg q 0 (a ++ x)).isSome = true) (hB : r.length + 4 ≤ cfg.maxStrLen) :
    ∃ y, decodeBody cfg q 0 (a ++ x) = some y ∧ y.length ≤ cfg.maxStrLen := by
  cases hdb : decodeBody cfg q 0 (a ++ x) with
  | none => rw [hdb] at hd; cases hd
  | some y =>
    refine ⟨y, rfl, ?_⟩
    have h1 := decodeBody_length hdb
    have h2 := ha.length_le
    simp at h1
    omega

set_option maxRecDepth 8000 in
theorem iv_step (cfg : Cfg) (fuel : Nat) (hE : IE cfg fuel) (hM : IM cfg fuel) : IV cfg (fuel + 1) := by
  intro limit s r v s' hr hB h
  simp only [parseVariant] at h
  split at h
  · rename_i s1 heq
    obtain ⟨w, r1, rfl, hw2, hw3, hw4, _, _, _⟩ := skipSpaces_sound cfg _ _ _ _ hr heq
    obtain ⟨k1, k2, k3, _, _⟩ := hw3.look
    split at h
    · -- array
      rename_i hc
      have hc' : (cur s1).1 = 0x5B := by simpa using hc
      split at h
      · cases h
      · rename_i limit'
        obtain ⟨t1, rfl, e2⟩ := hw3.step' (by rw [hc']; decide)
        split at h
        · rename_i s2 heq2
          obtain ⟨w2, r2, rfl, iw2, iw3, _⟩ := skipSpaces_sound cfg _ _ _ _ e2 heq2
          split at h
          · cases h
          · obtain ⟨a, x, body, xs, ha, hx, he⟩ := hE _ _ _ _ _ _ iw3.look.1 (by simp at hB ⊢; omega) h
            refine ⟨w ++ 0x5B :: (w2 ++ a), x, w, 0x5B :: (w2 ++ body) ++ [0x5D], .arr xs, ?_, ?_, hw2,
              Value.arr _ _ _ (he.prepend iw2)⟩
            · rw [hc']; exact ((ha.prepend w2).cons).prepend w
            · simp only [List.append_assoc, List.cons_append]
              rw [hx]
        · rename_i e s2 hne heq2
          obtain ⟨rfl, _, _⟩ := tuple_eq3 h
          obtain ⟨a, x, ha, hd⟩ := skipSpaces_inc cfg _ _ _ _ _ e2 heq2 (Or.inl rfl)
          refine ⟨w ++ 0x5B :: a, x ++ [0x5D], w, 0x5B :: (a ++ x) ++ [0x5D], .arr [], ?_, by simp, hw2,
            Value.arrEmpty _ _ hd⟩
          rw [hc']; exact (ha.cons).prepend w
    · rename_i hc
      split at h
      · -- object
        rename_i ho
        have ho' : (cur s1).1 = 0x7B := by simpa using ho
        split at h
        · cases h
        · rename_i limit'
          obtain ⟨t1, rfl, e2⟩ := hw3.step' (by rw [ho']; decide)
          split at h
          · rename_i s2 heq2
            obtain ⟨w2, r2, rfl, iw2, iw3, _⟩ := skipSpaces_sound cfg _ _ _ _ e2 heq2
            split at h
            · cases h
            · obtain ⟨a, x, body, ms, ha, hx, hm⟩ := hM _ _ _ _ _ _ iw3.look.1 (by simp at hB ⊢; omega) h
              refine ⟨w ++ 0x7B :: (w2 ++ a), x, w, 0x7B :: (w2 ++ body) ++ [0x7D], .obj (lastWins ms), ?_, ?_,
                hw2, Value.obj _ _ _ (hm.prepend iw2)⟩
              · rw [ho']; exact ((ha.prepend w2).cons).prepend w
              · simp only [List.append_assoc, List.cons_append]
                rw [hx]
          · rename_i e s2 hne heq2
            obtain ⟨rfl, _, _⟩ := tuple_eq3 h
            obtain ⟨a, x, ha, hd⟩ := skipSpaces_inc cfg _ _ _ _ _ e2 heq2 (Or.inl rfl)
            refine ⟨w ++ 0x7B :: a, x ++ [0x7D], w, 0x7B :: (a ++ x) ++ [0x7D], .obj [], ?_, by simp, hw2,
              Value.objEmpty _ _ hd⟩
            rw [ho']; exact (ha.cons).prepend w
      · rename_i ho
        split at h
        · -- string
          rename_i hq
          have hq' : IsQuote (cur s1).1 := by simpa [IsQuote] using hq
          obtain ⟨t1, rfl, e2⟩ := hw3.step' (isQuote_facts hq').1
          split at h
          · cases h
          · rename_i e x1 s2 hne heq2
            obtain ⟨rfl, _, _⟩ := tuple_eq3 h
            obtain ⟨a, x, ha, hx, hd⟩ := parseQuoted_inc hq' _ _ _ _ _ _ _ e2 heq2
            obtain ⟨y, hy, hl⟩ := str_completion ha hx (hd 0) (by simp at hB ⊢; omega)
            exact ⟨w ++ (cur s1).1 :: a, x ++ [(cur s1).1], w, (cur s1).1 :: (a ++ x) ++ [(cur s1).1], .str y,
              (ha.cons).prepend w, by simp, hw2, Value.str _ _ _ _ hq' hy hl⟩
        · rename_i hq
          split at h
          · -- true
            rw [kw_true] at h
            obtain ⟨h1, _, h3⟩ := tuple_eq3 h
            obtain ⟨a, x, ha, hx⟩ := skipKeyword_inc _ _ _ _ k1 (Prod.ext h1 h3)
            exact ⟨w ++ a, x, w, _, _, ha.prepend w, by rw [List.append_assoc, hx], hw2, Value.true _⟩
          · split at h
            · rw [kw_false] at h
              obtain ⟨h1, _, h3⟩ := tuple_eq3 h
              obtain ⟨a, x, ha, hx⟩ := skipKeyword_inc _ _ _ _ k1 (Prod.ext h1 h3)
              exact ⟨w ++ a, x, w, _, _, ha.prepend w, by rw [List.append_assoc, hx], hw2, Value.false _⟩
            · split at h
              · rw [kw_null] at h
                obtain ⟨h1, _, h3⟩ := tuple_eq3 h
                obtain ⟨a, x, ha, hx⟩ := skipKeyword_inc _ _ _ _ k1 (Prod.ext h1 h3)
                exact ⟨w ++ a, x, w, _, _, ha.prepend w, by rw [List.append_assoc, hx], hw2, Value.null _⟩
              · have := parseNumeric_ne_incomplete cfg (cur s1).2
                rw [h] at this
                exact absurd rfl this
  · rename_i e s1 hne heq
    obtain ⟨rfl, _, _⟩ := tuple_eq3 h
    obtain ⟨a, x, ha, hd⟩ := skipSpaces_inc cfg _ _ _ _ _ hr heq (Or.inl rfl)
    exact ⟨a, x ++ [0x30], a ++ x, [0x30], _, ha, by simp, hd, value_zero cfg limit⟩

theorem ie_step (cfg : Cfg) (fuel : Nat) (hV : IV cfg fuel) (hE : IE cfg fuel) : IE cfg (fuel + 1) := by
  intro limit s r acc v s' hr hB h
  simp only [parseElems] at h
  split at h
  · rename_i v1 s1 heq
    obtain ⟨w, t, r1, rfl, a2, a3, a4, _⟩ := (sound_all cfg fuel).1 _ _ _ _ _ hr heq
    split at h
    · rename_i s2 heq2
      obtain ⟨w2, r2, rfl, b2, b3, _⟩ := skipSpaces_sound cfg _ _ _ _ a4 heq2
      split at h
      · cases h
      · split at h
        · rename_i hc
          have hc' : (cur s2).1 = 0x2C := by simpa using hc
          obtain ⟨t2, rfl, f2⟩ := b3.step' (by rw [hc']; decide)
          obtain ⟨a, x, body, xs, ha, hx, he⟩ := hE _ _ _ _ _ _ f2 (by simp at hB ⊢; omega) h
          refine ⟨w ++ t ++ w2 ++ 0x2C :: a, x, w ++ t ++ w2 ++ 0x2C :: body, v1 :: xs, ?_, ?_,
            Elements.cons _ _ _ _ _ _ _ a2 a3 b2 he⟩
          · rw [hc']
            have := ((ha.cons (c := 0x2C)).prepend w2).prepend (w ++ t)
            simpa using this
          · simp only [List.append_assoc, List.cons_append]
            rw [hx]
        · cases h
    · rename_i e s2 hne heq2
      obtain ⟨rfl, _, _⟩ := tuple_eq3 h
      obtain ⟨a, x, ha, hd⟩ := skipSpaces_inc cfg _ _ _ _ _ a4 heq2 (Or.inl rfl)
      refine ⟨w ++ t ++ a, x ++ [0x5D], w ++ t ++ (a ++ x), [v1], ?_, by simp, Elements.one _ _ _ _ _ a2 a3 hd⟩
      have := ha.prepend (w ++ t)
      simpa using this
  · rename_i e v1 s1 hne heq
    obtain ⟨rfl, _, _⟩ := tuple_eq3 h
    obtain ⟨a, x, w, body, v', ha, hx, hw, hv⟩ := hV _ _ _ _ _ hr hB heq
    refine ⟨a, x ++ [0x5D], w ++ body ++ [], [v'], ha, ?_, Elements.one _ _ _ _ _ hw hv DWs.nil⟩
    rw [← List.append_assoc, hx]; simp

/-- an unquoted key `a` and the value `0`: the member that completes an object after a comma -/
theorem member_a0 (cfg : Cfg) (L : Nat) {w : List Byte} (hw : DWs cfg w) (h1 : 1 ≤ cfg.maxStrLen) :
    Members cfg L (w ++ [0x61] ++ [] ++ 0x3A :: [] ++ [0x30] ++ []) [([0x61], .num (.uint 0))] :=
  Members.one L w [0x61] [0x61] [] [] [0x30] _ [] hw
    (Key.bare [0x61] (by simp) (by intro c hc; simp at hc; subst hc; decide) h1) DWs.nil DWs.nil (value_zero cfg L) DWs.nil

set_option maxRecDepth 8000 in
theorem im_step (cfg : Cfg) (fuel : Nat) (hV : IV cfg fuel) (hM : IM cfg fuel) : IM cfg (fuel + 1) := by
  intro limit s r acc v s' hr hB h
  simp only [parseMembers] at h
  obtain ⟨k1, k2, k3, _, _⟩ := hr.look
  split at h
  · rename_i key s1 hkey
    -- the key
    have hK : ∃ kt r1, r = kt ++ r1 ∧ Key cfg kt key ∧ Rem s1 r1 := by
      split at hkey
      · rename_i hq
        have hq' : IsQuote (cur s).1 := by simpa [IsQuote] using hq
        obtain ⟨t1, rfl, e2⟩ := hr.step' (isQuote_facts hq').1
        obtain ⟨body, x, r', rfl, g2, g3, g4, g5⟩ := parseQuoted_sound hq' _ _ _ _ _ _ _ (by decide) e2 hkey
        simp only [List.reverse_nil, List.nil_append] at g3
        subst g3
        exact ⟨(cur s).1 :: body ++ [(cur s).1], r', by simp, Key.quoted _ _ _ hq' g2 g4, g5⟩
      · split at hkey
        · rename_i hu
          obtain ⟨hcode, hk, hs⟩ := tuple_ok hkey
          have hlen : key.length ≤ cfg.maxStrLen := by
            rw [← hk]
            by_cases hh : (parseUnquoted (fuel + 1) [] (cur s).2).1.length > cfg.maxStrLen
            · rw [if_pos hh] at hcode; cases hcode
            · omega
          obtain ⟨x, r', g1, g2, g3, g4⟩ := parseUnquoted_sound _ _ _ _ _ _ k1 (Prod.ext hk hs)
          simp only [List.reverse_nil, List.nil_append] at g2
          subst g2
          refine ⟨key, r', g1, Key.bare _ ?_ g3 hlen, g4⟩
          intro hnil
          rw [hnil] at hk
          simp only [parseUnquoted, cur_cur, hu, ↓reduceIte] at hk
          have := parseUnquoted_len fuel [(cur s).1] (mv (cur s).2)
          rw [hk] at this
          simp at this
        · cases hkey
    obtain ⟨kt, r1, rfl, hkt, a3⟩ := hK
    split at h
    · rename_i s2 heq2
      obtain ⟨w2, r2, rfl, b2, b3, _⟩ := skipSpaces_sound cfg _ _ _ _ a3 heq2
      split at h
      · cases h
      · rename_i hc
        have hc' : (cur s2).1 = 0x3A := by simpa using hc
        obtain ⟨t2, rfl, f2⟩ := b3.step' (by rw [hc']; decide)
        split at h
        · rename_i v1 s3 heq3
          obtain ⟨w3, t, r3, rfl, c2, c3, c4, _⟩ := (sound_all cfg fuel).1 _ _ _ _ _ f2 heq3
          split at h
          · rename_i s4 heq4
            obtain ⟨w4, r4, rfl, d2, d3, _⟩ := skipSpaces_sound cfg _ _ _ _ c4 heq4
            split at h
            · cases h
            · split at h
              · rename_i hcm
                have hcm' : (cur s4).1 = 0x2C := by simpa using hcm
                obtain ⟨t4, rfl, g2⟩ := d3.step' (by rw [hcm']; decide)
                split at h
                · rename_i s5 heq5
                  obtain ⟨w5, r5, rfl, e2, e3, _⟩ := skipSpaces_sound cfg _ _ _ _ g2 heq5
                  obtain ⟨a, x, body, ms, ha, hx, hm⟩ := hM _ _ _ _ _ _ e3 (by simp at hB ⊢; omega) h
                  refine ⟨kt ++ w2 ++ 0x3A :: w3 ++ t ++ w4 ++ 0x2C :: (w5 ++ a), x,
                    [] ++ kt ++ w2 ++ 0x3A :: w3 ++ t ++ w4 ++ 0x2C :: (w5 ++ body), (key, v1) :: ms, ?_, ?_,
                    Members.cons _ _ _ _ _ _ _ _ _ _ _ DWs.nil hkt b2 c2 c3 d2 (hm.prepend e2)⟩
                  · rw [hc', hcm']
                    have := (((((ha.prepend w5).cons (c := 0x2C)).prepend w4).prepend t).prepend w3).cons (c := 0x3A)
                      |>.prepend w2 |>.prepend kt
                    simpa using this
                  · simp only [List.append_assoc, List.cons_append, List.nil_append]
                    rw [hx]
                · rename_i e s5 hne heq5
                  obtain ⟨rfl, _, _⟩ := tuple_eq3 h
                  obtain ⟨a, x, ha, hd⟩ := skipSpaces_inc cfg _ _ _ _ _ g2 heq5 (Or.inl rfl)
                  refine ⟨kt ++ w2 ++ 0x3A :: w3 ++ t ++ w4 ++ 0x2C :: a, x ++ [0x61, 0x3A, 0x30, 0x7D],
                    [] ++ kt ++ w2 ++ 0x3A :: w3 ++ t ++ w4 ++ 0x2C :: ((a ++ x) ++ [0x61] ++ [] ++ 0x3A :: [] ++ [0x30] ++ []),
                    _, ?_, ?_,
                    Members.cons _ _ _ _ _ _ _ _ _ _ _ DWs.nil hkt b2 c2 c3 d2 (member_a0 cfg limit hd (by omega))⟩
                  · rw [hc', hcm']
                    have := ((((ha.cons (c := 0x2C)).prepend w4).prepend t).prepend w3).cons (c := 0x3A)
                      |>.prepend w2 |>.prepend kt
                    simpa using this
                  · simp
              · cases h
          · rename_i e s4 hne heq4
            obtain ⟨rfl, _, _⟩ := tuple_eq3 h
            obtain ⟨a, x, ha, hd⟩ := skipSpaces_inc cfg _ _ _ _ _ c4 heq4 (Or.inl rfl)
            refine ⟨kt ++ w2 ++ 0x3A :: w3 ++ t ++ a, x ++ [0x7D], [] ++ kt ++ w2 ++ 0x3A :: w3 ++ t ++ (a ++ x), _, ?_, ?_,
              Members.one _ _ _ _ _ _ _ _ _ DWs.nil hkt b2 c2 c3 hd⟩
            · rw [hc']
              have := (((ha.prepend t).prepend w3).cons (c := 0x3A)).prepend w2 |>.prepend kt
              simpa using this
            · simp
        · rename_i e v1 s3 hne heq3
          obtain ⟨rfl, _, _⟩ := tuple_eq3 h
          obtain ⟨a, x, w, body, v', ha, hx, hw, hv⟩ := hV _ _ _ _ _ f2 (by simp at hB ⊢; omega) heq3
          refine ⟨kt ++ w2 ++ 0x3A :: a, x ++ [0x7D], [] ++ kt ++ w2 ++ 0x3A :: w ++ body ++ [], _, ?_, ?_,
            Members.one _ _ _ _ _ _ _ _ _ DWs.nil hkt b2 hw hv DWs.nil⟩
          · rw [hc']
            have := ((ha.cons (c := 0x3A)).prepend w2).prepend kt
            simpa using this
          · simp only [List.append_assoc, List.cons_append, List.nil_append, List.append_nil]
            rw [← List.append_assoc a x, hx]; simp
    · rename_i e s2 hne heq2
      obtain ⟨rfl, _, _⟩ := tuple_eq3 h
      obtain ⟨a, x, ha, hd⟩ := skipSpaces_inc cfg _ _ _ _ _ a3 heq2 (Or.inl rfl)
      refine ⟨kt ++ a, x ++ [0x3A, 0x30, 0x7D], [] ++ kt ++ (a ++ x) ++ 0x3A :: [] ++ [0x30] ++ [], _, ?_, ?_,
        Members.one _ _ _ _ _ _ _ _ _ DWs.nil hkt hd DWs.nil (value_zero cfg limit) DWs.nil⟩
      · exact ha.prepend kt
      · simp
  · rename_i e x1 s1 hne hkey
    obtain ⟨rfl, _, _⟩ := tuple_eq3 h
    split at hkey
    · rename_i hq
      have hq' : IsQuote (cur s).1 := by simpa [IsQuote] using hq
      obtain ⟨t1, rfl, e2⟩ := hr.step' (isQuote_facts hq').1
      obtain ⟨a, x, ha, hx, hd⟩ := parseQuoted_inc hq' _ _ _ _ _ _ _ e2 hkey
      obtain ⟨y, hy, hl⟩ := str_completion ha hx (hd 0) (by simp at hB ⊢; omega)
      refine ⟨(cur s).1 :: a, x ++ [(cur s).1, 0x3A, 0x30, 0x7D],
        [] ++ ((cur s).1 :: (a ++ x) ++ [(cur s).1]) ++ [] ++ 0x3A :: [] ++ [0x30] ++ [], _, ha.cons, by simp,
        Members.one _ _ _ _ _ _ _ _ _ DWs.nil (Key.quoted _ _ _ hq' hy hl) DWs.nil DWs.nil (value_zero cfg limit) DWs.nil⟩
    · split at hkey
      · have hc := (tuple_eq3 hkey).1
        split at hc <;> cases hc
      · cases (tuple_eq3 hkey).1

/-- **every `IncompleteInput` of the three routines can be completed** -/
theorem inc_all (cfg : Cfg) : ∀ fuel, IV cfg fuel ∧ IE cfg fuel ∧ IM cfg fuel := by
  intro fuel
  induction fuel with
  | zero =>
    refine ⟨?_, ?_, ?_⟩
    · intro limit s r v s' _ _ h; simp [parseVariant] at h
    · intro limit s r acc v s' _ _ h; simp [parseElems] at h
    · intro limit s r acc v s' _ _ h; simp [parseMembers] at h
  | succ n ih => exact ⟨iv_step cfg n ih.2.1 ih.2.2, ie_step cfg n ih.1 ih.2.1, im_step cfg n ih.1 ih.2.2⟩

end JD
