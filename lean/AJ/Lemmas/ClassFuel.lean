/- Fuel independence of the JSON deserializer model: with enough fuel (the bounds of AJ/Lemmas/Fuel.lean) every routine
   returns the same result whatever the fuel. Hence `run` — whose fuel depends on the length of the input — can be
   compared on inputs of different lengths. -/
import AJ.Lemmas.Fuel
import AJ.Lemmas.ClassKont
set_option linter.unusedSimpArgs false
set_option linter.unusedVariables false
namespace JD

theorem fm_skipBlock : ∀ f g w s k, rem s ≤ k → k + 1 ≤ f → k + 1 ≤ g → skipBlock f w s = skipBlock g w s := by
  intro f
  induction f with
  | zero => intro g w s k _ hf; omega
  | succ f ih =>
    intro g w s k h hf hg
    obtain ⟨g, rfl⟩ : ∃ g', g = g' + 1 := ⟨g - 1, by omega⟩
    simp only [skipBlock]
    split
    · rfl
    · rename_i hc
      obtain ⟨hk, h1⟩ := step h (nz_of_not hc)
      split
      · rfl
      · exact ih _ _ _ _ h1 (by omega) (by omega)

theorem fm_skipLine : ∀ f g s k, rem (mv s) ≤ k → k + 1 ≤ f → k + 1 ≤ g → skipLine f s = skipLine g s := by
  intro f
  induction f with
  | zero => intro g s k _ hf; omega
  | succ f ih =>
    intro g s k h hf hg
    obtain ⟨g, rfl⟩ : ∃ g', g = g' + 1 := ⟨g - 1, by omega⟩
    simp only [skipLine]
    split
    · rfl
    · rename_i hc
      obtain ⟨hk, h1⟩ := step h (nz_of_not hc)
      split
      · rfl
      · exact ih _ _ _ h1 (by omega) (by omega)

theorem fm_skipSpaces {cfg : Cfg} : ∀ f g s k, rem s ≤ k → k + 1 ≤ f → k + 1 ≤ g →
    skipSpaces cfg f s = skipSpaces cfg g s := by
  intro f
  induction f with
  | zero => intro g s k _ hf; omega
  | succ f ih =>
    intro g s k h hf hg
    obtain ⟨g, rfl⟩ : ∃ g', g = g' + 1 := ⟨g - 1, by omega⟩
    simp only [skipSpaces]
    split
    · rfl
    · rename_i hc
      obtain ⟨hk, h1⟩ := step h (nz_of_not hc)
      split
      · exact ih _ _ _ h1 (by omega) (by omega)
      · split
        · have h2 := look h1
          split
          · rename_i hd
            obtain ⟨hk2, h3⟩ := step h1 (nz_of_beq hd (by decide))
            rw [fm_skipBlock f g false _ _ h3 (by omega) (by omega)]
            have hb := skipBlock_ok g false _ _ h3 (by omega)
            split
            · rename_i heq; rw [heq] at hb
              exact ih _ _ _ hb.1 (by omega) (by omega)
            · rfl
          · split
            · rename_i hd
              obtain ⟨hk2, h3⟩ := step h1 (nz_of_beq hd (by decide))
              rw [fm_skipLine f g _ _ h3 (by omega) (by omega)]
              have hb := skipLine_ok g _ _ h3 (by omega)
              split
              · rename_i heq; rw [heq] at hb
                exact ih _ _ _ hb.1 (by omega) (by omega)
              · rfl
            · rfl
        · rfl

theorem fm_parseQuoted {cfg : Cfg} {stop : Byte} : ∀ f g acc hi s k, rem s ≤ k → k + 1 ≤ f → k + 1 ≤ g →
    parseQuoted cfg stop f acc hi s = parseQuoted cfg stop g acc hi s := by
  intro f
  induction f with
  | zero => intro g acc hi s k _ hf; omega
  | succ f ih =>
    intro g acc hi s k h hf hg
    obtain ⟨g, rfl⟩ : ∃ g', g = g' + 1 := ⟨g - 1, by omega⟩
    simp only [parseQuoted]
    have h0 := skip (look h)
    split
    · rfl
    · split
      · rfl
      · rename_i hc
        obtain ⟨hk, h1⟩ := step h (nz_of_not hc)
        split
        · have h2 := look h1
          split
          · rfl
          · split
            · split
              · have h3 := parseHex4_ok 4 0 _ _ (skip h2)
                split
                · rename_i heq; rw [heq] at h3
                  have h4 : rem _ ≤ k - 1 := h3.1
                  split
                  · exact ih _ _ _ _ _ h4 (by omega) (by omega)
                  · split
                    · exact ih _ _ _ _ _ h4 (by omega) (by omega)
                    · exact ih _ _ _ _ _ h4 (by omega) (by omega)
                · rfl
              · exact ih _ _ _ _ _ h2 (by omega) (by omega)
            · split
              · rfl
              · exact ih _ _ _ _ _ (skip h2) (by omega) (by omega)
        · exact ih _ _ _ _ _ h1 (by omega) (by omega)

theorem fm_parseUnquoted : ∀ f g acc s k, rem s ≤ k → k + 1 ≤ f → k + 1 ≤ g →
    parseUnquoted f acc s = parseUnquoted g acc s := by
  intro f
  induction f with
  | zero => intro g acc s k _ hf; omega
  | succ f ih =>
    intro g acc s k h hf hg
    obtain ⟨g, rfl⟩ : ∃ g', g = g' + 1 := ⟨g - 1, by omega⟩
    simp only [parseUnquoted]
    split
    · rename_i hu
      have hnz : (cur s).1 ≠ 0 := by
        intro h0; rw [h0] at hu; exact absurd hu (by decide)
      obtain ⟨hk, h1⟩ := step h hnz
      exact ih _ _ _ _ h1 (by omega) (by omega)
    · rfl

/-! ## the mutually recursive routines, piece by piece -/

def FmV (cfg : Cfg) (f g : Nat) : Prop :=
  ∀ L s k, rem s ≤ k → 2 * k + 1 ≤ f → 2 * k + 1 ≤ g → parseVariant cfg f L s = parseVariant cfg g L s
def FmE (cfg : Cfg) (f g : Nat) : Prop :=
  ∀ L s acc k, rem s ≤ k → 2 * k + 2 ≤ f → 2 * k + 2 ≤ g → parseElems cfg f L s acc = parseElems cfg g L s acc
def FmM (cfg : Cfg) (f g : Nat) : Prop :=
  ∀ L s ms k, rem s ≤ k → 2 * k + 2 ≤ f → 2 * k + 2 ≤ g → parseMembers cfg f L s ms = parseMembers cfg g L s ms

theorem fm_pvArr {cfg : Cfg} {f g L' : Nat} (hE : FmE cfg f g) (r : Code × St) (k : Nat) (h : rem r.2 ≤ k)
    (hf : 2 * k + 2 ≤ f) (hg : 2 * k + 2 ≤ g) : pvArr cfg f L' r = pvArr cfg g L' r := by
  obtain ⟨c, s⟩ := r
  cases c <;> try rfl
  simp only [pvArr]
  split
  · rfl
  · exact hE _ _ _ _ (look h) hf hg

theorem fm_pvObj {cfg : Cfg} {f g L' : Nat} (hM : FmM cfg f g) (r : Code × St) (k : Nat) (h : rem r.2 ≤ k)
    (hf : 2 * k + 2 ≤ f) (hg : 2 * k + 2 ≤ g) : pvObj cfg f L' r = pvObj cfg g L' r := by
  obtain ⟨c, s⟩ := r
  cases c <;> try rfl
  simp only [pvObj]
  split
  · rfl
  · exact hM _ _ _ _ (look h) hf hg

theorem fm_pvTok {cfg : Cfg} {f g L : Nat} (hE : FmE cfg f g) (hM : FmM cfg f g) (s : St) (k : Nat) (h : rem s ≤ k)
    (hf : 2 * k ≤ f) (hg : 2 * k ≤ g) : pvTok cfg f L s = pvTok cfg g L s := by
  simp only [pvTok]
  split
  · rename_i hc
    obtain ⟨hk, h1⟩ := step h (nz_of_beq hc (by decide))
    cases L with
    | zero => rfl
    | succ L' =>
      simp only
      rw [fm_skipSpaces (cfg := cfg) (f+1) (g+1) _ _ h1 (by omega) (by omega)]
      exact fm_pvArr hE _ _ (skipSpaces_ok (g+1) _ _ h1 (by omega)).1 (by omega) (by omega)
  · split
    · rename_i hc
      obtain ⟨hk, h1⟩ := step h (nz_of_beq hc (by decide))
      cases L with
      | zero => rfl
      | succ L' =>
        simp only
        rw [fm_skipSpaces (cfg := cfg) (f+1) (g+1) _ _ h1 (by omega) (by omega)]
        exact fm_pvObj hM _ _ (skipSpaces_ok (g+1) _ _ h1 (by omega)).1 (by omega) (by omega)
    · split
      · rename_i hq
        have hnz : (cur s).1 ≠ 0 := by
          intro h0'; rw [h0'] at hq; exact absurd hq (by decide)
        obtain ⟨hk, h1⟩ := step h hnz
        rw [fm_parseQuoted (cfg := cfg) (f+1) (g+1) _ _ _ _ h1 (by omega) (by omega)]
      · rfl

theorem fm_pvK {cfg : Cfg} {f g L : Nat} (hE : FmE cfg f g) (hM : FmM cfg f g) (r : Code × St) (k : Nat)
    (h : rem r.2 ≤ k) (hf : 2 * k ≤ f) (hg : 2 * k ≤ g) : pvK cfg f L r = pvK cfg g L r := by
  obtain ⟨c, s⟩ := r
  cases c <;> try rfl
  exact fm_pvTok hE hM s k h hf hg

theorem fm_peK2 {cfg : Cfg} {f g L : Nat} {acc : List Val} (hE : FmE cfg f g) (r : Code × St) (k : Nat)
    (h : rem r.2 ≤ k) (hf : 2 * k ≤ f) (hg : 2 * k ≤ g) : peK2 cfg f L acc r = peK2 cfg g L acc r := by
  obtain ⟨c, s⟩ := r
  cases c <;> try rfl
  simp only [peK2]
  split
  · rfl
  · split
    · rename_i hc
      obtain ⟨hk, h1⟩ := step h (nz_of_beq hc (by decide))
      exact hE _ _ _ _ h1 (by omega) (by omega)
    · rfl

theorem fm_peK1 {cfg : Cfg} {f g L : Nat} {acc : List Val} (hE : FmE cfg f g) (r : Code × Val × St) (k : Nat)
    (h : rem r.2.2 ≤ k) (hf : 2 * k ≤ f) (hg : 2 * k ≤ g) : peK1 cfg f L acc r = peK1 cfg g L acc r := by
  obtain ⟨c, v, s⟩ := r
  cases c <;> try rfl
  simp only [peK1]
  rw [fm_skipSpaces (cfg := cfg) (f+1) (g+1) _ _ h (by omega) (by omega)]
  exact fm_peK2 hE _ _ (skipSpaces_ok (g+1) _ _ h (by omega)).1 hf hg

theorem fm_pmKey {cfg : Cfg} {f g : Nat} (s : St) (k : Nat) (h : rem s ≤ k) (hf : k ≤ f) (hg : k ≤ g) :
    pmKey cfg f s = pmKey cfg g s := by
  simp only [pmKey]
  split
  · rename_i hq
    have hnz : (cur s).1 ≠ 0 := by
      intro h0'; rw [h0'] at hq; exact absurd hq (by decide)
    obtain ⟨hk, h1⟩ := step h hnz
    exact fm_parseQuoted (f+1) (g+1) _ _ _ _ h1 (by omega) (by omega)
  · split
    · rw [fm_parseUnquoted (f+1) (g+1) [] _ _ (look h) (by omega) (by omega)]
    · rfl

theorem fm_pmK4 {cfg : Cfg} {f g L : Nat} {ms : List (List Byte × Val)} (hM : FmM cfg f g) (r : Code × St) (k : Nat)
    (h : rem r.2 ≤ k) (hf : 2 * k + 2 ≤ f) (hg : 2 * k + 2 ≤ g) : pmK4 cfg f L ms r = pmK4 cfg g L ms r := by
  obtain ⟨c, s⟩ := r
  cases c <;> try rfl
  exact hM _ _ _ _ h hf hg

theorem fm_pmK3 {cfg : Cfg} {f g L : Nat} {ms : List (List Byte × Val)} (hM : FmM cfg f g) (r : Code × St) (k : Nat)
    (h : rem r.2 ≤ k) (hf : 2 * k ≤ f) (hg : 2 * k ≤ g) : pmK3 cfg f L ms r = pmK3 cfg g L ms r := by
  obtain ⟨c, s⟩ := r
  cases c <;> try rfl
  simp only [pmK3]
  split
  · rfl
  · split
    · rename_i hc
      obtain ⟨hk, h1⟩ := step h (nz_of_beq hc (by decide))
      rw [fm_skipSpaces (cfg := cfg) (f+1) (g+1) _ _ h1 (by omega) (by omega)]
      exact fm_pmK4 hM _ _ (skipSpaces_ok (g+1) _ _ h1 (by omega)).1 (by omega) (by omega)
    · rfl

theorem fm_pmK2 {cfg : Cfg} {f g L : Nat} {ms : List (List Byte × Val)} {key : List Byte} (hM : FmM cfg f g)
    (r : Code × Val × St) (k : Nat) (h : rem r.2.2 ≤ k) (hf : 2 * k ≤ f) (hg : 2 * k ≤ g) :
    pmK2 cfg f L ms key r = pmK2 cfg g L ms key r := by
  obtain ⟨c, v, s⟩ := r
  cases c <;> try rfl
  simp only [pmK2]
  rw [fm_skipSpaces (cfg := cfg) (f+1) (g+1) _ _ h (by omega) (by omega)]
  exact fm_pmK3 hM _ _ (skipSpaces_ok (g+1) _ _ h (by omega)).1 hf hg

theorem fm_pmK1 {cfg : Cfg} {f g L : Nat} {ms : List (List Byte × Val)} {key : List Byte} (hV : FmV cfg f g)
    (hM : FmM cfg f g) (r : Code × St) (k : Nat) (h : rem r.2 ≤ k) (hf : 2 * k ≤ f) (hg : 2 * k ≤ g) :
    pmK1 cfg f L ms key r = pmK1 cfg g L ms key r := by
  obtain ⟨c, s⟩ := r
  cases c <;> try rfl
  simp only [pmK1]
  split
  · rfl
  · rename_i hcol
    have hnz : (cur s).1 ≠ 0 := by
      intro h0'; rw [h0'] at hcol; exact hcol (by decide)
    obtain ⟨hk, h1⟩ := step h hnz
    rw [hV _ _ _ h1 (by omega) (by omega)]
    exact fm_pmK2 hM _ _ ((fuel_mutual (cfg := cfg) g).1 _ _ _ h1 (by omega)).1 (by omega) (by omega)

theorem fm_pmK0 {cfg : Cfg} {f g L : Nat} {ms : List (List Byte × Val)} (hV : FmV cfg f g) (hM : FmM cfg f g)
    (r : Code × List Byte × St) (k : Nat) (h : rem r.2.2 ≤ k) (hf : 2 * k ≤ f) (hg : 2 * k ≤ g) :
    pmK0 cfg f L ms r = pmK0 cfg g L ms r := by
  obtain ⟨c, key, s⟩ := r
  cases c <;> try rfl
  simp only [pmK0]
  rw [fm_skipSpaces (cfg := cfg) (f+1) (g+1) _ _ h (by omega) (by omega)]
  exact fm_pmK1 hV hM _ _ (skipSpaces_ok (g+1) _ _ h (by omega)).1 hf hg

theorem rem_pmKey {cfg : Cfg} {f : Nat} (s : St) (k : Nat) (h : rem s ≤ k) (hf : k ≤ f) : rem (pmKey cfg f s).2.2 ≤ k := by
  simp only [pmKey]
  split
  · rename_i hq
    have hnz : (cur s).1 ≠ 0 := by
      intro h0'; rw [h0'] at hq; exact absurd hq (by decide)
    obtain ⟨hk, h1⟩ := step h hnz
    exact Nat.le_trans (parseQuoted_ok (f+1) _ _ _ _ h1 (by omega)).1 (by omega)
  · split
    · exact parseUnquoted_rem _ _ _ _ (look h)
    · exact look h

/-- **fuel independence** of the three mutually recursive routines -/
theorem fm_mutual {cfg : Cfg} : ∀ f g, FmV cfg f g ∧ FmE cfg f g ∧ FmM cfg f g := by
  intro f
  induction f with
  | zero =>
    intro g
    refine ⟨?_, ?_, ?_⟩
    · intro L s k _ hf; omega
    · intro L s acc k _ hf; omega
    · intro L s ms k _ hf; omega
  | succ f ih =>
    intro g
    cases g with
    | zero =>
      refine ⟨?_, ?_, ?_⟩
      · intro L s k _ _ hg; omega
      · intro L s acc k _ _ hg; omega
      · intro L s ms k _ _ hg; omega
    | succ g =>
      obtain ⟨ihV, ihE, ihM⟩ := ih g
      refine ⟨?_, ?_, ?_⟩
      · intro L s k h hf hg
        rw [parseVariant_succ, parseVariant_succ, fm_skipSpaces (cfg := cfg) (f+1) (g+1) _ _ h (by omega) (by omega)]
        exact fm_pvK ihE ihM _ _ (skipSpaces_ok (g+1) _ _ h (by omega)).1 (by omega) (by omega)
      · intro L s acc k h hf hg
        rw [parseElems_succ, parseElems_succ, ihV _ _ _ h (by omega) (by omega)]
        exact fm_peK1 ihE _ _ ((fuel_mutual (cfg := cfg) g).1 _ _ _ h (by omega)).1 (by omega) (by omega)
      · intro L s ms k h hf hg
        rw [parseMembers_succ, parseMembers_succ, fm_pmKey (cfg := cfg) (f := f) (g := g) _ _ h (by omega) (by omega)]
        exact fm_pmK0 ihV ihM _ _ (rem_pmKey _ _ h (by omega)) (by omega) (by omega)

/-- `run` with any sufficient fuel -/
def runF (cfg : Cfg) (limit fuel : Nat) (input : List Byte) : Code × Val × Nat :=
  let s0 : St := { l := { unread := input } }
  match parseVariant cfg fuel limit s0 with
  | (.ok, v, s) =>
    if s.l.cur != 0 && !isWs s.l.cur && isNumberVal v then (.invalid, v, s.l.pos) else (.ok, v, s.l.pos)
  | (e, v, s) => (e, v, s.l.pos)

theorem run_eq_runF (cfg : Cfg) (limit fuel : Nat) (input : List Byte) (hf : 2 * input.length + 1 ≤ fuel) :
    run cfg limit input = runF cfg limit fuel input := by
  have h0 : rem ({ l := { unread := input } } : St) ≤ input.length := by simp [rem]
  unfold run runF
  simp only
  rw [(fm_mutual (cfg := cfg) (2 * input.length + 4) fuel).1 limit _ _ h0 (by omega) hf]
  rfl

end JD
