/- Where the JSON deserializer model stops, on an input that contains a NUL: `t[n] = 0` is the first NUL of `t`.
   * the reader never takes a byte after that NUL (`Lv`: the latch is at or before the NUL);
   * `IncompleteInput` / `EmptyInput`: the NUL was taken (`pos = n + 1`);
   * `InvalidInput`: the latch holds the last byte taken; it is either a non-NUL byte of the text, or the NUL, and
     then the text ends with a number byte or (comments enabled) with `/` (`Dang`);
   * `TooDeep`: the NUL was not taken;
   * `NoMemory`: after a quoted string that is too long the reader stands behind the closing quote, nothing is latched
     (`Fin`); after an unquoted key that is too long the latch holds the byte that ended the key — possibly the NUL —
     and the bytes in front of it end with more than `maxStrLen` identifier bytes (`FinK`, `LongKey`). -/
import AJ.Lemmas.ClassKont
import AJ.Lemmas.Latch
set_option linter.unusedSimpArgs false
set_option linter.unusedVariables false
namespace JD

/-- `n` is the index of the first NUL of `t` -/
structure NulAt (t : List Byte) (n : Nat) : Prop where
  lt : n < t.length
  nul : t[n]? = some 0
  nz : ∀ i c, i < n → t[i]? = some c → c ≠ 0

/-- the latch is at or before the first NUL: unread bytes are `t` from `pos` on; a latched byte is `t[pos-1]` -/
def Lv (t : List Byte) (n : Nat) (s : St) : Prop :=
  s.l.unread = t.drop s.l.pos ∧
  (s.l.loaded = true → 1 ≤ s.l.pos ∧ s.l.pos ≤ n + 1 ∧ t[s.l.pos - 1]? = some s.l.cur) ∧
  (s.l.loaded = false → s.l.pos ≤ n)

/-- latched -/
def Ld_d0 (t : List Byte) (n : Nat) (s : St) : Prop := Lv t n s ∧ s.l.loaded = true
/-- latched on a byte that is not the NUL -/
def Tk (t : List Byte) (n : Nat) (s : St) : Prop := Ld_d0 t n s ∧ s.l.cur ≠ 0

/-- the text `t[0..n)` ends with a number byte, or with `/` when comments are enabled -/
def Dang (cfg : Cfg) (t : List Byte) (n : Nat) : Prop :=
  1 ≤ n ∧ ∃ c, t[n - 1]? = some c ∧ (inNumber cfg c = true ∨ (cfg.comments = true ∧ c = 0x2F))

/-- what is known about the final state, by code (`okP`: the routine-specific fact for `Ok`) -/
def Fin (cfg : Cfg) (t : List Byte) (n : Nat) (okP : St → Prop) : Code → St → Prop
  | .ok, s => okP s
  | .incomplete, s => s.l.pos = n + 1
  | .empty, s => s.l.pos = n + 1
  | .invalid, s => Ld_d0 t n s ∧ (s.l.cur = 0 → Dang cfg t n)
  | .tooDeep, s => Tk t n s
  | .noMemory, s => Lv t n s ∧ s.l.loaded = false
  | .fuel, _ => True

/-- `e` ends with a run of identifier bytes (the bytes of an unquoted key) longer than the string limit -/
def LongTail (cfg : Cfg) (e : List Byte) : Prop :=
  ∃ pre k, e = pre ++ k ∧ (∀ c ∈ k, inUnquoted c = true) ∧ cfg.maxStrLen < k.length

/-- the bytes in front of the latched byte end with a too long run of identifier bytes -/
def LongKey (cfg : Cfg) (t : List Byte) (s : St) : Prop := LongTail cfg (t.take (s.l.pos - 1))

/-- `Fin` for the routines that read object keys: `NoMemory` is also the answer to an unquoted key that is too long, and
    then the latch holds the byte that ended the key -/
def FinK (cfg : Cfg) (t : List Byte) (n : Nat) (okP : St → Prop) : Code → St → Prop
  | .ok, s => okP s
  | .incomplete, s => s.l.pos = n + 1
  | .empty, s => s.l.pos = n + 1
  | .invalid, s => Ld_d0 t n s ∧ (s.l.cur = 0 → Dang cfg t n)
  | .tooDeep, s => Tk t n s
  | .noMemory, s => Lv t n s ∧ (s.l.loaded = true → LongKey cfg t s)
  | .fuel, _ => True

theorem Fin.toK {cfg : Cfg} {t : List Byte} {n : Nat} {okP : St → Prop} {c : Code} {s : St}
    (h : Fin cfg t n okP c s) : FinK cfg t n okP c s := by
  cases c
  case noMemory => exact ⟨h.1, fun hl => by rw [h.2] at hl; cases hl⟩
  all_goals exact h

section
variable {cfg : Cfg} {t : List Byte} {n : Nat} (hN : NulAt t n)
include hN

theorem Ld_d0.pos_zero {s : St} (h : Ld_d0 t n s) (h0 : s.l.cur = 0) : s.l.pos = n + 1 := by
  obtain ⟨⟨_, h2, _⟩, hl⟩ := h
  obtain ⟨a, b, c⟩ := h2 hl
  rw [h0] at c
  by_cases hlt : s.l.pos - 1 < n
  · exact absurd rfl (hN.nz _ _ hlt c)
  · omega

theorem Tk.pos_le {s : St} (h : Tk t n s) : s.l.pos ≤ n := by
  obtain ⟨⟨⟨_, h2, _⟩, hl⟩, hc⟩ := h
  obtain ⟨a, b, c⟩ := h2 hl
  by_cases heq : s.l.pos - 1 = n
  · rw [heq, hN.nul] at c
    exact absurd (Option.some.inj c).symm hc
  · omega

omit hN in
theorem Lv.found {s : St} {b : Bool} (h : Lv t n s) : Lv t n { s with found := b } := h

/-- `current()`: latched at or before the NUL -/
theorem Lv.look {s : St} (h : Lv t n s) : Ld_d0 t n (cur s).2 ∧ (cur s).2.l.cur = (cur s).1 ∧ (cur s).2.found = s.found ∧
    (s.l.loaded = false → (cur s).2.l.pos = s.l.pos + 1) := by
  by_cases hl : s.l.loaded = true
  · rw [cur_loaded hl]; exact ⟨⟨h, hl⟩, rfl, rfl, fun h' => by rw [hl] at h'; cases h'⟩
  · have hl' : s.l.loaded = false := by simpa using hl
    have hp := h.2.2 hl'
    have hlt : s.l.pos < t.length := Nat.lt_of_le_of_lt hp hN.lt
    have hu : s.l.unread = t[s.l.pos] :: t.drop (s.l.pos + 1) := by
      rw [h.1]; exact List.drop_eq_getElem_cons hlt
    rw [cur_cons hl' hu]
    refine ⟨⟨⟨?_, ?_, ?_⟩, rfl⟩, rfl, rfl, fun _ => rfl⟩
    · simp only [ld_unread, ld_pos]
    · intro _
      simp only [ld_pos, ld_cur]
      refine ⟨by omega, by omega, ?_⟩
      simp [List.getElem?_eq_getElem hlt]
    · intro h; simp at h

/-- `move()` past a byte that is not the NUL -/
theorem Tk.move {s : St} (h : Tk t n s) : Lv t n (mv s) := by
  have hp := Tk.pos_le hN h
  obtain ⟨⟨⟨h1, _, _⟩, _⟩, _⟩ := h
  refine ⟨h1, ?_, fun _ => hp⟩
  intro hl
  rw [mv_loaded] at hl
  cases hl

theorem Lv.tk {s : St} (h : Lv t n s) (hc : (cur s).1 ≠ 0) : Tk t n (cur s).2 := by
  obtain ⟨a, b, _⟩ := Lv.look hN h
  exact ⟨a, by rw [b]; exact hc⟩

/-- `current(); move()` on a byte that is not the NUL -/
theorem Lv.step {s : St} (h : Lv t n s) (hc : (cur s).1 ≠ 0) : Lv t n (mv (cur s).2) :=
  Tk.move hN (Lv.tk hN h hc)

/-- `current()` returned the NUL -/
theorem Lv.dead {s : St} (h : Lv t n s) (hc : (cur s).1 = 0) : (cur s).2.l.pos = n + 1 := by
  obtain ⟨a, b, _⟩ := Lv.look hN h
  exact Ld_d0.pos_zero hN a (by rw [b]; exact hc)

omit hN in
theorem nz_of_beq' {c d : Byte} (h : (c == d) = true) (hd : d ≠ 0) : c ≠ 0 := by
  intro h0; rw [h0] at h; have h' : (0 : Byte) = d := by simpa using h
  exact hd h'.symm
omit hN in
theorem nz_of_not' {c : Byte} (h : ¬ (c == 0) = true) : c ≠ 0 := by
  intro h0; rw [h0] at h; exact h rfl
omit hN in
theorem z_of_beq {c : Byte} (h : (c == 0) = true) : c = 0 := by simpa using h

theorem gh_skipBlock : ∀ fuel w s, Lv t n s →
    Fin cfg t n (Lv t n) (skipBlock fuel w s).1 (skipBlock fuel w s).2 := by
  intro fuel
  induction fuel with
  | zero => intro w s h; exact True.intro
  | succ f ih =>
    intro w s h
    simp only [skipBlock]
    split
    · rename_i hc; exact Lv.dead hN h (z_of_beq hc)
    · rename_i hc
      have h1 := Lv.step hN h (nz_of_not' hc)
      split
      · exact h1
      · exact ih _ _ h1

theorem gh_skipLine : ∀ fuel s, Tk t n s → Fin cfg t n (Tk t n) (skipLine fuel s).1 (skipLine fuel s).2 := by
  intro fuel
  induction fuel with
  | zero => intro s h; exact True.intro
  | succ f ih =>
    intro s h
    simp only [skipLine]
    have hm := Tk.move hN h
    split
    · rename_i hc; exact Lv.dead hN hm (z_of_beq hc)
    · rename_i hc
      have h1 := Lv.tk hN hm (nz_of_not' hc)
      split
      · exact h1
      · exact ih _ h1

omit hN in
theorem Ld_d0.byte {s : St} (h : Ld_d0 t n s) : 1 ≤ s.l.pos ∧ t[s.l.pos - 1]? = some s.l.cur := by
  obtain ⟨a, _, b⟩ := h.1.2.1 h.2
  exact ⟨a, b⟩

theorem gh_skipSpaces : ∀ fuel s, Lv t n s →
    Fin cfg t n (Tk t n) (skipSpaces cfg fuel s).1 (skipSpaces cfg fuel s).2 := by
  intro fuel
  induction fuel with
  | zero => intro s h; exact True.intro
  | succ f ih =>
    intro s h
    simp only [skipSpaces]
    split
    · rename_i hc
      have hd := Lv.dead hN h (z_of_beq hc)
      split <;> exact hd
    · rename_i hc
      have hc' := nz_of_not' hc
      have hX := Lv.tk hN h hc'
      have h1 := Lv.step hN h hc'
      split
      · exact ih _ h1
      · split
        · rename_i hcm
          simp only [Bool.and_eq_true, beq_iff_eq] at hcm
          obtain ⟨hY, hYc, _, hYp⟩ := Lv.look hN h1
          split
          · rename_i hd
            have h3 := Lv.step hN h1 (nz_of_beq' hd (by decide))
            have hb := gh_skipBlock (cfg := cfg) hN f false _ h3
            generalize skipBlock f false (mv (cur (mv (cur s).2)).2) = r at hb ⊢
            obtain ⟨c', s'⟩ := r
            cases c' <;> first | exact ih _ hb | exact hb
          · split
            · rename_i hd
              have hb := gh_skipLine (cfg := cfg) hN f _ (Lv.tk hN h1 (nz_of_beq' hd (by decide)))
              generalize skipLine f (cur (mv (cur s).2)).2 = r at hb ⊢
              obtain ⟨c', s'⟩ := r
              cases c' <;> first | exact ih _ hb.1.1 | exact hb
            · refine ⟨hY, fun h0 => ?_⟩
              have hp := Ld_d0.pos_zero hN hY h0
              have hp2 := hYp (mv_loaded _)
              obtain ⟨hx1, hx2⟩ := Ld_d0.byte hX.1
              have hxc : (cur s).2.l.cur = (cur s).1 := (Lv.look hN h).2.1
              have hpos : (cur s).2.l.pos = n := by
                have : (mv (cur s).2).l.pos = (cur s).2.l.pos := rfl
                omega
              rw [hpos] at hx1 hx2
              exact ⟨hx1, _, hx2, Or.inr ⟨hcm.1, by rw [hxc]; exact hcm.2⟩⟩
        · exact ⟨⟨Lv.found hX.1.1, hX.1.2⟩, hX.2⟩

theorem gh_skipKeyword : ∀ ks s, Lv t n s →
    Fin cfg t n (Lv t n) (skipKeyword ks s).1 (skipKeyword ks s).2 := by
  intro ks
  induction ks with
  | nil => intro s h; exact h
  | cons k ks ih =>
    intro s h
    simp only [skipKeyword]
    split
    · rename_i hc; exact Lv.dead hN h (z_of_beq hc)
    · rename_i hc
      have hc' := nz_of_not' hc
      split
      · obtain ⟨hX, hXc, _⟩ := Lv.look hN h
        exact ⟨hX, fun h0 => absurd (hXc ▸ h0) hc'⟩
      · exact ih _ (Lv.step hN h hc')

theorem gh_parseHex4 : ∀ m acc s, Lv t n s →
    Fin cfg t n (Lv t n) (parseHex4 m acc s).1 (parseHex4 m acc s).2.2 := by
  intro m
  induction m with
  | zero => intro acc s h; exact h
  | succ m ih =>
    intro acc s h
    simp only [parseHex4]
    split
    · rename_i hc; exact Lv.dead hN h (z_of_beq hc)
    · rename_i hc
      have hc' := nz_of_not' hc
      split
      · obtain ⟨hX, hXc, _⟩ := Lv.look hN h
        exact ⟨hX, fun h0 => absurd (hXc ▸ h0) hc'⟩
      · exact ih _ _ (Lv.step hN h hc')

theorem gh_parseQuoted {stop : Byte} (hs : stop ≠ 0) : ∀ fuel acc hi s, Lv t n s →
    Fin cfg t n (Lv t n) (parseQuoted cfg stop fuel acc hi s).1 (parseQuoted cfg stop fuel acc hi s).2.2 := by
  intro fuel
  induction fuel with
  | zero => intro acc hi s h; exact True.intro
  | succ f ih =>
    intro acc hi s h
    simp only [parseQuoted]
    split
    · rename_i hc
      have h1 := Lv.step hN h (nz_of_beq' hc hs)
      split
      · exact ⟨h1, mv_loaded _⟩
      · exact h1
    · split
      · rename_i hc; exact Lv.dead hN h (z_of_beq hc)
      · rename_i hc
        have h1 := Lv.step hN h (nz_of_not' hc)
        split
        · obtain ⟨hY, hYc, _, _⟩ := Lv.look hN h1
          split
          · rename_i hd; exact Lv.dead hN h1 (z_of_beq hd)
          · rename_i hd
            have hd' := nz_of_not' hd
            split
            · split
              · have hb := gh_parseHex4 (cfg := cfg) hN 4 0 _ (Lv.step hN h1 hd')
                split
                · rename_i heq; rw [heq] at hb
                  split
                  · exact ih _ _ _ hb
                  · split
                    · exact ih _ _ _ hb
                    · exact ih _ _ _ hb
                · rename_i heq; rw [heq] at hb; exact hb
              · exact ih _ _ _ hY.1
            · split
              · exact ⟨hY, fun h0 => absurd (hYc ▸ h0) hd'⟩
              · exact ih _ _ _ (Lv.step hN h1 hd')
        · exact ih _ _ _ h1

omit hN in
theorem inUnquoted_nz {c : Byte} (h : inUnquoted c = true) : c ≠ 0 := by
  intro h0; rw [h0] at h; exact absurd h (by decide)

omit hN in
theorem inNumber_nz {cfg : Cfg} {c : Byte} (h : inNumber cfg c = true) : c ≠ 0 := by
  intro h0; rw [h0] at h
  unfold inNumber at h
  generalize (cfg.nan || cfg.inf) = b at h
  cases b <;> exact absurd h (by decide)

theorem gh_parseUnquoted : ∀ fuel acc s, Lv t n s → Lv t n (parseUnquoted fuel acc s).2 := by
  intro fuel
  induction fuel with
  | zero => intro acc s h; exact h
  | succ f ih =>
    intro acc s h
    simp only [parseUnquoted]
    split
    · rename_i hu; exact ih _ _ (Lv.step hN h (inUnquoted_nz hu))
    · exact (Lv.look hN h).1.1

/-- an unquoted key: when the loop stops on a latched byte, the bytes in front of it are the bytes of the key -/
theorem gh_parseUnquoted_key : ∀ fuel acc s, Lv t n s → (parseUnquoted fuel acc s).2.l.loaded = true →
    ∃ x, (parseUnquoted fuel acc s).1 = acc.reverse ++ x ∧ (∀ c ∈ x, inUnquoted c = true) ∧
      t.take ((parseUnquoted fuel acc s).2.l.pos - 1) = t.take ((cur s).2.l.pos - 1) ++ x := by
  intro fuel
  induction fuel with
  | zero =>
    intro acc s h hl
    simp only [parseUnquoted] at hl ⊢
    rw [cur_loaded hl]
    exact ⟨[], by simp, by simp, by simp⟩
  | succ f ih =>
    intro acc s h hl
    simp only [parseUnquoted] at hl ⊢
    split
    · rename_i hu
      rw [if_pos hu] at hl
      have h1 := Lv.step hN h (inUnquoted_nz hu)
      obtain ⟨x, e1, e2, e3⟩ := ih ((cur s).1 :: acc) _ h1 hl
      obtain ⟨hX, hXc, _, _⟩ := Lv.look hN h
      obtain ⟨b1, b2⟩ := Ld_d0.byte hX
      have hp := (Lv.look hN h1).2.2.2 (mv_loaded _)
      have hm : (mv (cur s).2).l.pos = (cur s).2.l.pos := rfl
      refine ⟨(cur s).1 :: x, by rw [e1]; simp, ?_, ?_⟩
      · intro c hc
        rcases List.mem_cons.mp hc with rfl | hc
        · exact hu
        · exact e2 c hc
      · rw [e3, hp, hm]
        have : (cur s).2.l.pos + 1 - 1 = ((cur s).2.l.pos - 1) + 1 := by omega
        rw [this, List.take_add_one, b2, hXc]
        simp
    · exact ⟨[], by simp, by simp, by simp⟩

/-- the byte before the latched one is a number byte -/
def PrevNum (cfg : Cfg) (t : List Byte) (s : St) : Prop :=
  2 ≤ s.l.pos ∧ ∃ c, t[s.l.pos - 2]? = some c ∧ inNumber cfg c = true

theorem gh_scanNumber : ∀ m acc s, Lv t n s →
    Ld_d0 t n (scanNumber cfg m acc s).2 ∧ (PrevNum cfg t (scanNumber cfg m acc s).2 ∨ (scanNumber cfg m acc s).2 = (cur s).2) := by
  intro m
  induction m with
  | zero => intro acc s h; simp only [scanNumber]; exact ⟨(Lv.look hN h).1, Or.inr trivial⟩
  | succ m ih =>
    intro acc s h
    simp only [scanNumber]
    split
    · rename_i hu
      have hc' := inNumber_nz hu
      have hX := Lv.tk hN h hc'
      have h1 := Lv.step hN h hc'
      obtain ⟨i1, i2⟩ := ih ((cur s).1 :: acc) _ h1
      refine ⟨i1, Or.inl ?_⟩
      rcases i2 with i2 | i2
      · exact i2
      · rw [i2]
        obtain ⟨hx1, hx2⟩ := Ld_d0.byte hX.1
        have hxc : (cur s).2.l.cur = (cur s).1 := (Lv.look hN h).2.1
        have hp2 := (Lv.look hN h1).2.2.2 (mv_loaded _)
        have : (mv (cur s).2).l.pos = (cur s).2.l.pos := rfl
        refine ⟨by omega, (cur s).1, ?_, hu⟩
        rw [hp2, this, ← hxc]
        have : (cur s).2.l.pos + 1 - 2 = (cur s).2.l.pos - 1 := by omega
        rw [this]; exact hx2
    · exact ⟨(Lv.look hN h).1, Or.inr rfl⟩

theorem gh_parseNumeric (s : St) (h : Tk t n s) :
    Fin cfg t n (Lv t n) (parseNumeric cfg s).1 (parseNumeric cfg s).2.2 := by
  unfold parseNumeric
  obtain ⟨i1, i2⟩ := gh_scanNumber (cfg := cfg) hN (Gen.number_buffer - 1) [] s h.1.1
  generalize scanNumber cfg (Gen.number_buffer - 1) [] s = r at i1 i2 ⊢
  obtain ⟨buf, s'⟩ := r
  simp only at i1 i2 ⊢
  split <;> try exact i1.1
  · refine ⟨i1, fun h0 => ?_⟩
    rcases i2 with i2 | i2
    · have hp := Ld_d0.pos_zero hN i1 h0
      obtain ⟨a, c, b1, b2⟩ := i2
      rw [hp] at a b1
      exact ⟨by omega, c, by simpa using b1, Or.inl b2⟩
    · rw [i2, cur_loaded h.1.2] at h0
      exact absurd h0 h.2
  · exact True.intro

end
end JD
