/- Where the deserializer stops, part 2: the mutually recursive routines, piece by piece (`FinK`: `NoMemory` may also
   come from an unquoted key that is too long). -/
import AJ.Lemmas.ClassGhost
set_option linter.unusedSimpArgs false
set_option linter.unusedVariables false
namespace JD

def GhV (cfg : Cfg) (t : List Byte) (n f : Nat) : Prop :=
  ∀ L s, Lv t n s → FinK cfg t n (Lv t n) (parseVariant cfg f L s).1 (parseVariant cfg f L s).2.2
def GhE (cfg : Cfg) (t : List Byte) (n f : Nat) : Prop :=
  ∀ L s acc, Lv t n s → FinK cfg t n (Lv t n) (parseElems cfg f L s acc).1 (parseElems cfg f L s acc).2.2
def GhM (cfg : Cfg) (t : List Byte) (n f : Nat) : Prop :=
  ∀ L s ms, Tk t n s → FinK cfg t n (Lv t n) (parseMembers cfg f L s ms).1 (parseMembers cfg f L s ms).2.2

section
variable {cfg : Cfg} {t : List Byte} {n : Nat} (hN : NulAt t n)
include hN

theorem gh_pvArr {f L' : Nat} (hE : GhE cfg t n f) (r : Code × St) (h : FinK cfg t n (Tk t n) r.1 r.2) :
    FinK cfg t n (Lv t n) (pvArr cfg f L' r).1 (pvArr cfg f L' r).2.2 := by
  obtain ⟨c, s⟩ := r
  cases c <;> try exact h
  have h' : Tk t n s := h
  simp only [pvArr, cur_loaded h'.1.2]
  split
  · exact Tk.move hN h'
  · exact hE _ _ _ h'.1.1

theorem gh_pvObj {f L' : Nat} (hM : GhM cfg t n f) (r : Code × St) (h : FinK cfg t n (Tk t n) r.1 r.2) :
    FinK cfg t n (Lv t n) (pvObj cfg f L' r).1 (pvObj cfg f L' r).2.2 := by
  obtain ⟨c, s⟩ := r
  cases c <;> try exact h
  have h' : Tk t n s := h
  simp only [pvObj, cur_loaded h'.1.2]
  split
  · exact Tk.move hN h'
  · exact hM _ _ _ h'

omit hN in
theorem gh_pvStr (r : Code × List Byte × St) (h : FinK cfg t n (Lv t n) r.1 r.2.2) :
    FinK cfg t n (Lv t n) (pvStr r).1 (pvStr r).2.2 := by
  obtain ⟨c, x, s⟩ := r
  cases c <;> exact h

theorem gh_kw {v : Val} (ks : List Byte) (s : St) (h : Lv t n s) :
    Fin cfg t n (Lv t n) (match skipKeyword ks s with | (e, s) => (e, v, s)).1
      (match skipKeyword ks s with | (e, s) => (e, v, s)).2.2 := by
  have hb := gh_skipKeyword (cfg := cfg) hN ks s h
  generalize skipKeyword ks s = r at hb ⊢
  obtain ⟨c, s'⟩ := r
  exact hb

theorem gh_pvTok {f L : Nat} (hE : GhE cfg t n f) (hM : GhM cfg t n f) (s : St) (h : Tk t n s) :
    FinK cfg t n (Lv t n) (pvTok cfg f L s).1 (pvTok cfg f L s).2.2 := by
  simp only [pvTok, cur_loaded h.1.2]
  split
  · cases L with
    | zero => exact h
    | succ L' => exact gh_pvArr hN hE _ (gh_skipSpaces hN _ _ (Tk.move hN h)).toK
  · split
    · cases L with
      | zero => exact h
      | succ L' => exact gh_pvObj hN hM _ (gh_skipSpaces hN _ _ (Tk.move hN h)).toK
    · split
      · exact gh_pvStr _ (gh_parseQuoted hN h.2 _ _ _ _ (Tk.move hN h)).toK
      · split
        · exact (gh_kw hN _ _ h.1.1).toK
        · split
          · exact (gh_kw hN _ _ h.1.1).toK
          · split
            · exact (gh_kw hN _ _ h.1.1).toK
            · exact (gh_parseNumeric hN s h).toK

theorem gh_pvK {f L : Nat} (hE : GhE cfg t n f) (hM : GhM cfg t n f) (r : Code × St)
    (h : FinK cfg t n (Tk t n) r.1 r.2) : FinK cfg t n (Lv t n) (pvK cfg f L r).1 (pvK cfg f L r).2.2 := by
  obtain ⟨c, s⟩ := r
  cases c <;> try exact h
  exact gh_pvTok hN hE hM s h

theorem gh_peK2 {f L : Nat} {acc : List Val} (hE : GhE cfg t n f) (r : Code × St)
    (h : FinK cfg t n (Tk t n) r.1 r.2) : FinK cfg t n (Lv t n) (peK2 cfg f L acc r).1 (peK2 cfg f L acc r).2.2 := by
  obtain ⟨c, s⟩ := r
  cases c <;> try exact h
  have h' : Tk t n s := h
  simp only [peK2, cur_loaded h'.1.2]
  split
  · exact Tk.move hN h'
  · split
    · exact hE _ _ _ (Tk.move hN h')
    · exact ⟨h'.1, fun h0 => absurd h0 h'.2⟩

theorem gh_peK1 {f L : Nat} {acc : List Val} (hE : GhE cfg t n f) (r : Code × Val × St)
    (h : FinK cfg t n (Lv t n) r.1 r.2.2) : FinK cfg t n (Lv t n) (peK1 cfg f L acc r).1 (peK1 cfg f L acc r).2.2 := by
  obtain ⟨c, v, s⟩ := r
  cases c <;> try exact h
  exact gh_peK2 hN hE _ (gh_skipSpaces hN _ _ h).toK

theorem gh_pmKey {f : Nat} (s : St) (h : Tk t n s) :
    FinK cfg t n (Lv t n) (pmKey cfg f s).1 (pmKey cfg f s).2.2 := by
  simp only [pmKey, cur_loaded h.1.2]
  split
  · exact (gh_parseQuoted hN h.2 _ _ _ _ (Tk.move hN h)).toK
  · split
    · have hl := gh_parseUnquoted hN (f+1) [] s h.1.1
      by_cases hk : (parseUnquoted (f+1) [] s).1.length > cfg.maxStrLen
      · simp only [if_pos hk]
        refine ⟨hl, fun hld => ?_⟩
        obtain ⟨x, e1, e2, e3⟩ := gh_parseUnquoted_key hN (f+1) [] s h.1.1 hld
        simp only [List.reverse_nil, List.nil_append] at e1
        rw [e1] at hk
        exact ⟨_, x, e3, e2, hk⟩
      · simp only [if_neg hk]
        exact hl
    · exact ⟨h.1, fun h0 => absurd h0 h.2⟩

omit hN in
theorem gh_pmK4 {f L : Nat} {ms : List (List Byte × Val)} (hM : GhM cfg t n f) (r : Code × St)
    (h : FinK cfg t n (Tk t n) r.1 r.2) : FinK cfg t n (Lv t n) (pmK4 cfg f L ms r).1 (pmK4 cfg f L ms r).2.2 := by
  obtain ⟨c, s⟩ := r
  cases c <;> try exact h
  exact hM _ _ _ h

theorem gh_pmK3 {f L : Nat} {ms : List (List Byte × Val)} (hM : GhM cfg t n f) (r : Code × St)
    (h : FinK cfg t n (Tk t n) r.1 r.2) : FinK cfg t n (Lv t n) (pmK3 cfg f L ms r).1 (pmK3 cfg f L ms r).2.2 := by
  obtain ⟨c, s⟩ := r
  cases c <;> try exact h
  have h' : Tk t n s := h
  simp only [pmK3, cur_loaded h'.1.2]
  split
  · exact Tk.move hN h'
  · split
    · exact gh_pmK4 hM _ (gh_skipSpaces hN _ _ (Tk.move hN h')).toK
    · exact ⟨h'.1, fun h0 => absurd h0 h'.2⟩

theorem gh_pmK2 {f L : Nat} {ms : List (List Byte × Val)} {key : List Byte} (hM : GhM cfg t n f) (r : Code × Val × St)
    (h : FinK cfg t n (Lv t n) r.1 r.2.2) :
    FinK cfg t n (Lv t n) (pmK2 cfg f L ms key r).1 (pmK2 cfg f L ms key r).2.2 := by
  obtain ⟨c, v, s⟩ := r
  cases c <;> try exact h
  exact gh_pmK3 hN hM _ (gh_skipSpaces hN _ _ h).toK

theorem gh_pmK1 {f L : Nat} {ms : List (List Byte × Val)} {key : List Byte} (hV : GhV cfg t n f) (hM : GhM cfg t n f)
    (r : Code × St) (h : FinK cfg t n (Tk t n) r.1 r.2) :
    FinK cfg t n (Lv t n) (pmK1 cfg f L ms key r).1 (pmK1 cfg f L ms key r).2.2 := by
  obtain ⟨c, s⟩ := r
  cases c <;> try exact h
  have h' : Tk t n s := h
  simp only [pmK1, cur_loaded h'.1.2]
  split
  · exact ⟨h'.1, fun h0 => absurd h0 h'.2⟩
  · exact gh_pmK2 hN hM _ (hV _ _ (Tk.move hN h'))

theorem gh_pmK0 {f L : Nat} {ms : List (List Byte × Val)} (hV : GhV cfg t n f) (hM : GhM cfg t n f)
    (r : Code × List Byte × St) (h : FinK cfg t n (Lv t n) r.1 r.2.2) :
    FinK cfg t n (Lv t n) (pmK0 cfg f L ms r).1 (pmK0 cfg f L ms r).2.2 := by
  obtain ⟨c, k, s⟩ := r
  cases c <;> try exact h
  exact gh_pmK1 hN hV hM _ (gh_skipSpaces hN _ _ h).toK

/-- **where the three mutually recursive routines stop** -/
theorem gh_mutual : ∀ f, GhV cfg t n f ∧ GhE cfg t n f ∧ GhM cfg t n f := by
  intro f
  induction f with
  | zero =>
    refine ⟨?_, ?_, ?_⟩
    · intro L s h; exact True.intro
    · intro L s acc h; exact True.intro
    · intro L s ms h; exact True.intro
  | succ f ih =>
    obtain ⟨ihV, ihE, ihM⟩ := ih
    refine ⟨?_, ?_, ?_⟩
    · intro L s h
      rw [parseVariant_succ]
      exact gh_pvK hN ihE ihM _ (gh_skipSpaces hN _ _ h).toK
    · intro L s acc h
      rw [parseElems_succ]
      exact gh_peK1 hN ihE _ (ihV _ _ h)
    · intro L s ms h
      rw [parseMembers_succ]
      exact gh_pmK0 hN ihV ihM _ (gh_pmKey hN _ h)

end
end JD
