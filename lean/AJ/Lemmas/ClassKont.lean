/- The three mutually recursive routines of the JSON deserializer model cut at every sub-call: each piece takes the
   result of the previous sub-call and runs up to the next one. The pieces make "one sub-call at a time" proofs
   possible (two-run simulations, where a property of an intermediate state has to be carried to the end). -/
import AJ.Model.JD
namespace JD

/-! ## parseVariant -/

/-- after `[` and the white space that follows it -/
def pvArr (cfg : Cfg) (f L' : Nat) (r : Code × St) : Code × Val × St :=
  match r with
  | (.ok, s) =>
    let (d, s) := cur s
    if d == 0x5D then (.ok, .arr [], mv s) else parseElems cfg f L' s []
  | (e, s) => (e, .arr [], s)

/-- after `{` and the white space that follows it -/
def pvObj (cfg : Cfg) (f L' : Nat) (r : Code × St) : Code × Val × St :=
  match r with
  | (.ok, s) =>
    let (d, s) := cur s
    if d == 0x7D then (.ok, .obj [], mv s) else parseMembers cfg f L' s []
  | (e, s) => (e, .obj [], s)

/-- the result of a quoted string as a value -/
def pvStr (r : Code × List Byte × St) : Code × Val × St :=
  match r with
  | (.ok, str, s) => (.ok, .str str, s)
  | (e, _, s) => (e, .null, s)

/-- dispatch on the first byte of a value (the state is latched on it) -/
def pvTok (cfg : Cfg) (f L : Nat) (s : St) : Code × Val × St :=
  let (c, s) := cur s
  if c == 0x5B then
    match L with
    | 0 => (.tooDeep, .arr [], s)
    | L'+1 => pvArr cfg f L' (skipSpaces cfg (f+1) (mv s))
  else if c == 0x7B then
    match L with
    | 0 => (.tooDeep, .obj [], s)
    | L'+1 => pvObj cfg f L' (skipSpaces cfg (f+1) (mv s))
  else if c == 0x22 || c == 0x27 then pvStr (parseQuoted cfg c (f+1) [] 0 (mv s))
  else if c == 0x74 then
    match skipKeyword "true".toUTF8.toList s with | (e, s) => (e, .bool true, s)
  else if c == 0x66 then
    match skipKeyword "false".toUTF8.toList s with | (e, s) => (e, .bool false, s)
  else if c == 0x6E then
    match skipKeyword "null".toUTF8.toList s with | (e, s) => (e, .null, s)
  else parseNumeric cfg s

/-- after the leading white space of a value -/
def pvK (cfg : Cfg) (f L : Nat) (r : Code × St) : Code × Val × St :=
  match r with
  | (.ok, s) => pvTok cfg f L s
  | (e, s) => (e, .null, s)

theorem parseVariant_succ (cfg : Cfg) (f L : Nat) (s : St) :
    parseVariant cfg (f+1) L s = pvK cfg f L (skipSpaces cfg (f+1) s) := by
  simp only [parseVariant, pvK, pvTok, pvArr, pvObj, pvStr]
  rfl

/-! ## parseElems -/

/-- after the white space that follows an element (`acc` contains it) -/
def peK2 (cfg : Cfg) (f L : Nat) (acc : List Val) (r : Code × St) : Code × Val × St :=
  match r with
  | (.ok, s) =>
    let (c, s) := cur s
    if c == 0x5D then (.ok, .arr acc.reverse, mv s)
    else if c == 0x2C then parseElems cfg f L (mv s) acc
    else (.invalid, .arr acc.reverse, s)
  | (e, s) => (e, .arr acc.reverse, s)

/-- after an element -/
def peK1 (cfg : Cfg) (f L : Nat) (acc : List Val) (r : Code × Val × St) : Code × Val × St :=
  match r with
  | (.ok, v, s) => peK2 cfg f L (v :: acc) (skipSpaces cfg (f+1) s)
  | (e, v, s) => (e, .arr (v :: acc).reverse, s)

theorem parseElems_succ (cfg : Cfg) (f L : Nat) (s : St) (acc : List Val) :
    parseElems cfg (f+1) L s acc = peK1 cfg f L acc (parseVariant cfg f L s) := by
  simp only [parseElems, peK1, peK2]
  rfl

/-! ## parseMembers -/

/-- the key of a member -/
def pmKey (cfg : Cfg) (f : Nat) (s : St) : Code × List Byte × St :=
  let (c, s) := cur s
  if c == 0x22 || c == 0x27 then parseQuoted cfg c (f+1) [] 0 (mv s)
  else if inUnquoted c then let (k, s) := parseUnquoted (f+1) [] s; ((if k.length > cfg.maxStrLen then .noMemory else .ok), k, s)
  else (.invalid, [], s)

/-- after the white space that follows `,` -/
def pmK4 (cfg : Cfg) (f L : Nat) (ms : List (List Byte × Val)) (r : Code × St) : Code × Val × St :=
  match r with
  | (.ok, s) => parseMembers cfg f L s ms
  | (e, s) => (e, .obj ms, s)

/-- after the white space that follows a member value (`ms` contains the member) -/
def pmK3 (cfg : Cfg) (f L : Nat) (ms : List (List Byte × Val)) (r : Code × St) : Code × Val × St :=
  match r with
  | (.ok, s) =>
    let (c, s) := cur s
    if c == 0x7D then (.ok, .obj ms, mv s)
    else if c == 0x2C then pmK4 cfg f L ms (skipSpaces cfg (f+1) (mv s))
    else (.invalid, .obj ms, s)
  | (e, s) => (e, .obj ms, s)

/-- after a member value -/
def pmK2 (cfg : Cfg) (f L : Nat) (ms : List (List Byte × Val)) (key : List Byte) (r : Code × Val × St) :
    Code × Val × St :=
  match r with
  | (.ok, v, s) => pmK3 cfg f L (setMember ms key v) (skipSpaces cfg (f+1) s)
  | (e, v, s) => (e, .obj (setMember ms key v), s)

/-- after the white space that follows a key -/
def pmK1 (cfg : Cfg) (f L : Nat) (ms : List (List Byte × Val)) (key : List Byte) (r : Code × St) : Code × Val × St :=
  match r with
  | (.ok, s) =>
    let (c, s) := cur s
    if c != 0x3A then (.invalid, .obj ms, s) else pmK2 cfg f L ms key (parseVariant cfg f L (mv s))
  | (e, s) => (e, .obj ms, s)

/-- after a key -/
def pmK0 (cfg : Cfg) (f L : Nat) (ms : List (List Byte × Val)) (r : Code × List Byte × St) : Code × Val × St :=
  match r with
  | (.ok, key, s) => pmK1 cfg f L ms key (skipSpaces cfg (f+1) s)
  | (e, _, s) => (e, .obj ms, s)

theorem parseMembers_succ (cfg : Cfg) (f L : Nat) (s : St) (ms : List (List Byte × Val)) :
    parseMembers cfg (f+1) L s ms = pmK0 cfg f L ms (pmKey cfg f s) := by
  simp only [parseMembers, pmK0, pmK1, pmK2, pmK3, pmK4, pmKey]
  rfl

end JD
