/- `NoMemory` is final, also when it answers an unquoted key that is too long.
   Two runs: one over `p ++ 0 :: x` (`p` free of NUL bytes), one over `p ++ y`. They walk in step (`Live`) until the first
   one takes the NUL. From then on the first run can only end with `IncompleteInput` / `EmptyInput` / `InvalidInput`,
   with one exception: the NUL ended an unquoted key that is longer than `maxStrLen`. In the second run the key is at
   least as long, both runs answer `NoMemory`, and the document is the same (`s_mutual`, `run_nomem_final`). -/
import AJ.Lemmas.DialectClass2
import AJ.Lemmas.ClassSim2
set_option linter.unusedSimpArgs false
set_option linter.unusedVariables false
namespace JD

/-- the first run has taken the NUL -/
def Dead (p x : List Byte) (s : St) : Prop := Lv (p ++ 0 :: x) p.length s ∧ p.length < s.l.pos

/-- results of a white-space routine: in step (and then an `Ok` state is latched on a byte of `p`), or the first run
    has failed for good with a code that is not `NoMemory` -/
def S2 (p x y : List Byte) (r1 r2 : Code × St) : Prop :=
  (r1.1 = r2.1 ∧ Live p (0 :: x) y r1.2 r2.2 ∧ (r1.1 = .ok → Tk (p ++ 0 :: x) p.length r1.2)) ∨
  (r1.1 ≠ .ok ∧ r1.1 ≠ .noMemory)

/-- results with a payload: in step; or the first run will never answer `NoMemory` (it has failed with another code, or
    it goes on with the NUL in the latch); or both have answered `NoMemory` (`pe`: what is known of the payloads then) -/
def SG (p x y : List Byte) {β : Type} (pe : β → β → Prop) (o1 o2 : Code × β × St) : Prop :=
  (o1.1 = o2.1 ∧ o1.2.1 = o2.2.1 ∧ Live p (0 :: x) y o1.2.2 o2.2.2 ∧ (o1.1 = .ok → Lv (p ++ 0 :: x) p.length o1.2.2)) ∨
  (o1.1 ≠ .noMemory ∧ (o1.1 = .ok → Dead p x o1.2.2)) ∨
  (o1.1 = .noMemory ∧ o2.1 = .noMemory ∧ pe o1.2.1 o2.2.1)

/-- values: the same document in both runs -/
abbrev S3 (p x y : List Byte) (o1 o2 : Code × Val × St) : Prop := SG p x y (fun a b => a = b) o1 o2
/-- strings: as for values -/
abbrev S3' (p x y : List Byte) (o1 o2 : Code × List Byte × St) : Prop := SG p x y (fun a b => a = b) o1 o2
/-- keys: nothing is said about the keys when both runs answer `NoMemory` -/
abbrev SK (p x y : List Byte) (o1 o2 : Code × List Byte × St) : Prop := SG p x y (fun _ _ => True) o1 o2

section
variable {cfg : Cfg} {p x y : List Byte} (hp : ∀ c ∈ p, c ≠ 0)

omit hp in
theorem SG.err {β : Type} {pe : β → β → Prop} {o1 o2 : Code × β × St}
    (hne : o1.1 ≠ .ok) (hnm : o1.1 ≠ .noMemory) : SG p x y pe o1 o2 :=
  Or.inr (Or.inl ⟨hnm, fun h => absurd h hne⟩)

omit hp in
theorem SG.same {β : Type} {pe : β → β → Prop} {c : Code} {v : β} {s1 s2 : St} (hne : c ≠ .ok)
    (hq : Live p (0 :: x) y s1 s2) : SG p x y pe (c, v, s1) (c, v, s2) :=
  Or.inl ⟨rfl, rfl, hq, fun h => absurd h hne⟩

omit hp in
theorem dead_latch {s : St} (h : Dead p x s) : s.l.loaded = true ∧ s.l.cur = 0 := by
  obtain ⟨⟨_, h2, h3⟩, hb⟩ := h
  cases hl : s.l.loaded with
  | false => have := h3 hl; omega
  | true =>
    obtain ⟨a, b, c⟩ := h2 hl
    have hpos : s.l.pos - 1 = p.length := by omega
    rw [hpos] at c
    simp at c
    exact ⟨rfl, c.symm⟩

omit hp in
/-- with the NUL in the latch, the white space routine answers `IncompleteInput` or `EmptyInput` -/
theorem dead_skipSpaces {f : Nat} {s : St} (h : Dead p x s) :
    (skipSpaces cfg (f+1) s).1 ≠ .ok ∧ (skipSpaces cfg (f+1) s).1 ≠ .noMemory := by
  obtain ⟨hl, hc⟩ := dead_latch h
  simp only [skipSpaces, cur_loaded hl, hc]
  rw [if_pos (show ((0 : Byte) == 0) = true from rfl)]
  cases s.found <;> exact ⟨Code.noConfusion, Code.noConfusion⟩

omit hp in
theorem live_T : Twin (Live p (0 :: x) y) (fun s => p.length < s.l.pos) := live_twin p (0 :: x) y (by simp)

include hp

theorem s2_of {r1 r2 : Code × St} (hR : R2 (Live p (0 :: x) y) (fun s => p.length < s.l.pos) r1 r2)
    (hF : Fin cfg (p ++ 0 :: x) p.length (Tk (p ++ 0 :: x) p.length) r1.1 r1.2) : S2 p x y r1 r2 := by
  have hN := nulAt_of_split (x := x) hp
  obtain ⟨c1, b1⟩ := r1
  rcases hR with ⟨e1, e2⟩ | hb
  · exact Or.inl ⟨e1, e2, fun h => by simp only at h; subst h; exact hF⟩
  · right
    simp only at hb hF ⊢
    cases c1
    case ok => have := Tk.pos_le hN hF; omega
    case noMemory => have := hF.1.2.2 hF.2; omega
    all_goals exact ⟨Code.noConfusion, Code.noConfusion⟩

omit hp in
theorem sg_of {β : Type} {pe : β → β → Prop} {o1 o2 : Code × β × St}
    (hR : R3 (Live p (0 :: x) y) (fun s => p.length < s.l.pos) o1 o2)
    (hF : Fin cfg (p ++ 0 :: x) p.length (Lv (p ++ 0 :: x) p.length) o1.1 o1.2.2) : SG p x y pe o1 o2 := by
  obtain ⟨c1, v1, b1⟩ := o1
  rcases hR with ⟨e1, e2, e3⟩ | hb
  · exact Or.inl ⟨e1, e2, e3, fun h => by simp only at h; subst h; exact hF⟩
  · right; left
    simp only at hb hF ⊢
    cases c1
    case ok => exact ⟨Code.noConfusion, fun _ => ⟨hF, hb⟩⟩
    case noMemory => have := hF.1.2.2 hF.2; omega
    all_goals exact ⟨Code.noConfusion, fun h => Code.noConfusion h⟩

theorem s_skipSpaces (fuel : Nat) {s1 s2 : St} (hq : Live p (0 :: x) y s1 s2) (hl : Lv (p ++ 0 :: x) p.length s1) :
    S2 p x y (skipSpaces cfg fuel s1) (skipSpaces cfg fuel s2) :=
  s2_of hp (tw_skipSpaces live_T fuel s1 s2 hq) (gh_skipSpaces (nulAt_of_split hp) fuel s1 hl)

/-- the key of the second run is at least as long as the key of the first run -/
theorem key_len : ∀ fuel acc (s1 s2 : St), Live p (0 :: x) y s1 s2 → Lv (p ++ 0 :: x) p.length s1 →
    (parseUnquoted fuel acc s1).1.length ≤ (parseUnquoted fuel acc s2).1.length := by
  have hN := nulAt_of_split (x := x) hp
  intro fuel
  induction fuel with
  | zero => intro acc s1 s2 hq hl; simp [parseUnquoted]
  | succ f ih =>
    intro acc s1 s2 hq hl
    rcases (live_T (p := p) (x := x) (y := y)).cur hq with ⟨hc, hq2⟩ | hb
    · simp only [parseUnquoted]
      rw [← hc]
      split
      · rename_i hu
        exact ih _ _ _ ((live_T (p := p) (x := x) (y := y)).mv hq2) (Lv.step hN hl (inUnquoted_nz hu))
      · simp
    · have hd : Dead p x (cur s1).2 := ⟨(Lv.look hN hl).1.1, hb⟩
      have hc0 : (cur s1).1 = 0 := by rw [← (Lv.look hN hl).2.1]; exact (dead_latch hd).2
      have h1 : (parseUnquoted (f+1) acc s1).1 = acc.reverse := by
        simp only [parseUnquoted, hc0]
        rw [if_neg (by decide)]
      rw [h1]
      have := parseUnquoted_len (f+1) acc s2
      simpa using this

/-! ## the pieces of the mutually recursive routines -/

omit hp in
theorem peK2_code_err {f L : Nat} {acc : List Val} {r : Code × St} (h : r.1 ≠ .ok) : (peK2 cfg f L acc r).1 = r.1 := by
  obtain ⟨c, b⟩ := r
  cases c <;> first | exact absurd rfl h | rfl
omit hp in
theorem pmK3_code_err {f L : Nat} {ms : List (List Byte × Val)} {r : Code × St} (h : r.1 ≠ .ok) :
    (pmK3 cfg f L ms r).1 = r.1 := by
  obtain ⟨c, b⟩ := r
  cases c <;> first | exact absurd rfl h | rfl
omit hp in
theorem pmK1_code_err {f L : Nat} {ms : List (List Byte × Val)} {key : List Byte} {r : Code × St} (h : r.1 ≠ .ok) :
    (pmK1 cfg f L ms key r).1 = r.1 := by
  obtain ⟨c, b⟩ := r
  cases c <;> first | exact absurd rfl h | rfl

omit hp in
theorem peK1_dead {f L : Nat} {acc : List Val} {v : Val} {s : St} (h : Dead p x s) :
    (peK1 cfg f L acc (.ok, v, s)).1 ≠ .ok ∧ (peK1 cfg f L acc (.ok, v, s)).1 ≠ .noMemory := by
  have d := dead_skipSpaces (cfg := cfg) (f := f) h
  show (peK2 cfg f L (v :: acc) (skipSpaces cfg (f+1) s)).1 ≠ .ok ∧ (peK2 cfg f L (v :: acc) (skipSpaces cfg (f+1) s)).1 ≠ .noMemory
  rw [peK2_code_err d.1]; exact d
omit hp in
theorem pmK2_dead {f L : Nat} {ms : List (List Byte × Val)} {key : List Byte} {v : Val} {s : St} (h : Dead p x s) :
    (pmK2 cfg f L ms key (.ok, v, s)).1 ≠ .ok ∧ (pmK2 cfg f L ms key (.ok, v, s)).1 ≠ .noMemory := by
  have d := dead_skipSpaces (cfg := cfg) (f := f) h
  show (pmK3 cfg f L (setMember ms key v) (skipSpaces cfg (f+1) s)).1 ≠ .ok ∧
    (pmK3 cfg f L (setMember ms key v) (skipSpaces cfg (f+1) s)).1 ≠ .noMemory
  rw [pmK3_code_err d.1]; exact d
omit hp in
theorem pmK0_dead {f L : Nat} {ms : List (List Byte × Val)} {key : List Byte} {s : St} (h : Dead p x s) :
    (pmK0 cfg f L ms (.ok, key, s)).1 ≠ .ok ∧ (pmK0 cfg f L ms (.ok, key, s)).1 ≠ .noMemory := by
  have d := dead_skipSpaces (cfg := cfg) (f := f) h
  show (pmK1 cfg f L ms key (skipSpaces cfg (f+1) s)).1 ≠ .ok ∧ (pmK1 cfg f L ms key (skipSpaces cfg (f+1) s)).1 ≠ .noMemory
  rw [pmK1_code_err d.1]; exact d

def SV (p x y : List Byte) (cfg : Cfg) (f : Nat) : Prop :=
  ∀ L s1 s2, Live p (0 :: x) y s1 s2 → Lv (p ++ 0 :: x) p.length s1 →
    S3 p x y (parseVariant cfg f L s1) (parseVariant cfg f L s2)
def SE (p x y : List Byte) (cfg : Cfg) (f : Nat) : Prop :=
  ∀ L s1 s2 acc, Live p (0 :: x) y s1 s2 → Lv (p ++ 0 :: x) p.length s1 →
    S3 p x y (parseElems cfg f L s1 acc) (parseElems cfg f L s2 acc)
def SM (p x y : List Byte) (cfg : Cfg) (f : Nat) : Prop :=
  ∀ L s1 s2 ms, Live p (0 :: x) y s1 s2 → Tk (p ++ 0 :: x) p.length s1 →
    S3 p x y (parseMembers cfg f L s1 ms) (parseMembers cfg f L s2 ms)

theorem s_pvArr {f L' : Nat} (hE : SE p x y cfg f) (r1 r2 : Code × St) (h : S2 p x y r1 r2) :
    S3 p x y (pvArr cfg f L' r1) (pvArr cfg f L' r2) := by
  have hN := nulAt_of_split (x := x) hp
  obtain ⟨c1, b1⟩ := r1; obtain ⟨c2, b2⟩ := r2
  rcases h with ⟨e, hq, htk⟩ | ⟨hne, hnm⟩
  · simp only at e hq htk; subst e
    cases c1
    case ok =>
      have htk' := htk rfl
      have hl1 := htk'.1.2
      have hl2 : b2.l.loaded = true := by rw [← hq.2.1]; exact hl1
      simp only [pvArr, cur_loaded hl1, cur_loaded hl2, ← hq.2.2.1]
      split
      · exact Or.inl ⟨rfl, rfl, live_T.mv hq, fun _ => Tk.move hN htk'⟩
      · exact hE _ _ _ _ hq htk'.1.1
    all_goals exact SG.same Code.noConfusion hq
  · simp only at hne hnm
    cases c1
    case ok => exact absurd rfl hne
    case noMemory => exact absurd rfl hnm
    all_goals exact SG.err Code.noConfusion Code.noConfusion

theorem s_pvObj {f L' : Nat} (hM : SM p x y cfg f) (r1 r2 : Code × St) (h : S2 p x y r1 r2) :
    S3 p x y (pvObj cfg f L' r1) (pvObj cfg f L' r2) := by
  have hN := nulAt_of_split (x := x) hp
  obtain ⟨c1, b1⟩ := r1; obtain ⟨c2, b2⟩ := r2
  rcases h with ⟨e, hq, htk⟩ | ⟨hne, hnm⟩
  · simp only at e hq htk; subst e
    cases c1
    case ok =>
      have htk' := htk rfl
      have hl1 := htk'.1.2
      have hl2 : b2.l.loaded = true := by rw [← hq.2.1]; exact hl1
      simp only [pvObj, cur_loaded hl1, cur_loaded hl2, ← hq.2.2.1]
      split
      · exact Or.inl ⟨rfl, rfl, live_T.mv hq, fun _ => Tk.move hN htk'⟩
      · exact hM _ _ _ _ hq htk'
    all_goals exact SG.same Code.noConfusion hq
  · simp only at hne hnm
    cases c1
    case ok => exact absurd rfl hne
    case noMemory => exact absurd rfl hnm
    all_goals exact SG.err Code.noConfusion Code.noConfusion

omit hp in
theorem s_pvStr (r1 r2 : Code × List Byte × St) (h : S3' p x y r1 r2) : S3 p x y (pvStr r1) (pvStr r2) := by
  obtain ⟨c1, v1, b1⟩ := r1; obtain ⟨c2, v2, b2⟩ := r2
  rcases h with ⟨e1, e2, hq, hl⟩ | ⟨hnm, hd⟩ | ⟨e1, e2, _⟩
  · simp only at e1 e2 hq hl; subst e1; subst e2
    cases c1
    case ok => exact Or.inl ⟨rfl, rfl, hq, hl⟩
    all_goals exact SG.same Code.noConfusion hq
  · simp only at hnm hd
    cases c1
    case ok => exact Or.inr (Or.inl ⟨Code.noConfusion, hd⟩)
    case noMemory => exact absurd rfl hnm
    all_goals exact SG.err Code.noConfusion Code.noConfusion
  · simp only at e1 e2; subst e1; subst e2
    exact Or.inr (Or.inr ⟨rfl, rfl, rfl⟩)

theorem s_kw {v : Val} (ks : List Byte) {s1 s2 : St} (hq : Live p (0 :: x) y s1 s2)
    (hl : Lv (p ++ 0 :: x) p.length s1) :
    S3 p x y (match skipKeyword ks s1 with | (e, s) => (e, v, s)) (match skipKeyword ks s2 with | (e, s) => (e, v, s)) :=
  sg_of (cfg := {}) (tw_kw live_T ks s1 s2 hq) (gh_kw (nulAt_of_split hp) ks s1 hl)

theorem s_pvTok {f L : Nat} (hE : SE p x y cfg f) (hM : SM p x y cfg f) {s1 s2 : St}
    (hq : Live p (0 :: x) y s1 s2) (htk : Tk (p ++ 0 :: x) p.length s1) :
    S3 p x y (pvTok cfg f L s1) (pvTok cfg f L s2) := by
  have hN := nulAt_of_split (x := x) hp
  have hl1 := htk.1.2
  have hl2 : s2.l.loaded = true := by rw [← hq.2.1]; exact hl1
  simp only [pvTok, cur_loaded hl1, cur_loaded hl2, ← hq.2.2.1]
  split
  · cases L with
    | zero => exact SG.same Code.noConfusion hq
    | succ L' => exact s_pvArr hp hE _ _ (s_skipSpaces hp _ (live_T.mv hq) (Tk.move hN htk))
  · split
    · cases L with
      | zero => exact SG.same Code.noConfusion hq
      | succ L' => exact s_pvObj hp hM _ _ (s_skipSpaces hp _ (live_T.mv hq) (Tk.move hN htk))
    · split
      · exact s_pvStr _ _ (sg_of (tw_parseQuoted live_T _ _ _ _ _ (live_T.mv hq))
          (gh_parseQuoted hN htk.2 _ _ _ _ (Tk.move hN htk)))
      · split
        · exact s_kw hp _ hq htk.1.1
        · split
          · exact s_kw hp _ hq htk.1.1
          · split
            · exact s_kw hp _ hq htk.1.1
            · exact sg_of (tw_parseNumeric live_T _ _ hq) (gh_parseNumeric hN s1 htk)

theorem s_pvK {f L : Nat} (hE : SE p x y cfg f) (hM : SM p x y cfg f) (r1 r2 : Code × St) (h : S2 p x y r1 r2) :
    S3 p x y (pvK cfg f L r1) (pvK cfg f L r2) := by
  obtain ⟨c1, b1⟩ := r1; obtain ⟨c2, b2⟩ := r2
  rcases h with ⟨e, hq, htk⟩ | ⟨hne, hnm⟩
  · simp only at e hq htk; subst e
    cases c1
    case ok => exact s_pvTok hp hE hM hq (htk rfl)
    all_goals exact SG.same Code.noConfusion hq
  · simp only at hne hnm
    cases c1
    case ok => exact absurd rfl hne
    case noMemory => exact absurd rfl hnm
    all_goals exact SG.err Code.noConfusion Code.noConfusion

theorem s_peK2 {f L : Nat} {acc : List Val} (hE : SE p x y cfg f) (r1 r2 : Code × St) (h : S2 p x y r1 r2) :
    S3 p x y (peK2 cfg f L acc r1) (peK2 cfg f L acc r2) := by
  have hN := nulAt_of_split (x := x) hp
  obtain ⟨c1, b1⟩ := r1; obtain ⟨c2, b2⟩ := r2
  rcases h with ⟨e, hq, htk⟩ | ⟨hne, hnm⟩
  · simp only at e hq htk; subst e
    cases c1
    case ok =>
      have htk' := htk rfl
      have hl1 := htk'.1.2
      have hl2 : b2.l.loaded = true := by rw [← hq.2.1]; exact hl1
      simp only [peK2, cur_loaded hl1, cur_loaded hl2, ← hq.2.2.1]
      split
      · exact Or.inl ⟨rfl, rfl, live_T.mv hq, fun _ => Tk.move hN htk'⟩
      · split
        · exact hE _ _ _ _ (live_T.mv hq) (Tk.move hN htk')
        · exact SG.same Code.noConfusion hq
    all_goals exact SG.same Code.noConfusion hq
  · simp only at hne hnm
    cases c1
    case ok => exact absurd rfl hne
    case noMemory => exact absurd rfl hnm
    all_goals exact SG.err Code.noConfusion Code.noConfusion

theorem s_peK1 {f L : Nat} {acc : List Val} (hE : SE p x y cfg f) (r1 r2 : Code × Val × St) (h : S3 p x y r1 r2) :
    S3 p x y (peK1 cfg f L acc r1) (peK1 cfg f L acc r2) := by
  obtain ⟨c1, v1, b1⟩ := r1; obtain ⟨c2, v2, b2⟩ := r2
  rcases h with ⟨e1, e2, hq, hl⟩ | ⟨hnm, hd⟩ | ⟨e1, e2, e3⟩
  · simp only at e1 e2 hq hl; subst e1; subst e2
    cases c1
    case ok => exact s_peK2 hp hE _ _ (s_skipSpaces hp _ hq (hl rfl))
    all_goals exact SG.same Code.noConfusion hq
  · simp only at hnm hd
    cases c1
    case ok => exact SG.err (peK1_dead (hd rfl)).1 (peK1_dead (hd rfl)).2
    case noMemory => exact absurd rfl hnm
    all_goals exact SG.err Code.noConfusion Code.noConfusion
  · simp only at e1 e2 e3; subst e1; subst e2; subst e3
    exact Or.inr (Or.inr ⟨rfl, rfl, rfl⟩)

theorem s_pmKey {f : Nat} {s1 s2 : St} (hq : Live p (0 :: x) y s1 s2) (htk : Tk (p ++ 0 :: x) p.length s1) :
    SK p x y (pmKey cfg f s1) (pmKey cfg f s2) := by
  have hN := nulAt_of_split (x := x) hp
  have hl1 := htk.1.2
  have hl2 : s2.l.loaded = true := by rw [← hq.2.1]; exact hl1
  simp only [pmKey, cur_loaded hl1, cur_loaded hl2, ← hq.2.2.1]
  split
  · exact sg_of (tw_parseQuoted live_T _ _ _ _ _ (live_T.mv hq)) (gh_parseQuoted hN htk.2 _ _ _ _ (Tk.move hN htk))
  · split
    · have hlv := gh_parseUnquoted hN (f+1) [] s1 htk.1.1
      have hlen := key_len hp (f+1) [] s1 s2 hq htk.1.1
      rcases tw_parseUnquoted (live_T (p := p) (x := x) (y := y)) (f+1) [] s1 s2 hq with ⟨e1, e2⟩ | hb
      · rw [← e1]
        by_cases hk : (parseUnquoted (f+1) [] s1).1.length > cfg.maxStrLen
        · simp only [if_pos hk]
          exact Or.inl ⟨rfl, rfl, e2, fun h => Code.noConfusion h⟩
        · simp only [if_neg hk]
          exact Or.inl ⟨rfl, rfl, e2, fun _ => hlv⟩
      · by_cases hk : (parseUnquoted (f+1) [] s1).1.length > cfg.maxStrLen
        · have hk2 : (parseUnquoted (f+1) [] s2).1.length > cfg.maxStrLen := by omega
          simp only [if_pos hk, if_pos hk2]
          exact Or.inr (Or.inr ⟨rfl, rfl, trivial⟩)
        · simp only [if_neg hk]
          exact Or.inr (Or.inl ⟨Code.noConfusion, fun _ => ⟨hlv, hb⟩⟩)
    · exact SG.same Code.noConfusion hq

omit hp in
theorem s_pmK4 {f L : Nat} {ms : List (List Byte × Val)} (hM : SM p x y cfg f) (r1 r2 : Code × St)
    (h : S2 p x y r1 r2) : S3 p x y (pmK4 cfg f L ms r1) (pmK4 cfg f L ms r2) := by
  obtain ⟨c1, b1⟩ := r1; obtain ⟨c2, b2⟩ := r2
  rcases h with ⟨e, hq, htk⟩ | ⟨hne, hnm⟩
  · simp only at e hq htk; subst e
    cases c1
    case ok => exact hM _ _ _ _ hq (htk rfl)
    all_goals exact SG.same Code.noConfusion hq
  · simp only at hne hnm
    cases c1
    case ok => exact absurd rfl hne
    case noMemory => exact absurd rfl hnm
    all_goals exact SG.err Code.noConfusion Code.noConfusion

theorem s_pmK3 {f L : Nat} {ms : List (List Byte × Val)} (hM : SM p x y cfg f) (r1 r2 : Code × St)
    (h : S2 p x y r1 r2) : S3 p x y (pmK3 cfg f L ms r1) (pmK3 cfg f L ms r2) := by
  have hN := nulAt_of_split (x := x) hp
  obtain ⟨c1, b1⟩ := r1; obtain ⟨c2, b2⟩ := r2
  rcases h with ⟨e, hq, htk⟩ | ⟨hne, hnm⟩
  · simp only at e hq htk; subst e
    cases c1
    case ok =>
      have htk' := htk rfl
      have hl1 := htk'.1.2
      have hl2 : b2.l.loaded = true := by rw [← hq.2.1]; exact hl1
      simp only [pmK3, cur_loaded hl1, cur_loaded hl2, ← hq.2.2.1]
      split
      · exact Or.inl ⟨rfl, rfl, live_T.mv hq, fun _ => Tk.move hN htk'⟩
      · split
        · exact s_pmK4 hM _ _ (s_skipSpaces hp _ (live_T.mv hq) (Tk.move hN htk'))
        · exact SG.same Code.noConfusion hq
    all_goals exact SG.same Code.noConfusion hq
  · simp only at hne hnm
    cases c1
    case ok => exact absurd rfl hne
    case noMemory => exact absurd rfl hnm
    all_goals exact SG.err Code.noConfusion Code.noConfusion

theorem s_pmK2 {f L : Nat} {ms : List (List Byte × Val)} {key : List Byte} (hM : SM p x y cfg f)
    (r1 r2 : Code × Val × St) (h : S3 p x y r1 r2) :
    S3 p x y (pmK2 cfg f L ms key r1) (pmK2 cfg f L ms key r2) := by
  obtain ⟨c1, v1, b1⟩ := r1; obtain ⟨c2, v2, b2⟩ := r2
  rcases h with ⟨e1, e2, hq, hl⟩ | ⟨hnm, hd⟩ | ⟨e1, e2, e3⟩
  · simp only at e1 e2 hq hl; subst e1; subst e2
    cases c1
    case ok => exact s_pmK3 hp hM _ _ (s_skipSpaces hp _ hq (hl rfl))
    all_goals exact SG.same Code.noConfusion hq
  · simp only at hnm hd
    cases c1
    case ok => exact SG.err (pmK2_dead (hd rfl)).1 (pmK2_dead (hd rfl)).2
    case noMemory => exact absurd rfl hnm
    all_goals exact SG.err Code.noConfusion Code.noConfusion
  · simp only at e1 e2 e3; subst e1; subst e2; subst e3
    exact Or.inr (Or.inr ⟨rfl, rfl, rfl⟩)

theorem s_pmK1 {f L : Nat} {ms : List (List Byte × Val)} {key : List Byte} (hV : SV p x y cfg f)
    (hM : SM p x y cfg f) (r1 r2 : Code × St) (h : S2 p x y r1 r2) :
    S3 p x y (pmK1 cfg f L ms key r1) (pmK1 cfg f L ms key r2) := by
  have hN := nulAt_of_split (x := x) hp
  obtain ⟨c1, b1⟩ := r1; obtain ⟨c2, b2⟩ := r2
  rcases h with ⟨e, hq, htk⟩ | ⟨hne, hnm⟩
  · simp only at e hq htk; subst e
    cases c1
    case ok =>
      have htk' := htk rfl
      have hl1 := htk'.1.2
      have hl2 : b2.l.loaded = true := by rw [← hq.2.1]; exact hl1
      simp only [pmK1, cur_loaded hl1, cur_loaded hl2, ← hq.2.2.1]
      split
      · exact SG.same Code.noConfusion hq
      · exact s_pmK2 hp hM _ _ (hV _ _ _ (live_T.mv hq) (Tk.move hN htk'))
    all_goals exact SG.same Code.noConfusion hq
  · simp only at hne hnm
    cases c1
    case ok => exact absurd rfl hne
    case noMemory => exact absurd rfl hnm
    all_goals exact SG.err Code.noConfusion Code.noConfusion

theorem s_pmK0 {f L : Nat} {ms : List (List Byte × Val)} (hV : SV p x y cfg f) (hM : SM p x y cfg f)
    (r1 r2 : Code × List Byte × St) (h : SK p x y r1 r2) :
    S3 p x y (pmK0 cfg f L ms r1) (pmK0 cfg f L ms r2) := by
  obtain ⟨c1, v1, b1⟩ := r1; obtain ⟨c2, v2, b2⟩ := r2
  rcases h with ⟨e1, e2, hq, hl⟩ | ⟨hnm, hd⟩ | ⟨e1, e2, _⟩
  · simp only at e1 e2 hq hl; subst e1; subst e2
    cases c1
    case ok => exact s_pmK1 hp hV hM _ _ (s_skipSpaces hp _ hq (hl rfl))
    all_goals exact SG.same Code.noConfusion hq
  · simp only at hnm hd
    cases c1
    case ok => exact SG.err (pmK0_dead (hd rfl)).1 (pmK0_dead (hd rfl)).2
    case noMemory => exact absurd rfl hnm
    all_goals exact SG.err Code.noConfusion Code.noConfusion
  · simp only at e1 e2; subst e1; subst e2
    exact Or.inr (Or.inr ⟨rfl, rfl, rfl⟩)

/-- **the two runs, for the three mutually recursive routines** -/
theorem s_mutual : ∀ f, SV p x y cfg f ∧ SE p x y cfg f ∧ SM p x y cfg f := by
  intro f
  induction f with
  | zero =>
    refine ⟨?_, ?_, ?_⟩
    · intro L s1 s2 hq hl; exact SG.same Code.noConfusion hq
    · intro L s1 s2 acc hq hl; exact SG.same Code.noConfusion hq
    · intro L s1 s2 ms hq hl; exact SG.same Code.noConfusion hq
  | succ f ih =>
    obtain ⟨ihV, ihE, ihM⟩ := ih
    refine ⟨?_, ?_, ?_⟩
    · intro L s1 s2 hq hl
      rw [parseVariant_succ, parseVariant_succ]
      exact s_pvK hp ihE ihM _ _ (s_skipSpaces hp _ hq hl)
    · intro L s1 s2 acc hq hl
      rw [parseElems_succ, parseElems_succ]
      exact s_peK1 hp ihE _ _ (ihV _ _ _ hq hl)
    · intro L s1 s2 ms hq htk
      rw [parseMembers_succ, parseMembers_succ]
      exact s_pmK0 hp ihV ihM _ _ (s_pmKey hp hq htk)

end

/-! ## `run` -/

theorem runF_doc (cfg : Cfg) (L fuel : Nat) (t : List Byte) :
    (runF cfg L fuel t).2.1 = (parseVariant cfg fuel L { l := { unread := t } }).2.1 := by
  unfold runF
  simp only
  generalize parseVariant cfg fuel L { l := { unread := t } } = o
  obtain ⟨c, v, b⟩ := o
  cases c <;> try rfl
  simp only
  split <;> rfl

theorem runF_nomem (cfg : Cfg) (L fuel : Nat) (t : List Byte) :
    (runF cfg L fuel t).1 = .noMemory ↔ (parseVariant cfg fuel L { l := { unread := t } }).1 = .noMemory := by
  unfold runF
  simp only
  generalize parseVariant cfg fuel L { l := { unread := t } } = o
  obtain ⟨c, v, b⟩ := o
  cases c <;> try exact Iff.rfl
  simp only
  split <;> exact ⟨fun h => Code.noConfusion h, fun h => Code.noConfusion h⟩

/-- **`NoMemory` is final.** If the run over `p ++ 0 :: x` (`p` free of NUL bytes) answers `NoMemory`, every input
    that starts with `p` is answered `NoMemory`, with the same document. (The number of bytes taken may differ: an
    unquoted key that is too long is read to its end.) -/
theorem run_nomem_final (cfg : Cfg) (L : Nat) (p x y : List Byte) (hp : ∀ c ∈ p, c ≠ 0)
    (h : (run cfg L (p ++ 0 :: x)).1 = .noMemory) :
    (run cfg L (p ++ y)).1 = .noMemory ∧ (run cfg L (p ++ y)).2.1 = (run cfg L (p ++ 0 :: x)).2.1 := by
  have hF1 := run_eq_runF cfg L (2 * (p.length + x.length + y.length + 1) + 4) (p ++ 0 :: x) (by simp; omega)
  have hF2 := run_eq_runF cfg L (2 * (p.length + x.length + y.length + 1) + 4) (p ++ y) (by simp; omega)
  rw [hF1] at h ⊢
  rw [hF2]
  generalize 2 * (p.length + x.length + y.length + 1) + 4 = fuel at *
  have h0 : Live p (0 :: x) y ({ l := { unread := p ++ 0 :: x } } : St) ({ l := { unread := p ++ y } } : St) :=
    ⟨rfl, rfl, rfl, rfl, p, rfl, rfl, by simp⟩
  have hl : Lv (p ++ 0 :: x) p.length ({ l := { unread := p ++ 0 :: x } } : St) := by
    refine ⟨rfl, ?_, fun _ => Nat.zero_le _⟩
    intro h; cases h
  rw [runF_nomem] at h ⊢
  rw [runF_doc, runF_doc]
  rcases (s_mutual (cfg := cfg) hp fuel).1 L _ _ h0 hl with ⟨e1, e2, _⟩ | ⟨hnm, _⟩ | ⟨_, e2, e3⟩
  · exact ⟨e1 ▸ h, e2.symm⟩
  · exact absurd h hnm
  · exact ⟨e2, e3.symm⟩

end JD
