/- Generic preservation: a predicate on parser states that is kept by `current()`, `move()` and by setting `found`
   is kept by every routine of the JSON deserializer model (template: AJ/Lemmas/JDPos.lean). -/
import AJ.Model.JD
namespace JD

/-- `P` is kept by the three primitive state transformers -/
structure StepClosed (P : St → Prop) : Prop where
  cur : ∀ {s}, P s → P (JD.cur s).2
  mv : ∀ {s}, P s → P (JD.mv s)
  found : ∀ {s b}, P s → P { s with found := b }

section
variable {P : St → Prop} (hP : StepClosed P)
include hP

theorem pres_skipBlock : ∀ fuel w s, P s → P (skipBlock fuel w s).2 := by
  intro fuel
  induction fuel with
  | zero => intro w s h; simpa [skipBlock] using h
  | succ f ih =>
    intro w s h
    simp only [skipBlock]
    have h1 := hP.cur h
    split
    · exact h1
    · split
      · exact hP.mv h1
      · exact ih _ _ (hP.mv h1)

theorem pres_skipLine : ∀ fuel s, P s → P (skipLine fuel s).2 := by
  intro fuel
  induction fuel with
  | zero => intro s h; simpa [skipLine] using h
  | succ f ih =>
    intro s h
    simp only [skipLine]
    have h1 := hP.cur (hP.mv h)
    split
    · exact h1
    · split
      · exact h1
      · exact ih _ h1

theorem pres_skipSpaces {cfg} : ∀ fuel s, P s → P (skipSpaces cfg fuel s).2 := by
  intro fuel
  induction fuel with
  | zero => intro s h; simpa [skipSpaces] using h
  | succ f ih =>
    intro s h
    simp only [skipSpaces]
    have h1 := hP.cur h
    split
    · exact h1
    · split
      · exact ih _ (hP.mv h1)
      · split
        · have h2 := hP.cur (hP.mv h1)
          split
          · have h3 := pres_skipBlock hP f false _ (hP.mv h2)
            split
            · rename_i heq; rw [heq] at h3; exact ih _ h3
            · exact h3
          · split
            · have h3 := pres_skipLine hP f _ h2
              split
              · rename_i heq; rw [heq] at h3; exact ih _ h3
              · exact h3
            · exact h2
        · exact hP.found h1

theorem pres_skipKeyword : ∀ ks s, P s → P (skipKeyword ks s).2 := by
  intro ks
  induction ks with
  | nil => intro s h; simpa [skipKeyword] using h
  | cons k ks ih =>
    intro s h
    simp only [skipKeyword]
    have h1 := hP.cur h
    split
    · exact h1
    · split
      · exact h1
      · exact ih _ (hP.mv h1)

theorem pres_parseHex4 : ∀ k acc s, P s → P (parseHex4 k acc s).2.2 := by
  intro k
  induction k with
  | zero => intro acc s h; simpa [parseHex4] using h
  | succ k ih =>
    intro acc s h
    simp only [parseHex4]
    have h1 := hP.cur h
    split
    · exact h1
    · split
      · exact h1
      · exact ih _ _ (hP.mv h1)

theorem pres_parseQuoted {cfg stop} : ∀ fuel acc hi s, P s → P (parseQuoted cfg stop fuel acc hi s).2.2 := by
  intro fuel
  induction fuel with
  | zero => intro acc hi s h; simpa [parseQuoted] using h
  | succ f ih =>
    intro acc hi s h
    simp only [parseQuoted]
    have h1 := hP.mv (hP.cur h)
    split
    · exact h1
    · split
      · exact h1
      · split
        · have h2 := hP.cur h1
          split
          · exact h2
          · split
            · split
              · have h3 := pres_parseHex4 hP 4 0 _ (hP.mv h2)
                split
                · rename_i heq; rw [heq] at h3
                  split
                  · exact ih _ _ _ h3
                  · split
                    · exact ih _ _ _ h3
                    · exact ih _ _ _ h3
                · rename_i heq; rw [heq] at h3; exact h3
              · exact ih _ _ _ h2
            · split
              · exact h2
              · exact ih _ _ _ (hP.mv h2)
        · exact ih _ _ _ h1
theorem pres_parseUnquoted : ∀ fuel acc s, P s → P (parseUnquoted fuel acc s).2 := by
  intro fuel
  induction fuel with
  | zero => intro acc s h; simpa [parseUnquoted] using h
  | succ f ih =>
    intro acc s h
    simp only [parseUnquoted]
    have h1 := hP.cur h
    split
    · exact ih _ _ (hP.mv h1)
    · exact h1

theorem pres_scanNumber {cfg} : ∀ k acc s, P s → P (scanNumber cfg k acc s).2 := by
  intro k
  induction k with
  | zero => intro acc s h; simp only [scanNumber]; exact hP.cur h
  | succ k ih =>
    intro acc s h
    simp only [scanNumber]
    have h1 := hP.cur h
    split
    · exact ih _ _ (hP.mv h1)
    · exact h1

theorem pres_parseNumeric {cfg} (s : St) (h : P s) : P (parseNumeric cfg s).2.2 := by
  unfold parseNumeric
  have h1 := pres_scanNumber hP (cfg := cfg) (Gen.number_buffer - 1) [] s h
  generalize scanNumber cfg (Gen.number_buffer - 1) [] s = r at h1 ⊢
  obtain ⟨buf, s'⟩ := r
  simp only
  split <;> exact h1

theorem pres_mutual {cfg} : ∀ fuel,
    (∀ limit s, P s → P (parseVariant cfg fuel limit s).2.2) ∧
    (∀ limit s acc, P s → P (parseElems cfg fuel limit s acc).2.2) ∧
    (∀ limit s ms, P s → P (parseMembers cfg fuel limit s ms).2.2) := by
  intro fuel
  induction fuel with
  | zero =>
    refine ⟨?_, ?_, ?_⟩
    · intro limit s h; simpa [parseVariant] using h
    · intro limit s acc h; simpa [parseElems] using h
    · intro limit s ms h; simpa [parseMembers] using h
  | succ f ih =>
    obtain ⟨ihV, ihE, ihM⟩ := ih
    refine ⟨?_, ?_, ?_⟩
    · intro limit s h
      simp only [parseVariant]
      have h0 := pres_skipSpaces hP (cfg := cfg) (f+1) s h
      split
      · rename_i s1 heq; rw [heq] at h0
        have h1 := hP.cur h0
        split
        · split
          · exact h1
          · have h2 := pres_skipSpaces hP (cfg := cfg) (f+1) _ (hP.mv h1)
            split
            · rename_i heq2; rw [heq2] at h2
              have h3 := hP.cur h2
              split
              · exact hP.mv h3
              · exact ihE _ _ _ h3
            · rename_i heq2; rw [heq2] at h2; exact h2
        · split
          · split
            · exact h1
            · have h2 := pres_skipSpaces hP (cfg := cfg) (f+1) _ (hP.mv h1)
              split
              · rename_i heq2; rw [heq2] at h2
                have h3 := hP.cur h2
                split
                · exact hP.mv h3
                · exact ihM _ _ _ h3
              · rename_i heq2; rw [heq2] at h2; exact h2
          · split
            · have h2 := pres_parseQuoted hP (cfg := cfg) (stop := (cur s1).1) (f+1) [] 0 _ (hP.mv h1)
              split <;> (rename_i heq2; rw [heq2] at h2; exact h2)
            · split
              · exact pres_skipKeyword hP _ _ h1
              · split
                · exact pres_skipKeyword hP _ _ h1
                · split
                  · exact pres_skipKeyword hP _ _ h1
                  · exact pres_parseNumeric hP _ h1
      · rename_i heq; rw [heq] at h0; exact h0
    · intro limit s acc h
      simp only [parseElems]
      have h0 := ihV limit s h
      split
      · rename_i heq; rw [heq] at h0
        have h1 := pres_skipSpaces hP (cfg := cfg) (f+1) _ h0
        split
        · rename_i heq2; rw [heq2] at h1
          have h2 := hP.cur h1
          split
          · exact hP.mv h2
          · split
            · exact ihE _ _ _ (hP.mv h2)
            · exact h2
        · rename_i heq2; rw [heq2] at h1; exact h1
      · rename_i heq; rw [heq] at h0; exact h0
    · intro limit s ms h
      simp only [parseMembers]
      have hc := hP.cur h
      -- the key
      have hkey : P (if ((cur s).1 == 0x22 || (cur s).1 == 0x27) = true then parseQuoted cfg (cur s).1 (f+1) [] 0 (mv (cur s).2)
            else if inUnquoted (cur s).1 = true then
              ((if (parseUnquoted (f+1) [] (cur s).2).1.length > cfg.maxStrLen then Code.noMemory else Code.ok), (parseUnquoted (f+1) [] (cur s).2).1, (parseUnquoted (f+1) [] (cur s).2).2)
            else (Code.invalid, [], (cur s).2)).2.2 := by
        split
        · exact pres_parseQuoted hP _ _ _ _ (hP.mv hc)
        · split
          · exact pres_parseUnquoted hP _ _ _ hc
          · exact hc
      generalize (if ((cur s).1 == 0x22 || (cur s).1 == 0x27) = true then parseQuoted cfg (cur s).1 (f+1) [] 0 (mv (cur s).2)
            else if inUnquoted (cur s).1 = true then
              ((if (parseUnquoted (f+1) [] (cur s).2).1.length > cfg.maxStrLen then Code.noMemory else Code.ok), (parseUnquoted (f+1) [] (cur s).2).1, (parseUnquoted (f+1) [] (cur s).2).2)
            else (Code.invalid, [], (cur s).2)) = kr at hkey ⊢
      obtain ⟨kc, key, s1⟩ := kr
      cases kc <;> simp only at hkey ⊢ <;> try exact hkey
      -- kc = ok
      have h1 := pres_skipSpaces hP (cfg := cfg) (f+1) _ hkey
      split
      · rename_i heq; rw [heq] at h1
        have h2 := hP.cur h1
        split
        · exact h2
        · have h3 := ihV limit _ (hP.mv h2)
          split
          · rename_i heq3; rw [heq3] at h3
            have h4 := pres_skipSpaces hP (cfg := cfg) (f+1) _ h3
            split
            · rename_i heq4; rw [heq4] at h4
              have h5 := hP.cur h4
              split
              · exact hP.mv h5
              · split
                · have h6 := pres_skipSpaces hP (cfg := cfg) (f+1) _ (hP.mv h5)
                  split
                  · rename_i heq6; rw [heq6] at h6; exact ihM _ _ _ h6
                  · rename_i heq6; rw [heq6] at h6; exact h6
                · exact h5
            · rename_i heq4; rw [heq4] at h4; exact h4
          · rename_i heq3; rw [heq3] at h3; exact h3
      · rename_i heq; rw [heq] at h1; exact h1


end
end JD
