/- Two instances of the generic two-run simulation, at the level of `run`:
   * locality: the result depends only on the bytes that were taken from the reader (`run_local`);
   * the end of the input and a NUL byte are the same thing to the deserializer (`run_nul_end`). -/
import AJ.Lemmas.ClassSim2
import AJ.Lemmas.ClassFuel
import AJ.Lemmas.JDPos
set_option linter.unusedSimpArgs false
set_option linter.unusedVariables false
namespace JD

/-! ## locality -/

/-- two runs over `p ++ x` and `p ++ y` that have not left `p` yet -/
def Live (p x y : List Byte) (s1 s2 : St) : Prop :=
  s1.found = s2.found ∧ s1.l.loaded = s2.l.loaded ∧ s1.l.cur = s2.l.cur ∧ s1.l.pos = s2.l.pos ∧
    ∃ u, s1.l.unread = u ++ x ∧ s2.l.unread = u ++ y ∧ s1.l.pos + u.length = p.length

theorem over_closed (n : Nat) : StepClosed (fun s : St => n < s.l.pos) := by
  refine ⟨?_, ?_, ?_⟩
  · intro s h
    obtain ⟨⟨u, c, ld, p⟩, fd⟩ := s
    simp only [cur, Latch.current]
    cases ld
    · cases u <;> simp at h ⊢ <;> omega
    · simpa using h
  · intro s h; exact h
  · intro s b h; exact h

theorem live_twin (p x y : List Byte) (hx : x ≠ []) : Twin (Live p x y) (fun s => p.length < s.l.pos) := by
  refine ⟨over_closed _, ?_, ?_, ?_, ?_, ?_⟩
  · intro s1 s2 h
    obtain ⟨⟨u1, c1, ld1, p1⟩, f1⟩ := s1
    obtain ⟨⟨u2, c2, ld2, p2⟩, f2⟩ := s2
    obtain ⟨h1, h2, h3, h4, u, h5, h6, h7⟩ := h
    simp only at h1 h2 h3 h4 h5 h6 h7
    subst h1; subst h2; subst h3; subst h4; subst h5; subst h6
    cases ld1
    · cases u with
      | nil =>
        right
        obtain ⟨a, x', rfl⟩ : ∃ a x', x = a :: x' := by
          cases x with
          | nil => exact absurd rfl hx
          | cons a x' => exact ⟨a, x', rfl⟩
        simp only [cur, Latch.current, List.nil_append, Bool.false_eq_true, ↓reduceIte]
        simp at h7; omega
      | cons c u' =>
        left
        simp only [cur, Latch.current, List.cons_append, Bool.false_eq_true, ↓reduceIte, true_and]
        refine ⟨rfl, rfl, rfl, rfl, u', rfl, rfl, ?_⟩
        simp at h7 ⊢; omega
    · left
      simp only [cur, Latch.current, ↓reduceIte, true_and]
      exact ⟨rfl, rfl, rfl, rfl, u, rfl, rfl, h7⟩
  · intro s1 s2 h
    obtain ⟨h1, h2, h3, h4, u, h5, h6, h7⟩ := h
    exact ⟨h1, rfl, h3, h4, u, h5, h6, h7⟩
  · intro s1 s2 b h
    obtain ⟨h1, h2, h3, h4, u, h5, h6, h7⟩ := h
    exact ⟨rfl, h2, h3, h4, u, h5, h6, h7⟩
  · intro s1 s2 h; exact h.1
  · intro s1 s2 h; exact h.2.2.1

theorem runF_pos (cfg : Cfg) (L fuel : Nat) (t : List Byte) :
    (runF cfg L fuel t).2.2 = (parseVariant cfg fuel L { l := { unread := t } }).2.2.l.pos := by
  unfold runF
  simp only
  generalize parseVariant cfg fuel L { l := { unread := t } } = o
  obtain ⟨c, v, b⟩ := o
  cases c <;> try rfl
  simp only
  split <;> rfl

/-- related final states give the same answer -/
theorem runF_congr {cfg : Cfg} {L fuel : Nat} {t1 t2 : List Byte}
    (h1 : (parseVariant cfg fuel L { l := { unread := t1 } }).1 = (parseVariant cfg fuel L { l := { unread := t2 } }).1)
    (h2 : (parseVariant cfg fuel L { l := { unread := t1 } }).2.1 = (parseVariant cfg fuel L { l := { unread := t2 } }).2.1)
    (h3 : (parseVariant cfg fuel L { l := { unread := t1 } }).2.2.l.cur =
      (parseVariant cfg fuel L { l := { unread := t2 } }).2.2.l.cur) :
    (runF cfg L fuel t1).1 = (runF cfg L fuel t2).1 ∧ (runF cfg L fuel t1).2.1 = (runF cfg L fuel t2).2.1 := by
  unfold runF
  simp only
  generalize parseVariant cfg fuel L { l := { unread := t1 } } = o1 at *
  generalize parseVariant cfg fuel L { l := { unread := t2 } } = o2 at *
  obtain ⟨c1, v1, b1⟩ := o1; obtain ⟨c2, v2, b2⟩ := o2
  simp only at h1 h2 h3; subst h1; subst h2
  cases c1 <;> try exact ⟨rfl, rfl⟩
  simp only [h3]
  split <;> exact ⟨rfl, rfl⟩

/-- **Locality.** If the run over `p ++ x` (`x` not empty) took no byte of `x` from the reader, the result — code,
    document and number of bytes taken — is the same whatever follows `p`. -/
theorem run_local (cfg : Cfg) (L : Nat) (p x y : List Byte) (hx : x ≠ [])
    (h : (run cfg L (p ++ x)).2.2 ≤ p.length) : run cfg L (p ++ y) = run cfg L (p ++ x) := by
  have hF1 := run_eq_runF cfg L (2 * (p.length + x.length + y.length) + 4) (p ++ x) (by simp; omega)
  have hF2 := run_eq_runF cfg L (2 * (p.length + x.length + y.length) + 4) (p ++ y) (by simp; omega)
  rw [hF1] at h ⊢
  rw [hF2]
  generalize 2 * (p.length + x.length + y.length) + 4 = fuel at *
  have h0 : Live p x y ({ l := { unread := p ++ x } } : St) ({ l := { unread := p ++ y } } : St) :=
    ⟨rfl, rfl, rfl, rfl, p, rfl, rfl, by simp⟩
  rw [runF_pos] at h
  rcases (tw_mutual (live_twin p x y hx) (cfg := cfg) fuel).1 L _ _ h0 with ⟨e1, e2, e3⟩ | hb
  · obtain ⟨g1, g2⟩ := runF_congr (cfg := cfg) (L := L) (fuel := fuel) e1 e2 e3.2.2.1
    have g3 : (runF cfg L fuel (p ++ x)).2.2 = (runF cfg L fuel (p ++ y)).2.2 := by
      rw [runF_pos, runF_pos]; exact e3.2.2.2.1
    apply Prod.ext g1.symm
    exact Prod.ext g2.symm g3.symm
  · exact absurd hb (Nat.not_lt.mpr h)

/-! ## the end of the input is a NUL -/

/-- a run over `t` and a run over `t ++ [0]`: either both are inside `t`, or the first one is at the end of `t` and
    the second one took the NUL -/
def NulEnd (s1 s2 : St) : Prop :=
  s2 = { s1 with l := { s1.l with unread := s1.l.unread ++ [0] } } ∨
  (s1.l.unread = [] ∧ s2 = { s1 with l := { s1.l with pos := s1.l.pos + 1 } })

theorem false_closed : StepClosed (fun _ : St => False) := ⟨fun h => h, fun h => h, fun h => h⟩

theorem nulEnd_twin : Twin NulEnd (fun _ => False) := by
  refine ⟨false_closed, ?_, ?_, ?_, ?_, ?_⟩
  · intro s1 s2 h
    left
    obtain ⟨⟨u1, c1, ld1, p1⟩, f1⟩ := s1
    rcases h with rfl | ⟨hu, rfl⟩
    · cases ld1
      · cases u1 with
        | nil =>
          simp only [cur, Latch.current, List.nil_append, Bool.false_eq_true, ↓reduceIte, true_and]
          exact Or.inr ⟨rfl, rfl⟩
        | cons c u' =>
          simp only [cur, Latch.current, List.cons_append, Bool.false_eq_true, ↓reduceIte, true_and]
          exact Or.inl rfl
      · simp only [cur, Latch.current, ↓reduceIte, true_and]
        exact Or.inl rfl
    · simp only at hu; subst hu
      cases ld1
      · simp only [cur, Latch.current, Bool.false_eq_true, ↓reduceIte, true_and]
        exact Or.inr ⟨rfl, rfl⟩
      · simp only [cur, Latch.current, ↓reduceIte, true_and]
        exact Or.inr ⟨rfl, rfl⟩
  · intro s1 s2 h
    rcases h with rfl | ⟨hu, rfl⟩
    · exact Or.inl rfl
    · exact Or.inr ⟨hu, rfl⟩
  · intro s1 s2 b h
    rcases h with rfl | ⟨hu, rfl⟩
    · exact Or.inl rfl
    · exact Or.inr ⟨hu, rfl⟩
  · intro s1 s2 h
    rcases h with rfl | ⟨hu, rfl⟩ <;> rfl
  · intro s1 s2 h
    rcases h with rfl | ⟨hu, rfl⟩ <;> rfl

/-- **End of input = NUL.** Appending a NUL terminator changes neither the code nor the document; the number of bytes
    taken from the reader can only grow by one (the terminator). -/
theorem run_nul_end (cfg : Cfg) (L : Nat) (t : List Byte) :
    (run cfg L (t ++ [0])).1 = (run cfg L t).1 ∧ (run cfg L (t ++ [0])).2.1 = (run cfg L t).2.1 ∧
      (run cfg L t).2.2 = min (run cfg L (t ++ [0])).2.2 t.length := by
  have hle := run_pos_le cfg L t
  have hF1 := run_eq_runF cfg L (2 * (t.length + 1) + 4) t (by omega)
  have hF2 := run_eq_runF cfg L (2 * (t.length + 1) + 4) (t ++ [0]) (by simp only [List.length_append, List.length_cons, List.length_nil]; omega)
  rw [hF1] at hle ⊢
  rw [hF2]
  generalize 2 * (t.length + 1) + 4 = fuel at *
  have h0 : NulEnd ({ l := { unread := t } } : St) ({ l := { unread := t ++ [0] } } : St) := Or.inl rfl
  have hinv := (inv_mutual (n := t.length) (cfg := cfg) fuel).1 L ({ l := { unread := t } } : St) (by simp [Inv])
  rw [runF_pos] at hle
  rcases (tw_mutual nulEnd_twin (cfg := cfg) fuel).1 L _ _ h0 with ⟨e1, e2, e3⟩ | hb
  · have e4 : (parseVariant cfg fuel L { l := { unread := t } }).2.2.l.cur =
        (parseVariant cfg fuel L { l := { unread := t ++ [0] } }).2.2.l.cur := by
      rcases e3 with e | ⟨_, e⟩ <;> rw [e]
    obtain ⟨g1, g2⟩ := runF_congr (cfg := cfg) (L := L) (fuel := fuel) e1 e2 e4
    refine ⟨g1.symm, g2.symm, ?_⟩
    rw [runF_pos, runF_pos]
    rcases e3 with e | ⟨hu, e⟩
    · rw [e]; simp only; omega
    · rw [e]; simp only
      unfold Inv at hinv
      rw [hu] at hinv
      simp at hinv
      omega
  · exact hb.elim

end JD
