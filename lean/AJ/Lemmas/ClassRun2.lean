/- Where `run` stops on an input whose first NUL is `t[n]`. -/
import AJ.Lemmas.ClassGhost2
import AJ.Lemmas.ClassRun
import AJ.Lemmas.DialectSound2
set_option linter.unusedSimpArgs false
set_option linter.unusedVariables false
namespace JD

/-- the facts about the number of bytes taken, by code -/
def StopFacts (cfg : Cfg) (t : List Byte) (n : Nat) (r : Code × Val × Nat) : Prop :=
  r.2.2 ≤ n + 1 ∧
  (r.1 = .incomplete ∨ r.1 = .empty → r.2.2 = n + 1) ∧
  (r.1 = .invalid →
    (1 ≤ r.2.2 ∧ r.2.2 ≤ n ∧ ∃ c, t[r.2.2 - 1]? = some c ∧ c ≠ 0) ∨ (r.2.2 = n + 1 ∧ Dang cfg t n)) ∧
  (r.1 = .tooDeep → r.2.2 ≤ n) ∧
  (r.1 = .noMemory → r.2.2 ≤ n ∨ (r.2.2 = n + 1 ∧ LongTail cfg (t.take n)))

theorem Lv.pos_le {t : List Byte} {n : Nat} {s : St} (h : Lv t n s) : s.l.pos ≤ n + 1 := by
  cases hl : s.l.loaded
  · have := h.2.2 hl; omega
  · exact (h.2.1 hl).2.1

theorem run_stop {cfg : Cfg} {t : List Byte} {n : Nat} (hN : NulAt t n) (L : Nat) : StopFacts cfg t n (run cfg L t) := by
  have hnf := run_ne_fuel cfg L t
  have h0 : Lv t n ({ l := { unread := t } } : St) := by
    refine ⟨rfl, ?_, fun _ => Nat.zero_le _⟩
    intro h; cases h
  have hg := (gh_mutual (cfg := cfg) hN (2 * t.length + 4)).1 L _ h0
  have hs := (sound_all cfg (2 * t.length + 4)).1 L ({ l := { unread := t } } : St) t
  have hrun : run cfg L t =
      (match parseVariant cfg (2 * t.length + 4) L { l := { unread := t } } with
       | (.ok, v, s) =>
         if s.l.cur != 0 && !isWs s.l.cur && isNumberVal v then (.invalid, v, s.l.pos) else (.ok, v, s.l.pos)
       | (e, v, s) => (e, v, s.l.pos)) := rfl
  rw [hrun] at hnf ⊢
  generalize parseVariant cfg (2 * t.length + 4) L { l := { unread := t } } = o at hg hs hnf ⊢
  obtain ⟨c, v, s⟩ := o
  cases c
  · -- ok
    have hl : Lv t n s := hg
    simp only
    split
    · rename_i hc
      simp only [Bool.and_eq_true, bne_iff_ne, ne_eq, Bool.not_eq_true'] at hc
      obtain ⟨_, _, _, _, _, _, _, hld⟩ := hs v s (Rem.un rfl) rfl
      have htk : Tk t n s := ⟨⟨hl, hld hc.2⟩, hc.1.1⟩
      obtain ⟨b1, b2⟩ := Ld_d0.byte htk.1
      refine ⟨hl.pos_le, (fun h => by rcases h with h | h <;> cases h), fun _ => ?_, (fun h => by cases h), (fun h => by cases h)⟩
      exact Or.inl ⟨b1, Tk.pos_le hN htk, _, b2, hc.1.1⟩
    · exact ⟨hl.pos_le, (fun h => by rcases h with h | h <;> cases h), (fun h => by cases h),
        (fun h => by cases h), (fun h => by cases h)⟩
  · -- empty
    have hp : s.l.pos = n + 1 := hg
    exact ⟨Nat.le_of_eq hp, fun _ => hp, (fun h => by cases h), (fun h => by cases h), (fun h => by cases h)⟩
  · -- incomplete
    have hp : s.l.pos = n + 1 := hg
    exact ⟨Nat.le_of_eq hp, fun _ => hp, (fun h => by cases h), (fun h => by cases h), (fun h => by cases h)⟩
  · -- invalid
    have hi : Ld_d0 t n s ∧ (s.l.cur = 0 → Dang cfg t n) := hg
    refine ⟨hi.1.1.pos_le, (fun h => by rcases h with h | h <;> cases h), fun _ => ?_, (fun h => by cases h), (fun h => by cases h)⟩
    by_cases hz : s.l.cur = 0
    · exact Or.inr ⟨Ld_d0.pos_zero hN hi.1 hz, hi.2 hz⟩
    · obtain ⟨b1, b2⟩ := Ld_d0.byte hi.1
      exact Or.inl ⟨b1, Tk.pos_le hN ⟨hi.1, hz⟩, _, b2, hz⟩
  · -- noMemory
    have hm : Lv t n s ∧ (s.l.loaded = true → LongKey cfg t s) := hg
    refine ⟨hm.1.pos_le, (fun h => by rcases h with h | h <;> cases h), (fun h => by cases h), (fun h => by cases h), fun _ => ?_⟩
    cases hl : s.l.loaded with
    | false => exact Or.inl (hm.1.2.2 hl)
    | true =>
      by_cases hz : s.l.cur = 0
      · have hp := Ld_d0.pos_zero hN ⟨hm.1, hl⟩ hz
        have hk := hm.2 hl
        unfold LongKey at hk
        rw [hp] at hk
        exact Or.inr ⟨hp, by simpa using hk⟩
      · exact Or.inl (Tk.pos_le hN ⟨⟨hm.1, hl⟩, hz⟩)
  · -- tooDeep
    have ht : Tk t n s := hg
    have := Tk.pos_le hN ht
    exact ⟨by simp only; omega, (fun h => by rcases h with h | h <;> cases h), (fun h => by cases h), (fun _ => this),
      (fun h => by cases h)⟩
  · exact absurd rfl hnf

end JD
