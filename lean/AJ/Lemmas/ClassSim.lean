/- Generic two-run simulation for the JSON deserializer model.
   `Twin Q Bad`: `Q` relates the states of two runs; it is kept by `move()` and by setting `found`; `current()` either
   returns the same byte in both runs and keeps `Q`, or drives the first run into `Bad`, a property that is never left
   again (`StepClosed`). Then every routine maps `Q`-related states to equal results and `Q`-related states, or drives
   the first run into `Bad` (`tw_*`). Instances: AJ/Lemmas/DialectClass2.lean. -/
import AJ.Lemmas.ClassPres
import AJ.Lemmas.ClassKont
import AJ.Lemmas.Latch
set_option linter.unusedSimpArgs false
set_option linter.unusedVariables false
namespace JD

structure Twin (Q : St → St → Prop) (Bad : St → Prop) : Prop where
  bad : StepClosed Bad
  cur : ∀ {s1 s2}, Q s1 s2 → ((JD.cur s1).1 = (JD.cur s2).1 ∧ Q (JD.cur s1).2 (JD.cur s2).2) ∨ Bad (JD.cur s1).2
  mv : ∀ {s1 s2}, Q s1 s2 → Q (JD.mv s1) (JD.mv s2)
  found : ∀ {s1 s2} {b : Bool}, Q s1 s2 → Q { s1 with found := b } { s2 with found := b }
  fd : ∀ {s1 s2}, Q s1 s2 → s1.found = s2.found
  lcur : ∀ {s1 s2}, Q s1 s2 → s1.l.cur = s2.l.cur

/-- related results (one payload): same payload and related states, or the first run went `Bad` -/
def R2 (Q : St → St → Prop) (Bad : St → Prop) {α : Type} (o1 o2 : α × St) : Prop :=
  (o1.1 = o2.1 ∧ Q o1.2 o2.2) ∨ Bad o1.2
/-- related results (two payloads) -/
def R3 (Q : St → St → Prop) (Bad : St → Prop) {α β : Type} (o1 o2 : α × β × St) : Prop :=
  (o1.1 = o2.1 ∧ o1.2.1 = o2.2.1 ∧ Q o1.2.2 o2.2.2) ∨ Bad o1.2.2

/-! ## routines that start with `current()` do not see whether the byte was already latched -/

theorem skipBlock_cur (f : Nat) (w : Bool) (s : St) : skipBlock (f+1) w (cur s).2 = skipBlock (f+1) w s := by
  simp only [skipBlock, cur_cur]
theorem skipSpaces_cur_d1 (cfg : Cfg) (f : Nat) (s : St) : skipSpaces cfg (f+1) (cur s).2 = skipSpaces cfg (f+1) s := by
  simp only [skipSpaces, cur_cur]
theorem skipKeyword_cur (k : Byte) (ks : List Byte) (s : St) : skipKeyword (k :: ks) (cur s).2 = skipKeyword (k :: ks) s := by
  simp only [skipKeyword, cur_cur]
theorem parseHex4_cur (n acc : Nat) (s : St) : parseHex4 (n+1) acc (cur s).2 = parseHex4 (n+1) acc s := by
  simp only [parseHex4, cur_cur]
theorem parseQuoted_cur (cfg : Cfg) (stop : Byte) (f : Nat) (acc : List Byte) (hi : Nat) (s : St) :
    parseQuoted cfg stop (f+1) acc hi (cur s).2 = parseQuoted cfg stop (f+1) acc hi s := by
  simp only [parseQuoted, cur_cur]
theorem parseUnquoted_cur (f : Nat) (acc : List Byte) (s : St) :
    parseUnquoted (f+1) acc (cur s).2 = parseUnquoted (f+1) acc s := by
  simp only [parseUnquoted, cur_cur]
theorem scanNumber_cur (cfg : Cfg) (n : Nat) (acc : List Byte) (s : St) :
    scanNumber cfg n acc (cur s).2 = scanNumber cfg n acc s := by
  cases n <;> simp only [scanNumber, cur_cur]

section
variable {Q : St → St → Prop} {Bad : St → Prop} (T : Twin Q Bad)
include T

theorem tw_skipBlock : ∀ fuel w s1 s2, Q s1 s2 → R2 Q Bad (skipBlock fuel w s1) (skipBlock fuel w s2) := by
  intro fuel
  induction fuel with
  | zero => intro w s1 s2 h; exact Or.inl ⟨rfl, h⟩
  | succ f ih =>
    intro w s1 s2 h
    rcases T.cur h with ⟨hc, hq⟩ | hb
    · simp only [skipBlock]
      rw [← hc]
      split
      · exact Or.inl ⟨rfl, hq⟩
      · split
        · exact Or.inl ⟨rfl, T.mv hq⟩
        · exact ih _ _ _ (T.mv hq)
    · right
      have := pres_skipBlock T.bad (f+1) w _ hb
      rwa [skipBlock_cur] at this

theorem tw_skipLine : ∀ fuel s1 s2, Q s1 s2 → R2 Q Bad (skipLine fuel s1) (skipLine fuel s2) := by
  intro fuel
  induction fuel with
  | zero => intro s1 s2 h; exact Or.inl ⟨rfl, h⟩
  | succ f ih =>
    intro s1 s2 h
    simp only [skipLine]
    rcases T.cur (T.mv h) with ⟨hc, hq⟩ | hb
    · rw [← hc]
      split
      · exact Or.inl ⟨rfl, hq⟩
      · split
        · exact Or.inl ⟨rfl, hq⟩
        · exact ih _ _ hq
    · right
      split
      · exact hb
      · split
        · exact hb
        · exact pres_skipLine T.bad _ _ hb

theorem tw_skipSpaces {cfg : Cfg} : ∀ fuel s1 s2, Q s1 s2 → R2 Q Bad (skipSpaces cfg fuel s1) (skipSpaces cfg fuel s2) := by
  intro fuel
  induction fuel with
  | zero => intro s1 s2 h; exact Or.inl ⟨rfl, h⟩
  | succ f ih =>
    intro s1 s2 h
    rcases T.cur h with ⟨hc, hq⟩ | hb
    · simp only [skipSpaces]
      rw [← hc]
      split
      · exact Or.inl ⟨by simp only [T.fd hq], hq⟩
      · split
        · exact ih _ _ (T.mv hq)
        · split
          · rcases T.cur (T.mv hq) with ⟨hd, hq2⟩ | hb2
            · rw [← hd]
              split
              · rcases tw_skipBlock T f false _ _ (T.mv hq2) with ⟨e1, e2⟩ | hb3
                · generalize skipBlock f false (mv (cur (mv (cur s1).2)).2) = o1 at *
                  generalize skipBlock f false (mv (cur (mv (cur s2).2)).2) = o2 at *
                  obtain ⟨c1, b1⟩ := o1; obtain ⟨c2, b2⟩ := o2
                  simp only at e1 e2; subst e1
                  cases c1 <;> first | exact ih _ _ e2 | exact Or.inl ⟨rfl, e2⟩
                · right
                  generalize skipBlock f false (mv (cur (mv (cur s1).2)).2) = o1 at *
                  obtain ⟨c1, b1⟩ := o1
                  cases c1 <;> first | exact pres_skipSpaces T.bad _ _ hb3 | exact hb3
              · split
                · rcases tw_skipLine T f _ _ hq2 with ⟨e1, e2⟩ | hb3
                  · generalize skipLine f (cur (mv (cur s1).2)).2 = o1 at *
                    generalize skipLine f (cur (mv (cur s2).2)).2 = o2 at *
                    obtain ⟨c1, b1⟩ := o1; obtain ⟨c2, b2⟩ := o2
                    simp only at e1 e2; subst e1
                    cases c1 <;> first | exact ih _ _ e2 | exact Or.inl ⟨rfl, e2⟩
                  · right
                    generalize skipLine f (cur (mv (cur s1).2)).2 = o1 at *
                    obtain ⟨c1, b1⟩ := o1
                    cases c1 <;> first | exact pres_skipSpaces T.bad _ _ hb3 | exact hb3
                · exact Or.inl ⟨rfl, hq2⟩
            · right
              split
              · have h3 := pres_skipBlock T.bad f false _ (T.bad.mv hb2)
                split
                · rename_i heq; rw [heq] at h3; exact pres_skipSpaces T.bad _ _ h3
                · exact h3
              · split
                · have h3 := pres_skipLine T.bad f _ hb2
                  split
                  · rename_i heq; rw [heq] at h3; exact pres_skipSpaces T.bad _ _ h3
                  · exact h3
                · exact hb2
          · exact Or.inl ⟨rfl, T.found hq⟩
    · right
      have := pres_skipSpaces (cfg := cfg) T.bad (f+1) _ hb
      rwa [skipSpaces_cur_d1] at this

theorem tw_skipKeyword : ∀ ks s1 s2, Q s1 s2 → R2 Q Bad (skipKeyword ks s1) (skipKeyword ks s2) := by
  intro ks
  induction ks with
  | nil => intro s1 s2 h; exact Or.inl ⟨rfl, h⟩
  | cons k ks ih =>
    intro s1 s2 h
    rcases T.cur h with ⟨hc, hq⟩ | hb
    · simp only [skipKeyword]
      rw [← hc]
      split
      · exact Or.inl ⟨rfl, hq⟩
      · split
        · exact Or.inl ⟨rfl, hq⟩
        · exact ih _ _ (T.mv hq)
    · right
      have := pres_skipKeyword T.bad (k :: ks) _ hb
      rwa [skipKeyword_cur] at this

theorem tw_parseHex4 : ∀ n acc s1 s2, Q s1 s2 → R3 Q Bad (parseHex4 n acc s1) (parseHex4 n acc s2) := by
  intro n
  induction n with
  | zero => intro acc s1 s2 h; exact Or.inl ⟨rfl, rfl, h⟩
  | succ n ih =>
    intro acc s1 s2 h
    rcases T.cur h with ⟨hc, hq⟩ | hb
    · simp only [parseHex4]
      rw [← hc]
      split
      · exact Or.inl ⟨rfl, rfl, hq⟩
      · split
        · exact Or.inl ⟨rfl, rfl, hq⟩
        · exact ih _ _ _ (T.mv hq)
    · right
      have := pres_parseHex4 T.bad (n+1) acc _ hb
      rwa [parseHex4_cur] at this

theorem tw_parseUnquoted : ∀ fuel acc s1 s2, Q s1 s2 → R2 Q Bad (parseUnquoted fuel acc s1) (parseUnquoted fuel acc s2) := by
  intro fuel
  induction fuel with
  | zero => intro acc s1 s2 h; exact Or.inl ⟨rfl, h⟩
  | succ f ih =>
    intro acc s1 s2 h
    rcases T.cur h with ⟨hc, hq⟩ | hb
    · simp only [parseUnquoted]
      rw [← hc]
      split
      · exact ih _ _ _ (T.mv hq)
      · exact Or.inl ⟨rfl, hq⟩
    · right
      have := pres_parseUnquoted T.bad (f+1) acc _ hb
      rwa [parseUnquoted_cur] at this

theorem tw_scanNumber {cfg : Cfg} : ∀ n acc s1 s2, Q s1 s2 → R2 Q Bad (scanNumber cfg n acc s1) (scanNumber cfg n acc s2) := by
  intro n
  induction n with
  | zero =>
    intro acc s1 s2 h
    rcases T.cur h with ⟨hc, hq⟩ | hb
    · simp only [scanNumber]; exact Or.inl ⟨rfl, hq⟩
    · right; simp only [scanNumber]; exact hb
  | succ n ih =>
    intro acc s1 s2 h
    rcases T.cur h with ⟨hc, hq⟩ | hb
    · simp only [scanNumber]
      rw [← hc]
      split
      · exact ih _ _ _ (T.mv hq)
      · exact Or.inl ⟨rfl, hq⟩
    · right
      have := pres_scanNumber (cfg := cfg) T.bad (n+1) acc _ hb
      rwa [scanNumber_cur] at this

theorem tw_parseNumeric {cfg : Cfg} (s1 s2 : St) (h : Q s1 s2) : R3 Q Bad (parseNumeric cfg s1) (parseNumeric cfg s2) := by
  unfold parseNumeric
  rcases tw_scanNumber (cfg := cfg) T (Gen.number_buffer - 1) [] s1 s2 h with ⟨e1, e2⟩ | hb
  · generalize scanNumber cfg (Gen.number_buffer - 1) [] s1 = o1 at *
    generalize scanNumber cfg (Gen.number_buffer - 1) [] s2 = o2 at *
    obtain ⟨b1, x1⟩ := o1; obtain ⟨b2, x2⟩ := o2
    simp only at e1 e2; subst e1
    simp only
    split <;> exact Or.inl ⟨rfl, rfl, e2⟩
  · right
    generalize scanNumber cfg (Gen.number_buffer - 1) [] s1 = o1 at *
    obtain ⟨b1, x1⟩ := o1
    simp only at hb ⊢
    split <;> exact hb

theorem tw_parseQuoted {cfg : Cfg} {stop : Byte} : ∀ fuel acc hi s1 s2, Q s1 s2 →
    R3 Q Bad (parseQuoted cfg stop fuel acc hi s1) (parseQuoted cfg stop fuel acc hi s2) := by
  intro fuel
  induction fuel with
  | zero => intro acc hi s1 s2 h; exact Or.inl ⟨rfl, rfl, h⟩
  | succ f ih =>
    intro acc hi s1 s2 h
    rcases T.cur h with ⟨hc, hq⟩ | hb
    · simp only [parseQuoted]
      rw [← hc]
      have hm := T.mv hq
      split
      · exact Or.inl ⟨rfl, rfl, hm⟩
      · split
        · exact Or.inl ⟨rfl, rfl, hm⟩
        · split
          · rcases T.cur hm with ⟨hd, hq2⟩ | hb2
            · rw [← hd]
              split
              · exact Or.inl ⟨rfl, rfl, hq2⟩
              · split
                · split
                  · rcases tw_parseHex4 T 4 0 _ _ (T.mv hq2) with ⟨e1, e2, e3⟩ | hb3
                    · generalize parseHex4 4 0 (mv (cur (mv (cur s1).2)).2) = o1 at *
                      generalize parseHex4 4 0 (mv (cur (mv (cur s2).2)).2) = o2 at *
                      obtain ⟨c1, u1, b1⟩ := o1; obtain ⟨c2, u2, b2⟩ := o2
                      simp only at e1 e2 e3; subst e1; subst e2
                      cases c1 <;> try exact Or.inl ⟨rfl, rfl, e3⟩
                      simp only
                      split
                      · exact ih _ _ _ _ e3
                      · split
                        · exact ih _ _ _ _ e3
                        · exact ih _ _ _ _ e3
                    · right
                      generalize parseHex4 4 0 (mv (cur (mv (cur s1).2)).2) = o1 at *
                      obtain ⟨c1, u1, b1⟩ := o1
                      cases c1 <;> try exact hb3
                      simp only at hb3 ⊢
                      split
                      · exact pres_parseQuoted T.bad _ _ _ _ hb3
                      · split
                        · exact pres_parseQuoted T.bad _ _ _ _ hb3
                        · exact pres_parseQuoted T.bad _ _ _ _ hb3
                  · exact ih _ _ _ _ hq2
                · split
                  · exact Or.inl ⟨rfl, rfl, hq2⟩
                  · exact ih _ _ _ _ (T.mv hq2)
            · right
              split
              · exact hb2
              · split
                · split
                  · have h3 := pres_parseHex4 T.bad 4 0 _ (T.bad.mv hb2)
                    split
                    · rename_i heq; rw [heq] at h3
                      split
                      · exact pres_parseQuoted T.bad _ _ _ _ h3
                      · split
                        · exact pres_parseQuoted T.bad _ _ _ _ h3
                        · exact pres_parseQuoted T.bad _ _ _ _ h3
                    · rename_i heq; rw [heq] at h3; exact h3
                  · exact pres_parseQuoted T.bad _ _ _ _ hb2
                · split
                  · exact hb2
                  · exact pres_parseQuoted T.bad _ _ _ _ (T.bad.mv hb2)
          · exact ih _ _ _ _ hm
    · right
      have := pres_parseQuoted (cfg := cfg) (stop := stop) T.bad (f+1) acc hi _ hb
      rwa [parseQuoted_cur] at this

end

/-! ## the pieces of the mutually recursive routines: preservation -/

theorem pvTok_cur (cfg : Cfg) (f L : Nat) (s : St) : pvTok cfg f L (cur s).2 = pvTok cfg f L s := by
  simp only [pvTok, cur_cur]
theorem pmKey_cur (cfg : Cfg) (f : Nat) (s : St) : pmKey cfg f (cur s).2 = pmKey cfg f s := by
  simp only [pmKey, cur_cur]

section
variable {P : St → Prop} (hP : StepClosed P)
include hP

theorem pres_pvArr {cfg : Cfg} {f L' : Nat} (r : Code × St) (h : P r.2) : P (pvArr cfg f L' r).2.2 := by
  obtain ⟨c, s⟩ := r
  cases c <;> try exact h
  simp only [pvArr]
  have h1 := hP.cur h
  split
  · exact hP.mv h1
  · exact (pres_mutual hP f).2.1 _ _ _ h1

theorem pres_pvObj {cfg : Cfg} {f L' : Nat} (r : Code × St) (h : P r.2) : P (pvObj cfg f L' r).2.2 := by
  obtain ⟨c, s⟩ := r
  cases c <;> try exact h
  simp only [pvObj]
  have h1 := hP.cur h
  split
  · exact hP.mv h1
  · exact (pres_mutual hP f).2.2 _ _ _ h1

omit hP in
theorem pres_pvStr (r : Code × List Byte × St) (h : P r.2.2) : P (pvStr r).2.2 := by
  unfold pvStr
  split <;> exact h

theorem pres_pvTok {cfg : Cfg} {f L : Nat} (s : St) (h : P s) : P (pvTok cfg f L s).2.2 := by
  unfold pvTok
  have h1 := hP.cur h
  simp only
  split
  · split
    · exact h1
    · exact pres_pvArr hP _ (pres_skipSpaces hP _ _ (hP.mv h1))
  · split
    · split
      · exact h1
      · exact pres_pvObj hP _ (pres_skipSpaces hP _ _ (hP.mv h1))
    · split
      · exact pres_pvStr _ (pres_parseQuoted hP _ _ _ _ (hP.mv h1))
      · split
        · exact pres_skipKeyword hP _ _ h1
        · split
          · exact pres_skipKeyword hP _ _ h1
          · split
            · exact pres_skipKeyword hP _ _ h1
            · exact pres_parseNumeric hP _ h1

theorem pres_pvK {cfg : Cfg} {f L : Nat} (r : Code × St) (h : P r.2) : P (pvK cfg f L r).2.2 := by
  unfold pvK
  split
  · exact pres_pvTok hP _ h
  · exact h

theorem pres_peK2 {cfg : Cfg} {f L : Nat} {acc : List Val} (r : Code × St) (h : P r.2) : P (peK2 cfg f L acc r).2.2 := by
  obtain ⟨c, s⟩ := r
  cases c <;> try exact h
  simp only [peK2]
  have h1 := hP.cur h
  split
  · exact hP.mv h1
  · split
    · exact (pres_mutual hP f).2.1 _ _ _ (hP.mv h1)
    · exact h1

theorem pres_peK1 {cfg : Cfg} {f L : Nat} {acc : List Val} (r : Code × Val × St) (h : P r.2.2) :
    P (peK1 cfg f L acc r).2.2 := by
  unfold peK1
  split
  · exact pres_peK2 hP _ (pres_skipSpaces hP _ _ h)
  · exact h

theorem pres_pmKey {cfg : Cfg} {f : Nat} (s : St) (h : P s) : P (pmKey cfg f s).2.2 := by
  unfold pmKey
  have h1 := hP.cur h
  simp only
  split
  · exact pres_parseQuoted hP _ _ _ _ (hP.mv h1)
  · split
    · exact pres_parseUnquoted hP _ _ _ h1
    · exact h1

theorem pres_pmK4 {cfg : Cfg} {f L : Nat} {ms : List (List Byte × Val)} (r : Code × St) (h : P r.2) :
    P (pmK4 cfg f L ms r).2.2 := by
  unfold pmK4
  split
  · exact (pres_mutual hP f).2.2 _ _ _ h
  · exact h

theorem pres_pmK3 {cfg : Cfg} {f L : Nat} {ms : List (List Byte × Val)} (r : Code × St) (h : P r.2) :
    P (pmK3 cfg f L ms r).2.2 := by
  obtain ⟨c, s⟩ := r
  cases c <;> try exact h
  simp only [pmK3]
  have h1 := hP.cur h
  split
  · exact hP.mv h1
  · split
    · exact pres_pmK4 hP _ (pres_skipSpaces hP _ _ (hP.mv h1))
    · exact h1

theorem pres_pmK2 {cfg : Cfg} {f L : Nat} {ms : List (List Byte × Val)} {key : List Byte} (r : Code × Val × St)
    (h : P r.2.2) : P (pmK2 cfg f L ms key r).2.2 := by
  unfold pmK2
  split
  · exact pres_pmK3 hP _ (pres_skipSpaces hP _ _ h)
  · exact h

theorem pres_pmK1 {cfg : Cfg} {f L : Nat} {ms : List (List Byte × Val)} {key : List Byte} (r : Code × St)
    (h : P r.2) : P (pmK1 cfg f L ms key r).2.2 := by
  obtain ⟨c, s⟩ := r
  cases c <;> try exact h
  simp only [pmK1]
  have h1 := hP.cur h
  split
  · exact h1
  · exact pres_pmK2 hP _ ((pres_mutual hP f).1 _ _ (hP.mv h1))

theorem pres_pmK0 {cfg : Cfg} {f L : Nat} {ms : List (List Byte × Val)} (r : Code × List Byte × St)
    (h : P r.2.2) : P (pmK0 cfg f L ms r).2.2 := by
  unfold pmK0
  split
  · exact pres_pmK1 hP _ (pres_skipSpaces hP _ _ h)
  · exact h

end
end JD
