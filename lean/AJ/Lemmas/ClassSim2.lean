/- Generic two-run simulation, part 2: the pieces of `parseVariant` / `parseElems` / `parseMembers`, and the
   mutual induction. -/
import AJ.Lemmas.ClassSim
set_option linter.unusedSimpArgs false
set_option linter.unusedVariables false
namespace JD

section
variable {Q : St → St → Prop} {Bad : St → Prop} (T : Twin Q Bad)
include T

/-- the statement for the three routines at one fuel -/
def TwV (cfg : Cfg) (f : Nat) : Prop :=
  ∀ L s1 s2, Q s1 s2 → R3 Q Bad (parseVariant cfg f L s1) (parseVariant cfg f L s2)
def TwE (cfg : Cfg) (f : Nat) : Prop :=
  ∀ L s1 s2 acc, Q s1 s2 → R3 Q Bad (parseElems cfg f L s1 acc) (parseElems cfg f L s2 acc)
def TwM (cfg : Cfg) (f : Nat) : Prop :=
  ∀ L s1 s2 ms, Q s1 s2 → R3 Q Bad (parseMembers cfg f L s1 ms) (parseMembers cfg f L s2 ms)

omit T in
theorem r2_cases {α : Type} {o1 o2 : α × St} (h : R2 Q Bad o1 o2) :
    (∃ a b1 b2, o1 = (a, b1) ∧ o2 = (a, b2) ∧ Q b1 b2) ∨ Bad o1.2 := by
  rcases h with ⟨e1, e2⟩ | hb
  · obtain ⟨a1, b1⟩ := o1; obtain ⟨a2, b2⟩ := o2
    simp only at e1 e2; subst e1
    exact Or.inl ⟨a1, b1, b2, rfl, rfl, e2⟩
  · exact Or.inr hb

omit T in
theorem r3_cases {α β : Type} {o1 o2 : α × β × St} (h : R3 Q Bad o1 o2) :
    (∃ a v b1 b2, o1 = (a, v, b1) ∧ o2 = (a, v, b2) ∧ Q b1 b2) ∨ Bad o1.2.2 := by
  rcases h with ⟨e1, e2, e3⟩ | hb
  · obtain ⟨a1, v1, b1⟩ := o1; obtain ⟨a2, v2, b2⟩ := o2
    simp only at e1 e2 e3; subst e1; subst e2
    exact Or.inl ⟨a1, v1, b1, b2, rfl, rfl, e3⟩
  · exact Or.inr hb

theorem tw_pvArr {cfg : Cfg} {f L' : Nat} (hE : TwE (Q := Q) (Bad := Bad) cfg f) (r1 r2 : Code × St)
    (h : R2 Q Bad r1 r2) : R3 Q Bad (pvArr cfg f L' r1) (pvArr cfg f L' r2) := by
  rcases r2_cases h with ⟨c, b1, b2, rfl, rfl, hq⟩ | hb
  · cases c <;> try exact Or.inl ⟨rfl, rfl, hq⟩
    rcases T.cur hq with ⟨hc, hq2⟩ | hb
    · simp only [pvArr]
      rw [← hc]
      split
      · exact Or.inl ⟨rfl, rfl, T.mv hq2⟩
      · exact hE _ _ _ _ hq2
    · right
      simp only [pvArr]
      split
      · exact T.bad.mv hb
      · exact (pres_mutual T.bad f).2.1 _ _ _ hb
  · exact Or.inr (pres_pvArr T.bad r1 hb)

theorem tw_pvObj {cfg : Cfg} {f L' : Nat} (hM : TwM (Q := Q) (Bad := Bad) cfg f) (r1 r2 : Code × St)
    (h : R2 Q Bad r1 r2) : R3 Q Bad (pvObj cfg f L' r1) (pvObj cfg f L' r2) := by
  rcases r2_cases h with ⟨c, b1, b2, rfl, rfl, hq⟩ | hb
  · cases c <;> try exact Or.inl ⟨rfl, rfl, hq⟩
    rcases T.cur hq with ⟨hc, hq2⟩ | hb
    · simp only [pvObj]
      rw [← hc]
      split
      · exact Or.inl ⟨rfl, rfl, T.mv hq2⟩
      · exact hM _ _ _ _ hq2
    · right
      simp only [pvObj]
      split
      · exact T.bad.mv hb
      · exact (pres_mutual T.bad f).2.2 _ _ _ hb
  · exact Or.inr (pres_pvObj T.bad r1 hb)

omit T in
theorem tw_pvStr (r1 r2 : Code × List Byte × St) (h : R3 Q Bad r1 r2) : R3 Q Bad (pvStr r1) (pvStr r2) := by
  rcases r3_cases h with ⟨c, v, b1, b2, rfl, rfl, hq⟩ | hb
  · cases c <;> exact Or.inl ⟨rfl, rfl, hq⟩
  · exact Or.inr (pres_pvStr r1 hb)

theorem tw_kw {v : Val} (ks : List Byte) (s1 s2 : St) (h : Q s1 s2) :
    R3 Q Bad (match skipKeyword ks s1 with | (e, s) => (e, v, s)) (match skipKeyword ks s2 with | (e, s) => (e, v, s)) := by
  rcases r2_cases (tw_skipKeyword T ks s1 s2 h) with ⟨c, b1, b2, e1, e2, hq⟩ | hb
  · rw [e1, e2]; exact Or.inl ⟨rfl, rfl, hq⟩
  · right
    generalize skipKeyword ks s1 = o at hb ⊢
    obtain ⟨c, b⟩ := o
    exact hb

theorem tw_pvTok {cfg : Cfg} {f L : Nat} (hE : TwE (Q := Q) (Bad := Bad) cfg f) (hM : TwM (Q := Q) (Bad := Bad) cfg f)
    (s1 s2 : St) (h : Q s1 s2) : R3 Q Bad (pvTok cfg f L s1) (pvTok cfg f L s2) := by
  rcases T.cur h with ⟨hc, hq⟩ | hb
  · simp only [pvTok]
    rw [← hc]
    split
    · cases L with
      | zero => exact Or.inl ⟨rfl, rfl, hq⟩
      | succ L' => exact tw_pvArr T hE _ _ (tw_skipSpaces T _ _ _ (T.mv hq))
    · split
      · cases L with
        | zero => exact Or.inl ⟨rfl, rfl, hq⟩
        | succ L' => exact tw_pvObj T hM _ _ (tw_skipSpaces T _ _ _ (T.mv hq))
      · split
        · exact tw_pvStr _ _ (tw_parseQuoted T _ _ _ _ _ (T.mv hq))
        · split
          · exact tw_kw T _ _ _ hq
          · split
            · exact tw_kw T _ _ _ hq
            · split
              · exact tw_kw T _ _ _ hq
              · exact tw_parseNumeric T _ _ hq
  · right
    have := pres_pvTok (cfg := cfg) (f := f) (L := L) T.bad _ hb
    rwa [pvTok_cur] at this

theorem tw_pvK {cfg : Cfg} {f L : Nat} (hE : TwE (Q := Q) (Bad := Bad) cfg f) (hM : TwM (Q := Q) (Bad := Bad) cfg f)
    (r1 r2 : Code × St) (h : R2 Q Bad r1 r2) : R3 Q Bad (pvK cfg f L r1) (pvK cfg f L r2) := by
  rcases r2_cases h with ⟨c, b1, b2, rfl, rfl, hq⟩ | hb
  · cases c <;> try exact Or.inl ⟨rfl, rfl, hq⟩
    exact tw_pvTok T hE hM _ _ hq
  · exact Or.inr (pres_pvK T.bad r1 hb)

theorem tw_peK2 {cfg : Cfg} {f L : Nat} {acc : List Val} (hE : TwE (Q := Q) (Bad := Bad) cfg f) (r1 r2 : Code × St)
    (h : R2 Q Bad r1 r2) : R3 Q Bad (peK2 cfg f L acc r1) (peK2 cfg f L acc r2) := by
  rcases r2_cases h with ⟨c, b1, b2, rfl, rfl, hq⟩ | hb
  · cases c <;> try exact Or.inl ⟨rfl, rfl, hq⟩
    rcases T.cur hq with ⟨hc, hq2⟩ | hb
    · simp only [peK2]
      rw [← hc]
      split
      · exact Or.inl ⟨rfl, rfl, T.mv hq2⟩
      · split
        · exact hE _ _ _ _ (T.mv hq2)
        · exact Or.inl ⟨rfl, rfl, hq2⟩
    · right
      simp only [peK2]
      split
      · exact T.bad.mv hb
      · split
        · exact (pres_mutual T.bad f).2.1 _ _ _ (T.bad.mv hb)
        · exact hb
  · exact Or.inr (pres_peK2 T.bad r1 hb)

theorem tw_peK1 {cfg : Cfg} {f L : Nat} {acc : List Val} (hE : TwE (Q := Q) (Bad := Bad) cfg f) (r1 r2 : Code × Val × St)
    (h : R3 Q Bad r1 r2) : R3 Q Bad (peK1 cfg f L acc r1) (peK1 cfg f L acc r2) := by
  rcases r3_cases h with ⟨c, v, b1, b2, rfl, rfl, hq⟩ | hb
  · cases c <;> try exact Or.inl ⟨rfl, rfl, hq⟩
    exact tw_peK2 T hE _ _ (tw_skipSpaces T _ _ _ hq)
  · exact Or.inr (pres_peK1 T.bad r1 hb)

theorem tw_pmKey {cfg : Cfg} {f : Nat} (s1 s2 : St) (h : Q s1 s2) : R3 Q Bad (pmKey cfg f s1) (pmKey cfg f s2) := by
  rcases T.cur h with ⟨hc, hq⟩ | hb
  · simp only [pmKey]
    rw [← hc]
    split
    · exact tw_parseQuoted T _ _ _ _ _ (T.mv hq)
    · split
      · rcases r2_cases (tw_parseUnquoted T (f+1) [] _ _ hq) with ⟨k, b1, b2, e1, e2, hq2⟩ | hb
        · rw [e1, e2]; exact Or.inl ⟨rfl, rfl, hq2⟩
        · exact Or.inr hb
      · exact Or.inl ⟨rfl, rfl, hq⟩
  · right
    have := pres_pmKey (cfg := cfg) (f := f) T.bad _ hb
    rwa [pmKey_cur] at this

theorem tw_pmK4 {cfg : Cfg} {f L : Nat} {ms : List (List Byte × Val)} (hM : TwM (Q := Q) (Bad := Bad) cfg f)
    (r1 r2 : Code × St) (h : R2 Q Bad r1 r2) : R3 Q Bad (pmK4 cfg f L ms r1) (pmK4 cfg f L ms r2) := by
  rcases r2_cases h with ⟨c, b1, b2, rfl, rfl, hq⟩ | hb
  · cases c <;> try exact Or.inl ⟨rfl, rfl, hq⟩
    exact hM _ _ _ _ hq
  · exact Or.inr (pres_pmK4 T.bad r1 hb)

theorem tw_pmK3 {cfg : Cfg} {f L : Nat} {ms : List (List Byte × Val)} (hM : TwM (Q := Q) (Bad := Bad) cfg f)
    (r1 r2 : Code × St) (h : R2 Q Bad r1 r2) : R3 Q Bad (pmK3 cfg f L ms r1) (pmK3 cfg f L ms r2) := by
  rcases r2_cases h with ⟨c, b1, b2, rfl, rfl, hq⟩ | hb
  · cases c <;> try exact Or.inl ⟨rfl, rfl, hq⟩
    rcases T.cur hq with ⟨hc, hq2⟩ | hb
    · simp only [pmK3]
      rw [← hc]
      split
      · exact Or.inl ⟨rfl, rfl, T.mv hq2⟩
      · split
        · exact tw_pmK4 T hM _ _ (tw_skipSpaces T _ _ _ (T.mv hq2))
        · exact Or.inl ⟨rfl, rfl, hq2⟩
    · right
      simp only [pmK3]
      split
      · exact T.bad.mv hb
      · split
        · exact pres_pmK4 T.bad _ (pres_skipSpaces T.bad _ _ (T.bad.mv hb))
        · exact hb
  · exact Or.inr (pres_pmK3 T.bad r1 hb)

theorem tw_pmK2 {cfg : Cfg} {f L : Nat} {ms : List (List Byte × Val)} {key : List Byte}
    (hM : TwM (Q := Q) (Bad := Bad) cfg f) (r1 r2 : Code × Val × St) (h : R3 Q Bad r1 r2) :
    R3 Q Bad (pmK2 cfg f L ms key r1) (pmK2 cfg f L ms key r2) := by
  rcases r3_cases h with ⟨c, v, b1, b2, rfl, rfl, hq⟩ | hb
  · cases c <;> try exact Or.inl ⟨rfl, rfl, hq⟩
    exact tw_pmK3 T hM _ _ (tw_skipSpaces T _ _ _ hq)
  · exact Or.inr (pres_pmK2 T.bad r1 hb)

theorem tw_pmK1 {cfg : Cfg} {f L : Nat} {ms : List (List Byte × Val)} {key : List Byte}
    (hV : TwV (Q := Q) (Bad := Bad) cfg f) (hM : TwM (Q := Q) (Bad := Bad) cfg f) (r1 r2 : Code × St)
    (h : R2 Q Bad r1 r2) : R3 Q Bad (pmK1 cfg f L ms key r1) (pmK1 cfg f L ms key r2) := by
  rcases r2_cases h with ⟨c, b1, b2, rfl, rfl, hq⟩ | hb
  · cases c <;> try exact Or.inl ⟨rfl, rfl, hq⟩
    rcases T.cur hq with ⟨hc, hq2⟩ | hb
    · simp only [pmK1]
      rw [← hc]
      split
      · exact Or.inl ⟨rfl, rfl, hq2⟩
      · exact tw_pmK2 T hM _ _ (hV _ _ _ (T.mv hq2))
    · right
      simp only [pmK1]
      split
      · exact hb
      · exact pres_pmK2 T.bad _ ((pres_mutual T.bad f).1 _ _ (T.bad.mv hb))
  · exact Or.inr (pres_pmK1 T.bad r1 hb)

theorem tw_pmK0 {cfg : Cfg} {f L : Nat} {ms : List (List Byte × Val)}
    (hV : TwV (Q := Q) (Bad := Bad) cfg f) (hM : TwM (Q := Q) (Bad := Bad) cfg f) (r1 r2 : Code × List Byte × St)
    (h : R3 Q Bad r1 r2) : R3 Q Bad (pmK0 cfg f L ms r1) (pmK0 cfg f L ms r2) := by
  rcases r3_cases h with ⟨c, k, b1, b2, rfl, rfl, hq⟩ | hb
  · cases c <;> try exact Or.inl ⟨rfl, rfl, hq⟩
    exact tw_pmK1 T hV hM _ _ (tw_skipSpaces T _ _ _ hq)
  · exact Or.inr (pres_pmK0 T.bad r1 hb)

/-- **generic two-run simulation** of the three mutually recursive routines -/
theorem tw_mutual {cfg : Cfg} : ∀ f, TwV (Q := Q) (Bad := Bad) cfg f ∧ TwE (Q := Q) (Bad := Bad) cfg f ∧
    TwM (Q := Q) (Bad := Bad) cfg f := by
  intro f
  induction f with
  | zero =>
    refine ⟨?_, ?_, ?_⟩
    · intro L s1 s2 h; exact Or.inl ⟨rfl, rfl, h⟩
    · intro L s1 s2 acc h; exact Or.inl ⟨rfl, rfl, h⟩
    · intro L s1 s2 ms h; exact Or.inl ⟨rfl, rfl, h⟩
  | succ f ih =>
    obtain ⟨ihV, ihE, ihM⟩ := ih
    refine ⟨?_, ?_, ?_⟩
    · intro L s1 s2 h
      rw [parseVariant_succ, parseVariant_succ]
      exact tw_pvK T ihE ihM _ _ (tw_skipSpaces T _ _ _ h)
    · intro L s1 s2 acc h
      rw [parseElems_succ, parseElems_succ]
      exact tw_peK1 T ihE _ _ (ihV _ _ _ h)
    · intro L s1 s2 ms h
      rw [parseMembers_succ, parseMembers_succ]
      exact tw_pmK0 T ihV ihM _ _ (tw_pmKey T _ _ h)

end
end JD
