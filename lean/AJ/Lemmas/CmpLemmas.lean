/- Helper lemmas for C18 (comparison operators): AJ/Model/Cmp.lean -/
import AJ.Model.Cmp
namespace Cmp
open _root_.SF JD

/-! ## CR -/
theorem CR.reverse_reverse (r : CR) : r.reverse.reverse = r := by cases r <;> rfl
theorem CR.reverse_eq_equal (r : CR) : r.reverse = .equal ↔ r = .equal := by cases r <;> decide
theorem CR.reverse_eq_differ (r : CR) : r.reverse = .differ ↔ r = .differ := by cases r <;> decide

/-! ## softfloat order: `lt` is asymmetric (every bit pattern, NaN and infinities included) -/

theorem sf_lt_asymm (f : Fmt) (a c : Nat) : SF.lt f a c = true → SF.lt f c a = false := by
  unfold SF.lt
  generalize decode f a = x
  generalize decode f c = y
  cases x <;> cases y <;> simp only []
  case fin.fin n1 m1 e1 n2 m2 e2 =>
    rw [Int.min_comm e2 e1]
    generalize ((if n1 = true then -1 else 1) * ((m1 * 2 ^ (e1 - min e1 e2).toNat : Nat) : Int)) = p
    generalize ((if n2 = true then -1 else 1) * ((m2 * 2 ^ (e2 - min e1 e2).toNat : Nat) : Int)) = q
    simp only [decide_eq_true_eq, decide_eq_false_iff_not]; omega
  case inf.inf n1 n2 => cases n1 <;> cases n2 <;> decide
  case inf.fin n1 n2 _ _ => cases n1 <;> decide
  case fin.inf _ _ _ n2 => cases n2 <;> decide
  all_goals (intro h; trivial)

/-! ## arithmeticCompare -/
/-- the double branch of `arith` -/
def dcmp (a c : Nat) : CR :=
  if lt b64 a c then .less else if gt b64 a c then .greater
  else if isNaN b64 a || isNaN b64 c then .differ else .equal

theorem dcmp_reverse (a c : Nat) : dcmp c a = (dcmp a c).reverse := by
  unfold dcmp SF.gt
  cases h1 : SF.lt b64 a c <;> cases h2 : SF.lt b64 c a
  · simp only [Bool.false_eq_true, if_false, Bool.or_comm]; split <;> rfl
  · simp [CR.reverse]
  · simp [CR.reverse]
  · rw [sf_lt_asymm _ _ _ h1] at h2; cases h2

theorem arith_d_left (x : Nat) (r : NumV) : arith (.d x) r = dcmp x (toDouble r) := by
  cases r <;> rfl
theorem arith_d_right (l : NumV) (x : Nat) : arith l (.d x) = dcmp (toDouble l) x := by
  cases l <;> rfl

theorem arith_reverse (l r : NumV) : arith r l = (arith l r).reverse := by
  cases l <;> cases r
  all_goals first
    | (rw [arith_d_left, arith_d_right]; exact dcmp_reverse _ _)
    | (rw [arith_d_right, arith_d_left]; exact dcmp_reverse _ _)
    | skip
  all_goals simp only [arith, ofOrd, decide_eq_true_eq]
  case b.b x y => cases x <;> cases y <;> rfl
  case i.b x y | u.b x y => cases y <;> simp only [if_true, Bool.false_eq_true, if_false] <;> repeat' split
                            all_goals first | rfl | (exfalso; omega)
  case b.i y x | b.u y x => cases y <;> simp only [if_true, Bool.false_eq_true, if_false] <;> repeat' split
                            all_goals first | rfl | (exfalso; omega)
  all_goals repeat' split
  all_goals first | rfl | (exfalso; omega)

/-! ## stringCompare / rawCompare -/


theorem schar_inj (a c : Byte) (h : schar a = schar c) : a = c := by
  unfold schar at h
  have ha := a.toNat_lt; have hc := c.toNat_lt
  apply UInt8.toNat_inj.mp
  split at h <;> split at h <;> rename_i h1 h2
  all_goals (simp only [ge_iff_le, UInt8.le_iff_toNat_le, Nat.not_le] at h1 h2; try change (128 ≤ _) at h1; try change (128 ≤ _) at h2)
  all_goals omega

theorem stringCompare_antisym (a b : List Byte) : stringCompare b a = - stringCompare a b := by
  induction a generalizing b with
  | nil => cases b <;> simp [stringCompare]
  | cons x xs ih =>
    cases b with
    | nil => simp [stringCompare]
    | cons y ys =>
      simp only [stringCompare]
      by_cases h : x = y
      · subst h; simp [ih]
      · have h' : ¬ y = x := fun e => h e.symm
        simp only [bne_iff_ne, ne_eq, h, h', not_false_eq_true, if_true]; omega

theorem stringCompare_eq_zero (a b : List Byte) : stringCompare a b = 0 ↔ a = b := by
  induction a generalizing b with
  | nil => cases b <;> simp [stringCompare]
  | cons x xs ih =>
    cases b with
    | nil => simp [stringCompare]
    | cons y ys =>
      simp only [stringCompare]
      by_cases h : x = y
      · subst h; simp [ih]
      · simp only [bne_iff_ne, ne_eq, h, not_false_eq_true, if_true, List.cons.injEq, false_and, iff_false]
        intro e; exact h (schar_inj _ _ (by omega))

theorem rawCompare_antisym (a b : List Byte) : rawCompare b a = - rawCompare a b := by
  induction a generalizing b with
  | nil => cases b <;> simp [rawCompare]
  | cons x xs ih =>
    cases b with
    | nil => simp [rawCompare]
    | cons y ys =>
      simp only [rawCompare]
      by_cases h : x = y
      · subst h; simp [ih]
      · have h' : ¬ y = x := fun e => h e.symm
        simp only [bne_iff_ne, ne_eq, h, h', not_false_eq_true, if_true]; omega

theorem rawCompare_eq_zero (a b : List Byte) : rawCompare a b = 0 ↔ a = b := by
  induction a generalizing b with
  | nil => cases b <;> simp [rawCompare]
  | cons x xs ih =>
    cases b with
    | nil => simp [rawCompare]
    | cons y ys =>
      simp only [rawCompare]
      by_cases h : x = y
      · subst h; simp [ih]
      · simp only [bne_iff_ne, ne_eq, h, not_false_eq_true, if_true, List.cons.injEq, false_and, iff_false]
        intro e; exact h (UInt8.toNat_inj.mp (by omega))

/-! ## generic forms of the array / object loops, structural form of compareF -/


abbrev Members := List (List Byte × Val)

def arrEqG (f : Val → Val → CR) : List Val → List Val → Bool
  | [], [] => true
  | [], _ :: _ => false
  | _ :: _, [] => false
  | a :: as, c :: cs => if f a c != .equal then false else arrEqG f as cs

def objEqG (f : Val → Val → CR) (n : Nat) : Members → Members → Bool
  | [], rhs => n == rhs.length
  | (k, v) :: rest, rhs =>
    match lookup rhs k with
    | none => false
    | some rv => if f v rv != .equal then false else objEqG f n rest rhs

theorem arrEqF_eq (fuel : Nat) (la lb : List Val) : arrEqF fuel la lb = arrEqG (compareF fuel) la lb := by
  induction la generalizing lb with
  | nil => cases lb <;> simp [arrEqF, arrEqG]
  | cons x xs ih => cases lb with
    | nil => simp [arrEqF, arrEqG]
    | cons y ys => rw [arrEqF, arrEqG, ih]

theorem objEqF_eq (fuel : Nat) (whole rest rhs : Members) :
    objEqF fuel whole rest rhs = objEqG (compareF fuel) whole.length rest rhs := by
  induction rest with
  | nil => simp [objEqF, objEqG]
  | cons p ps ih => obtain ⟨k, v⟩ := p; rw [objEqF, objEqG, ih]; rfl

/-- structurally recursive (kernel-reducible) form of `compareF` -/
def compareS : Nat → Val → Val → CR
  | 0, _, _ => .differ
  | fuel+1, a, b =>
    match a with
    | .arr la => (match b with | .arr lb => if arrEqG (compareS fuel) la lb then .equal else .differ | _ => .differ)
    | .obj ma => (match b with | .obj mb => if objEqG (compareS fuel) mb.length mb ma then .equal else .differ | _ => .differ)
    | .str sa =>
      (match b with
       | .str sb => let i := stringCompare sa sb; (if i < 0 then CR.greater else if i > 0 then .less else .equal).reverse
       | _ => .differ)
    | .raw ra =>
      (match b with
       | .raw rb => let n := rawCompare rb ra; (if n < 0 then CR.less else if n > 0 then .greater else .equal).reverse
       | _ => .differ)
    | .null => (match b with | .null => .equal | _ => .differ)
    | _ =>
      match numOf a, numOf b with
      | some x, some y => (arith y x).reverse
      | _, _ => .differ

theorem compareF_succ (fuel : Nat) (a b : Val) : compareF (fuel+1) a b =
    match a with
    | .arr la => (match b with | .arr lb => if arrEqG (compareF fuel) la lb then .equal else .differ | _ => .differ)
    | .obj ma => (match b with | .obj mb => if objEqG (compareF fuel) mb.length mb ma then .equal else .differ | _ => .differ)
    | .str sa =>
      (match b with
       | .str sb => let i := stringCompare sa sb; (if i < 0 then CR.greater else if i > 0 then .less else .equal).reverse
       | _ => .differ)
    | .raw ra =>
      (match b with
       | .raw rb => let n := rawCompare rb ra; (if n < 0 then CR.less else if n > 0 then .greater else .equal).reverse
       | _ => .differ)
    | .null => (match b with | .null => .equal | _ => .differ)
    | _ =>
      match numOf a, numOf b with
      | some x, some y => (arith y x).reverse
      | _, _ => .differ := by
  rw [compareF.eq_def]
  cases a <;> cases b <;> simp only [arrEqF_eq, objEqF_eq] <;> rfl

theorem compareF_eq_compareS (fuel : Nat) : compareF fuel = compareS fuel := by
  induction fuel with
  | zero => funext a b; rw [compareF, compareS]
  | succ n ih => funext a b; rw [compareF_succ, ih]; cases a <;> cases b <;> rfl


/-! ## lists: pigeonhole, lookup -/
theorem subset_of_nodup_length {α : Type} [DecidableEq α] (l1 l2 : List α)
    (hn : l1.Nodup) (hs : ∀ x ∈ l1, x ∈ l2) (hl : l2.length ≤ l1.length) : ∀ x ∈ l2, x ∈ l1 := by
  induction l1 generalizing l2 with
  | nil =>
    intro x hx
    cases l2 with
    | nil => cases hx
    | cons y ys => simp at hl
  | cons x t ih =>
    have hxt : x ∉ t := (List.nodup_cons.mp hn).1
    have htn : t.Nodup := (List.nodup_cons.mp hn).2
    have hx2 : x ∈ l2 := hs x (List.mem_cons_self)
    have hlen : (l2.erase x).length ≤ t.length := by
      rw [List.length_erase_of_mem hx2]; simp only [List.length_cons] at hl; omega
    have hsub : ∀ y ∈ t, y ∈ l2.erase x := by
      intro y hy
      have hne : y ≠ x := fun e => hxt (e ▸ hy)
      exact (List.mem_erase_of_ne hne).mpr (hs y (List.mem_cons_of_mem _ hy))
    have := ih (l2.erase x) htn hsub hlen
    intro y hy
    by_cases e : y = x
    · subst e; exact List.mem_cons_self
    · exact List.mem_cons_of_mem _ (this y ((List.mem_erase_of_ne e).mpr hy))

def keys (ms : Members) : List (List Byte) := ms.map (·.1)

theorem lookup_nil (k : List Byte) : lookup [] k = none := rfl
theorem lookup_cons (p : List Byte × Val) (ms : Members) (k : List Byte) :
    lookup (p :: ms) k = if p.1 = k then some p.2 else lookup ms k := by
  unfold lookup
  by_cases h : p.1 = k
  · simp [List.find?, h]
  · have hb : (p.1 == k) = false := by simp [h]
    simp [List.find?, hb, h]

theorem lookup_some_mem (ms : Members) (k : List Byte) (v : Val) (h : lookup ms k = some v) : (k, v) ∈ ms := by
  induction ms with
  | nil => cases h
  | cons p ps ih =>
    rw [lookup_cons] at h
    split at h
    · rename_i e; cases h; obtain ⟨a, b⟩ := p; cases e; exact List.mem_cons_self
    · exact List.mem_cons_of_mem _ (ih h)

theorem lookup_of_mem_nodup (ms : Members) (k : List Byte) (v : Val) (hn : (keys ms).Nodup) (h : (k, v) ∈ ms) :
    lookup ms k = some v := by
  induction ms with
  | nil => cases h
  | cons p ps ih =>
    rw [lookup_cons]
    simp only [keys, List.map_cons, List.nodup_cons] at hn
    rcases List.mem_cons.mp h with e | h'
    · subst e; simp
    · have : p.1 ≠ k := by
        intro e; apply hn.1; rw [e]; exact List.mem_map.mpr ⟨(k, v), h', rfl⟩
      simp only [this, if_false]; exact ih hn.2 h'

theorem mem_keys_iff (ms : Members) (k : List Byte) : k ∈ keys ms ↔ ∃ v, (k, v) ∈ ms := by
  simp only [keys, List.mem_map]
  constructor
  · rintro ⟨⟨a, b⟩, h, rfl⟩; exact ⟨b, h⟩
  · rintro ⟨v, h⟩; exact ⟨(k, v), h, rfl⟩

/-! ## characterisations of the loops -/
theorem arrEqG_iff (f : Val → Val → CR) (la lb : List Val) :
    arrEqG f la lb = true ↔ la.length = lb.length ∧ ∀ i (h1 : i < la.length) (h2 : i < lb.length), f la[i] lb[i] = .equal := by
  induction la generalizing lb with
  | nil => cases lb <;> simp [arrEqG]
  | cons x xs ih =>
    cases lb with
    | nil => simp [arrEqG]
    | cons y ys =>
      simp only [arrEqG, bne_iff_ne, ne_eq, ite_not, List.length_cons, Nat.add_right_cancel_iff]
      constructor
      · intro h
        split at h
        · rename_i e
          obtain ⟨hl, hi⟩ := (ih ys).mp h
          refine ⟨hl, ?_⟩
          intro i h1 h2
          cases i with
          | zero => exact e
          | succ j => exact hi j (by simpa using h1) (by simpa using h2)
        · cases h
      · rintro ⟨hl, hi⟩
        have e := hi 0 (by simp) (by simp)
        simp only [List.getElem_cons_zero] at e
        simp only [e, if_true]
        exact (ih ys).mpr ⟨hl, fun i h1 h2 => by
          have := hi (i+1) (by simpa using h1) (by simpa using h2)
          simpa only [List.getElem_cons_succ] using this⟩

theorem objEqG_iff (f : Val → Val → CR) (n : Nat) (rest rhs : Members) :
    objEqG f n rest rhs = true ↔ n = rhs.length ∧ ∀ p ∈ rest, ∃ rv, lookup rhs p.1 = some rv ∧ f p.2 rv = .equal := by
  induction rest with
  | nil => simp [objEqG]
  | cons p ps ih =>
    obtain ⟨k, v⟩ := p
    simp only [objEqG, List.mem_cons, forall_eq_or_imp]
    cases hl : lookup rhs k with
    | none => simp
    | some rv =>
      simp only [bne_iff_ne, ne_eq, ite_not, Option.some.injEq, exists_eq_left']
      by_cases e : f v rv = .equal
      · simp only [e, if_true, ih, true_and]
      · simp [e]

/-! ## swap symmetry of the loops -/
theorem arrEqG_symm (f g : Val → Val → CR) (la lb : List Val)
    (h : ∀ x ∈ la, ∀ y ∈ lb, (g y x = .equal ↔ f x y = .equal)) : arrEqG g lb la = arrEqG f la lb := by
  induction la generalizing lb with
  | nil => cases lb <;> rfl
  | cons x xs ih =>
    cases lb with
    | nil => rfl
    | cons y ys =>
      simp only [arrEqG]
      have e := h x List.mem_cons_self y List.mem_cons_self
      rw [ih ys (fun x' hx y' hy => h x' (List.mem_cons_of_mem _ hx) y' (List.mem_cons_of_mem _ hy))]
      by_cases hf : f x y = .equal
      · simp [hf, e.mpr hf]
      · have hg : ¬ g y x = .equal := fun c => hf (e.mp c)
        simp [hf, hg]

/-- the hard direction: with duplicate-free keys on both sides, "same count and every member of `mb` is matched in `ma`"
    implies the converse (pigeonhole on the keys) -/
theorem objEqG_swap (f g : Val → Val → CR) (ma mb : Members)
    (hna : (keys ma).Nodup) (hnb : (keys mb).Nodup)
    (h : ∀ p ∈ mb, ∀ q ∈ ma, f p.2 q.2 = .equal → g q.2 p.2 = .equal)
    (he : objEqG f mb.length mb ma = true) : objEqG g ma.length ma mb = true := by
  rw [objEqG_iff] at he ⊢
  obtain ⟨hl, hm⟩ := he
  refine ⟨hl.symm, ?_⟩
  -- keys mb ⊆ keys ma
  have hsub : ∀ k ∈ keys mb, k ∈ keys ma := by
    intro k hk
    obtain ⟨v, hv⟩ := (mem_keys_iff mb k).mp hk
    obtain ⟨rv, hr, _⟩ := hm (k, v) hv
    exact (mem_keys_iff ma k).mpr ⟨rv, lookup_some_mem ma k rv hr⟩
  have hsup := subset_of_nodup_length (keys mb) (keys ma) hnb hsub (by simp [keys, hl])
  intro q hq
  obtain ⟨k, v⟩ := q
  have hk : k ∈ keys mb := hsup k ((mem_keys_iff ma k).mpr ⟨v, hq⟩)
  obtain ⟨w, hw⟩ := (mem_keys_iff mb k).mp hk
  refine ⟨w, lookup_of_mem_nodup mb k w hnb hw, ?_⟩
  obtain ⟨rv, hr, hf⟩ := hm (k, w) hw
  have : rv = v := by
    have := lookup_of_mem_nodup ma k v hna hq
    simp only [] at hr; rw [this] at hr; cases hr; rfl
  subst this
  exact h (k, w) hw (k, rv) hq hf

theorem objEqG_symm (f : Val → Val → CR) (ma mb : Members)
    (hna : (keys ma).Nodup) (hnb : (keys mb).Nodup)
    (h : ∀ p ∈ mb, ∀ q ∈ ma, (f p.2 q.2 = .equal ↔ f q.2 p.2 = .equal)) :
    objEqG f ma.length ma mb = objEqG f mb.length mb ma := by
  apply Bool.eq_iff_iff.mpr
  constructor
  · exact objEqG_swap f f mb ma hnb hna (fun p hp q hq => (h q hq p hp).mpr)
  · exact objEqG_swap f f ma mb hna hnb (fun p hp q hq => (h p hp q hq).mp)

/-! ## duplicate-free keys, everywhere in a value -/
def NoDupKeys : Val → Prop
  | .arr xs => ndL xs
  | .obj ms => (keys ms).Nodup ∧ ndM ms
  | _ => True
where
  ndL : List Val → Prop
    | [] => True
    | x :: r => NoDupKeys x ∧ ndL r
  ndM : Members → Prop
    | [] => True
    | (_, x) :: r => NoDupKeys x ∧ ndM r

theorem ndL_mem (xs : List Val) (h : NoDupKeys.ndL xs) : ∀ x ∈ xs, NoDupKeys x := by
  induction xs with
  | nil => intro x hx; cases hx
  | cons y ys ih =>
    intro x hx
    simp only [NoDupKeys.ndL] at h
    rcases List.mem_cons.mp hx with e | hx'
    · exact e ▸ h.1
    · exact ih h.2 x hx'

theorem ndM_mem (ms : Members) (h : NoDupKeys.ndM ms) : ∀ p ∈ ms, NoDupKeys p.2 := by
  induction ms with
  | nil => intro x hx; cases hx
  | cons y ys ih =>
    intro x hx
    obtain ⟨k, v⟩ := y
    simp only [NoDupKeys.ndM] at h
    rcases List.mem_cons.mp hx with e | hx'
    · exact e ▸ h.1
    · exact ih h.2 x hx'

/-- swap symmetry at every fuel -/
theorem compareF_reverse (fuel : Nat) : ∀ a b, NoDupKeys a → NoDupKeys b → compareF fuel b a = (compareF fuel a b).reverse := by
  induction fuel with
  | zero => intro a b _ _; rw [compareF, compareF]; rfl
  | succ n ih =>
    intro a b ha hb
    have sym : ∀ x y, NoDupKeys x → NoDupKeys y → (compareF n y x = .equal ↔ compareF n x y = .equal) := by
      intro x y hx hy; rw [ih x y hx hy, CR.reverse_eq_equal]
    rw [compareF_succ, compareF_succ]
    rcases a with _ | _ | (_|_|_|_) | sa | ra | la | ma <;> rcases b with _ | _ | (_|_|_|_) | sb | rb | lb | mb <;> simp only [numOf]
    case arr.arr =>
      simp only [NoDupKeys] at ha hb
      rw [arrEqG_symm (compareF n) (compareF n) la lb
        (fun x hx y hy => sym x y (ndL_mem la ha x hx) (ndL_mem lb hb y hy))]
      split <;> rfl
    case obj.obj =>
      simp only [NoDupKeys] at ha hb
      rw [objEqG_symm (compareF n) ma mb ha.1 hb.1
        (fun p hp q hq => sym q.2 p.2 (ndM_mem ma ha.2 q hq) (ndM_mem mb hb.2 p hp))]
      split <;> rfl
    case str.str =>
      rw [stringCompare_antisym sa sb]
      generalize stringCompare sa sb = i
      repeat' split
      all_goals first | rfl | (exfalso; omega)
    case raw.raw =>
      rw [rawCompare_antisym rb ra]
      generalize rawCompare rb ra = i
      repeat' split
      all_goals first | rfl | (exfalso; omega)
    all_goals first | rfl | exact congrArg CR.reverse (arith_reverse _ _)

/-! ## fuel stability -/
theorem arrEqG_congr (f g : Val → Val → CR) (la lb : List Val)
    (h : ∀ x ∈ la, ∀ y ∈ lb, f x y = g x y) : arrEqG f la lb = arrEqG g la lb := by
  induction la generalizing lb with
  | nil => cases lb <;> rfl
  | cons x xs ih =>
    cases lb with
    | nil => rfl
    | cons y ys =>
      simp only [arrEqG]
      rw [h x List.mem_cons_self y List.mem_cons_self,
        ih ys (fun x' hx y' hy => h x' (List.mem_cons_of_mem _ hx) y' (List.mem_cons_of_mem _ hy))]

theorem objEqG_congr (f g : Val → Val → CR) (n : Nat) (rest rhs : Members)
    (h : ∀ p ∈ rest, ∀ q ∈ rhs, f p.2 q.2 = g p.2 q.2) : objEqG f n rest rhs = objEqG g n rest rhs := by
  induction rest with
  | nil => rfl
  | cons p ps ih =>
    obtain ⟨k, v⟩ := p
    simp only [objEqG]
    rw [ih (fun p hp q hq => h p (List.mem_cons_of_mem _ hp) q hq)]
    cases hl : lookup rhs k with
    | none => rfl
    | some rv =>
      simp only []
      rw [h (k, v) List.mem_cons_self (k, rv) (lookup_some_mem rhs k rv hl)]

theorem depthL_mem (xs : List Val) : ∀ x ∈ xs, depth x ≤ depth.depthL xs := by
  induction xs with
  | nil => intro x hx; cases hx
  | cons y ys ih =>
    intro x hx
    simp only [depth.depthL]
    rcases List.mem_cons.mp hx with e | hx'
    · subst e; omega
    · have := ih x hx'; omega

theorem depthM_mem (ms : Members) : ∀ p ∈ ms, depth p.2 ≤ depth.depthM ms := by
  induction ms with
  | nil => intro x hx; cases hx
  | cons y ys ih =>
    intro x hx
    obtain ⟨k, v⟩ := y
    simp only [depth.depthM]
    rcases List.mem_cons.mp hx with e | hx'
    · subst e; simp only []; omega
    · have := ih x hx'; omega

theorem compareF_stable (f1 : Nat) : ∀ f2 a b, depth a + depth b + 1 ≤ f1 → depth a + depth b + 1 ≤ f2 →
    compareF f1 a b = compareF f2 a b := by
  induction f1 with
  | zero => intro f2 a b h; omega
  | succ n ih =>
    intro f2 a b h1 h2
    cases f2 with
    | zero => omega
    | succ m =>
      rw [compareF_succ, compareF_succ]
      cases a <;> cases b <;> simp only []
      case arr.arr la lb =>
        simp only [depth] at h1 h2
        rw [arrEqG_congr (compareF n) (compareF m) la lb (fun x hx y hy => by
          have := depthL_mem la x hx; have := depthL_mem lb y hy
          exact ih m x y (by omega) (by omega))]
      case obj.obj ma mb =>
        simp only [depth] at h1 h2
        rw [objEqG_congr (compareF n) (compareF m) mb.length mb ma (fun x hx y hy => by
          have := depthM_mem mb x hx; have := depthM_mem ma y hy
          exact ih m x.2 y.2 (by omega) (by omega))]

theorem compareF_eq_compare (f : Nat) (a b : Val) (h : depth a + depth b + 1 ≤ f) : compareF f a b = compare a b :=
  compareF_stable f _ a b h (by omega)

/-! ## NaN -/
theorem lt_nan_left (f : Fmt) (a c : Nat) (h : isNaN f a = true) : SF.lt f a c = false := by
  unfold isNaN at h; unfold SF.lt
  have : decode f a = .nan := by simpa using h
  rw [this]
theorem lt_nan_right (f : Fmt) (a c : Nat) (h : isNaN f c = true) : SF.lt f a c = false := by
  unfold isNaN at h; unfold SF.lt
  have : decode f c = .nan := by simpa using h
  rw [this]; cases decode f a <;> rfl

theorem dcmp_nan (a c : Nat) (h : isNaN b64 a = true ∨ isNaN b64 c = true) : dcmp a c = .differ := by
  unfold dcmp SF.gt
  rcases h with h | h
  · rw [lt_nan_left _ a c h, lt_nan_right _ c a h, h]; rfl
  · rw [lt_nan_right _ a c h, lt_nan_left _ c a h, h, Bool.or_true]; rfl

theorem dcmp_equal_not_nan (a c : Nat) (h : dcmp a c = .equal) : isNaN b64 a = false ∧ isNaN b64 c = false := by
  unfold dcmp at h
  split at h; · cases h
  split at h; · cases h
  split at h; · cases h
  rename_i hn; simpa using hn

/-! ## integers -/
/-- the mathematical three-way comparison -/
def ordCR (x y : Int) : CR := if x < y then .less else if x = y then .equal else .greater

theorem arith_ii (x y : Int) : arith (.i x) (.i y) = ordCR x y := by
  simp only [arith, ofOrd, ordCR, decide_eq_true_eq]; repeat' split
  all_goals first | rfl | (exfalso; omega)
theorem arith_uu (x y : Nat) : arith (.u x) (.u y) = ordCR x y := by
  simp only [arith, ofOrd, ordCR, decide_eq_true_eq]; repeat' split
  all_goals first | rfl | (exfalso; omega)
theorem arith_iu (x : Int) (y : Nat) : arith (.i x) (.u y) = ordCR x y := by
  simp only [arith, ofOrd, ordCR, decide_eq_true_eq]; repeat' split
  all_goals first | rfl | (exfalso; omega)
theorem arith_ui (x : Nat) (y : Int) : arith (.u x) (.i y) = ordCR x y := by
  simp only [arith, ofOrd, ordCR, decide_eq_true_eq]; repeat' split
  all_goals first | rfl | (exfalso; omega)

/-! ## compare on strings, raw, null -/
theorem compare_eq_succ (a b : Val) : compare a b = compareF ((depth a + depth b + 1) + 1) a b := rfl

theorem compare_str (a b : List Byte) : compare (.str a) (.str b) =
    if stringCompare a b < 0 then .less else if stringCompare a b > 0 then .greater else .equal := by
  rw [compare_eq_succ, compareF_succ]; simp only []
  repeat' split
  all_goals first | rfl | (exfalso; omega)

theorem compare_raw (a b : List Byte) : compare (.raw a) (.raw b) =
    if rawCompare a b < 0 then .less else if rawCompare a b > 0 then .greater else .equal := by
  rw [compare_eq_succ, compareF_succ]; simp only []
  rw [rawCompare_antisym a b]
  repeat' split
  all_goals first | rfl | (exfalso; omega)

theorem compare_null (b : Val) : compare .null b = .equal ↔ b = .null := by
  rw [compare_eq_succ, compareF_succ]; cases b <;> simp

theorem compare_arr (xs ys : List Val) : compare (.arr xs) (.arr ys) = .equal ↔
    xs.length = ys.length ∧ ∀ i (h1 : i < xs.length) (h2 : i < ys.length), compare xs[i] ys[i] = .equal := by
  rw [compare_eq_succ, compareF_succ]; simp only []
  rw [arrEqG_congr _ compare xs ys (fun x hx y hy => by
    have := depthL_mem xs x hx; have := depthL_mem ys y hy
    have h1 : depth (.arr xs) = 1 + depth.depthL xs := by simp only [depth]
    have h2 : depth (.arr ys) = 1 + depth.depthL ys := by simp only [depth]
    exact compareF_eq_compare _ x y (by omega))]
  rw [← arrEqG_iff]
  split <;> simp [*]

theorem compare_arr_cases (xs ys : List Val) : compare (.arr xs) (.arr ys) = .equal ∨ compare (.arr xs) (.arr ys) = .differ := by
  rw [compare_eq_succ, compareF_succ]; simp only []; split <;> simp

theorem compare_obj (ma mb : Members) : compare (.obj ma) (.obj mb) = .equal ↔
    mb.length = ma.length ∧ ∀ p ∈ mb, ∃ rv, lookup ma p.1 = some rv ∧ compare p.2 rv = .equal := by
  rw [compare_eq_succ, compareF_succ]; simp only []
  rw [objEqG_congr _ compare mb.length mb ma (fun x hx y hy => by
    have := depthM_mem mb x hx; have := depthM_mem ma y hy
    have h1 : depth (.obj ma) = 1 + depth.depthM ma := by simp only [depth]
    have h2 : depth (.obj mb) = 1 + depth.depthM mb := by simp only [depth]
    exact compareF_eq_compare _ x.2 y.2 (by omega))]
  rw [← objEqG_iff]
  split <;> simp [*]

theorem compare_obj_cases (ma mb : Members) : compare (.obj ma) (.obj mb) = .equal ∨ compare (.obj ma) (.obj mb) = .differ := by
  rw [compare_eq_succ, compareF_succ]; simp only []; split <;> simp

/-! ## numbers at the level of values -/
theorem compare_num (a b : Val) (x y : NumV) (ha : numOf a = some x) (hb : numOf b = some y) :
    compare a b = arith x y := by
  rw [compare_eq_succ, compareF_succ]
  rcases a with _ | _ | (_|_|_|_) | sa | ra | la | ma
  all_goals try (simp only [numOf, reduceCtorEq] at ha; done)
  all_goals (simp only []; rw [ha, hb]; simp only []; rw [arith_reverse x y, CR.reverse_reverse])

/-! ## objects: the order of the members is irrelevant -/
theorem lookup_none_iff (ms : Members) (k : List Byte) : lookup ms k = none ↔ k ∉ keys ms := by
  induction ms with
  | nil => simp [lookup_nil, keys]
  | cons p ps ih =>
    rw [lookup_cons]
    by_cases h : p.1 = k
    · simp [h, keys]
    · have h' : ¬ k = p.1 := fun e => h e.symm
      simp only [h, if_false, ih, keys, List.map_cons, List.mem_cons, h', false_or]

theorem lookup_perm (ma ma' : Members) (hp : ma.Perm ma') (hn : (keys ma).Nodup) (k : List Byte) :
    lookup ma k = lookup ma' k := by
  have hn' : (keys ma').Nodup := (List.Perm.nodup_iff (List.Perm.map _ hp)).mp hn
  cases h : lookup ma k with
  | none =>
    symm; rw [lookup_none_iff] at h ⊢
    intro c; exact h ((List.Perm.mem_iff (List.Perm.map _ hp)).mpr c)
  | some v =>
    exact (lookup_of_mem_nodup ma' k v hn' ((List.Perm.mem_iff hp).mp (lookup_some_mem ma k v h))).symm

theorem compare_obj_perm_left (ma ma' mb : Members) (hp : ma.Perm ma') (hn : (keys ma).Nodup) :
    compare (.obj ma) (.obj mb) = compare (.obj ma') (.obj mb) := by
  have hiff : compare (.obj ma) (.obj mb) = .equal ↔ compare (.obj ma') (.obj mb) = .equal := by
    rw [compare_obj, compare_obj, hp.length_eq]
    simp only [lookup_perm ma ma' hp hn]
  rcases compare_obj_cases ma mb with h1 | h1 <;> rcases compare_obj_cases ma' mb with h2 | h2
  · rw [h1, h2]
  · rw [hiff.mp h1] at h2; cases h2
  · rw [hiff.mpr h2] at h1; cases h1
  · rw [h1, h2]

theorem compare_obj_perm_right (ma mb mb' : Members) (hp : mb.Perm mb') :
    compare (.obj ma) (.obj mb) = compare (.obj ma) (.obj mb') := by
  have hiff : compare (.obj ma) (.obj mb) = .equal ↔ compare (.obj ma) (.obj mb') = .equal := by
    rw [compare_obj, compare_obj, hp.length_eq]
    simp only [List.Perm.mem_iff hp]
  rcases compare_obj_cases ma mb with h1 | h1 <;> rcases compare_obj_cases ma mb' with h2 | h2
  · rw [h1, h2]
  · rw [hiff.mp h1] at h2; cases h2
  · rw [hiff.mpr h2] at h1; cases h1
  · rw [h1, h2]

end Cmp
