/- Helper lemmas for C13 (numeric conversions): well-formedness of stored numbers, integer sources,
   exact dyadic comparison on the softfloat, the conversion constants. -/
import AJ.Model.Conv
namespace Conv
open SF

/-- well-formed stored number: the payload fits the storage width -/
def Src.WF : Src → Prop
  | .u sb n => (sb = 32 ∨ sb = 64) ∧ n < 2 ^ sb
  | .i sb v => (sb = 32 ∨ sb = 64) ∧ -(2 ^ (sb - 1) : Int) ≤ v ∧ v < 2 ^ (sb - 1)
  | .f32 b => b < 2 ^ 32
  | .f64 b => b < 2 ^ 64

/-- mathematical value of an integer-stored number -/
def Src.ival : Src → Option Int
  | .u _ n => some n
  | .i _ v => some v
  | _ => none

theorem mem_allIT {t : IT} (h : t ∈ allIT) :
    t = i8 ∨ t = u8 ∨ t = i16 ∨ t = u16 ∨ t = i32 ∨ t = u32 ∨ t = i64 ∨ t = u64 := by
  simpa [allIT] using h

/-! ## integer sources -/

theorem canConvInt_int (s : Src) (t : IT) (z : Int) (hs : s.WF) (ht : t ∈ allIT) (hz : s.ival = some z) :
    canConvInt s t = true ↔ t.min ≤ z ∧ z ≤ t.max := by
  cases s with
  | u sb n =>
    simp only [Src.ival, Option.some.injEq] at hz; subst hz
    obtain ⟨hsb, hn⟩ := hs
    rcases mem_allIT ht with rfl|rfl|rfl|rfl|rfl|rfl|rfl|rfl <;> rcases hsb with rfl|rfl <;>
      simp [canConvInt, IT.min, IT.max, i8, u8, i16, u16, i32, u32, i64, u64] <;> omega
  | i sb v =>
    simp only [Src.ival, Option.some.injEq] at hz; subst hz
    obtain ⟨hsb, hv1, hv2⟩ := hs
    rcases mem_allIT ht with rfl|rfl|rfl|rfl|rfl|rfl|rfl|rfl <;> rcases hsb with rfl|rfl <;>
      simp [canConvInt, IT.min, IT.max, i8, u8, i16, u16, i32, u32, i64, u64] at hv1 hv2 ⊢ <;> omega
  | f32 b => simp [Src.ival] at hz
  | f64 b => simp [Src.ival] at hz

theorem castInt_int (s : Src) (t : IT) (z : Int) (ht : t ∈ allIT) (hz : s.ival = some z)
    (hr : t.min ≤ z ∧ z ≤ t.max) : castInt s t = some z := by
  obtain ⟨h1, h2⟩ := hr
  cases s with
  | u sb n =>
    simp only [Src.ival, Option.some.injEq] at hz; subst hz
    rcases mem_allIT ht with rfl|rfl|rfl|rfl|rfl|rfl|rfl|rfl <;>
      simp [castInt, IT.min, IT.max, i8, u8, i16, u16, i32, u32, i64, u64] at h1 h2 ⊢ <;> omega
  | i sb v =>
    simp only [Src.ival, Option.some.injEq] at hz; subst hz
    rcases mem_allIT ht with rfl|rfl|rfl|rfl|rfl|rfl|rfl|rfl <;>
      simp [castInt, IT.min, IT.max, i8, u8, i16, u16, i32, u32, i64, u64] at h1 h2 ⊢ <;> omega
  | f32 b => simp [Src.ival] at hz
  | f64 b => simp [Src.ival] at hz

end Conv

/-! ## exact dyadic semantics of the softfloat comparisons -/
namespace SF

/-- signed mantissa -/
def sgnm (neg : Bool) (m : Nat) : Int := if neg then -(m : Int) else m

/-- the dyadic `s·2^e` scaled by `2^(-E)` (an integer when `E ≤ e`) -/
def sv (E : Int) (s : Int) (e : Int) : Int := s * 2 ^ (e - E).toNat

theorem two_pow_pos' (k : Nat) : (0 : Int) < 2 ^ k := Int.pow_pos (by decide)

theorem sv_scale (E' E s e : Int) (h1 : E' ≤ E) (h2 : E ≤ e) :
    sv E' s e = sv E s e * 2 ^ (E - E').toNat := by
  unfold sv
  have : (e - E').toNat = (e - E).toNat + (E - E').toNat := by omega
  rw [this, Int.pow_add, Int.mul_assoc]

theorem sv_lt_iff (E' E a ea b eb : Int) (h1 : E' ≤ E) (h2 : E ≤ ea) (h3 : E ≤ eb) :
    sv E' a ea < sv E' b eb ↔ sv E a ea < sv E b eb := by
  rw [sv_scale E' E a ea h1 h2, sv_scale E' E b eb h1 h3]
  exact Int.mul_lt_mul_right (two_pow_pos' _)

theorem sv_le_iff (E' E a ea b eb : Int) (h1 : E' ≤ E) (h2 : E ≤ ea) (h3 : E ≤ eb) :
    sv E' a ea ≤ sv E' b eb ↔ sv E a ea ≤ sv E b eb := by
  rw [sv_scale E' E a ea h1 h2, sv_scale E' E b eb h1 h3]
  exact Int.mul_le_mul_right (two_pow_pos' _)

/-- exact comparison `s1·2^e1 ≤ s2·2^e2` of two dyadics, cross-multiplied to the common exponent `min e1 e2` -/
def DyLe (s1 e1 s2 e2 : Int) : Prop := sv (min e1 e2) s1 e1 ≤ sv (min e1 e2) s2 e2
def DyLt (s1 e1 s2 e2 : Int) : Prop := sv (min e1 e2) s1 e1 < sv (min e1 e2) s2 e2
instance : Decidable (DyLe a b c d) := by unfold DyLe; infer_instance
instance : Decidable (DyLt a b c d) := by unfold DyLt; infer_instance

theorem DyLe_iff_sv (E s1 e1 s2 e2 : Int) (h1 : E ≤ e1) (h2 : E ≤ e2) :
    DyLe s1 e1 s2 e2 ↔ sv E s1 e1 ≤ sv E s2 e2 :=
  (sv_le_iff E (min e1 e2) s1 e1 s2 e2 (by omega) (by omega) (by omega)).symm
theorem DyLt_iff_sv (E s1 e1 s2 e2 : Int) (h1 : E ≤ e1) (h2 : E ≤ e2) :
    DyLt s1 e1 s2 e2 ↔ sv E s1 e1 < sv E s2 e2 :=
  (sv_lt_iff E (min e1 e2) s1 e1 s2 e2 (by omega) (by omega) (by omega)).symm

/-- comparing an integer `z` with `s·2^e`, spelled out -/
theorem DyLe_int_left (z s e : Int) : DyLe z 0 s e ↔ z * 2 ^ (-e).toNat ≤ s * 2 ^ e.toNat := by
  unfold DyLe sv
  by_cases h : 0 ≤ e
  · have : min 0 e = 0 := by omega
    rw [this]; simp
    have : (-e).toNat = 0 := by omega
    rw [this]; simp
  · have : min 0 e = e := by omega
    rw [this]; simp
    have : e.toNat = 0 := by omega
    rw [this]; simp
theorem DyLe_int_right (z s e : Int) : DyLe s e z 0 ↔ s * 2 ^ e.toNat ≤ z * 2 ^ (-e).toNat := by
  unfold DyLe sv
  by_cases h : 0 ≤ e
  · have : min e 0 = 0 := by omega
    rw [this]; simp
    have : (-e).toNat = 0 := by omega
    rw [this]; simp
  · have : min e 0 = e := by omega
    rw [this]; simp
    have : e.toNat = 0 := by omega
    rw [this]; simp

theorem sgn_bridge (n : Bool) (m k : Nat) :
    (if n then -1 else 1) * ((m * 2 ^ k : Nat) : Int) = sgnm n m * 2 ^ k := by
  cases n <;> simp [sgnm, Int.natCast_mul, Int.natCast_pow, Int.neg_mul]

def emin (f : Fmt) : Int := 1 - (f.bias : Int) - f.mbits

theorem decode_fin_bounds (f : Fmt) (b : Nat) (n : Bool) (m : Nat) (e : Int) (h : decode f b = .fin n m e) :
    emin f ≤ e ∧ m < 2 ^ (f.mbits + 1) := by
  unfold decode at h
  simp only at h
  split at h
  · split at h <;> cases h
  · split at h
    · cases h
      refine ⟨by unfold emin; omega, ?_⟩
      have := Nat.mod_lt b (Nat.two_pow_pos f.mbits)
      rw [Nat.pow_succ]; omega
    · rename_i h1 h2
      cases h
      have hm := Nat.mod_lt b (Nat.two_pow_pos f.mbits)
      have h2' : b / 2 ^ f.mbits % 2 ^ f.ebits ≠ 0 := by simpa using h2
      refine ⟨by unfold emin; omega, ?_⟩
      rw [Nat.pow_succ]; omega

theorem lt_fin (f : Fmt) (a b : Nat) (na nb : Bool) (ma mb : Nat) (ea eb : Int)
    (ha : decode f a = .fin na ma ea) (hb : decode f b = .fin nb mb eb) :
    lt f a b = true ↔ DyLt (sgnm na ma) ea (sgnm nb mb) eb := by
  unfold lt DyLt sv
  rw [ha, hb]
  simp only [sgn_bridge, decide_eq_true_eq]

theorem le_fin (f : Fmt) (a b : Nat) (na nb : Bool) (ma mb : Nat) (ea eb : Int)
    (ha : decode f a = .fin na ma ea) (hb : decode f b = .fin nb mb eb) :
    le f a b = true ↔ DyLe (sgnm na ma) ea (sgnm nb mb) eb := by
  have hl := lt_fin f b a nb na mb ma eb ea hb ha
  unfold le
  rw [ha, hb]
  simp only [Bool.not_eq_true', ← Bool.not_eq_true, hl]
  unfold DyLe DyLt
  rw [Int.min_comm]
  omega

/-- the range test `c ≤ b ∧ b ≤ X` of `canConvertNumber` against finite constants: true exactly for finite `b`
    whose exact value lies between the exact values of the constants (NaN and ±inf fail) -/
theorem range_iff (f : Fmt) (b c X : Nat) (nc nx : Bool) (mc mx : Nat) (ec ex : Int)
    (hc : decode f c = .fin nc mc ec) (hx : decode f X = .fin nx mx ex) :
    (ge f b c && le f b X) = true ↔
      ∃ n m e, decode f b = .fin n m e ∧ DyLe (sgnm nc mc) ec (sgnm n m) e ∧ DyLe (sgnm n m) e (sgnm nx mx) ex := by
  cases hd : decode f b with
  | nan =>
    have : ge f b c = false := by unfold ge le; rw [hc, hd]
    simp [this]
  | inf nb =>
    have h1 : ge f b c = !nb := by unfold ge le lt; rw [hc, hd]
    have h2 : le f b X = nb := by unfold le lt; rw [hx, hd]; simp
    rw [h1, h2]; cases nb <;> simp
  | fin n m e =>
    rw [Bool.and_eq_true]
    unfold ge
    rw [le_fin f c b nc n mc m ec e hc hd, le_fin f b X n nx m mx e ex hd hx]
    constructor
    · intro h; exact ⟨n, m, e, rfl, h⟩
    · rintro ⟨n', m', e', h, h'⟩; cases h; exact h'

/-- datum with an all-ones mantissa `(2^p-1)·2^J`: any `m·2^j` with `m < 2^p` below the next datum `2^p·2^J` is at most it -/
theorem hi_lemma (p J m j B : Nat) (hp : 0 < p) (hm : m < 2 ^ p) (hB : B < 2 ^ p * 2 ^ J) (h : m * 2 ^ j ≤ B) :
    m * 2 ^ j ≤ (2 ^ p - 1) * 2 ^ J := by
  by_cases hj : j ≤ J
  · exact Nat.mul_le_mul (by omega) (Nat.pow_le_pow_right (by decide) hj)
  · obtain ⟨d, rfl⟩ : ∃ d, j = d + (J + 1) := ⟨j - (J + 1), by omega⟩
    obtain ⟨q, rfl⟩ : ∃ q, p = q + 1 := ⟨p - 1, by omega⟩
    have e1 : m * 2 ^ (d + (J + 1)) = (m * 2 ^ d) * 2 ^ (J + 1) := by rw [Nat.pow_add, Nat.mul_assoc]
    have e2 : 2 ^ (q + 1) * 2 ^ J = 2 ^ q * 2 ^ (J + 1) := by
      rw [Nat.pow_succ, Nat.pow_succ, Nat.mul_assoc, Nat.mul_comm 2]
    have h3 : m * 2 ^ d < 2 ^ q := by
      apply Nat.lt_of_mul_lt_mul_right (a := 2 ^ (J + 1))
      rw [← e1, ← e2]; omega
    have h4 : (m * 2 ^ d + 1) * 2 ^ (J + 1) ≤ 2 ^ q * 2 ^ (J + 1) := Nat.mul_le_mul_right _ h3
    rw [Nat.add_mul, ← e1, ← e2, Nat.one_mul] at h4
    rw [Nat.sub_mul, Nat.one_mul]
    have : 2 ^ (J + 1) = 2 * 2 ^ J := by rw [Nat.pow_succ, Nat.mul_comm]
    have := Nat.two_pow_pos J
    omega

/-- `c` is the exact datum of the integer `z` (checkable by evaluation) -/
def exactOK (f : Fmt) (c : Nat) (z : Int) : Bool :=
  match decode f c with
  | .fin n m e => decide (sv (emin f) (sgnm n m) e = z * 2 ^ (-emin f).toNat)
  | _ => false

/-- `X` is exactly `z`, or `X` is the all-ones-mantissa datum just below a power-of-two step with
    `value X ≤ z < next datum above X` (checkable by evaluation) -/
def upperOK (f : Fmt) (X : Nat) (z : Int) : Bool :=
  match decode f X with
  | .fin n m e => decide (sv (emin f) (sgnm n m) e = z * 2 ^ (-emin f).toNat) ||
      (!n && decide (m = 2 ^ (f.mbits + 1) - 1) && decide (sv (emin f) (sgnm n m) e ≤ z * 2 ^ (-emin f).toNat) &&
        decide (z * 2 ^ (-emin f).toNat < ((2 ^ (f.mbits + 1) * 2 ^ (e - emin f).toNat : Nat) : Int)))
  | _ => false

theorem sv_int (E z : Int) : sv E z 0 = z * 2 ^ (-E).toNat := by unfold sv; rw [Int.zero_sub]

theorem exactOK_spec (f : Fmt) (c : Nat) (z : Int) (h : exactOK f c z = true) (h0 : emin f ≤ 0) :
    ∃ n m e, decode f c = .fin n m e ∧ ∀ s' e', emin f ≤ e' →
      ((DyLe (sgnm n m) e s' e' ↔ DyLe z 0 s' e') ∧ (DyLe s' e' (sgnm n m) e ↔ DyLe s' e' z 0)) := by
  unfold exactOK at h
  split at h
  · rename_i n m e hd
    have hb := (decode_fin_bounds f c n m e hd).1
    refine ⟨n, m, e, hd, ?_⟩
    intro s' e' he'
    simp only [decide_eq_true_eq] at h
    rw [DyLe_iff_sv (emin f) _ _ _ _ hb he', DyLe_iff_sv (emin f) _ _ _ _ h0 he',
      DyLe_iff_sv (emin f) _ _ _ _ he' hb, DyLe_iff_sv (emin f) _ _ _ _ he' h0, sv_int, h]
    exact ⟨Iff.rfl, Iff.rfl⟩
  · cases h

theorem upperOK_spec (f : Fmt) (X : Nat) (z : Int) (h : upperOK f X z = true) (h0 : emin f ≤ 0) :
    ∃ n m e, decode f X = .fin n m e ∧ ∀ n' m' e', emin f ≤ e' → m' < 2 ^ (f.mbits + 1) →
      (DyLe (sgnm n' m') e' (sgnm n m) e ↔ DyLe (sgnm n' m') e' z 0) := by
  unfold upperOK at h
  split at h
  · rename_i n m e hd
    have hb := (decode_fin_bounds f X n m e hd).1
    refine ⟨n, m, e, hd, ?_⟩
    intro n' m' e' he' hm'
    rw [DyLe_iff_sv (emin f) _ _ _ _ he' hb, DyLe_iff_sv (emin f) _ _ _ _ he' h0, sv_int]
    simp only [Bool.or_eq_true, Bool.and_eq_true, decide_eq_true_eq, Bool.not_eq_true'] at h
    rcases h with h | ⟨⟨⟨hn, hm⟩, hle⟩, hlt⟩
    · rw [h]
    · constructor
      · intro h1; omega
      · intro h1
        subst hn
        cases n'
        · -- non-negative datum
          have hsv : ∀ (a : Nat) (ee : Int), sv (emin f) (sgnm false a) ee = ((a * 2 ^ (ee - emin f).toNat : Nat) : Int) := by
            intro a ee; simp [sv, sgnm, Int.natCast_mul, Int.natCast_pow]
          rw [hsv] at h1 ⊢
          rw [hsv]
          have hB : (z * 2 ^ (-emin f).toNat).toNat < 2 ^ (f.mbits + 1) * 2 ^ (e - emin f).toNat := by omega
          have hh : m' * 2 ^ (e' - emin f).toNat ≤ (z * 2 ^ (-emin f).toNat).toNat := by omega
          have := hi_lemma (f.mbits + 1) _ m' _ _ (by omega) hm' hB hh
          rw [← hm] at this
          exact Int.ofNat_le.2 this
        · have h2 : sv (emin f) (sgnm true m') e' ≤ 0 := by
            simp only [sv, sgnm, if_true, Int.neg_mul]
            have : (0 : Int) ≤ (m' : Int) * 2 ^ (e' - emin f).toNat :=
              Int.mul_nonneg (Int.natCast_nonneg _) (Int.le_of_lt (two_pow_pos' _))
            omega
          have h3 : 0 ≤ sv (emin f) (sgnm false m) e := by
            simp only [sv, sgnm]
            exact Int.mul_nonneg (by simp) (Int.le_of_lt (two_pow_pos' _))
          omega
  · cases h

/-- truncation toward zero of `(-1)^n·m·2^e` (the expression inside `Conv.truncInt`) -/
def truncVal (n : Bool) (m : Nat) (e : Int) : Int :=
  let mag : Nat := if e ≥ 0 then m * 2 ^ e.toNat else m / 2 ^ ((-e).toNat)
  if n then -(mag : Int) else mag

theorem trunc_ge (z : Int) (n : Bool) (m : Nat) (e : Int) (h : DyLe z 0 (sgnm n m) e) : z ≤ truncVal n m e := by
  rw [DyLe_int_left] at h
  unfold truncVal
  by_cases he : e ≥ 0
  · have : (-e).toNat = 0 := by omega
    rw [this] at h
    simp only [he, if_true]
    cases n <;> simp [sgnm, Int.natCast_mul, Int.natCast_pow, Int.neg_mul] at h ⊢ <;> omega
  · have : e.toNat = 0 := by omega
    rw [this] at h
    simp only [he, if_false]
    have hp := two_pow_pos' (-e).toNat
    cases n <;> simp [sgnm, Int.natCast_ediv, Int.natCast_pow] at h ⊢
    · exact (Int.le_ediv_iff_mul_le hp).2 h
    · have : (m : Int) / 2 ^ (-e).toNat ≤ -z := Int.ediv_le_of_le_mul hp (by rw [Int.neg_mul]; omega)
      omega

theorem trunc_le (z : Int) (n : Bool) (m : Nat) (e : Int) (h : DyLe (sgnm n m) e z 0) : truncVal n m e ≤ z := by
  rw [DyLe_int_right] at h
  unfold truncVal
  by_cases he : e ≥ 0
  · have : (-e).toNat = 0 := by omega
    rw [this] at h
    simp only [he, if_true]
    cases n <;> simp [sgnm, Int.natCast_mul, Int.natCast_pow, Int.neg_mul] at h ⊢ <;> omega
  · have : e.toNat = 0 := by omega
    rw [this] at h
    simp only [he, if_false]
    have hp := two_pow_pos' (-e).toNat
    cases n <;> simp [sgnm, Int.natCast_ediv, Int.natCast_pow] at h ⊢
    · exact Int.ediv_le_of_le_mul hp h
    · have : -z ≤ (m : Int) / 2 ^ (-e).toNat := (Int.le_ediv_iff_mul_le hp).2 (by rw [Int.neg_mul]; omega)
      omega
end SF

namespace Conv
open SF
def upperC (f : Fmt) (w : Nat) (t : IT) : Nat := if t.bits < w then ofInt f t.max else highestFor f t

theorem consts32 : ∀ t ∈ allIT, exactOK b32 (ofInt b32 t.min) t.min = true ∧ upperOK b32 (upperC b32 32 t) t.max = true := by
  decide +kernel
theorem consts64 : ∀ t ∈ allIT, exactOK b64 (ofInt b64 t.min) t.min = true ∧ upperOK b64 (upperC b64 64 t) t.max = true := by
  decide +kernel
end Conv

namespace Conv
open SF

/-- the exact value of a datum lies within `[t.min, t.max]` (NaN and ±inf do not) -/
def inRange (t : IT) : FP → Prop
  | .fin n m e => DyLe t.min 0 (sgnm n m) e ∧ DyLe (sgnm n m) e t.max 0
  | _ => False
instance (t : IT) (x : FP) : Decidable (inRange t x) := by cases x <;> unfold inRange <;> infer_instance

/-- truncation toward zero of a finite datum (0 for NaN / ±inf, never used there) -/
def truncFP : FP → Int
  | .fin n m e => truncVal n m e
  | _ => 0

theorem truncInt_eq (f : Fmt) (b : Nat) :
    truncInt f b = match decode f b with | .fin n m e => some (truncVal n m e) | _ => none := by
  unfold truncInt
  cases decode f b <;> rfl

theorem range_test (f : Fmt) (w b : Nat) (t : IT) (h0 : emin f ≤ 0)
    (hmin : exactOK f (ofInt f t.min) t.min = true) (hmax : upperOK f (upperC f w t) t.max = true) :
    (ge f b (ofInt f t.min) && le f b (upperC f w t)) = true ↔ inRange t (decode f b) := by
  obtain ⟨nc, mc, ec, hc, Hc⟩ := exactOK_spec f _ _ hmin h0
  obtain ⟨nx, mx, ex, hx, Hx⟩ := upperOK_spec f _ _ hmax h0
  rw [range_iff f b _ _ nc nx mc mx ec ex hc hx]
  cases hd : decode f b with
  | nan => simp [inRange]
  | inf nb => simp [inRange]
  | fin n m e =>
    have hb := decode_fin_bounds f b n m e hd
    unfold inRange
    constructor
    · rintro ⟨n', m', e', heq, h1, h2⟩
      cases heq
      exact ⟨(Hc _ _ hb.1).1.1 h1, (Hx n m e hb.1 hb.2).1 h2⟩
    · rintro ⟨h1, h2⟩
      exact ⟨n, m, e, rfl, (Hc _ _ hb.1).1.2 h1, (Hx n m e hb.1 hb.2).2 h2⟩

theorem canConv_f32 (b : Nat) (t : IT) :
    canConvInt (.f32 b) t = (ge b32 b (ofInt b32 t.min) && le b32 b (upperC b32 32 t)) := by
  simp only [canConvInt, upperC]; split <;> rfl
theorem canConv_f64 (b : Nat) (t : IT) :
    canConvInt (.f64 b) t = (ge b64 b (ofInt b64 t.min) && le b64 b (upperC b64 64 t)) := by
  simp only [canConvInt, upperC]; split <;> rfl

theorem canConv_f32_iff (b : Nat) (t : IT) (ht : t ∈ allIT) :
    canConvInt (.f32 b) t = true ↔ inRange t (decode b32 b) := by
  rw [canConv_f32]
  exact range_test b32 32 b t (by decide) (consts32 t ht).1 (consts32 t ht).2
theorem canConv_f64_iff (b : Nat) (t : IT) (ht : t ∈ allIT) :
    canConvInt (.f64 b) t = true ↔ inRange t (decode b64 b) := by
  rw [canConv_f64]
  exact range_test b64 64 b t (by decide) (consts64 t ht).1 (consts64 t ht).2

/-- in range ⇒ the cast is defined and yields the truncation -/
theorem cast_of_inRange (f : Fmt) (b : Nat) (t : IT) (h : inRange t (decode f b)) :
    (match truncInt f b with
      | some z => if t.min ≤ z ∧ z ≤ t.max then some z else none
      | none => none) = some (truncFP (decode f b)) := by
  rw [truncInt_eq]
  cases hd : decode f b with
  | nan => rw [hd] at h; exact h.elim
  | inf nb => rw [hd] at h; exact h.elim
  | fin n m e =>
    rw [hd] at h
    simp only [truncFP]
    rw [if_pos ⟨trunc_ge _ _ _ _ h.1, trunc_le _ _ _ _ h.2⟩]

theorem convInt_f32 (b : Nat) (t : IT) (ht : t ∈ allIT) :
    convInt (.f32 b) t = some (if inRange t (decode b32 b) then truncFP (decode b32 b) else 0) := by
  have hc := canConv_f32_iff b t ht
  unfold convInt
  by_cases hr : inRange t (decode b32 b)
  · rw [if_pos (hc.2 hr), if_pos hr]; exact cast_of_inRange b32 b t hr
  · rw [if_neg (fun h => hr (hc.1 h)), if_neg hr]
theorem convInt_f64 (b : Nat) (t : IT) (ht : t ∈ allIT) :
    convInt (.f64 b) t = some (if inRange t (decode b64 b) then truncFP (decode b64 b) else 0) := by
  have hc := canConv_f64_iff b t ht
  unfold convInt
  by_cases hr : inRange t (decode b64 b)
  · rw [if_pos (hc.2 hr), if_pos hr]; exact cast_of_inRange b64 b t hr
  · rw [if_neg (fun h => hr (hc.1 h)), if_neg hr]
end Conv

/-! ## `roundPos`: structure, exactness when the mantissa fits -/
namespace SF
/-- final packing step of `roundPos` -/
def rpPack (f : Fmt) (n : Bool) (mr : Nat) (e' : Int) : Nat :=
  if mr < 2 ^ f.mbits then (if n then f.signBit else 0) + mr
  else if e' + f.bias + f.mbits ≥ f.emax then infBits f n
  else (if n then f.signBit else 0) + (e' + f.bias + f.mbits).toNat * 2 ^ f.mbits + (mr - 2 ^ f.mbits)
/-- lsb exponent chosen by `roundPos` -/
def rpExp (f : Fmt) (m : Nat) (e : Int) : Int := max (e + (Nat.log2 m + 1 : Nat) - (f.mbits + 1)) (emin f)
/-- rounded mantissa (before renormalisation) -/
def rpMant (m : Nat) (e e' : Int) : Nat := if e' ≥ e then rneShift m (e' - e).toNat else m * 2 ^ ((e - e').toNat)

theorem roundPos_eq (f : Fmt) (n : Bool) (m : Nat) (e : Int) (hm : m ≠ 0) :
    roundPos f n m e =
      if rpMant m e (rpExp f m e) ≥ 2 ^ (f.mbits + 1) then rpPack f n (rpMant m e (rpExp f m e) / 2) (rpExp f m e + 1)
      else rpPack f n (rpMant m e (rpExp f m e)) (rpExp f m e) := by
  have hE : max (e + ((Nat.log2 m + 1 : Nat) : Int) - ((f.mbits : Int) + 1)) (1 - (f.bias : Int) - (f.mbits : Int)) = rpExp f m e := rfl
  have hM : (if rpExp f m e ≥ e then rneShift m (rpExp f m e - e).toNat else m * 2 ^ (e - rpExp f m e).toNat) =
      rpMant m e (rpExp f m e) := rfl
  simp only [roundPos, if_neg hm]
  simp only [hE]
  simp only [hM]
  by_cases h : rpMant m e (rpExp f m e) ≥ 2 ^ (f.mbits + 1)
  · simp only [if_pos h]; rfl
  · simp only [if_neg h]; rfl

theorem pack_arith (A B S x r : Nat) (hr : r < A) (hx : x < B) (hS : S < 2) :
    (S * (A * B) + x * A + r) % A = r ∧ (S * (A * B) + x * A + r) / A % B = x ∧ (S * (A * B) + x * A + r) / (A * B) % 2 = S := by
  have hA : 0 < A := by omega
  have hB : 0 < B := by omega
  have e1 : S * (A * B) + x * A + r = r + (S * B + x) * A := by grind
  have h1 : (S * (A * B) + x * A + r) / A = S * B + x := by
    rw [e1, Nat.add_mul_div_right _ _ hA, Nat.div_eq_of_lt hr, Nat.zero_add]
  refine ⟨?_, ?_, ?_⟩
  · rw [e1, Nat.add_mul_mod_self_right, Nat.mod_eq_of_lt hr]
  · rw [h1, Nat.add_comm, Nat.add_mul_mod_self_right, Nat.mod_eq_of_lt hx]
  · rw [← Nat.div_div_eq_div_mul, h1, Nat.add_comm, Nat.add_mul_div_right _ _ hB, Nat.div_eq_of_lt hx, Nat.zero_add,
      Nat.mod_eq_of_lt hS]

/-- decoding a packed normal number -/
theorem decode_pack (f : Fmt) (n : Bool) (x mr : Nat) (hx1 : 1 ≤ x) (hx2 : x < f.emax)
    (h1 : 2 ^ f.mbits ≤ mr) (h2 : mr < 2 ^ (f.mbits + 1)) :
    decode f ((if n then f.signBit else 0) + x * 2 ^ f.mbits + (mr - 2 ^ f.mbits)) = .fin n mr ((x : Int) - f.bias - f.mbits) := by
  have hr : mr - 2 ^ f.mbits < 2 ^ f.mbits := by rw [Nat.pow_succ] at h2; omega
  have hx : x < 2 ^ f.ebits := by unfold Fmt.emax at hx2; omega
  have hs : (if n then f.signBit else 0) = (if n then 1 else 0) * (2 ^ f.mbits * 2 ^ f.ebits) := by
    cases n <;> simp [Fmt.signBit, Nat.pow_add]
  obtain ⟨a1, a2, a3⟩ := pack_arith (2 ^ f.mbits) (2 ^ f.ebits) (if n then 1 else 0) x (mr - 2 ^ f.mbits) hr hx (by cases n <;> simp)
  rw [hs]
  unfold decode
  have hsb : f.signBit = 2 ^ f.mbits * 2 ^ f.ebits := by simp [Fmt.signBit, Nat.pow_add]
  simp only [hsb, a1, a2, a3]
  have c1 : (x == f.emax) = false := by simp; omega
  have c2 : (x == 0) = false := by simp; omega
  simp only [c1, c2, Bool.false_eq_true, if_false]
  have : mr - 2 ^ f.mbits + 2 ^ f.mbits = mr := by omega
  rw [this]
  cases n <;> simp

/-- `roundPos` is exact when the mantissa fits and the result is a normal number -/
theorem roundPos_exact (f : Fmt) (n : Bool) (m : Nat) (e : Int) (hm : m ≠ 0) (hlen : Nat.log2 m ≤ f.mbits)
    (he1 : emin f ≤ e + Nat.log2 m - f.mbits) (he2 : e + Nat.log2 m + f.bias < f.emax) :
    decode f (roundPos f n m e) = .fin n (m * 2 ^ (f.mbits - Nat.log2 m)) (e + Nat.log2 m - f.mbits) := by
  have hL1 := Nat.log2_self_le hm
  have hL2 := Nat.lt_log2_self (n := m)
  have hE : rpExp f m e = e + Nat.log2 m - f.mbits := by
    unfold rpExp; push_cast; omega
  have hM : rpMant m e (rpExp f m e) = m * 2 ^ (f.mbits - Nat.log2 m) := by
    rw [hE]; unfold rpMant
    by_cases hc : Nat.log2 m = f.mbits
    · have : e + (Nat.log2 m : Int) - f.mbits ≥ e := by omega
      rw [if_pos this]
      have : (e + (Nat.log2 m : Int) - f.mbits - e).toNat = 0 := by omega
      rw [this, hc]; simp [rneShift]
    · have : ¬ (e + (Nat.log2 m : Int) - f.mbits ≥ e) := by omega
      rw [if_neg this]
      have : (e - (e + (Nat.log2 m : Int) - f.mbits)).toNat = f.mbits - Nat.log2 m := by omega
      rw [this]
  have hp : 2 ^ Nat.log2 m * 2 ^ (f.mbits - Nat.log2 m) = 2 ^ f.mbits := by
    rw [← Nat.pow_add]; congr 1; omega
  have hp' : 2 ^ (Nat.log2 m + 1) * 2 ^ (f.mbits - Nat.log2 m) = 2 ^ (f.mbits + 1) := by
    rw [← Nat.pow_add]; congr 1; omega
  have b1 : 2 ^ f.mbits ≤ m * 2 ^ (f.mbits - Nat.log2 m) := by
    rw [← hp]; exact Nat.mul_le_mul_right _ hL1
  have b2 : m * 2 ^ (f.mbits - Nat.log2 m) < 2 ^ (f.mbits + 1) := by
    rw [← hp']; exact Nat.mul_lt_mul_of_pos_right hL2 (Nat.two_pow_pos _)
  rw [roundPos_eq f n m e hm, hM, hE, if_neg (by omega)]
  unfold rpPack
  rw [if_neg (by omega), if_neg (by omega)]
  have hx : ((e + (Nat.log2 m : Int) - f.mbits + f.bias + f.mbits).toNat : Int) = e + Nat.log2 m + f.bias := by
    unfold emin at he1; omega
  have := decode_pack f n (e + (Nat.log2 m : Int) - f.mbits + f.bias + f.mbits).toNat _
    (by unfold emin at he1; omega) (by omega) b1 b2
  rw [this, hx]
  congr 1; omega

theorem decode_fin_exp_lt (f : Fmt) (b : Nat) (n : Bool) (m : Nat) (e : Int) (h : decode f b = .fin n m e) (he : 2 ≤ f.emax) :
    e + f.bias + f.mbits < f.emax := by
  unfold decode at h
  simp only at h
  split at h
  · split at h <;> cases h
  · split at h
    · cases h; omega
    · rename_i h1 h2
      cases h
      have h1' : b / 2 ^ f.mbits % 2 ^ f.ebits ≠ f.emax := by simpa using h1
      have := Nat.mod_lt (b / 2 ^ f.mbits) (Nat.two_pow_pos f.ebits)
      unfold Fmt.emax at h1' ⊢
      omega

theorem sgnm_mul (n : Bool) (m k : Nat) : sgnm n (m * k) = sgnm n m * k := by
  cases n <;> simp [sgnm, Int.natCast_mul, Int.neg_mul]

/-- two dyadics with `m' = m·2^(e-e')`, `e' ≤ e` have the same exact value -/
theorem DyLe_of_scaled (n : Bool) (m m' : Nat) (e e' : Int) (he : e' ≤ e) (hm : m' = m * 2 ^ (e - e').toNat) :
    DyLe (sgnm n m) e (sgnm n m') e' ∧ DyLe (sgnm n m') e' (sgnm n m) e := by
  subst hm
  have h1 : min e e' = e' := by omega
  have h2 : min e' e = e' := by omega
  unfold DyLe sv
  rw [h1, h2, sgnm_mul]
  simp [Int.natCast_pow]
end SF

namespace Conv
open SF JD
/-- binary32 → binary64 preserves the exact value of every finite datum (and the sign of zero) -/
theorem cvt_32_64_exact (b : Nat) (n : Bool) (m : Nat) (e : Int) (h : decode b32 b = .fin n m e) :
    ∃ m' e', decode b64 (cvt b32 b64 b) = .fin n m' e' ∧ e' ≤ e ∧ m' = m * 2 ^ (e - e').toNat := by
  have hb := decode_fin_bounds b32 b n m e h
  have hu := decode_fin_exp_lt b32 b n m e h (by decide)
  have hemin : emin b32 = -149 := by decide
  have hbias : (b32.bias : Int) = 127 := by decide
  have hemax : (b32.emax : Int) = 255 := by decide
  have hmb : b32.mbits = 23 := rfl
  rw [hemin] at hb
  rw [hbias, hemax, hmb] at hu
  unfold cvt
  rw [h]
  simp only
  by_cases hm : m = 0
  · subst hm
    refine ⟨0, -1074, ?_, by omega, by simp⟩
    have hr : ∀ e : Int, roundPos b64 n 0 e = if n then b64.signBit else 0 := by intro e; simp [roundPos]
    rw [hr]; cases n <;> decide +kernel
  · have hL : Nat.log2 m < 24 := (Nat.log2_lt hm).2 (by simpa [hmb] using hb.2)
    have := roundPos_exact b64 n m e hm (by show Nat.log2 m ≤ 52; omega)
      (by show emin b64 ≤ e + (Nat.log2 m : Int) - (52 : Nat); have : emin b64 = -1074 := by decide
          omega)
      (by show e + (Nat.log2 m : Int) + (1023 : Nat) < (2047 : Nat); omega)
    refine ⟨_, _, this, by show e + (Nat.log2 m : Int) - (52 : Nat) ≤ e; omega, ?_⟩
    congr 2
    show 52 - Nat.log2 m = (e - (e + (Nat.log2 m : Int) - (52 : Nat))).toNat
    omega
end Conv

/-! ## `roundPos` rounds to nearest -/
namespace SF

/-- no datum lies strictly between two neighbours `q·2^t`, `(q+1)·2^t` of the grid of the binade of `q` (or of the subnormal grid) -/
theorem gap_lemma (P q t j mx : Nat) (h : 2 ^ P ≤ q ∨ t ≤ j) (hmx : mx < 2 ^ (P + 1)) :
    ¬ (q * 2 ^ t < mx * 2 ^ j ∧ mx * 2 ^ j < (q + 1) * 2 ^ t) := by
  rintro ⟨h1, h2⟩
  by_cases htj : t ≤ j
  · obtain ⟨d, rfl⟩ : ∃ d, j = d + t := ⟨j - t, by omega⟩
    rw [Nat.pow_add, ← Nat.mul_assoc] at h1 h2
    have a1 := Nat.lt_of_mul_lt_mul_right h1
    have a2 := Nat.lt_of_mul_lt_mul_right h2
    omega
  · have hq : 2 ^ P ≤ q := by rcases h with h | h; exact h; omega
    obtain ⟨d, rfl⟩ : ∃ d, t = j + 1 + d := ⟨t - (j + 1), by omega⟩
    have b1 : mx * 2 ^ j < 2 ^ (P + 1) * 2 ^ j := Nat.mul_lt_mul_of_pos_right hmx (Nat.two_pow_pos _)
    have b2 : 2 ^ (P + 1) * 2 ^ j = 2 ^ P * 2 ^ (j + 1) := by
      rw [Nat.pow_succ, Nat.pow_succ, Nat.mul_assoc, Nat.mul_comm 2]
    have b3 : 2 ^ P * 2 ^ (j + 1) ≤ q * 2 ^ (j + 1 + d) :=
      Nat.mul_le_mul hq (Nat.pow_le_pow_right (by decide) (by omega))
    omega

theorem rneShift_cases (m k : Nat) (hk : 0 < k) :
    (m % 2 ^ k ≤ 2 ^ (k - 1) ∧ rneShift m k = m / 2 ^ k) ∨ (m % 2 ^ k ≥ 2 ^ (k - 1) ∧ rneShift m k = m / 2 ^ k + 1) := by
  unfold rneShift
  rw [if_neg (by omega)]
  simp only
  split
  · right; omega
  · split
    · left; omega
    · split
      · right; omega
      · left; omega

theorem nearest_core (m k W X : Nat) (hk : 0 < k) (hW : 0 < W)
    (hgap : ¬ (m / 2 ^ k * (2 ^ k * W) < X ∧ X < (m / 2 ^ k + 1) * (2 ^ k * W))) :
    (((rneShift m k * (2 ^ k * W) : Nat) : Int) - ((m * W : Nat) : Int)).natAbs ≤ ((X : Int) - ((m * W : Nat) : Int)).natAbs := by
  have hdm := Nat.div_add_mod m (2 ^ k)
  have hr := Nat.mod_lt m (Nat.two_pow_pos k)
  have hK : 2 ^ k = 2 * 2 ^ (k - 1) := by
    obtain ⟨d, rfl⟩ : ∃ d, k = d + 1 := ⟨k - 1, by omega⟩
    rw [Nat.pow_succ, Nat.mul_comm]; rfl
  have hc := rneShift_cases m k hk
  generalize rneShift m k = R at *
  generalize m / 2 ^ k = q at *
  generalize m % 2 ^ k = r at *
  generalize 2 ^ (k - 1) = h at *
  have hm : m * W = q * (2 ^ k * W) + r * W := by rw [← hdm]; grind
  have hT : 2 ^ k * W = 2 * (h * W) := by rw [hK]; grind
  have hq1 : (q + 1) * (2 ^ k * W) = q * (2 ^ k * W) + 2 ^ k * W := by grind
  have hu : r * W < 2 ^ k * W := Nat.mul_lt_mul_of_pos_right hr hW
  rw [hm]
  rcases hc with ⟨c, e⟩ | ⟨c, e⟩
  · rw [e]
    have : r * W ≤ h * W := Nat.mul_le_mul_right _ c
    rw [hq1] at hgap
    generalize q * (2 ^ k * W) = a at *
    generalize 2 ^ k * W = T at *
    generalize r * W = u at *
    generalize h * W = hw at *
    omega
  · rw [e]
    have : r * W ≥ h * W := Nat.mul_le_mul_right _ c
    rw [hq1] at hgap ⊢
    generalize q * (2 ^ k * W) = a at *
    generalize 2 ^ k * W = T at *
    generalize r * W = u at *
    generalize h * W = hw at *
    omega

theorem signBit_eq (f : Fmt) (n : Bool) :
    (if n then f.signBit else 0) = (if n then 1 else 0) * (2 ^ f.mbits * 2 ^ f.ebits) := by
  cases n <;> simp [Fmt.signBit, Nat.pow_add]

/-- decoding a packed subnormal (or zero) -/
theorem decode_sub (f : Fmt) (n : Bool) (mr : Nat) (h : mr < 2 ^ f.mbits) (he : 0 < f.emax) :
    decode f ((if n then f.signBit else 0) + mr) = .fin n mr (emin f) := by
  obtain ⟨a1, a2, a3⟩ := pack_arith (2 ^ f.mbits) (2 ^ f.ebits) (if n then 1 else 0) 0 mr h (Nat.two_pow_pos _) (by cases n <;> simp)
  rw [Nat.zero_mul, Nat.add_zero] at a1 a2 a3
  rw [signBit_eq]
  unfold decode
  have hsb : f.signBit = 2 ^ f.mbits * 2 ^ f.ebits := by simp [Fmt.signBit, Nat.pow_add]
  simp only [hsb, a1, a2, a3]
  have c1 : ((0 : Nat) == f.emax) = false := by simp; omega
  simp only [c1, Bool.false_eq_true, if_false, beq_self_eq_true, if_true]
  unfold emin
  cases n <;> simp

theorem decode_inf (f : Fmt) (n : Bool) : decode f (infBits f n) = .inf n := by
  have hx : f.emax < 2 ^ f.ebits := by unfold Fmt.emax; have := Nat.two_pow_pos f.ebits; omega
  obtain ⟨a1, a2, a3⟩ := pack_arith (2 ^ f.mbits) (2 ^ f.ebits) (if n then 1 else 0) f.emax 0 (Nat.two_pow_pos _) hx (by cases n <;> simp)
  rw [Nat.add_zero] at a1 a2 a3
  unfold infBits
  rw [signBit_eq]
  unfold decode
  have hsb : f.signBit = 2 ^ f.mbits * 2 ^ f.ebits := by simp [Fmt.signBit, Nat.pow_add]
  simp only [hsb, a1, a2, a3]
  simp only [beq_self_eq_true, if_true]
  cases n <;> simp

theorem rpExp_ge (f : Fmt) (m : Nat) (e : Int) : emin f ≤ rpExp f m e := by unfold rpExp; omega

/-- what `roundPos` returns, given the range of the rounded mantissa: ±inf, or a datum whose value is `mr·2^e1` -/
theorem rp_decode (f : Fmt) (n : Bool) (m : Nat) (e : Int) (hm : m ≠ 0) (hf : 0 < f.emax)
    (hlo : rpMant m e (rpExp f m e) < 2 ^ f.mbits → rpExp f m e = emin f)
    (hhi : rpMant m e (rpExp f m e) ≤ 2 ^ (f.mbits + 1)) :
    (decode f (roundPos f n m e) = .inf n ∧ (f.emax : Int) ≤ rpExp f m e + 1 + f.bias + f.mbits) ∨
    ∃ m'' e'', decode f (roundPos f n m e) = .fin n m'' e'' ∧ rpExp f m e ≤ e'' ∧
      m'' * 2 ^ (e'' - rpExp f m e).toNat = rpMant m e (rpExp f m e) := by
  have hge := rpExp_ge f m e
  rw [roundPos_eq f n m e hm]
  generalize rpMant m e (rpExp f m e) = mr at *
  generalize rpExp f m e = e1 at *
  have hpow : 2 ^ (f.mbits + 1) = 2 * 2 ^ f.mbits := by rw [Nat.pow_succ, Nat.mul_comm]
  have hpos := Nat.two_pow_pos f.mbits
  unfold emin at hge
  by_cases h1 : mr ≥ 2 ^ (f.mbits + 1)
  · rw [if_pos h1]
    have hmr : mr = 2 ^ (f.mbits + 1) := by omega
    have hhalf : mr / 2 = 2 ^ f.mbits := by omega
    rw [hhalf]
    unfold rpPack
    rw [if_neg (by omega)]
    by_cases h2 : e1 + 1 + f.bias + f.mbits ≥ f.emax
    · rw [if_pos h2]; exact Or.inl ⟨decode_inf f n, by omega⟩
    · rw [if_neg h2]
      right
      have := decode_pack f n (e1 + 1 + f.bias + f.mbits).toNat (2 ^ f.mbits) (by omega) (by omega) (by omega) (by omega)
      refine ⟨2 ^ f.mbits, _, this, by omega, ?_⟩
      have : ((((e1 + 1 + f.bias + f.mbits).toNat : Int) - f.bias - f.mbits) - e1).toNat = 1 := by omega
      rw [this]; omega
  · rw [if_neg h1]
    unfold rpPack
    by_cases h3 : mr < 2 ^ f.mbits
    · rw [if_pos h3]
      right
      refine ⟨mr, _, decode_sub f n mr h3 hf, by rw [hlo h3]; exact Int.le_refl _, ?_⟩
      rw [hlo h3]; simp
    · rw [if_neg h3]
      by_cases h2 : e1 + f.bias + f.mbits ≥ f.emax
      · rw [if_pos h2]; exact Or.inl ⟨decode_inf f n, by omega⟩
      · rw [if_neg h2]
        right
        have := decode_pack f n (e1 + f.bias + f.mbits).toNat mr (by omega) (by omega) (by omega) (by omega)
        refine ⟨mr, _, this, by omega, ?_⟩
        have : ((((e1 + f.bias + f.mbits).toNat : Int) - f.bias - f.mbits) - e1).toNat = 0 := by omega
        rw [this]; simp

theorem rp_case_exact (f : Fmt) (m : Nat) (e : Int) (hm : m ≠ 0) (h : rpExp f m e ≤ e) :
    rpMant m e (rpExp f m e) = m * 2 ^ (e - rpExp f m e).toNat ∧
    m * 2 ^ (e - rpExp f m e).toNat < 2 ^ (f.mbits + 1) ∧
    (m * 2 ^ (e - rpExp f m e).toNat < 2 ^ f.mbits → rpExp f m e = emin f) := by
  have hL1 := Nat.log2_self_le hm
  have hL2 := Nat.lt_log2_self (n := m)
  have hE : rpExp f m e = max (e + (Nat.log2 m : Int) - f.mbits) (emin f) := by unfold rpExp; push_cast; omega
  generalize rpExp f m e = e1 at *
  refine ⟨?_, ?_, ?_⟩
  · unfold rpMant
    by_cases hc : e1 ≥ e
    · rw [if_pos hc]
      have : (e1 - e).toNat = 0 := by omega
      have h2 : (e - e1).toNat = 0 := by omega
      rw [this, h2]; simp [rneShift]
    · rw [if_neg hc]
  · have hd : Nat.log2 m + 1 + (e - e1).toNat ≤ f.mbits + 1 := by omega
    calc m * 2 ^ (e - e1).toNat < 2 ^ (Nat.log2 m + 1) * 2 ^ (e - e1).toNat :=
          Nat.mul_lt_mul_of_pos_right hL2 (Nat.two_pow_pos _)
      _ = 2 ^ (Nat.log2 m + 1 + (e - e1).toNat) := (Nat.pow_add 2 (Nat.log2 m + 1) _).symm
      _ ≤ 2 ^ (f.mbits + 1) := Nat.pow_le_pow_right (by decide) hd
  · intro hlt
    apply Classical.byContradiction
    intro hne
    have hd : (e - e1).toNat + Nat.log2 m = f.mbits := by omega
    have : 2 ^ f.mbits ≤ m * 2 ^ (e - e1).toNat := by
      rw [← hd, Nat.pow_add, Nat.mul_comm]
      exact Nat.mul_le_mul_right _ hL1
    omega

theorem rp_case_round (f : Fmt) (m : Nat) (e : Int) (hm : m ≠ 0) (h : e < rpExp f m e) :
    rpMant m e (rpExp f m e) = rneShift m (rpExp f m e - e).toNat ∧ 0 < (rpExp f m e - e).toNat ∧
    m / 2 ^ (rpExp f m e - e).toNat < 2 ^ (f.mbits + 1) ∧
    (2 ^ f.mbits ≤ m / 2 ^ (rpExp f m e - e).toNat ∨ rpExp f m e = emin f) := by
  have hL1 := Nat.log2_self_le hm
  have hL2 := Nat.lt_log2_self (n := m)
  have hE : rpExp f m e = max (e + (Nat.log2 m : Int) - f.mbits) (emin f) := by unfold rpExp; push_cast; omega
  generalize rpExp f m e = e1 at *
  refine ⟨?_, by omega, ?_, ?_⟩
  · unfold rpMant; rw [if_pos (by omega)]
  · rw [Nat.div_lt_iff_lt_mul (Nat.two_pow_pos _), ← Nat.pow_add]
    exact Nat.lt_of_lt_of_le hL2 (Nat.pow_le_pow_right (by decide) (by omega))
  · by_cases hne : e1 = emin f
    · exact Or.inr hne
    · left
      rw [Nat.le_div_iff_mul_le (Nat.two_pow_pos _), ← Nat.pow_add]
      have : f.mbits + (e1 - e).toNat = Nat.log2 m := by omega
      rw [this]; exact hL1

theorem sv_sgnm (E : Int) (n : Bool) (m : Nat) (e : Int) : sv E (sgnm n m) e = sgnm n (m * 2 ^ (e - E).toNat) := by
  unfold sv; rw [sgnm_mul]; simp [Int.natCast_pow]

theorem sign_dist (n nx : Bool) (R Z X : Nat)
    (h1 : ((R : Int) - Z).natAbs ≤ ((X : Int) - Z).natAbs) (h0 : ((R : Int) - Z).natAbs ≤ ((0 : Int) - Z).natAbs) :
    (sgnm n R - sgnm n Z).natAbs ≤ (sgnm nx X - sgnm n Z).natAbs := by
  cases n <;> cases nx <;> simp only [sgnm, if_true, if_false, Bool.false_eq_true] <;> omega

/-- `roundPos` rounds to nearest: unless it overflows to ±inf, the result is a finite datum of the same sign and no datum of the
    format is strictly closer to the exact input `(-1)^n·m·2^e` (distances measured exactly, scaled by `2^(-E0)`, `E0 = min e emin`) -/
theorem roundPos_nearest (f : Fmt) (n : Bool) (m : Nat) (e : Int) (hm : m ≠ 0) (hf : 0 < f.emax) :
    (decode f (roundPos f n m e) = .inf n ∧ (f.emax : Int) ≤ rpExp f m e + 1 + f.bias + f.mbits) ∨
    ∃ m'' e'', decode f (roundPos f n m e) = .fin n m'' e'' ∧
      ∀ x nx mx ex, decode f x = .fin nx mx ex →
        (sv (min e (emin f)) (sgnm n m'') e'' - sv (min e (emin f)) (sgnm n m) e).natAbs ≤
        (sv (min e (emin f)) (sgnm nx mx) ex - sv (min e (emin f)) (sgnm n m) e).natAbs := by
  have hge := rpExp_ge f m e
  by_cases h : rpExp f m e ≤ e
  · obtain ⟨hM, hlt, hsub⟩ := rp_case_exact f m e hm h
    rcases rp_decode f n m e hm hf (by rw [hM]; exact hsub) (by rw [hM]; omega) with hinf | ⟨m'', e'', hd, hle, hval⟩
    · exact Or.inl hinf
    · right
      refine ⟨m'', e'', hd, ?_⟩
      intro x nx mx ex _
      rw [hM] at hval
      generalize rpExp f m e = e1 at *
      have : sv (min e (emin f)) (sgnm n m'') e'' = sv (min e (emin f)) (sgnm n m) e := by
        rw [sv_sgnm, sv_sgnm]
        congr 1
        have a1 : (e'' - min e (emin f)).toNat = (e'' - e1).toNat + (e1 - min e (emin f)).toNat := by omega
        have a2 : (e - min e (emin f)).toNat = (e - e1).toNat + (e1 - min e (emin f)).toNat := by omega
        rw [a1, a2, Nat.pow_add, Nat.pow_add, ← Nat.mul_assoc, ← Nat.mul_assoc, hval]
      rw [this]; simp
  · have h' : e < rpExp f m e := by omega
    obtain ⟨hM, hk, hq, hgrid⟩ := rp_case_round f m e hm h'
    have hcases := rneShift_cases m _ hk
    rcases rp_decode f n m e hm hf
        (by rw [hM]; intro hlt; rcases hgrid with hg | hg
            · rcases hcases with ⟨_, c⟩ | ⟨_, c⟩ <;> omega
            · exact hg)
        (by rw [hM]; rcases hcases with ⟨_, c⟩ | ⟨_, c⟩ <;> omega) with hinf | ⟨m'', e'', hd, hle, hval⟩
    · exact Or.inl hinf
    · right
      refine ⟨m'', e'', hd, ?_⟩
      intro x nx mx ex hx
      have hbx := decode_fin_bounds f x nx mx ex hx
      rw [hM] at hval
      generalize rpExp f m e = e1 at *
      rw [sv_sgnm, sv_sgnm, sv_sgnm]
      -- the three scaled magnitudes
      have a1 : (e'' - min e (emin f)).toNat = (e'' - e1).toNat + ((e1 - e).toNat + (e - min e (emin f)).toNat) := by omega
      have hR : m'' * 2 ^ (e'' - min e (emin f)).toNat =
          rneShift m (e1 - e).toNat * (2 ^ (e1 - e).toNat * 2 ^ (e - min e (emin f)).toNat) := by
        rw [a1, Nat.pow_add, ← Nat.mul_assoc, hval, Nat.pow_add]
      rw [hR]
      have core : ∀ mx' j, mx' < 2 ^ (f.mbits + 1) → (e1 = emin f → (e1 - e).toNat + (e - min e (emin f)).toNat ≤ j) →
          (((rneShift m (e1 - e).toNat * (2 ^ (e1 - e).toNat * 2 ^ (e - min e (emin f)).toNat) : Nat) : Int) -
              ((m * 2 ^ (e - min e (emin f)).toNat : Nat) : Int)).natAbs ≤
            (((mx' * 2 ^ j : Nat) : Int) - ((m * 2 ^ (e - min e (emin f)).toNat : Nat) : Int)).natAbs := by
        intro mx' j hmx' hj
        apply nearest_core m _ _ _ hk (Nat.two_pow_pos _)
        rw [← Nat.pow_add]
        apply gap_lemma f.mbits _ _ j mx' _ hmx'
        rcases hgrid with hg | hg
        · exact Or.inl hg
        · exact Or.inr (hj hg)
      apply sign_dist
      · exact core mx _ hbx.2 (by intro hg; omega)
      · have := core 0 ((e1 - e).toNat + (e - min e (emin f)).toNat) (Nat.two_pow_pos _) (by intro _; omega)
        simpa using this
end SF

namespace Conv
open SF JD

theorem sgnm_natAbs (z : Int) : sgnm (decide (z < 0)) z.natAbs = z := by
  unfold sgnm
  by_cases h : z < 0 <;> simp [h] <;> omega

/-- `static_cast<float/double>(integer)` for |z| < 2^64: a finite datum of the sign of `z`, and no datum of the format is closer to `z` -/
theorem ofInt_nearest (f : Fmt) (hf : f = b32 ∨ f = b64) (z : Int) (hz : z.natAbs < 2 ^ 64) :
    ∃ m e, decode f (ofInt f z) = .fin (decide (z < 0)) m e ∧
      ∀ x nx mx ex, decode f x = .fin nx mx ex →
        (sv (emin f) (sgnm (decide (z < 0)) m) e - z * 2 ^ (-emin f).toNat).natAbs ≤
        (sv (emin f) (sgnm nx mx) ex - z * 2 ^ (-emin f).toNat).natAbs := by
  have h0 : emin f ≤ 0 ∧ 0 < f.emax ∧ (63 : Int) + 1 + f.bias + f.mbits < f.emax := by
    rcases hf with rfl | rfl <;> decide
  have hmin : min 0 (emin f) = emin f := by omega
  have hZ : sv (emin f) (sgnm (decide (z < 0)) z.natAbs) 0 = z * 2 ^ (-emin f).toNat := by
    rw [sgnm_natAbs, sv_int]
  unfold ofInt
  by_cases hm : z.natAbs = 0
  · have hz0 : z = 0 := by omega
    subst hz0
    have : roundPos f (decide ((0 : Int) < 0)) (0 : Int).natAbs 0 = 0 := by simp [roundPos]
    rw [this]
    refine ⟨0, emin f, ?_, ?_⟩
    · have := decode_sub f false 0 (Nat.two_pow_pos _) h0.2.1
      simpa using this
    · intro x nx mx ex _
      simp [sv, sgnm]
  · rcases roundPos_nearest f (decide (z < 0)) z.natAbs 0 hm h0.2.1 with ⟨_, hov⟩ | ⟨m'', e'', hd, H⟩
    · exfalso
      have hL : Nat.log2 z.natAbs < 64 := (Nat.log2_lt hm).2 hz
      have : rpExp f z.natAbs 0 ≤ 63 := by unfold rpExp; push_cast; omega
      omega
    · refine ⟨m'', e'', hd, ?_⟩
      intro x nx mx ex hx
      have := H x nx mx ex hx
      rw [hmin, hZ] at this
      exact this
end Conv

namespace SF
/-- `truncVal` is the integer part: `(-1)^n·q` with `q = ⌊m·2^e⌋`, i.e. `q ≤ m·2^e < q+1` (cross-multiplied) -/
theorem truncVal_spec (n : Bool) (m : Nat) (e : Int) :
    ∃ q : Nat, truncVal n m e = sgnm n q ∧
      q * 2 ^ (-e).toNat ≤ m * 2 ^ e.toNat ∧ m * 2 ^ e.toNat < (q + 1) * 2 ^ (-e).toNat := by
  by_cases he : e ≥ 0
  · refine ⟨m * 2 ^ e.toNat, ?_, ?_, ?_⟩
    · unfold truncVal sgnm; simp only [he, if_true]
    · have : (-e).toNat = 0 := by omega
      rw [this]; simp
    · have : (-e).toNat = 0 := by omega
      rw [this]; simp
  · refine ⟨m / 2 ^ (-e).toNat, ?_, ?_, ?_⟩
    · unfold truncVal sgnm; simp only [he, if_false]
    · have : e.toNat = 0 := by omega
      rw [this, Nat.pow_zero, Nat.mul_one]
      exact Nat.div_mul_le_self _ _
    · have : e.toNat = 0 := by omega
      rw [this, Nat.pow_zero, Nat.mul_one]
      have := Nat.div_add_mod m (2 ^ (-e).toNat)
      have := Nat.mod_lt m (Nat.two_pow_pos (-e).toNat)
      rw [Nat.add_mul, Nat.one_mul, Nat.mul_comm]
      omega

/-- ties go to the even mantissa -/
theorem rneShift_tie_even (m k : Nat) (hk : 0 < k) (h : m % 2 ^ k = 2 ^ (k - 1)) : rneShift m k % 2 = 0 := by
  unfold rneShift
  rw [if_neg (by omega)]
  simp only [h, Nat.lt_irrefl, if_false, gt_iff_lt]
  split <;> omega
end SF

namespace Conv
open SF JD
/-- a stored number as the library can hold it -/
def NumOK : Num → Prop
  | .uint n => n < 2 ^ 64
  | .sint v => -(2 ^ 63 : Int) ≤ v ∧ v < 2 ^ 63
  | .f32 b => b < 2 ^ 32
  | .f64 b => b < 2 ^ 64

theorem srcOfNum_wf (n : Num) (h : NumOK n) : (srcOfNum n).WF := by
  cases n with
  | uint n =>
    simp only [srcOfNum]
    by_cases hc : n < 2 ^ 32
    · rw [if_pos hc]; exact ⟨Or.inl rfl, hc⟩
    · rw [if_neg hc]; exact ⟨Or.inr rfl, h⟩
  | sint v =>
    simp only [srcOfNum]
    by_cases hc : -(2 ^ 31 : Int) ≤ v ∧ v < 2 ^ 31
    · rw [if_pos hc]; exact ⟨Or.inl rfl, by simpa using hc.1, by simpa using hc.2⟩
    · rw [if_neg hc]; exact ⟨Or.inr rfl, by simpa using h.1, by simpa using h.2⟩
  | f32 b => exact h
  | f64 b => exact h
end Conv

/-! ## the integer-only comparisons agree with the order of the rationals -/
namespace SF
theorem rat_val_eq (s e E : Int) (h : E ≤ e) : (s : Rat) * (2 : Rat) ^ e = ((sv E s e : Int) : Rat) * (2 : Rat) ^ E := by
  unfold sv
  have he : e = (((e - E).toNat : Nat) : Int) + E := by omega
  rw [Rat.intCast_mul, Rat.intCast_pow, Rat.mul_assoc]
  congr 1
  conv => lhs; rw [he]
  rw [Rat.zpow_add (by decide), Rat.zpow_natCast]
  rfl

theorem rat_mul_le_mul_right {a b c : Rat} (hc : 0 < c) : a * c ≤ b * c ↔ a ≤ b := by
  rw [← Rat.not_lt, ← Rat.not_lt, Rat.mul_lt_mul_right hc]

/-- `DyLe` is the order of the rationals `s·2^e` -/
theorem DyLe_iff_rat (s1 e1 s2 e2 : Int) : DyLe s1 e1 s2 e2 ↔ (s1 : Rat) * (2 : Rat) ^ e1 ≤ (s2 : Rat) * (2 : Rat) ^ e2 := by
  rw [rat_val_eq s1 e1 (min e1 e2) (by omega), rat_val_eq s2 e2 (min e1 e2) (by omega),
    rat_mul_le_mul_right (Rat.zpow_pos (by decide)), Rat.intCast_le_intCast]
  exact Iff.rfl
theorem DyLt_iff_rat (s1 e1 s2 e2 : Int) : DyLt s1 e1 s2 e2 ↔ (s1 : Rat) * (2 : Rat) ^ e1 < (s2 : Rat) * (2 : Rat) ^ e2 := by
  rw [rat_val_eq s1 e1 (min e1 e2) (by omega), rat_val_eq s2 e2 (min e1 e2) (by omega),
    Rat.mul_lt_mul_right (Rat.zpow_pos (by decide)), Rat.intCast_lt_intCast]
  exact Iff.rfl
end SF
