/- Lemmas for the cross-format clause of C07 (JSON -> document -> MessagePack -> document):
   1. every number `parseNumber` produces fits its storage (`PNumOk`), hence every number node of a parsed document is `C09.NumOk`;
   2. the invariant `JOk` (no raw node, no repeated key, strings AND keys — quoted or not — within the string limit, numbers
      in range) and the size/consumption bound `size v ≤ bytes consumed`, pushed through `parseVariant / parseElems / parseMembers` for EVERY
      result code (`jok_mutual`);
   3. `C09.norm v` compares equal to `v` (`Cmp.compare`), for every value without NaN and without repeated keys. -/
import AJ.Lemmas.FloatText
import AJ.Lemmas.MsgPack
import AJ.Lemmas.JddMem
import AJ.Lemmas.CmpLemmas
import AJ.Lemmas.ConvLemmas
import AJ.Props.C09
import AJ.Lemmas.Depth
namespace CrossFormat
open JD SF

/-! ## 1. softfloat results fit their width -/

theorem roundPos64_lt (neg : Bool) (m : Nat) (e : Int) : roundPos b64 neg m e < 2^64 := by
  have hs : (if neg = true then (9223372036854775808 : Nat) else 0) ≤ 9223372036854775808 := by split <;> omega
  dsimp only [roundPos, b64, Fmt.signBit, Fmt.bias, Fmt.emax, infBits]
  split
  · simp only [Nat.reducePow, Nat.reduceAdd]; omega
  · have hmr := MsgPack.mr_le m e (max (e + ((Nat.log2 m + 1 : Nat) : Int) - ((52 : Nat) + 1)) (1 - ((2^(11-1) - 1 : Nat) : Int) - (52 : Nat))) 52 (by omega)
    generalize max (e + ((Nat.log2 m + 1 : Nat) : Int) - ((52 : Nat) + 1)) (1 - ((2^(11-1) - 1 : Nat) : Int) - (52 : Nat)) = E at hmr ⊢
    generalize (if E ≥ e then rneShift m (E - e).toNat else m * 2^((e - E).toNat)) = mr at hmr ⊢
    simp only [Nat.reducePow, Nat.reduceAdd, Nat.reduceSub, Nat.reduceMul] at hmr ⊢
    by_cases hge : mr ≥ 9007199254740992
    · simp only [if_pos hge]
      repeat' split
      all_goals omega
    · simp only [if_neg hge]
      repeat' split
      all_goals omega

theorem infBits64_lt (n : Bool) : infBits b64 n < 2^64 := by cases n <;> decide

theorem mul64_lt (a b : Nat) : mul b64 a b < 2^64 := by
  unfold mul
  split
  · decide
  · decide
  · exact infBits64_lt _
  · split
    · decide
    · exact infBits64_lt _
  · split
    · decide
    · exact infBits64_lt _
  · exact roundPos64_lt _ _ _

theorem mul32_lt (a b : Nat) : mul b32 a b < 2^32 := by
  unfold mul
  split
  · decide
  · decide
  · exact MsgPack.infBits32_lt _
  · split
    · decide
    · exact MsgPack.infBits32_lt _
  · split
    · decide
    · exact MsgPack.infBits32_lt _
  · exact MsgPack.roundPos32_lt _ _ _

/-- `make_float`: the result is the start value or a product -/
theorem makeFloat_go_bound (f : Fmt) (tbl : List Nat) (B : Nat) (hmul : ∀ a b, mul f a b < B) :
    ∀ fuel acc e idx r, acc < B → makeFloat.go f tbl fuel acc e idx = some r → r < B := by
  intro fuel
  induction fuel with
  | zero => intro acc e idx r ha h; simp only [makeFloat.go] at h; cases h; exact ha
  | succ n ih =>
    intro acc e idx r ha h
    simp only [makeFloat.go] at h
    split at h
    · cases h; exact ha
    · split at h
      · split at h
        · cases h
        · exact ih _ _ _ _ (hmul _ _) h
      · exact ih _ _ _ _ ha h

theorem makeFloat_bound (f : Fmt) (tp tn : List Nat) (B : Nat) (hmul : ∀ a b, mul f a b < B)
    (m : Nat) (e : Int) (r : Nat) (hm : m < B) (h : makeFloat f tp tn m e = some r) : r < B := by
  unfold makeFloat at h
  exact makeFloat_go_bound f _ B hmul _ _ _ _ _ hm h

theorem negBits64_lt (neg : Bool) (r : Nat) (h : r < 2^64) : negBits b64 neg r < 2^64 := by
  unfold negBits
  have : b64.signBit = 2^63 := by decide
  rw [this]
  repeat' split
  all_goals omega

theorem negBits32_lt (neg : Bool) (r : Nat) (h : r < 2^32) : negBits b32 neg r < 2^32 := by
  unfold negBits
  have : b32.signBit = 2^31 := by decide
  rw [this]
  repeat' split
  all_goals omega

/-- what `parseNumber` may answer: integers in the 64-bit ranges, bit patterns within their width -/
def PNumOk : PNum → Prop
  | .uint n => n < 2^64
  | .sint v => -2^63 ≤ v ∧ v ≤ 0
  | .f32 b => b < 2^32
  | .f64 b => b < 2^64
  | _ => True

theorem finish_ok (neg : Bool) (s : List Byte) (mant : Nat) (e : Int) : PNumOk (Digits.finish neg s mant e) := by
  have hvia : PNumOk (match makeFloat b64 pos64 neg64 (ofNat b64 mant) e with
      | none => PNum.fault
      | some r => .f64 (negBits b64 neg r)) := by
    split
    · trivial
    · rename_i r hr
      exact negBits64_lt _ _ (makeFloat_bound b64 _ _ (2^64) mul64_lt _ _ _ (roundPos64_lt _ _ _) hr)
  simp only [Digits.finish]
  split
  · trivial
  · split
    · exact negBits32_lt _ _ (by decide)
    · split
      · exact infBits64_lt _
      · split
        · exact negBits32_lt _ _ (by decide)
        · split
          · exact hvia
          · split
            · trivial
            · rename_i r hr
              split
              · exact hvia
              · exact negBits32_lt _ _ (makeFloat_bound b32 _ _ (2^32) mul32_lt _ _ _ (MsgPack.roundPos32_lt _ _ _) hr)

theorem isDigit_digitVal_le {c : Byte} (h : isDigit c = true) : digitVal c ≤ 9 := by
  rw [Digits.digitVal_eq]
  simp only [isDigit, Bool.and_eq_true, decide_eq_true_eq, UInt8.le_iff_toNat_le] at h
  have h2 : c.toNat ≤ 57 := h.2
  omega

theorem takeDigitsMant_le (maxU : Nat) (hU : 9 ≤ maxU) : ∀ (s : List Byte) (acc : Nat), acc ≤ maxU →
    (takeDigitsMant maxU acc s).1 ≤ maxU := by
  intro s
  induction s with
  | nil => intro acc h; exact h
  | cons c cs ih =>
    intro acc h
    simp only [takeDigitsMant]
    split
    · rename_i hd
      have := isDigit_digitVal_le hd
      split
      · exact h
      · split
        · exact h
        · exact ih _ (by omega)
    · exact h

theorem afterMant_ok (neg : Bool) (mant : Nat) (s : List Byte) (hm : mant < 2^64) : PNumOk (C07.afterMant neg mant s) := by
  simp only [C07.afterMant]
  split
  · exact hm
  · split
    · rename_i h
      simp only [Bool.and_eq_true, decide_eq_true_eq] at h
      exact ⟨by have := h.2; omega, by omega⟩
    · exact finish_ok _ _ _ _

theorem afterSign_ok (cfg : Cfg) (neg : Bool) (s' : List Byte) :
    PNumOk (if cfg.nan && (s'.headD 0 == 0x6E || s'.headD 0 == 0x4E) then .f64 (nanBits b64) else
      if cfg.inf && (s'.headD 0 == 0x69 || s'.headD 0 == 0x49) then .f64 (infBits b64 neg) else
      if !(isDigit (s'.headD 0)) && s'.headD 0 != 0x2E then .invalid else
      C07.afterMant neg (takeDigitsMant (2^64 - 1) 0 s').1 (takeDigitsMant (2^64 - 1) 0 s').2) := by
  split
  · show nanBits b64 < 2^64; decide
  · split
    · exact infBits64_lt _
    · split
      · trivial
      · have := takeDigitsMant_le (2^64 - 1) (by decide) s' 0 (by decide)
        exact afterMant_ok _ _ _ (by omega)

/-- every answer of `parseNumber` fits its storage -/
theorem parseNumber_ok (cfg : Cfg) (s : List Byte) : PNumOk (parseNumber cfg s) := by
  rw [C07.parseNumber_eq]
  split
  all_goals exact afterSign_ok cfg _ _


/-! ## 2. what the JSON parser produces: the invariant `JOk` and the size of a value -/

/-- only bytes that may appear in an unquoted key (a fact about `parseUnquoted`, `parseUnquoted_allUnq`; the invariant `JOk`
    does not need it any more: the parser applies the string limit to unquoted keys as well) -/
def AllUnq (k : List Byte) : Prop := ∀ c ∈ k, inUnquoted c = true

mutual
/-- no raw node, no repeated key, numbers within their storage, string values and ALL keys (quoted or unquoted) within `m`
    bytes: `parseMembers` stores a member only when the key code is Ok, and both `parseQuoted` and the unquoted branch answer
    NoMemory for a key longer than the string limit -/
def JOk (P : Num → Prop) (m : Nat) : Val → Prop
  | .raw _ => False
  | .num n => P n
  | .str s => s.length ≤ m
  | .arr xs => JOkL P m xs
  | .obj ms => (Cmp.keys ms).Nodup ∧ JOkM P m ms
  | _ => True
def JOkL (P : Num → Prop) (m : Nat) : List Val → Prop
  | [] => True
  | x :: r => JOk P m x ∧ JOkL P m r
def JOkM (P : Num → Prop) (m : Nat) : List (List Byte × Val) → Prop
  | [] => True
  | (k, v) :: r => k.length ≤ m ∧ JOk P m v ∧ JOkM P m r
end

mutual
/-- bytes of text a value accounts for: the bytes of its strings and keys, one byte per array element (`[` or `,`), one
    byte per member (`:`) -/
def size : Val → Nat
  | .str s => s.length
  | .raw s => s.length
  | .arr xs => sizeL xs
  | .obj ms => sizeM ms
  | _ => 0
def sizeL : List Val → Nat
  | [] => 0
  | x :: r => 1 + size x + sizeL r
def sizeM : List (List Byte × Val) → Nat
  | [] => 0
  | (k, v) :: r => 1 + k.length + size v + sizeM r
end

theorem jokL_iff (P : Num → Prop) (m : Nat) (xs : List Val) : JOkL P m xs ↔ ∀ x ∈ xs, JOk P m x := by
  induction xs with
  | nil => simp [JOkL]
  | cons x r ih => simp only [JOkL, ih, List.mem_cons, forall_eq_or_imp]

theorem jokL_reverse {P : Num → Prop} {m : Nat} {xs : List Val} (h : JOkL P m xs) : JOkL P m xs.reverse := by
  rw [jokL_iff] at h ⊢
  intro x hx; exact h x (List.mem_reverse.mp hx)

theorem sizeL_append (xs ys : List Val) : sizeL (xs ++ ys) = sizeL xs + sizeL ys := by
  induction xs with
  | nil => simp [sizeL]
  | cons x r ih => simp only [List.cons_append, sizeL, ih]; omega

theorem sizeL_reverse (xs : List Val) : sizeL xs.reverse = sizeL xs := by
  induction xs with
  | nil => rfl
  | cons x r ih => rw [List.reverse_cons, sizeL_append, ih]; simp only [sizeL]; omega

theorem keys_setMember (ms : List (List Byte × Val)) (k : List Byte) (v : Val) :
    Cmp.keys (setMember ms k v) = if k ∈ Cmp.keys ms then Cmp.keys ms else Cmp.keys ms ++ [k] := by
  induction ms with
  | nil => simp [setMember, Cmp.keys]
  | cons p r ih =>
    obtain ⟨k', v'⟩ := p
    simp only [setMember]
    by_cases e : k' = k
    · subst e; simp [Cmp.keys]
    · have hb : (k' == k) = false := by simp [e]
      have e' : ¬ k = k' := fun h => e h.symm
      rw [hb]
      simp only [Bool.false_eq_true, if_false]
      simp only [Cmp.keys, List.map_cons, List.mem_cons, e', false_or] at ih ⊢
      rw [ih]
      split <;> simp [*]

theorem keys_setMember_nodup {ms : List (List Byte × Val)} (k : List Byte) (v : Val) (h : (Cmp.keys ms).Nodup) :
    (Cmp.keys (setMember ms k v)).Nodup := by
  rw [keys_setMember]
  split
  · exact h
  · rename_i hk
    rw [List.nodup_append]
    exact ⟨h, List.nodup_singleton _, fun a ha b hb => by
      simp only [List.mem_singleton] at hb; subst hb; intro e; subst e; exact hk ha⟩

theorem jokM_setMember {P : Num → Prop} {m : Nat} {ms : List (List Byte × Val)} {k : List Byte} {v : Val}
    (h : JOkM P m ms) (hk : k.length ≤ m) (hv : JOk P m v) : JOkM P m (setMember ms k v) := by
  induction ms with
  | nil => simp only [setMember, JOkM]; exact ⟨hk, hv, trivial⟩
  | cons p r ih =>
    obtain ⟨k', v'⟩ := p
    simp only [JOkM] at h
    simp only [setMember]
    split
    · simp only [JOkM]; exact ⟨h.1, hv, h.2.2⟩
    · simp only [JOkM]; exact ⟨h.1, h.2.1, ih h.2.2⟩

theorem sizeM_setMember (ms : List (List Byte × Val)) (k : List Byte) (v : Val) :
    sizeM (setMember ms k v) ≤ sizeM ms + (1 + k.length + size v) := by
  induction ms with
  | nil => simp only [setMember, sizeM]; omega
  | cons p r ih =>
    obtain ⟨k', v'⟩ := p
    simp only [setMember]
    split
    · rename_i e
      have : k' = k := by simpa using e
      subst this
      simp only [sizeM]; omega
    · simp only [sizeM]; omega

theorem jok_obj_setMember {P : Num → Prop} {m : Nat} {ms : List (List Byte × Val)} {k : List Byte} {v : Val}
    (h : JOk P m (.obj ms)) (hk : k.length ≤ m) (hv : JOk P m v) : JOk P m (.obj (setMember ms k v)) := by
  simp only [JOk] at h ⊢
  exact ⟨keys_setMember_nodup k v h.1, jokM_setMember h.2 hk hv⟩

/-! ### the lexical routines -/

theorem parseQuoted_ok_len (cfg : Cfg) (stop : Byte) : ∀ fuel acc hi s,
    (parseQuoted cfg stop fuel acc hi s).1 = .ok → (parseQuoted cfg stop fuel acc hi s).2.1.length ≤ cfg.maxStrLen := by
  intro fuel
  induction fuel with
  | zero => intro acc hi s h; simp [parseQuoted] at h
  | succ f ih =>
    intro acc hi s
    simp only [parseQuoted]
    split
    · split
      · intro h; cases h
      · intro _; simp only [List.length_reverse]; omega
    · split
      · intro h; cases h
      · split
        · split
          · intro h; cases h
          · split
            · split
              · split
                · split
                  · exact ih _ _ _
                  · split
                    · exact ih _ _ _
                    · exact ih _ _ _
                · rename_i hne _
                  intro h; exact absurd h hne
              · exact ih _ _ _
            · split
              · intro h; cases h
              · exact ih _ _ _
        · exact ih _ _ _

theorem parseUnquoted_allUnq : ∀ fuel acc s, AllUnq acc → AllUnq (parseUnquoted fuel acc s).1 := by
  intro fuel
  induction fuel with
  | zero => intro acc s h c hc; exact h c (List.mem_reverse.mp hc)
  | succ f ih =>
    intro acc s h
    simp only [parseUnquoted]
    split
    · rename_i hc
      exact ih _ _ (fun c hc' => by
        rcases List.mem_cons.mp hc' with e | e
        · rw [e]; exact hc
        · exact h c e)
    · intro c hc; exact h c (List.mem_reverse.mp hc)

theorem numOk_storeDouble (b : Nat) (h : b < 2^64) : C09.NumOk (storeDouble b) := by
  unfold storeDouble
  have hc := MsgPack.cvt32_lt b
  split
  · exact h
  · dsimp only
    split
    · exact hc
    · split
      · exact hc
      · exact h

/-- a predicate on stored numbers, read on the answers of `parseNumber` (a double goes through `storeDouble`) -/
def PNumP (P : Num → Prop) : PNum → Prop
  | .uint n => P (.uint n)
  | .sint v => P (.sint v)
  | .f32 b => P (.f32 b)
  | .f64 b => P (storeDouble b)
  | _ => True

/-- a number token: the node satisfies whatever every answer of `parseNumber` satisfies -/
theorem parseNumeric_jok (cfg : Cfg) (P : Num → Prop) (m : Nat) (hP : ∀ buf, PNumP P (parseNumber cfg buf)) (s : St) :
    JOk P m (parseNumeric cfg s).2.1 := by
  unfold parseNumeric
  generalize scanNumber cfg (Gen.number_buffer - 1) [] s = r
  obtain ⟨buf, s'⟩ := r
  have hp := hP buf
  simp only
  split
  all_goals (rename_i heq; rw [heq] at hp)
  all_goals exact hp

/-- a number token has no size, and the reader only moves forward -/
theorem parseNumeric_mem (cfg : Cfg) (s : St) :
    size (parseNumeric cfg s).2.1 = 0 ∧ memE s ≤ memE (parseNumeric cfg s).2.2 := by
  unfold parseNumeric
  have h1 := mem_scanNumber cfg (Gen.number_buffer - 1) [] s
  generalize scanNumber cfg (Gen.number_buffer - 1) [] s = r at h1 ⊢
  obtain ⟨buf, s'⟩ := r
  simp only [List.length_nil, Nat.add_zero] at h1
  simp only
  split
  all_goals exact ⟨rfl, by simp only; omega⟩

/-- the storage bounds, as a `PNumP` -/
theorem parseNumber_numOk (cfg : Cfg) (buf : List Byte) : PNumP C09.NumOk (parseNumber cfg buf) := by
  have hp := parseNumber_ok cfg buf
  cases h : parseNumber cfg buf with
  | uint n => rw [h] at hp; exact hp
  | sint v => rw [h] at hp; exact ⟨hp.1, by have := hp.2; omega⟩
  | f32 b => rw [h] at hp; exact hp
  | f64 b => rw [h] at hp; exact numOk_storeDouble _ hp
  | invalid => trivial
  | fault => trivial

/-! ### the parser -/

/-- the result `r` of a routine started in state `s` with `c` bytes of credit: its value satisfies `JOk` and its size is
    paid for by the bytes consumed -/
def VOk (P : Num → Prop) (m : Nat) (s : St) (c : Nat) (r : Code × Val × St) : Prop :=
  JOk P m r.2.1 ∧ memE s + size r.2.1 ≤ memE r.2.2 + c

theorem vok_mk {P : Num → Prop} {m : Nat} {s : St} {c : Nat} {e : Code} {v : Val} {s' : St} (hj : JOk P m v)
    (hm : memE s + size v ≤ memE s' + c) : VOk P m s c (e, v, s') := ⟨hj, hm⟩

theorem vok_weaken {P : Num → Prop} {m : Nat} {s s1 : St} {c c1 : Nat} {r : Code × Val × St} (h : VOk P m s1 c1 r)
    (hm : memE s + c1 ≤ memE s1 + c) : VOk P m s c r := ⟨h.1, by have := h.2; omega⟩

theorem ne_zero_of_beq {c k : Byte} (h : (c == k) = true) (hk : k ≠ 0) : c ≠ 0 := by
  have : c = k := by simpa using h
  rw [this]; exact hk

theorem vok_keyword {P : Num → Prop} {m : Nat} {s0 s : St} (ks : List Byte) {v : Val} (hv : JOk P m v) (hs : size v = 0)
    (h : memE s0 ≤ memE s) : VOk P m s0 0 ((skipKeyword ks s).1, v, (skipKeyword ks s).2) :=
  ⟨hv, by have := mem_skipKeyword ks s; simp only [hs]; omega⟩

/-- what the key of a member costs -/
def KeyOk (m : Nat) (s : St) (kr : Code × List Byte × St) : Prop :=
  memE s ≤ memE kr.2.2 ∧
  (kr.1 = .ok → kr.2.1.length ≤ m ∧ memE s + kr.2.1.length ≤ memE kr.2.2)

set_option maxRecDepth 4000 in
theorem jok_mutual (cfg : Cfg) (P : Num → Prop) (hP : ∀ buf, PNumP P (parseNumber cfg buf)) : ∀ fuel,
    (∀ limit s, VOk P cfg.maxStrLen s 0 (parseVariant cfg fuel limit s)) ∧
    (∀ limit s acc, JOkL P cfg.maxStrLen acc →
      VOk P cfg.maxStrLen s (sizeL acc + 1) (parseElems cfg fuel limit s acc)) ∧
    (∀ limit s ms, JOk P cfg.maxStrLen (.obj ms) →
      VOk P cfg.maxStrLen s (sizeM ms) (parseMembers cfg fuel limit s ms)) := by
  intro fuel
  induction fuel with
  | zero =>
    refine ⟨?_, ?_, ?_⟩
    · intro limit s; simp only [parseVariant]; exact vok_mk (by simp only [JOk]) (by simp only [size]; omega)
    · intro limit s acc h; simp only [parseElems]
      exact vok_mk (by simp only [JOk]; exact jokL_reverse h) (by simp only [size, sizeL_reverse]; omega)
    · intro limit s ms h; simp only [parseMembers]; exact vok_mk h (by simp only [size]; omega)
  | succ f ih =>
    obtain ⟨ihV, ihE, ihM⟩ := ih
    have jnull : JOk P cfg.maxStrLen .null := by simp only [JOk]
    have jarr0 : JOk P cfg.maxStrLen (.arr []) := by simp only [JOk, JOkL]
    have jobj0 : JOk P cfg.maxStrLen (.obj []) := by simp only [JOk, JOkM, Cmp.keys, List.map_nil, List.nodup_nil, and_self]
    refine ⟨?_, ?_, ?_⟩
    · intro limit s
      simp only [parseVariant]
      have h0 := mem_skipSpaces cfg (f+1) s
      split
      · rename_i s1 heq; rw [heq] at h0; simp only at h0
        have h1 := mem_cur s1
        split
        · rename_i hc
          have hnz : (cur s1).1 ≠ 0 := ne_zero_of_beq hc (by decide)
          split
          · exact vok_mk jarr0 (by simp only [size, sizeL]; omega)
          · have h2 := mem_mv_cur s1 hnz
            have h3 := mem_skipSpaces cfg (f+1) (mv (cur s1).2)
            split
            · rename_i s2 heq2; rw [heq2] at h3; simp only at h3
              have h4 := mem_cur s2
              split
              · have h5 := mem_mv (cur s2).2
                exact vok_mk jarr0 (by simp only [size, sizeL]; omega)
              · exact vok_weaken (ihE _ _ [] (by simp only [JOkL])) (by simp only [sizeL]; omega)
            · rename_i heq2; rw [heq2] at h3; simp only at h3
              exact vok_mk jarr0 (by simp only [size, sizeL]; omega)
        · split
          · rename_i hc
            have hnz : (cur s1).1 ≠ 0 := ne_zero_of_beq hc (by decide)
            split
            · exact vok_mk jobj0 (by simp only [size, sizeM]; omega)
            · have h2 := mem_mv_cur s1 hnz
              have h3 := mem_skipSpaces cfg (f+1) (mv (cur s1).2)
              split
              · rename_i s2 heq2; rw [heq2] at h3; simp only at h3
                have h4 := mem_cur s2
                split
                · have h5 := mem_mv (cur s2).2
                  exact vok_mk jobj0 (by simp only [size, sizeM]; omega)
                · exact vok_weaken (ihM _ _ [] jobj0) (by simp only [sizeM]; omega)
              · rename_i heq2; rw [heq2] at h3; simp only at h3
                exact vok_mk jobj0 (by simp only [size, sizeM]; omega)
          · split
            · rename_i hq
              have hnz : (cur s1).1 ≠ 0 := by intro e; rw [e] at hq; exact absurd hq (by decide)
              have h2 := mem_mv_cur s1 hnz
              have hq1 := parseQuoted_ok_len cfg (cur s1).1 (f+1) [] 0 (mv (cur s1).2)
              have hq2 := mem_parseQuoted cfg (cur s1).1 hnz (f+1) [] 0 (mv (cur s1).2)
              split
              · rename_i str s2 heq2; rw [heq2] at hq1 hq2
                simp only [List.length_nil, true_or, if_true] at hq1 hq2
                exact vok_mk (by simp only [JOk]; exact hq1 trivial) (by simp only [size]; omega)
              · rename_i heq2; rw [heq2] at hq2
                simp only [List.length_nil] at hq2
                exact vok_mk jnull (by simp only [size]; omega)
            · split
              · exact vok_keyword _ (by simp only [JOk]) (by simp only [size]) (by omega)
              · split
                · exact vok_keyword _ (by simp only [JOk]) (by simp only [size]) (by omega)
                · split
                  · exact vok_keyword _ jnull (by simp only [size]) (by omega)
                  · have hn := parseNumeric_mem cfg (cur s1).2
                    exact ⟨parseNumeric_jok cfg P _ hP _, by rw [hn.1]; have := hn.2; omega⟩
      · rename_i heq; rw [heq] at h0; simp only at h0
        exact vok_mk jnull (by simp only [size]; omega)
    · intro limit s acc hacc
      simp only [parseElems]
      have h0 := ihV limit s
      split
      · rename_i v s1 heq; rw [heq] at h0
        obtain ⟨hv, hm⟩ := h0; simp only at hv hm
        have hacc' : JOkL P cfg.maxStrLen (v :: acc) := by simp only [JOkL]; exact ⟨hv, hacc⟩
        have hres : JOk P cfg.maxStrLen (.arr (v :: acc).reverse) := by simp only [JOk]; exact jokL_reverse hacc'
        have hsz : size (.arr (v :: acc).reverse) = 1 + size v + sizeL acc := by simp only [size, sizeL_reverse, sizeL]
        have h1 := mem_skipSpaces cfg (f+1) s1
        split
        · rename_i s2 heq2; rw [heq2] at h1; simp only at h1
          have h2 := mem_cur s2
          split
          · have := mem_mv (cur s2).2
            exact vok_mk hres (by rw [hsz]; omega)
          · split
            · rename_i hc
              have h3 := mem_mv_cur s2 (ne_zero_of_beq hc (by decide))
              exact vok_weaken (ihE _ _ _ hacc') (by simp only [sizeL]; omega)
            · exact vok_mk hres (by rw [hsz]; omega)
        · rename_i heq2; rw [heq2] at h1; simp only at h1
          exact vok_mk hres (by rw [hsz]; omega)
      · rename_i e v s1 hne heq; rw [heq] at h0
        obtain ⟨hv, hm⟩ := h0; simp only at hv hm
        have hacc' : JOkL P cfg.maxStrLen (v :: acc) := by simp only [JOkL]; exact ⟨hv, hacc⟩
        have hres : JOk P cfg.maxStrLen (.arr (v :: acc).reverse) := by simp only [JOk]; exact jokL_reverse hacc'
        have hsz : size (.arr (v :: acc).reverse) = 1 + size v + sizeL acc := by simp only [size, sizeL_reverse, sizeL]
        exact vok_mk hres (by rw [hsz]; omega)
    · intro limit s ms hms
      simp only [parseMembers]
      have hc := mem_cur s
      have hkey : KeyOk cfg.maxStrLen s (if ((cur s).1 == 0x22 || (cur s).1 == 0x27) = true then parseQuoted cfg (cur s).1 (f+1) [] 0 (mv (cur s).2)
            else if inUnquoted (cur s).1 = true then
              ((if (parseUnquoted (f+1) [] (cur s).2).1.length > cfg.maxStrLen then Code.noMemory else Code.ok), (parseUnquoted (f+1) [] (cur s).2).1, (parseUnquoted (f+1) [] (cur s).2).2)
            else (Code.invalid, [], (cur s).2)) := by
        split
        · rename_i hq
          have hnz : (cur s).1 ≠ 0 := by intro e; rw [e] at hq; exact absurd hq (by decide)
          have h2 := mem_mv_cur s hnz
          have hq1 := parseQuoted_ok_len cfg (cur s).1 (f+1) [] 0 (mv (cur s).2)
          have hq2 := mem_parseQuoted cfg (cur s).1 hnz (f+1) [] 0 (mv (cur s).2)
          generalize parseQuoted cfg (cur s).1 (f+1) [] 0 (mv (cur s).2) = r at hq1 hq2 ⊢
          obtain ⟨e, k, s'⟩ := r
          simp only [List.length_nil] at hq1 hq2
          exact ⟨by simp only; omega, fun he => by
            simp only at he; subst he
            simp only [true_or, if_true] at hq2
            exact ⟨hq1 rfl, by simp only; omega⟩⟩
        · split
          · have hu := mem_parseUnquoted (f+1) [] (cur s).2
            simp only [List.length_nil] at hu
            refine ⟨by simp only; omega, fun he => ⟨?_, by simp only; omega⟩⟩
            simp only at he ⊢
            split at he
            · cases he
            · omega
          · exact ⟨hc, fun h => by cases h⟩
      generalize (if ((cur s).1 == 0x22 || (cur s).1 == 0x27) = true then parseQuoted cfg (cur s).1 (f+1) [] 0 (mv (cur s).2)
            else if inUnquoted (cur s).1 = true then
              ((if (parseUnquoted (f+1) [] (cur s).2).1.length > cfg.maxStrLen then Code.noMemory else Code.ok), (parseUnquoted (f+1) [] (cur s).2).1, (parseUnquoted (f+1) [] (cur s).2).2)
            else (Code.invalid, [], (cur s).2)) = kr at hkey ⊢
      obtain ⟨kc, key, s1⟩ := kr
      obtain ⟨hk0, hk1⟩ := hkey
      simp only at hk0 hk1
      cases kc <;> simp only <;> try exact vok_mk hms (by simp only [size]; omega)
      have hk := hk1 rfl
      have h1 := mem_skipSpaces cfg (f+1) s1
      split
      · rename_i s2 heq; rw [heq] at h1; simp only at h1
        have h2 := mem_cur s2
        split
        · exact vok_mk hms (by simp only [size]; omega)
        · rename_i hcol
          have hnz : (cur s2).1 ≠ 0 := by intro e; rw [e] at hcol; exact hcol (by decide)
          have h3 := mem_mv_cur s2 hnz
          have h4 := ihV limit (mv (cur s2).2)
          split
          · rename_i v s3 heq3; rw [heq3] at h4
            obtain ⟨hv, hm⟩ := h4; simp only at hv hm
            have hms' := jok_obj_setMember hms hk.1 hv
            have hsz := sizeM_setMember ms key v
            have h5 := mem_skipSpaces cfg (f+1) s3
            split
            · rename_i s4 heq4; rw [heq4] at h5; simp only at h5
              have h6 := mem_cur s4
              have h7 := mem_mv (cur s4).2
              split
              · exact vok_mk hms' (by simp only [size]; omega)
              · split
                · have h8 := mem_skipSpaces cfg (f+1) (mv (cur s4).2)
                  split
                  · rename_i s5 heq6; rw [heq6] at h8; simp only at h8
                    exact vok_weaken (ihM _ _ _ hms') (by omega)
                  · rename_i heq6; rw [heq6] at h8; simp only at h8
                    exact vok_mk hms' (by simp only [size]; omega)
                · exact vok_mk hms' (by simp only [size]; omega)
            · rename_i heq4; rw [heq4] at h5; simp only at h5
              exact vok_mk hms' (by simp only [size]; omega)
          · rename_i e v s3 hne heq3; rw [heq3] at h4
            obtain ⟨hv, hm⟩ := h4; simp only at hv hm
            have hsz := sizeM_setMember ms key v
            exact vok_mk (jok_obj_setMember hms hk.1 hv) (by simp only [size]; omega)
      · rename_i heq; rw [heq] at h1; simp only at h1
        exact vok_mk hms (by simp only [size]; omega)


/-! ## 3. numbers: `normNum n` and `n` compare equal (`arithmeticCompare`), unless `n` is a NaN -/

open Cmp in
/-- the visitor's view of a number node -/
def nv : Num → Cmp.NumV
  | .uint n => .u n
  | .sint v => .i v
  | .f32 x => .d (cvt b32 b64 x)
  | .f64 x => .d x

theorem numOf_num (n : Num) : Cmp.numOf (.num n) = some (nv n) := by cases n <;> rfl

/-- two binary64 patterns that denote the same finite value (`+0` and `-0` included) -/
def SameVal (x y : Nat) : Prop :=
  ∃ n1 m1 e1 n2 m2 e2, decode b64 x = .fin n1 m1 e1 ∧ decode b64 y = .fin n2 m2 e2 ∧
    sv (emin b64) (sgnm n1 m1) e1 = sv (emin b64) (sgnm n2 m2) e2

theorem SameVal.symm {x y : Nat} (h : SameVal x y) : SameVal y x := by
  obtain ⟨n1, m1, e1, n2, m2, e2, a, b, c⟩ := h
  exact ⟨n2, m2, e2, n1, m1, e1, b, a, c.symm⟩

theorem SameVal.trans {x y z : Nat} (h1 : SameVal x y) (h2 : SameVal y z) : SameVal x z := by
  obtain ⟨n1, m1, e1, n2, m2, e2, a, b, c⟩ := h1
  obtain ⟨n2', m2', e2', n3, m3, e3, a', b', c'⟩ := h2
  rw [b] at a'
  injection a' with i1 i2 i3
  subst i1 i2 i3
  exact ⟨n1, m1, e1, n3, m3, e3, a, b', c.trans c'⟩

theorem isNaN_of_fin {f : Fmt} {x : Nat} {n : Bool} {m : Nat} {e : Int} (h : decode f x = .fin n m e) : isNaN f x = false := by
  unfold isNaN; rw [h]; rfl

theorem lt_false_of_sameVal {x y : Nat} (h : SameVal x y) : SF.lt b64 x y = false := by
  obtain ⟨n1, m1, e1, n2, m2, e2, a, b, c⟩ := h
  have b1 := (decode_fin_bounds b64 x n1 m1 e1 a).1
  have b2 := (decode_fin_bounds b64 y n2 m2 e2 b).1
  cases hl : SF.lt b64 x y with
  | false => rfl
  | true =>
    have := (DyLt_iff_sv (emin b64) _ _ _ _ b1 b2).mp ((lt_fin b64 x y n1 n2 m1 m2 e1 e2 a b).mp hl)
    omega

theorem dcmp_sameVal {x y : Nat} (h : SameVal x y) : Cmp.dcmp x y = .equal := by
  have h1 := lt_false_of_sameVal h
  have h2 := lt_false_of_sameVal h.symm
  obtain ⟨n1, m1, e1, n2, m2, e2, a, b, _⟩ := h
  unfold Cmp.dcmp SF.gt
  rw [h1, h2, isNaN_of_fin a, isNaN_of_fin b]; rfl

theorem lt_irrefl (f : Fmt) (x : Nat) : SF.lt f x x = false := by
  cases h : SF.lt f x x with
  | false => rfl
  | true => have := Cmp.sf_lt_asymm f x x h; rw [h] at this; cases this

theorem dcmp_self {x : Nat} (h : isNaN b64 x = false) : Cmp.dcmp x x = .equal := by
  unfold Cmp.dcmp SF.gt
  rw [lt_irrefl, h]; rfl

/-- `S·2^e = k` (cross-multiplied) rescaled to the exponent `E ≤ e` -/
theorem rescale (S k e E : Int) (hE : E ≤ e) (hE0 : E ≤ 0)
    (h : S * 2 ^ e.toNat = k * 2 ^ (-e).toNat) : S * 2 ^ (e - E).toNat = k * 2 ^ (-E).toNat := by
  by_cases he : 0 ≤ e
  · have e0 : (-e).toNat = 0 := by omega
    rw [e0, Int.pow_zero, Int.mul_one] at h
    have : (e - E).toNat = e.toNat + (-E).toNat := by omega
    rw [this, Int.pow_add, ← Int.mul_assoc, h]
  · have e0 : e.toNat = 0 := by omega
    rw [e0, Int.pow_zero, Int.mul_one] at h
    have : (-E).toNat = (-e).toNat + (e - E).toNat := by omega
    rw [this, Int.pow_add, ← Int.mul_assoc, h]

/-- the integer that `MD.encF32` writes for an integral float IS the value of the float: as doubles they denote the same value -/
theorem sameVal_f32Int {c : Nat} {k : Int} (h : C09.f32Int c = some k) :
    SameVal (Conv.ofInt b64 k) (cvt b32 b64 c) := by
  obtain ⟨neg, m, e, hd, hk⟩ := C09.f32Int_exact c k h
  obtain ⟨hk1, hk2⟩ := C09.f32Int_range c k h
  obtain ⟨m', e', hd', hle, hm'⟩ := Conv.cvt_32_64_exact c neg m e hd
  obtain ⟨m0, e0, hd0, hnear⟩ := Conv.ofInt_nearest b64 (Or.inr rfl) k (by omega)
  have hb' := (decode_fin_bounds b64 _ neg m' e' hd').1
  have hE : emin b64 = -1074 := by decide
  have hval : sv (emin b64) (sgnm neg m') e' = k * 2 ^ (-emin b64).toNat := by
    rw [sv_sgnm, hm', Nat.mul_assoc, ← Nat.pow_add]
    have : (e - e').toNat + (e' - emin b64).toNat = (e - emin b64).toNat := by omega
    rw [this, sgnm_mul]
    have := rescale (sgnm neg m) k e (emin b64) (by omega) (by omega) hk
    rw [← this]; simp
  have := hnear _ neg m' e' hd'
  rw [hval, Int.sub_self] at this
  have hz : sv (emin b64) (sgnm (decide (k < 0)) m0) e0 = k * 2 ^ (-emin b64).toNat := by
    simp only [Int.natAbs_zero, Nat.le_zero, Int.natAbs_eq_zero] at this; omega
  exact ⟨_, _, _, _, _, _, hd0, hd', hz.trans hval.symm⟩


def NoNaNNum : Num → Prop
  | .f32 b => isNaN b32 b = false
  | .f64 b => isNaN b64 b = false
  | _ => True

theorem arith_normInt_d (k : Int) (y : Nat) :
    Cmp.arith (nv (MD.normInt k)) (.d y) = Cmp.dcmp (Conv.ofInt b64 k) y := by
  rw [Cmp.arith_d_right]
  unfold MD.normInt
  split
  · rename_i h
    simp only [nv, Cmp.toDouble]
    have : ((k.toNat : Nat) : Int) = k := by omega
    rw [this]
  · rfl

theorem cvt32_64_notNaN {x : Nat} (h : isNaN b32 x = false) : isNaN b64 (cvt b32 b64 x) = false := by
  cases hd : decode b32 x with
  | nan => unfold isNaN at h; rw [hd] at h; cases h
  | inf n =>
    have : cvt b32 b64 x = infBits b64 n := by unfold cvt; rw [hd]
    rw [this]; unfold isNaN; rw [decode_inf]; rfl
  | fin n m e =>
    obtain ⟨m', e', hd', _⟩ := Conv.cvt_32_64_exact x n m e hd
    exact isNaN_of_fin hd'

theorem same64_cases {b : Nat} (h : C09.same64 b = true) :
    cvt b32 b64 (cvt b64 b32 b) = b ∨ SameVal (cvt b32 b64 (cvt b64 b32 b)) b := by
  unfold C09.same64 at h
  split at h
  · cases h
  · simp only [Bool.or_eq_true, beq_iff_eq] at h
    rcases h with hA | hZ
    · exact Or.inl hA
    · right
      split at hZ
      · rename_i n1 e1 n2 e2 h1 h2
        obtain ⟨m', e', hd', _, hm'⟩ := Conv.cvt_32_64_exact _ n2 0 e2 h2
        refine ⟨_, _, _, _, _, _, hd', h1, ?_⟩
        rw [hm']; simp [sv, sgnm]
      · cases hZ

/-- a number and its MessagePack normal form compare equal, whatever their storage — unless the number is a NaN -/
theorem num_cmp (n : Num) (h : NoNaNNum n) : Cmp.arith (nv (C09.normNum n)) (nv n) = .equal := by
  cases n with
  | uint n =>
    simp only [C09.normNum]
    split
    · simp only [nv]; rw [Cmp.arith_iu]; simp [Cmp.ordCR]
    · simp only [nv]; rw [Cmp.arith_uu]; simp [Cmp.ordCR]
  | sint v =>
    simp only [C09.normNum]
    unfold MD.normInt
    split
    · simp only [nv]; rw [Cmp.arith_ui]
      have : ((v.toNat : Nat) : Int) = v := by omega
      rw [this]; simp [Cmp.ordCR]
    · simp only [nv]; rw [Cmp.arith_ii]; simp [Cmp.ordCR]
  | f32 b =>
    simp only [C09.normNum]
    unfold C09.normF32
    cases hf : C09.f32Int b with
    | none =>
      simp only [nv]; rw [Cmp.arith_d_left]
      exact dcmp_self (cvt32_64_notNaN h)
    | some k =>
      simp only []
      show Cmp.arith (nv (MD.normInt k)) (.d (cvt b32 b64 b)) = .equal
      rw [arith_normInt_d]
      exact dcmp_sameVal (sameVal_f32Int hf)
  | f64 b =>
    simp only [C09.normNum]
    by_cases hs : C09.same64 b = true
    · rw [if_pos hs]
      unfold C09.normF32
      cases hf : C09.f32Int (cvt b64 b32 b) with
      | none =>
        simp only [nv]; rw [Cmp.arith_d_left]
        rcases same64_cases hs with hA | hB
        · rw [hA]; exact dcmp_self h
        · exact dcmp_sameVal hB
      | some k =>
        simp only []
        show Cmp.arith (nv (MD.normInt k)) (.d b) = .equal
        rw [arith_normInt_d]
        rcases same64_cases hs with hA | hB
        · have := sameVal_f32Int hf
          rw [hA] at this
          exact dcmp_sameVal this
        · exact dcmp_sameVal ((sameVal_f32Int hf).trans hB)
    · rw [if_neg hs, C09.storeDouble_of_not_same b (by simpa using hs)]
      simp only [nv]; rw [Cmp.arith_d_left]
      exact dcmp_self h

theorem num_cmp' (n : Num) (h : NoNaNNum n) : Cmp.arith (nv n) (nv (C09.normNum n)) = .equal := by
  rw [Cmp.arith_reverse, num_cmp n h]; rfl

/-- a NaN is the one value that does not compare equal to its own copy: `norm` leaves it as it is, and NaN ≠ NaN -/
theorem num_cmp_nan64 (b : Nat) (h : isNaN b64 b = true) :
    C09.normNum (.f64 b) = .f64 b ∧ Cmp.arith (nv (C09.normNum (.f64 b))) (nv (.f64 b)) = .differ := by
  have hs : C09.same64 b = false := by
    unfold C09.same64
    have : decode b64 b = .nan := by unfold isNaN at h; simpa using h
    rw [this]
  have e : C09.normNum (.f64 b) = .f64 b := by
    simp only [C09.normNum]; rw [if_neg (by simp [hs]), C09.storeDouble_of_not_same b hs]
  refine ⟨e, ?_⟩
  rw [e]; simp only [nv]; rw [Cmp.arith_d_left]
  exact Cmp.dcmp_nan _ _ (Or.inl h)

/-! ## 4. documents: `norm v` and `v` compare equal -/

mutual
/-- no NaN anywhere in the document -/
def NoNaN : Val → Prop
  | .num n => NoNaNNum n
  | .arr xs => NoNaNL xs
  | .obj ms => NoNaNM ms
  | _ => True
def NoNaNL : List Val → Prop
  | [] => True
  | x :: r => NoNaN x ∧ NoNaNL r
def NoNaNM : List (List Byte × Val) → Prop
  | [] => True
  | (_, v) :: r => NoNaN v ∧ NoNaNM r
end

theorem noNaNL_iff (xs : List Val) : NoNaNL xs ↔ ∀ x ∈ xs, NoNaN x := by
  induction xs with
  | nil => simp [NoNaNL]
  | cons x r ih => simp only [NoNaNL, ih, List.mem_cons, forall_eq_or_imp]

theorem noNaNM_iff (ms : List (List Byte × Val)) : NoNaNM ms ↔ ∀ p ∈ ms, NoNaN p.2 := by
  induction ms with
  | nil => simp [NoNaNM]
  | cons p r ih => obtain ⟨k, v⟩ := p; simp only [NoNaNM, ih, List.mem_cons, forall_eq_or_imp]

theorem compare_num_num (a b : Num) : Cmp.compare (.num a) (.num b) = Cmp.arith (nv a) (nv b) :=
  Cmp.compare_num _ _ _ _ (numOf_num a) (numOf_num b)

/-- `a == b` and `b == a` -/
def EqBoth (a b : Val) : Prop := Cmp.compare a b = .equal ∧ Cmp.compare b a = .equal

mutual
/-- the document with every number node rewritten by `fn`; nothing else changes -/
def mapNum (fn : Num → Num) : Val → Val
  | .null => .null
  | .bool b => .bool b
  | .num n => .num (fn n)
  | .str s => .str s
  | .raw s => .raw s
  | .arr xs => .arr (mapNumL fn xs)
  | .obj ms => .obj (mapNumM fn ms)
def mapNumL (fn : Num → Num) : List Val → List Val
  | [] => []
  | x :: r => mapNum fn x :: mapNumL fn r
def mapNumM (fn : Num → Num) : List (List Byte × Val) → List (List Byte × Val)
  | [] => []
  | (k, v) :: r => (k, mapNum fn v) :: mapNumM fn r
end

theorem mapNumL_eq_map (fn : Num → Num) (xs : List Val) : mapNumL fn xs = xs.map (mapNum fn) := by
  induction xs with
  | nil => rfl
  | cons x r ih => simp only [mapNumL, List.map_cons, ih]

theorem mapNumM_eq_map (fn : Num → Num) (ms : List (List Byte × Val)) :
    mapNumM fn ms = ms.map (fun p => (p.1, mapNum fn p.2)) := by
  induction ms with
  | nil => rfl
  | cons p r ih => obtain ⟨k, v⟩ := p; simp only [mapNumM, List.map_cons, ih]

theorem keys_mapNumM (fn : Num → Num) (ms : List (List Byte × Val)) : Cmp.keys (mapNumM fn ms) = Cmp.keys ms := by
  rw [mapNumM_eq_map]; simp [Cmp.keys, Function.comp_def]

/-- rewriting the number nodes by a map that keeps the VALUE of every non-NaN number gives a document that compares equal
    (both ways), provided no object repeats a key (with a repeated key a document does not even compare equal to itself:
    the member lookup takes the first match) -/
theorem mapNum_eqBoth_aux (fn : Num → Num)
    (hfn : ∀ n, NoNaNNum n → Cmp.arith (nv (fn n)) (nv n) = .equal ∧ Cmp.arith (nv n) (nv (fn n)) = .equal) :
    (∀ v, NoNaN v → Cmp.NoDupKeys v → EqBoth (mapNum fn v) v) := by
  intro v
  -- induction on the size of the value
  suffices H : ∀ n, ∀ v, sizeOf v ≤ n → NoNaN v → Cmp.NoDupKeys v → EqBoth (mapNum fn v) v from H _ v (Nat.le_refl _)
  intro n
  induction n with
  | zero => intro v hv; cases v <;> simp at hv
  | succ n ih =>
    intro v hv hn hd
    cases v with
    | null => simp only [mapNum]; exact ⟨(Cmp.compare_null _).mpr rfl, (Cmp.compare_null _).mpr rfl⟩
    | bool b =>
      simp only [mapNum]
      have : Cmp.compare (.bool b) (.bool b) = .equal := by
        rw [Cmp.compare_num _ _ (.b b) (.b b) rfl rfl]; cases b <;> rfl
      exact ⟨this, this⟩
    | num k =>
      simp only [mapNum]
      simp only [NoNaN] at hn
      exact ⟨by rw [compare_num_num]; exact (hfn k hn).1, by rw [compare_num_num]; exact (hfn k hn).2⟩
    | str s =>
      simp only [mapNum]
      have : Cmp.compare (.str s) (.str s) = .equal := by
        rw [Cmp.compare_str, (Cmp.stringCompare_eq_zero s s).mpr rfl]; rfl
      exact ⟨this, this⟩
    | raw s =>
      simp only [mapNum]
      have : Cmp.compare (.raw s) (.raw s) = .equal := by
        rw [Cmp.compare_raw, (Cmp.rawCompare_eq_zero s s).mpr rfl]; rfl
      exact ⟨this, this⟩
    | arr xs =>
      simp only [NoNaN] at hn
      simp only [Cmp.NoDupKeys] at hd
      have hel : ∀ x ∈ xs, EqBoth (mapNum fn x) x := by
        intro x hx
        have h1 : sizeOf x < sizeOf (Val.arr xs) := by
          have := List.sizeOf_lt_of_mem hx
          simp only [Val.arr.sizeOf_spec]; omega
        exact ih x (by omega) ((noNaNL_iff xs).mp hn x hx) (Cmp.ndL_mem xs hd x hx)
      simp only [mapNum, mapNumL_eq_map]
      constructor
      · rw [Cmp.compare_arr]
        refine ⟨by simp, fun i h1 h2 => ?_⟩
        rw [List.getElem_map]
        exact (hel _ (List.getElem_mem h2)).1
      · rw [Cmp.compare_arr]
        refine ⟨by simp, fun i h1 h2 => ?_⟩
        rw [List.getElem_map]
        exact (hel _ (List.getElem_mem h1)).2
    | obj ms =>
      simp only [NoNaN] at hn
      simp only [Cmp.NoDupKeys] at hd
      have hel : ∀ p ∈ ms, EqBoth (mapNum fn p.2) p.2 := by
        intro p hp
        have h1 : sizeOf p.2 < sizeOf (Val.obj ms) := by
          have := List.sizeOf_lt_of_mem hp
          have h2 : sizeOf p.2 < sizeOf p := by
            obtain ⟨k, w⟩ := p; simp only [Prod.mk.sizeOf_spec]; omega
          simp only [Val.obj.sizeOf_spec]; omega
        exact ih p.2 (by omega) ((noNaNM_iff ms).mp hn p hp) (Cmp.ndM_mem ms hd.2 p hp)
      have hk : (Cmp.keys (mapNumM fn ms)).Nodup := by rw [keys_mapNumM]; exact hd.1
      have hlen : (mapNumM fn ms).length = ms.length := by rw [mapNumM_eq_map]; simp
      simp only [mapNum]
      constructor
      · rw [Cmp.compare_obj]
        refine ⟨hlen.symm, fun p hp => ?_⟩
        refine ⟨mapNum fn p.2, Cmp.lookup_of_mem_nodup _ _ _ hk ?_, (hel p hp).2⟩
        rw [mapNumM_eq_map]
        exact List.mem_map.mpr ⟨p, hp, rfl⟩
      · rw [Cmp.compare_obj]
        refine ⟨hlen, fun p hp => ?_⟩
        rw [mapNumM_eq_map] at hp
        obtain ⟨q, hq, rfl⟩ := List.mem_map.mp hp
        exact ⟨q.2, Cmp.lookup_of_mem_nodup _ _ _ hd.1 hq, (hel q hq).1⟩

mutual
theorem norm_eq_mapNum : ∀ v : Val, C09.norm v = mapNum C09.normNum v
  | .null => by simp only [C09.norm, mapNum]
  | .bool _ => by simp only [C09.norm, mapNum]
  | .num _ => by simp only [C09.norm, mapNum]
  | .str _ => by simp only [C09.norm, mapNum]
  | .raw _ => by simp only [C09.norm, mapNum]
  | .arr xs => by simp only [C09.norm, mapNum, normElems_eq_mapNum xs]
  | .obj ms => by simp only [C09.norm, mapNum, normMembers_eq_mapNum ms]
theorem normElems_eq_mapNum : ∀ xs : List Val, C09.normElems xs = mapNumL C09.normNum xs
  | [] => by simp only [C09.normElems, mapNumL]
  | x :: r => by simp only [C09.normElems, mapNumL, norm_eq_mapNum x, normElems_eq_mapNum r]
theorem normMembers_eq_mapNum : ∀ ms : List (List Byte × Val), C09.normMembers ms = mapNumM C09.normNum ms
  | [] => by simp only [C09.normMembers, mapNumM]
  | (k, v) :: r => by simp only [C09.normMembers, mapNumM, norm_eq_mapNum v, normMembers_eq_mapNum r]
end

/-- `norm v == v` and `v == norm v` -/
theorem norm_eqBoth (v : Val) (hn : NoNaN v) (hd : Cmp.NoDupKeys v) : EqBoth (C09.norm v) v := by
  rw [norm_eq_mapNum]
  exact mapNum_eqBoth_aux C09.normNum (fun n h => ⟨num_cmp n h, num_cmp' n h⟩) v hn hd

/-- the integer normalisation of the JSON round trip (`C07.normInt`: a non-negative signed integer becomes unsigned) -/
def normIntNum : Num → Num
  | .sint v => if 0 ≤ v then .uint v.toNat else .sint v
  | n => n

theorem arith_self (n : Num) (h : NoNaNNum n) : Cmp.arith (nv n) (nv n) = .equal := by
  cases n with
  | uint k => simp only [nv]; rw [Cmp.arith_uu]; simp [Cmp.ordCR]
  | sint k => simp only [nv]; rw [Cmp.arith_ii]; simp [Cmp.ordCR]
  | f32 b => simp only [nv]; rw [Cmp.arith_d_left]; exact dcmp_self (cvt32_64_notNaN h)
  | f64 b => simp only [nv]; rw [Cmp.arith_d_left]; exact dcmp_self h

theorem normIntNum_cmp (n : Num) (h : NoNaNNum n) :
    Cmp.arith (nv (normIntNum n)) (nv n) = .equal ∧ Cmp.arith (nv n) (nv (normIntNum n)) = .equal := by
  have key : Cmp.arith (nv (normIntNum n)) (nv n) = .equal := by
    cases n with
    | sint v =>
      simp only [normIntNum]
      split
      · simp only [nv]; rw [Cmp.arith_ui]
        have : ((v.toNat : Nat) : Int) = v := by omega
        rw [this]; simp [Cmp.ordCR]
      · exact arith_self _ h
    | uint k => exact arith_self _ h
    | f32 b => exact arith_self _ h
    | f64 b => exact arith_self _ h
  exact ⟨key, by rw [Cmp.arith_reverse, key]; rfl⟩

mutual
theorem normInt_eq_mapNum : ∀ v : Val, C07.normInt v = mapNum normIntNum v
  | .null => by simp only [C07.normInt, mapNum]
  | .bool _ => by simp only [C07.normInt, mapNum]
  | .num (.sint _) => by simp only [C07.normInt, mapNum, normIntNum]; split <;> rfl
  | .num (.uint _) => by simp only [C07.normInt, mapNum, normIntNum]
  | .num (.f32 _) => by simp only [C07.normInt, mapNum, normIntNum]
  | .num (.f64 _) => by simp only [C07.normInt, mapNum, normIntNum]
  | .str _ => by simp only [C07.normInt, mapNum]
  | .raw _ => by simp only [C07.normInt, mapNum]
  | .arr xs => by simp only [C07.normInt, mapNum, normIntE_eq_mapNum xs]
  | .obj ms => by simp only [C07.normInt, mapNum, normIntM_eq_mapNum ms]
theorem normIntE_eq_mapNum : ∀ xs : List Val, C07.normIntE xs = mapNumL normIntNum xs
  | [] => by simp only [C07.normIntE, mapNumL]
  | x :: r => by simp only [C07.normIntE, mapNumL, normInt_eq_mapNum x, normIntE_eq_mapNum r]
theorem normIntM_eq_mapNum : ∀ ms : List (List Byte × Val), C07.normIntM ms = mapNumM normIntNum ms
  | [] => by simp only [C07.normIntM, mapNumM]
  | (k, v) :: r => by simp only [C07.normIntM, mapNumM, normInt_eq_mapNum v, normIntM_eq_mapNum r]
end

/-- `normInt v == v` and `v == normInt v` -/
theorem normInt_eqBoth (v : Val) (hn : NoNaN v) (hd : Cmp.NoDupKeys v) : EqBoth (C07.normInt v) v := by
  rw [normInt_eq_mapNum]
  exact mapNum_eqBoth_aux normIntNum normIntNum_cmp v hn hd

mutual
theorem noDup_of_c07 : ∀ v : Val, C07.NoDupKeys v → Cmp.NoDupKeys v
  | .null, _ => by simp only [Cmp.NoDupKeys]
  | .bool _, _ => by simp only [Cmp.NoDupKeys]
  | .num _, _ => by simp only [Cmp.NoDupKeys]
  | .str _, _ => by simp only [Cmp.NoDupKeys]
  | .raw _, _ => by simp only [Cmp.NoDupKeys]
  | .arr xs, h => by simp only [C07.NoDupKeys] at h; simp only [Cmp.NoDupKeys]; exact noDupL_of_c07 xs h
  | .obj ms, h => by
    simp only [C07.NoDupKeys] at h; simp only [Cmp.NoDupKeys]; exact ⟨h.1, noDupM_of_c07 ms h.2⟩
theorem noDupL_of_c07 : ∀ xs : List Val, C07.NoDupE xs → Cmp.NoDupKeys.ndL xs
  | [], _ => by simp only [Cmp.NoDupKeys.ndL]
  | x :: r, h => by
    simp only [C07.NoDupE] at h; simp only [Cmp.NoDupKeys.ndL]
    exact ⟨noDup_of_c07 x h.1, noDupL_of_c07 r h.2⟩
theorem noDupM_of_c07 : ∀ ms : List (List Byte × Val), C07.NoDupM ms → Cmp.NoDupKeys.ndM ms
  | [], _ => by simp only [Cmp.NoDupKeys.ndM]
  | (k, v) :: r, h => by
    simp only [C07.NoDupM] at h; simp only [Cmp.NoDupKeys.ndM]
    exact ⟨noDup_of_c07 v h.1, noDupM_of_c07 r h.2⟩
end

mutual
/-- a document without float nodes has no NaN -/
theorem noNaN_of_noFloat : ∀ v : Val, C07.NoFloat v → NoNaN v
  | .null, _ => by simp only [NoNaN]
  | .bool _, _ => by simp only [NoNaN]
  | .num (.uint _), _ => by simp only [NoNaN, NoNaNNum]
  | .num (.sint _), _ => by simp only [NoNaN, NoNaNNum]
  | .num (.f32 _), h => by simp [C07.NoFloat, C07.AllV, C07.FloatFreeS] at h
  | .num (.f64 _), h => by simp [C07.NoFloat, C07.AllV, C07.FloatFreeS] at h
  | .str _, _ => by simp only [NoNaN]
  | .raw _, _ => by simp only [NoNaN]
  | .arr xs, h => by
    simp only [C07.NoFloat, C07.AllV] at h; simp only [NoNaN]; exact noNaNL_of_noFloat xs h
  | .obj ms, h => by
    simp only [C07.NoFloat, C07.AllV] at h; simp only [NoNaN]; exact noNaNM_of_noFloat ms h
theorem noNaNL_of_noFloat : ∀ xs : List Val, C07.AllE C07.FloatFreeS (fun _ => True) xs → NoNaNL xs
  | [], _ => by simp only [NoNaNL]
  | x :: r, h => by
    simp only [C07.AllE] at h; simp only [NoNaNL]
    exact ⟨noNaN_of_noFloat x h.1, noNaNL_of_noFloat r h.2⟩
theorem noNaNM_of_noFloat : ∀ ms : List (List Byte × Val), C07.AllM C07.FloatFreeS (fun _ => True) ms → NoNaNM ms
  | [], _ => by simp only [NoNaNM]
  | (k, v) :: r, h => by
    simp only [C07.AllM] at h; simp only [NoNaNM]
    exact ⟨noNaN_of_noFloat v h.2.1, noNaNM_of_noFloat r h.2.2⟩
end

/-! ## 5. the result of `JD.run`, and what the MessagePack theorems need -/

theorem run_jok (cfg : Cfg) (P : Num → Prop) (hP : ∀ buf, PNumP P (parseNumber cfg buf)) (L : Nat) (t : List Byte) :
    JOk P cfg.maxStrLen (JD.run cfg L t).2.1 ∧ size (JD.run cfg L t).2.1 ≤ (JD.run cfg L t).2.2 := by
  have h := (jok_mutual cfg P hP (2 * t.length + 4)).1 L ({ l := { unread := t } } : St)
  have h0 : memE ({ l := { unread := t } } : St) = 1 := rfl
  simp only [JD.run]
  split
  · rename_i v s heq; rw [heq] at h
    obtain ⟨hj, hm⟩ := h; simp only at hj hm
    have := mem_E_le s
    split <;> exact ⟨hj, by simp only; omega⟩
  · rename_i e v s hne heq; rw [heq] at h
    obtain ⟨hj, hm⟩ := h; simp only at hj hm
    have := mem_E_le s
    exact ⟨hj, by simp only; omega⟩

mutual
theorem rawFree_of_jok {P : Num → Prop} {m : Nat} : ∀ v, JOk P m v → C09.RawFree v
  | .null, _ => by simp only [C09.RawFree]
  | .bool _, _ => by simp only [C09.RawFree]
  | .num _, _ => by simp only [C09.RawFree]
  | .str _, _ => by simp only [C09.RawFree]
  | .raw _, h => by simp only [JOk] at h
  | .arr xs, h => by simp only [JOk] at h; simp only [C09.RawFree]; exact rawFreeL_of_jok xs h
  | .obj ms, h => by simp only [JOk] at h; simp only [C09.RawFree]; exact rawFreeM_of_jok ms h.2
theorem rawFreeL_of_jok {P : Num → Prop} {m : Nat} : ∀ xs, JOkL P m xs → C09.RawFreeElems xs
  | [], _ => by simp only [C09.RawFreeElems]
  | x :: r, h => by
    simp only [JOkL] at h; simp only [C09.RawFreeElems]
    exact ⟨rawFree_of_jok x h.1, rawFreeL_of_jok r h.2⟩
theorem rawFreeM_of_jok {P : Num → Prop} {m : Nat} : ∀ ms, JOkM P m ms → C09.RawFreeMembers ms
  | [], _ => by simp only [C09.RawFreeMembers]
  | (k, v) :: r, h => by
    simp only [JOkM] at h; simp only [C09.RawFreeMembers]
    exact ⟨rawFree_of_jok v h.2.1, rawFreeM_of_jok r h.2.2⟩
end

mutual
theorem noDup_of_jok {P : Num → Prop} {m : Nat} : ∀ v, JOk P m v → Cmp.NoDupKeys v
  | .null, _ => by simp only [Cmp.NoDupKeys]
  | .bool _, _ => by simp only [Cmp.NoDupKeys]
  | .num _, _ => by simp only [Cmp.NoDupKeys]
  | .str _, _ => by simp only [Cmp.NoDupKeys]
  | .raw _, _ => by simp only [Cmp.NoDupKeys]
  | .arr xs, h => by simp only [JOk] at h; simp only [Cmp.NoDupKeys]; exact noDupL_of_jok xs h
  | .obj ms, h => by simp only [JOk] at h; simp only [Cmp.NoDupKeys]; exact ⟨h.1, noDupM_of_jok ms h.2⟩
theorem noDupL_of_jok {P : Num → Prop} {m : Nat} : ∀ xs, JOkL P m xs → Cmp.NoDupKeys.ndL xs
  | [], _ => by simp only [Cmp.NoDupKeys.ndL]
  | x :: r, h => by
    simp only [JOkL] at h; simp only [Cmp.NoDupKeys.ndL]
    exact ⟨noDup_of_jok x h.1, noDupL_of_jok r h.2⟩
theorem noDupM_of_jok {P : Num → Prop} {m : Nat} : ∀ ms, JOkM P m ms → Cmp.NoDupKeys.ndM ms
  | [], _ => by simp only [Cmp.NoDupKeys.ndM]
  | (k, v) :: r, h => by
    simp only [JOkM] at h; simp only [Cmp.NoDupKeys.ndM]
    exact ⟨noDup_of_jok v h.2.1, noDupM_of_jok r h.2.2⟩
end

mutual
/-- every key of every object has at most `n` bytes -/
def KeysWithin (n : Nat) : Val → Prop
  | .arr xs => KeysWithinL n xs
  | .obj ms => KeysWithinM n ms
  | _ => True
def KeysWithinL (n : Nat) : List Val → Prop
  | [] => True
  | x :: r => KeysWithin n x ∧ KeysWithinL n r
def KeysWithinM (n : Nat) : List (List Byte × Val) → Prop
  | [] => True
  | (k, v) :: r => k.length ≤ n ∧ KeysWithin n v ∧ KeysWithinM n r
end

mutual
/-- keys are part of the text: a document of size `≤ n` has no key longer than `n` -/
theorem keysWithin_of_size {n : Nat} : ∀ v, size v ≤ n → KeysWithin n v
  | .null, _ => by simp only [KeysWithin]
  | .bool _, _ => by simp only [KeysWithin]
  | .num _, _ => by simp only [KeysWithin]
  | .str _, _ => by simp only [KeysWithin]
  | .raw _, _ => by simp only [KeysWithin]
  | .arr xs, h => by simp only [size] at h; simp only [KeysWithin]; exact keysWithinL_of_size xs h
  | .obj ms, h => by simp only [size] at h; simp only [KeysWithin]; exact keysWithinM_of_size ms h
theorem keysWithinL_of_size {n : Nat} : ∀ xs, sizeL xs ≤ n → KeysWithinL n xs
  | [], _ => by simp only [KeysWithinL]
  | x :: r, h => by
    simp only [sizeL] at h; simp only [KeysWithinL]
    exact ⟨keysWithin_of_size x (by omega), keysWithinL_of_size r (by omega)⟩
theorem keysWithinM_of_size {n : Nat} : ∀ ms, sizeM ms ≤ n → KeysWithinM n ms
  | [], _ => by simp only [KeysWithinM]
  | (k, v) :: r, h => by
    simp only [sizeM] at h; simp only [KeysWithinM]
    exact ⟨by omega, keysWithin_of_size v (by omega), keysWithinM_of_size r (by omega)⟩
end

mutual
theorem keysWithin_mono {n n' : Nat} (hn : n ≤ n') : ∀ v, KeysWithin n v → KeysWithin n' v
  | .null, _ => by simp only [KeysWithin]
  | .bool _, _ => by simp only [KeysWithin]
  | .num _, _ => by simp only [KeysWithin]
  | .str _, _ => by simp only [KeysWithin]
  | .raw _, _ => by simp only [KeysWithin]
  | .arr xs, h => by simp only [KeysWithin] at h ⊢; exact keysWithinL_mono hn xs h
  | .obj ms, h => by simp only [KeysWithin] at h ⊢; exact keysWithinM_mono hn ms h
theorem keysWithinL_mono {n n' : Nat} (hn : n ≤ n') : ∀ xs, KeysWithinL n xs → KeysWithinL n' xs
  | [], _ => by simp only [KeysWithinL]
  | x :: r, h => by
    simp only [KeysWithinL] at h ⊢
    exact ⟨keysWithin_mono hn x h.1, keysWithinL_mono hn r h.2⟩
theorem keysWithinM_mono {n n' : Nat} (hn : n ≤ n') : ∀ ms, KeysWithinM n ms → KeysWithinM n' ms
  | [], _ => by simp only [KeysWithinM]
  | (k, v) :: r, h => by
    simp only [KeysWithinM] at h ⊢
    exact ⟨by omega, keysWithin_mono hn v h.2.1, keysWithinM_mono hn r h.2.2⟩
end

theorem length_le_sizeL (xs : List Val) : xs.length ≤ sizeL xs := by
  induction xs with
  | nil => simp [sizeL]
  | cons x r ih => simp only [List.length_cons, sizeL]; omega

theorem length_le_sizeM (ms : List (List Byte × Val)) : ms.length ≤ sizeM ms := by
  induction ms with
  | nil => simp [sizeM]
  | cons p r ih => obtain ⟨k, v⟩ := p; simp only [List.length_cons, sizeM]; omega

mutual
/-- every key of a document that satisfies `JOk … m` has at most `m` bytes -/
theorem keysWithin_of_jok {P : Num → Prop} {m : Nat} : ∀ v, JOk P m v → KeysWithin m v
  | .null, _ => by simp only [KeysWithin]
  | .bool _, _ => by simp only [KeysWithin]
  | .num _, _ => by simp only [KeysWithin]
  | .str _, _ => by simp only [KeysWithin]
  | .raw _, _ => by simp only [KeysWithin]
  | .arr xs, h => by simp only [JOk] at h; simp only [KeysWithin]; exact keysWithinL_of_jok xs h
  | .obj ms, h => by simp only [JOk] at h; simp only [KeysWithin]; exact keysWithinM_of_jok ms h.2
theorem keysWithinL_of_jok {P : Num → Prop} {m : Nat} : ∀ xs, JOkL P m xs → KeysWithinL m xs
  | [], _ => by simp only [KeysWithinL]
  | x :: r, h => by
    simp only [JOkL] at h; simp only [KeysWithinL]
    exact ⟨keysWithin_of_jok x h.1, keysWithinL_of_jok r h.2⟩
theorem keysWithinM_of_jok {P : Num → Prop} {m : Nat} : ∀ ms, JOkM P m ms → KeysWithinM m ms
  | [], _ => by simp only [KeysWithinM]
  | (k, v) :: r, h => by
    simp only [JOkM] at h; simp only [KeysWithinM]
    exact ⟨h.1, keysWithin_of_jok v h.2.1, keysWithinM_of_jok r h.2.2⟩
end

mutual
/-- what `C09.roundtrip` asks of a document, from what the JSON parser guarantees: strings and keys within the limit of the
    MessagePack deserializer (`m ≤ env.maxStrLen`), and a total size below `2^32` -/
theorem within_of_jok (env : MD.Env) {P : Num → Prop} (hP : ∀ n, P n → C09.NumOk n) {m : Nat} (hm : m ≤ env.maxStrLen) :
    ∀ v, JOk P m v → size v < 2^32 → C09.WithinLimits env v
  | .null, _, _ => by simp only [C09.WithinLimits]
  | .bool _, _, _ => by simp only [C09.WithinLimits]
  | .num n, h, _ => by simp only [JOk] at h; simp only [C09.WithinLimits]; exact hP n h
  | .str s, h, hs => by
    simp only [JOk] at h; simp only [size] at hs; simp only [C09.WithinLimits]; exact ⟨by omega, hs⟩
  | .raw _, h, _ => by simp only [JOk] at h
  | .arr xs, h, hs => by
    simp only [JOk] at h; simp only [size] at hs
    simp only [C09.WithinLimits]
    exact ⟨by have := length_le_sizeL xs; omega, withinL_of_jok env hP hm xs h hs⟩
  | .obj ms, h, hs => by
    simp only [JOk] at h; simp only [size] at hs
    simp only [C09.WithinLimits]
    exact ⟨by have := length_le_sizeM ms; omega, withinM_of_jok env hP hm ms h.2 hs⟩
theorem withinL_of_jok (env : MD.Env) {P : Num → Prop} (hP : ∀ n, P n → C09.NumOk n) {m : Nat} (hm : m ≤ env.maxStrLen) :
    ∀ xs, JOkL P m xs → sizeL xs < 2^32 → C09.WithinLimitsElems env xs
  | [], _, _ => by simp only [C09.WithinLimitsElems]
  | x :: r, h, hs => by
    simp only [JOkL] at h; simp only [sizeL] at hs
    simp only [C09.WithinLimitsElems]
    exact ⟨within_of_jok env hP hm x h.1 (by omega), withinL_of_jok env hP hm r h.2 (by omega)⟩
theorem withinM_of_jok (env : MD.Env) {P : Num → Prop} (hP : ∀ n, P n → C09.NumOk n) {m : Nat} (hm : m ≤ env.maxStrLen) :
    ∀ ms, JOkM P m ms → sizeM ms < 2^32 → C09.WithinLimitsMembers env ms
  | [], _, _ => by simp only [C09.WithinLimitsMembers]
  | (k, v) :: r, h, hs => by
    simp only [JOkM] at h; simp only [sizeM] at hs
    simp only [C09.WithinLimitsMembers]
    exact ⟨⟨Nat.le_trans h.1 hm, by omega⟩, within_of_jok env hP hm v h.2.1 (by omega), withinM_of_jok env hP hm r h.2.2 (by omega)⟩
end

mutual
theorem depth09_eq : ∀ v : Val, C09.depth v = C15.depth v
  | .null => by simp [C09.depth]
  | .bool _ => by simp [C09.depth]
  | .num _ => by simp [C09.depth]
  | .str _ => by simp [C09.depth]
  | .raw _ => by simp [C09.depth]
  | .arr xs => by rw [C15.depth_arr]; simp only [C09.depth]; rw [depth09L_eq xs]; omega
  | .obj ms => by rw [C15.depth_obj]; simp only [C09.depth]; rw [depth09M_eq ms]; omega
theorem depth09L_eq : ∀ xs : List Val, C09.depthElems xs = C15.depthList xs
  | [] => by simp [C09.depthElems]
  | x :: r => by simp only [C09.depthElems, C15.depthList]; rw [depth09_eq x, depth09L_eq r]
theorem depth09M_eq : ∀ ms : List (List Byte × Val), C09.depthMembers ms = C15.depthMembers ms
  | [] => by simp [C09.depthMembers]
  | (k, v) :: r => by simp only [C09.depthMembers, C15.depthMembers]; rw [depth09_eq v, depth09M_eq r]
end

end CrossFormat
