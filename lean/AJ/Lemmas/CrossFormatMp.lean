/- What the MessagePack deserializer model produces (filter or not, any result code): integers within 64 bits, string values and
   keys within the string limit of the deserializer. Pushed through `MD.parseVariant / readArray / readObject` with the
   same skeleton as `C15.okm_variant_step` (AJ/Lemmas/Depth.lean). Used by AJ/Props/C07Cross.lean (`msgpack_values`). -/
import AJ.Lemmas.JsonRoundTrip
import AJ.Lemmas.Depth
namespace CrossFormat
open JD MD

/-- scalar nodes: integers within 64 bits, strings within `M` bytes -/
def MS (M : Nat) (v : Val) : Prop := C07.IntOkS v ∧ C07.StrOkS M v
/-- the whole document, keys included -/
def MOk (M : Nat) (v : Val) : Prop := C07.AllV (MS M) (fun k => k.length ≤ M) v
def MOkL (M : Nat) (xs : List Val) : Prop := C07.AllE (MS M) (fun k => k.length ≤ M) xs
def MOkM (M : Nat) (ms : List (List Byte × Val)) : Prop := C07.AllM (MS M) (fun k => k.length ≤ M) ms

def MV (M : Nat) (r : Code × Val × R × Bool) : Prop := MOk M r.2.1
def MA (M : Nat) (x : Code × List Val × R) : Prop := MOkL M x.2.1
def MO (M : Nat) (x : Code × List (List Byte × Val) × R) : Prop := MOkM M x.2.1

theorem mv_mk {M : Nat} {e : Code} {v : Val} {s : R} {b : Bool} (h : MOk M v) : MV M (e, v, s, b) := h
theorem mv_ite {M : Nat} {c : Prop} [Decidable c] {a b : Code × Val × R × Bool}
    (ha : c → MV M a) (hb : ¬ c → MV M b) : MV M (if c then a else b) := by
  by_cases h : c
  · rw [if_pos h]; exact ha h
  · rw [if_neg h]; exact hb h

theorem mok_null (M : Nat) : MOk M .null := by simp [MOk, C07.AllV, MS, C07.IntOkS, C07.StrOkS]
theorem mok_bool (M : Nat) (b : Bool) : MOk M (.bool b) := by simp [MOk, C07.AllV, MS, C07.IntOkS, C07.StrOkS]
theorem mok_raw (M : Nat) (s : List Byte) : MOk M (.raw s) := by simp [MOk, C07.AllV, MS, C07.IntOkS, C07.StrOkS]
theorem mok_f32 (M : Nat) (b : Nat) : MOk M (.num (.f32 b)) := by simp [MOk, C07.AllV, MS, C07.IntOkS, C07.StrOkS]
theorem mok_f64 (M : Nat) (b : Nat) : MOk M (.num (.f64 b)) := by simp [MOk, C07.AllV, MS, C07.IntOkS, C07.StrOkS]
theorem mok_storeDouble (M : Nat) (b : Nat) : MOk M (.num (storeDouble b)) := by
  unfold storeDouble
  split
  · exact mok_f64 M b
  · dsimp only
    split
    · exact mok_f32 M _
    · split
      · exact mok_f32 M _
      · exact mok_f64 M b
theorem mok_str (M : Nat) (s : List Byte) (h : s.length ≤ M) : MOk M (.str s) := by
  simp [MOk, C07.AllV, MS, C07.IntOkS, C07.StrOkS, h]
theorem mok_sint (M : Nat) (v : Int) (h1 : -(2 ^ 63 : Int) ≤ v) (h2 : v < 2 ^ 64) : MOk M (.num (.sint v)) := by
  simp only [MOk, C07.AllV, MS, C07.IntOkS, C07.StrOkS, and_true]; exact ⟨h1, h2⟩
theorem mok_uint (M : Nat) (n : Nat) (h : n < 2 ^ 64) : MOk M (.num (.uint n)) := by
  simp only [MOk, C07.AllV, MS, C07.IntOkS, C07.StrOkS, and_true]; exact h
theorem mok_ite (M : Nat) (c : Bool) (a b : Val) (ha : MOk M a) (hb : MOk M b) : MOk M (if c then a else b) := by
  cases c <;> simp [ha, hb]

theorem beNat_lt : ∀ (bs : List Byte) (a : Nat), bs.foldl (fun a b => a * 256 + b.toNat) a < (a + 1) * 256 ^ bs.length := by
  intro bs
  induction bs with
  | nil => intro a; simp
  | cons b r ih =>
    intro a
    have hb := b.toNat_lt
    have := ih (a * 256 + b.toNat)
    simp only [List.foldl_cons, List.length_cons]
    have h2 : (a * 256 + b.toNat + 1) * 256 ^ r.length ≤ (a + 1) * 256 ^ (r.length + 1) := by
      rw [Nat.pow_succ, ← Nat.mul_assoc, Nat.mul_right_comm]
      exact Nat.mul_le_mul_right _ (by omega)
    omega

theorem beNat_lt_pow (bs : List Byte) : beNat bs < 256 ^ bs.length := by
  have := beNat_lt bs 0
  simpa [beNat] using this

theorem mok_readInteger (M : Nat) (bs : List Byte) (sg : Bool) (h : bs.length ≤ 8) : MOk M (readInteger bs sg) := by
  have hu := beNat_lt_pow bs
  have h256 : (256 : Nat) ^ bs.length = 2 ^ (8 * bs.length) := by
    rw [show (256 : Nat) = 2 ^ 8 by decide, ← Nat.pow_mul]
  have hle : 2 ^ (8 * bs.length) ≤ 2 ^ 64 := Nat.pow_le_pow_right (by decide) (by omega)
  unfold readInteger
  simp only
  split
  · apply mok_sint
    · split
      · have hpos : (0 : Int) ≤ Int.ofNat (beNat bs) := Int.natCast_nonneg _
        have : ((2 ^ (8 * bs.length) : Nat) : Int) ≤ ((2 ^ 64 : Nat) : Int) := by exact_mod_cast hle
        have e : Int.ofNat (2 ^ (8 * bs.length)) = ((2 ^ (8 * bs.length) : Nat) : Int) := rfl
        rw [e]
        have h63 : ((2 ^ 64 : Nat) : Int) = 2 ^ 64 := by norm_cast
        rename_i hge
        by_cases hz : bs.length = 0
        · simp [hz] at hge ⊢
          have : beNat bs < 1 := by simpa [hz] using hu
          omega
        · -- half = 2^(8w-1) ≥ 2^(8w) / 2, full - half ≤ 2^63
          have hhalf : 2 * 2 ^ (8 * bs.length - 1) = 2 ^ (8 * bs.length) := by
            rw [← Nat.pow_succ']; congr 1; omega
          have hle' : 2 ^ (8 * bs.length - 1) ≤ 2 ^ 63 := Nat.pow_le_pow_right (by decide) (by omega)
          have hge' : 2 ^ (8 * bs.length - 1) ≤ beNat bs := hge
          have e2 : Int.ofNat (beNat bs) = ((beNat bs : Nat) : Int) := rfl
          rw [e2]
          have : ((2 ^ (8 * bs.length) : Nat) : Int) = 2 * ((2 ^ (8 * bs.length - 1) : Nat) : Int) := by
            rw [← hhalf]; push_cast; ring_nf
          omega
      · have : (0 : Int) ≤ Int.ofNat (beNat bs) := Int.natCast_nonneg _
        omega
    · split
      · have e2 : Int.ofNat (beNat bs) = ((beNat bs : Nat) : Int) := rfl
        have : (0 : Int) ≤ Int.ofNat (2 ^ (8 * bs.length)) := Int.natCast_nonneg _
        rw [e2] at *
        have : ((beNat bs : Nat) : Int) < ((2 ^ 64 : Nat) : Int) := by exact_mod_cast (by omega : beNat bs < 2 ^ 64)
        have h63 : ((2 ^ 64 : Nat) : Int) = 2 ^ 64 := by norm_cast
        omega
      · have e2 : Int.ofNat (beNat bs) = ((beNat bs : Nat) : Int) := rfl
        rw [e2]
        have : ((beNat bs : Nat) : Int) < ((2 ^ 64 : Nat) : Int) := by exact_mod_cast (by omega : beNat bs < 2 ^ 64)
        have h63 : ((2 ^ 64 : Nat) : Int) = 2 ^ 64 := by norm_cast
        omega
  · exact mok_uint M _ (by omega)

theorem readBytes_len {r r1 : R} {n : Nat} {bs : List Byte} (e : r.readBytes n = (some bs, r1)) : bs.length = n := by
  unfold R.readBytes at e
  split at e
  · simp only [Prod.mk.injEq, Option.some.injEq] at e
    obtain ⟨rfl, _⟩ := e
    simp only [List.length_take]; omega
  · simp at e

theorem pow_mod4_le (x : Nat) : 2 ^ (x % 4) ≤ 8 := by
  have : x % 4 ≤ 3 := by omega
  calc 2 ^ (x % 4) ≤ 2 ^ 3 := Nat.pow_le_pow_right (by decide) this
    _ = 8 := rfl


theorem mokL_reverse {M : Nat} {xs : List Val} (h : MOkL M xs) : MOkL M xs.reverse := by
  have key : ∀ ys : List Val, MOkL M ys ↔ ∀ y ∈ ys, MOk M y := by
    intro ys
    induction ys with
    | nil => simp [MOkL, C07.AllE]
    | cons y r ih =>
      simp only [MOkL, C07.AllE, List.mem_cons, forall_eq_or_imp]
      exact and_congr Iff.rfl ih
  rw [key] at h ⊢
  intro y hy; exact h y (List.mem_reverse.mp hy)

theorem mokM_append {M : Nat} {ms : List (List Byte × Val)} {k : List Byte} {v : Val} (h : MOkM M ms)
    (hk : k.length ≤ M) (hv : MOk M v) : MOkM M (ms ++ [(k, v)]) := by
  induction ms with
  | nil => exact ⟨hk, hv, trivial⟩
  | cons p r ih =>
    obtain ⟨k', v'⟩ := p
    simp only [MOkM, C07.AllM, List.cons_append] at h ⊢
    exact ⟨h.1, h.2.1, ih h.2.2⟩

/-- leaf of `parseVariant`: a scalar value (possibly behind one `if`) -/
macro "mleaf" : tactic =>
  `(tactic| first
    | exact mv_mk (mok_null _)
    | exact mv_mk (mok_bool _ _)
    | exact mv_mk (mok_raw _ _)
    | exact mv_mk (mok_f32 _ _)
    | exact mv_mk (mok_storeDouble _ _)
    | exact mv_mk (mok_ite _ _ _ _ (mok_bool _ _) (mok_null _)))

set_option maxRecDepth 8000 in
theorem mv_variant_step {env : Env} {f : Nat}
    (ihA : ∀ limit ef hasArr n r acc, MOkL env.maxStrLen acc → MA env.maxStrLen (readArray env f limit ef hasArr n r acc))
    (ihO : ∀ limit flt hasObj n r ms, MOkM env.maxStrLen ms → MO env.maxStrLen (readObject env f limit flt hasObj n r ms))
    (limit : Nat) (flt : Flt) (b : Bool) (r : R) : MV env.maxStrLen (MD.parseVariant env (f+1) limit flt b r) := by
  rw [MD.parseVariant]
  split
  · mleaf
  · rename_i code r0 _
    have hcode : code.toNat < 256 := code.toNat_lt
    extract_lets allowValue c fin width sizeBytes isExt0
    refine mv_ite (fun _ => ?_) (fun _ => ?_)
    · refine mv_ite (fun _ => ?_) (fun _ => ?_)
      · split
        · rename_i bs r1 heq
          refine mv_mk (mok_readInteger _ _ _ ?_)
          rw [readBytes_len heq]; exact pow_mod4_le _
        · mleaf
      · split <;> mleaf
    refine mv_ite (fun _ => ?_) (fun _ => ?_)
    · mleaf
    refine mv_ite (fun _ => ?_) (fun _ => ?_)
    · mleaf
    refine mv_ite (fun _ => ?_) (fun _ => ?_)
    · mleaf
    refine mv_ite (fun _ => ?_) (fun _ => ?_)
    · refine mv_ite (fun _ => ?_) (fun _ => ?_) <;> split <;> mleaf
    refine mv_ite (fun _ => ?_) (fun _ => ?_)
    · refine mv_ite (fun _ => ?_) (fun _ => ?_) <;> split <;> mleaf
    refine mv_ite (fun _ => ?_) (fun _ => ?_)
    · refine mv_mk (mok_ite _ _ _ _ ?_ (mok_null _))
      apply mok_sint
      · split <;> omega
      · split <;> omega
    split
    extract_lets size1 size2 hdr
    generalize hdr = hd
    split
    · mleaf
    · refine mv_ite (fun _ => ?_) (fun _ => ?_)
      · split
        · mleaf
        · rename_i hb size r1 _ _ limit'
          refine mv_ite (fun _ => ?_) (fun _ => ?_)
          · have h := ihA limit' flt.subIdx true size r1 [] trivial
            generalize readArray env f limit' flt.subIdx true size r1 [] = x at h ⊢
            obtain ⟨e, vs, r2⟩ := x
            exact mv_mk h
          · generalize readArray env f limit' flt.subIdx false size r1 [] = x
            obtain ⟨e, vs, r2⟩ := x
            mleaf
      refine mv_ite (fun _ => ?_) (fun _ => ?_)
      · split
        · mleaf
        · rename_i hb size r1 _ _ _ limit'
          refine mv_ite (fun _ => ?_) (fun _ => ?_)
          · have h := ihO limit' flt true size r1 [] trivial
            generalize readObject env f limit' flt true size r1 [] = x at h ⊢
            obtain ⟨e, vs, r2⟩ := x
            exact mv_mk h
          · generalize readObject env f limit' flt false size r1 [] = x
            obtain ⟨e, vs, r2⟩ := x
            mleaf
      refine mv_ite (fun _ => ?_) (fun _ => ?_)
      · refine mv_ite (fun _ => ?_) (fun _ => ?_)
        · refine mv_ite (fun _ => ?_) (fun hsz => ?_)
          · mleaf
          · split
            · rename_i bs r2 heq
              refine mv_mk (mok_str _ _ ?_)
              rw [readBytes_len heq]; omega
            · mleaf
        · split <;> mleaf
      extract_lets
      refine mv_ite (fun _ => ?_) (fun _ => ?_)
      · refine mv_ite (fun _ => ?_) (fun _ => ?_)
        · mleaf
        · split <;> mleaf
      · split <;> mleaf

theorem mv_array_step {env : Env} {f : Nat}
    (ihV : ∀ limit flt b r, MV env.maxStrLen (MD.parseVariant env f limit flt b r))
    (ihA : ∀ limit ef hasArr n r acc, MOkL env.maxStrLen acc → MA env.maxStrLen (readArray env f limit ef hasArr n r acc))
    (limit : Nat) (ef : Flt) (hasArr : Bool) (n : Nat) (r : R) (acc : List Val) (hacc : MOkL env.maxStrLen acc) :
    MA env.maxStrLen (readArray env (f+1) limit ef hasArr n r acc) := by
  rw [readArray]
  split
  · exact mokL_reverse hacc
  · extract_lets keep
    have h0 := ihV limit ef keep r
    split
    · rename_i v r1 b1 heq; rw [heq] at h0
      refine ihA _ _ _ _ _ _ ?_
      split
      · exact ⟨h0, hacc⟩
      · exact hacc
    · rename_i e v r1 b1 hne heq; rw [heq] at h0
      show MOkL _ (if keep = true then v :: acc else acc).reverse
      apply mokL_reverse
      split
      · exact ⟨h0, hacc⟩
      · exact hacc

theorem mv_object_step {env : Env} {f : Nat}
    (ihV : ∀ limit flt b r, MV env.maxStrLen (MD.parseVariant env f limit flt b r))
    (ihO : ∀ limit flt hasObj n r ms, MOkM env.maxStrLen ms → MO env.maxStrLen (readObject env f limit flt hasObj n r ms))
    (limit : Nat) (flt : Flt) (hasObj : Bool) (n : Nat) (r : R) (ms : List (List Byte × Val)) (hms : MOkM env.maxStrLen ms) :
    MO env.maxStrLen (readObject env (f+1) limit flt hasObj n r ms) := by
  rw [readObject]
  split
  · exact hms
  · split
    · exact hms
    · extract_lets c w keyLen
      generalize keyLen = kl
      split
      · exact hms
      · exact hms
      · split
        · exact hms
        · rename_i hlen
          split
          · exact hms
          · extract_lets mf keep
            rename_i key r3 heqk
            have hkl : key.length ≤ env.maxStrLen := by rw [readBytes_len heqk]; omega
            have h0 := ihV limit mf keep r3
            split
            · rename_i v r4 b1 heq; rw [heq] at h0
              refine ihO _ _ _ _ _ _ ?_
              split
              · exact mokM_append hms hkl h0
              · exact hms
            · rename_i e v r4 b1 hne heq; rw [heq] at h0
              show MOkM _ (if keep = true then ms ++ [(key, v)] else ms)
              split
              · exact mokM_append hms hkl h0
              · exact hms

theorem mv_mutual {env : Env} : ∀ fuel,
    (∀ limit flt b r, MV env.maxStrLen (MD.parseVariant env fuel limit flt b r)) ∧
    (∀ limit ef hasArr n r acc, MOkL env.maxStrLen acc → MA env.maxStrLen (readArray env fuel limit ef hasArr n r acc)) ∧
    (∀ limit flt hasObj n r ms, MOkM env.maxStrLen ms → MO env.maxStrLen (readObject env fuel limit flt hasObj n r ms)) := by
  intro fuel
  induction fuel with
  | zero =>
    refine ⟨?_, ?_, ?_⟩
    · intro limit flt b r; rw [MD.parseVariant]; exact mv_mk (mok_null _)
    · intro limit ef hasArr n r acc h; rw [readArray]; exact mokL_reverse h
    · intro limit flt hasObj n r ms h; rw [readObject]; exact h
  | succ f ih =>
    obtain ⟨ihV, ihA, ihO⟩ := ih
    exact ⟨mv_variant_step ihA ihO, mv_array_step ihV ihA, mv_object_step ihV ihO⟩

/-- every value produced by the MessagePack deserializer (any filter, any result code): integers within 64 bits,
    strings and keys within the deserializer's string limit -/
theorem mp_run_ok (env : Env) (L : Nat) (flt : Flt) (input : List Byte) : MOk env.maxStrLen (MD.run env L flt input).2.1 := by
  have h0 := (mv_mutual (env := env) (2 * input.length + 4)).1 L flt true ({ unread := input } : R)
  simp only [MD.run]
  generalize MD.parseVariant env (2 * input.length + 4) L flt true { unread := input } = x at h0 ⊢
  obtain ⟨e, v, r, found⟩ := x
  exact h0

end CrossFormat
