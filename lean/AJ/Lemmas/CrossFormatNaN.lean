/- Without the NaN option the JSON parser never produces a NaN: `make_float` multiplies a non-negative finite value by powers
   of ten that are finite and non-zero, so its result is a non-negative finite value or +infinity (never `inf * 0`);
   `negBits` only flips the sign; `storeDouble` converts a non-NaN double to a non-NaN float.
   Used by AJ/Props/C07Cross.lean (`cross_format_no_nan_option`). -/
import AJ.Lemmas.CrossFormat
import AJ.Lemmas.FloatErrFinish
namespace CrossFormat
open JD SF

/-- a non-negative finite datum, or +infinity -/
def PosOrInf (f : Fmt) (r : Nat) : Prop := (∃ m e, decode f r = .fin false m e) ∨ decode f r = .inf false

theorem roundPos_zero (f : Fmt) (n : Bool) (e : Int) : roundPos f n 0 e = (if n then f.signBit else 0) + 0 := by
  simp [roundPos]

/-- `roundPos` never produces a NaN: a finite datum or an infinity of the requested sign -/
theorem roundPos_fin_or_inf (f : Fmt) (hf : 0 < f.emax) (n : Bool) (m : Nat) (e : Int) :
    (∃ m' e', decode f (roundPos f n m e) = .fin n m' e') ∨ decode f (roundPos f n m e) = .inf n := by
  by_cases hm : m = 0
  · subst hm
    rw [roundPos_zero]
    exact Or.inl ⟨_, _, decode_sub f n 0 (Nat.two_pow_pos _) hf⟩
  · rcases roundPos_nearest f n m e hm hf with ⟨h, _⟩ | ⟨m'', e'', h, _⟩
    · exact Or.inr h
    · exact Or.inl ⟨_, _, h⟩

theorem roundPos_notNaN (f : Fmt) (hf : 0 < f.emax) (n : Bool) (m : Nat) (e : Int) : isNaN f (roundPos f n m e) = false := by
  rcases roundPos_fin_or_inf f hf n m e with ⟨m', e', h⟩ | h
  · exact isNaN_of_fin h
  · unfold isNaN; rw [h]; rfl

theorem mul_posOrInf (f : Fmt) (hf : 0 < f.emax) (a t : Nat) (ha : PosOrInf f a)
    (ht : ∃ m e, decode f t = .fin false m e ∧ m ≠ 0) : PosOrInf f (mul f a t) := by
  obtain ⟨mt, et, ht, hne⟩ := ht
  unfold mul
  rcases ha with ⟨ma, ea, ha⟩ | ha
  · rw [ha, ht]
    exact roundPos_fin_or_inf f hf false _ _
  · rw [ha, ht]
    simp only [hne, if_false]
    exact Or.inr (decode_inf f false)

def tableOk (f : Fmt) (tbl : List Nat) : Bool :=
  tbl.all (fun t => match decode f t with | .fin false m _ => m != 0 | _ => false)

theorem tableOk_spec {f : Fmt} {tbl : List Nat} (h : tableOk f tbl = true) :
    ∀ t ∈ tbl, ∃ m e, decode f t = .fin false m e ∧ m ≠ 0 := by
  intro t ht
  have := List.all_eq_true.mp h t ht
  split at this
  · rename_i m e hd; exact ⟨m, e, hd, by simpa using this⟩
  · cases this

theorem pos64_ok : tableOk b64 pos64 = true := by decide +kernel
theorem neg64_ok : tableOk b64 neg64 = true := by decide +kernel
theorem pos32_ok : tableOk b32 pos32 = true := by decide +kernel
theorem neg32_ok : tableOk b32 neg32 = true := by decide +kernel

theorem makeFloat_go_posOrInf (f : Fmt) (hf : 0 < f.emax) (tbl : List Nat)
    (htbl : ∀ t ∈ tbl, ∃ m e, decode f t = .fin false m e ∧ m ≠ 0) :
    ∀ fuel acc e idx r, PosOrInf f acc → makeFloat.go f tbl fuel acc e idx = some r → PosOrInf f r := by
  intro fuel
  induction fuel with
  | zero => intro acc e idx r ha h; simp only [makeFloat.go] at h; cases h; exact ha
  | succ n ih =>
    intro acc e idx r ha h
    simp only [makeFloat.go] at h
    split at h
    · cases h; exact ha
    · split at h
      · split at h
        · cases h
        · rename_i t ht
          exact ih _ _ _ _ (mul_posOrInf f hf _ _ ha (htbl t (List.mem_of_getElem? ht))) h
      · exact ih _ _ _ _ ha h

theorem makeFloat_posOrInf (f : Fmt) (hf : 0 < f.emax) (tp tn : List Nat) (hp : tableOk f tp = true)
    (hn : tableOk f tn = true) (m : Nat) (e : Int) (r : Nat) (hm : PosOrInf f m)
    (h : makeFloat f tp tn m e = some r) : PosOrInf f r := by
  unfold makeFloat at h
  refine makeFloat_go_posOrInf f hf _ ?_ _ _ _ _ _ hm h
  split
  · exact tableOk_spec hp
  · exact tableOk_spec hn

theorem negBits_notNaN (f : Fmt) (neg : Bool) (r : Nat) (h : PosOrInf f r) : isNaN f (negBits f neg r) = false := by
  rcases h with ⟨m, e, h⟩ | h
  · exact isNaN_of_fin (C12.negBits_decode f neg r m e h)
  · unfold isNaN; rw [C12.negBits_decode_inf f neg r h]; rfl

/-- no NaN among the floating-point answers -/
def PNumNoNaN : PNum → Prop
  | .f32 b => isNaN b32 b = false
  | .f64 b => isNaN b64 b = false
  | _ => True

theorem ofNat_posOrInf (f : Fmt) (hf : 0 < f.emax) (m : Nat) : PosOrInf f (ofNat f m) :=
  roundPos_fin_or_inf f hf false m 0

theorem zero32_posOrInf : PosOrInf b32 0 := Or.inl ⟨0, -149, by decide +kernel⟩

theorem isNaN_infBits (f : Fmt) (n : Bool) : isNaN f (infBits f n) = false := by
  unfold isNaN; rw [decode_inf]; rfl

theorem finish_noNaN (neg : Bool) (s : List Byte) (mant : Nat) (e : Int) : PNumNoNaN (Digits.finish neg s mant e) := by
  have hvia : PNumNoNaN (match makeFloat b64 pos64 neg64 (ofNat b64 mant) e with
      | none => PNum.fault
      | some r => .f64 (negBits b64 neg r)) := by
    split
    · trivial
    · rename_i r hr
      exact negBits_notNaN b64 neg r
        (makeFloat_posOrInf b64 (by decide) _ _ pos64_ok neg64_ok _ _ _ (ofNat_posOrInf b64 (by decide) mant) hr)
  simp only [Digits.finish]
  split
  · trivial
  · split
    · exact negBits_notNaN b32 neg 0 zero32_posOrInf
    · split
      · exact isNaN_infBits b64 neg
      · split
        · exact negBits_notNaN b32 neg 0 zero32_posOrInf
        · split
          · exact hvia
          · split
            · trivial
            · rename_i r hr
              split
              · exact hvia
              · exact negBits_notNaN b32 neg r
                  (makeFloat_posOrInf b32 (by decide) _ _ pos32_ok neg32_ok _ _ _ (ofNat_posOrInf b32 (by decide) mant) hr)

theorem afterMant_noNaN (neg : Bool) (mant : Nat) (s : List Byte) : PNumNoNaN (C07.afterMant neg mant s) := by
  simp only [C07.afterMant]
  split
  · trivial
  · split
    · trivial
    · exact finish_noNaN _ _ _ _

theorem afterSign_noNaN (cfg : Cfg) (hnan : cfg.nan = false) (neg : Bool) (s' : List Byte) :
    PNumNoNaN (if cfg.nan && (s'.headD 0 == 0x6E || s'.headD 0 == 0x4E) then .f64 (nanBits b64) else
      if cfg.inf && (s'.headD 0 == 0x69 || s'.headD 0 == 0x49) then .f64 (infBits b64 neg) else
      if !(isDigit (s'.headD 0)) && s'.headD 0 != 0x2E then .invalid else
      C07.afterMant neg (takeDigitsMant (2^64 - 1) 0 s').1 (takeDigitsMant (2^64 - 1) 0 s').2) := by
  rw [hnan]
  simp only [Bool.false_and, Bool.false_eq_true, if_false]
  split
  · exact isNaN_infBits b64 neg
  · split
    · trivial
    · exact afterMant_noNaN _ _ _

/-- without the NaN option no answer of `parseNumber` is a NaN -/
theorem parseNumber_noNaN (cfg : Cfg) (hnan : cfg.nan = false) (s : List Byte) : PNumNoNaN (parseNumber cfg s) := by
  rw [C07.parseNumber_eq]
  split
  all_goals exact afterSign_noNaN cfg hnan _ _

theorem cvt64_32_notNaN {b : Nat} (h : isNaN b64 b = false) : isNaN b32 (cvt b64 b32 b) = false := by
  unfold cvt
  cases hd : decode b64 b with
  | nan => unfold isNaN at h; rw [hd] at h; cases h
  | inf n => exact isNaN_infBits b32 n
  | fin n m e => exact roundPos_notNaN b32 (by decide) n m e

theorem storeDouble_noNaN (b : Nat) (h : isNaN b64 b = false) : NoNaNNum (storeDouble b) := by
  unfold storeDouble
  have hc := cvt64_32_notNaN h
  split
  · exact h
  · dsimp only
    split
    · exact hc
    · split
      · exact hc
      · exact h

/-- what the JSON parser guarantees of a number node: within its storage, and not a NaN unless the NaN option is set -/
def NumGood (cfg : Cfg) (n : Num) : Prop := C09.NumOk n ∧ (cfg.nan = false → NoNaNNum n)

theorem parseNumber_numGood (cfg : Cfg) (buf : List Byte) : PNumP (NumGood cfg) (parseNumber cfg buf) := by
  have h1 := parseNumber_numOk cfg buf
  have h2 : cfg.nan = false → PNumNoNaN (parseNumber cfg buf) := fun h => parseNumber_noNaN cfg h buf
  cases h : parseNumber cfg buf with
  | uint n => rw [h] at h1; exact ⟨h1, fun _ => trivial⟩
  | sint v => rw [h] at h1; exact ⟨h1, fun _ => trivial⟩
  | f32 b => rw [h] at h1 h2; exact ⟨h1, h2⟩
  | f64 b => rw [h] at h1 h2; exact ⟨h1, fun hn => storeDouble_noNaN b (h2 hn)⟩
  | invalid => trivial
  | fault => trivial

/-- the result of `JD.run`, any code: `JOk` with the number predicate `NumGood`, and the size bound -/
theorem run_good (cfg : Cfg) (L : Nat) (t : List Byte) :
    JOk (NumGood cfg) cfg.maxStrLen (JD.run cfg L t).2.1 ∧ size (JD.run cfg L t).2.1 ≤ (JD.run cfg L t).2.2 :=
  run_jok cfg (NumGood cfg) (parseNumber_numGood cfg) L t

mutual
theorem noNaN_of_jok {P : Num → Prop} {m : Nat} (hP : ∀ n, P n → NoNaNNum n) : ∀ v, JOk P m v → NoNaN v
  | .null, _ => by simp only [NoNaN]
  | .bool _, _ => by simp only [NoNaN]
  | .num n, h => by simp only [JOk] at h; simp only [NoNaN]; exact hP n h
  | .str _, _ => by simp only [NoNaN]
  | .raw _, _ => by simp only [NoNaN]
  | .arr xs, h => by simp only [JOk] at h; simp only [NoNaN]; exact noNaNL_of_jok hP xs h
  | .obj ms, h => by simp only [JOk] at h; simp only [NoNaN]; exact noNaNM_of_jok hP ms h.2
theorem noNaNL_of_jok {P : Num → Prop} {m : Nat} (hP : ∀ n, P n → NoNaNNum n) : ∀ xs, JOkL P m xs → NoNaNL xs
  | [], _ => by simp only [NoNaNL]
  | x :: r, h => by
    simp only [JOkL] at h; simp only [NoNaNL]
    exact ⟨noNaN_of_jok hP x h.1, noNaNL_of_jok hP r h.2⟩
theorem noNaNM_of_jok {P : Num → Prop} {m : Nat} (hP : ∀ n, P n → NoNaNNum n) : ∀ ms, JOkM P m ms → NoNaNM ms
  | [], _ => by simp only [NoNaNM]
  | (k, v) :: r, h => by
    simp only [JOkM] at h; simp only [NoNaNM]
    exact ⟨noNaN_of_jok hP v h.2.1, noNaNM_of_jok hP r h.2.2⟩
end

end CrossFormat
