/- Nesting depth of a parsed value, and the invariant "a value returned with Ok has depth ≤ limit"
   through every routine of the JSON (unfiltered and filtered) and MessagePack deserializer models. -/
import AJ.Model.JD
import AJ.Model.MD
import AJ.Lemmas.JDPos
namespace C15
open JD

/-! ## depth (= `nesting()`): 0 for scalars, 1 + max over the children for arrays and objects -/
mutual
def depth : Val → Nat
  | .arr xs => depthList xs + 1
  | .obj ms => depthMembers ms + 1
  | _ => 0
def depthList : List Val → Nat
  | [] => 0
  | x :: xs => max (depth x) (depthList xs)
def depthMembers : List (List Byte × Val) → Nat
  | [] => 0
  | p :: r => max (depth p.2) (depthMembers r)
end

theorem depthList_le {n : Nat} : ∀ xs : List Val, depthList xs ≤ n ↔ ∀ x ∈ xs, depth x ≤ n := by
  intro xs
  induction xs with
  | nil => simp [depthList]
  | cons x xs ih => simp only [depthList, Nat.max_le, ih, List.mem_cons, forall_eq_or_imp]

theorem depthMembers_le {n : Nat} : ∀ ms : List (List Byte × Val), depthMembers ms ≤ n ↔ ∀ p ∈ ms, depth p.2 ≤ n := by
  intro ms
  induction ms with
  | nil => simp [depthMembers]
  | cons p ms ih => simp only [depthMembers, Nat.max_le, ih, List.mem_cons, forall_eq_or_imp]

theorem depthList_reverse_le {n : Nat} {xs : List Val} (h : depthList xs ≤ n) : depthList xs.reverse ≤ n := by
  rw [depthList_le] at h ⊢
  intro x hx; exact h x (List.mem_reverse.mp hx)

theorem depthList_cons_le {n : Nat} {x : Val} {xs : List Val} (hx : depth x ≤ n) (h : depthList xs ≤ n) :
    depthList (x :: xs) ≤ n := by
  simp only [depthList, Nat.max_le]; exact ⟨hx, h⟩

theorem depthMembers_setMember_le {n : Nat} {k : List Byte} {v : Val} (hv : depth v ≤ n) :
    ∀ ms, depthMembers ms ≤ n → depthMembers (setMember ms k v) ≤ n := by
  intro ms
  induction ms with
  | nil => intro _; simp only [setMember, depthMembers, Nat.max_le]; exact ⟨hv, Nat.zero_le _⟩
  | cons p ms ih =>
    intro h
    obtain ⟨k', v'⟩ := p
    simp only [depthMembers, Nat.max_le] at h
    simp only [setMember]
    split
    · simp only [depthMembers, Nat.max_le]; exact ⟨hv, h.2⟩
    · simp only [depthMembers, Nat.max_le]; exact ⟨h.1, ih h.2⟩

theorem depthMembers_append_le {n : Nat} {k : List Byte} {v : Val} (hv : depth v ≤ n) :
    ∀ ms, depthMembers ms ≤ n → depthMembers (ms ++ [(k, v)]) ≤ n := by
  intro ms h
  rw [depthMembers_le] at h ⊢
  intro p hp
  rcases List.mem_append.mp hp with hp | hp
  · exact h p hp
  · simp only [List.mem_singleton] at hp; subst hp; exact hv

@[simp] theorem depth_null : depth .null = 0 := by simp [depth]
@[simp] theorem depth_bool (b) : depth (.bool b) = 0 := by simp [depth]
@[simp] theorem depth_num (x) : depth (.num x) = 0 := by simp [depth]
@[simp] theorem depth_str (x) : depth (.str x) = 0 := by simp [depth]
@[simp] theorem depth_raw (x) : depth (.raw x) = 0 := by simp [depth]
theorem depth_arr (xs) : depth (.arr xs) = depthList xs + 1 := by simp [depth]
theorem depth_obj (ms) : depth (.obj ms) = depthMembers ms + 1 := by simp [depth]
@[simp] theorem depthList_nil : depthList [] = 0 := by simp [depthList]
@[simp] theorem depthMembers_nil : depthMembers [] = 0 := by simp [depthMembers]

end C15

namespace C15
open JD

/-! ## JSON, unfiltered -/

/-- "if the routine reports Ok, the value it produced has depth ≤ n" -/
def OkD (n : Nat) (r : Code × Val × St) : Prop := r.1 = .ok → depth r.2.1 ≤ n

theorem okd_le {n e v} {s : St} (h : depth v ≤ n) : OkD n (e, v, s) := fun _ => h
theorem okd_ne {n e v} {s : St} (h : e ≠ .ok) : OkD n (e, v, s) := fun h' => absurd h' h
theorem okd_mono {n m r} (h : OkD n r) (hnm : n ≤ m) : OkD m r := fun h' => Nat.le_trans (h h') hnm

theorem depth_parseNumeric (cfg : Cfg) (s : St) : depth (parseNumeric cfg s).2.1 = 0 := by
  unfold parseNumeric
  generalize scanNumber cfg (Gen.number_buffer - 1) [] s = r
  obtain ⟨buf, s'⟩ := r
  simp only
  split <;> simp

theorem okd_mutual {cfg} : ∀ fuel,
    (∀ limit s, OkD limit (parseVariant cfg fuel limit s)) ∧
    (∀ limit s acc, depthList acc ≤ limit → OkD (limit + 1) (parseElems cfg fuel limit s acc)) ∧
    (∀ limit s ms, depthMembers ms ≤ limit → OkD (limit + 1) (parseMembers cfg fuel limit s ms)) := by
  intro fuel
  induction fuel with
  | zero =>
    refine ⟨?_, ?_, ?_⟩
    · intro limit s; simp only [parseVariant]; exact okd_ne (by decide)
    · intro limit s acc _; simp only [parseElems]; exact okd_ne (by decide)
    · intro limit s ms _; simp only [parseMembers]; exact okd_ne (by decide)
  | succ f ih =>
    obtain ⟨ihV, ihE, ihM⟩ := ih
    refine ⟨?_, ?_, ?_⟩
    · intro limit s
      simp only [parseVariant]
      split
      · split
        · split
          · exact okd_ne (by decide)
          · split
            · split
              · exact okd_le (by simp [depth_arr])
              · exact ihE _ _ _ (by simp)
            · exact okd_le (by simp [depth_arr])
        · split
          · split
            · exact okd_ne (by decide)
            · split
              · split
                · exact okd_le (by simp [depth_obj])
                · exact ihM _ _ _ (by simp)
              · exact okd_le (by simp [depth_obj])
          · split
            · split <;> exact okd_le (by simp)
            · split
              · exact okd_le (by simp)
              · split
                · exact okd_le (by simp)
                · split
                  · exact okd_le (by simp)
                  · intro _; rw [depth_parseNumeric]; exact Nat.zero_le _
      · exact okd_le (by simp)
    · intro limit s acc hacc
      simp only [parseElems]
      have h0 := ihV limit s
      split
      · rename_i v s1 heq; rw [heq] at h0
        have hv : depth v ≤ limit := h0 rfl
        have hacc' : depthList (v :: acc) ≤ limit := depthList_cons_le hv hacc
        have hres : depth (.arr (v :: acc).reverse) ≤ limit + 1 := by
          rw [depth_arr]; exact Nat.succ_le_succ (depthList_reverse_le hacc')
        split
        · split
          · exact okd_le hres
          · split
            · exact ihE _ _ _ hacc'
            · exact okd_ne (by decide)
        · exact okd_le hres
      · rename_i e v s1 hne heq
        exact okd_ne hne
    · intro limit s ms hms
      simp only [parseMembers]
      generalize (if ((cur s).1 == 0x22 || (cur s).1 == 0x27) = true then parseQuoted cfg (cur s).1 (f+1) [] 0 (mv (cur s).2)
            else if inUnquoted (cur s).1 = true then
              ((if (parseUnquoted (f+1) [] (cur s).2).1.length > cfg.maxStrLen then Code.noMemory else Code.ok), (parseUnquoted (f+1) [] (cur s).2).1, (parseUnquoted (f+1) [] (cur s).2).2)
            else (Code.invalid, [], (cur s).2)) = kr
      obtain ⟨kc, key, s1⟩ := kr
      have hres : depth (.obj ms) ≤ limit + 1 := by rw [depth_obj]; exact Nat.succ_le_succ hms
      cases kc <;> simp only <;> try exact okd_le hres
      split
      · split
        · exact okd_le hres
        · have h3 := ihV limit (mv (cur ‹St›).2)
          split
          · rename_i v s3 heq3; rw [heq3] at h3
            have hv : depth v ≤ limit := h3 rfl
            have hms' := depthMembers_setMember_le (k := key) hv ms hms
            have hres' : depth (.obj (setMember ms key v)) ≤ limit + 1 := by
              rw [depth_obj]; exact Nat.succ_le_succ hms'
            split
            · split
              · exact okd_le hres'
              · split
                · split
                  · exact ihM _ _ _ hms'
                  · exact okd_le hres'
                · exact okd_le hres'
            · exact okd_le hres'
          · rename_i e v s3 hne heq3
            exact okd_ne hne
      · exact okd_le hres

end C15

namespace C15
open JD

/-! ## JSON, filtered -/
theorem fokd_elems_tail {cfg f limit} {ef : Flt} {e : Code} {vs : List Val} {s1 : St}
    (ihE : ∀ limit ef s acc, depthList acc ≤ limit → OkD (limit + 1) (fparseElems cfg f limit ef s acc))
    (hvs : e = .ok → depthList vs ≤ limit) :
    OkD (limit + 1)
      (match (generalizing := false) e with
      | .ok =>
        match skipSpaces cfg (f+1) s1 with
        | (.ok, s) =>
          if ((cur s).1 == 0x5D) = true then (.ok, .arr vs.reverse, mv (cur s).2)
          else if ((cur s).1 == 0x2C) = true then fparseElems cfg f limit ef (mv (cur s).2) vs
          else (.invalid, .arr vs.reverse, (cur s).2)
        | (e, s) => (e, .arr vs.reverse, s)
      | e => (e, .arr vs.reverse, s1)) := by
  cases e <;> simp only <;> try exact okd_ne (by decide)
  · have hvs' := hvs rfl
    have hres : depth (.arr vs.reverse) ≤ limit + 1 := by
      rw [depth_arr]; exact Nat.succ_le_succ (depthList_reverse_le hvs')
    split
    · split
      · exact okd_le hres
      · split
        · exact ihE _ _ _ _ hvs'
        · exact okd_ne (by decide)
    · exact okd_le hres

theorem fokd_members_tail {cfg f limit} {flt : Flt} {e : Code} {ms : List (List Byte × Val)} {s1 : St}
    (ihM : ∀ limit flt s ms, depthMembers ms ≤ limit → OkD (limit + 1) (fparseMembers cfg f limit flt s ms))
    (hms : e = .ok → depthMembers ms ≤ limit) :
    OkD (limit + 1)
      (match (generalizing := false) e with
      | .ok =>
        match skipSpaces cfg (f+1) s1 with
        | (.ok, s) =>
          if ((cur s).1 == 0x7D) = true then (.ok, .obj ms, mv (cur s).2)
          else if ((cur s).1 == 0x2C) = true then
            match skipSpaces cfg (f+1) (mv (cur s).2) with
            | (.ok, s) => fparseMembers cfg f limit flt s ms
            | (e, s) => (e, .obj ms, s)
          else (.invalid, .obj ms, (cur s).2)
        | (e, s) => (e, .obj ms, s)
      | e => (e, .obj ms, s1)) := by
  cases e <;> simp only <;> try exact okd_ne (by decide)
  · have hms' := hms rfl
    have hres : depth (.obj ms) ≤ limit + 1 := by
      rw [depth_obj]; exact Nat.succ_le_succ hms'
    split
    · split
      · exact okd_le hres
      · split
        · split
          · exact ihM _ _ _ _ hms'
          · exact okd_le hres
        · exact okd_ne (by decide)
    · exact okd_le hres

theorem fokd_mutual {cfg} : ∀ fuel,
    (∀ limit flt s, OkD limit (fparseVariant cfg fuel limit flt s)) ∧
    (∀ limit ef s acc, depthList acc ≤ limit → OkD (limit + 1) (fparseElems cfg fuel limit ef s acc)) ∧
    (∀ limit flt s ms, depthMembers ms ≤ limit → OkD (limit + 1) (fparseMembers cfg fuel limit flt s ms)) := by
  intro fuel
  induction fuel with
  | zero =>
    refine ⟨?_, ?_, ?_⟩
    · intro limit flt s; simp only [fparseVariant]; exact okd_ne (by decide)
    · intro limit flt s acc _; simp only [fparseElems]; exact okd_ne (by decide)
    · intro limit flt s ms _; simp only [fparseMembers]; exact okd_ne (by decide)
  | succ f ih =>
    obtain ⟨ihV, ihE, ihM⟩ := ih
    refine ⟨?_, ?_, ?_⟩
    · intro limit flt s
      simp only [fparseVariant]
      split
      · split
        · split
          · split
            · exact okd_ne (by decide)
            · split
              · split
                · exact okd_le (by simp [depth_arr])
                · exact ihE _ _ _ _ (by simp)
              · exact okd_le (by simp [depth_arr])
          · split <;> exact okd_le (by simp)
        · split
          · split
            · split
              · exact okd_ne (by decide)
              · split
                · split
                  · exact okd_le (by simp [depth_obj])
                  · exact ihM _ _ _ _ (by simp)
                · exact okd_le (by simp [depth_obj])
            · split
              · exact okd_le (by simp)
              · split
                · split <;> exact okd_le (by simp)
                · exact okd_le (by simp)
          · split
            · split
              · split <;> exact okd_le (by simp)
              · exact okd_le (by simp)
            · split
              · exact okd_le (by split <;> simp)
              · split
                · exact okd_le (by split <;> simp)
                · split
                  · exact okd_le (by simp)
                  · split
                    · intro _; rw [depth_parseNumeric]; exact Nat.zero_le _
                    · exact okd_le (by simp)
      · exact okd_le (by simp)
    · intro limit ef s acc hacc
      simp only [fparseElems]
      by_cases ha : ef.allow = true
      · simp only [ha, ↓reduceIte]
        have h0 := ihV limit ef s
        generalize fparseVariant cfg f limit ef s = r at h0 ⊢
        obtain ⟨e, v, s1⟩ := r
        simp only
        exact fokd_elems_tail ihE (fun he => depthList_cons_le (h0 he) hacc)
      · simp only [ha, Bool.false_eq_true, ↓reduceIte]
        generalize skipVariant cfg f limit s = r
        obtain ⟨e, s1⟩ := r
        simp only
        exact fokd_elems_tail ihE (fun _ => hacc)
    · intro limit flt s ms hms
      simp only [fparseMembers]
      generalize (if ((cur s).1 == 0x22 || (cur s).1 == 0x27) = true then parseQuoted cfg (cur s).1 (f+1) [] 0 (mv (cur s).2)
            else if inUnquoted (cur s).1 = true then
              ((if (parseUnquoted (f+1) [] (cur s).2).1.length > cfg.maxStrLen then Code.noMemory else Code.ok), (parseUnquoted (f+1) [] (cur s).2).1, (parseUnquoted (f+1) [] (cur s).2).2)
            else (Code.invalid, [], (cur s).2)) = kr
      obtain ⟨kc, key, s1⟩ := kr
      have hres : depth (.obj ms) ≤ limit + 1 := by rw [depth_obj]; exact Nat.succ_le_succ hms
      cases kc <;> simp only <;> try exact okd_le hres
      split
      · split
        · exact okd_le hres
        · rename_i s2 _ _
          by_cases ha : (flt.subKey key).allow = true
          · simp only [ha, ↓reduceIte]
            have h0 := ihV limit (flt.subKey key) (mv (cur s2).2)
            generalize fparseVariant cfg f limit (flt.subKey key) (mv (cur s2).2) = r at h0 ⊢
            obtain ⟨e, v, s3⟩ := r
            simp only
            exact fokd_members_tail ihM (fun he => depthMembers_setMember_le (h0 he) ms hms)
          · simp only [ha, Bool.false_eq_true, ↓reduceIte]
            generalize skipVariant cfg f limit (mv (cur s2).2) = r
            obtain ⟨e, s3⟩ := r
            simp only
            exact fokd_members_tail ihM (fun _ => hms)
      · exact okd_le hres
end C15

namespace C15
open JD MD

/-! ## MessagePack -/
def OkM (n : Nat) (r : Code × Val × R × Bool) : Prop := r.1 = .ok → depth r.2.1 ≤ n
def OkA (n : Nat) (x : Code × List Val × R) : Prop := x.1 = .ok → depthList x.2.1 ≤ n
def OkO (n : Nat) (x : Code × List (List Byte × Val) × R) : Prop := x.1 = .ok → depthMembers x.2.1 ≤ n

theorem okm_le {n e v} {s : R} {b : Bool} (h : depth v ≤ n) : OkM n (e, v, s, b) := fun _ => h
theorem okm_ne {n e v} {s : R} {b : Bool} (h : e ≠ .ok) : OkM n (e, v, s, b) := fun h' => absurd h' h
theorem okm_ite {n} {c : Prop} [Decidable c] {a b : Code × Val × R × Bool}
    (ha : c → OkM n a) (hb : ¬ c → OkM n b) : OkM n (if c then a else b) := by
  by_cases h : c
  · rw [if_pos h]; exact ha h
  · rw [if_neg h]; exact hb h
theorem oka_ne {n e v} {s : R} (h : e ≠ .ok) : OkA n (e, v, s) := fun h' => absurd h' h
theorem oko_ne {n e v} {s : R} (h : e ≠ .ok) : OkO n (e, v, s) := fun h' => absurd h' h
theorem oko_le {n e v} {s : R} (h : depthMembers v ≤ n) : OkO n (e, v, s) := fun _ => h

theorem depth_readInteger (bs : List Byte) (sg : Bool) : depth (readInteger bs sg) = 0 := by
  unfold readInteger
  simp only
  split <;> simp

/-- leaf: the value is a scalar (possibly behind one `if`), or the code is a literal error -/
macro "okm_leaf" : tactic =>
  `(tactic| first
    | exact okm_ne (by decide)
    | (refine okm_le ?_; simp [depth_readInteger]; done)
    | (refine okm_le ?_; split <;> simp; done))

set_option maxRecDepth 8000 in
theorem okm_variant_step {env f}
    (ihA : ∀ limit ef hasArr n r acc, depthList acc ≤ limit → OkA limit (readArray env f limit ef hasArr n r acc))
    (ihO : ∀ limit flt hasObj n r ms, depthMembers ms ≤ limit → OkO limit (readObject env f limit flt hasObj n r ms))
    (limit : Nat) (flt : Flt) (b : Bool) (r : R) : OkM limit (MD.parseVariant env (f+1) limit flt b r) := by
  rw [MD.parseVariant]
  split
  · okm_leaf
  · extract_lets allowValue c fin width sizeBytes isExt0
    refine okm_ite (fun _ => ?_) (fun _ => ?_)
    · refine okm_ite (fun _ => ?_) (fun _ => ?_) <;> split <;> okm_leaf
    refine okm_ite (fun _ => ?_) (fun _ => ?_)
    · okm_leaf
    refine okm_ite (fun _ => ?_) (fun _ => ?_)
    · okm_leaf
    refine okm_ite (fun _ => ?_) (fun _ => ?_)
    · okm_leaf
    refine okm_ite (fun _ => ?_) (fun _ => ?_)
    · refine okm_ite (fun _ => ?_) (fun _ => ?_) <;> split <;> okm_leaf
    refine okm_ite (fun _ => ?_) (fun _ => ?_)
    · refine okm_ite (fun _ => ?_) (fun _ => ?_) <;> split <;> okm_leaf
    refine okm_ite (fun _ => ?_) (fun _ => ?_)
    · okm_leaf
    split
    extract_lets size1 size2 hdr
    generalize hdr = hd
    split
    · okm_leaf
    · refine okm_ite (fun _ => ?_) (fun _ => ?_)
      · split
        · okm_leaf
        · rename_i hb size r1 _ _ limit'
          refine okm_ite (fun _ => ?_) (fun _ => ?_)
          · have h := ihA limit' flt.subIdx true size r1 [] (by simp)
            generalize readArray env f limit' flt.subIdx true size r1 [] = x at h ⊢
            obtain ⟨e, vs, r2⟩ := x
            intro he
            show depth (.arr vs) ≤ limit' + 1
            rw [depth_arr]; exact Nat.succ_le_succ (h he)
          · generalize readArray env f limit' flt.subIdx false size r1 [] = x
            obtain ⟨e, vs, r2⟩ := x
            exact okm_le (by simp)
      refine okm_ite (fun _ => ?_) (fun _ => ?_)
      · split
        · okm_leaf
        · rename_i hb size r1 _ _ _ limit'
          refine okm_ite (fun _ => ?_) (fun _ => ?_)
          · have h := ihO limit' flt true size r1 [] (by simp)
            generalize readObject env f limit' flt true size r1 [] = x at h ⊢
            obtain ⟨e, vs, r2⟩ := x
            intro he
            show depth (.obj vs) ≤ limit' + 1
            rw [depth_obj]; exact Nat.succ_le_succ (h he)
          · generalize readObject env f limit' flt false size r1 [] = x
            obtain ⟨e, vs, r2⟩ := x
            exact okm_le (by simp)
      refine okm_ite (fun _ => ?_) (fun _ => ?_)
      · refine okm_ite (fun _ => ?_) (fun _ => ?_)
        · refine okm_ite (fun _ => ?_) (fun _ => ?_)
          · okm_leaf
          · split <;> okm_leaf
        · split <;> okm_leaf
      extract_lets
      refine okm_ite (fun _ => ?_) (fun _ => ?_)
      · refine okm_ite (fun _ => ?_) (fun _ => ?_)
        · okm_leaf
        · split <;> okm_leaf
      · split <;> okm_leaf

theorem okm_array_step {env f}
    (ihV : ∀ limit flt b r, OkM limit (MD.parseVariant env f limit flt b r))
    (ihA : ∀ limit ef hasArr n r acc, depthList acc ≤ limit → OkA limit (readArray env f limit ef hasArr n r acc))
    (limit : Nat) (ef : Flt) (hasArr : Bool) (n : Nat) (r : R) (acc : List Val) (hacc : depthList acc ≤ limit) :
    OkA limit (readArray env (f+1) limit ef hasArr n r acc) := by
  rw [readArray]
  split
  · intro _; exact depthList_reverse_le hacc
  · extract_lets keep
    have h0 := ihV limit ef keep r
    split
    · rename_i v r1 b1 heq; rw [heq] at h0
      refine ihA _ _ _ _ _ _ ?_
      split
      · exact depthList_cons_le (h0 rfl) hacc
      · exact hacc
    · rename_i e v r1 b1 hne heq
      exact oka_ne hne

theorem okm_object_step {env f}
    (ihV : ∀ limit flt b r, OkM limit (MD.parseVariant env f limit flt b r))
    (ihO : ∀ limit flt hasObj n r ms, depthMembers ms ≤ limit → OkO limit (readObject env f limit flt hasObj n r ms))
    (limit : Nat) (flt : Flt) (hasObj : Bool) (n : Nat) (r : R) (ms : List (List Byte × Val)) (hms : depthMembers ms ≤ limit) :
    OkO limit (readObject env (f+1) limit flt hasObj n r ms) := by
  rw [readObject]
  split
  · exact oko_le hms
  · split
    · exact oko_ne (by decide)
    · extract_lets c w keyLen
      generalize keyLen = kl
      split
      · exact oko_ne (by decide)
      · exact oko_ne (by decide)
      · split
        · exact oko_ne (by decide)
        · split
          · exact oko_ne (by decide)
          · extract_lets mf keep
            rename_i key r3 _
            have h0 := ihV limit mf keep r3
            split
            · rename_i v r4 b1 heq; rw [heq] at h0
              refine ihO _ _ _ _ _ _ ?_
              split
              · exact depthMembers_append_le (h0 rfl) ms hms
              · exact hms
            · rename_i e v r4 b1 hne heq
              exact oko_ne hne

theorem okm_mutual {env} : ∀ fuel,
    (∀ limit flt b r, OkM limit (MD.parseVariant env fuel limit flt b r)) ∧
    (∀ limit ef hasArr n r acc, depthList acc ≤ limit → OkA limit (readArray env fuel limit ef hasArr n r acc)) ∧
    (∀ limit flt hasObj n r ms, depthMembers ms ≤ limit → OkO limit (readObject env fuel limit flt hasObj n r ms)) := by
  intro fuel
  induction fuel with
  | zero =>
    refine ⟨?_, ?_, ?_⟩
    · intro limit flt b r; rw [MD.parseVariant]; exact okm_ne (by decide)
    · intro limit ef hasArr n r acc _; rw [readArray]; exact oka_ne (by decide)
    · intro limit flt hasObj n r ms _; rw [readObject]; exact oko_ne (by decide)
  | succ f ih =>
    obtain ⟨ihV, ihA, ihO⟩ := ih
    exact ⟨okm_variant_step ihA ihO, okm_array_step ihV ihA, okm_object_step ihV ihO⟩
end C15

namespace C15
open JD

/-! ## TooDeep as soon as the (L+1)-th `[` is seen -/

/-- the bytes the parser will see next (the latched byte, if any, first) -/
def stream (s : St) : List Byte := if s.l.loaded then s.l.cur :: s.l.unread else s.l.unread

/-- the latch holds `c`, and `t` follows in the reader -/
def At (s : St) (c : Byte) (t : List Byte) : Prop := s.l.loaded = true ∧ s.l.cur = c ∧ s.l.unread = t

theorem cur_at {s : St} {c t} (h : stream s = c :: t) : (cur s).1 = c ∧ At (cur s).2 c t := by
  obtain ⟨⟨unread, cu, loaded, pos⟩, found⟩ := s
  cases loaded
  · simp only [stream] at h
    simp only [Bool.false_eq_true, ↓reduceIte] at h
    subst h
    simp [cur, Latch.current, At]
  · simp only [stream, ↓reduceIte, List.cons.injEq] at h
    obtain ⟨h1, h2⟩ := h
    subst h1 h2
    simp [cur, Latch.current, At]

theorem cur_of_at {s : St} {c t} (h : At s c t) : cur s = (c, s) := by
  obtain ⟨⟨unread, cu, loaded, pos⟩, found⟩ := s
  obtain ⟨h1, h2, h3⟩ := h
  simp only at h1 h2 h3
  subst h1 h2 h3
  simp [cur, Latch.current]

theorem stream_mv {s : St} {c t} (h : At s c t) : stream (mv s) = t := by
  obtain ⟨_, _, h3⟩ := h
  simp [stream, mv, Latch.move, h3]

theorem at_found {s : St} {c t b} (h : At s c t) : At { s with found := b } c t := h

theorem isWs_ne_zero {c : Byte} (h : isWs c = true) : (c == 0) = false := by
  simp only [isWs, Bool.or_eq_true, beq_iff_eq] at h
  rcases h with ((h | h) | h) | h <;> subst h <;> decide

theorem skipSpaces_open_aux {cfg} : ∀ (w : List Byte) (f : Nat) (s : St) (t : List Byte),
    (∀ c ∈ w, isWs c = true) → w.length ≤ f → stream s = w ++ 0x5B :: t →
    ∃ s', skipSpaces cfg (f+1) s = (.ok, s') ∧ At s' 0x5B t := by
  intro w
  induction w with
  | nil =>
    intro f s t _ _ hs
    obtain ⟨h1, h2⟩ := cur_at (s := s) hs
    refine ⟨{ (cur s).2 with found := true }, ?_, at_found h2⟩
    simp only [skipSpaces, h1]
    have e1 : ((0x5B : Byte) == 0) = false := by decide
    have e2 : isWs (0x5B : Byte) = false := by decide
    have e3 : ((0x5B : Byte) == 0x2F) = false := by decide
    simp [e1, e2, e3]
  | cons c w ih =>
    intro f s t hw hf hs
    obtain ⟨h1, h2⟩ := cur_at (s := s) (c := c) (t := w ++ 0x5B :: t) hs
    have hc : isWs c = true := hw c (List.mem_cons_self)
    have hc0 := isWs_ne_zero hc
    cases f with
    | zero => simp at hf
    | succ f =>
      have := ih f (mv (cur s).2) t (fun c' h' => hw c' (List.mem_cons_of_mem _ h')) (by simpa using hf) (stream_mv h2)
      obtain ⟨s', hs', hat⟩ := this
      refine ⟨s', ?_, hat⟩
      rw [skipSpaces]
      simp only [h1, hc0, hc, Bool.false_eq_true, ↓reduceIte]
      exact hs'

/-- skipping whitespace `w` in front of a `[` stops on that `[` -/
theorem skipSpaces_open {cfg} (w : List Byte) (f : Nat) (s : St) (t : List Byte)
    (h1 : ∀ c ∈ w, isWs c = true) (h2 : w.length ≤ f) (h3 : stream s = w ++ 0x5B :: t) :
    ∃ s', skipSpaces cfg (f+1) s = (.ok, s') ∧ At s' 0x5B t ∧ (∀ n, Inv n s → Inv n s') := by
  obtain ⟨s', hs', hat⟩ := skipSpaces_open_aux (cfg := cfg) w f s t h1 h2 h3
  refine ⟨s', hs', hat, fun n hn => ?_⟩
  have := inv_skipSpaces (cfg := cfg) (f+1) s hn
  rw [hs'] at this; exact this


/-- `w₀ [ w₁ [ … wₙ [` -/
def opens : List (List Byte) → List Byte
  | [] => []
  | w :: ws => w ++ 0x5B :: opens ws

theorem opens_length_cons (w : List Byte) (ws) : (opens (w :: ws)).length = w.length + 1 + (opens ws).length := by
  simp [opens]; omega

theorem opens_length_ge : ∀ ws, ws.length ≤ (opens ws).length := by
  intro ws
  induction ws with
  | nil => simp [opens]
  | cons w ws ih => rw [opens_length_cons]; simp only [List.length_cons]; omega

theorem opens_replicate_nil : ∀ n, opens (List.replicate n []) = List.replicate n 0x5B := by
  intro n
  induction n with
  | zero => rfl
  | succ n ih => simp [List.replicate_succ, opens, ih]

def AllWs (wss : List (List Byte)) : Prop := ∀ w ∈ wss, ∀ c ∈ w, isWs c = true

theorem pv_toodeep {cfg} : ∀ (L : Nat) (wss : List (List Byte)) (fuel : Nat) (s : St) (rest : List Byte),
    wss.length = L + 1 → AllWs wss → 2 * (opens wss).length ≤ fuel + 1 → stream s = opens wss ++ rest →
    ∃ v s', parseVariant cfg fuel L s = (.tooDeep, v, s') ∧ At s' 0x5B rest ∧ (∀ n, Inv n s → Inv n s') := by
  intro L
  induction L with
  | zero =>
    intro wss fuel s rest hlen hws hfuel hs
    match wss, hlen with
    | [w], _ =>
      simp only [opens, List.append_assoc, List.cons_append] at hs hfuel
      cases fuel with
      | zero => simp at hfuel; omega
      | succ f =>
        obtain ⟨s1, hs1, hat, hi1⟩ := skipSpaces_open (cfg := cfg) w f s rest (hws w (by simp)) (by simp at hfuel; omega) (by simpa using hs)
        refine ⟨.arr [], s1, ?_, hat, hi1⟩
        rw [parseVariant]
        simp only [hs1, cur_of_at hat]
        simp
  | succ L ih =>
    intro wss fuel s rest hlen hws hfuel hs
    match wss, hlen with
    | w :: w' :: wss', hlen =>
      have hlen' : (w' :: wss').length = L + 1 := by simpa using hlen
      rw [opens_length_cons] at hfuel
      have hl2 := opens_length_cons w' wss'
      cases fuel with
      | zero => omega
      | succ f =>
        cases f with
        | zero => omega
        | succ f' =>
        obtain ⟨s1, hs1, hat1, hi1⟩ := skipSpaces_open (cfg := cfg) w (f'+1) s (opens (w' :: wss') ++ rest)
          (hws w (by simp)) (by omega) (by simpa [opens] using hs)
        have hmv := stream_mv hat1
        obtain ⟨s2, hs2, hat2, hi2⟩ := skipSpaces_open (cfg := cfg) w' (f'+1) (mv s1) (opens wss' ++ rest)
          (hws w' (by simp)) (by omega) (by simpa [opens] using hmv)
        have hws2 : AllWs ([] :: wss') := by
          intro x hx
          rcases List.mem_cons.mp hx with rfl | hx
          · intro c hc; cases hc
          · exact hws x (by simp [hx])
        have := ih ([] :: wss') f' s2 rest (by simpa using hlen') hws2
          (by rw [opens_length_cons]; simp only [List.length_nil]; omega)
          (by have := cur_at (s := s2) (c := 0x5B) (t := opens wss' ++ rest)
              simp only [opens, List.nil_append, List.cons_append]
              obtain ⟨a, b, c⟩ := hat2
              simp [stream, a, b, c])
        obtain ⟨v, s3, hpv, hat3, hi3⟩ := this
        refine ⟨.arr ([v].reverse), s3, ?_, hat3, fun n hn => hi3 n (hi2 n (inv_mv (hi1 n hn)))⟩
        rw [parseVariant]
        simp only [hs1, cur_of_at hat1]
        simp only [beq_self_eq_true, ↓reduceIte, hs2, cur_of_at hat2]
        have e : ((0x5B : Byte) == 0x5D) = false := by decide
        simp only [e, Bool.false_eq_true, ↓reduceIte]
        rw [parseElems]
        simp only [hpv]

theorem sv_toodeep {cfg} : ∀ (L : Nat) (wss : List (List Byte)) (fuel : Nat) (s : St) (rest : List Byte),
    wss.length = L + 1 → AllWs wss → 2 * (opens wss).length ≤ fuel + 1 → stream s = opens wss ++ rest →
    ∃ s', skipVariant cfg fuel L s = (.tooDeep, s') ∧ At s' 0x5B rest ∧ (∀ n, Inv n s → Inv n s') := by
  intro L
  induction L with
  | zero =>
    intro wss fuel s rest hlen hws hfuel hs
    match wss, hlen with
    | [w], _ =>
      simp only [opens, List.append_assoc, List.cons_append] at hs hfuel
      cases fuel with
      | zero => simp at hfuel; omega
      | succ f =>
        obtain ⟨s1, hs1, hat, hi1⟩ := skipSpaces_open (cfg := cfg) w f s rest (hws w (by simp)) (by simp at hfuel; omega) (by simpa using hs)
        refine ⟨s1, ?_, hat, hi1⟩
        rw [skipVariant]
        simp only [hs1, cur_of_at hat]
        simp
  | succ L ih =>
    intro wss fuel s rest hlen hws hfuel hs
    match wss, hlen with
    | w :: w' :: wss', hlen =>
      have hlen' : (w' :: wss').length = L + 1 := by simpa using hlen
      rw [opens_length_cons] at hfuel
      have hl2 := opens_length_cons w' wss'
      cases fuel with
      | zero => omega
      | succ f =>
        cases f with
        | zero => omega
        | succ f' =>
        obtain ⟨s1, hs1, hat1, hi1⟩ := skipSpaces_open (cfg := cfg) w (f'+1) s (opens (w' :: wss') ++ rest)
          (hws w (by simp)) (by omega) (by simpa [opens] using hs)
        have hmv := stream_mv hat1
        have hws2 : AllWs (w' :: wss') := fun x hx => hws x (List.mem_cons_of_mem _ hx)
        obtain ⟨s3, hsv, hat3, hi3⟩ := ih (w' :: wss') f' (mv s1) rest hlen' hws2 (by omega) hmv
        refine ⟨s3, ?_, hat3, fun n hn => hi3 n (inv_mv (hi1 n hn))⟩
        rw [skipVariant]
        simp only [hs1, cur_of_at hat1]
        simp only [beq_self_eq_true, ↓reduceIte]
        rw [skipElems]
        simp only [hsv]

theorem fpv_toodeep {cfg} : ∀ (L : Nat) (wss : List (List Byte)) (fuel : Nat) (flt : Flt) (s : St) (rest : List Byte),
    wss.length = L + 1 → AllWs wss → 2 * (opens wss).length ≤ fuel + 1 → stream s = opens wss ++ rest →
    ∃ v s', fparseVariant cfg fuel L flt s = (.tooDeep, v, s') ∧ At s' 0x5B rest ∧ (∀ n, Inv n s → Inv n s') := by
  intro L
  induction L with
  | zero =>
    intro wss fuel flt s rest hlen hws hfuel hs
    match wss, hlen with
    | [w], _ =>
      simp only [opens, List.append_assoc, List.cons_append] at hs hfuel
      cases fuel with
      | zero => simp at hfuel; omega
      | succ f =>
        obtain ⟨s1, hs1, hat, hi1⟩ := skipSpaces_open (cfg := cfg) w f s rest (hws w (by simp)) (by simp at hfuel; omega) (by simpa using hs)
        cases ha : flt.allowArray
        · refine ⟨.null, s1, ?_, hat, hi1⟩
          rw [fparseVariant]
          simp only [hs1, cur_of_at hat, ha]
          simp
        · refine ⟨.arr [], s1, ?_, hat, hi1⟩
          rw [fparseVariant]
          simp only [hs1, cur_of_at hat, ha]
          simp
  | succ L ih =>
    intro wss fuel flt s rest hlen hws hfuel hs
    match wss, hlen with
    | w :: w' :: wss', hlen =>
      have hlen' : (w' :: wss').length = L + 1 := by simpa using hlen
      rw [opens_length_cons] at hfuel
      have hl2 := opens_length_cons w' wss'
      cases fuel with
      | zero => omega
      | succ f =>
        cases f with
        | zero => omega
        | succ f' =>
        obtain ⟨s1, hs1, hat1, hi1⟩ := skipSpaces_open (cfg := cfg) w (f'+1) s (opens (w' :: wss') ++ rest)
          (hws w (by simp)) (by omega) (by simpa [opens] using hs)
        have hmv := stream_mv hat1
        cases ha : flt.allowArray
        · -- the array is discarded by the filter: skipElems
          have hws2 : AllWs (w' :: wss') := fun x hx => hws x (List.mem_cons_of_mem _ hx)
          obtain ⟨s3, hsv, hat3, hi3⟩ := sv_toodeep (cfg := cfg) L (w' :: wss') f' (mv s1) rest hlen' hws2 (by omega) hmv
          refine ⟨.null, s3, ?_, hat3, fun n hn => hi3 n (inv_mv (hi1 n hn))⟩
          rw [fparseVariant]
          simp only [hs1, cur_of_at hat1, ha]
          simp only [beq_self_eq_true, ↓reduceIte, Bool.false_eq_true]
          rw [skipElems]
          simp only [hsv]
        · obtain ⟨s2, hs2, hat2, hi2⟩ := skipSpaces_open (cfg := cfg) w' (f'+1) (mv s1) (opens wss' ++ rest)
            (hws w' (by simp)) (by omega) (by simpa [opens] using hmv)
          have hws2 : AllWs ([] :: wss') := by
            intro x hx
            rcases List.mem_cons.mp hx with rfl | hx
            · intro c hc; cases hc
            · exact hws x (by simp [hx])
          have hst2 : stream s2 = opens ([] :: wss') ++ rest := by
            simp only [opens, List.nil_append, List.cons_append]
            obtain ⟨a, b, c⟩ := hat2
            simp [stream, a, b, c]
          have hf2 : 2 * (opens ([] :: wss')).length ≤ f' + 1 := by
            rw [opens_length_cons]; simp only [List.length_nil]; omega
          have e : ((0x5B : Byte) == 0x5D) = false := by decide
          cases hal : flt.subIdx.allow
          · obtain ⟨s3, hsv, hat3, hi3⟩ := sv_toodeep (cfg := cfg) L ([] :: wss') f' s2 rest (by simpa using hlen') hws2 hf2 hst2
            refine ⟨.arr [], s3, ?_, hat3, fun n hn => hi3 n (hi2 n (inv_mv (hi1 n hn)))⟩
            rw [fparseVariant]
            simp only [hs1, cur_of_at hat1, ha]
            simp only [beq_self_eq_true, ↓reduceIte, hs2, cur_of_at hat2, e, Bool.false_eq_true]
            rw [fparseElems]
            simp only [hal, hsv, Bool.false_eq_true, ↓reduceIte, List.reverse_nil]
          · obtain ⟨v, s3, hpv, hat3, hi3⟩ := ih ([] :: wss') f' flt.subIdx s2 rest (by simpa using hlen') hws2 hf2 hst2
            refine ⟨.arr [v].reverse, s3, ?_, hat3, fun n hn => hi3 n (hi2 n (inv_mv (hi1 n hn)))⟩
            rw [fparseVariant]
            simp only [hs1, cur_of_at hat1, ha]
            simp only [beq_self_eq_true, ↓reduceIte, hs2, cur_of_at hat2, e, Bool.false_eq_true]
            rw [fparseElems]
            simp only [hal, hpv, ↓reduceIte]
end C15

namespace C15
open JD MD

/-! ## MessagePack: TooDeep as soon as the (L+1)-th array header is read -/

set_option maxRecDepth 8000 in
theorem mp_open_step {env f} (limit : Nat) (flt : Flt) (b : Bool) (r : R) (t : List Byte) (h : r.unread = 0x91 :: t) :
    MD.parseVariant env (f+1) limit flt b r =
      match limit with
      | 0 => (.tooDeep, .null, { unread := t, pos := r.pos + 1 }, true)
      | l+1 =>
        if (b && flt.allowArray) = true then
          match readArray env f l flt.subIdx true 1 { unread := t, pos := r.pos + 1 } [] with
          | (e, vs, r) => (e, .arr vs, r, true)
        else
          match readArray env f l flt.subIdx false 1 { unread := t, pos := r.pos + 1 } [] with
          | (e, _, r) => (e, .null, r, true) := by
  rw [MD.parseVariant]
  have hr : r.read = (some 0x91, { unread := t, pos := r.pos + 1 }) := by simp [R.read, h]
  simp only [hr]
  have hc : (0x91 : UInt8).toNat = 145 := by decide
  simp only [hc]
  cases limit <;> simp

theorem mp_toodeep {env} : ∀ (L fuel : Nat) (flt : Flt) (b : Bool) (r : R) (rest : List Byte),
    2 * L + 1 ≤ fuel → r.unread = List.replicate (L+1) 0x91 ++ rest →
    ∃ v r', MD.parseVariant env fuel L flt b r = (.tooDeep, v, r', true) ∧ r'.unread = rest ∧ r'.pos = r.pos + (L+1) := by
  intro L
  induction L with
  | zero =>
    intro fuel flt b r rest hf hr
    cases fuel with
    | zero => omega
    | succ f =>
      refine ⟨.null, { unread := rest, pos := r.pos + 1 }, ?_, rfl, rfl⟩
      rw [mp_open_step 0 flt b r rest (by simpa using hr)]
  | succ L ih =>
    intro fuel flt b r rest hf hr
    cases fuel with
    | zero => omega
    | succ f =>
      cases f with
      | zero => omega
      | succ f' =>
        have hr' : r.unread = 0x91 :: (List.replicate (L+1) 0x91 ++ rest) := by
          rw [hr, List.replicate_succ]; rfl
        rw [mp_open_step (L+1) flt b r _ hr']
        simp only
        by_cases hb : (b && flt.allowArray) = true
        · obtain ⟨v, r', hv, hu, hp⟩ := ih f' flt.subIdx (true && flt.subIdx.allow) { unread := List.replicate (L+1) 0x91 ++ rest, pos := r.pos + 1 } rest (by omega) rfl
          refine ⟨.arr (if (true && flt.subIdx.allow) = true then [v] else []).reverse, r', ?_, hu, by rw [hp]; simp only; omega⟩
          rw [if_pos hb, readArray]
          simp only [hv]
          simp
        · obtain ⟨v, r', hv, hu, hp⟩ := ih f' flt.subIdx (false && flt.subIdx.allow) { unread := List.replicate (L+1) 0x91 ++ rest, pos := r.pos + 1 } rest (by omega) rfl
          refine ⟨.null, r', ?_, hu, by rw [hp]; simp only; omega⟩
          rw [if_neg hb, readArray]
          simp only [hv]
          simp
end C15
