/- The nesting limit influences the outcome only through TooDeep: if a routine does not report TooDeep with limit L,
   it returns exactly the same result with limit L+1 (JSON unfiltered / skip routines / filtered, MessagePack). -/
import AJ.Lemmas.Depth
namespace C15
open JD

/-! ## the limit matters only through TooDeep: raising it does not change any other outcome -/
def Same {α : Type} (a b : Code × α) : Prop := b.1 ≠ .tooDeep → a = b
theorem same_rfl {α : Type} {a : Code × α} : Same a a := fun _ => rfl
theorem same_td {α : Type} {a : Code × α} {x : α} : Same a (.tooDeep, x) := fun h => absurd rfl h

theorem mono_mutual {cfg} : ∀ fuel,
    (∀ limit s, Same (parseVariant cfg fuel (limit+1) s) (parseVariant cfg fuel limit s)) ∧
    (∀ limit s acc, Same (parseElems cfg fuel (limit+1) s acc) (parseElems cfg fuel limit s acc)) ∧
    (∀ limit s ms, Same (parseMembers cfg fuel (limit+1) s ms) (parseMembers cfg fuel limit s ms)) := by
  intro fuel
  induction fuel with
  | zero =>
    refine ⟨?_, ?_, ?_⟩
    · intro limit s; simp only [parseVariant]; exact same_rfl
    · intro limit s acc; simp only [parseElems]; exact same_rfl
    · intro limit s ms; simp only [parseMembers]; exact same_rfl
  | succ f ih =>
    obtain ⟨ihV, ihE, ihM⟩ := ih
    refine ⟨?_, ?_, ?_⟩
    · intro limit s
      simp only [parseVariant]
      generalize skipSpaces cfg (f+1) s = q
      obtain ⟨e, s1⟩ := q
      cases e <;> simp only <;> try exact same_rfl
      by_cases hc : ((cur s1).1 == 0x5B) = true
      · simp only [hc, ↓reduceIte]
        cases limit with
        | zero => exact same_td
        | succ l =>
          simp only
          generalize skipSpaces cfg (f+1) (mv (cur s1).2) = q2
          obtain ⟨e2, s2⟩ := q2
          cases e2 <;> simp only <;> try exact same_rfl
          by_cases hd : ((cur s2).1 == 0x5D) = true
          · simp only [hd, ↓reduceIte]; exact same_rfl
          · simp only [hd, Bool.false_eq_true, ↓reduceIte]; exact ihE _ _ _
      · simp only [hc, Bool.false_eq_true, ↓reduceIte]
        by_cases hc2 : ((cur s1).1 == 0x7B) = true
        · simp only [hc2, ↓reduceIte]
          cases limit with
          | zero => exact same_td
          | succ l =>
            simp only
            generalize skipSpaces cfg (f+1) (mv (cur s1).2) = q2
            obtain ⟨e2, s2⟩ := q2
            cases e2 <;> simp only <;> try exact same_rfl
            by_cases hd : ((cur s2).1 == 0x7D) = true
            · simp only [hd, ↓reduceIte]; exact same_rfl
            · simp only [hd, Bool.false_eq_true, ↓reduceIte]; exact ihM _ _ _
        · simp only [hc2, Bool.false_eq_true, ↓reduceIte]; exact same_rfl
    · intro limit s acc
      simp only [parseElems]
      by_cases hv : (parseVariant cfg f limit s).1 = .tooDeep
      · generalize parseVariant cfg f limit s = r at hv
        obtain ⟨e, v, s1⟩ := r
        simp only at hv
        subst hv
        exact same_td
      · rw [ihV limit s hv]
        generalize parseVariant cfg f limit s = r
        obtain ⟨e, v, s1⟩ := r
        cases e <;> simp only <;> try exact same_rfl
        generalize skipSpaces cfg (f+1) s1 = q
        obtain ⟨e2, s2⟩ := q
        cases e2 <;> simp only <;> try exact same_rfl
        by_cases hd : ((cur s2).1 == 0x5D) = true
        · simp only [hd, ↓reduceIte]; exact same_rfl
        · simp only [hd, Bool.false_eq_true, ↓reduceIte]
          by_cases hd2 : ((cur s2).1 == 0x2C) = true
          · simp only [hd2, ↓reduceIte]; exact ihE _ _ _
          · simp only [hd2, Bool.false_eq_true, ↓reduceIte]; exact same_rfl
    · intro limit s ms
      simp only [parseMembers]
      generalize (if ((cur s).1 == 0x22 || (cur s).1 == 0x27) = true then parseQuoted cfg (cur s).1 (f+1) [] 0 (mv (cur s).2)
            else if inUnquoted (cur s).1 = true then
              ((if (parseUnquoted (f+1) [] (cur s).2).1.length > cfg.maxStrLen then Code.noMemory else Code.ok), (parseUnquoted (f+1) [] (cur s).2).1, (parseUnquoted (f+1) [] (cur s).2).2)
            else (Code.invalid, [], (cur s).2)) = kr
      obtain ⟨kc, key, s1⟩ := kr
      cases kc <;> simp only <;> try exact same_rfl
      generalize skipSpaces cfg (f+1) s1 = q
      obtain ⟨e2, s2⟩ := q
      cases e2 <;> simp only <;> try exact same_rfl
      by_cases hcol : ((cur s2).1 != 0x3A) = true
      · simp only [hcol, ↓reduceIte]; exact same_rfl
      · simp only [hcol, Bool.false_eq_true, ↓reduceIte]
        by_cases hv : (parseVariant cfg f limit (mv (cur s2).2)).1 = .tooDeep
        · generalize parseVariant cfg f limit (mv (cur s2).2) = r at hv
          obtain ⟨e, v, s3⟩ := r
          simp only at hv
          subst hv
          exact same_td
        · rw [ihV limit _ hv]
          generalize parseVariant cfg f limit (mv (cur s2).2) = r
          obtain ⟨e, v, s3⟩ := r
          cases e <;> simp only <;> try exact same_rfl
          generalize skipSpaces cfg (f+1) s3 = q
          obtain ⟨e4, s4⟩ := q
          cases e4 <;> simp only <;> try exact same_rfl
          by_cases hd : ((cur s4).1 == 0x7D) = true
          · simp only [hd, ↓reduceIte]; exact same_rfl
          · simp only [hd, Bool.false_eq_true, ↓reduceIte]
            by_cases hd2 : ((cur s4).1 == 0x2C) = true
            · simp only [hd2, ↓reduceIte]
              generalize skipSpaces cfg (f+1) (mv (cur s4).2) = q
              obtain ⟨e5, s5⟩ := q
              cases e5 <;> simp only <;> try exact same_rfl
              exact ihM _ _ _
            · simp only [hd2, Bool.false_eq_true, ↓reduceIte]; exact same_rfl

/-! ### skip routines and the filtered parser -/

theorem mono_skip {cfg} : ∀ fuel,
    (∀ limit s, Same (skipVariant cfg fuel (limit+1) s) (skipVariant cfg fuel limit s)) ∧
    (∀ limit s, Same (skipElems cfg fuel (limit+1) s) (skipElems cfg fuel limit s)) ∧
    (∀ limit s, Same (skipMembers cfg fuel (limit+1) s) (skipMembers cfg fuel limit s)) := by
  intro fuel
  induction fuel with
  | zero =>
    refine ⟨?_, ?_, ?_⟩
    · intro limit s; simp only [skipVariant]; exact same_rfl
    · intro limit s; simp only [skipElems]; exact same_rfl
    · intro limit s; simp only [skipMembers]; exact same_rfl
  | succ f ih =>
    obtain ⟨ihV, ihE, ihM⟩ := ih
    refine ⟨?_, ?_, ?_⟩
    · intro limit s
      simp only [skipVariant]
      generalize skipSpaces cfg (f+1) s = q
      obtain ⟨e, s1⟩ := q
      cases e <;> simp only <;> try exact same_rfl
      by_cases hc : ((cur s1).1 == 0x5B) = true
      · simp only [hc, ↓reduceIte]
        cases limit with
        | zero => exact same_td
        | succ l => simp only; exact ihE _ _
      · simp only [hc, Bool.false_eq_true, ↓reduceIte]
        by_cases hc2 : ((cur s1).1 == 0x7B) = true
        · simp only [hc2, ↓reduceIte]
          cases limit with
          | zero => exact same_td
          | succ l =>
            simp only
            generalize skipSpaces cfg (f+1) (mv (cur s1).2) = q2
            obtain ⟨e2, s2⟩ := q2
            cases e2 <;> simp only <;> try exact same_rfl
            by_cases hd : ((cur s2).1 == 0x7D) = true
            · simp only [hd, ↓reduceIte]; exact same_rfl
            · simp only [hd, Bool.false_eq_true, ↓reduceIte]; exact ihM _ _
        · simp only [hc2, Bool.false_eq_true, ↓reduceIte]; exact same_rfl
    · intro limit s
      simp only [skipElems]
      by_cases hv : (skipVariant cfg f limit s).1 = .tooDeep
      · generalize skipVariant cfg f limit s = r at hv
        obtain ⟨e, s1⟩ := r
        simp only at hv
        subst hv
        exact same_td
      · rw [ihV limit s hv]
        generalize skipVariant cfg f limit s = r
        obtain ⟨e, s1⟩ := r
        cases e <;> simp only <;> try exact same_rfl
        generalize skipSpaces cfg (f+1) s1 = q
        obtain ⟨e2, s2⟩ := q
        cases e2 <;> simp only <;> try exact same_rfl
        by_cases hd : ((cur s2).1 == 0x5D) = true
        · simp only [hd, ↓reduceIte]; exact same_rfl
        · simp only [hd, Bool.false_eq_true, ↓reduceIte]
          by_cases hd2 : ((cur s2).1 == 0x2C) = true
          · simp only [hd2, ↓reduceIte]; exact ihE _ _
          · simp only [hd2, Bool.false_eq_true, ↓reduceIte]; exact same_rfl
    · intro limit s
      simp only [skipMembers]
      generalize (if ((cur s).1 == 0x22 || (cur s).1 == 0x27) = true then skipQuoted (cur s).1 (f+1) (mv (cur s).2)
            else (Code.ok, skipUnquoted (f+1) (cur s).2)) = kr
      obtain ⟨kc, s1⟩ := kr
      by_cases hk : (kc != Code.ok) = true
      · simp only [hk, ↓reduceIte]; exact same_rfl
      · simp only [hk, Bool.false_eq_true, ↓reduceIte]
        generalize skipSpaces cfg (f+1) s1 = q
        obtain ⟨e2, s2⟩ := q
        cases e2 <;> simp only <;> try exact same_rfl
        by_cases hcol : ((cur s2).1 != 0x3A) = true
        · simp only [hcol, ↓reduceIte]; exact same_rfl
        · simp only [hcol, Bool.false_eq_true, ↓reduceIte]
          by_cases hv : (skipVariant cfg f limit (mv (cur s2).2)).1 = .tooDeep
          · generalize skipVariant cfg f limit (mv (cur s2).2) = r at hv
            obtain ⟨e, s3⟩ := r
            simp only at hv
            subst hv
            exact same_td
          · rw [ihV limit _ hv]
            generalize skipVariant cfg f limit (mv (cur s2).2) = r
            obtain ⟨e, s3⟩ := r
            cases e <;> simp only <;> try exact same_rfl
            generalize skipSpaces cfg (f+1) s3 = q
            obtain ⟨e4, s4⟩ := q
            cases e4 <;> simp only <;> try exact same_rfl
            by_cases hd : ((cur s4).1 == 0x7D) = true
            · simp only [hd, ↓reduceIte]; exact same_rfl
            · simp only [hd, Bool.false_eq_true, ↓reduceIte]
              by_cases hd2 : ((cur s4).1 == 0x2C) = true
              · simp only [hd2, ↓reduceIte]
                generalize skipSpaces cfg (f+1) (mv (cur s4).2) = q
                obtain ⟨e5, s5⟩ := q
                cases e5 <;> simp only <;> try exact same_rfl
                exact ihM _ _
              · simp only [hd2, Bool.false_eq_true, ↓reduceIte]; exact same_rfl

theorem mono_fmutual {cfg} : ∀ fuel,
    (∀ limit flt s, Same (fparseVariant cfg fuel (limit+1) flt s) (fparseVariant cfg fuel limit flt s)) ∧
    (∀ limit ef s acc, Same (fparseElems cfg fuel (limit+1) ef s acc) (fparseElems cfg fuel limit ef s acc)) ∧
    (∀ limit flt s ms, Same (fparseMembers cfg fuel (limit+1) flt s ms) (fparseMembers cfg fuel limit flt s ms)) := by
  intro fuel
  induction fuel with
  | zero =>
    refine ⟨?_, ?_, ?_⟩
    · intro limit flt s; simp only [fparseVariant]; exact same_rfl
    · intro limit flt s acc; simp only [fparseElems]; exact same_rfl
    · intro limit flt s ms; simp only [fparseMembers]; exact same_rfl
  | succ f ih =>
    obtain ⟨ihV, ihE, ihM⟩ := ih
    obtain ⟨skV, skE, skM⟩ := mono_skip (cfg := cfg) f
    refine ⟨?_, ?_, ?_⟩
    · intro limit flt s
      simp only [fparseVariant]
      generalize skipSpaces cfg (f+1) s = q
      obtain ⟨e, s1⟩ := q
      cases e <;> simp only <;> try exact same_rfl
      by_cases hc : ((cur s1).1 == 0x5B) = true
      · simp only [hc, ↓reduceIte]
        by_cases ha : flt.allowArray = true
        · simp only [ha, ↓reduceIte]
          cases limit with
          | zero => exact same_td
          | succ l =>
            simp only
            generalize skipSpaces cfg (f+1) (mv (cur s1).2) = q2
            obtain ⟨e2, s2⟩ := q2
            cases e2 <;> simp only <;> try exact same_rfl
            by_cases hd : ((cur s2).1 == 0x5D) = true
            · simp only [hd, ↓reduceIte]; exact same_rfl
            · simp only [hd, Bool.false_eq_true, ↓reduceIte]; exact ihE _ _ _ _
        · simp only [ha, Bool.false_eq_true, ↓reduceIte]
          cases limit with
          | zero => exact same_td
          | succ l =>
            simp only
            intro h
            rw [skE l _ h]
      · simp only [hc, Bool.false_eq_true, ↓reduceIte]
        by_cases hc2 : ((cur s1).1 == 0x7B) = true
        · simp only [hc2, ↓reduceIte]
          by_cases ha : flt.allowObject = true
          · simp only [ha, ↓reduceIte]
            cases limit with
            | zero => exact same_td
            | succ l =>
              simp only
              generalize skipSpaces cfg (f+1) (mv (cur s1).2) = q2
              obtain ⟨e2, s2⟩ := q2
              cases e2 <;> simp only <;> try exact same_rfl
              by_cases hd : ((cur s2).1 == 0x7D) = true
              · simp only [hd, ↓reduceIte]; exact same_rfl
              · simp only [hd, Bool.false_eq_true, ↓reduceIte]; exact ihM _ _ _ _
          · simp only [ha, Bool.false_eq_true, ↓reduceIte]
            cases limit with
            | zero => exact same_td
            | succ l =>
              simp only
              generalize skipSpaces cfg (f+1) (mv (cur s1).2) = q2
              obtain ⟨e2, s2⟩ := q2
              cases e2 <;> simp only <;> try exact same_rfl
              by_cases hd : ((cur s2).1 == 0x7D) = true
              · simp only [hd, ↓reduceIte]; exact same_rfl
              · simp only [hd, Bool.false_eq_true, ↓reduceIte]
                intro h
                rw [skM l _ h]
        · simp only [hc2, Bool.false_eq_true, ↓reduceIte]; exact same_rfl
    · intro limit ef s acc
      simp only [fparseElems]
      by_cases ha : ef.allow = true
      · simp only [ha, ↓reduceIte]
        by_cases hv : (fparseVariant cfg f limit ef s).1 = .tooDeep
        · generalize fparseVariant cfg f limit ef s = r at hv
          obtain ⟨e, v, s1⟩ := r
          simp only at hv
          subst hv
          simp only
          exact same_td
        · rw [ihV limit ef s hv]
          generalize fparseVariant cfg f limit ef s = r
          obtain ⟨e, v, s1⟩ := r
          cases e <;> simp only <;> try exact same_rfl
          generalize skipSpaces cfg (f+1) s1 = q
          obtain ⟨e2, s2⟩ := q
          cases e2 <;> simp only <;> try exact same_rfl
          by_cases hd : ((cur s2).1 == 0x5D) = true
          · simp only [hd, ↓reduceIte]; exact same_rfl
          · simp only [hd, Bool.false_eq_true, ↓reduceIte]
            by_cases hd2 : ((cur s2).1 == 0x2C) = true
            · simp only [hd2, ↓reduceIte]; exact ihE _ _ _ _
            · simp only [hd2, Bool.false_eq_true, ↓reduceIte]; exact same_rfl
      · simp only [ha, Bool.false_eq_true, ↓reduceIte]
        by_cases hv : (skipVariant cfg f limit s).1 = .tooDeep
        · generalize skipVariant cfg f limit s = r at hv
          obtain ⟨e, s1⟩ := r
          simp only at hv
          subst hv
          simp only
          exact same_td
        · rw [skV limit s hv]
          generalize skipVariant cfg f limit s = r
          obtain ⟨e, s1⟩ := r
          cases e <;> simp only <;> try exact same_rfl
          generalize skipSpaces cfg (f+1) s1 = q
          obtain ⟨e2, s2⟩ := q
          cases e2 <;> simp only <;> try exact same_rfl
          by_cases hd : ((cur s2).1 == 0x5D) = true
          · simp only [hd, ↓reduceIte]; exact same_rfl
          · simp only [hd, Bool.false_eq_true, ↓reduceIte]
            by_cases hd2 : ((cur s2).1 == 0x2C) = true
            · simp only [hd2, ↓reduceIte]; exact ihE _ _ _ _
            · simp only [hd2, Bool.false_eq_true, ↓reduceIte]; exact same_rfl
    · intro limit flt s ms
      simp only [fparseMembers]
      generalize (if ((cur s).1 == 0x22 || (cur s).1 == 0x27) = true then parseQuoted cfg (cur s).1 (f+1) [] 0 (mv (cur s).2)
            else if inUnquoted (cur s).1 = true then
              ((if (parseUnquoted (f+1) [] (cur s).2).1.length > cfg.maxStrLen then Code.noMemory else Code.ok), (parseUnquoted (f+1) [] (cur s).2).1, (parseUnquoted (f+1) [] (cur s).2).2)
            else (Code.invalid, [], (cur s).2)) = kr
      obtain ⟨kc, key, s1⟩ := kr
      cases kc <;> simp only <;> try exact same_rfl
      generalize skipSpaces cfg (f+1) s1 = q
      obtain ⟨e2, s2⟩ := q
      cases e2 <;> simp only <;> try exact same_rfl
      by_cases hcol : ((cur s2).1 != 0x3A) = true
      · simp only [hcol, ↓reduceIte]; exact same_rfl
      · simp only [hcol, Bool.false_eq_true, ↓reduceIte]
        by_cases ha : (flt.subKey key).allow = true
        · simp only [ha, ↓reduceIte]
          by_cases hv : (fparseVariant cfg f limit (flt.subKey key) (mv (cur s2).2)).1 = .tooDeep
          · generalize fparseVariant cfg f limit (flt.subKey key) (mv (cur s2).2) = r at hv
            obtain ⟨e, v, s3⟩ := r
            simp only at hv
            subst hv
            simp only
            exact same_td
          · rw [ihV limit _ _ hv]
            generalize fparseVariant cfg f limit (flt.subKey key) (mv (cur s2).2) = r
            obtain ⟨e, v, s3⟩ := r
            cases e <;> simp only <;> try exact same_rfl
            generalize skipSpaces cfg (f+1) s3 = q
            obtain ⟨e4, s4⟩ := q
            cases e4 <;> simp only <;> try exact same_rfl
            by_cases hd : ((cur s4).1 == 0x7D) = true
            · simp only [hd, ↓reduceIte]; exact same_rfl
            · simp only [hd, Bool.false_eq_true, ↓reduceIte]
              by_cases hd2 : ((cur s4).1 == 0x2C) = true
              · simp only [hd2, ↓reduceIte]
                generalize skipSpaces cfg (f+1) (mv (cur s4).2) = q
                obtain ⟨e5, s5⟩ := q
                cases e5 <;> simp only <;> try exact same_rfl
                exact ihM _ _ _ _
              · simp only [hd2, Bool.false_eq_true, ↓reduceIte]; exact same_rfl
        · simp only [ha, Bool.false_eq_true, ↓reduceIte]
          by_cases hv : (skipVariant cfg f limit (mv (cur s2).2)).1 = .tooDeep
          · generalize skipVariant cfg f limit (mv (cur s2).2) = r at hv
            obtain ⟨e, s3⟩ := r
            simp only at hv
            subst hv
            simp only
            exact same_td
          · rw [skV limit _ hv]
            generalize skipVariant cfg f limit (mv (cur s2).2) = r
            obtain ⟨e, s3⟩ := r
            cases e <;> simp only <;> try exact same_rfl
            generalize skipSpaces cfg (f+1) s3 = q
            obtain ⟨e4, s4⟩ := q
            cases e4 <;> simp only <;> try exact same_rfl
            by_cases hd : ((cur s4).1 == 0x7D) = true
            · simp only [hd, ↓reduceIte]; exact same_rfl
            · simp only [hd, Bool.false_eq_true, ↓reduceIte]
              by_cases hd2 : ((cur s4).1 == 0x2C) = true
              · simp only [hd2, ↓reduceIte]
                generalize skipSpaces cfg (f+1) (mv (cur s4).2) = q
                obtain ⟨e5, s5⟩ := q
                cases e5 <;> simp only <;> try exact same_rfl
                exact ihM _ _ _ _
              · simp only [hd2, Bool.false_eq_true, ↓reduceIte]; exact same_rfl
end C15

namespace C15
open JD MD

/-! ### MessagePack -/
theorem same_ite {α : Type} {c : Prop} [Decidable c] {a a' b b' : Code × α}
    (h1 : c → Same a b) (h2 : ¬ c → Same a' b') : Same (if c then a else a') (if c then b else b') := by
  by_cases h : c
  · rw [if_pos h, if_pos h]; exact h1 h
  · rw [if_neg h, if_neg h]; exact h2 h

set_option maxRecDepth 8000 in
theorem mono_variant_step {env f}
    (ihA : ∀ limit ef hasArr n r acc, Same (readArray env f (limit+1) ef hasArr n r acc) (readArray env f limit ef hasArr n r acc))
    (ihO : ∀ limit flt hasObj n r ms, Same (readObject env f (limit+1) flt hasObj n r ms) (readObject env f limit flt hasObj n r ms))
    (limit : Nat) (flt : Flt) (b : Bool) (r : R) :
    Same (MD.parseVariant env (f+1) (limit+1) flt b r) (MD.parseVariant env (f+1) limit flt b r) := by
  rw [MD.parseVariant, MD.parseVariant]
  generalize r.read = q
  obtain ⟨o, r1⟩ := q
  cases o
  · exact same_rfl
  · rename_i code
    simp only
    refine same_ite (fun _ => same_rfl) (fun _ => ?_)
    refine same_ite (fun _ => same_rfl) (fun _ => ?_)
    refine same_ite (fun _ => same_rfl) (fun _ => ?_)
    refine same_ite (fun _ => same_rfl) (fun _ => ?_)
    refine same_ite (fun _ => same_rfl) (fun _ => ?_)
    refine same_ite (fun _ => same_rfl) (fun _ => ?_)
    refine same_ite (fun _ => same_rfl) (fun _ => ?_)
    split
    · exact same_rfl
    · refine same_ite (fun _ => ?_) (fun _ => ?_)
      · cases limit with
        | zero => exact same_td
        | succ l =>
          simp only
          refine same_ite (fun _ => ?_) (fun _ => ?_)
          · intro h; rw [ihA l _ _ _ _ _ h]
          · intro h; rw [ihA l _ _ _ _ _ h]
      · refine same_ite (fun _ => ?_) (fun _ => same_rfl)
        cases limit with
        | zero => exact same_td
        | succ l =>
          simp only
          refine same_ite (fun _ => ?_) (fun _ => ?_)
          · intro h; rw [ihO l _ _ _ _ _ h]
          · intro h; rw [ihO l _ _ _ _ _ h]

theorem mono_array_step {env f}
    (ihV : ∀ limit flt b r, Same (MD.parseVariant env f (limit+1) flt b r) (MD.parseVariant env f limit flt b r))
    (ihA : ∀ limit ef hasArr n r acc, Same (readArray env f (limit+1) ef hasArr n r acc) (readArray env f limit ef hasArr n r acc))
    (limit : Nat) (ef : Flt) (hasArr : Bool) (n : Nat) (r : R) (acc : List Val) :
    Same (readArray env (f+1) (limit+1) ef hasArr n r acc) (readArray env (f+1) limit ef hasArr n r acc) := by
  rw [readArray, readArray]
  refine same_ite (fun _ => same_rfl) (fun _ => ?_)
  simp only
  by_cases hv : (MD.parseVariant env f limit ef (hasArr && ef.allow) r).1 = .tooDeep
  · generalize MD.parseVariant env f limit ef (hasArr && ef.allow) r = x at hv
    obtain ⟨e, v, r1, b1⟩ := x
    simp only at hv
    subst hv
    exact same_td
  · rw [ihV limit _ _ _ hv]
    generalize MD.parseVariant env f limit ef (hasArr && ef.allow) r = x
    obtain ⟨e, v, r1, b1⟩ := x
    cases e <;> simp only <;> try exact same_rfl
    exact ihA _ _ _ _ _ _

theorem mono_object_step {env f}
    (ihV : ∀ limit flt b r, Same (MD.parseVariant env f (limit+1) flt b r) (MD.parseVariant env f limit flt b r))
    (ihO : ∀ limit flt hasObj n r ms, Same (readObject env f (limit+1) flt hasObj n r ms) (readObject env f limit flt hasObj n r ms))
    (limit : Nat) (flt : Flt) (hasObj : Bool) (n : Nat) (r : R) (ms : List (List Byte × Val)) :
    Same (readObject env (f+1) (limit+1) flt hasObj n r ms) (readObject env (f+1) limit flt hasObj n r ms) := by
  rw [readObject, readObject]
  refine same_ite (fun _ => same_rfl) (fun _ => ?_)
  generalize r.read = q
  obtain ⟨o, r1⟩ := q
  cases o
  · exact same_rfl
  · rename_i code
    simp only
    split
    · exact same_rfl
    · exact same_rfl
    · refine same_ite (fun _ => same_rfl) (fun _ => ?_)
      rename_i len r2 _ _
      generalize r2.readBytes len = q2
      obtain ⟨o2, r3⟩ := q2
      cases o2
      · exact same_rfl
      · rename_i key
        simp only
        by_cases hv : (MD.parseVariant env f limit (flt.subKey key) (hasObj && (flt.subKey key).allow) r3).1 = .tooDeep
        · generalize MD.parseVariant env f limit (flt.subKey key) (hasObj && (flt.subKey key).allow) r3 = x at hv
          obtain ⟨e, v, r4, b1⟩ := x
          simp only at hv
          subst hv
          exact same_td
        · rw [ihV limit _ _ _ hv]
          generalize MD.parseVariant env f limit (flt.subKey key) (hasObj && (flt.subKey key).allow) r3 = x
          obtain ⟨e, v, r4, b1⟩ := x
          cases e <;> simp only <;> try exact same_rfl
          exact ihO _ _ _ _ _ _

theorem mono_mmutual {env} : ∀ fuel,
    (∀ limit flt b r, Same (MD.parseVariant env fuel (limit+1) flt b r) (MD.parseVariant env fuel limit flt b r)) ∧
    (∀ limit ef hasArr n r acc, Same (readArray env fuel (limit+1) ef hasArr n r acc) (readArray env fuel limit ef hasArr n r acc)) ∧
    (∀ limit flt hasObj n r ms, Same (readObject env fuel (limit+1) flt hasObj n r ms) (readObject env fuel limit flt hasObj n r ms)) := by
  intro fuel
  induction fuel with
  | zero =>
    refine ⟨?_, ?_, ?_⟩
    · intro limit flt b r; rw [MD.parseVariant, MD.parseVariant]; exact same_rfl
    · intro limit ef hasArr n r acc; rw [readArray, readArray]; exact same_rfl
    · intro limit flt hasObj n r ms; rw [readObject, readObject]; exact same_rfl
  | succ f ih =>
    obtain ⟨ihV, ihA, ihO⟩ := ih
    exact ⟨mono_variant_step ihA ihO, mono_array_step ihV ihA, mono_object_step ihV ihO⟩

/-- iterate: any larger limit -/
theorem same_add {α : Type} (g : Nat → Code × α) (hstep : ∀ l, Same (g (l+1)) (g l)) (L k : Nat)
    (h : (g L).1 ≠ .tooDeep) : g (L + k) = g L := by
  induction k with
  | zero => rfl
  | succ k ih =>
    have h' : (g (L + k)).1 ≠ .tooDeep := by rw [ih]; exact h
    have := hstep (L + k) h'
    rw [← Nat.add_assoc, this, ih]
end C15

namespace C15
open JD MD

/-! ### MessagePack: the `foundSomething` flag -/

def Fnd (x : Code × Val × R × Bool) : Prop := x.2.2.2 = true
theorem fnd_ite {c : Prop} [Decidable c] {a b : Code × Val × R × Bool}
    (ha : c → Fnd a) (hb : ¬ c → Fnd b) : Fnd (if c then a else b) := by
  by_cases h : c
  · rw [if_pos h]; exact ha h
  · rw [if_neg h]; exact hb h

macro "fnd_leaf" : tactic => `(tactic| first | rfl | (split <;> rfl))

set_option maxRecDepth 8000 in
/-- `foundSomething` is false only when the very first byte is missing (Incomplete) -/
theorem mp_found (env : Env) (fuel limit : Nat) (flt : Flt) (b : Bool) (r : R) :
    (MD.parseVariant env fuel limit flt b r).2.2.2 = true ∨ (MD.parseVariant env fuel limit flt b r).1 = .incomplete := by
  cases fuel with
  | zero => left; rw [MD.parseVariant]
  | succ f =>
    rw [MD.parseVariant]
    split
    · right; rfl
    · left
      extract_lets allowValue c fin width sizeBytes isExt0
      show Fnd _
      refine fnd_ite (fun _ => ?_) (fun _ => ?_)
      · refine fnd_ite (fun _ => ?_) (fun _ => ?_) <;> fnd_leaf
      refine fnd_ite (fun _ => ?_) (fun _ => ?_)
      · fnd_leaf
      refine fnd_ite (fun _ => ?_) (fun _ => ?_)
      · fnd_leaf
      refine fnd_ite (fun _ => ?_) (fun _ => ?_)
      · fnd_leaf
      refine fnd_ite (fun _ => ?_) (fun _ => ?_)
      · refine fnd_ite (fun _ => ?_) (fun _ => ?_) <;> fnd_leaf
      refine fnd_ite (fun _ => ?_) (fun _ => ?_)
      · refine fnd_ite (fun _ => ?_) (fun _ => ?_) <;> fnd_leaf
      refine fnd_ite (fun _ => ?_) (fun _ => ?_)
      · fnd_leaf
      split
      extract_lets size1 size2 hdr
      generalize hdr = hd
      split
      · fnd_leaf
      · refine fnd_ite (fun _ => ?_) (fun _ => ?_)
        · split
          · fnd_leaf
          · refine fnd_ite (fun _ => ?_) (fun _ => ?_) <;> fnd_leaf
        refine fnd_ite (fun _ => ?_) (fun _ => ?_)
        · split
          · fnd_leaf
          · refine fnd_ite (fun _ => ?_) (fun _ => ?_) <;> fnd_leaf
        refine fnd_ite (fun _ => ?_) (fun _ => ?_)
        · refine fnd_ite (fun _ => ?_) (fun _ => ?_)
          · refine fnd_ite (fun _ => ?_) (fun _ => ?_)
            · fnd_leaf
            · fnd_leaf
          · fnd_leaf
        extract_lets
        refine fnd_ite (fun _ => ?_) (fun _ => ?_)
        · refine fnd_ite (fun _ => ?_) (fun _ => ?_)
          · fnd_leaf
          · fnd_leaf
        · fnd_leaf

theorem mp_toodeep_found (env : Env) (fuel limit : Nat) (flt : Flt) (b : Bool) (r : R)
    (h : (MD.parseVariant env fuel limit flt b r).1 = .tooDeep) : (MD.parseVariant env fuel limit flt b r).2.2.2 = true := by
  rcases mp_found env fuel limit flt b r with h1 | h1
  · exact h1
  · rw [h1] at h; cases h
end C15
