/- Classification lemmas for C10: when the deserializer answers `EmptyInput`, and what it answers on a token that a
   disabled option would have allowed. -/
import AJ.Lemmas.DialectSound
import AJ.Lemmas.DialectWs
import AJ.Lemmas.DialectFound
set_option linter.unusedSimpArgs false
set_option linter.unusedVariables false
namespace JD
open Spec.Dialect

theorem cur_snd_loaded (s : St) : (cur s).2.l.loaded = true ∧ (cur s).2.l.cur = (cur s).1 := by
  cases h : s.l.loaded
  · cases h2 : s.l.unread with
    | nil => rw [cur_nil h h2]; exact ⟨rfl, rfl⟩
    | cons c cs => rw [cur_cons h h2]; exact ⟨rfl, rfl⟩
  · rw [cur_loaded h]; exact ⟨h, rfl⟩

/-- shape of the state after a successful `skipSpaces`: latched on a token byte, `found` set -/
theorem skipSpaces_ok_shape (cfg : Cfg) : ∀ (fuel : Nat) (s s1 : St), skipSpaces cfg fuel s = (.ok, s1) →
    s1.l.loaded = true ∧ s1.found = true ∧ (s1.l.cur == 0) = false ∧ isWs s1.l.cur = false ∧
      (cfg.comments && s1.l.cur == 0x2F) = false := by
  intro fuel
  induction fuel with
  | zero => intro s s1 h; simp [skipSpaces] at h
  | succ n ih =>
    intro s s1 h
    simp only [skipSpaces] at h
    split at h
    · split at h <;> cases h
    · rename_i h0
      split at h
      · exact ih _ _ h
      · rename_i hw
        split at h
        · split at h
          · split at h
            · exact ih _ _ h
            · rename_i hne
              exact absurd h (by intro hh; exact hne _ hh)
          · split at h
            · split at h
              · exact ih _ _ h
              · rename_i hne
                exact absurd h (by intro hh; exact hne _ hh)
            · cases h
        · rename_i hcm
          have hs : s1 = { (cur s).2 with found := true } := by injection h with _ h; exact h.symm
          subst hs
          obtain ⟨l1, l2⟩ := cur_snd_loaded s
          refine ⟨l1, rfl, ?_, ?_, ?_⟩
          · show ((cur s).2.l.cur == 0) = false
            rw [l2]; simpa using h0
          · show isWs (cur s).2.l.cur = false
            rw [l2]; simpa using hw
          · show (cfg.comments && (cur s).2.l.cur == 0x2F) = false
            rw [l2]; simpa using hcm

/-- `skipSpaces` is idempotent -/
theorem skipSpaces_idem (cfg : Cfg) {fuel : Nat} {s s1 : St} (h : skipSpaces cfg fuel s = (.ok, s1)) (m : Nat) :
    skipSpaces cfg (m + 1) s1 = (.ok, s1) := by
  obtain ⟨h1, h2, h3, h4, h5⟩ := skipSpaces_ok_shape cfg _ _ _ h
  simp only [skipSpaces, cur_loaded h1, h3, h4, h5, Bool.false_eq_true, ↓reduceIte]
  congr 1
  cases s1
  simp only at h2
  simp [h2]

/-- `EmptyInput` comes from the first `skipSpaces` of the top-level value -/
theorem parseVariant_empty (cfg : Cfg) (n L : Nat) (s : St) (h : (parseVariant cfg (n + 1) L s).1 = .empty) :
    (skipSpaces cfg (n + 1) s).1 = .empty := by
  cases hq : skipSpaces cfg (n + 1) s with
  | mk e s1 =>
    cases e with
    | ok =>
      exfalso
      have hi := skipSpaces_idem cfg hq n
      have he : parseVariant cfg (n + 1) L s = parseVariant cfg (n + 1) L s1 := by
        simp only [parseVariant, hq, hi]
      rw [he] at h
      exact (ne_mutual (cfg := cfg) (n + 1)).1 L s1 (skipSpaces_ok_shape cfg _ _ _ hq).2.1 h
    | empty => rfl
    | _ => simp [parseVariant, hq] at h

/-- `skipSpaces` answered `EmptyInput`: only dialect white space up to the end of the text -/
theorem skipSpaces_empty_sound (cfg : Cfg) : ∀ (fuel : Nat) (s : St) (r : List Byte) (s' : St), Rem s r →
    skipSpaces cfg fuel s = (.empty, s') → ∃ w r', r = w ++ r' ∧ DWs cfg w ∧ r'.headD 0 = 0 := by
  intro fuel
  induction fuel with
  | zero => intro s r s' _ h; simp [skipSpaces] at h
  | succ n ih =>
    intro s r s' hr h
    simp only [skipSpaces] at h
    obtain ⟨c1, c2, c3, c4, c5⟩ := hr.look
    split at h
    · rename_i h0
      have h0' : (cur s).1 = 0 := by simpa using h0
      exact ⟨[], r, rfl, DWs.nil, by rw [← c3]; exact h0'⟩
    · rename_i h0
      have h0' := not_beq_ne h0
      obtain ⟨e1, e2⟩ := hr.step h0'
      split at h
      · rename_i hw
        obtain ⟨w, r', hw1, hw2, hw3⟩ := ih _ _ _ e2 h
        refine ⟨(cur s).1 :: w, r', ?_, DWs.ws _ _ (isWs_byte hw) hw2, hw3⟩
        rw [List.cons_append, ← hw1]; exact e1
      · rename_i hw
        split at h
        · rename_i hcm
          simp only [Bool.and_eq_true, beq_iff_eq] at hcm
          obtain ⟨d1, d2, d3, _, _⟩ := e2.look
          split at h
          · rename_i hd
            have hd' : (cur (mv (cur s).2)).1 = 0x2A := by simpa using hd
            obtain ⟨f1, f2⟩ := e2.step (by rw [hd']; decide)
            split at h
            · rename_i s1 heq
              obtain ⟨b, r1, hb1, hb2, hb3⟩ := skipBlock_sound _ _ _ _ _ f2 heq
              obtain ⟨w, r', hw1, hw2, hw3⟩ := ih _ _ _ hb3 h
              refine ⟨0x2F :: 0x2A :: b ++ w, r', ?_, DWs.block _ _ hcm.1 hb2 hw2, hw3⟩
              rw [e1, f1, hb1, hw1, hcm.2, hd']; simp
            · have := ne_skipBlock n false (mv (cur (mv (cur s).2)).2)
              rw [h] at this
              exact absurd rfl this
          · rename_i hd
            split at h
            · rename_i hd2
              have hd' : (cur (mv (cur s).2)).1 = 0x2F := by simpa using hd2
              have f1 : r.tail = 0x2F :: r.tail.tail := by
                have := (e2.step (by rw [hd']; decide)).1
                rw [hd'] at this; exact this
              rw [f1] at d1
              split at h
              · rename_i s1 heq
                obtain ⟨x, r1, hx1, hx2, hx3, hx4⟩ := skipLine_sound _ _ _ _ _ d1 d2 heq
                obtain ⟨w, r', hw1, hw2, hw3⟩ := ih _ _ _ hx3 h
                have hn : isWs (r'.headD 0) = false := by rw [hw3]; decide
                obtain ⟨w0, rfl, hw0, hr1⟩ := dws_lf_inv hw2 hw1 hn
                refine ⟨0x2F :: 0x2F :: x ++ 0x0A :: w0, r', ?_, DWs.line _ _ hcm.1 hx2 hw0, hw3⟩
                rw [e1, f1, hx1, hr1, hcm.2]; simp
              · have := ne_skipLine n (cur (mv (cur s).2)).2
                rw [h] at this
                exact absurd rfl this
            · cases h
        · cases h

theorem text_of_prefix {w r' : List Byte} (hw : ∀ c ∈ w, c ≠ 0) (hr : r'.headD 0 = 0) : text (w ++ r') = w := by
  unfold text
  induction w with
  | nil =>
    cases r' with
    | nil => rfl
    | cons c r => have : c = 0 := hr; subst this; rfl
  | cons a w ih =>
    have ha : (a != 0) = true := by simpa using hw a (List.mem_cons_self ..)
    simp only [List.cons_append, List.takeWhile_cons, ha, ↓reduceIte]
    rw [ih (fun c hc => hw c (List.mem_cons_of_mem _ hc))]

theorem text_split (t : List Byte) : ∃ r', t = text t ++ r' ∧ r'.headD 0 = 0 := by
  unfold text
  induction t with
  | nil => exact ⟨[], rfl, rfl⟩
  | cons a t ih =>
    by_cases ha : a = 0
    · subst ha; exact ⟨0 :: t, by simp, rfl⟩
    · obtain ⟨r', h1, h2⟩ := ih
      have ha' : (a != 0) = true := by simpa using ha
      refine ⟨r', ?_, h2⟩
      simp only [List.takeWhile_cons, ha', ↓reduceIte, List.cons_append]
      rw [← h1]

/-- **`EmptyInput` exactly on white space.** -/
theorem run_empty_iff (cfg : Cfg) (L : Nat) (t : List Byte) : (run cfg L t).1 = .empty ↔ DWs cfg (text t) := by
  have hrun : run cfg L t =
      (match parseVariant cfg (2 * t.length + 4) L { l := { unread := t } } with
       | (.ok, v, s) =>
         if s.l.cur != 0 && !isWs s.l.cur && isNumberVal v then (.invalid, v, s.l.pos) else (.ok, v, s.l.pos)
       | (e, v, s) => (e, v, s.l.pos)) := rfl
  have hfuel : 2 * t.length + 4 = (2 * t.length + 3) + 1 := rfl
  constructor
  · intro h
    rw [hrun] at h
    have hpv : (parseVariant cfg (2 * t.length + 4) L { l := { unread := t } }).1 = .empty := by
      split at h
      · split at h <;> cases h
      · rename_i heq; rw [heq]; exact h
    rw [hfuel] at hpv
    have hss := parseVariant_empty cfg _ L _ hpv
    cases hq : skipSpaces cfg (2 * t.length + 3 + 1) { l := { unread := t } } with
    | mk e s' =>
      rw [hq] at hss
      simp only at hss
      subst hss
      obtain ⟨w, r', rfl, hw, hr'⟩ := skipSpaces_empty_sound cfg _ _ _ _ (Rem.un rfl) hq
      rw [text_of_prefix (dws_no_nul hw) hr']
      exact hw
  · intro h
    obtain ⟨r', ht, hr'⟩ := text_split t
    have hlen : (text t).length ≤ t.length := by
      have := congrArg List.length ht
      simp at this; omega
    have hs : Pos ({ l := { unread := t } } : St) (text t ++ r') 0 false := At.pos ⟨rfl, by rw [← ht], rfl, rfl⟩
    have he := skipSpaces_dws_end cfg (text t) h _ r' 0 false hs hr' (2 * t.length + 3 + 1) (by omega)
    rw [hrun, hfuel]
    cases hq : skipSpaces cfg (2 * t.length + 3 + 1) { l := { unread := t } } with
    | mk e s' =>
      rw [hq] at he
      simp only [Bool.false_eq_true, ↓reduceIte] at he
      subst he
      simp only [parseVariant, hq]

/-! ## tokens that no enabled option allows -/

/-- a byte that cannot start a number: no sign, digit or dot, nor a letter of `NaN` / `Infinity` that is enabled -/
def BadStart (cfg : Cfg) (c : Byte) : Prop :=
  c ≠ 0x2D ∧ c ≠ 0x2B ∧ isDigit c = false ∧ c ≠ 0x2E ∧ (cfg.nan && (c == 0x6E || c == 0x4E)) = false ∧
    (cfg.inf && (c == 0x69 || c == 0x49)) = false

theorem parseNumber_nil (cfg : Cfg) : parseNumber cfg [] = .invalid := by
  have e1 : ((0 : UInt8) == 0x6E || (0 : UInt8) == 0x4E) = false := by decide
  have e2 : ((0 : UInt8) == 0x69 || (0 : UInt8) == 0x49) = false := by decide
  have e3 : (!(isDigit 0) && (0 : UInt8) != 0x2E) = true := by decide
  simp only [parseNumber, List.headD_nil, e1, e2, e3, Bool.and_false, Bool.false_eq_true, ↓reduceIte]

theorem parseNumber_badStart {cfg : Cfg} {c : Byte} (h : BadStart cfg c) (l : List Byte) :
    parseNumber cfg (c :: l) = .invalid := by
  obtain ⟨h1, h2, h3, h4, h5, h6⟩ := h
  have e4 : (c != 0x2E) = true := by simpa using h4
  unfold parseNumber
  split
  rename_i neg r heq
  have hr : r = c :: l := by
    split at heq
    · rename_i h'; exact absurd (List.cons.inj h').1 h1
    · rename_i h'; exact absurd (List.cons.inj h').1 h2
    · exact (Prod.mk.inj heq).2.symm
  subst hr
  simp only [List.headD_cons, h3, h5, h6, e4, Bool.not_false, Bool.and_self, Bool.false_eq_true, ↓reduceIte]

theorem parseNumeric_badStart {cfg : Cfg} {s : St} {c : Byte} {rest : List Byte} (hr : Rem s (c :: rest))
    (h : BadStart cfg c) : (parseNumeric cfg s).1 = .invalid := by
  have e : Gen.number_buffer - 1 = 63 := rfl
  simp only [parseNumeric, e]
  generalize hq : scanNumber cfg 63 [] s = q
  obtain ⟨buf, X⟩ := q
  obtain ⟨x, r', h1, h2, _⟩ := scanNumber_sound cfg _ _ _ _ _ _ hr hq
  simp only [List.reverse_nil, List.nil_append] at h2
  subst h2
  have : parseNumber cfg buf = .invalid := by
    cases buf with
    | nil => exact parseNumber_nil cfg
    | cons a l =>
      simp only [List.cons_append, List.cons.injEq] at h1
      rw [← h1.1]; exact parseNumber_badStart h l
  simp only [this]

/-- white space, then a token byte that starts no value: `InvalidInput`, whatever follows -/
theorem run_badStart (cfg : Cfg) (L : Nat) (w rest : List Byte) (c : Byte) (hw : DWs cfg w) (h0 : c ≠ 0)
    (hws : isWs c = false) (hcm : (cfg.comments && c == 0x2F) = false)
    (hd : c ∉ [0x5B, 0x7B, 0x22, 0x27, 0x74, 0x66, 0x6E]) (hb : BadStart cfg c) :
    (run cfg L (w ++ c :: rest)).1 = .invalid := by
  have hrun : run cfg L (w ++ c :: rest) =
      (match parseVariant cfg (2 * (w ++ c :: rest).length + 4) L { l := { unread := w ++ c :: rest } } with
       | (.ok, v, s) =>
         if s.l.cur != 0 && !isWs s.l.cur && isNumberVal v then (.invalid, v, s.l.pos) else (.ok, v, s.l.pos)
       | (e, v, s) => (e, v, s.l.pos)) := rfl
  have hs : Pos ({ l := { unread := w ++ c :: rest } } : St) (w ++ c :: rest) 0 false := At.pos ⟨rfl, rfl, rfl, rfl⟩
  obtain ⟨Y, hY, hg⟩ := skipSpaces_dws_gen cfg hw _ (c :: rest) 0 false hs
  obtain ⟨m, hm0, hm⟩ := hg (2 * (w ++ c :: rest).length + 3 + 1) (by simp; omega)
  obtain ⟨k, rfl⟩ : ∃ k, m = k + 1 := ⟨m - 1, by omega⟩
  obtain ⟨X, hX, hS⟩ := Pos.cur_cons hY
  have e0 : (c == 0) = false := by simpa using h0
  have hss : skipSpaces cfg (k + 1) Y = (.ok, setFound X) := by
    simp only [skipSpaces, hX, e0, hws, hcm, Bool.false_eq_true, ↓reduceIte]
    rfl
  obtain ⟨f1, f2, f3, _, _⟩ := hS.fields
  have hcur : cur (setFound X) = (c, setFound X) := by
    rw [cur_loaded (by exact f1)]; simp [f2]
  have hrem : Rem (setFound X) (c :: rest) := by
    have := Rem.ld (s := setFound X) f1
    simpa [f2, f3] using this
  simp only [List.mem_cons, List.not_mem_nil, or_false, not_or] at hd
  obtain ⟨d1, d2, d3, d4, d5, d6, d7⟩ := hd
  have hpv : parseVariant cfg (2 * (w ++ c :: rest).length + 3 + 1) L { l := { unread := w ++ c :: rest } } =
      parseNumeric cfg (setFound X) := by
    have g1 : (c == 0x5B) = false := by simpa using d1
    have g2 : (c == 0x7B) = false := by simpa using d2
    have g3 : (c == 0x22) = false := by simpa using d3
    have g4 : (c == 0x27) = false := by simpa using d4
    have g5 : (c == 0x74) = false := by simpa using d5
    have g6 : (c == 0x66) = false := by simpa using d6
    have g7 : (c == 0x6E) = false := by simpa using d7
    simp only [parseVariant, hm, hss, hcur, g1, g2, g3, g4, g5, g6, g7, Bool.or_self, Bool.false_eq_true, ↓reduceIte]
  have hinv := parseNumeric_badStart hrem hb
  rw [hrun]
  have hf : 2 * (w ++ c :: rest).length + 4 = 2 * (w ++ c :: rest).length + 3 + 1 := rfl
  rw [hf, hpv]
  generalize parseNumeric cfg (setFound X) = q at hinv ⊢
  obtain ⟨e, v, s⟩ := q
  simp only at hinv
  subst hinv
  rfl

end JD
