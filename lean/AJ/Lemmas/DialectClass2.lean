/- Classification of refused inputs (IncompleteInput / InvalidInput): glue between the general input `t`, its text
   (`text t`: up to the first NUL) and the NUL-terminated input `t ++ [0]` on which AJ/Lemmas/ClassRun2.lean works. -/
import AJ.Lemmas.ClassRun2
import AJ.Lemmas.DialectClass
set_option linter.unusedSimpArgs false
set_option linter.unusedVariables false
namespace JD
open Spec.Dialect

theorem text_nz (t : List Byte) : ∀ c ∈ text t, c ≠ 0 := by
  intro c hc
  unfold text at hc
  induction t with
  | nil => simp at hc
  | cons a t ih =>
    rw [List.takeWhile_cons] at hc
    split at hc
    · rename_i ha
      rcases List.mem_cons.mp hc with rfl | hc
      · simpa using ha
      · exact ih hc
    · simp at hc

theorem text_length_le (t : List Byte) : (text t).length ≤ t.length := by
  obtain ⟨r', ht, _⟩ := text_split t
  have := congrArg List.length ht
  simp at this; omega

theorem text_of_nz {p : List Byte} (h : ∀ c ∈ p, c ≠ 0) : text p = p := by
  have := text_of_prefix (w := p) (r' := []) h rfl
  simpa using this

theorem text_append_nul (t : List Byte) : text (t ++ [0]) = text t := by
  obtain ⟨r', ht, hr'⟩ := text_split t
  have h1 : t ++ [0] = text t ++ (r' ++ [0]) := by rw [← List.append_assoc, ← ht]
  rw [h1]
  apply text_of_prefix (text_nz t)
  cases r' with
  | nil => rfl
  | cons a r => exact hr'

/-- `t ++ [0]` is `text t`, a NUL, and more -/
theorem nul_split (t : List Byte) : ∃ x, t ++ [0] = text t ++ 0 :: x := by
  obtain ⟨r', ht, hr'⟩ := text_split t
  cases r' with
  | nil => exact ⟨[], by rw [List.append_nil] at ht; rw [← ht]⟩
  | cons a r =>
    have : a = 0 := hr'
    subst this
    exact ⟨r ++ [0], by rw [show text t ++ 0 :: (r ++ [0]) = (text t ++ 0 :: r) ++ [0] by simp, ← ht]⟩

theorem nulAt_of_split {e x : List Byte} (he : ∀ c ∈ e, c ≠ 0) : NulAt (e ++ 0 :: x) e.length := by
  refine ⟨by simp, by simp, ?_⟩
  intro i c hi hc
  rw [List.getElem?_append_left hi] at hc
  exact he c (List.mem_of_getElem? hc)

theorem nulAt_append (t : List Byte) : NulAt (t ++ [0]) (text t).length := by
  obtain ⟨x, hx⟩ := nul_split t
  rw [hx]
  exact nulAt_of_split (text_nz t)

/-- the text ends with a number byte, or (comments enabled) with `/`: an `InvalidInput` there may be a number token
    or a comment opener cut short by the end of the input -/
def Dangling (cfg : Cfg) (e : List Byte) : Prop :=
  ∃ c, e.getLast? = some c ∧ (inNumber cfg c = true ∨ (cfg.comments = true ∧ c = 0x2F))

/-- `Dangling` as a computation -/
def danglingB (cfg : Cfg) (e : List Byte) : Bool :=
  match e.getLast? with
  | some c => inNumber cfg c || (cfg.comments && c == 0x2F)
  | none => false

theorem dangling_iff (cfg : Cfg) (e : List Byte) : Dangling cfg e ↔ danglingB cfg e = true := by
  unfold Dangling danglingB
  cases h : e.getLast? with
  | none => simp
  | some c =>
    simp only [Option.some.injEq, exists_eq_left', Bool.or_eq_true, Bool.and_eq_true, beq_iff_eq]

instance (cfg : Cfg) (e : List Byte) : Decidable (Dangling cfg e) := decidable_of_iff _ (dangling_iff cfg e).symm

theorem dangling_of_dang {cfg : Cfg} {e x : List Byte} (h : Dang cfg (e ++ 0 :: x) e.length) : Dangling cfg e := by
  obtain ⟨h1, c, h2, h3⟩ := h
  refine ⟨c, ?_, h3⟩
  rw [List.getElem?_append_left (by omega)] at h2
  rw [List.getLast?_eq_getElem?]
  exact h2

end JD
