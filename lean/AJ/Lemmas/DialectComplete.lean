/- Completeness of the JSON deserializer model w.r.t. the dialect specification `Spec.Dialect`: every text of the
   dialect is accepted and yields the value the dialect assigns. Same architecture as AJ/Lemmas/JsonComplete.lean
   (RFC 8259), with dialect white space, both quotes, `decodeBody`, unquoted keys and lenient number tokens. -/
import AJ.Lemmas.DialectWs
import AJ.Lemmas.DialectClass
set_option linter.unusedSimpArgs false
set_option linter.unusedVariables false
namespace JD
open Spec.Dialect

/-! ## strings -/

theorem hex4_some {a b c d : Byte} {cu : Nat} (h : hex4 a b c d = some cu) :
    decodeHex a ≤ 0x0F ∧ decodeHex b ≤ 0x0F ∧ decodeHex c ≤ 0x0F ∧ decodeHex d ≤ 0x0F ∧
      cu = decodeHex a * 4096 + decodeHex b * 256 + decodeHex c * 16 + decodeHex d := by
  unfold hex4 at h
  cases ha : Spec.hexVal a with
  | none => simp [ha] at h
  | some x1 =>
    cases hb : Spec.hexVal b with
    | none => simp [ha, hb] at h
    | some x2 =>
      cases hc : Spec.hexVal c with
      | none => simp [ha, hb, hc] at h
      | some x3 =>
        cases hd : Spec.hexVal d with
        | none => simp [ha, hb, hc, hd] at h
        | some x4 =>
          simp only [ha, hb, hc, hd, Option.some.injEq] at h
          rw [C17.decodeHex_hex a x1 ha, C17.decodeHex_hex b x2 hb, C17.decodeHex_hex c x3 hc, C17.decodeHex_hex d x4 hd]
          exact ⟨hexVal_le a x1 ha, hexVal_le b x2 hb, hexVal_le c x3 hc, hexVal_le d x4 hd, h.symm⟩

/-- `\u` when `\u` escapes are not decoded: two rounds of the loop copy the two bytes -/
theorem pq_u_off {cfg : Cfg} {stop : Byte} {fuel : Nat} {acc : List Byte} {hi : Nat} {s : St} {rest : List Byte}
    (h1 : s.l.loaded = false) (h2 : s.l.unread = 0x5C :: 0x75 :: rest) (hs : stop ≠ 0x5C) (hs2 : stop ≠ 0x75)
    (hcfg : cfg.decodeUnicode = false) :
    parseQuoted cfg stop (fuel + 2) acc hi s =
      parseQuoted cfg stop fuel (0x75 :: 0x5C :: acc) hi (adv (adv s 0x5C (0x75 :: rest)) 0x75 rest) := by
  have e1 : ((0x5C : Byte) == stop) = false := by simpa using (fun h => hs h.symm)
  have e2 : ((0x75 : Byte) == stop) = false := by simpa using (fun h => hs2 h.symm)
  have l1 : ((0x5C : Byte) == 0) = false := by decide
  have l2 : ((0x75 : Byte) == 0) = false := by decide
  have l3 : ((0x75 : Byte) == 0x5C) = false := by decide
  have hcur : cur (adv s 0x5C (0x75 :: rest)) = (0x75, ld (adv s 0x5C (0x75 :: rest)) 0x75 rest) := cur_cons rfl rfl
  rw [parseQuoted]
  simp only [cur_cons h1 h2, mv_ld, e1, l1, hcur, hcfg, beq_self_eq_true, Bool.false_eq_true, ↓reduceIte]
  rw [parseQuoted]
  simp only [cur_ld, mv_ld, e2, l2, l3, Bool.false_eq_true, ↓reduceIte]

theorem escapes_lookup_some {l x : Byte} (h : escapes.lookup l = some x) : unescapeChar l = x ∧ x ≠ 0 ∧ l ≠ 0 := by
  have key : ∀ l : UInt8, (match escapes.lookup l with
      | some x => unescapeChar l == x && x != 0 && l != 0
      | none => true) = true := by
    apply Bits.all_bytes; decide +kernel
  have := key l
  rw [h] at this
  simp only [Bool.and_eq_true, beq_iff_eq, bne_iff_ne] at this
  exact ⟨this.1.1, this.1.2, this.2⟩

/-- `parseQuoted` decodes every well-formed body: one unit of fuel per byte is enough -/
theorem parseQuoted_complete {cfg : Cfg} {stop : Byte} (hq : IsQuote stop) :
    ∀ (fuel : Nat) (body x : List Byte) (acc : List Byte) (hi : Nat) (s : St) (rest : List Byte) (p : Nat) (f : Bool),
      decodeBody cfg stop hi body = some x → hi < 1024 → At s (body ++ stop :: rest) p f → body.length < fuel →
      acc.length + x.length ≤ cfg.maxStrLen →
      ∃ s', parseQuoted cfg stop fuel acc hi s = (.ok, acc.reverse ++ x, s') ∧ At s' rest (p + body.length + 1) f := by
  obtain ⟨q0, q1, q2⟩ := isQuote_facts hq
  intro fuel
  induction fuel using Nat.strongRecOn with
  | _ fuel ih =>
    intro body x acc hi s rest p f hdec hhi hs hfuel hlen
    obtain ⟨n, rfl⟩ : ∃ n, fuel = n + 1 := ⟨fuel - 1, by omega⟩
    cases body with
    | nil =>
      simp only [decodeBody, Option.some.injEq] at hdec
      subst hdec
      obtain ⟨s', h1, h2⟩ := pq_close (cfg := cfg) (fuel := n) (acc := acc) (hi := hi) (by simpa using hs)
        (by simpa using hlen)
      exact ⟨s', by simpa using h2, by simpa using h1⟩
    | cons c t =>
      have hs' : At s (c :: (t ++ stop :: rest)) p f := by simpa using hs
      by_cases hc : c = stop ∨ c = 0
      · rw [decodeBody.eq_def] at hdec; simp [hc] at hdec
      · have c1 : c ≠ stop := fun h => hc (Or.inl h)
        have c0 : c ≠ 0 := fun h => hc (Or.inr h)
        by_cases hb : c = 0x5C
        · subst hb
          cases t with
          | nil => rw [decodeBody.eq_def] at hdec; simp [hc] at hdec
          | cons l t' =>
            by_cases hl : l = 0x75
            · subst hl
              cases hu : cfg.decodeUnicode with
              | false =>
                rw [decodeBody_u_off q1 hu] at hdec
                cases hd : decodeBody cfg stop hi t' with
                | none => rw [hd] at hdec; cases hdec
                | some y =>
                  rw [hd] at hdec
                  simp only [Option.map_some, Option.some.injEq] at hdec
                  subst hdec
                  obtain ⟨m, rfl⟩ : ∃ m, n = m + 1 := ⟨n - 1, by simp at hfuel; omega⟩
                  have hA : At (adv (adv s 0x5C (0x75 :: (t' ++ stop :: rest))) 0x75 (t' ++ stop :: rest))
                      (t' ++ stop :: rest) (p + 1 + 1) f := hs'.adv.adv
                  obtain ⟨s', g1, g2⟩ := ih m (by omega) t' y (0x75 :: 0x5C :: acc) hi _ rest _ f hd hhi hA
                    (by simp at hfuel; omega) (by simp at hlen ⊢; omega)
                  refine ⟨s', ?_, ?_⟩
                  · rw [pq_u_off hs'.1 (by simpa using hs'.2.1) q1 q2 hu, g1]; simp
                  · have : p + 1 + 1 + t'.length + 1 = p + (0x5C :: 0x75 :: t').length + 1 := by simp; omega
                    rw [← this]; exact g2
              | true =>
                match t', hdec, hs', hfuel with
                | [], hdec, _, _ => rw [decodeBody.eq_def] at hdec; simp [hu] at hdec
                | [_], hdec, _, _ => rw [decodeBody.eq_def] at hdec; simp [hu] at hdec
                | [_, _], hdec, _, _ => rw [decodeBody.eq_def] at hdec; simp [hu] at hdec
                | [_, _, _], hdec, _, _ => rw [decodeBody.eq_def] at hdec; simp [hu] at hdec
                | a :: b :: c' :: d :: t'', hdec, hs', hfuel =>
                  rw [decodeBody_u_on q1 hu] at hdec
                  cases hh : hex4 a b c' d with
                  | none => rw [hh] at hdec; cases hdec
                  | some cu =>
                    rw [hh] at hdec
                    simp only at hdec
                    obtain ⟨ha, hb, hc', hd', hcu⟩ := hex4_some hh
                    have hculim : cu < 65536 := by omega
                    obtain ⟨s1, hs1, heq⟩ := pq_u (cfg := cfg) (stop := stop) (fuel := n) (acc := acc) (hi := hi)
                      (rest := t'' ++ stop :: rest) hs'.1 (by simpa using hs'.2.1) q1 hu ha hb hc' hd'
                    rw [hs'.2.2.1, hs'.2.2.2] at hs1
                    simp only [← hcu] at heq
                    have hfl : t''.length < n := by simp at hfuel; omega
                    have hpos : p + 6 + t''.length + 1 = p + (0x5C :: 0x75 :: a :: b :: c' :: d :: t'').length + 1 := by
                      simp; omega
                    by_cases hhs : 0xD800 ≤ cu ∧ cu < 0xDC00
                    · simp only [hhs, and_self, ↓reduceIte] at hdec
                      have e : (decide (0xD800 ≤ cu) && decide (cu < 0xDC00)) = true := by simp [hhs]
                      simp only [e, ↓reduceIte] at heq
                      obtain ⟨s', g1, g2⟩ := ih n (by omega) t'' x acc (cu % 1024) s1 rest _ f hdec
                        (Nat.mod_lt _ (by decide)) hs1 hfl hlen
                      exact ⟨s', by rw [heq, g1], by rw [← hpos]; exact g2⟩
                    · have e : (decide (0xD800 ≤ cu) && decide (cu < 0xDC00)) = false := by
                        simp only [Bool.and_eq_false_iff, decide_eq_false_iff_not]; omega
                      simp only [hhs, ↓reduceIte] at hdec
                      simp only [e, Bool.false_eq_true, ↓reduceIte] at heq
                      by_cases hls : 0xDC00 ≤ cu ∧ cu < 0xE000
                      · have e2 : (decide (0xDC00 ≤ cu) && decide (cu < 0xE000)) = true := by simp [hls]
                        simp only [hls, and_self, ↓reduceIte] at hdec
                        simp only [e2, ↓reduceIte] at heq
                        cases hd : decodeBody cfg stop hi t'' with
                        | none => rw [hd] at hdec; cases hdec
                        | some y =>
                          rw [hd] at hdec
                          simp only [Option.map_some, Option.some.injEq] at hdec
                          subst hdec
                          have henc := C17.encodeCodepoint_eq_utf8 (0x10000 + (hi * 1024 + cu % 1024)) (by omega)
                          obtain ⟨s', g1, g2⟩ := ih n (by omega) t'' y
                            ((encodeCodepoint (0x10000 + (hi * 1024 + cu % 1024))).reverse ++ acc) hi s1 rest _ f hd hhi hs1
                            hfl (by rw [henc]; simp at hlen ⊢; omega)
                          refine ⟨s', ?_, by rw [← hpos]; exact g2⟩
                          rw [heq, g1, henc]; simp
                      · have e2 : (decide (0xDC00 ≤ cu) && decide (cu < 0xE000)) = false := by
                          simp only [Bool.and_eq_false_iff, decide_eq_false_iff_not]; omega
                        simp only [hls, ↓reduceIte] at hdec
                        simp only [e2, Bool.false_eq_true, ↓reduceIte] at heq
                        cases hd : decodeBody cfg stop hi t'' with
                        | none => rw [hd] at hdec; cases hdec
                        | some y =>
                          rw [hd] at hdec
                          simp only [Option.map_some, Option.some.injEq] at hdec
                          subst hdec
                          have henc := C17.encodeCodepoint_eq_utf8 cu (by omega)
                          obtain ⟨s', g1, g2⟩ := ih n (by omega) t'' y ((encodeCodepoint cu).reverse ++ acc) hi s1 rest _ f
                            hd hhi hs1 hfl (by rw [henc]; simp at hlen ⊢; omega)
                          refine ⟨s', ?_, by rw [← hpos]; exact g2⟩
                          rw [heq, g1, henc]; simp
            · rw [decodeBody_esc q1 hl] at hdec
              cases hlk : escapes.lookup l with
              | none => rw [hlk] at hdec; cases hdec
              | some x0 =>
                rw [hlk] at hdec
                simp only at hdec
                obtain ⟨u1, u2, u3⟩ := escapes_lookup_some hlk
                cases hd : decodeBody cfg stop hi t' with
                | none => rw [hd] at hdec; cases hdec
                | some y =>
                  rw [hd] at hdec
                  simp only [Option.map_some, Option.some.injEq] at hdec
                  subst hdec
                  have hA : At (adv (adv s 0x5C (l :: (t' ++ stop :: rest))) l (t' ++ stop :: rest))
                      (t' ++ stop :: rest) (p + 1 + 1) f := hs'.adv.adv
                  obtain ⟨s', g1, g2⟩ := ih n (by omega) t' y (unescapeChar l :: acc) hi _ rest _ f hd hhi hA
                    (by simp at hfuel; omega) (by simp at hlen ⊢; omega)
                  refine ⟨s', ?_, ?_⟩
                  · rw [pq_esc hs'.1 (by simpa using hs'.2.1) q1 u3 hl (by rw [u1]; exact u2), g1, u1]; simp
                  · have : p + 1 + 1 + t'.length + 1 = p + (0x5C :: l :: t').length + 1 := by simp; omega
                    rw [← this]; exact g2
        · rw [decodeBody_plain c1 c0 hb] at hdec
          cases hd : decodeBody cfg stop hi t with
          | none => rw [hd] at hdec; cases hdec
          | some y =>
            rw [hd] at hdec
            simp only [Option.map_some, Option.some.injEq] at hdec
            subst hdec
            obtain ⟨s', g1, g2⟩ := ih n (by omega) t y (c :: acc) hi _ rest _ f hd hhi hs'.adv
              (by simp at hfuel; omega) (by simp at hlen ⊢; omega)
            refine ⟨s', ?_, ?_⟩
            · rw [pq_plain hs'.1 hs'.2.1 c1 c0 hb, g1]; simp
            · have : p + 1 + t.length + 1 = p + (c :: t).length + 1 := by simp; omega
              rw [← this]; exact g2

/-! ## unquoted keys -/

theorem parseUnquoted_complete (k : List Byte) (hk : ∀ c ∈ k, inUnquoted c = true) {rest : List Byte}
    (hd : inUnquoted (rest.headD 0) = false) :
    ∀ (n : Nat) (acc : List Byte) (s : St) (p : Nat) (f : Bool), Pos s (k ++ rest) p f → k.length < n →
      ∃ X, parseUnquoted n acc s = (acc.reverse ++ k, X) ∧ Seen X rest (p + k.length) f := by
  induction k with
  | nil =>
    intro n acc s p f h hn
    obtain ⟨m, rfl⟩ : ∃ m, n = m + 1 := ⟨n - 1, by simp at hn; omega⟩
    have h' : Pos s rest p f := by simpa using h
    cases rest with
    | nil =>
      obtain ⟨X, hX, hS⟩ := Pos.cur_nil h'
      refine ⟨X, ?_, by simpa using hS⟩
      simp only [parseUnquoted, hX, inUnquoted_zero, Bool.false_eq_true, ↓reduceIte, List.append_nil]
    | cons c r =>
      obtain ⟨X, hX, hS⟩ := Pos.cur_cons h'
      have hc : inUnquoted c = false := hd
      refine ⟨X, ?_, by simpa using hS⟩
      simp only [parseUnquoted, hX, hc, Bool.false_eq_true, ↓reduceIte, List.append_nil]
  | cons a k ih =>
    intro n acc s p f h hn
    obtain ⟨m, rfl⟩ : ∃ m, n = m + 1 := ⟨n - 1, by simp at hn; omega⟩
    obtain ⟨X, hX, hS⟩ := Pos.cur_cons (by simpa using h)
    obtain ⟨Y, hY, hS'⟩ := ih (fun c hc => hk c (List.mem_cons_of_mem _ hc)) m (a :: acc) (mv X) (p + 1) f hS.mv.pos
      (by simp at hn; omega)
    refine ⟨Y, ?_, ?_⟩
    · simp only [parseUnquoted, hX, hk a (List.mem_cons_self ..), ↓reduceIte, hY]
      simp
    · have : p + 1 + k.length = p + (a :: k).length := by simp; omega
      rw [← this]; exact hS'

/-! ## heads -/

/-- what dialect white space starts with -/
theorem dws_head {cfg : Cfg} {w : List Byte} (h : DWs cfg w) : w = [] ∨ ∃ c r, w = c :: r ∧ (isWs c = true ∨ c = 0x2F) := by
  cases h with
  | nil => exact Or.inl rfl
  | ws c w hc _ => exact Or.inr ⟨c, w, rfl, Or.inl (ws_byte hc).2⟩
  | block b w _ _ _ => exact Or.inr ⟨0x2F, _, rfl, Or.inr rfl⟩
  | line x w _ _ _ => exact Or.inr ⟨0x2F, _, rfl, Or.inr rfl⟩

theorem sep_facts (cfg : Cfg) (c : Byte) (h : isWs c = true ∨ c = 0x2F ∨ c = 0x2C ∨ c = 0x5D ∨ c = 0x7D ∨ c = 0x3A) :
    inNumber cfg c = false ∧ inUnquoted c = false := by
  unfold inNumber
  generalize (cfg.nan || cfg.inf) = b
  have hw : isWs c = true → c = 0x20 ∨ c = 0x09 ∨ c = 0x0A ∨ c = 0x0D := fun h => by
    have := isWs_byte h; unfold IsWsByte at this; exact this
  rcases h with h | rfl | rfl | rfl | rfl | rfl
  · rcases hw h with rfl | rfl | rfl | rfl <;> (cases b <;> exact ⟨by decide, by decide⟩)
  all_goals (cases b <;> exact ⟨by decide, by decide⟩)

/-- after dialect white space and a separator no number (and no unquoted key) continues -/
theorem delim_dws (cfg : Cfg) {w : List Byte} (hw : DWs cfg w) {c : Byte}
    (hc : c = 0x2C ∨ c = 0x5D ∨ c = 0x7D ∨ c = 0x3A) (r : List Byte) :
    Delim cfg (w ++ c :: r) ∧ inUnquoted ((w ++ c :: r).headD 0) = false := by
  rcases dws_head hw with rfl | ⟨a, w', rfl, ha⟩
  · have := sep_facts cfg c (Or.inr (Or.inr hc))
    refine ⟨?_, this.2⟩
    intro x y hxy
    simp only [List.nil_append, List.cons.injEq] at hxy
    rw [← hxy.1]; exact this.1
  · have := sep_facts cfg a (by rcases ha with h | h; exact Or.inl h; exact Or.inr (Or.inl h))
    refine ⟨?_, this.2⟩
    intro x y hxy
    simp only [List.cons_append, List.cons.injEq] at hxy
    rw [← hxy.1]; exact this.1

/-- first byte of a number token -/
def NumStartD (c : Byte) : Prop :=
  c = 0x2D ∨ c = 0x2B ∨ isDigit c = true ∨ c = 0x2E ∨ c = 0x4E ∨ c = 0x69 ∨ c = 0x49

theorem numStartD_facts {c : Byte} (h : NumStartD c) :
    Tok c ∧ (c == 0x5B) = false ∧ (c == 0x7B) = false ∧ (c == 0x22) = false ∧ (c == 0x27) = false ∧
    (c == 0x74) = false ∧ (c == 0x66) = false ∧ (c == 0x6E) = false ∧ c ≠ 0x5D ∧ c ≠ 0x7D := by
  have key : ∀ c : UInt8, ((!(c == 0x2D || c == 0x2B || isDigit c || c == 0x2E || c == 0x4E || c == 0x69 || c == 0x49)) ||
      (c != 0 && !isWs c && c != 0x2F && c != 0x5B && c != 0x7B && c != 0x22 && c != 0x27 && c != 0x74 && c != 0x66 &&
        c != 0x6E && c != 0x5D && c != 0x7D)) = true := by
    apply Bits.all_bytes; decide +kernel
  have hk := key c
  have hs : (c == 0x2D || c == 0x2B || isDigit c || c == 0x2E || c == 0x4E || c == 0x69 || c == 0x49) = true := by
    rcases h with rfl | rfl | h | rfl | rfl | rfl | rfl
    · decide
    · decide
    · simp [h]
    all_goals decide
  rw [hs] at hk
  simp only [Bool.not_true, Bool.false_or, Bool.and_eq_true, bne_iff_ne, ne_eq, Bool.not_eq_true'] at hk
  obtain ⟨⟨⟨⟨⟨⟨⟨⟨⟨⟨⟨a1, a2⟩, a3⟩, a4⟩, a5⟩, a6⟩, a7⟩, a8⟩, a9⟩, a10⟩, a11⟩, a12⟩ := hk
  refine ⟨⟨a1, a2, a3⟩, ?_, ?_, ?_, ?_, ?_, ?_, ?_, a11, a12⟩ <;> simpa

theorem numTok_head {cfg : Cfg} {lit : List Byte} {v : Val} (h : NumTok cfg lit v) :
    ∃ c cs, lit = c :: cs ∧ NumStartD c := by
  obtain ⟨_, _, hn, hden⟩ := h
  cases lit with
  | nil => simp only [numDen, parseNumber_nil] at hden; cases hden
  | cons c cs =>
    refine ⟨c, cs, rfl, ?_⟩
    have hc6 : c ≠ 0x6E := by
      intro hc; subst hc; exact hn rfl
    by_cases hb : BadStart cfg c
    · simp only [numDen, parseNumber_badStart hb] at hden; cases hden
    · unfold BadStart at hb
      unfold NumStartD
      by_cases h1 : c = 0x2D
      · exact Or.inl h1
      by_cases h2 : c = 0x2B
      · exact Or.inr (Or.inl h2)
      by_cases h3 : isDigit c = true
      · exact Or.inr (Or.inr (Or.inl h3))
      by_cases h4 : c = 0x2E
      · exact Or.inr (Or.inr (Or.inr (Or.inl h4)))
      have h3' : isDigit c = false := by simpa using h3
      by_cases h5 : (cfg.nan && (c == 0x6E || c == 0x4E)) = false
      · by_cases h6 : (cfg.inf && (c == 0x69 || c == 0x49)) = false
        · exact absurd ⟨h1, h2, h3', h4, h5, h6⟩ hb
        · simp only [Bool.and_eq_false_iff, not_or, Bool.not_eq_false, Bool.or_eq_true, beq_iff_eq] at h6
          rcases h6.2 with h | h
          · exact Or.inr (Or.inr (Or.inr (Or.inr (Or.inr (Or.inl h)))))
          · exact Or.inr (Or.inr (Or.inr (Or.inr (Or.inr (Or.inr h)))))
      · simp only [Bool.and_eq_false_iff, not_or, Bool.not_eq_false, Bool.or_eq_true, beq_iff_eq] at h5
        rcases h5.2 with h | h
        · exact absurd h hc6
        · exact Or.inr (Or.inr (Or.inr (Or.inr (Or.inl h))))

theorem numDen_isNumber {cfg : Cfg} {lit : List Byte} {v : Val} (h : numDen cfg lit = some v) : isNumberVal v = true := by
  unfold numDen at h
  split at h <;> first | (injection h with h; subst h; rfl) | cases h

/-! ## scalars through `parseVariant` -/

theorem pvd_kw (cfg : Cfg) {fuel L : Nat} {w rest : List Byte} {s : St} {p : Nat} {f : Bool} (hw : DWs cfg w) :
    (Pos s (w ++ ([0x6E, 0x75, 0x6C, 0x6C] ++ rest)) p f → w.length < fuel →
      ∃ s', parseVariant cfg fuel L s = (.ok, .null, s') ∧ At s' rest (p + w.length + 4) true) ∧
    (Pos s (w ++ ([0x74, 0x72, 0x75, 0x65] ++ rest)) p f → w.length < fuel →
      ∃ s', parseVariant cfg fuel L s = (.ok, .bool true, s') ∧ At s' rest (p + w.length + 4) true) ∧
    (Pos s (w ++ ([0x66, 0x61, 0x6C, 0x73, 0x65] ++ rest)) p f → w.length < fuel →
      ∃ s', parseVariant cfg fuel L s = (.ok, .bool false, s') ∧ At s' rest (p + w.length + 5) true) := by
  refine ⟨?_, ?_, ?_⟩
  · intro h hf
    obtain ⟨n, rfl⟩ : ∃ n, fuel = n + 1 := ⟨fuel - 1, by omega⟩
    have tok : Tok 0x6E := by decide
    obtain ⟨X, hS, hX⟩ := skipSpaces_dws cfg (r := 0x75 :: 0x6C :: 0x6C :: rest) tok w hw s p f (by simpa using h)
    obtain ⟨s', h1, h2⟩ := skipKeyword_ok [0x6E, 0x75, 0x6C, 0x6C] (by decide) X rest (p + w.length) true
      (by simpa using hS.pos) (by simp)
    refine ⟨s', ?_, by simpa using h2⟩
    simp (config := { decide := true }) only [parseVariant, hX (n + 1) hf, hS.cur_cons, kw_null, h1, ↓reduceIte,
      Bool.false_eq_true, Bool.or_self]
  · intro h hf
    obtain ⟨n, rfl⟩ : ∃ n, fuel = n + 1 := ⟨fuel - 1, by omega⟩
    have tok : Tok 0x74 := by decide
    obtain ⟨X, hS, hX⟩ := skipSpaces_dws cfg (r := 0x72 :: 0x75 :: 0x65 :: rest) tok w hw s p f (by simpa using h)
    obtain ⟨s', h1, h2⟩ := skipKeyword_ok [0x74, 0x72, 0x75, 0x65] (by decide) X rest (p + w.length) true
      (by simpa using hS.pos) (by simp)
    refine ⟨s', ?_, by simpa using h2⟩
    simp (config := { decide := true }) only [parseVariant, hX (n + 1) hf, hS.cur_cons, kw_true, h1, ↓reduceIte,
      Bool.false_eq_true, Bool.or_self]
  · intro h hf
    obtain ⟨n, rfl⟩ : ∃ n, fuel = n + 1 := ⟨fuel - 1, by omega⟩
    have tok : Tok 0x66 := by decide
    obtain ⟨X, hS, hX⟩ := skipSpaces_dws cfg (r := 0x61 :: 0x6C :: 0x73 :: 0x65 :: rest) tok w hw s p f (by simpa using h)
    obtain ⟨s', h1, h2⟩ := skipKeyword_ok [0x66, 0x61, 0x6C, 0x73, 0x65] (by decide) X rest (p + w.length) true
      (by simpa using hS.pos) (by simp)
    refine ⟨s', ?_, by simpa using h2⟩
    simp (config := { decide := true }) only [parseVariant, hX (n + 1) hf, hS.cur_cons, kw_false, h1, ↓reduceIte,
      Bool.false_eq_true, Bool.or_self]

theorem isQuote_tok {q : Byte} (h : IsQuote q) :
    Tok q ∧ (q == 0x5B) = false ∧ (q == 0x7B) = false ∧ (q == 0x22 || q == 0x27) = true ∧ q ≠ 0x5D ∧ q ≠ 0x7D := by
  rcases h with rfl | rfl <;> decide

theorem pvd_str (cfg : Cfg) {fuel L : Nat} {w body sv rest : List Byte} {q : Byte} {s : St}
    {p : Nat} {f : Bool} (hq : IsQuote q) (hb : decodeBody cfg q 0 body = some sv) (hl : sv.length ≤ cfg.maxStrLen)
    (hw : DWs cfg w) (h : Pos s (w ++ ((q :: body ++ [q]) ++ rest)) p f) (hf : w.length + body.length + 1 < fuel) :
    ∃ s', parseVariant cfg fuel L s = (.ok, .str sv, s') ∧ At s' rest (p + w.length + (body.length + 2)) true := by
  obtain ⟨n, rfl⟩ : ∃ n, fuel = n + 1 := ⟨fuel - 1, by omega⟩
  obtain ⟨tok, k1, k2, k3, _, _⟩ := isQuote_tok hq
  obtain ⟨X, hS, hX⟩ := skipSpaces_dws cfg (r := body ++ q :: rest) tok w hw s p f (by simpa using h)
  obtain ⟨q', he, hq'⟩ := parseQuoted_complete (cfg := cfg) hq (n + 1) body sv [] 0 (mv X) rest (p + w.length + 1) true hb
    (by decide) hS.mv (by omega) (by simpa using hl)
  refine ⟨q', ?_, ?_⟩
  · simp only [parseVariant, hX (n + 1) (by omega), hS.cur_cons, k1, k2, k3, he, ↓reduceIte,
      Bool.false_eq_true, List.reverse_nil, List.nil_append]
  · have : p + w.length + 1 + body.length + 1 = p + w.length + (body.length + 2) := by omega
    rw [← this]; exact hq'

theorem pvd_num (cfg : Cfg) {fuel L : Nat} {w lit rest : List Byte} {v : Val} {s : St} {p : Nat} {f : Bool}
    (hn : NumTok cfg lit v) (hd : Delim cfg rest) (hw : DWs cfg w) (h : Pos s (w ++ (lit ++ rest)) p f)
    (hf : w.length < fuel) :
    ∃ s', parseVariant cfg fuel L s = (.ok, v, s') ∧ Seen s' rest (p + w.length + lit.length) true ∧
      isNumberVal v = true := by
  obtain ⟨n, rfl⟩ : ∃ n, fuel = n + 1 := ⟨fuel - 1, by omega⟩
  obtain ⟨c, cs, rfl, hc⟩ := numTok_head hn
  obtain ⟨hlen, hchars, _, hden⟩ := hn
  obtain ⟨tok, k1, k2, k3, k4, k5, k6, k7, _, _⟩ := numStartD_facts hc
  obtain ⟨X, hS, hX⟩ := skipSpaces_dws cfg (r := cs ++ rest) tok w hw s p f (by simpa using h)
  obtain ⟨Y, hY, hSY⟩ := scanNumber_lit cfg hd (c :: cs) hchars 63 [] X (p + w.length) true (by simpa using hS.pos) hlen
  refine ⟨Y, ?_, hSY, numDen_isNumber hden⟩
  have e : Gen.number_buffer - 1 = 63 := rfl
  simp only [List.reverse_nil, List.nil_append] at hY
  unfold numDen at hden
  cases hp : parseNumber cfg (c :: cs) with
  | invalid => rw [hp] at hden; cases hden
  | fault => rw [hp] at hden; cases hden
  | uint m =>
    rw [hp] at hden; injection hden with hden; subst hden
    simp only [parseVariant, hX (n + 1) hf, hS.cur_cons, k1, k2, k3, k4, k5, k6, k7, Bool.or_self, Bool.false_eq_true,
      ↓reduceIte, parseNumeric, e, hY, hp]
  | sint m =>
    rw [hp] at hden; injection hden with hden; subst hden
    simp only [parseVariant, hX (n + 1) hf, hS.cur_cons, k1, k2, k3, k4, k5, k6, k7, Bool.or_self, Bool.false_eq_true,
      ↓reduceIte, parseNumeric, e, hY, hp]
  | f32 m =>
    rw [hp] at hden; injection hden with hden; subst hden
    simp only [parseVariant, hX (n + 1) hf, hS.cur_cons, k1, k2, k3, k4, k5, k6, k7, Bool.or_self, Bool.false_eq_true,
      ↓reduceIte, parseNumeric, e, hY, hp]
  | f64 m =>
    rw [hp] at hden; injection hden with hden; subst hden
    simp only [parseVariant, hX (n + 1) hf, hS.cur_cons, k1, k2, k3, k4, k5, k6, k7, Bool.or_self, Bool.false_eq_true,
      ↓reduceIte, parseNumeric, e, hY, hp]

/-! ## heads of values and keys -/

theorem inUnquoted_facts {c : Byte} (h : inUnquoted c = true) :
    Tok c ∧ (c == 0x7D) = false ∧ (c == 0x22 || c == 0x27) = false := by
  have key : ∀ c : UInt8, (!inUnquoted c || (c != 0 && !isWs c && c != 0x2F && c != 0x7D && c != 0x22 && c != 0x27)) = true := by
    apply Bits.all_bytes; decide +kernel
  have hk := key c
  rw [h] at hk
  simp only [Bool.not_true, Bool.false_or, Bool.and_eq_true, bne_iff_ne, ne_eq, Bool.not_eq_true'] at hk
  obtain ⟨⟨⟨⟨⟨a1, a2⟩, a3⟩, a4⟩, a5⟩, a6⟩ := hk
  refine ⟨⟨a1, a2, a3⟩, by simpa using a4, ?_⟩
  simp [a5, a6]

theorem key_head {cfg : Cfg} {kt k : List Byte} (h : Key cfg kt k) :
    ∃ kc kr, kt = kc :: kr ∧ Tok kc ∧ (kc == 0x7D) = false := by
  cases h with
  | quoted q body _ hq _ _ =>
    obtain ⟨tok, _, _, _, _, h7⟩ := isQuote_tok hq
    exact ⟨q, body ++ [q], by simp, tok, by simpa using h7⟩
  | bare _ hne hall =>
    cases kt with
    | nil => exact absurd rfl hne
    | cons c r =>
      obtain ⟨tok, h7, _⟩ := inUnquoted_facts (hall c (List.mem_cons_self ..))
      exact ⟨c, r, rfl, tok, h7⟩

/-- the key of a member, from the state latched on its first byte -/
theorem key_complete (cfg : Cfg) {kc : Byte} {kr k after : List Byte} (hk : Key cfg (kc :: kr) k)
    (hd : inUnquoted (after.headD 0) = false) {X : St} {p : Nat} (hS : Seen X (kc :: (kr ++ after)) p true) (n : Nat)
    (hn : kr.length < n) :
    ∃ q, Pos q after (p + (kr.length + 1)) true ∧
      (if (kc == 0x22 || kc == 0x27) = true then parseQuoted cfg kc (n + 1) [] 0 (mv X)
       else if inUnquoted kc = true then
         ((if (parseUnquoted (n + 1) [] X).1.length > cfg.maxStrLen then Code.noMemory else Code.ok), (parseUnquoted (n + 1) [] X).1, (parseUnquoted (n + 1) [] X).2)
       else (Code.invalid, [], X)) = (.ok, k, q) := by
  generalize hkt : kc :: kr = kt at hk
  cases hk with
  | quoted q body _ hq hb hl =>
    simp only [List.cons_append, List.cons.injEq] at hkt
    obtain ⟨rfl, rfl⟩ := hkt
    obtain ⟨_, _, _, k3, _, _⟩ := isQuote_tok hq
    have hA : At (mv X) (body ++ kc :: after) (p + 1) true := by simpa using hS.mv
    obtain ⟨q', he, hq'⟩ := parseQuoted_complete (cfg := cfg) hq (n + 1) body k [] 0 (mv X) after (p + 1) true hb
      (by decide) hA (by simp at hn; omega) (by simpa using hl)
    refine ⟨q', ?_, ?_⟩
    · have : p + 1 + body.length + 1 = p + ((body ++ [kc]).length + 1) := by simp; omega
      rw [← this]; exact hq'.pos
    · simp only [k3, ↓reduceIte, he, List.reverse_nil, List.nil_append]
  | bare _ hne hall hlen =>
    subst hkt
    have hc := hall kc (List.mem_cons_self ..)
    obtain ⟨_, _, k3⟩ := inUnquoted_facts hc
    obtain ⟨Y, hY, hSY⟩ := parseUnquoted_complete (kc :: kr) hall hd (n + 1) [] X p true (by simpa using hS.pos)
      (by simp; omega)
    refine ⟨Y, by simpa using hSY.pos, ?_⟩
    simp only [k3, Bool.false_eq_true, ↓reduceIte, hc, hY, List.reverse_nil, List.nil_append]
    rw [if_neg (by omega)]

theorem value_head_d {cfg : Cfg} {L : Nat} {t : List Byte} {v : Val} (h : Value cfg L t v) :
    ∃ c cs, t = c :: cs ∧ Tok c ∧ c ≠ 0x5D ∧ c ≠ 0x7D := by
  cases h with
  | null => exact ⟨_, _, rfl, by decide, by decide, by decide⟩
  | «true» => exact ⟨_, _, rfl, by decide, by decide, by decide⟩
  | «false» => exact ⟨_, _, rfl, by decide, by decide, by decide⟩
  | num _ _ _ hn =>
    obtain ⟨c, cs, rfl, hc⟩ := numTok_head hn
    obtain ⟨tok, _, _, _, _, _, _, _, a, b⟩ := numStartD_facts hc
    exact ⟨c, cs, rfl, tok, a, b⟩
  | str _ q body s hq _ _ =>
    obtain ⟨tok, _, _, _, a, b⟩ := isQuote_tok hq
    exact ⟨q, body ++ [q], by simp, tok, a, b⟩
  | arrEmpty _ w _ => exact ⟨0x5B, w ++ [0x5D], by simp, by decide, by decide, by decide⟩
  | arr _ body xs _ => exact ⟨0x5B, body ++ [0x5D], by simp, by decide, by decide, by decide⟩
  | objEmpty _ w _ => exact ⟨0x7B, w ++ [0x7D], by simp, by decide, by decide, by decide⟩
  | obj _ body ms _ => exact ⟨0x7B, body ++ [0x7D], by simp, by decide, by decide, by decide⟩

theorem elements_head_d {cfg : Cfg} {L : Nat} {body : List Byte} {xs : List Val} (h : Elements cfg L body xs) :
    ∃ w1 c1 r1, body = w1 ++ c1 :: r1 ∧ DWs cfg w1 ∧ Tok c1 ∧ c1 ≠ 0x5D := by
  cases h with
  | one _ w1 t v w2 hw1 hv hw2 =>
    obtain ⟨c, cs, rfl, tok, a, _⟩ := value_head_d hv
    exact ⟨w1, c, cs ++ w2, by simp, hw1, tok, a⟩
  | cons _ w1 t v w2 rest vs hw1 hv hw2 hr =>
    obtain ⟨c, cs, rfl, tok, a, _⟩ := value_head_d hv
    exact ⟨w1, c, cs ++ w2 ++ 0x2C :: rest, by simp, hw1, tok, a⟩

theorem parseVariant_skip_d (cfg : Cfg) {c : Byte} {r w : List Byte} {s : St} {p : Nat} {f : Bool}
    (hc : Tok c) (hw : DWs cfg w) (h : Pos s (w ++ c :: r) p f) :
    ∃ X, Seen X (c :: r) (p + w.length) true ∧ (∀ n, w.length < n → skipSpaces cfg n s = (.ok, X)) ∧
      (∀ n L, w.length < n → parseVariant cfg n L X = parseVariant cfg n L s) ∧
      (∀ n L acc, w.length + 1 < n → parseElems cfg n L X acc = parseElems cfg n L s acc) := by
  obtain ⟨X, hS, hX⟩ := skipSpaces_dws cfg hc w hw s p f h
  have hpv : ∀ n L, w.length < n → parseVariant cfg n L X = parseVariant cfg n L s := by
    intro n L hn
    obtain ⟨m, rfl⟩ : ∃ m, n = m + 1 := ⟨n - 1, by omega⟩
    simp only [parseVariant, hX (m + 1) hn, skipSpaces_seen cfg hc hS m]
  refine ⟨X, hS, hX, hpv, ?_⟩
  intro n L acc hn
  obtain ⟨m, rfl⟩ : ∃ m, n = m + 1 := ⟨n - 1, by omega⟩
  simp only [parseElems, hpv m L (by omega)]

theorem lastWins_eq_d (ms : List (List Byte × Val)) : Spec.Dialect.lastWins ms = foldMembers [] ms := rfl

end JD
