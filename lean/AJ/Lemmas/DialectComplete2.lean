/- Completeness for the dialect, by recursion on derivations (port of `complete_value/elems/members` of
   AJ/Lemmas/JsonComplete.lean to `Spec.Dialect`). Fuel: `parseVariant` needs one unit more than the number of bytes it
   reads (white space included), `parseElems` / `parseMembers` two more than the bytes up to the closing bracket. -/
import AJ.Lemmas.DialectComplete
set_option linter.unusedSimpArgs false
set_option linter.unusedVariables false
namespace JD
open Spec.Dialect

mutual
theorem dcomplete_value {cfg : Cfg} {L : Nat} {t : List Byte} {v : Val} (h : Value cfg L t v) :
    ∀ (fuel : Nat) (w rest : List Byte) (s : St) (p : Nat) (f : Bool),
      DWs cfg w → Pos s (w ++ (t ++ rest)) p f → w.length + t.length + 1 ≤ fuel → (isNumberVal v = true → Delim cfg rest) →
      ∃ s', parseVariant cfg fuel L s = (.ok, v, s') ∧ Post s' rest (p + w.length + t.length) (isNumberVal v) := by
  intro fuel w rest s p f hw hs hf hd
  cases h with
  | null =>
    obtain ⟨s', h1, h2⟩ := (pvd_kw cfg (L := L) (fuel := fuel) hw).1 hs (by omega)
    exact ⟨s', h1, by simpa [Post, isNumberVal] using h2⟩
  | «true» =>
    obtain ⟨s', h1, h2⟩ := (pvd_kw cfg (L := L) (fuel := fuel) hw).2.1 hs (by omega)
    exact ⟨s', h1, by simpa [Post, isNumberVal] using h2⟩
  | «false» =>
    obtain ⟨s', h1, h2⟩ := (pvd_kw cfg (L := L) (fuel := fuel) hw).2.2 hs (by omega)
    exact ⟨s', h1, by simpa [Post, isNumberVal] using h2⟩
  | num _ _ _ hn =>
    obtain ⟨s', h1, h2, h3⟩ := pvd_num cfg (L := L) (fuel := fuel) hn (hd (numDen_isNumber hn.2.2.2)) hw hs (by omega)
    exact ⟨s', h1, by simpa [Post, h3] using h2⟩
  | str _ q body sv hq hb hl =>
    obtain ⟨s', h1, h2⟩ := pvd_str cfg (L := L) (fuel := fuel) hq hb hl hw hs (by simp at hf; omega)
    refine ⟨s', h1, ?_⟩
    have : (q :: body ++ [q]).length = body.length + 2 := by simp
    rw [this]
    simpa [Post, isNumberVal] using h2
  | arrEmpty l w1 hw1 =>
    obtain ⟨n, rfl⟩ : ∃ n, fuel = n + 1 := ⟨fuel - 1, by omega⟩
    obtain ⟨X, hS, hX⟩ := skipSpaces_dws cfg (r := w1 ++ 0x5D :: rest) (by decide : Tok 0x5B) w hw s p f (by simpa using hs)
    obtain ⟨Y, hSY, hY⟩ := skipSpaces_dws cfg (r := rest) (by decide : Tok 0x5D) w1 hw1 (mv X) _ true hS.mv.pos
    refine ⟨mv Y, ?_, ?_⟩
    · simp only [parseVariant, hX (n + 1) (by omega), hS.cur_cons, beq_self_eq_true, ↓reduceIte,
        hY (n + 1) (by simp at hf; omega), hSY.cur_cons]
    · have : p + w.length + 1 + w1.length + 1 = p + w.length + (0x5B :: w1 ++ [0x5D]).length := by simp; omega
      simp only [Post, isNumberVal, Bool.false_eq_true, ↓reduceIte]
      rw [← this]; exact hSY.mv
  | arr l body xs he =>
    obtain ⟨n, rfl⟩ : ∃ n, fuel = n + 1 := ⟨fuel - 1, by omega⟩
    obtain ⟨X, hS, hX⟩ := skipSpaces_dws cfg (r := body ++ 0x5D :: rest) (by decide : Tok 0x5B) w hw s p f (by simpa using hs)
    obtain ⟨w1, c1, r1, rfl, hw1, tok1, hc1⟩ := elements_head_d he
    have hlen : w1.length + 1 + r1.length + 2 ≤ n := by simp at hf; omega
    obtain ⟨Y, hSY, hY, _, hPE⟩ := parseVariant_skip_d cfg (r := r1 ++ 0x5D :: rest) tok1 hw1 (s := mv X)
      (by simpa using hS.mv.pos)
    obtain ⟨s', h1, h2⟩ := dcomplete_elems he n rest (mv X) _ true [] (by simpa using hS.mv.pos) (by simp; omega)
    have e1 : (c1 == 0x5D) = false := by simpa using hc1
    refine ⟨s', ?_, ?_⟩
    · simp only [parseVariant, hX (n + 1) (by omega), hS.cur_cons, beq_self_eq_true, ↓reduceIte,
        hY (n + 1) (by omega), hSY.cur_cons, e1, Bool.false_eq_true, hPE n l [] (by omega), h1, List.reverse_nil,
        List.nil_append]
    · have : p + w.length + 1 + (w1 ++ c1 :: r1).length + 1 = p + w.length + (0x5B :: (w1 ++ c1 :: r1) ++ [0x5D]).length := by
        simp; omega
      simp only [Post, isNumberVal, Bool.false_eq_true, ↓reduceIte]
      rw [← this]; exact h2
  | objEmpty l w1 hw1 =>
    obtain ⟨n, rfl⟩ : ∃ n, fuel = n + 1 := ⟨fuel - 1, by omega⟩
    obtain ⟨X, hS, hX⟩ := skipSpaces_dws cfg (r := w1 ++ 0x7D :: rest) (by decide : Tok 0x7B) w hw s p f (by simpa using hs)
    obtain ⟨Y, hSY, hY⟩ := skipSpaces_dws cfg (r := rest) (by decide : Tok 0x7D) w1 hw1 (mv X) _ true hS.mv.pos
    have k1 : ((0x7B : UInt8) == 0x5B) = false := by decide
    refine ⟨mv Y, ?_, ?_⟩
    · simp only [parseVariant, hX (n + 1) (by omega), hS.cur_cons, k1, beq_self_eq_true, ↓reduceIte, Bool.false_eq_true,
        hY (n + 1) (by simp at hf; omega), hSY.cur_cons]
    · have : p + w.length + 1 + w1.length + 1 = p + w.length + (0x7B :: w1 ++ [0x7D]).length := by simp; omega
      simp only [Post, isNumberVal, Bool.false_eq_true, ↓reduceIte]
      rw [← this]; exact hSY.mv
  | obj l body ms hm =>
    obtain ⟨n, rfl⟩ : ∃ n, fuel = n + 1 := ⟨fuel - 1, by omega⟩
    obtain ⟨X, hS, hX⟩ := skipSpaces_dws cfg (r := body ++ 0x7D :: rest) (by decide : Tok 0x7B) w hw s p f (by simpa using hs)
    obtain ⟨Y, s', kc, hY, hcY, k2, h1, h2⟩ := dcomplete_members hm n rest (mv X) _ true [] (by simpa using hS.mv.pos)
      (by simp at hf; omega)
    have k1 : ((0x7B : UInt8) == 0x5B) = false := by decide
    refine ⟨s', ?_, ?_⟩
    · simp only [parseVariant, hX (n + 1) (by omega), hS.cur_cons, k1, beq_self_eq_true, ↓reduceIte, Bool.false_eq_true,
        hY, hcY, k2, h1, lastWins_eq_d]
    · have : p + w.length + 1 + body.length + 1 = p + w.length + (0x7B :: body ++ [0x7D]).length := by simp; omega
      simp only [Post, isNumberVal, Bool.false_eq_true, ↓reduceIte]
      rw [← this]; exact h2
theorem dcomplete_elems {cfg : Cfg} {L : Nat} {body : List Byte} {xs : List Val}
    (h : Elements cfg L body xs) :
    ∀ (fuel : Nat) (rest : List Byte) (s : St) (p : Nat) (f : Bool) (acc : List Val),
      Pos s (body ++ 0x5D :: rest) p f → body.length + 2 ≤ fuel →
      ∃ s', parseElems cfg fuel L s acc = (.ok, .arr (acc.reverse ++ xs), s') ∧ At s' rest (p + body.length + 1) true := by
  intro fuel rest s p f acc hs hf
  obtain ⟨n, rfl⟩ : ∃ n, fuel = n + 1 := ⟨fuel - 1, by omega⟩
  cases h with
  | one _ w1 t v w2 hw1 hv hw2 =>
    obtain ⟨s1, h1, hpost⟩ := dcomplete_value hv n w1 (w2 ++ 0x5D :: rest) s p f hw1 (by simpa using hs)
      (by simp at hf; omega) (fun _ => (delim_dws cfg hw2 (Or.inr (Or.inl rfl)) rest).1)
    obtain ⟨X, hS, hX⟩ := skipSpaces_dws cfg (r := rest) (by decide : Tok 0x5D) w2 hw2 s1 _ true hpost.pos
    refine ⟨mv X, ?_, ?_⟩
    · simp only [parseElems, h1, hX (n + 1) (by simp at hf; omega), hS.cur_cons, beq_self_eq_true, ↓reduceIte,
        List.reverse_cons, List.append_assoc, List.singleton_append]
    · have : p + w1.length + t.length + w2.length + 1 = p + (w1 ++ t ++ w2).length + 1 := by simp; omega
      rw [← this]; exact hS.mv
  | cons _ w1 t v w2 more vs hw1 hv hw2 hr =>
    obtain ⟨s1, h1, hpost⟩ := dcomplete_value hv n w1 (w2 ++ 0x2C :: (more ++ 0x5D :: rest)) s p f hw1
      (by simpa using hs) (by simp at hf; omega) (fun _ => (delim_dws cfg hw2 (Or.inl rfl) _).1)
    obtain ⟨X, hS, hX⟩ := skipSpaces_dws cfg (r := more ++ 0x5D :: rest) (by decide : Tok 0x2C) w2 hw2 s1 _ true hpost.pos
    obtain ⟨s', h2, h3⟩ := dcomplete_elems hr n rest (mv X) _ true (v :: acc) hS.mv.pos (by simp at hf; omega)
    have k1 : ((0x2C : UInt8) == 0x5D) = false := by decide
    refine ⟨s', ?_, ?_⟩
    · simp only [parseElems, h1, hX (n + 1) (by simp at hf; omega), hS.cur_cons, k1, beq_self_eq_true, ↓reduceIte,
        Bool.false_eq_true, h2, List.reverse_cons, List.append_assoc, List.singleton_append]
    · have : p + w1.length + t.length + w2.length + 1 + more.length + 1 =
          p + (w1 ++ t ++ w2 ++ 0x2C :: more).length + 1 := by simp; omega
      rw [← this]; exact h3
theorem dcomplete_members {cfg : Cfg} {L : Nat} {body : List Byte}
    {ms : List (List Byte × Val)} (h : Members cfg L body ms) :
    ∀ (fuel : Nat) (rest : List Byte) (s : St) (p : Nat) (f : Bool) (acc : List (List Byte × Val)),
      Pos s (body ++ 0x7D :: rest) p f → body.length + 2 ≤ fuel →
      ∃ X s' kc, skipSpaces cfg (fuel + 1) s = (.ok, X) ∧ cur X = (kc, X) ∧ (kc == 0x7D) = false ∧
        parseMembers cfg fuel L X acc = (.ok, .obj (foldMembers acc ms), s') ∧ At s' rest (p + body.length + 1) true := by
  intro fuel rest s p f acc hs hf
  obtain ⟨n, rfl⟩ : ∃ n, fuel = n + 1 := ⟨fuel - 1, by omega⟩
  cases h with
  | one _ w1 kt k w2 w3 t v w4 hw1 hkt hw2 hw3 hv hw4 =>
    obtain ⟨kc, kr, rfl, tokk, hk7⟩ := key_head hkt
    obtain ⟨X, hS, hX⟩ := skipSpaces_dws cfg (r := kr ++ (w2 ++ 0x3A :: (w3 ++ (t ++ (w4 ++ 0x7D :: rest)))))
      tokk w1 hw1 s p f (by simpa using hs)
    obtain ⟨q, hq, hk⟩ := key_complete cfg hkt (after := w2 ++ 0x3A :: (w3 ++ (t ++ (w4 ++ 0x7D :: rest))))
      (delim_dws cfg hw2 (Or.inr (Or.inr (Or.inr rfl))) _).2 hS n (by simp at hf; omega)
    obtain ⟨Y, hSY, hY⟩ := skipSpaces_dws cfg (r := w3 ++ (t ++ (w4 ++ 0x7D :: rest))) (by decide : Tok 0x3A) w2 hw2 q _ true hq
    obtain ⟨s1, h1, hpost⟩ := dcomplete_value hv n w3 (w4 ++ 0x7D :: rest) (mv Y) _ true hw3 hSY.mv.pos
      (by simp at hf; omega) (fun _ => (delim_dws cfg hw4 (Or.inr (Or.inr (Or.inl rfl))) rest).1)
    obtain ⟨Z, hSZ, hZ⟩ := skipSpaces_dws cfg (r := rest) (by decide : Tok 0x7D) w4 hw4 s1 _ true hpost.pos
    refine ⟨X, mv Z, kc, hX (n + 2) (by simp at hf; omega), hS.cur_cons, hk7, ?_, ?_⟩
    · simp only [parseMembers, hS.cur_cons, hk, hY (n + 1) (by simp at hf; omega), hSY.cur_cons,
        bne_self_eq_false, Bool.false_eq_true, ↓reduceIte, h1, hZ (n + 1) (by simp at hf; omega), hSZ.cur_cons, beq_self_eq_true,
        List.reverse_nil, List.nil_append, foldMembers, List.foldl_cons, List.foldl_nil]
    · have : p + w1.length + (kr.length + 1) + w2.length + 1 + w3.length + t.length + w4.length + 1 =
          p + (w1 ++ kc :: kr ++ w2 ++ 0x3A :: w3 ++ t ++ w4).length + 1 := by simp; omega
      rw [← this]; exact hSZ.mv
  | cons _ w1 kt k w2 w3 t v w4 more ms' hw1 hkt hw2 hw3 hv hw4 hr =>
    obtain ⟨kc, kr, rfl, tokk, hk7⟩ := key_head hkt
    obtain ⟨X, hS, hX⟩ := skipSpaces_dws cfg
      (r := kr ++ (w2 ++ 0x3A :: (w3 ++ (t ++ (w4 ++ 0x2C :: (more ++ 0x7D :: rest))))))
      tokk w1 hw1 s p f (by simpa using hs)
    obtain ⟨q, hq, hk⟩ := key_complete cfg hkt
      (after := w2 ++ 0x3A :: (w3 ++ (t ++ (w4 ++ 0x2C :: (more ++ 0x7D :: rest)))))
      (delim_dws cfg hw2 (Or.inr (Or.inr (Or.inr rfl))) _).2 hS n (by simp at hf; omega)
    obtain ⟨Y, hSY, hY⟩ := skipSpaces_dws cfg (r := w3 ++ (t ++ (w4 ++ 0x2C :: (more ++ 0x7D :: rest))))
      (by decide : Tok 0x3A) w2 hw2 q _ true hq
    obtain ⟨s1, h1, hpost⟩ := dcomplete_value hv n w3 (w4 ++ 0x2C :: (more ++ 0x7D :: rest)) (mv Y) _ true hw3
      hSY.mv.pos (by simp at hf; omega) (fun _ => (delim_dws cfg hw4 (Or.inl rfl) _).1)
    obtain ⟨Z, hSZ, hZ⟩ := skipSpaces_dws cfg (r := more ++ 0x7D :: rest) (by decide : Tok 0x2C) w4 hw4 s1 _ true hpost.pos
    obtain ⟨X2, s', kc2, hX2, hcX2, _, h2, h3⟩ := dcomplete_members hr n rest (mv Z) _ true (setMember acc k v) hSZ.mv.pos
      (by simp at hf; omega)
    have k1 : ((0x2C : UInt8) == 0x7D) = false := by decide
    refine ⟨X, s', kc, hX (n + 2) (by simp at hf; omega), hS.cur_cons, hk7, ?_, ?_⟩
    · simp only [parseMembers, hS.cur_cons, hk, hY (n + 1) (by simp at hf; omega), hSY.cur_cons,
        bne_self_eq_false, Bool.false_eq_true, ↓reduceIte, h1, hZ (n + 1) (by simp at hf; omega), hSZ.cur_cons, k1, beq_self_eq_true,
        hX2, h2, List.reverse_nil, List.nil_append, foldMembers, List.foldl_cons]
    · have : p + w1.length + (kr.length + 1) + w2.length + 1 + w3.length + t.length + w4.length + 1 + more.length + 1 =
          p + (w1 ++ kc :: kr ++ w2 ++ 0x3A :: w3 ++ t ++ w4 ++ 0x2C :: more).length + 1 := by simp; omega
      rw [← this]; exact h3
end

end JD
