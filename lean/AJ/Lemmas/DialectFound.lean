/- `found` is never reset: once `skipSpaces` has seen a token, every routine of the JSON parser model keeps `found = true`.
   (The proof script is the one of AJ/Lemmas/JDPos.lean, which only uses the three base facts below.) -/
import AJ.Model.JD
namespace JD

def Fd (s : St) : Prop := s.found = true

theorem fd_cur {s} (h : Fd s) : Fd (cur s).2 := by
  unfold Fd at *; simp only [cur]; exact h

theorem fd_mv {s} (h : Fd s) : Fd (mv s) := by
  unfold Fd mv at *; exact h

theorem fd_found {s} (_h : Fd s) : Fd { s with found := true } := rfl

theorem fd_skipBlock  : ∀ fuel w s, Fd s → Fd (skipBlock fuel w s).2 := by
  intro fuel
  induction fuel with
  | zero => intro w s h; simpa [skipBlock] using h
  | succ f ih =>
    intro w s h
    simp only [skipBlock]
    have h1 := fd_cur h
    split
    · exact h1
    · split
      · exact fd_mv h1
      · exact ih _ _ (fd_mv h1)

theorem fd_skipLine  : ∀ fuel s, Fd s → Fd (skipLine fuel s).2 := by
  intro fuel
  induction fuel with
  | zero => intro s h; simpa [skipLine] using h
  | succ f ih =>
    intro s h
    simp only [skipLine]
    have h1 := fd_cur (fd_mv h)
    split
    · exact h1
    · split
      · exact h1
      · exact ih _ h1

theorem fd_skipSpaces {cfg} : ∀ fuel s, Fd s → Fd (skipSpaces cfg fuel s).2 := by
  intro fuel
  induction fuel with
  | zero => intro s h; simpa [skipSpaces] using h
  | succ f ih =>
    intro s h
    simp only [skipSpaces]
    have h1 := fd_cur h
    split
    · exact h1
    · split
      · exact ih _ (fd_mv h1)
      · split
        · have h2 := fd_cur (fd_mv h1)
          split
          · have h3 := fd_skipBlock f false _ (fd_mv h2)
            split
            · rename_i heq; rw [heq] at h3; exact ih _ h3
            · exact h3
          · split
            · have h3 := fd_skipLine f _ h2
              split
              · rename_i heq; rw [heq] at h3; exact ih _ h3
              · exact h3
            · exact h2
        · exact fd_found h1

theorem fd_skipKeyword  : ∀ ks s, Fd s → Fd (skipKeyword ks s).2 := by
  intro ks
  induction ks with
  | nil => intro s h; simpa [skipKeyword] using h
  | cons k ks ih =>
    intro s h
    simp only [skipKeyword]
    have h1 := fd_cur h
    split
    · exact h1
    · split
      · exact h1
      · exact ih _ (fd_mv h1)

theorem fd_parseHex4  : ∀ k acc s, Fd s → Fd (parseHex4 k acc s).2.2 := by
  intro k
  induction k with
  | zero => intro acc s h; simpa [parseHex4] using h
  | succ k ih =>
    intro acc s h
    simp only [parseHex4]
    have h1 := fd_cur h
    split
    · exact h1
    · split
      · exact h1
      · exact ih _ _ (fd_mv h1)

theorem fd_parseQuoted {cfg stop} : ∀ fuel acc hi s, Fd s → Fd (parseQuoted cfg stop fuel acc hi s).2.2 := by
  intro fuel
  induction fuel with
  | zero => intro acc hi s h; simpa [parseQuoted] using h
  | succ f ih =>
    intro acc hi s h
    simp only [parseQuoted]
    have h1 := fd_mv (fd_cur h)
    split
    · exact h1
    · split
      · exact h1
      · split
        · have h2 := fd_cur h1
          split
          · exact h2
          · split
            · split
              · have h3 := fd_parseHex4 4 0 _ (fd_mv h2)
                split
                · rename_i heq; rw [heq] at h3
                  split
                  · exact ih _ _ _ h3
                  · split
                    · exact ih _ _ _ h3
                    · exact ih _ _ _ h3
                · rename_i heq; rw [heq] at h3; exact h3
              · exact ih _ _ _ h2
            · split
              · exact h2
              · exact ih _ _ _ (fd_mv h2)
        · exact ih _ _ _ h1
end JD

namespace JD
theorem fd_parseUnquoted  : ∀ fuel acc s, Fd s → Fd (parseUnquoted fuel acc s).2 := by
  intro fuel
  induction fuel with
  | zero => intro acc s h; simpa [parseUnquoted] using h
  | succ f ih =>
    intro acc s h
    simp only [parseUnquoted]
    have h1 := fd_cur h
    split
    · exact ih _ _ (fd_mv h1)
    · exact h1

theorem fd_scanNumber {cfg} : ∀ k acc s, Fd s → Fd (scanNumber cfg k acc s).2 := by
  intro k
  induction k with
  | zero => intro acc s h; simp only [scanNumber]; exact fd_cur h
  | succ k ih =>
    intro acc s h
    simp only [scanNumber]
    have h1 := fd_cur h
    split
    · exact ih _ _ (fd_mv h1)
    · exact h1

theorem fd_parseNumeric {cfg} (s : St) (h : Fd s) : Fd (parseNumeric cfg s).2.2 := by
  unfold parseNumeric
  have h1 := fd_scanNumber (cfg := cfg) (Gen.number_buffer - 1) [] s h
  generalize scanNumber cfg (Gen.number_buffer - 1) [] s = r at h1 ⊢
  obtain ⟨buf, s'⟩ := r
  simp only
  split <;> exact h1

theorem fd_mutual {cfg} : ∀ fuel,
    (∀ limit s, Fd s → Fd (parseVariant cfg fuel limit s).2.2) ∧
    (∀ limit s acc, Fd s → Fd (parseElems cfg fuel limit s acc).2.2) ∧
    (∀ limit s ms, Fd s → Fd (parseMembers cfg fuel limit s ms).2.2) := by
  intro fuel
  induction fuel with
  | zero =>
    refine ⟨?_, ?_, ?_⟩
    · intro limit s h; simpa [parseVariant] using h
    · intro limit s acc h; simpa [parseElems] using h
    · intro limit s ms h; simpa [parseMembers] using h
  | succ f ih =>
    obtain ⟨ihV, ihE, ihM⟩ := ih
    refine ⟨?_, ?_, ?_⟩
    · intro limit s h
      simp only [parseVariant]
      have h0 := fd_skipSpaces (cfg := cfg) (f+1) s h
      split
      · rename_i s1 heq; rw [heq] at h0
        have h1 := fd_cur h0
        split
        · split
          · exact h1
          · have h2 := fd_skipSpaces (cfg := cfg) (f+1) _ (fd_mv h1)
            split
            · rename_i heq2; rw [heq2] at h2
              have h3 := fd_cur h2
              split
              · exact fd_mv h3
              · exact ihE _ _ _ h3
            · rename_i heq2; rw [heq2] at h2; exact h2
        · split
          · split
            · exact h1
            · have h2 := fd_skipSpaces (cfg := cfg) (f+1) _ (fd_mv h1)
              split
              · rename_i heq2; rw [heq2] at h2
                have h3 := fd_cur h2
                split
                · exact fd_mv h3
                · exact ihM _ _ _ h3
              · rename_i heq2; rw [heq2] at h2; exact h2
          · split
            · have h2 := fd_parseQuoted (cfg := cfg) (stop := (cur s1).1) (f+1) [] 0 _ (fd_mv h1)
              split <;> (rename_i heq2; rw [heq2] at h2; exact h2)
            · split
              · exact fd_skipKeyword _ _ h1
              · split
                · exact fd_skipKeyword _ _ h1
                · split
                  · exact fd_skipKeyword _ _ h1
                  · exact fd_parseNumeric _ h1
      · rename_i heq; rw [heq] at h0; exact h0
    · intro limit s acc h
      simp only [parseElems]
      have h0 := ihV limit s h
      split
      · rename_i heq; rw [heq] at h0
        have h1 := fd_skipSpaces (cfg := cfg) (f+1) _ h0
        split
        · rename_i heq2; rw [heq2] at h1
          have h2 := fd_cur h1
          split
          · exact fd_mv h2
          · split
            · exact ihE _ _ _ (fd_mv h2)
            · exact h2
        · rename_i heq2; rw [heq2] at h1; exact h1
      · rename_i heq; rw [heq] at h0; exact h0
    · intro limit s ms h
      simp only [parseMembers]
      have hc := fd_cur h
      -- the key
      have hkey : Fd (if ((cur s).1 == 0x22 || (cur s).1 == 0x27) = true then parseQuoted cfg (cur s).1 (f+1) [] 0 (mv (cur s).2)
            else if inUnquoted (cur s).1 = true then
              ((if (parseUnquoted (f+1) [] (cur s).2).1.length > cfg.maxStrLen then Code.noMemory else Code.ok), (parseUnquoted (f+1) [] (cur s).2).1, (parseUnquoted (f+1) [] (cur s).2).2)
            else (Code.invalid, [], (cur s).2)).2.2 := by
        split
        · exact fd_parseQuoted _ _ _ _ (fd_mv hc)
        · split
          · exact fd_parseUnquoted _ _ _ hc
          · exact hc
      generalize (if ((cur s).1 == 0x22 || (cur s).1 == 0x27) = true then parseQuoted cfg (cur s).1 (f+1) [] 0 (mv (cur s).2)
            else if inUnquoted (cur s).1 = true then
              ((if (parseUnquoted (f+1) [] (cur s).2).1.length > cfg.maxStrLen then Code.noMemory else Code.ok), (parseUnquoted (f+1) [] (cur s).2).1, (parseUnquoted (f+1) [] (cur s).2).2)
            else (Code.invalid, [], (cur s).2)) = kr at hkey ⊢
      obtain ⟨kc, key, s1⟩ := kr
      cases kc <;> simp only at hkey ⊢ <;> try exact hkey
      -- kc = ok
      have h1 := fd_skipSpaces (cfg := cfg) (f+1) _ hkey
      split
      · rename_i heq; rw [heq] at h1
        have h2 := fd_cur h1
        split
        · exact h2
        · have h3 := ihV limit _ (fd_mv h2)
          split
          · rename_i heq3; rw [heq3] at h3
            have h4 := fd_skipSpaces (cfg := cfg) (f+1) _ h3
            split
            · rename_i heq4; rw [heq4] at h4
              have h5 := fd_cur h4
              split
              · exact fd_mv h5
              · split
                · have h6 := fd_skipSpaces (cfg := cfg) (f+1) _ (fd_mv h5)
                  split
                  · rename_i heq6; rw [heq6] at h6; exact ihM _ _ _ h6
                  · rename_i heq6; rw [heq6] at h6; exact h6
                · exact h5
            · rename_i heq4; rw [heq4] at h4; exact h4
          · rename_i heq3; rw [heq3] at h3; exact h3
      · rename_i heq; rw [heq] at h1; exact h1


/-! ## `EmptyInput` is only ever produced before the first token -/

theorem ne_skipBlock : ∀ fuel w s, (skipBlock fuel w s).1 ≠ .empty := by
  intro fuel
  induction fuel with
  | zero => intro w s; simp [skipBlock]
  | succ f ih =>
    intro w s
    simp only [skipBlock]
    split
    · simp
    · split
      · simp
      · exact ih _ _

theorem ne_skipLine : ∀ fuel s, (skipLine fuel s).1 ≠ .empty := by
  intro fuel
  induction fuel with
  | zero => intro s; simp [skipLine]
  | succ f ih =>
    intro s
    simp only [skipLine]
    split
    · simp
    · split
      · simp
      · exact ih _

theorem ne_skipSpaces {cfg} : ∀ fuel s, Fd s → (skipSpaces cfg fuel s).1 ≠ .empty := by
  intro fuel
  induction fuel with
  | zero => intro s _; simp [skipSpaces]
  | succ f ih =>
    intro s h
    simp only [skipSpaces]
    have h1 := fd_cur h
    split
    · have : (cur s).2.found = true := h1
      simp [this]
    · split
      · exact ih _ (fd_mv h1)
      · split
        · have h2 := fd_cur (fd_mv h1)
          split
          · have h3 := fd_skipBlock f false _ (fd_mv h2)
            split
            · rename_i heq; rw [heq] at h3; exact ih _ h3
            · exact ne_skipBlock _ _ _
          · split
            · have h3 := fd_skipLine f _ h2
              split
              · rename_i heq; rw [heq] at h3; exact ih _ h3
              · exact ne_skipLine _ _
            · simp
        · simp

theorem ne_skipKeyword : ∀ ks s, (skipKeyword ks s).1 ≠ .empty := by
  intro ks
  induction ks with
  | nil => intro s; simp [skipKeyword]
  | cons k ks ih =>
    intro s
    simp only [skipKeyword]
    split
    · simp
    · split
      · simp
      · exact ih _

theorem ne_parseHex4 : ∀ k acc s, (parseHex4 k acc s).1 ≠ .empty := by
  intro k
  induction k with
  | zero => intro acc s; simp [parseHex4]
  | succ k ih =>
    intro acc s
    simp only [parseHex4]
    split
    · simp
    · split
      · simp
      · exact ih _ _

theorem ne_parseQuoted {cfg stop} : ∀ fuel acc hi s, (parseQuoted cfg stop fuel acc hi s).1 ≠ .empty := by
  intro fuel
  induction fuel with
  | zero => intro acc hi s; simp [parseQuoted]
  | succ f ih =>
    intro acc hi s
    simp only [parseQuoted]
    split
    · split <;> simp
    · split
      · simp
      · split
        · split
          · simp
          · split
            · split
              · have h3 := ne_parseHex4 4 0 (mv (cur (mv (cur s).2)).2)
                split
                · split
                  · exact ih _ _ _
                  · split
                    · exact ih _ _ _
                    · exact ih _ _ _
                · rename_i heq; rw [heq] at h3; exact h3
              · exact ih _ _ _
            · split
              · simp
              · exact ih _ _ _
        · exact ih _ _ _

theorem ne_parseNumeric {cfg} (s : St) : (parseNumeric cfg s).1 ≠ .empty := by
  unfold parseNumeric
  generalize scanNumber cfg (Gen.number_buffer - 1) [] s = r
  obtain ⟨buf, s'⟩ := r
  simp only
  split <;> simp

theorem ne_mutual {cfg} : ∀ fuel,
    (∀ limit s, Fd s → (parseVariant cfg fuel limit s).1 ≠ .empty) ∧
    (∀ limit s acc, Fd s → (parseElems cfg fuel limit s acc).1 ≠ .empty) ∧
    (∀ limit s ms, Fd s → (parseMembers cfg fuel limit s ms).1 ≠ .empty) := by
  intro fuel
  induction fuel with
  | zero =>
    refine ⟨?_, ?_, ?_⟩
    · intro limit s h; simp [parseVariant]
    · intro limit s acc h; simp [parseElems]
    · intro limit s ms h; simp [parseMembers]
  | succ f ih =>
    obtain ⟨ihV, ihE, ihM⟩ := ih
    obtain ⟨fdV, fdE, fdM⟩ := fd_mutual (cfg := cfg) f
    refine ⟨?_, ?_, ?_⟩
    · intro limit s h
      simp only [parseVariant]
      have h0 := fd_skipSpaces (cfg := cfg) (f+1) s h
      have n0 := ne_skipSpaces (cfg := cfg) (f+1) s h
      split
      · rename_i s1 heq; rw [heq] at h0
        have h1 := fd_cur h0
        split
        · split
          · simp
          · have h2 := fd_skipSpaces (cfg := cfg) (f+1) _ (fd_mv h1)
            have n2 := ne_skipSpaces (cfg := cfg) (f+1) _ (fd_mv h1)
            split
            · rename_i heq2; rw [heq2] at h2
              have h3 := fd_cur h2
              split
              · simp
              · exact ihE _ _ _ h3
            · rename_i heq2; rw [heq2] at n2; exact n2
        · split
          · split
            · simp
            · have h2 := fd_skipSpaces (cfg := cfg) (f+1) _ (fd_mv h1)
              have n2 := ne_skipSpaces (cfg := cfg) (f+1) _ (fd_mv h1)
              split
              · rename_i heq2; rw [heq2] at h2
                have h3 := fd_cur h2
                split
                · simp
                · exact ihM _ _ _ h3
              · rename_i heq2; rw [heq2] at n2; exact n2
          · split
            · have n2 := ne_parseQuoted (cfg := cfg) (stop := (cur s1).1) (f+1) [] 0 (mv (cur s1).2)
              split
              · simp
              · rename_i heq2; rw [heq2] at n2; exact n2
            · split
              · exact ne_skipKeyword _ _
              · split
                · exact ne_skipKeyword _ _
                · split
                  · exact ne_skipKeyword _ _
                  · exact ne_parseNumeric _
      · rename_i heq; rw [heq] at n0; exact n0
    · intro limit s acc h
      simp only [parseElems]
      have h0 := fdV limit s h
      have n0 := ihV limit s h
      split
      · rename_i heq; rw [heq] at h0
        have h1 := fd_skipSpaces (cfg := cfg) (f+1) _ h0
        have n1 := ne_skipSpaces (cfg := cfg) (f+1) _ h0
        split
        · rename_i heq2; rw [heq2] at h1
          have h2 := fd_cur h1
          split
          · simp
          · split
            · exact ihE _ _ _ (fd_mv h2)
            · simp
        · rename_i heq2; rw [heq2] at n1; exact n1
      · rename_i heq; rw [heq] at n0; exact n0
    · intro limit s ms h
      simp only [parseMembers]
      have hc := fd_cur h
      have hkey : Fd (if ((cur s).1 == 0x22 || (cur s).1 == 0x27) = true then parseQuoted cfg (cur s).1 (f+1) [] 0 (mv (cur s).2)
            else if inUnquoted (cur s).1 = true then
              ((if (parseUnquoted (f+1) [] (cur s).2).1.length > cfg.maxStrLen then Code.noMemory else Code.ok), (parseUnquoted (f+1) [] (cur s).2).1, (parseUnquoted (f+1) [] (cur s).2).2)
            else (Code.invalid, [], (cur s).2)).2.2 ∧
          (if ((cur s).1 == 0x22 || (cur s).1 == 0x27) = true then parseQuoted cfg (cur s).1 (f+1) [] 0 (mv (cur s).2)
            else if inUnquoted (cur s).1 = true then
              ((if (parseUnquoted (f+1) [] (cur s).2).1.length > cfg.maxStrLen then Code.noMemory else Code.ok), (parseUnquoted (f+1) [] (cur s).2).1, (parseUnquoted (f+1) [] (cur s).2).2)
            else (Code.invalid, [], (cur s).2)).1 ≠ .empty := by
        split
        · exact ⟨fd_parseQuoted _ _ _ _ (fd_mv hc), ne_parseQuoted _ _ _ _⟩
        · split
          · exact ⟨fd_parseUnquoted _ _ _ hc, by simp only [ne_eq]; split <;> simp⟩
          · exact ⟨hc, by simp⟩
      generalize (if ((cur s).1 == 0x22 || (cur s).1 == 0x27) = true then parseQuoted cfg (cur s).1 (f+1) [] 0 (mv (cur s).2)
            else if inUnquoted (cur s).1 = true then
              ((if (parseUnquoted (f+1) [] (cur s).2).1.length > cfg.maxStrLen then Code.noMemory else Code.ok), (parseUnquoted (f+1) [] (cur s).2).1, (parseUnquoted (f+1) [] (cur s).2).2)
            else (Code.invalid, [], (cur s).2)) = kr at hkey ⊢
      obtain ⟨kc, key, s1⟩ := kr
      obtain ⟨hkey, nkey⟩ := hkey
      cases kc <;> simp only at hkey nkey ⊢ <;> try (first | exact nkey | simp)
      -- kc = ok
      have h1 := fd_skipSpaces (cfg := cfg) (f+1) _ hkey
      have n1 := ne_skipSpaces (cfg := cfg) (f+1) _ hkey
      split
      · rename_i heq; rw [heq] at h1
        have h2 := fd_cur h1
        split
        · have h3 := fdV limit _ (fd_mv h2)
          have n3 := ihV limit _ (fd_mv h2)
          split
          · rename_i heq3; rw [heq3] at h3
            have h4 := fd_skipSpaces (cfg := cfg) (f+1) _ h3
            have n4 := ne_skipSpaces (cfg := cfg) (f+1) _ h3
            split
            · rename_i heq4; rw [heq4] at h4
              have h5 := fd_cur h4
              split
              · simp
              · split
                · have h6 := fd_skipSpaces (cfg := cfg) (f+1) _ (fd_mv h5)
                  have n6 := ne_skipSpaces (cfg := cfg) (f+1) _ (fd_mv h5)
                  split
                  · rename_i heq6; rw [heq6] at h6; exact ihM _ _ _ h6
                  · rename_i heq6; rw [heq6] at n6; exact n6
                · simp
            · rename_i heq4; rw [heq4] at n4; exact n4
          · rename_i heq3; rw [heq3] at n3; exact n3
        · simp
      · rename_i heq; rw [heq] at n1; exact n1

end JD
