/- Soundness of the JSON deserializer model w.r.t. the dialect specification `Spec.Dialect`:
   whenever a routine returns `Ok`, the bytes it consumed form a phrase of the grammar.

   `Rem s r`: the state `s` stands in front of the remaining text `r` (the latched byte, if it is a real input byte,
   counts as not yet consumed). The relation is used as a ghost: every routine maps `Rem s r` to `Rem s' r'` with
   `r = consumed ++ r'`. -/
import AJ.Spec.Dialect
import AJ.Lemmas.Latch
import AJ.Lemmas.Bits
import AJ.Props.C17
set_option linter.unusedSimpArgs false
set_option linter.unusedVariables false
namespace JD
open Spec.Dialect

inductive Rem (s : St) : List Byte → Prop
  | un : s.l.loaded = false → Rem s s.l.unread
  | ld : s.l.loaded = true → Rem s (s.l.cur :: s.l.unread)
  | eof : s.l.loaded = true → s.l.cur = 0 → s.l.unread = [] → Rem s []

theorem Rem.look {s : St} {r : List Byte} (h : Rem s r) :
    Rem (cur s).2 r ∧ (cur s).2.l.loaded = true ∧ (cur s).1 = r.headD 0 ∧ (cur s).2.l.cur = r.headD 0 ∧
      (cur s).2.found = s.found := by
  cases h with
  | un h1 =>
    cases h2 : s.l.unread with
    | nil => rw [cur_nil h1 h2]; exact ⟨Rem.eof rfl rfl h2, rfl, rfl, rfl, rfl⟩
    | cons c cs => rw [cur_cons h1 h2]; exact ⟨Rem.ld rfl, rfl, rfl, rfl, rfl⟩
  | ld h1 => rw [cur_loaded h1]; exact ⟨.ld h1, h1, rfl, rfl, rfl⟩
  | eof h1 h2 h3 => rw [cur_loaded h1]; exact ⟨.eof h1 h2 h3, h1, h2, h2, rfl⟩

theorem Rem.move {s : St} {c : Byte} {rest : List Byte} (h : Rem s (c :: rest)) (hl : s.l.loaded = true) :
    Rem (mv s) rest := by
  generalize hr : c :: rest = r at h
  cases h with
  | un h1 => rw [h1] at hl; cases hl
  | ld h1 =>
    have := (List.cons.inj hr).2
    rw [this]
    exact Rem.un rfl
  | eof _ _ _ => cases hr

theorem Rem.setFound {s : St} {r : List Byte} {b : Bool} (h : Rem s r) : Rem { s with found := b } r := by
  cases h with
  | un h1 => exact Rem.un h1
  | ld h1 => exact Rem.ld h1
  | eof h1 h2 h3 => exact Rem.eof h1 h2 h3

/-- `current()` saw a byte that is not the end marker: it is the head of the remaining text; after `move()` the
    tail remains -/
theorem Rem.step {s : St} {r : List Byte} (h : Rem s r) (hc : (cur s).1 ≠ 0) :
    r = (cur s).1 :: r.tail ∧ Rem (mv (cur s).2) r.tail := by
  obtain ⟨h1, h2, h3, _, _⟩ := h.look
  cases r with
  | nil => exact absurd h3 hc
  | cons d rest =>
    have : (cur s).1 = d := h3
    exact ⟨by rw [this]; rfl, Rem.move h1 h2⟩

theorem Rem.loaded_cur {s : St} {r : List Byte} (h : Rem s r) (hl : s.l.loaded = true) : s.l.cur = r.headD 0 := by
  cases h with
  | un h1 => rw [h1] at hl; cases hl
  | ld _ => rfl
  | eof _ h2 _ => exact h2

theorem beq_false_ne {a b : Byte} (h : (a == b) = false) : a ≠ b := by simpa using h
theorem not_beq_ne {a b : Byte} (h : ¬ (a == b) = true) : a ≠ b := by simpa using h

/-! ## comments and white space -/

theorem skipBlock_sound : ∀ (fuel : Nat) (star : Bool) (s : St) (r : List Byte) (s' : St), Rem s r →
    skipBlock fuel star s = (.ok, s') → ∃ b r', r = b ++ r' ∧ Block star b ∧ Rem s' r' := by
  intro fuel
  induction fuel with
  | zero => intro star s r s' _ h; simp [skipBlock] at h
  | succ n ih =>
    intro star s r s' hr h
    simp only [skipBlock] at h
    split at h
    · cases h
    · rename_i h0
      obtain ⟨e1, e2⟩ := hr.step (not_beq_ne h0)
      split at h
      · rename_i h1
        simp only [Bool.and_eq_true, beq_iff_eq] at h1
        have hs : s' = mv (cur s).2 := by injection h with _ h; exact h.symm
        subst hs
        refine ⟨[0x2F], r.tail, ?_, ?_, e2⟩
        · rw [← h1.1]; exact e1
        · rw [h1.2]; exact Block.close
      · rename_i h1
        obtain ⟨b, r', hb1, hb2, hb3⟩ := ih _ _ _ _ e2 h
        refine ⟨(cur s).1 :: b, r', ?_, ?_, hb3⟩
        · rw [List.cons_append, ← hb1]; exact e1
        · refine Block.step _ _ _ (not_beq_ne h0) ?_ hb2
          intro hc
          apply h1
          simp [hc.1, hc.2]

theorem skipLine_sound : ∀ (fuel : Nat) (s : St) (c : Byte) (rest : List Byte) (s' : St), Rem s (c :: rest) →
    s.l.loaded = true → skipLine fuel s = (.ok, s') →
    ∃ x r', rest = x ++ 0x0A :: r' ∧ (∀ c ∈ x, c ≠ 0 ∧ c ≠ 0x0A) ∧ Rem s' (0x0A :: r') ∧ s'.l.loaded = true := by
  intro fuel
  induction fuel with
  | zero => intro s c rest s' _ _ h; simp [skipLine] at h
  | succ n ih =>
    intro s c rest s' hr hl h
    simp only [skipLine] at h
    have hm := hr.move hl
    obtain ⟨c1, c2, c3, _, _⟩ := hm.look
    split at h
    · cases h
    · rename_i h0
      have h0' := not_beq_ne h0
      have hrest : rest = (cur (mv s)).1 :: rest.tail := by
        cases rest with
        | nil => exact absurd c3 h0'
        | cons d t => have : (cur (mv s)).1 = d := c3; rw [this]; rfl
      split at h
      · rename_i h1
        have hs : s' = (cur (mv s)).2 := by injection h with _ h; exact h.symm
        subst hs
        have h1' : (cur (mv s)).1 = 0x0A := by simpa using h1
        refine ⟨[], rest.tail, ?_, (fun c hc => by cases hc), ?_, c2⟩
        · rw [← h1']; exact hrest
        · rw [← h1', ← hrest]; exact c1
      · rename_i h1
        rw [hrest] at c1
        obtain ⟨x, r', hx1, hx2, hx3, hx4⟩ := ih _ _ _ _ c1 c2 h
        refine ⟨(cur (mv s)).1 :: x, r', ?_, ?_, hx3, hx4⟩
        · rw [List.cons_append, ← hx1]; exact hrest
        · intro d hd
          rcases List.mem_cons.mp hd with rfl | hd
          · exact ⟨h0', not_beq_ne h1⟩
          · exact hx2 d hd

theorem isWs_byte {c : Byte} (h : isWs c = true) : IsWsByte c := by
  simp only [isWs, Bool.or_eq_true, beq_iff_eq] at h
  unfold IsWsByte
  rcases h with ((h | h) | h) | h
  · exact Or.inl h
  · exact Or.inr (Or.inl h)
  · exact Or.inr (Or.inr (Or.inr h))
  · exact Or.inr (Or.inr (Or.inl h))

theorem dws_lf_inv {cfg : Cfg} {w r1 r' : List Byte} (hw : DWs cfg w) (h : 0x0A :: r1 = w ++ r')
    (hn : isWs (r'.headD 0) = false) : ∃ w0, w = 0x0A :: w0 ∧ DWs cfg w0 ∧ r1 = w0 ++ r' := by
  cases hw with
  | nil =>
    simp only [List.nil_append] at h
    rw [← h] at hn
    have : isWs (0x0A : Byte) = true := by decide
    simp only [List.headD_cons, this] at hn; cases hn
  | ws c w0 hc hw0 =>
    simp only [List.cons_append, List.cons.injEq] at h
    exact ⟨w0, by rw [h.1], hw0, h.2⟩
  | block b w0 _ _ _ => simp at h
  | line x w0 _ _ _ => simp at h

/-- after `skipSpaces` returned `Ok` the state is latched on a token byte -/
theorem skipSpaces_sound (cfg : Cfg) : ∀ (fuel : Nat) (s : St) (r : List Byte) (s' : St), Rem s r →
    skipSpaces cfg fuel s = (.ok, s') →
    ∃ w r', r = w ++ r' ∧ DWs cfg w ∧ Rem s' r' ∧ s'.l.loaded = true ∧ s'.found = true ∧ r'.headD 0 ≠ 0 ∧
      isWs (r'.headD 0) = false := by
  intro fuel
  induction fuel with
  | zero => intro s r s' _ h; simp [skipSpaces] at h
  | succ n ih =>
    intro s r s' hr h
    simp only [skipSpaces] at h
    obtain ⟨c1, c2, c3, c4, c5⟩ := hr.look
    split at h
    · split at h <;> cases h
    · rename_i h0
      have h0' := not_beq_ne h0
      obtain ⟨e1, e2⟩ := hr.step h0'
      split at h
      · rename_i hw
        obtain ⟨w, r', hw1, hw2, hw3⟩ := ih _ _ _ e2 h
        refine ⟨(cur s).1 :: w, r', ?_, DWs.ws _ _ (isWs_byte hw) hw2, hw3⟩
        rw [List.cons_append, ← hw1]; exact e1
      · rename_i hw
        split at h
        · rename_i hcm
          simp only [Bool.and_eq_true, beq_iff_eq] at hcm
          obtain ⟨d1, d2, d3, _, _⟩ := e2.look
          split at h
          · rename_i hd
            have hd' : (cur (mv (cur s).2)).1 = 0x2A := by simpa using hd
            obtain ⟨f1, f2⟩ := e2.step (by rw [hd']; decide)
            split at h
            · rename_i s1 heq
              obtain ⟨b, r1, hb1, hb2, hb3⟩ := skipBlock_sound _ _ _ _ _ f2 heq
              obtain ⟨w, r', hw1, hw2, hw3⟩ := ih _ _ _ hb3 h
              refine ⟨0x2F :: 0x2A :: b ++ w, r', ?_, DWs.block _ _ hcm.1 hb2 hw2, hw3⟩
              rw [e1, f1, hb1, hw1, hcm.2, hd']; simp
            · rename_i hne
              exact absurd h (by intro hh; exact hne _ hh)
          · rename_i hd
            split at h
            · rename_i hd2
              have hd' : (cur (mv (cur s).2)).1 = 0x2F := by simpa using hd2
              have f1 : r.tail = 0x2F :: r.tail.tail := by
                have := (e2.step (by rw [hd']; decide)).1
                rw [hd'] at this; exact this
              rw [f1] at d1
              split at h
              · rename_i s1 heq
                obtain ⟨x, r1, hx1, hx2, hx3, hx4⟩ := skipLine_sound _ _ _ _ _ d1 d2 heq
                obtain ⟨w, r', hw1, hw2, hw3⟩ := ih _ _ _ hx3 h
                obtain ⟨w0, rfl, hw0, hr1⟩ := dws_lf_inv hw2 hw1 hw3.2.2.2.2
                refine ⟨0x2F :: 0x2F :: x ++ 0x0A :: w0, r', ?_, DWs.line _ _ hcm.1 hx2 hw0, hw3⟩
                rw [e1, f1, hx1, hr1, hcm.2]; simp
              · rename_i hne
                exact absurd h (by intro hh; exact hne _ hh)
            · cases h
        · rename_i hcm
          have hs : s' = { (cur s).2 with found := true } := by injection h with _ h; exact h.symm
          subst hs
          refine ⟨[], r, rfl, DWs.nil, c1.setFound, c2, rfl, ?_, ?_⟩
          · rw [← c3]; exact h0'
          · rw [← c3]; simpa using hw

/-! ## keywords -/

theorem skipKeyword_sound : ∀ (ks : List Byte) (s : St) (r : List Byte) (s' : St), Rem s r →
    skipKeyword ks s = (.ok, s') → ∃ r', r = ks ++ r' ∧ Rem s' r' := by
  intro ks
  induction ks with
  | nil =>
    intro s r s' hr h
    simp only [skipKeyword] at h
    have : s' = s := by injection h with _ h; exact h.symm
    subst this
    exact ⟨r, rfl, hr⟩
  | cons k ks ih =>
    intro s r s' hr h
    simp only [skipKeyword] at h
    split at h
    · cases h
    · rename_i h0
      obtain ⟨e1, e2⟩ := hr.step (not_beq_ne h0)
      split at h
      · cases h
      · rename_i hk
        have hk' : (cur s).1 = k := by simpa using hk
        obtain ⟨r', h1, h2⟩ := ih _ _ _ e2 h
        refine ⟨r', ?_, h2⟩
        rw [List.cons_append, ← h1, ← hk']; exact e1

/-! ## strings -/

theorem hexVal_of_decodeHex {c : Byte} (h : ¬ decodeHex c > 0x0F) : Spec.hexVal c = some (decodeHex c) := by
  have key : ∀ c : UInt8, (decide (decodeHex c > 0x0F) || (Spec.hexVal c == some (decodeHex c))) = true := by
    apply Bits.all_bytes; decide +kernel
  have := key c
  simp only [Bool.or_eq_true, decide_eq_true_eq, beq_iff_eq] at this
  rcases this with h1 | h1
  · exact absurd h1 h
  · exact h1

theorem parseHex4_sound : ∀ (n acc : Nat) (s : St) (r : List Byte) (v : Nat) (s' : St), Rem s r →
    parseHex4 n acc s = (.ok, v, s') →
    ∃ ds r', r = ds ++ r' ∧ ds.length = n ∧ Rem s' r' ∧ (∀ c ∈ ds, Spec.hexVal c = some (decodeHex c)) ∧
      v = ds.foldl (fun a c => (a * 16 + decodeHex c) % 65536) acc := by
  intro n
  induction n with
  | zero =>
    intro acc s r v s' hr h
    simp only [parseHex4] at h
    injection h with _ h
    injection h with h1 h2
    subst h1; subst h2
    exact ⟨[], r, rfl, rfl, hr, (fun c hc => by cases hc), rfl⟩
  | succ n ih =>
    intro acc s r v s' hr h
    simp only [parseHex4] at h
    split at h
    · cases h
    · rename_i h0
      obtain ⟨e1, e2⟩ := hr.step (not_beq_ne h0)
      split at h
      · cases h
      · rename_i hv
        obtain ⟨ds, r', h1, h2, h3, h4, h5⟩ := ih _ _ _ _ _ e2 h
        refine ⟨(cur s).1 :: ds, r', ?_, by simp [h2], h3, ?_, ?_⟩
        · rw [List.cons_append, ← h1]; exact e1
        · intro c hc
          rcases List.mem_cons.mp hc with rfl | hc
          · exact hexVal_of_decodeHex hv
          · exact h4 c hc
        · rw [h5]; rfl

theorem hexVal_le15 {c : Byte} {v : Nat} (h : Spec.hexVal c = some v) : v ≤ 15 := hexVal_le c v h

/-- four digits: the code unit -/
theorem parseHex4_four_sound {s : St} {r : List Byte} {v : Nat} {s' : St} (hr : Rem s r)
    (h : parseHex4 4 0 s = (.ok, v, s')) :
    ∃ a b c d r', r = a :: b :: c :: d :: r' ∧ hex4 a b c d = some v ∧ Rem s' r' ∧ v < 65536 := by
  obtain ⟨ds, r', h1, h2, h3, h4, h5⟩ := parseHex4_sound _ _ _ _ _ _ hr h
  match ds, h2 with
  | [a, b, c, d], _ =>
    have ha := h4 a (by simp)
    have hb := h4 b (by simp)
    have hc := h4 c (by simp)
    have hd := h4 d (by simp)
    have la := hexVal_le15 ha
    have lb := hexVal_le15 hb
    have lc := hexVal_le15 hc
    have ld := hexVal_le15 hd
    have hv : v = decodeHex a * 4096 + decodeHex b * 256 + decodeHex c * 16 + decodeHex d := by
      rw [h5]; simp only [List.foldl_cons, List.foldl_nil]; omega
    refine ⟨a, b, c, d, r', by simpa using h1, ?_, h3, by omega⟩
    simp only [hex4, ha, hb, hc, hd, hv]

theorem escapes_unescape (l : Byte) : (escapes.lookup l).getD 0 = unescapeChar l := by
  have key : ∀ l : UInt8, ((escapes.lookup l).getD 0 == unescapeChar l) = true := by
    apply Bits.all_bytes; decide +kernel
  simpa using key l

theorem escapes_lookup {l : Byte} (h : unescapeChar l ≠ 0) : escapes.lookup l = some (unescapeChar l) := by
  have := escapes_unescape l
  cases hl : escapes.lookup l with
  | none => rw [hl] at this; exact absurd this.symm h
  | some x => rw [hl] at this; simp at this; rw [this]

/-! ### equations of `decodeBody` -/

theorem decodeBody_plain {cfg : Cfg} {stop c : Byte} {hi : Nat} {t : List Byte} (h1 : c ≠ stop) (h2 : c ≠ 0)
    (h3 : c ≠ 0x5C) : decodeBody cfg stop hi (c :: t) = (decodeBody cfg stop hi t).map (c :: ·) := by
  rw [decodeBody.eq_def]
  simp only [h1, h2, h3, or_self, ↓reduceIte, ne_eq, not_false_eq_true]

theorem decodeBody_esc {cfg : Cfg} {stop l : Byte} {hi : Nat} {t : List Byte} (h1 : stop ≠ 0x5C) (h2 : l ≠ 0x75) :
    decodeBody cfg stop hi (0x5C :: l :: t) =
      (match escapes.lookup l with
       | none => none
       | some x => (decodeBody cfg stop hi t).map (x :: ·)) := by
  have e1 : ¬ ((0x5C : Byte) = stop ∨ (0x5C : Byte) = 0) := by
    intro h; rcases h with h | h
    · exact h1 h.symm
    · exact absurd h (by decide)
  rw [decodeBody.eq_def]
  simp only [e1, h2, ↓reduceIte, ne_eq, not_true_eq_false]
  cases List.lookup l escapes <;> rfl

theorem decodeBody_u_off {cfg : Cfg} {stop : Byte} {hi : Nat} {t : List Byte} (h1 : stop ≠ 0x5C)
    (hu : cfg.decodeUnicode = false) :
    decodeBody cfg stop hi (0x5C :: 0x75 :: t) = (decodeBody cfg stop hi t).map (fun r => 0x5C :: 0x75 :: r) := by
  have e1 : ¬ ((0x5C : Byte) = stop ∨ (0x5C : Byte) = 0) := by
    intro h; rcases h with h | h
    · exact h1 h.symm
    · exact absurd h (by decide)
  rw [decodeBody.eq_def]
  simp only [e1, hu, ↓reduceIte, ne_eq, not_true_eq_false, Bool.false_eq_true]

theorem decodeBody_u_on {cfg : Cfg} {stop a b c d : Byte} {hi : Nat} {t : List Byte} (h1 : stop ≠ 0x5C)
    (hu : cfg.decodeUnicode = true) :
    decodeBody cfg stop hi (0x5C :: 0x75 :: a :: b :: c :: d :: t) =
      (match hex4 a b c d with
       | none => none
       | some cu =>
         if 0xD800 ≤ cu ∧ cu < 0xDC00 then decodeBody cfg stop (cu % 1024) t
         else if 0xDC00 ≤ cu ∧ cu < 0xE000 then
           (decodeBody cfg stop hi t).map (Spec.utf8 (0x10000 + (hi * 1024 + cu % 1024)) ++ ·)
         else (decodeBody cfg stop hi t).map (Spec.utf8 cu ++ ·)) := by
  have e1 : ¬ ((0x5C : Byte) = stop ∨ (0x5C : Byte) = 0) := by
    intro h; rcases h with h | h
    · exact h1 h.symm
    · exact absurd h (by decide)
  rw [decodeBody.eq_def]
  simp only [e1, hu, ↓reduceIte, ne_eq, not_true_eq_false]
  cases hex4 a b c d <;> rfl

theorem isQuote_facts {q : Byte} (h : IsQuote q) : q ≠ 0 ∧ q ≠ 0x5C ∧ q ≠ 0x75 := by
  rcases h with rfl | rfl <;> decide

/-- `parseQuoted` returned `Ok`: it consumed a well-formed body and the closing quote, and produced the bytes the
    body denotes -/
theorem parseQuoted_sound {cfg : Cfg} {stop : Byte} (hq : IsQuote stop) :
    ∀ (fuel : Nat) (acc : List Byte) (hi : Nat) (s : St) (r : List Byte) (out : List Byte) (s' : St),
      hi < 1024 → Rem s r → parseQuoted cfg stop fuel acc hi s = (.ok, out, s') →
      ∃ body x r', r = body ++ stop :: r' ∧ decodeBody cfg stop hi body = some x ∧ out = acc.reverse ++ x ∧
        out.length ≤ cfg.maxStrLen ∧ Rem s' r' := by
  obtain ⟨q0, q1, q2⟩ := isQuote_facts hq
  intro fuel
  induction fuel with
  | zero => intro acc hi s r out s' _ _ h; simp [parseQuoted] at h
  | succ n ih =>
    intro acc hi s r out s' hhi hr h
    simp only [parseQuoted] at h
    split at h
    · rename_i hs
      have hs' : (cur s).1 = stop := by simpa using hs
      obtain ⟨e1, e2⟩ := hr.step (by rw [hs']; exact q0)
      split at h
      · cases h
      · rename_i hl
        injection h with _ h; injection h with h1 h2
        subst h1; subst h2
        refine ⟨[], [], r.tail, ?_, rfl, by simp, by simpa using hl, e2⟩
        rw [← hs']; exact e1
    · rename_i hs
      have hs' := not_beq_ne hs
      split at h
      · cases h
      · rename_i h0
        have h0' := not_beq_ne h0
        obtain ⟨e1, e2⟩ := hr.step h0'
        split at h
        · rename_i hb
          have hb' : (cur s).1 = 0x5C := by simpa using hb
          split at h
          · cases h
          · rename_i hd0
            have hd0' := not_beq_ne hd0
            obtain ⟨f1, f2⟩ := e2.step hd0'
            split at h
            · rename_i hdu
              have hdu' : (cur (mv (cur s).2)).1 = 0x75 := by simpa using hdu
              split at h
              · rename_i hcfg
                split at h
                · rename_i cu s1 heq
                  obtain ⟨a, b, c, d, r4, g1, g2, g3, g4⟩ := parseHex4_four_sound f2 heq
                  have hrr : r = 0x5C :: 0x75 :: a :: b :: c :: d :: r4 := by
                    rw [e1, f1, g1, hb', hdu']
                  split at h
                  · rename_i hhs
                    simp only [Bool.and_eq_true, decide_eq_true_eq] at hhs
                    obtain ⟨body, x, r', i1, i2, i3, i4, i5⟩ := ih _ _ _ _ _ _ (Nat.mod_lt _ (by decide)) g3 h
                    refine ⟨0x5C :: 0x75 :: a :: b :: c :: d :: body, x, r', ?_, ?_, i3, i4, i5⟩
                    · rw [hrr, i1]; simp
                    · rw [decodeBody_u_on q1 hcfg, g2]
                      simp only [hhs, and_self, ↓reduceIte, i2]
                  · rename_i hhs
                    simp only [Bool.and_eq_true, decide_eq_true_eq] at hhs
                    split at h
                    · rename_i hls
                      simp only [Bool.and_eq_true, decide_eq_true_eq] at hls
                      obtain ⟨body, x, r', i1, i2, i3, i4, i5⟩ := ih _ _ _ _ _ _ hhi g3 h
                      refine ⟨0x5C :: 0x75 :: a :: b :: c :: d :: body,
                        Spec.utf8 (0x10000 + (hi * 1024 + cu % 1024)) ++ x, r', ?_, ?_, ?_, i4, i5⟩
                      · rw [hrr, i1]; simp
                      · rw [decodeBody_u_on q1 hcfg, g2]
                        simp only [hhs, hls, and_self, ↓reduceIte, i2, Option.map_some]
                      · rw [i3, C17.encodeCodepoint_eq_utf8 _ (by omega)]; simp
                    · rename_i hls
                      simp only [Bool.and_eq_true, decide_eq_true_eq] at hls
                      obtain ⟨body, x, r', i1, i2, i3, i4, i5⟩ := ih _ _ _ _ _ _ hhi g3 h
                      refine ⟨0x5C :: 0x75 :: a :: b :: c :: d :: body, Spec.utf8 cu ++ x, r', ?_, ?_, ?_, i4, i5⟩
                      · rw [hrr, i1]; simp
                      · rw [decodeBody_u_on q1 hcfg, g2]
                        simp only [hhs, hls, and_self, ↓reduceIte, i2, Option.map_some]
                      · rw [i3, C17.encodeCodepoint_eq_utf8 _ (by omega)]; simp
                · rename_i hne _
                  injection h with h1 _
                  exact (hne h1).elim
              · rename_i hcfg
                have hcfg' : cfg.decodeUnicode = false := by simpa using hcfg
                obtain ⟨k1, _, _, _, _⟩ := e2.look
                obtain ⟨body, x, r', i1, i2, i3, i4, i5⟩ := ih _ _ _ _ _ _ hhi k1 h
                -- the `u` is read again as an ordinary byte
                rw [f1, hdu'] at i1
                cases body with
                | nil =>
                  simp only [List.nil_append, List.cons.injEq] at i1
                  exact absurd i1.1.symm q2
                | cons u body' =>
                  simp only [List.cons_append, List.cons.injEq] at i1
                  obtain ⟨hu, i1⟩ := i1
                  subst hu
                  rw [decodeBody_plain (Ne.symm q2) (by decide) (by decide)] at i2
                  cases hdb : decodeBody cfg stop hi body' with
                  | none => rw [hdb] at i2; cases i2
                  | some y =>
                    rw [hdb] at i2
                    simp only [Option.map_some, Option.some.injEq] at i2
                    refine ⟨0x5C :: 0x75 :: body', 0x5C :: 0x75 :: y, r', ?_, ?_, ?_, i4, i5⟩
                    · exact e1.trans (by rw [hb', f1, hdu', i1]; simp)
                    · rw [decodeBody_u_off q1 hcfg', hdb]; rfl
                    · rw [i3, ← i2]; simp
            · rename_i hdu
              have hdu' := not_beq_ne hdu
              split at h
              · cases h
              · rename_i hun
                have hun' := not_beq_ne hun
                obtain ⟨body, x, r', i1, i2, i3, i4, i5⟩ := ih _ _ _ _ _ _ hhi f2 h
                refine ⟨0x5C :: (cur (mv (cur s).2)).1 :: body, unescapeChar (cur (mv (cur s).2)).1 :: x, r',
                  ?_, ?_, ?_, i4, i5⟩
                · rw [List.cons_append, List.cons_append, ← i1, ← f1, ← hb']; exact e1
                · rw [decodeBody_esc q1 hdu', escapes_lookup hun', i2]; rfl
                · rw [i3]; simp
        · rename_i hb
          have hb' := not_beq_ne hb
          obtain ⟨body, x, r', i1, i2, i3, i4, i5⟩ := ih _ _ _ _ _ _ hhi e2 h
          refine ⟨(cur s).1 :: body, (cur s).1 :: x, r', ?_, ?_, ?_, i4, i5⟩
          · rw [List.cons_append, ← i1]; exact e1
          · rw [decodeBody_plain hs' h0' hb', i2]; rfl
          · rw [i3]; simp

/-! ## unquoted keys -/

theorem inUnquoted_zero : inUnquoted 0 = false := by decide

theorem parseUnquoted_sound : ∀ (fuel : Nat) (acc : List Byte) (s : St) (r : List Byte) (k : List Byte) (s' : St),
    Rem s r → parseUnquoted fuel acc s = (k, s') →
    ∃ x r', r = x ++ r' ∧ k = acc.reverse ++ x ∧ (∀ c ∈ x, inUnquoted c = true) ∧ Rem s' r' := by
  intro fuel
  induction fuel with
  | zero =>
    intro acc s r k s' hr h
    simp only [parseUnquoted] at h
    injection h with h1 h2
    subst h1; subst h2
    exact ⟨[], r, rfl, by simp, (fun c hc => by cases hc), hr⟩
  | succ n ih =>
    intro acc s r k s' hr h
    simp only [parseUnquoted] at h
    split at h
    · rename_i hu
      have h0 : (cur s).1 ≠ 0 := by
        intro h0; rw [h0, inUnquoted_zero] at hu; cases hu
      obtain ⟨e1, e2⟩ := hr.step h0
      obtain ⟨x, r', h1, h2, h3, h4⟩ := ih _ _ _ _ _ e2 h
      refine ⟨(cur s).1 :: x, r', ?_, ?_, ?_, h4⟩
      · rw [List.cons_append, ← h1]; exact e1
      · rw [h2]; simp
      · intro c hc
        rcases List.mem_cons.mp hc with rfl | hc
        · exact hu
        · exact h3 c hc
    · injection h with h1 h2
      subst h1; subst h2
      exact ⟨[], r, rfl, by simp, (fun c hc => by cases hc), hr.look.1⟩

/-! ## numbers -/

theorem inNumber_zero' (cfg : Cfg) : inNumber cfg 0 = false := by
  unfold inNumber
  generalize (cfg.nan || cfg.inf) = b
  cases b <;> decide

theorem scanNumber_sound (cfg : Cfg) : ∀ (n : Nat) (acc : List Byte) (s : St) (r : List Byte) (buf : List Byte) (s' : St),
    Rem s r → scanNumber cfg n acc s = (buf, s') →
    ∃ x r', r = x ++ r' ∧ buf = acc.reverse ++ x ∧ x.length ≤ n ∧ (∀ c ∈ x, inNumber cfg c = true) ∧ Rem s' r' ∧
      s'.l.loaded = true := by
  intro n
  induction n with
  | zero =>
    intro acc s r buf s' hr h
    simp only [scanNumber] at h
    injection h with h1 h2
    subst h1; subst h2
    exact ⟨[], r, rfl, by simp, by simp, (fun c hc => by cases hc), hr.look.1, hr.look.2.1⟩
  | succ n ih =>
    intro acc s r buf s' hr h
    simp only [scanNumber] at h
    split at h
    · rename_i hu
      have h0 : (cur s).1 ≠ 0 := by
        intro h0; rw [h0, inNumber_zero'] at hu; cases hu
      obtain ⟨e1, e2⟩ := hr.step h0
      obtain ⟨x, r', h1, h2, h3, h4, h5⟩ := ih _ _ _ _ _ e2 h
      refine ⟨(cur s).1 :: x, r', ?_, ?_, ?_, ?_, h5⟩
      · rw [List.cons_append, ← h1]; exact e1
      · rw [h2]; simp
      · simp; omega
      · intro c hc
        rcases List.mem_cons.mp hc with rfl | hc
        · exact hu
        · exact h4 c hc
    · injection h with h1 h2
      subst h1; subst h2
      exact ⟨[], r, rfl, by simp, by simp, (fun c hc => by cases hc), hr.look.1, hr.look.2.1⟩

theorem parseNumeric_sound (cfg : Cfg) {s : St} {r : List Byte} {v : Val} {s' : St} (hr : Rem s r)
    (h : parseNumeric cfg s = (.ok, v, s')) :
    ∃ lit r', r = lit ++ r' ∧ lit.length ≤ 63 ∧ (∀ c ∈ lit, inNumber cfg c = true) ∧ numDen cfg lit = some v ∧
      Rem s' r' ∧ s'.l.loaded = true ∧ isNumberVal v = true := by
  have e : Gen.number_buffer - 1 = 63 := rfl
  simp only [parseNumeric, e] at h
  generalize hq : scanNumber cfg 63 [] s = q at h
  obtain ⟨buf, X⟩ := q
  obtain ⟨x, r', h1, h2, h3, h4, h5, h6⟩ := scanNumber_sound cfg _ _ _ _ _ _ hr hq
  simp only [List.reverse_nil, List.nil_append] at h2
  subst h2
  simp only at h
  cases hp : parseNumber cfg buf with
  | invalid => rw [hp] at h; cases h
  | fault => rw [hp] at h; cases h
  | uint n =>
    rw [hp] at h
    injection h with _ h; injection h with hv hs; subst hv; subst hs
    exact ⟨buf, r', h1, h3, h4, by simp only [numDen, hp], h5, h6, rfl⟩
  | sint n =>
    rw [hp] at h
    injection h with _ h; injection h with hv hs; subst hv; subst hs
    exact ⟨buf, r', h1, h3, h4, by simp only [numDen, hp], h5, h6, rfl⟩
  | f32 b =>
    rw [hp] at h
    injection h with _ h; injection h with hv hs; subst hv; subst hs
    exact ⟨buf, r', h1, h3, h4, by simp only [numDen, hp], h5, h6, rfl⟩
  | f64 b =>
    rw [hp] at h
    injection h with _ h; injection h with hv hs; subst hv; subst hs
    exact ⟨buf, r', h1, h3, h4, by simp only [numDen, hp], h5, h6, rfl⟩

end JD
