/- Soundness of `parseVariant` / `parseElems` / `parseMembers` w.r.t. `Spec.Dialect` (induction on the fuel). -/
import AJ.Lemmas.DialectSound
import AJ.Lemmas.JsonComplete
set_option linter.unusedSimpArgs false
set_option linter.unusedVariables false
namespace JD
open Spec.Dialect

theorem Rem.step' {s : St} {r : List Byte} (h : Rem s r) (hc : (cur s).1 ≠ 0) :
    ∃ t, r = (cur s).1 :: t ∧ Rem (mv (cur s).2) t := ⟨r.tail, h.step hc⟩

/-! ## grammar facts -/

theorem _root_.Spec.Dialect.DWs.append {cfg : Cfg} {w1 w2 : List Byte} (h1 : DWs cfg w1) (h2 : DWs cfg w2) : DWs cfg (w1 ++ w2) := by
  induction h1 with
  | nil => exact h2
  | ws c w hc _ ih => exact DWs.ws c _ hc ih
  | block b w hc hb _ ih =>
    have : 0x2F :: 0x2A :: b ++ w ++ w2 = 0x2F :: 0x2A :: b ++ (w ++ w2) := by simp
    rw [this]; exact DWs.block b _ hc hb ih
  | line x w hc hx _ ih =>
    have : 0x2F :: 0x2F :: x ++ 0x0A :: w ++ w2 = 0x2F :: 0x2F :: x ++ 0x0A :: (w ++ w2) := by simp
    rw [this]; exact DWs.line x _ hc hx ih

theorem _root_.Spec.Dialect.Elements.prepend {cfg : Cfg} {L : Nat} {w body : List Byte} {xs : List Val} (hw : DWs cfg w)
    (h : Elements cfg L body xs) : Elements cfg L (w ++ body) xs := by
  cases h with
  | one _ w1 t v w2 h1 h2 h3 =>
    have : w ++ (w1 ++ t ++ w2) = (w ++ w1) ++ t ++ w2 := by simp
    rw [this]; exact Elements.one _ _ _ _ _ (hw.append h1) h2 h3
  | cons _ w1 t v w2 rest vs h1 h2 h3 h4 =>
    have : w ++ (w1 ++ t ++ w2 ++ 0x2C :: rest) = (w ++ w1) ++ t ++ w2 ++ 0x2C :: rest := by simp
    rw [this]; exact Elements.cons _ _ _ _ _ _ _ (hw.append h1) h2 h3 h4

theorem _root_.Spec.Dialect.Members.prepend {cfg : Cfg} {L : Nat} {w body : List Byte} {ms : List (List Byte × Val)} (hw : DWs cfg w)
    (h : Members cfg L body ms) : Members cfg L (w ++ body) ms := by
  cases h with
  | one _ w1 kt k w2 w3 t v w4 h1 hk h2 h3 hv h4 =>
    have : w ++ (w1 ++ kt ++ w2 ++ 0x3A :: w3 ++ t ++ w4) = (w ++ w1) ++ kt ++ w2 ++ 0x3A :: w3 ++ t ++ w4 := by simp
    rw [this]; exact Members.one _ _ _ _ _ _ _ _ _ (hw.append h1) hk h2 h3 hv h4
  | cons _ w1 kt k w2 w3 t v w4 rest ms h1 hk h2 h3 hv h4 hr =>
    have : w ++ (w1 ++ kt ++ w2 ++ 0x3A :: w3 ++ t ++ w4 ++ 0x2C :: rest) =
        (w ++ w1) ++ kt ++ w2 ++ 0x3A :: w3 ++ t ++ w4 ++ 0x2C :: rest := by simp
    rw [this]; exact Members.cons _ _ _ _ _ _ _ _ _ _ _ (hw.append h1) hk h2 h3 hv h4 hr

/-! ## the three statements -/

def foldM (acc : List (List Byte × Val)) (ms : List (List Byte × Val)) : List (List Byte × Val) :=
  ms.foldl (fun a kv => setMember a kv.1 kv.2) acc

def PVs (cfg : Cfg) (fuel : Nat) : Prop :=
  ∀ (limit : Nat) (s : St) (r : List Byte) (v : Val) (s' : St), Rem s r → parseVariant cfg fuel limit s = (.ok, v, s') →
    ∃ w t r', r = w ++ t ++ r' ∧ DWs cfg w ∧ Value cfg limit t v ∧ Rem s' r' ∧ (isNumberVal v = true → s'.l.loaded = true)

def PEs (cfg : Cfg) (fuel : Nat) : Prop :=
  ∀ (limit : Nat) (s : St) (r : List Byte) (acc : List Val) (v : Val) (s' : St), Rem s r →
    parseElems cfg fuel limit s acc = (.ok, v, s') →
    ∃ body xs r', r = body ++ 0x5D :: r' ∧ Elements cfg limit body xs ∧ v = .arr (acc.reverse ++ xs) ∧ Rem s' r'

def PMs (cfg : Cfg) (fuel : Nat) : Prop :=
  ∀ (limit : Nat) (s : St) (r : List Byte) (acc : List (List Byte × Val)) (v : Val) (s' : St), Rem s r →
    parseMembers cfg fuel limit s acc = (.ok, v, s') →
    ∃ body ms r', r = body ++ 0x7D :: r' ∧ Members cfg limit body ms ∧ v = .obj (foldM acc ms) ∧ Rem s' r'

theorem tuple_ok {α β : Type} {e : Code} {a a' : α} {b b' : β} (h : (e, a, b) = (Code.ok, a', b')) :
    e = .ok ∧ a = a' ∧ b = b' := by
  injection h with h1 h2; injection h2 with h2 h3; exact ⟨h1, h2, h3⟩

set_option maxRecDepth 8000 in
theorem pv_step (cfg : Cfg) (fuel : Nat) (hE : PEs cfg fuel) (hM : PMs cfg fuel) : PVs cfg (fuel + 1) := by
  intro limit s r v s' hr h
  simp only [parseVariant] at h
  split at h
  · rename_i s1 heq
    obtain ⟨w, r1, rfl, hw2, hw3, hw4, _, _, _⟩ := skipSpaces_sound cfg _ _ _ _ hr heq
    obtain ⟨k1, k2, k3, _, _⟩ := hw3.look
    split at h
    · -- array
      rename_i hc
      have hc' : (cur s1).1 = 0x5B := by simpa using hc
      split at h
      · cases h
      · rename_i limit'
        obtain ⟨t1, rfl, e2⟩ := hw3.step' (by rw [hc']; decide)
        split at h
        · rename_i s2 heq2
          obtain ⟨w2, r2, rfl, iw2, iw3, _⟩ := skipSpaces_sound cfg _ _ _ _ e2 heq2
          split at h
          · rename_i hd
            have hd' : (cur s2).1 = 0x5D := by simpa using hd
            obtain ⟨t2, rfl, f2⟩ := iw3.step' (by rw [hd']; decide)
            obtain ⟨_, rfl, rfl⟩ := tuple_ok h
            refine ⟨w, 0x5B :: w2 ++ [0x5D], t2, ?_, hw2, Value.arrEmpty _ _ iw2, f2, by intro hh; cases hh⟩
            rw [hc', hd']; simp
          · obtain ⟨body, xs, r', rfl, g2, rfl, g4⟩ := hE _ _ _ _ _ _ iw3.look.1 h
            refine ⟨w, 0x5B :: (w2 ++ body) ++ [0x5D], r', ?_, hw2, ?_, g4, by intro hh; cases hh⟩
            · rw [hc']; simp
            · simpa using Value.arr _ _ _ (g2.prepend iw2)
        · rename_i hne _
          exact (hne (tuple_ok h).1).elim
    · rename_i hc
      have hc' := not_beq_ne hc
      split at h
      · -- object
        rename_i ho
        have ho' : (cur s1).1 = 0x7B := by simpa using ho
        split at h
        · cases h
        · rename_i limit'
          obtain ⟨t1, rfl, e2⟩ := hw3.step' (by rw [ho']; decide)
          split at h
          · rename_i s2 heq2
            obtain ⟨w2, r2, rfl, iw2, iw3, _⟩ := skipSpaces_sound cfg _ _ _ _ e2 heq2
            split at h
            · rename_i hd
              have hd' : (cur s2).1 = 0x7D := by simpa using hd
              obtain ⟨t2, rfl, f2⟩ := iw3.step' (by rw [hd']; decide)
              obtain ⟨_, rfl, rfl⟩ := tuple_ok h
              refine ⟨w, 0x7B :: w2 ++ [0x7D], t2, ?_, hw2, Value.objEmpty _ _ iw2, f2, by intro hh; cases hh⟩
              rw [ho', hd']; simp
            · obtain ⟨body, ms, r', rfl, g2, rfl, g4⟩ := hM _ _ _ _ _ _ iw3.look.1 h
              refine ⟨w, 0x7B :: (w2 ++ body) ++ [0x7D], r', ?_, hw2, ?_, g4, by intro hh; cases hh⟩
              · rw [ho']; simp
              · have e : foldM [] ms = lastWins ms := rfl
                rw [e]
                simpa using Value.obj _ _ _ (g2.prepend iw2)
          · rename_i hne _
            exact (hne (tuple_ok h).1).elim
      · rename_i ho
        have ho' := not_beq_ne ho
        split at h
        · -- string
          rename_i hq
          have hq' : IsQuote (cur s1).1 := by simpa [IsQuote] using hq
          obtain ⟨t1, rfl, e2⟩ := hw3.step' (isQuote_facts hq').1
          split at h
          · rename_i str s2 heq2
            obtain ⟨body, x, r', rfl, g2, g3, g4, g5⟩ := parseQuoted_sound hq' _ _ _ _ _ _ _ (by decide) e2 heq2
            obtain ⟨_, rfl, rfl⟩ := tuple_ok h
            simp only [List.reverse_nil, List.nil_append] at g3
            subst g3
            refine ⟨w, (cur s1).1 :: body ++ [(cur s1).1], r', by simp, hw2, Value.str _ _ _ _ hq' g2 g4, g5,
              by intro hh; cases hh⟩
          · rename_i hne _
            exact (hne (tuple_ok h).1).elim
        · rename_i hq
          split at h
          · -- true
            rw [kw_true] at h
            obtain ⟨h1, rfl, rfl⟩ := tuple_ok h
            obtain ⟨r', rfl, g2⟩ := skipKeyword_sound _ _ _ _ k1 (Prod.ext h1 rfl)
            exact ⟨w, _, r', by simp, hw2, Value.true _, g2, by intro hh; cases hh⟩
          · split at h
            · rw [kw_false] at h
              obtain ⟨h1, rfl, rfl⟩ := tuple_ok h
              obtain ⟨r', rfl, g2⟩ := skipKeyword_sound _ _ _ _ k1 (Prod.ext h1 rfl)
              exact ⟨w, _, r', by simp, hw2, Value.false _, g2, by intro hh; cases hh⟩
            · split at h
              · rw [kw_null] at h
                obtain ⟨h1, rfl, rfl⟩ := tuple_ok h
                obtain ⟨r', rfl, g2⟩ := skipKeyword_sound _ _ _ _ k1 (Prod.ext h1 rfl)
                exact ⟨w, _, r', by simp, hw2, Value.null _, g2, by intro hh; cases hh⟩
              · rename_i hn
                have hn' := not_beq_ne hn
                obtain ⟨lit, r', rfl, g2, g3, g4, g5, g6, g7⟩ := parseNumeric_sound cfg k1 h
                refine ⟨w, lit, r', by simp, hw2, Value.num _ _ _ ⟨g2, g3, ?_, g4⟩, g5, fun _ => g6⟩
                intro hh
                cases lit with
                | nil => cases hh
                | cons a l =>
                  simp only [List.head?_cons, Option.some.injEq] at hh
                  subst hh
                  exact hn' k3
  · rename_i hne _
    exact (hne (tuple_ok h).1).elim

theorem pe_step (cfg : Cfg) (fuel : Nat) (hV : PVs cfg fuel) (hE : PEs cfg fuel) : PEs cfg (fuel + 1) := by
  intro limit s r acc v s' hr h
  simp only [parseElems] at h
  split at h
  · rename_i v1 s1 heq
    obtain ⟨w, t, r1, rfl, a2, a3, a4, _⟩ := hV _ _ _ _ _ hr heq
    split at h
    · rename_i s2 heq2
      obtain ⟨w2, r2, rfl, b2, b3, _⟩ := skipSpaces_sound cfg _ _ _ _ a4 heq2
      split at h
      · rename_i hc
        have hc' : (cur s2).1 = 0x5D := by simpa using hc
        obtain ⟨t2, rfl, f2⟩ := b3.step' (by rw [hc']; decide)
        obtain ⟨_, rfl, rfl⟩ := tuple_ok h
        refine ⟨w ++ t ++ w2, [v1], t2, ?_, Elements.one _ _ _ _ _ a2 a3 b2, by simp, f2⟩
        rw [hc']; simp
      · split at h
        · rename_i hc
          have hc' : (cur s2).1 = 0x2C := by simpa using hc
          obtain ⟨t2, rfl, f2⟩ := b3.step' (by rw [hc']; decide)
          obtain ⟨body, xs, r', rfl, g2, rfl, g4⟩ := hE _ _ _ _ _ _ f2 h
          refine ⟨w ++ t ++ w2 ++ 0x2C :: body, v1 :: xs, r', ?_, Elements.cons _ _ _ _ _ _ _ a2 a3 b2 g2, by simp, g4⟩
          rw [hc']; simp
        · cases h
    · rename_i hne _
      exact (hne (tuple_ok h).1).elim
  · rename_i hne _
    exact (hne (tuple_ok h).1).elim

theorem parseUnquoted_len : ∀ (n : Nat) (acc : List Byte) (s : St), acc.length ≤ (parseUnquoted n acc s).1.length := by
  intro n
  induction n with
  | zero => intro acc s; simp [parseUnquoted]
  | succ n ih =>
    intro acc s
    simp only [parseUnquoted]
    split
    · have := ih ((cur s).1 :: acc) (mv (cur s).2)
      simp at this; omega
    · simp

set_option maxRecDepth 8000 in
theorem pm_step (cfg : Cfg) (fuel : Nat) (hV : PVs cfg fuel) (hM : PMs cfg fuel) : PMs cfg (fuel + 1) := by
  intro limit s r acc v s' hr h
  simp only [parseMembers] at h
  obtain ⟨k1, k2, k3, _, _⟩ := hr.look
  split at h
  · rename_i key s1 hkey
    -- the key
    have hK : ∃ kt r1, r = kt ++ r1 ∧ Key cfg kt key ∧ Rem s1 r1 := by
      split at hkey
      · rename_i hq
        have hq' : IsQuote (cur s).1 := by simpa [IsQuote] using hq
        obtain ⟨t1, rfl, e2⟩ := hr.step' (isQuote_facts hq').1
        obtain ⟨body, x, r', rfl, g2, g3, g4, g5⟩ := parseQuoted_sound hq' _ _ _ _ _ _ _ (by decide) e2 hkey
        simp only [List.reverse_nil, List.nil_append] at g3
        subst g3
        exact ⟨(cur s).1 :: body ++ [(cur s).1], r', by simp, Key.quoted _ _ _ hq' g2 g4, g5⟩
      · split at hkey
        · rename_i hu
          obtain ⟨hcode, hk, hs⟩ := tuple_ok hkey
          have hlen : key.length ≤ cfg.maxStrLen := by
            rw [← hk]
            by_cases hh : (parseUnquoted (fuel + 1) [] (cur s).2).1.length > cfg.maxStrLen
            · rw [if_pos hh] at hcode; cases hcode
            · omega
          obtain ⟨x, r', g1, g2, g3, g4⟩ := parseUnquoted_sound _ _ _ _ _ _ k1 (Prod.ext hk hs)
          simp only [List.reverse_nil, List.nil_append] at g2
          subst g2
          refine ⟨key, r', g1, Key.bare _ ?_ g3 hlen, g4⟩
          intro hnil
          -- the first byte is an identifier byte, and the loop has fuel for it
          rw [hnil] at hk
          simp only [parseUnquoted, cur_cur, hu, ↓reduceIte] at hk
          have := parseUnquoted_len fuel [(cur s).1] (mv (cur s).2)
          rw [hk] at this
          simp at this
        · cases hkey
    obtain ⟨kt, r1, rfl, hkt, a3⟩ := hK
    split at h
    · rename_i s2 heq2
      obtain ⟨w2, r2, rfl, b2, b3, _⟩ := skipSpaces_sound cfg _ _ _ _ a3 heq2
      split at h
      · cases h
      · rename_i hc
        have hc' : (cur s2).1 = 0x3A := by simpa using hc
        obtain ⟨t2, rfl, f2⟩ := b3.step' (by rw [hc']; decide)
        split at h
        · rename_i v1 s3 heq3
          obtain ⟨w3, t, r3, rfl, c2, c3, c4, _⟩ := hV _ _ _ _ _ f2 heq3
          split at h
          · rename_i s4 heq4
            obtain ⟨w4, r4, rfl, d2, d3, _⟩ := skipSpaces_sound cfg _ _ _ _ c4 heq4
            split at h
            · rename_i he
              have he' : (cur s4).1 = 0x7D := by simpa using he
              obtain ⟨t4, rfl, g2⟩ := d3.step' (by rw [he']; decide)
              obtain ⟨_, rfl, rfl⟩ := tuple_ok h
              refine ⟨[] ++ kt ++ w2 ++ 0x3A :: w3 ++ t ++ w4, [(key, v1)], t4, ?_,
                Members.one _ _ _ _ _ _ _ _ _ DWs.nil hkt b2 c2 c3 d2, rfl, g2⟩
              rw [hc', he']; simp
            · split at h
              · rename_i hcm
                have hcm' : (cur s4).1 = 0x2C := by simpa using hcm
                obtain ⟨t4, rfl, g2⟩ := d3.step' (by rw [hcm']; decide)
                split at h
                · rename_i s5 heq5
                  obtain ⟨w5, r5, rfl, e2, e3, _⟩ := skipSpaces_sound cfg _ _ _ _ g2 heq5
                  obtain ⟨body, ms, r', rfl, i2, rfl, i4⟩ := hM _ _ _ _ _ _ e3 h
                  refine ⟨[] ++ kt ++ w2 ++ 0x3A :: w3 ++ t ++ w4 ++ 0x2C :: (w5 ++ body), (key, v1) :: ms, r', ?_,
                    Members.cons _ _ _ _ _ _ _ _ _ _ _ DWs.nil hkt b2 c2 c3 d2 (i2.prepend e2), rfl, i4⟩
                  rw [hc', hcm']; simp
                · rename_i hne _
                  exact (hne (tuple_ok h).1).elim
              · cases h
          · rename_i hne _
            exact (hne (tuple_ok h).1).elim
        · rename_i hne _
          exact (hne (tuple_ok h).1).elim
    · rename_i hne _
      exact (hne (tuple_ok h).1).elim
  · rename_i hne _
    exact (hne (tuple_ok h).1).elim

/-- soundness of the three mutually recursive routines, for every fuel -/
theorem sound_all (cfg : Cfg) : ∀ fuel, PVs cfg fuel ∧ PEs cfg fuel ∧ PMs cfg fuel := by
  intro fuel
  induction fuel with
  | zero =>
    refine ⟨?_, ?_, ?_⟩
    · intro limit s r v s' _ h; simp [parseVariant] at h
    · intro limit s r acc v s' _ h; simp [parseElems] at h
    · intro limit s r acc v s' _ h; simp [parseMembers] at h
  | succ n ih => exact ⟨pv_step cfg n ih.2.1 ih.2.2, pe_step cfg n ih.1 ih.2.1, pm_step cfg n ih.1 ih.2.2⟩

/-- the run: `Ok` only on a text of the dialect, and then with the value the dialect assigns -/
theorem run_sound (cfg : Cfg) (L : Nat) (t : List Byte) (h : (run cfg L t).1 = .ok) :
    Doc cfg L t (run cfg L t).2.1 := by
  have hrun : run cfg L t =
      (match parseVariant cfg (2 * t.length + 4) L { l := { unread := t } } with
       | (.ok, v, s) =>
         if s.l.cur != 0 && !isWs s.l.cur && isNumberVal v then (.invalid, v, s.l.pos) else (.ok, v, s.l.pos)
       | (e, v, s) => (e, v, s.l.pos)) := rfl
  rw [hrun] at h ⊢
  have hr0 : Rem ({ l := { unread := t } } : St) t := Rem.un rfl
  split at h
  · rename_i v s heq
    obtain ⟨w, body, r', ht, h2, h3, h4, h5⟩ := (sound_all cfg _).1 _ _ _ _ _ hr0 heq
    split at h
    · cases h
    · rename_i hc
      simp only [hc, Bool.false_eq_true, ↓reduceIte]
      refine ⟨w, body, r', ht, h2, h3, ?_⟩
      intro hn
      have hcur := h4.loaded_cur (h5 hn)
      rw [← hcur]
      simp only [hn, Bool.and_true, Bool.and_eq_true, bne_iff_ne, ne_eq, Bool.not_eq_true', not_and,
        Bool.not_eq_false] at hc
      by_cases h0 : s.l.cur = 0
      · exact Or.inl h0
      · exact Or.inr (hc h0)
  · rename_i hne _
    exact (hne h).elim

end JD
