/- Leading dialect white space is determined by the text: if `w ++ c :: x = w' ++ c' :: y` with `w`, `w'` white space
   and `c`, `c'` bytes that cannot start white space, then `w = w'`. -/
import AJ.Spec.Dialect
set_option linter.unusedVariables false
namespace JD
open Spec.Dialect

theorem block_unique {st : Bool} {b : List Byte} (h : Block st b) :
    ∀ {b' u u' : List Byte}, Block st b' → b ++ u = b' ++ u' → b = b' ∧ u = u' := by
  induction h with
  | close =>
    intro b' u u' h' he
    cases h' with
    | close => simpa using he
    | step _ c b'' h0 hn _ =>
      simp only [List.cons_append, List.nil_append, List.cons.injEq] at he
      exact absurd ⟨he.1.symm, rfl⟩ hn
  | step st c b1 h0 hn _ ih =>
    intro b' u u' h' he
    cases h' with
    | close =>
      simp only [List.cons_append, List.nil_append, List.cons.injEq] at he
      exact absurd ⟨he.1, rfl⟩ hn
    | step _ c' b1' h0' hn' hb' =>
      simp only [List.cons_append, List.cons.injEq] at he
      obtain ⟨rfl, he⟩ := he
      obtain ⟨rfl, rfl⟩ := ih hb' he
      exact ⟨rfl, rfl⟩

theorem lf_split_unique : ∀ {x x' u u' : List Byte}, (∀ c ∈ x, c ≠ 0 ∧ c ≠ 0x0A) → (∀ c ∈ x', c ≠ 0 ∧ c ≠ 0x0A) →
    x ++ 0x0A :: u = x' ++ 0x0A :: u' → x = x' ∧ u = u' := by
  intro x
  induction x with
  | nil =>
    intro x' u u' _ hx' he
    cases x' with
    | nil => simpa using he
    | cons a x'' =>
      simp only [List.nil_append, List.cons_append, List.cons.injEq] at he
      exact absurd he.1.symm (hx' a (List.mem_cons_self ..)).2
  | cons a x ih =>
    intro x' u u' hx hx' he
    cases x' with
    | nil =>
      simp only [List.nil_append, List.cons_append, List.cons.injEq] at he
      exact absurd he.1 (hx a (List.mem_cons_self ..)).2
    | cons a' x'' =>
      simp only [List.cons_append, List.cons.injEq] at he
      obtain ⟨rfl, he⟩ := he
      obtain ⟨rfl, rfl⟩ := ih (fun c hc => hx c (List.mem_cons_of_mem _ hc)) (fun c hc => hx' c (List.mem_cons_of_mem _ hc)) he
      exact ⟨rfl, rfl⟩

/-- a byte that does not start white space -/
def NoWs (c : Byte) : Prop := ¬ IsWsByte c ∧ c ≠ 0x2F

theorem wsByte_ne_slash {a : Byte} (h : IsWsByte a) : a ≠ 0x2F := by
  rcases h with rfl | rfl | rfl | rfl <;> decide

theorem dws_prefix_unique {cfg : Cfg} {w : List Byte} (hw : DWs cfg w) :
    ∀ {w' x y : List Byte} {c c' : Byte}, DWs cfg w' → NoWs c → NoWs c' → w ++ c :: x = w' ++ c' :: y →
      w = w' ∧ c = c' ∧ x = y := by
  induction hw with
  | nil =>
    intro w' x y c c' hw' hc hc' he
    cases hw' with
    | nil => simpa using he
    | ws a w1 ha _ =>
      simp only [List.nil_append, List.cons_append, List.cons.injEq] at he
      exact absurd (he.1 ▸ ha) hc.1
    | block b w1 _ _ _ =>
      simp only [List.nil_append, List.cons_append, List.cons.injEq] at he
      exact absurd he.1 hc.2
    | line x1 w1 _ _ _ =>
      simp only [List.nil_append, List.cons_append, List.cons.injEq] at he
      exact absurd he.1 hc.2
  | ws a w1 ha _ ih =>
    intro w' x y c c' hw' hc hc' he
    cases hw' with
    | nil =>
      simp only [List.nil_append, List.cons_append, List.cons.injEq] at he
      exact absurd (he.1 ▸ ha) hc'.1
    | ws a' w1' ha' hw1' =>
      simp only [List.cons_append, List.cons.injEq] at he
      obtain ⟨rfl, he⟩ := he
      obtain ⟨rfl, rfl, rfl⟩ := ih hw1' hc hc' he
      exact ⟨rfl, rfl, rfl⟩
    | block b w1' _ _ _ =>
      simp only [List.cons_append, List.cons.injEq] at he
      exact absurd he.1 (wsByte_ne_slash ha)
    | line x1 w1' _ _ _ =>
      simp only [List.cons_append, List.cons.injEq] at he
      exact absurd he.1 (wsByte_ne_slash ha)
  | block b w1 hcm hb _ ih =>
    intro w' x y c c' hw' hc hc' he
    cases hw' with
    | nil =>
      simp only [List.nil_append, List.cons_append, List.cons.injEq] at he
      exact absurd he.1.symm hc'.2
    | ws a' w1' ha' _ =>
      simp only [List.cons_append, List.cons.injEq] at he
      exact absurd he.1.symm (wsByte_ne_slash ha')
    | block b' w1' _ hb' hw1' =>
      simp only [List.cons_append, List.append_assoc, List.cons.injEq, true_and] at he
      obtain ⟨rfl, he2⟩ := block_unique hb hb' he
      obtain ⟨rfl, rfl, rfl⟩ := ih hw1' hc hc' he2
      exact ⟨rfl, rfl, rfl⟩
    | line x1 w1' _ _ _ =>
      simp only [List.cons_append, List.cons.injEq] at he
      exact absurd he.2.1 (by decide)
  | line x1 w1 hcm hx _ ih =>
    intro w' x y c c' hw' hc hc' he
    cases hw' with
    | nil =>
      simp only [List.nil_append, List.cons_append, List.cons.injEq] at he
      exact absurd he.1.symm hc'.2
    | ws a' w1' ha' _ =>
      simp only [List.cons_append, List.cons.injEq] at he
      exact absurd he.1.symm (wsByte_ne_slash ha')
    | block b' w1' _ _ _ =>
      simp only [List.cons_append, List.cons.injEq] at he
      exact absurd he.2.1 (by decide)
    | line x1' w1' _ hx' hw1' =>
      simp only [List.cons_append, List.append_assoc, List.cons.injEq, true_and] at he
      obtain ⟨rfl, he2⟩ := lf_split_unique hx hx' he
      obtain ⟨rfl, rfl, rfl⟩ := ih hw1' hc hc' he2
      exact ⟨rfl, rfl, rfl⟩

end JD
