/- Completeness of `skipSpaces` over the white space of the dialect (comments included), in the `At/Seen/Pos`
   vocabulary of AJ/Lemmas/JsonComplete.lean. -/
import AJ.Spec.Dialect
import AJ.Lemmas.JsonComplete
set_option linter.unusedSimpArgs false
set_option linter.unusedVariables false
namespace JD
open Spec.Dialect

theorem block_no_nul {star : Bool} {b : List Byte} (h : Block star b) : ∀ c ∈ b, c ≠ 0 := by
  induction h with
  | close => intro c hc; simp at hc; subst hc; decide
  | step star c b h0 _ _ ih =>
    intro x hx
    rcases List.mem_cons.mp hx with rfl | hx
    · exact h0
    · exact ih x hx

theorem dws_no_nul {cfg : Cfg} {w : List Byte} (h : DWs cfg w) : ∀ c ∈ w, c ≠ 0 := by
  induction h with
  | nil => intro c hc; cases hc
  | ws c w hc _ ih =>
    intro x hx
    rcases List.mem_cons.mp hx with rfl | hx
    · rcases hc with rfl | rfl | rfl | rfl <;> decide
    · exact ih x hx
  | block b w _ hb _ ih =>
    intro x hx
    simp only [List.cons_append, List.mem_cons, List.mem_append] at hx
    rcases hx with rfl | rfl | hx | hx
    · decide
    · decide
    · exact block_no_nul hb x hx
    · exact ih x hx
  | line y w _ hy _ ih =>
    intro x hx
    simp only [List.cons_append, List.mem_cons, List.mem_append] at hx
    rcases hx with rfl | rfl | hx | rfl | hx
    · decide
    · decide
    · exact (hy x hx).1
    · decide
    · exact ih x hx

/-- a block comment is skipped: one unit of fuel per byte -/
theorem skipBlock_complete {star : Bool} {b : List Byte} (h : Block star b) :
    ∀ (s : St) (rest : List Byte) (p : Nat) (f : Bool), At s (b ++ rest) p f →
      ∃ s', At s' rest (p + b.length) f ∧ ∀ m, b.length ≤ m → skipBlock m star s = (.ok, s') := by
  induction h with
  | close =>
    intro s rest p f hs
    have hs' : At s (0x2F :: rest) p f := by simpa using hs
    refine ⟨adv s 0x2F rest, by simpa using hs'.adv, ?_⟩
    intro m hm
    obtain ⟨k, rfl⟩ : ∃ k, m = k + 1 := ⟨m - 1, by simp at hm; omega⟩
    have e0 : ((0x2F : Byte) == 0) = false := by decide
    simp only [skipBlock, hs'.cur, e0, beq_self_eq_true, Bool.and_self, Bool.false_eq_true, ↓reduceIte, mv_ld]
  | step star c b h0 hn _ ih =>
    intro s rest p f hs
    have hs' : At s (c :: (b ++ rest)) p f := by simpa using hs
    obtain ⟨s', h2, h1⟩ := ih (adv s c (b ++ rest)) rest (p + 1) f hs'.adv
    refine ⟨s', ?_, ?_⟩
    · have : p + 1 + b.length = p + (c :: b).length := by simp; omega
      rw [← this]; exact h2
    · intro m hm
      obtain ⟨k, rfl⟩ : ∃ k, m = k + 1 := ⟨m - 1, by simp at hm; omega⟩
      have e0 : (c == 0) = false := by simpa using h0
      have e1 : (c == 0x2F && star) = false := by
        cases hb : (c == 0x2F && star) with
        | false => rfl
        | true =>
          simp only [Bool.and_eq_true, beq_iff_eq] at hb
          exact absurd hb hn
      simp only [skipBlock, hs'.cur, e0, e1, Bool.false_eq_true, ↓reduceIte, mv_ld, h1 k (by simp at hm; omega)]

/-- a line comment is skipped up to its LF, which stays latched. `X` is latched on the byte before `x` (the second `/`
    at first). -/
theorem skipLine_complete (x : List Byte) (hx : ∀ c ∈ x, c ≠ 0 ∧ c ≠ 0x0A) :
    ∀ (X : St) (d : Byte) (rest : List Byte) (p : Nat) (f : Bool), Seen X (d :: (x ++ 0x0A :: rest)) p f →
      ∃ Y, Seen Y (0x0A :: rest) (p + 1 + x.length) f ∧ ∀ m, x.length < m → skipLine m X = (.ok, Y) := by
  induction x with
  | nil =>
    intro X d rest p f hX
    have hm' : At (mv X) (0x0A :: rest) (p + 1) f := by simpa using hX.mv
    refine ⟨(cur (mv X)).2, ⟨mv X, by simpa using hm', rfl⟩, ?_⟩
    intro m hm
    obtain ⟨k, rfl⟩ : ∃ k, m = k + 1 := ⟨m - 1, by omega⟩
    have e0 : ((0x0A : Byte) == 0) = false := by decide
    simp only [skipLine, hm'.cur, e0, beq_self_eq_true, Bool.false_eq_true, ↓reduceIte]
  | cons c x ih =>
    intro X d rest p f hX
    have hm' : At (mv X) (c :: (x ++ 0x0A :: rest)) (p + 1) f := by simpa using hX.mv
    have hS : Seen (cur (mv X)).2 (c :: (x ++ 0x0A :: rest)) (p + 1) f := ⟨mv X, hm', rfl⟩
    obtain ⟨Y, h2, h1⟩ := ih (fun y hy => hx y (List.mem_cons_of_mem _ hy)) _ c rest (p + 1) f hS
    obtain ⟨c0, c1⟩ := hx c (List.mem_cons_self ..)
    refine ⟨Y, ?_, ?_⟩
    · have : p + 1 + 1 + x.length = p + 1 + (c :: x).length := by simp; omega
      rw [← this]; exact h2
    · intro m hm
      obtain ⟨k, rfl⟩ : ∃ k, m = k + 1 := ⟨m - 1, by omega⟩
      have e0 : (c == 0) = false := by simpa using c0
      have e1 : (c == 0x0A) = false := by simpa using c1
      have hc : (cur (mv X)) = (c, (cur (mv X)).2) := by rw [hm'.cur]
      rw [← h1 k (by simp at hm; omega)]
      simp only [skipLine]
      rw [hc]
      simp only [e0, e1, Bool.false_eq_true, ↓reduceIte]

/-- `skipSpaces` over dialect white space `w`: it continues, with some fuel left, in front of what follows `w` -/
theorem skipSpaces_dws_gen (cfg : Cfg) {w : List Byte} (hw : DWs cfg w) :
    ∀ (s : St) (rest : List Byte) (p : Nat) (f : Bool), Pos s (w ++ rest) p f →
      ∃ X, Pos X rest (p + w.length) f ∧ ∀ n, w.length < n → ∃ m, 0 < m ∧ skipSpaces cfg n s = skipSpaces cfg m X := by
  induction hw with
  | nil =>
    intro s rest p f h
    exact ⟨s, by simpa using h, fun n hn => ⟨n, by omega, rfl⟩⟩
  | ws a w ha _ ih =>
    intro s rest p f h
    obtain ⟨X, hX, hS⟩ := Pos.cur_cons (by simpa using h)
    obtain ⟨a0, aw⟩ := ws_byte (show a = 0x20 ∨ a = 0x09 ∨ a = 0x0A ∨ a = 0x0D from ha)
    have e0 : (a == 0) = false := by simpa using a0
    obtain ⟨Y, hY, hn⟩ := ih (mv X) rest (p + 1) f hS.mv.pos
    refine ⟨Y, ?_, ?_⟩
    · have : p + 1 + w.length = p + (a :: w).length := by simp; omega
      rw [← this]; exact hY
    · intro n hlt
      obtain ⟨k, rfl⟩ : ∃ k, n = k + 1 := ⟨n - 1, by simp at hlt; omega⟩
      obtain ⟨m, hm0, hm⟩ := hn k (by simp at hlt; omega)
      refine ⟨m, hm0, ?_⟩
      simp only [skipSpaces, hX, e0, aw, Bool.false_eq_true, ↓reduceIte, hm]
  | block b w hc hb _ ih =>
    intro s rest p f h
    have h' : Pos s (0x2F :: 0x2A :: (b ++ (w ++ rest))) p f := by simpa using h
    obtain ⟨X, hX, hS⟩ := Pos.cur_cons h'
    have hA := hS.mv
    obtain ⟨s1, hb2, hb1⟩ := skipBlock_complete hb (adv (mv X) 0x2A (b ++ (w ++ rest))) (w ++ rest) (p + 1 + 1) f hA.adv
    obtain ⟨Y, hY, hn⟩ := ih s1 rest _ f hb2.pos
    refine ⟨Y, ?_, ?_⟩
    · have : p + 1 + 1 + b.length + w.length = p + (0x2F :: 0x2A :: b ++ w).length := by simp; omega
      rw [← this]; exact hY
    · intro n hlt
      obtain ⟨k, rfl⟩ : ∃ k, n = k + 1 := ⟨n - 1, by simp at hlt; omega⟩
      obtain ⟨m, hm0, hm⟩ := hn k (by simp at hlt; omega)
      refine ⟨m, hm0, ?_⟩
      have e0 : ((0x2F : Byte) == 0) = false := by decide
      have e1 : isWs (0x2F : Byte) = false := by decide
      simp only [skipSpaces, hX, e0, e1, hc, beq_self_eq_true, Bool.and_self, Bool.false_eq_true, ↓reduceIte, hA.cur,
        ld_cur, mv_ld, hb1 k (by simp at hlt; omega), hm]
  | line x w hc hx _ ih =>
    intro s rest p f h
    have h' : Pos s (0x2F :: 0x2F :: (x ++ 0x0A :: (w ++ rest))) p f := by simpa using h
    obtain ⟨X, hX, hS⟩ := Pos.cur_cons h'
    have hA := hS.mv
    have hS2 : Seen (cur (mv X)).2 (0x2F :: (x ++ 0x0A :: (w ++ rest))) (p + 1) f := ⟨mv X, hA, rfl⟩
    obtain ⟨Y, hY2, hY1⟩ := skipLine_complete x hx _ 0x2F (w ++ rest) (p + 1) f hS2
    obtain ⟨Z, hZ, hn⟩ := ih (mv Y) rest _ f hY2.mv.pos
    refine ⟨Z, ?_, ?_⟩
    · have : p + 1 + 1 + x.length + 1 + w.length = p + (0x2F :: 0x2F :: x ++ 0x0A :: w).length := by simp; omega
      rw [← this]; exact hZ
    · intro n hlt
      obtain ⟨k, rfl⟩ : ∃ k, n = k + 1 := ⟨n - 1, by simp at hlt; omega⟩
      obtain ⟨j, rfl⟩ : ∃ j, k = j + 1 := ⟨k - 1, by simp at hlt; omega⟩
      obtain ⟨m, hm0, hm⟩ := hn j (by simp at hlt; omega)
      refine ⟨m, hm0, ?_⟩
      have e0 : ((0x2F : Byte) == 0) = false := by decide
      have e1 : isWs (0x2F : Byte) = false := by decide
      have e2 : ((0x2F : Byte) == 0x2A) = false := by decide
      have e3 : ((0x0A : Byte) == 0) = false := by decide
      have e4 : isWs (0x0A : Byte) = true := by decide
      have hcm : cur (mv X) = (0x2F, (cur (mv X)).2) := by rw [hA.cur]
      rw [skipSpaces]
      simp only [hX, e0, e1, hc, beq_self_eq_true, Bool.and_self, Bool.false_eq_true, ↓reduceIte]
      rw [hcm]
      simp only [e2, beq_self_eq_true, Bool.false_eq_true, ↓reduceIte, hY1 (j + 1) (by simp at hlt; omega)]
      rw [skipSpaces]
      simp only [hY2.cur_cons, e3, e4, Bool.false_eq_true, ↓reduceIte, hm]

/-- `skipSpaces` over dialect white space stops on the next token, which it latches (same interface as
    `skipSpaces_ws`) -/
theorem skipSpaces_dws (cfg : Cfg) {c : Byte} {r : List Byte} (hc : Tok c) (w : List Byte) (hw : DWs cfg w) :
    ∀ (s : St) (p : Nat) (f : Bool), Pos s (w ++ c :: r) p f →
      ∃ X, Seen X (c :: r) (p + w.length) true ∧ ∀ n, w.length < n → skipSpaces cfg n s = (.ok, X) := by
  intro s p f h
  obtain ⟨Y, hY, hn⟩ := skipSpaces_dws_gen cfg hw s (c :: r) p f h
  obtain ⟨X, hX, hS⟩ := Pos.cur_cons hY
  have e0 : (c == 0) = false := by simpa using hc.1
  have e1 : (c == 0x2F) = false := by simpa using hc.2.2
  refine ⟨setFound X, hS.setFound, ?_⟩
  intro n hlt
  obtain ⟨m, hm0, hm⟩ := hn n hlt
  obtain ⟨k, rfl⟩ : ∃ k, m = k + 1 := ⟨m - 1, by omega⟩
  rw [hm]
  simp only [skipSpaces, hX, e0, hc.2.1, e1, Bool.and_false, Bool.false_eq_true, ↓reduceIte]
  rfl

/-- only white space up to the end of the text (the end of the input or a NUL): `EmptyInput` if no token was seen
    before, `IncompleteInput` otherwise -/
theorem skipSpaces_dws_end (cfg : Cfg) (w : List Byte) (hw : DWs cfg w) (s : St) (rest : List Byte) (p : Nat) (f : Bool)
    (h : Pos s (w ++ rest) p f) (hr : rest.headD 0 = 0) (n : Nat) (hn : w.length < n) :
    (skipSpaces cfg n s).1 = (if f then .incomplete else .empty) := by
  obtain ⟨Y, hY, hg⟩ := skipSpaces_dws_gen cfg hw s rest p f h
  obtain ⟨m, hm0, hm⟩ := hg n hn
  obtain ⟨k, rfl⟩ : ∃ k, m = k + 1 := ⟨m - 1, by omega⟩
  rw [hm]
  cases rest with
  | nil =>
    obtain ⟨X, hX, hS⟩ := Pos.cur_nil hY
    simp only [skipSpaces, hX, beq_self_eq_true, ↓reduceIte, hS.found]
  | cons c r =>
    have : c = 0 := hr
    subst this
    obtain ⟨X, hX, hS⟩ := Pos.cur_cons hY
    simp only [skipSpaces, hX, beq_self_eq_true, ↓reduceIte, hS.found]

end JD
