/- Decimal notation, specified independently of `Nat.toDigits`, and the facts about
   `JS.digits` / `JD.takeDigitsMant` needed for property C12. -/
import AJ.Model.JD
import AJ.Model.JS
namespace Digits
open JD SF

/-- one Horner step of decimal notation -/
def step (acc : Nat) (c : UInt8) : Nat := acc * 10 + (c.toNat - 48)

/-- value of a byte string read as decimal digits (Horner), with accumulator -/
def decValAux (acc : Nat) (ds : List UInt8) : Nat := ds.foldl step acc

/-- value of a byte string read as a decimal numeral -/
def decVal (ds : List UInt8) : Nat := decValAux 0 ds

/-- every byte is an ASCII digit '0'..'9' -/
def AllDigits (ds : List UInt8) : Prop := ∀ c ∈ ds, 0x30 ≤ c ∧ c ≤ 0x39

theorem step_eq (a : Nat) (c : UInt8) : step a c = a * 10 + (c.toNat - 48) := by unfold step; exact Eq.refl _

theorem decVal_eq_foldl (ds : List UInt8) : decVal ds = ds.foldl (fun acc c => acc * 10 + (c.toNat - 48)) 0 := by
  unfold decVal decValAux
  have : step = (fun acc c => acc * 10 + (c.toNat - 48)) := by funext a c; exact step_eq a c
  rw [this]

theorem decValAux_nil (a : Nat) : decValAux a [] = a := rfl
theorem decValAux_cons (a : Nat) (c : UInt8) (cs : List UInt8) :
    decValAux a (c :: cs) = decValAux (a * 10 + (c.toNat - 48)) cs := by
  unfold decValAux; rw [List.foldl_cons, step_eq]

theorem decValAux_append (a : Nat) (xs ys : List UInt8) : decValAux a (xs ++ ys) = decValAux (decValAux a xs) ys := by
  unfold decValAux; rw [List.foldl_append]

theorem decVal_snoc (xs : List UInt8) (c : UInt8) : decVal (xs ++ [c]) = decVal xs * 10 + (c.toNat - 48) := by
  unfold decVal; rw [decValAux_append, decValAux_cons, decValAux_nil]

theorem le_decValAux (a : Nat) (ds : List UInt8) : a ≤ decValAux a ds := by
  induction ds generalizing a with
  | nil => exact Nat.le_refl _
  | cons c cs ih =>
    rw [decValAux_cons]
    have := ih (a * 10 + (c.toNat - 48))
    omega

theorem AllDigits_nil : AllDigits [] := by intro c h; cases h
theorem AllDigits_cons {c : UInt8} {cs : List UInt8} : AllDigits (c :: cs) ↔ (0x30 ≤ c ∧ c ≤ 0x39) ∧ AllDigits cs := by
  simp only [AllDigits, List.mem_cons, forall_eq_or_imp]
theorem AllDigits_append {xs ys : List UInt8} : AllDigits (xs ++ ys) ↔ AllDigits xs ∧ AllDigits ys := by
  simp only [AllDigits, List.mem_append]
  constructor
  · intro h; exact ⟨fun c hc => h c (Or.inl hc), fun c hc => h c (Or.inr hc)⟩
  · intro h c hc; cases hc with
    | inl hc => exact h.1 c hc
    | inr hc => exact h.2 c hc
theorem AllDigits_zeros (k : Nat) : AllDigits (List.replicate k (0x30 : UInt8)) := by
  intro c hc
  rw [List.eq_of_mem_replicate hc]
  decide

theorem decValAux_zeros (k : Nat) (ds : List UInt8) : decVal (List.replicate k (0x30 : UInt8) ++ ds) = decVal ds := by
  induction k with
  | zero => rfl
  | succ k ih =>
    rw [List.replicate_succ, List.cons_append]
    unfold decVal at *
    rw [decValAux_cons]
    exact ih

/-- the byte of the decimal digit `d` -/
def digitByte (d : Nat) : UInt8 := UInt8.ofNat (48 + d)

theorem digitChar_byte (d : Nat) (h : d < 10) : UInt8.ofNat (Nat.digitChar d).toNat = digitByte d := by
  have : ∀ i : Fin 10, UInt8.ofNat (Nat.digitChar i.val).toNat = digitByte i.val := by decide
  exact this ⟨d, h⟩

theorem digitByte_toNat (d : Nat) (h : d < 10) : (digitByte d).toNat = 48 + d := by
  have : ∀ i : Fin 10, (digitByte i.val).toNat = 48 + i.val := by decide
  exact this ⟨d, h⟩

theorem digitByte_range (d : Nat) (h : d < 10) : 0x30 ≤ digitByte d ∧ digitByte d ≤ 0x39 := by
  have : ∀ i : Fin 10, 0x30 ≤ digitByte i.val ∧ digitByte i.val ≤ 0x39 := by decide
  exact this ⟨d, h⟩

/-- `JS.digits` satisfies the schoolbook recursion -/
theorem digits_rec (n : Nat) :
    JS.digits n = if n < 10 then [digitByte n] else JS.digits (n / 10) ++ [digitByte (n % 10)] := by
  unfold JS.digits
  rw [Nat.toDigits_eq_if (b := 10) (by decide)]
  split
  · rename_i h; simp only [List.map_cons, List.map_nil, digitChar_byte n h]
  · simp only [List.map_append, List.map_cons, List.map_nil, digitChar_byte (n % 10) (Nat.mod_lt _ (by decide))]

theorem digits_spec (n : Nat) :
    AllDigits (JS.digits n) ∧ decVal (JS.digits n) = n ∧ JS.digits n ≠ [] ∧
    (n ≠ 0 → (JS.digits n).head? ≠ some 0x30) := by
  induction n using Nat.strongRecOn with
  | _ n ih =>
    rw [digits_rec]
    split
    · rename_i h
      refine ⟨?_, ?_, ?_, ?_⟩
      · rw [AllDigits_cons]; exact ⟨digitByte_range n h, AllDigits_nil⟩
      · show decValAux 0 [digitByte n] = n
        rw [decValAux_cons, decValAux_nil, digitByte_toNat n h]; omega
      · simp
      · intro hn
        simp only [List.head?_cons, ne_eq, Option.some.injEq]
        intro e
        have := congrArg UInt8.toNat e
        rw [digitByte_toNat n h] at this
        simp at this
        omega
    · rename_i h
      have hlt : n / 10 < n := by omega
      obtain ⟨h1, h2, h3, h4⟩ := ih (n / 10) hlt
      have hm : n % 10 < 10 := Nat.mod_lt _ (by decide)
      refine ⟨?_, ?_, ?_, ?_⟩
      · rw [AllDigits_append, AllDigits_cons]; exact ⟨h1, digitByte_range _ hm, AllDigits_nil⟩
      · rw [decVal_snoc, h2, digitByte_toNat _ hm]; omega
      · simp
      · intro _
        have hq : n / 10 ≠ 0 := by omega
        have := h4 hq
        cases hd : JS.digits (n / 10) with
        | nil => exact absurd hd h3
        | cons a as => rw [hd] at this; simpa using this

/-! ## the mantissa loop of `parseNumber` on digit strings -/

theorem digitVal_eq (c : UInt8) : digitVal c = c.toNat - 48 := by unfold digitVal; exact Eq.refl _

theorem isDigit_of_range {c : UInt8} (h : 0x30 ≤ c ∧ c ≤ 0x39) : isDigit c = true := by
  simp only [isDigit, Bool.and_eq_true, decide_eq_true_eq]; exact h

/-- On an all-digit string whose value fits 64 bits, neither overflow guard of `takeDigitsMant` fires:
    the loop consumes everything and returns the exact value. -/
theorem takeDigitsMant_all (acc : Nat) (ds : List UInt8) (hd : AllDigits ds) (hv : decValAux acc ds < 2 ^ 64) :
    takeDigitsMant (2 ^ 64 - 1) acc ds = (decValAux acc ds, []) := by
  induction ds generalizing acc with
  | nil => rw [takeDigitsMant, decValAux_nil]
  | cons c cs ih =>
    rw [AllDigits_cons] at hd
    rw [decValAux_cons] at hv ⊢
    have hle := le_decValAux (acc * 10 + (c.toNat - 48)) cs
    have g1 : ¬ acc > (2 ^ 64 - 1) / 10 := by omega
    have g2 : ¬ acc * 10 > 2 ^ 64 - 1 - digitVal c := by rw [digitVal_eq]; omega
    rw [takeDigitsMant, if_pos (isDigit_of_range hd.1), if_neg g1, if_neg g2, digitVal_eq]
    exact ih _ hd.2 hv

theorem takeDigitsMant_digits (ds : List UInt8) (hd : AllDigits ds) (hv : decVal ds < 2 ^ 64) :
    takeDigitsMant (2 ^ 64 - 1) 0 ds = (decVal ds, []) := takeDigitsMant_all 0 ds hd hv

/-! ## `parseNumber` on digit strings (optionally signed) -/

theorem digit_ne {c : UInt8} (hc : 0x30 ≤ c ∧ c ≤ 0x39) (k : UInt8) (hk : ¬ (0x30 ≤ k ∧ k ≤ 0x39)) :
    (c == k) = false := by
  rw [beq_eq_false_iff_ne]; rintro rfl; exact hk hc

/-- "-ddd" with value ≤ 2^63 parses to the signed integer `-value` -/
theorem parse_minus (cfg : Cfg) (ds : List UInt8) (hd : AllDigits ds) (hne : ds ≠ []) (hv : decVal ds ≤ 2 ^ 63) :
    parseNumber cfg (0x2D :: ds) = .sint (-(decVal ds : Int)) := by
  have hv' : decVal ds < 2 ^ 64 := by omega
  cases ds with
  | nil => exact absurd rfl hne
  | cons c cs =>
    have hc := (AllDigits_cons.mp hd).1
    simp only [parseNumber, takeDigitsMant_digits _ hd hv', List.headD_cons,
      digit_ne hc 110 (by decide), digit_ne hc 78 (by decide), digit_ne hc 105 (by decide), digit_ne hc 73 (by decide),
      isDigit_of_range hc, Bool.or_self, Bool.and_false, Bool.false_eq_true, ↓reduceIte, Bool.not_true, Bool.false_and,
      List.isEmpty_nil, Bool.true_and, Bool.and_true, decide_eq_true_eq, hv]

/-- "+ddd" with value < 2^64 parses to the unsigned integer `value` -/
theorem parse_plus (cfg : Cfg) (ds : List UInt8) (hd : AllDigits ds) (hne : ds ≠ []) (hv : decVal ds < 2 ^ 64) :
    parseNumber cfg (0x2B :: ds) = .uint (decVal ds) := by
  cases ds with
  | nil => exact absurd rfl hne
  | cons c cs =>
    have hc := (AllDigits_cons.mp hd).1
    simp only [parseNumber, takeDigitsMant_digits _ hd hv, List.headD_cons,
      digit_ne hc 110 (by decide), digit_ne hc 78 (by decide), digit_ne hc 105 (by decide), digit_ne hc 73 (by decide),
      isDigit_of_range hc, Bool.or_self, Bool.and_false, Bool.false_eq_true, ↓reduceIte, Bool.not_true, Bool.false_and,
      List.isEmpty_nil, Bool.and_true, Bool.not_false]

/-- "ddd" with value < 2^64 parses to the unsigned integer `value` -/
theorem parse_unsigned (cfg : Cfg) (ds : List UInt8) (hd : AllDigits ds) (hne : ds ≠ []) (hv : decVal ds < 2 ^ 64) :
    parseNumber cfg ds = .uint (decVal ds) := by
  cases ds with
  | nil => exact absurd rfl hne
  | cons c cs =>
    have hc := (AllDigits_cons.mp hd).1
    simp only [parseNumber]
    split
    · rename_i r heq; exact absurd hc (by rw [(List.cons.inj heq).1]; decide)
    · rename_i r heq; exact absurd hc (by rw [(List.cons.inj heq).1]; decide)
    · simp only [takeDigitsMant_digits _ hd hv, List.headD_cons,
        digit_ne hc 110 (by decide), digit_ne hc 78 (by decide), digit_ne hc 105 (by decide), digit_ne hc 73 (by decide),
        isDigit_of_range hc, Bool.or_self, Bool.and_false, Bool.false_eq_true, ↓reduceIte, Bool.not_true, Bool.false_and,
        List.isEmpty_nil, Bool.and_true, Bool.not_false]

/-- leading zeros followed by the canonical digits of `n`: an all-digit, non-empty string of value `n` -/
theorem zeros_digits (k n : Nat) :
    AllDigits (List.replicate k (0x30 : UInt8) ++ JS.digits n) ∧
    List.replicate k (0x30 : UInt8) ++ JS.digits n ≠ [] ∧
    decVal (List.replicate k (0x30 : UInt8) ++ JS.digits n) = n := by
  obtain ⟨h1, h2, h3, _⟩ := digits_spec n
  refine ⟨AllDigits_append.mpr ⟨AllDigits_zeros k, h1⟩, ?_, ?_⟩
  · intro h; exact h3 (List.append_eq_nil_iff.mp h).2
  · rw [decValAux_zeros, h2]
/-! ## inversion: when does `parseNumber` return an integer? -/

theorem range_of_isDigit {c : UInt8} (h : isDigit c = true) : 0x30 ≤ c ∧ c ≤ 0x39 := by
  simpa only [isDigit, Bool.and_eq_true, decide_eq_true_eq] using h

/-- converse of `takeDigitsMant_all`: if the loop consumes the whole string, the string is all digits,
    the result is its exact value, and it fits 64 bits -/
theorem takeDigitsMant_inv (acc m : Nat) (ds : List UInt8) (ha : acc < 2 ^ 64)
    (h : takeDigitsMant (2 ^ 64 - 1) acc ds = (m, [])) :
    AllDigits ds ∧ decValAux acc ds = m ∧ m < 2 ^ 64 := by
  induction ds generalizing acc with
  | nil =>
    rw [takeDigitsMant] at h
    exact ⟨AllDigits_nil, by rw [decValAux_nil]; exact (Prod.mk.inj h).1, by rw [← (Prod.mk.inj h).1]; exact ha⟩
  | cons c cs ih =>
    rw [takeDigitsMant] at h
    by_cases hc : isDigit c = true
    · rw [if_pos hc] at h
      have hr := range_of_isDigit hc
      have hn : 48 ≤ c.toNat ∧ c.toNat ≤ 57 := ⟨UInt8.le_iff_toNat_le.mp hr.1, UInt8.le_iff_toNat_le.mp hr.2⟩
      by_cases g1 : acc > (2 ^ 64 - 1) / 10
      · rw [if_pos g1] at h; exact absurd (Prod.mk.inj h).2 (by simp)
      · rw [if_neg g1] at h
        by_cases g2 : acc * 10 > 2 ^ 64 - 1 - digitVal c
        · rw [if_pos g2] at h; exact absurd (Prod.mk.inj h).2 (by simp)
        · rw [if_neg g2] at h
          rw [digitVal_eq] at g2 h
          obtain ⟨h1, h2, h3⟩ := ih (acc * 10 + (c.toNat - 48)) (by omega) h
          exact ⟨AllDigits_cons.mpr ⟨hr, h1⟩, by rw [decValAux_cons]; exact h2, h3⟩
    · rw [if_neg hc] at h; exact absurd (Prod.mk.inj h).2 (by simp)

/-- the last stage of `parseNumber` (from the trailing-garbage test on), as a function of the values computed before it -/
def finish (neg : Bool) (s : List Byte) (mant : Nat) (e : Int) : PNum :=
  if !s.isEmpty then .invalid else
  (
    if mant == 0 then .f32 (negBits b32 neg 0) else
    if e > (Gen.exponent_max64 : Int) then .f64 (infBits b64 neg) else
    if e < -((Gen.exponent_max64 : Int) + 17) then .f32 (negBits b32 neg 0) else
    let isDouble := e < -(Gen.exponent_max32 : Int) || e > (Gen.exponent_max32 : Int) || mant > Gen.mantissa_max32
    let viaDouble : PNum :=
      match makeFloat b64 pos64 neg64 (ofNat b64 mant) e with
      | none => .fault
      | some r => .f64 (negBits b64 neg r)
    if isDouble then viaDouble
    else
      match makeFloat b32 pos32 neg32 (ofNat b32 mant) e with
      | none => .fault
      | some r => if isInf b32 r then viaDouble else .f32 (negBits b32 neg r)
  )

theorem finish_not_int (neg : Bool) (s : List Byte) (mant : Nat) (e : Int) :
    (∀ m, finish neg s mant e ≠ .uint m) ∧ (∀ v, finish neg s mant e ≠ .sint v) := by
  constructor <;> intro x h <;> simp only [finish] at h <;>
    repeat' (first | contradiction | split at h)


/-- how `parseNumber` strips the sign -/
def SignSplit (s : List UInt8) (neg : Bool) (s' : List UInt8) : Prop :=
  (s = 0x2D :: s' ∧ neg = true) ∨ (s = 0x2B :: s' ∧ neg = false) ∨ (s = s' ∧ neg = false)

/-- the three possible outcomes of `parseNumber cfg s = res` w.r.t. integers -/
def Outcome (res : PNum) (neg : Bool) (s' : List UInt8) (mant : Nat) (rest : List UInt8) : Prop :=
  (res = .uint mant ∧ rest = [] ∧ neg = false ∧ s' ≠ []) ∨
  (res = .sint (-(mant : Int)) ∧ rest = [] ∧ neg = true ∧ mant ≤ 2 ^ 63 ∧ s' ≠ []) ∨
  ((∀ m, res ≠ .uint m) ∧ (∀ v, res ≠ .sint v))

theorem outcome_other {res : PNum} {neg s' mant rest} (h1 : ∀ m, res ≠ .uint m) (h2 : ∀ v, res ≠ .sint v) :
    Outcome res neg s' mant rest := Or.inr (Or.inr ⟨h1, h2⟩)

macro "pn_core" cfg:ident "," h:ident "," r:term "," neg:term : tactic => `(tactic| (
    generalize hr : takeDigitsMant (2 ^ 64 - 1) 0 $r = q at $h:ident ⊢
    obtain ⟨mant, rest⟩ := q
    simp only at $h:ident
    refine ⟨mant, rest, rfl, ?_⟩
    by_cases c1 : (Cfg.nan $cfg && (List.headD $r 0 == 110 || List.headD $r 0 == 78)) = true
    · rw [if_pos c1] at $h:ident; subst $h:ident; exact outcome_other (fun _ e => nomatch e) (fun _ e => nomatch e)
    rw [if_neg c1] at $h:ident
    by_cases c2 : (Cfg.inf $cfg && (List.headD $r 0 == 105 || List.headD $r 0 == 73)) = true
    · rw [if_pos c2] at $h:ident; subst $h:ident; exact outcome_other (fun _ e => nomatch e) (fun _ e => nomatch e)
    rw [if_neg c2] at $h:ident
    by_cases c3 : (!isDigit (List.headD $r 0) && List.headD $r 0 != 46) = true
    · rw [if_pos c3] at $h:ident; subst $h:ident; exact outcome_other (fun _ e => nomatch e) (fun _ e => nomatch e)
    rw [if_neg c3] at $h:ident
    have hne : $r ≠ [] := by intro e; rw [e] at c3; exact c3 (by decide)
    by_cases c4 : (rest.isEmpty && !$neg) = true
    · rw [if_pos c4] at $h:ident; subst $h:ident
      first
      | (simp at c4; done)
      | exact Or.inl ⟨rfl, by simpa using c4, rfl, hne⟩
    rw [if_neg c4] at $h:ident
    by_cases c5 : (rest.isEmpty && $neg && decide (mant ≤ 2 ^ 63)) = true
    · rw [if_pos c5] at $h:ident; subst $h:ident
      first
      | (simp at c5; done)
      | (have c5' : rest = [] ∧ mant ≤ 2 ^ 63 := by simpa using c5
         exact Or.inr (Or.inl ⟨rfl, c5'.1, rfl, c5'.2, hne⟩))
    rw [if_neg c5] at $h:ident
    subst $h:ident
    exact outcome_other (finish_not_int _ _ _ _).1 (finish_not_int _ _ _ _).2))

set_option maxRecDepth 8000 in
theorem parse_inv (cfg : Cfg) (s : List UInt8) :
    ∃ neg s' mant rest, SignSplit s neg s' ∧ takeDigitsMant (2 ^ 64 - 1) 0 s' = (mant, rest) ∧
      Outcome (parseNumber cfg s) neg s' mant rest := by
  generalize hres : parseNumber cfg s = res
  simp only [parseNumber] at hres
  split at hres
  · rename_i r
    refine ⟨true, r, ?_⟩
    suffices ∃ mant rest, takeDigitsMant (2 ^ 64 - 1) 0 r = (mant, rest) ∧ Outcome res true r mant rest by
      obtain ⟨a, b, c, d⟩ := this; exact ⟨a, b, Or.inl ⟨rfl, rfl⟩, c, d⟩
    pn_core cfg, hres, r, true
  · rename_i r
    refine ⟨false, r, ?_⟩
    suffices ∃ mant rest, takeDigitsMant (2 ^ 64 - 1) 0 r = (mant, rest) ∧ Outcome res false r mant rest by
      obtain ⟨a, b, c, d⟩ := this; exact ⟨a, b, Or.inr (Or.inl ⟨rfl, rfl⟩), c, d⟩
    pn_core cfg, hres, r, false
  · refine ⟨false, s, ?_⟩
    suffices ∃ mant rest, takeDigitsMant (2 ^ 64 - 1) 0 s = (mant, rest) ∧ Outcome res false s mant rest by
      obtain ⟨a, b, c, d⟩ := this; exact ⟨a, b, Or.inr (Or.inr ⟨rfl, rfl⟩), c, d⟩
    pn_core cfg, hres, s, false

/-- `parseNumber` returns an unsigned integer exactly on non-empty digit strings (optionally preceded by '+')
    whose value fits 64 bits, and the result is that value -/
theorem uint_iff (cfg : Cfg) (s : List UInt8) (m : Nat) :
    parseNumber cfg s = .uint m ↔
      ∃ ds, (s = ds ∨ s = 0x2B :: ds) ∧ ds ≠ [] ∧ AllDigits ds ∧ decVal ds = m ∧ m < 2 ^ 64 := by
  constructor
  · intro h
    obtain ⟨neg, s', mant, rest, hs, ht, ho⟩ := parse_inv cfg s
    rw [h] at ho
    rcases ho with ⟨e, hrest, hneg, hne⟩ | ⟨e, _⟩ | ⟨h1, _⟩
    · cases e
      subst hrest
      obtain ⟨a, b, c⟩ := takeDigitsMant_inv 0 m s' (by decide) ht
      refine ⟨s', ?_, hne, a, b, c⟩
      rcases hs with ⟨_, e⟩ | ⟨e, _⟩ | ⟨e, _⟩
      · rw [hneg] at e; contradiction
      · exact Or.inr e
      · exact Or.inl e
    · contradiction
    · exact absurd rfl (h1 m)
  · rintro ⟨ds, hs, hne, hd, hv, hm⟩
    rcases hs with rfl | rfl
    · rw [parse_unsigned cfg _ hd hne (by omega), hv]
    · rw [parse_plus cfg _ hd hne (by omega), hv]

/-- `parseNumber` returns a signed integer exactly on '-' followed by a non-empty digit string of value ≤ 2^63,
    and the result is minus that value -/
theorem sint_iff (cfg : Cfg) (s : List UInt8) (v : Int) :
    parseNumber cfg s = .sint v ↔
      ∃ ds, s = 0x2D :: ds ∧ ds ≠ [] ∧ AllDigits ds ∧ decVal ds ≤ 2 ^ 63 ∧ v = -(decVal ds : Int) := by
  constructor
  · intro h
    obtain ⟨neg, s', mant, rest, hs, ht, ho⟩ := parse_inv cfg s
    rw [h] at ho
    rcases ho with ⟨e, _⟩ | ⟨e, hrest, hneg, hle, hne⟩ | ⟨_, h2⟩
    · contradiction
    · cases e
      subst hrest
      obtain ⟨a, b, _⟩ := takeDigitsMant_inv 0 mant s' (by decide) ht
      have b' : decVal s' = mant := b
      refine ⟨s', ?_, hne, a, by rw [b']; exact hle, by rw [b']⟩
      rcases hs with ⟨e, _⟩ | ⟨_, e⟩ | ⟨_, e⟩
      · exact e
      · rw [hneg] at e; contradiction
      · rw [hneg] at e; contradiction
    · exact absurd rfl (h2 v)
  · rintro ⟨ds, rfl, hne, hd, hv, rfl⟩
    exact parse_minus cfg _ hd hne hv
end Digits
