/- The allocator identity (`Doc.alloc`, the tag of the allocator a document was constructed with) and the string-node overhead
   and the string-length limit `maxStrLen`
   are never changed by a document operation: scalar stores, allocation, release, clearing, adding and removing elements and
   members, the deep copy, `clearAll`.
   Used by AJ/Props/C04DocCopy.lean: the copy built by `copydoc` keeps the allocator it was created with. -/
import AJ.Model.DL
namespace DL
open JD (Byte)

/-- the construction-time constants of a document -/
def SameId (d d' : Doc) : Prop := d'.alloc = d.alloc ∧ d'.strOverhead = d.strOverhead ∧ d'.g = d.g ∧ d'.maxStrLen = d.maxStrLen

theorem SameId.refl (d : Doc) : SameId d d := ⟨rfl, rfl, rfl, rfl⟩
theorem SameId.trans {a b c : Doc} (h1 : SameId a b) (h2 : SameId b c) : SameId a c :=
  ⟨h2.1.trans h1.1, h2.2.1.trans h1.2.1, h2.2.2.1.trans h1.2.2.1, h2.2.2.2.trans h1.2.2.2⟩

theorem sameId_set (d : Doc) (l : Loc) (v : VData) : SameId d (d.set l v) := by cases l <;> exact ⟨rfl, rfl, rfl, rfl⟩

theorem sameId_setNext (d : Doc) (i n : Nat) : SameId d (d.setNext i n) := by
  simp only [Doc.setNext]; split <;> exact ⟨rfl, rfl, rfl, rfl⟩

theorem sameId_derefString (d : Doc) (n : Nat) : SameId d (d.derefString n) := by
  simp only [Doc.derefString]
  split
  · exact SameId.refl d
  · split <;> exact ⟨rfl, rfl, rfl, rfl⟩

theorem sameId_saveString (d : Doc) (s : List Byte) : SameId d (d.saveString s).2 := by
  simp only [Doc.saveString]
  split
  · exact ⟨rfl, rfl, rfl, rfl⟩
  · split
    · exact ⟨rfl, rfl, rfl, rfl⟩
    · generalize d.pl.alloc (s.length + d.strOverhead) = q
      obtain ⟨ok, pl⟩ := q
      simp only
      split <;> exact ⟨rfl, rfl, rfl, rfl⟩

theorem sameId_allocExt (d : Doc) (p : Int) : SameId d (d.allocExt p).2 := by
  simp only [Doc.allocExt]; split <;> exact ⟨rfl, rfl, rfl, rfl⟩

theorem sameId_allocVariant (d : Doc) : SameId d d.allocVariant.2 := by
  simp only [Doc.allocVariant]; split <;> exact ⟨rfl, rfl, rfl, rfl⟩

theorem sameId_freeCell (d : Doc) (id : Nat) : SameId d (d.freeCell id) := ⟨rfl, rfl, rfl, rfl⟩

theorem sameId_walkFree (free1 : Doc → Nat → Doc) (h1 : ∀ d id, SameId d (free1 d id)) :
    ∀ (w : Nat) (d : Doc) (id : Nat), SameId d (walkFree free1 w d id) := by
  intro w
  induction w with
  | zero => intro d id; exact SameId.refl d
  | succ w ih =>
    intro d id
    simp only [walkFree]
    split
    · exact SameId.refl d
    · exact (h1 d id).trans (ih _ _)

theorem sameId_clearVF : ∀ (f : Nat) (d : Doc) (l : Loc), SameId d (Doc.clearVF f d l) := by
  intro f
  induction f with
  | zero => intro d l; exact sameId_set d l .null
  | succ f ih =>
    intro d l
    simp only [Doc.clearVF]
    generalize d.get l = v
    cases v <;> simp only
    all_goals first
      | exact sameId_set _ _ _
      | exact (sameId_derefString _ _).trans (sameId_set _ _ _)
      | exact (sameId_freeCell _ _).trans (sameId_set _ _ _)
      | exact (sameId_walkFree _ (fun d id => (ih d (.slot id)).trans (sameId_freeCell _ id)) _ _ _).trans (sameId_set _ _ _)

theorem sameId_clearV (d : Doc) (l : Loc) : SameId d (d.clearV l) := sameId_clearVF _ d l

theorem sameId_freeVariant (d : Doc) (id : Nat) : SameId d (d.freeVariant id) :=
  (sameId_clearV d (.slot id)).trans (sameId_freeCell _ id)

theorem sameId_setArg (d : Doc) (l : Loc) (a : Arg) : SameId d (d.setArg l a).2 := by
  have ext : ∀ (p : Int) (k : Nat → VData), SameId d (match d.allocExt p with
      | (some s, d) => (true, d.set l (k s)) | (none, d) => (false, d)).2 := by
    intro p k
    have := sameId_allocExt d p
    generalize d.allocExt p = r at this ⊢
    obtain ⟨m, d1⟩ := r
    cases m
    · exact this
    · exact this.trans (sameId_set _ _ _)
  have str : ∀ (s : List Byte) (k : Nat → VData), SameId d (match d.saveString s with
      | (some n, d) => (let d := d.set l (k n); (!d.overflowed, d)) | (none, d) => (!d.overflowed, d)).2 := by
    intro s k
    have := sameId_saveString d s
    generalize d.saveString s = r at this ⊢
    obtain ⟨m, d1⟩ := r
    cases m
    · exact this
    · exact this.trans (sameId_set _ _ _)
  cases a with
  | null => exact SameId.refl d
  | bool b => exact sameId_set _ _ _
  | f32 b => exact sameId_set _ _ _
  | strLinked s => exact sameId_set _ _ _
  | sint v => simp only [Doc.setArg]; split; exact sameId_set _ _ _; exact ext v .i64
  | uint v => simp only [Doc.setArg]; split; exact sameId_set _ _ _; exact ext v .u64
  | f64 b =>
    simp only [Doc.setArg]; split
    · exact sameId_set _ _ _
    · exact ext b .f64
  | strCopied s => simp only [Doc.setArg]; exact str s .owned
  | raw s => simp only [Doc.setArg]; exact str s .raw

theorem sameId_appendOne (d : Doc) (l : Loc) (id : Nat) : SameId d (d.appendOne l id) := by
  simp only [Doc.appendOne]
  split
  · split
    · exact (sameId_setNext _ _ _).trans (sameId_set _ _ _)
    · exact sameId_set _ _ _
  · exact SameId.refl d

theorem sameId_appendPair (d : Doc) (l : Loc) (k v : Nat) : SameId d (d.appendPair l k v) := by
  simp only [Doc.appendPair]
  refine (sameId_setNext d k v).trans ?_
  split
  · split
    · exact (sameId_setNext _ _ _).trans (sameId_set _ _ _)
    · exact sameId_set _ _ _
  · exact SameId.refl _

theorem sameId_addMember (d : Doc) (l : Loc) (key : List Byte) (linked : Bool) : SameId d (d.addMember l key linked).2 := by
  simp only [Doc.addMember]
  have h1 := sameId_allocVariant d
  generalize d.allocVariant = r1 at h1 ⊢
  obtain ⟨m1, d1⟩ := r1
  cases m1 with
  | none => exact h1
  | some k =>
    simp only
    have h2 := sameId_allocVariant d1
    generalize d1.allocVariant = r2 at h2 ⊢
    obtain ⟨m2, d2⟩ := r2
    cases m2 with
    | none => exact h1.trans h2
    | some v =>
      simp only
      split
      · exact h1.trans (h2.trans ((sameId_set _ _ _).trans (sameId_appendPair _ _ _ _)))
      · have h3 := sameId_saveString d2 key
        generalize d2.saveString key = r3 at h3 ⊢
        obtain ⟨m3, d3⟩ := r3
        cases m3 with
        | none => exact h1.trans (h2.trans h3)
        | some n => exact h1.trans (h2.trans (h3.trans ((sameId_set _ _ _).trans (sameId_appendPair _ _ _ _))))

theorem sameId_getOrAddMember (d : Doc) (l : Loc) (key : List Byte) (linked : Bool) :
    SameId d (d.getOrAddMember l key linked).2 := by
  unfold Doc.getOrAddMember
  extract_lets d0
  have h0 : SameId d d0 := by
    simp only [d0]
    split
    · exact sameId_set _ _ _
    · exact SameId.refl d
  clear_value d0
  split
  · split
    · exact h0
    · exact h0.trans (sameId_addMember _ _ _ _)
  · exact h0

theorem sameId_copyElems (l : Loc) (copy : Doc → Nat → Nat → Doc) (hc : ∀ d a b, SameId d (copy d a b)) :
    ∀ (es : List Nat) (d : Doc), SameId d (copyElems l copy d es) := by
  intro es
  induction es with
  | nil => intro d; exact SameId.refl d
  | cons e rest ih =>
    intro d
    simp only [copyElems]
    have h1 := sameId_allocVariant d
    generalize d.allocVariant = r1 at h1 ⊢
    obtain ⟨m1, d1⟩ := r1
    cases m1 with
    | none => exact h1
    | some id =>
      simp only
      split
      · exact h1.trans ((hc _ _ _).trans (sameId_freeVariant _ _))
      · exact h1.trans ((hc _ _ _).trans ((sameId_appendOne _ _ _).trans (ih _)))

theorem sameId_copyMembers (l : Loc) (src : Doc) (copy : Doc → Nat → Nat → Doc) (hc : ∀ d a b, SameId d (copy d a b)) :
    ∀ (n : Nat) (ks : List Nat) (d : Doc), ks.length ≤ n → SameId d (copyMembers l src copy d ks) := by
  intro n
  induction n with
  | zero =>
    intro ks d h
    have : ks = [] := List.length_eq_zero_iff.mp (Nat.le_zero.mp h)
    subst this
    simp only [copyMembers]; exact SameId.refl d
  | succ n ih =>
    intro ks d h
    match ks with
    | [] => simp only [copyMembers]; exact SameId.refl d
    | [_] => simp only [copyMembers]; exact SameId.refl d
    | k :: v :: rest =>
      simp only [copyMembers]
      generalize src.keyOf k = kk
      obtain ⟨key, linked⟩ := kk
      simp only
      have h1 := sameId_getOrAddMember d l key linked
      generalize d.getOrAddMember l key linked = r1 at h1 ⊢
      obtain ⟨m1, d1⟩ := r1
      cases m1 with
      | none => exact h1
      | some m =>
        simp only
        split
        · exact h1.trans (hc _ _ _)
        · exact h1.trans ((hc _ _ _).trans (ih rest _ (by simp only [List.length_cons] at h; omega)))

theorem sameId_copyIntoF : ∀ (f : Nat) (d : Doc) (l : Loc) (src : Doc) (sv : VData), SameId d (copyIntoF f d l src sv) := by
  intro f
  induction f with
  | zero => intro d l src sv; simp only [copyIntoF]; exact sameId_clearV d l
  | succ f ih =>
    intro d l src sv
    simp only [copyIntoF]
    have h0 := sameId_clearV d l
    generalize d.clearV l = d0 at h0 ⊢
    cases sv with
    | arr h t =>
      simp only
      exact h0.trans ((sameId_set d0 l (.arr d0.null d0.null)).trans
        (sameId_copyElems l _ (fun d a b => ih d _ src _) _ _))
    | obj h t =>
      simp only
      exact h0.trans ((sameId_set d0 l (.obj d0.null d0.null)).trans
        (sameId_copyMembers l src _ (fun d a b => ih d _ src _) _ _ _ (Nat.le_refl _)))
    | null => exact h0
    | _ => exact h0.trans (sameId_setArg _ _ _)

/-- the deep copy keeps the allocator identity, the string overhead and the geometry of its DESTINATION -/
theorem sameId_copyInto (d : Doc) (l : Loc) (src : Doc) (sv : VData) : SameId d (copyInto d l src sv) :=
  sameId_copyIntoF _ d l src sv

theorem sameId_clearAll (d : Doc) : SameId d d.clearAll := ⟨rfl, rfl, rfl, rfl⟩

theorem sameId_addElement (d : Doc) (l : Loc) : SameId d (d.addElement l).2 := by
  simp only [Doc.addElement]
  have h1 := sameId_allocVariant d
  generalize d.allocVariant = r1 at h1 ⊢
  obtain ⟨m1, d1⟩ := r1
  cases m1 with
  | none => exact h1
  | some id => exact h1.trans (sameId_appendOne _ _ _)

theorem sameId_pad (l : Loc) : ∀ (fuel : Nat) (d : Doc) (n : Nat) (last : Option Nat),
    SameId d (Doc.getOrAddElement.pad l fuel d n last).2 := by
  intro fuel
  induction fuel with
  | zero => intro d n last; exact SameId.refl d
  | succ fuel ih =>
    intro d n last
    simp only [Doc.getOrAddElement.pad]
    split
    · exact SameId.refl d
    · have h1 := sameId_addElement d l
      generalize d.addElement l = r1 at h1 ⊢
      obtain ⟨m1, d1⟩ := r1
      cases m1 with
      | none => exact h1
      | some id => exact h1.trans (ih _ _ _)

theorem sameId_getOrAddElement (d : Doc) (l : Loc) (index : Nat) : SameId d (d.getOrAddElement l index).2 := by
  unfold Doc.getOrAddElement
  extract_lets d0
  have h0 : SameId d d0 := by
    simp only [d0]
    split
    · exact sameId_set _ _ _
    · exact SameId.refl d
  clear_value d0
  split
  · extract_lets ch
    split
    · exact h0
    · exact h0.trans (sameId_pad l _ _ _ _)
  · exact h0

theorem sameId_removeOne (d : Doc) (l : Loc) (id : Nat) : SameId d (d.removeOne l id) := by
  have pre : ∀ (o : Option Nat) (n : Nat), SameId d (match o with | some p => d.setNext p n | none => d) := by
    intro o n
    cases o with
    | none => exact SameId.refl d
    | some p => exact sameId_setNext _ _ _
  simp only [Doc.removeOne]
  split
  · exact (pre _ _).trans ((sameId_set _ _ _).trans (sameId_freeVariant _ _))
  · exact (pre _ _).trans ((sameId_set _ _ _).trans (sameId_freeVariant _ _))
  · exact SameId.refl d

theorem sameId_removePair (d : Doc) (l : Loc) (k v : Nat) : SameId d (d.removePair l k v) := by
  simp only [Doc.removePair]
  exact (sameId_setNext _ _ _).trans ((sameId_freeVariant _ _).trans (sameId_removeOne _ _ _))

end DL
