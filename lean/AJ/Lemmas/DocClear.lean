/- `clearV` on a collection: induction over `walkFree`/`clearVF` along the ghost forest. Used by AJ/Props/C04.lean. -/
import AJ.Lemmas.DocOps2
namespace DL
open JD (Byte Val)

/-! ## Effects: slots released, string references dropped -/

/-- `Eff d d' fp keep`: `d'` is `d` after the slots `fp` were released to the pool and some string references were
    dropped, `keep` being the references that remain -/
structure Eff (d d' : Doc) (fp keep : List Nat) : Prop where
  g : d'.g = d.g
  root : d'.root = d.root
  cells : ∀ j, j ∉ fp → d'.cell j = d.cell j
  pool : PL.Inv d'.g d'.pl
  live : ∀ x, PL.live d'.g d'.pl x ↔ PL.live d.g d.pl x ∧ x ∉ fp
  str : StrOK d' keep
  bytes : ∀ n ∈ keep, d'.strBytes n = d.strBytes n

theorem Eff.refl {d : Doc} {keep : List Nat} (hp : PL.Inv d.g d.pl) (hs : StrOK d keep) : Eff d d [] keep :=
  ⟨rfl, rfl, fun _ _ => rfl, hp, fun x => by simp, hs, fun _ _ => rfl⟩

theorem Eff.trans {d d1 d2 : Doc} {fp1 fp2 keep1 keep : List Nat} (h1 : Eff d d1 fp1 keep1) (h2 : Eff d1 d2 fp2 keep)
    (hk : ∀ n ∈ keep, n ∈ keep1) : Eff d d2 (fp1 ++ fp2) keep := by
  refine ⟨by rw [h2.g, h1.g], by rw [h2.root, h1.root], ?_, h2.pool, ?_, h2.str, ?_⟩
  · intro j hj
    simp only [List.mem_append, not_or] at hj
    rw [h2.cells j hj.2, h1.cells j hj.1]
  · intro x
    rw [h2.live x, h1.live x]
    simp only [List.mem_append, not_or, and_assoc]
  · intro n hn
    rw [h2.bytes n hn, h1.bytes n (hk n hn)]

theorem Eff.null {d d' : Doc} {fp keep : List Nat} (h : Eff d d' fp keep) : d'.null = d.null := by
  simp only [Doc.null, h.g]

theorem Eff.of_rel {d d1 : Doc} {v : VData} {keep : List Nat} (h : RelSpec d d1 v keep) : Eff d d1 (extOfV v) keep :=
  ⟨h.1, h.2.1, h.2.2.1, h.2.2.2.1, h.2.2.2.2.1, h.2.2.2.2.2.1, h.2.2.2.2.2.2⟩

/-- after the effect, setting slot `id` and releasing it -/
theorem Eff.set_free {d dm : Doc} {fp keep : List Nat} {id : Nat} {v : VData} (h : Eff d dm fp keep)
    (hl : PL.live d.g d.pl id) (hid : id ∉ fp) :
    Eff d ((dm.set (.slot id) v).freeCell id) (fp ++ [id]) keep := by
  have hlm : PL.live dm.g dm.pl id := (h.live id).2 ⟨hl, hid⟩
  obtain ⟨b1, b2⟩ := PL.freeSlot_ok h.pool hlm
  refine ⟨h.g, h.root, ?_, b1, ?_, StrOK_congr (d := dm) rfl rfl h.str, fun n hn => h.bytes n hn⟩
  · intro j hj
    simp only [List.mem_append, List.mem_singleton, not_or] at hj
    rw [cell_freeCell, if_neg (Ne.symm hj.2), cell_set_slot, if_neg (Ne.symm hj.2), h.cells j hj.1]
  · intro x
    show PL.live dm.g (PL.freeSlot dm.pl id) x ↔ _
    rw [b2 x, h.live x]
    simp only [List.mem_append, List.mem_singleton, not_or, and_assoc]

theorem Eff.agree {d d1 : Doc} {fp keep : List Nat} (h : Eff d d1 fp keep) {js : List Nat} (hdisj : ∀ j ∈ js, j ∉ fp) :
    Agree d d1 js :=
  ⟨h.null, fun j hj => h.cells j (hdisj j hj)⟩

/-! ## Footprint of a sub-layout -/

/-- slots released when the chain laid out as `F` is cleared, in the order in which `walkFree` releases them -/
def fpF (d : Doc) : Forest → List Nat
  | .nil => []
  | .cons key i s r =>
    (match key with | none => [] | some k => (extOfV (d.get (.slot k)) ++ []) ++ [k]) ++
      ((extOfV (d.get (.slot i)) ++ fpF d s) ++ [i]) ++ fpF d r
/-- string references dropped when the chain laid out as `F` is cleared (pre-order) -/
def goneF (d : Doc) (F : Forest) : List Nat := F.ids.flatMap (fun j => strOfV (d.get (.slot j)))

theorem fpF_congr {d d' : Doc} (F : Forest) (hg : ∀ j ∈ F.ids, d'.get (.slot j) = d.get (.slot j)) : fpF d' F = fpF d F := by
  induction F with
  | nil => rfl
  | cons key i s r ihs ihr =>
    have hi := hg i (by simp [Forest.ids])
    have hs := ihs (fun j hj => hg j (by simp [Forest.ids, hj]))
    have hr := ihr (fun j hj => hg j (by simp [Forest.ids, hj]))
    cases key with
    | none => simp only [fpF, hi, hs, hr]
    | some k =>
      have hk := hg k (by simp [Forest.ids, Forest.keyL])
      simp only [fpF, hi, hs, hr, hk]

theorem goneF_congr {d d' : Doc} (F : Forest) (hg : ∀ j ∈ F.ids, d'.get (.slot j) = d.get (.slot j)) :
    goneF d' F = goneF d F :=
  flatMap_congr' _ (fun j hj => by rw [hg j hj])

theorem ids_sub_fpF (d : Doc) (F : Forest) : ∀ x ∈ F.ids, x ∈ fpF d F := by
  induction F with
  | nil => intro x h; cases h
  | cons key i s r ihs ihr =>
    intro x hx
    simp only [Forest.ids, List.mem_append, List.mem_cons] at hx
    simp only [fpF, List.mem_append, List.mem_singleton]
    rcases hx with hx | hx | hx | hx
    · cases key with
      | none => cases hx
      | some k =>
        simp only [Forest.keyL, List.mem_singleton] at hx
        simp [hx]
    · exact Or.inl (Or.inr (Or.inr hx))
    · exact Or.inl (Or.inr (Or.inl (Or.inr (ihs x hx))))
    · exact Or.inr (ihr x hx)

theorem goneF_cons (d : Doc) (key : Option Nat) (i : Nat) (s r : Forest) :
    goneF d (.cons key i s r) =
      (Forest.keyL key).flatMap (fun j => strOfV (d.get (.slot j))) ++
        (strOfV (d.get (.slot i)) ++ (goneF d s ++ goneF d r)) := by
  simp only [goneF, Forest.ids, List.flatMap_append, List.flatMap_cons]

/-! ## Unfolding `clearVF` -/

theorem clearVF_arr {d : Doc} {l : Loc} {f h t : Nat} (hv : d.get l = .arr h t) :
    Doc.clearVF (f+1) d l =
      (walkFree (fun d id => (Doc.clearVF f d (.slot id)).freeCell id) d.fuel d h).set l .null := by
  simp only [Doc.clearVF, hv]
theorem clearVF_obj {d : Doc} {l : Loc} {f h t : Nat} (hv : d.get l = .obj h t) :
    Doc.clearVF (f+1) d l =
      (walkFree (fun d id => (Doc.clearVF f d (.slot id)).freeCell id) d.fuel d h).set l .null := by
  simp only [Doc.clearVF, hv]
theorem clearVF_scalar {d : Doc} {l : Loc} {f : Nat} (h : ¬ isColl (d.get l)) :
    Doc.clearVF (f+1) d l = (releaseV d (d.get l)).set l .null := by
  simp only [Doc.clearVF]
  cases hv : d.get l <;> first | rfl | (rw [hv] at h; exact absurd trivial h)

theorem walkFree_null (free1 : Doc → Nat → Doc) (w : Nat) (d : Doc) : walkFree free1 w d d.null = d := by
  cases w <;> simp [walkFree]
theorem walkFree_succ (free1 : Doc → Nat → Doc) (w : Nat) (d : Doc) {id : Nat} (h : id ≠ d.null) :
    walkFree free1 (w+1) d id = walkFree free1 w (free1 d id) (d.nextOf id) := by
  simp only [walkFree, if_neg h]

/-! ## The induction -/

/-- the slot-releasing step of `CollectionData::clear` at descent fuel `f` -/
def free1 (f : Nat) : Doc → Nat → Doc := fun d id => (Doc.clearVF f d (.slot id)).freeCell id

/-- statement for a chain laid out as `s` -/
def PCs (s : Forest) : Prop :=
  ∀ (f w : Nat) (d : Doc) (b : Bool) (start : Nat) (keep : List Nat),
    Lk d b start s → s.depth ≤ f → s.top.length ≤ w → s.ids.length ≤ d.fuel → PL.Inv d.g d.pl →
    (∀ x ∈ fpF d s, PL.live d.g d.pl x) → (fpF d s).Nodup → StrOK d (goneF d s ++ keep) →
    Eff d (walkFree (free1 f) w d start) (fpF d s) keep

theorem PCs_nil : PCs .nil := by
  intro f w d b start keep hl _ _ _ hp _ _ hs
  rw [Lk_nil] at hl; subst hl
  rw [walkFree_null]
  exact Eff.refl hp hs

/-- clearing the value at `l` laid out as `s`, given the statement for its chain -/
theorem PV_of_PC {s : Forest} (hpc : PCs s) {f : Nat} {d : Doc} {l : Loc} {keep : List Nat}
    (hv : VOK d (d.get l) s) (hd : s.depth < f) (hfu : s.ids.length ≤ d.fuel) (hp : PL.Inv d.g d.pl)
    (hlive : ∀ x ∈ extOfV (d.get l) ++ fpF d s, PL.live d.g d.pl x)
    (hnd : (extOfV (d.get l) ++ fpF d s).Nodup)
    (hs : StrOK d (strOfV (d.get l) ++ (goneF d s ++ keep))) :
    ∃ dm, Doc.clearVF f d l = dm.set l .null ∧ Eff d dm (extOfV (d.get l) ++ fpF d s) keep := by
  obtain ⟨f', rfl⟩ : ∃ f', f = f' + 1 := ⟨f - 1, by omega⟩
  have htop : s.top.length ≤ d.fuel := Nat.le_trans s.top_length_le hfu
  by_cases hc : isColl (d.get l)
  · cases hg : d.get l <;> rw [hg] at hc hv hlive hnd hs <;> try exact absurd hc (fun h => h)
    · rename_i h t
      obtain ⟨hlk, _⟩ := (VOK_arr _ _ _ _).1 hv
      exact ⟨_, clearVF_arr hg, hpc f' d.fuel d false h keep hlk (by omega) htop hfu hp hlive hnd hs⟩
    · rename_i h t
      obtain ⟨hlk, _⟩ := (VOK_obj _ _ _ _).1 hv
      exact ⟨_, clearVF_obj hg, hpc f' d.fuel d true h keep hlk (by omega) htop hfu hp hlive hnd hs⟩
  · have hnil : s = .nil := (VOK_scalar hc _).1 hv
    subst hnil
    refine ⟨_, clearVF_scalar hc, ?_⟩
    simp only [fpF, List.append_nil] at hlive hnd ⊢
    have hs' : StrOK d (strOfV (d.get l) ++ keep) := by simpa [goneF, Forest.ids] using hs
    exact Eff.of_rel (releaseV_spec hp hs' hlive)

/-- one step of the walk: the value in slot `i` (laid out as `s`) is cleared and the slot released -/
theorem step_slot {s : Forest} (hpc : PCs s) {f : Nat} {d : Doc} {i : Nat} {keep : List Nat}
    (hv : VOK d (d.get (.slot i)) s) (hd : s.depth < f) (hfu : s.ids.length ≤ d.fuel) (hp : PL.Inv d.g d.pl)
    (hlive : ∀ x ∈ (extOfV (d.get (.slot i)) ++ fpF d s) ++ [i], PL.live d.g d.pl x)
    (hnd : ((extOfV (d.get (.slot i)) ++ fpF d s) ++ [i]).Nodup)
    (hs : StrOK d (strOfV (d.get (.slot i)) ++ (goneF d s ++ keep))) :
    Eff d (free1 f d i) ((extOfV (d.get (.slot i)) ++ fpF d s) ++ [i]) keep := by
  obtain ⟨hnd1, _, hdisj⟩ := List.nodup_append.1 hnd
  obtain ⟨dm, hdm, he⟩ := PV_of_PC hpc (l := .slot i) hv hd hfu hp
    (fun x hx => hlive x (List.mem_append_left _ hx)) hnd1 hs
  simp only [free1, hdm]
  exact he.set_free (hlive i (by simp)) (fun m => hdisj i m i (by simp) rfl)

theorem PCs_all (F : Forest) : PCs F := by
  induction F with
  | nil => exact PCs_nil
  | cons key i s r ihs ihr =>
    intro f w d b start keep hl hd hw hfu hp hlive hnd hs
    rw [Lk_cons] at hl
    obtain ⟨h1, h2, h3, h4, h5⟩ := hl
    simp only [Forest.depth] at hd
    simp only [Forest.ids, List.length_append, List.length_cons] at hfu
    rw [goneF_cons] at hs
    -- generic continuation: after the key part (`dk`), process slot `i`, then the rest of the chain
    have cont : ∀ (dk : Doc) (fpk : List Nat) (w' : Nat),
        Eff d dk fpk (strOfV (d.get (.slot i)) ++ (goneF d s ++ (goneF d r ++ keep))) →
        (∀ x ∈ (extOfV (d.get (.slot i)) ++ fpF d s) ++ [i], x ∉ fpk) → (∀ x ∈ fpF d r, x ∉ fpk) →
        (∀ x ∈ (extOfV (d.get (.slot i)) ++ fpF d s) ++ [i], PL.live d.g d.pl x) →
        (∀ x ∈ fpF d r, PL.live d.g d.pl x) →
        ((extOfV (d.get (.slot i)) ++ fpF d s) ++ [i] ++ fpF d r).Nodup →
        r.top.length ≤ w' →
        Eff d (walkFree (free1 f) (w'+1) dk i) (fpk ++ (((extOfV (d.get (.slot i)) ++ fpF d s) ++ [i]) ++ fpF d r)) keep := by
      intro dk fpk w' hek hdk1 hdk2 hl1 hl2 hnd12 hw'
      obtain ⟨hndi, hndr, hdir⟩ := List.nodup_append.1 hnd12
      have hii : i ∈ (extOfV (d.get (.slot i)) ++ fpF d s) ++ [i] := by simp
      have hsub : ∀ x ∈ s.ids, x ∈ (extOfV (d.get (.slot i)) ++ fpF d s) ++ [i] := fun x hx => by
        simp only [List.mem_append]; exact Or.inl (Or.inr (ids_sub_fpF d s x hx))
      have hci : dk.cell i = d.cell i := hek.cells i (hdk1 i hii)
      have hgi : dk.get (.slot i) = d.get (.slot i) := get_of_cell hci
      have ags : Agree d dk s.ids := hek.agree (fun x hx => hdk1 x (hsub x hx))
      have hgs : ∀ x ∈ s.ids, dk.get (.slot x) = d.get (.slot x) := fun x hx => get_of_cell (ags.cell x hx)
      have hfk : dk.fuel = d.fuel := by simp only [Doc.fuel, hek.g]
      rw [walkFree_succ _ _ _ (by rw [hek.null]; exact h2), nextOf_of_cell hci hek.null]
      -- slot i in dk
      have e1 : Eff dk (free1 f dk i) ((extOfV (d.get (.slot i)) ++ fpF d s) ++ [i]) (goneF d r ++ keep) := by
        have := step_slot ihs (f := f) (d := dk) (i := i) (keep := goneF d r ++ keep)
          (by rw [hgi]; exact VOK_congr ags h5) (by omega) (by rw [hfk]; omega) hek.pool
          (by rw [hgi, fpF_congr s hgs]; intro x hx; exact (hek.live x).2 ⟨hl1 x hx, hdk1 x hx⟩)
          (by rw [hgi, fpF_congr s hgs]; exact hndi)
          (by rw [hgi, goneF_congr s hgs]; exact hek.str)
        rw [hgi, fpF_congr s hgs] at this
        exact this
      have e2 := hek.trans e1 (fun n hn => by simp only [List.mem_append] at hn ⊢; exact Or.inr (Or.inr hn))
      -- the rest of the chain
      have hout : ∀ x ∈ r.ids, x ∉ fpk ++ ((extOfV (d.get (.slot i)) ++ fpF d s) ++ [i]) := by
        intro x hx m
        have hxr := ids_sub_fpF d r x hx
        rcases List.mem_append.1 m with m | m
        · exact hdk2 x hxr m
        · exact hdir x m x hxr rfl
      have agr : Agree d (free1 f dk i) r.ids := e2.agree hout
      have hgr : ∀ x ∈ r.ids, (free1 f dk i).get (.slot x) = d.get (.slot x) := fun x hx => get_of_cell (agr.cell x hx)
      have e3 := ihr f w' (free1 f dk i) b (d.nextOf i) keep (Lk_congr r agr h4) (by omega) hw'
        (by simp only [Doc.fuel, e2.g]; simp only [Doc.fuel] at hfu; omega) e2.pool
        (by
          rw [fpF_congr r hgr]; intro x hx
          refine (e2.live x).2 ⟨hl2 x hx, ?_⟩
          intro m
          rcases List.mem_append.1 m with m | m
          · exact hdk2 x hx m
          · exact hdir x m x hx rfl)
        (by rw [fpF_congr r hgr]; exact hndr)
        (by rw [goneF_congr r hgr]; exact e2.str)
      rw [fpF_congr r hgr] at e3
      have := e2.trans e3 (fun n hn => by simp only [List.mem_append]; exact Or.inr hn)
      simpa only [List.append_assoc] using this
    cases b <;> cases key <;> simp only [KeyOK] at h1
    · -- array element
      subst h1
      simp only [Forest.top, Forest.keyL, List.nil_append, List.length_cons] at hw
      simp only [fpF, List.nil_append, Forest.keyL, List.flatMap_nil] at hlive hnd hs ⊢
      simp only [List.append_assoc] at hs
      obtain ⟨w', rfl⟩ : ∃ w', w = w' + 1 := ⟨w - 1, by omega⟩
      have := cont d [] w' (Eff.refl hp hs) (fun _ _ m => by cases m) (fun _ _ m => by cases m)
        (fun x hx => hlive x (List.mem_append_left _ hx)) (fun x hx => hlive x (List.mem_append_right _ hx))
        hnd (by omega)
      simpa only [List.nil_append] using this
    · -- object member: key slot first
      rename_i k
      obtain ⟨rfl, hk2, hk3, hk4, hk5⟩ := h1
      simp only [Forest.top, Forest.keyL, List.cons_append, List.nil_append, List.length_cons] at hw
      simp only [fpF, Forest.keyL, List.flatMap_cons, List.flatMap_nil, List.append_nil] at hlive hnd hs ⊢
      simp only [List.append_assoc] at hs
      obtain ⟨w', rfl⟩ : ∃ w', w = w' + 2 := ⟨w - 2, by omega⟩
      obtain ⟨hndk, hndrest, hdk⟩ := List.nodup_append.1 hnd
      obtain ⟨hndk', hndrest', hdk'⟩ := List.nodup_append.1 hndk
      have hkcoll : ¬ isColl (d.get (.slot start)) := by
        intro hc; cases hv : d.get (.slot start) <;> rw [hv] at hc hk4 <;> first | exact hc | exact hk4
      have ek := step_slot PCs_nil (f := f) (d := d) (i := start)
        (keep := strOfV (d.get (.slot i)) ++ (goneF d s ++ (goneF d r ++ keep)))
        ((VOK_scalar hkcoll _).2 rfl) (by simp only [Forest.depth]; omega) (by simp [Forest.ids]) hp
        (by
          simp only [fpF, List.append_nil]
          intro x hx; exact hlive x (List.mem_append_left _ (List.mem_append_left _ hx)))
        (by simp only [fpF, List.append_nil]; exact hndk')
        (by simpa [goneF, Forest.ids] using hs)
      simp only [fpF, List.append_nil] at ek
      rw [walkFree_succ _ _ _ hk2, hk5]
      have := cont (free1 f d start) (extOfV (d.get (.slot start)) ++ [start]) w' ek
        (fun x hx m => hdk' x m x hx rfl)
        (fun x hx m => hdk x (List.mem_append_left _ m) x hx rfl)
        (fun x hx => hlive x (List.mem_append_left _ (List.mem_append_right _ hx)))
        (fun x hx => hlive x (List.mem_append_right _ hx))
        (List.nodup_append.2 ⟨hndrest', hndrest, fun a ha b hb => hdk a (List.mem_append_right _ ha) b hb⟩) (by omega)
      simpa only [List.append_assoc] using this

/-! ## The footprint has no repetition -/

def keyFp (d : Doc) : Option Nat → List Nat
  | none => []
  | some k => (extOfV (d.get (.slot k)) ++ []) ++ [k]
theorem fpF_cons (d : Doc) (key : Option Nat) (i : Nat) (s r : Forest) :
    fpF d (.cons key i s r) = keyFp d key ++ ((extOfV (d.get (.slot i)) ++ fpF d s) ++ [i]) ++ fpF d r := by
  cases key <;> rfl

/-- territory of the slots `js`: the slots themselves and the extension slots their values reference -/
def Terr (d : Doc) (js : List Nat) (x : Nat) : Prop := x ∈ js ∨ ∃ j ∈ js, x ∈ extOfV (d.get (.slot j))

structure ExtH (d : Doc) (L : List Nat) : Prop where
  notid : ∀ j ∈ L, ∀ e ∈ extOfV (d.get (.slot j)), e ∉ L
  uniq : ∀ j ∈ L, ∀ j' ∈ L, ∀ e, e ∈ extOfV (d.get (.slot j)) → e ∈ extOfV (d.get (.slot j')) → j = j'

theorem terr_disjoint {d : Doc} {L js1 js2 : List Nat} {x : Nat} (H : ExtH d L) (h1 : ∀ j ∈ js1, j ∈ L)
    (h2 : ∀ j ∈ js2, j ∈ L) (hd : ∀ j ∈ js1, j ∉ js2) : Terr d js1 x → Terr d js2 x → False := by
  rintro (a | ⟨j1, hj1, e1⟩) (b | ⟨j2, hj2, e2⟩)
  · exact hd x a b
  · exact H.notid j2 (h2 j2 hj2) x e2 (h1 x a)
  · exact H.notid j1 (h1 j1 hj1) x e1 (h2 x b)
  · have := H.uniq j1 (h1 j1 hj1) j2 (h2 j2 hj2) x e1 e2
    subst this; exact hd j1 hj1 hj2

theorem Terr.mono {d : Doc} {js ks : List Nat} {x : Nat} (h : Terr d js x) (hs : ∀ j ∈ js, j ∈ ks) : Terr d ks x := by
  rcases h with a | ⟨j, hj, e⟩
  · exact Or.inl (hs x a)
  · exact Or.inr ⟨j, hs j hj, e⟩

theorem extOfV_nodup (v : VData) : (extOfV v).Nodup := by cases v <;> simp [extOfV]

/-- footprint of one slot -/
theorem slot_piece {d : Doc} {L js X : List Nat} {i : Nat} (H : ExtH d L) (hX : X.Nodup) (hXt : ∀ x ∈ X, Terr d js x)
    (hi : i ∈ L) (hjs : ∀ j ∈ js, j ∈ L) (hij : i ∉ js) :
    ((extOfV (d.get (.slot i)) ++ X) ++ [i]).Nodup ∧ ∀ x ∈ (extOfV (d.get (.slot i)) ++ X) ++ [i], Terr d (i :: js) x := by
  have hti : ∀ x ∈ extOfV (d.get (.slot i)), Terr d [i] x := fun x hx => Or.inr ⟨i, by simp, hx⟩
  have hL1 : ∀ j ∈ [i], j ∈ L := fun j hj => by simp at hj; exact hj ▸ hi
  have hd1 : ∀ j ∈ [i], j ∉ js := fun j hj => by simp at hj; exact hj ▸ hij
  constructor
  · refine List.nodup_append.2 ⟨List.nodup_append.2 ⟨extOfV_nodup _, hX, ?_⟩, by simp, ?_⟩
    · intro a ha b hb e; subst e
      exact terr_disjoint H hL1 hjs hd1 (hti a ha) (hXt a hb)
    · intro a ha b hb e; subst e
      simp only [List.mem_singleton] at hb; subst hb
      rcases List.mem_append.1 ha with m | m
      · exact H.notid a hi a m hi
      · exact terr_disjoint H hL1 hjs hd1 (Or.inl (by simp)) (hXt a m)
  · intro x hx
    simp only [List.mem_append, List.mem_singleton] at hx
    rcases hx with (m | m) | m
    · exact (hti x m).mono (by simp)
    · exact (hXt x m).mono (fun j hj => List.mem_cons_of_mem _ hj)
    · exact Or.inl (by simp [m])

theorem fpF_terr_nodup {d : Doc} {L : List Nat} (H : ExtH d L) :
    ∀ (F : Forest), (∀ j ∈ F.ids, j ∈ L) → F.ids.Nodup → (fpF d F).Nodup ∧ ∀ x ∈ fpF d F, Terr d F.ids x := by
  intro F
  induction F with
  | nil => intro _ _; exact ⟨List.nodup_nil, fun x hx => by cases hx⟩
  | cons key i s r ihs ihr =>
    intro hL hnd
    obtain ⟨nds, ndr, njs, njr, nsr, nk⟩ := Forest.nodup_cons hnd
    have hLs : ∀ j ∈ s.ids, j ∈ L := fun j hj => hL j (by simp [Forest.ids, hj])
    have hLr : ∀ j ∈ r.ids, j ∈ L := fun j hj => hL j (by simp [Forest.ids, hj])
    have hLi : i ∈ L := hL i (by simp [Forest.ids])
    obtain ⟨s1, s2⟩ := ihs hLs nds
    obtain ⟨r1, r2⟩ := ihr hLr ndr
    obtain ⟨i1, i2⟩ := slot_piece H s1 s2 hLi hLs njs
    have hLis : ∀ j ∈ i :: s.ids, j ∈ L := fun j hj => by
      rcases List.mem_cons.1 hj with e | m
      · exact e ▸ hLi
      · exact hLs j m
    have hdir : ∀ j ∈ i :: s.ids, j ∉ r.ids := fun j hj => by
      rcases List.mem_cons.1 hj with e | m
      · exact e ▸ njr
      · exact nsr j m
    -- key piece
    have hk : (keyFp d key).Nodup ∧ ∀ x ∈ keyFp d key, Terr d (Forest.keyL key) x := by
      cases key with
      | none => exact ⟨List.nodup_nil, fun x hx => by cases hx⟩
      | some k =>
        have := slot_piece (js := []) (X := []) (i := k) H List.nodup_nil (fun x hx => by cases hx)
          (hL k (by simp [Forest.ids, Forest.keyL])) (fun j hj => by cases hj) (by simp)
        exact this
    have hLk : ∀ j ∈ Forest.keyL key, j ∈ L := fun j hj => hL j (by simp [Forest.ids, hj])
    have hdk1 : ∀ j ∈ Forest.keyL key, j ∉ i :: s.ids := fun j hj m => by
      rcases List.mem_cons.1 m with e | m
      · exact (nk j hj).1 e
      · exact (nk j hj).2.1 m
    have hdk2 : ∀ j ∈ Forest.keyL key, j ∉ r.ids := fun j hj => (nk j hj).2.2
    rw [fpF_cons]
    constructor
    · refine List.nodup_append.2 ⟨List.nodup_append.2 ⟨hk.1, i1, ?_⟩, r1, ?_⟩
      · intro a ha b hb e; subst e
        exact terr_disjoint H hLk hLis hdk1 (hk.2 a ha) (i2 a hb)
      · intro a ha b hb e; subst e
        rcases List.mem_append.1 ha with m | m
        · exact terr_disjoint H hLk hLr hdk2 (hk.2 a m) (r2 a hb)
        · exact terr_disjoint H hLis hLr hdir (i2 a m) (r2 a hb)
    · intro x hx
      rcases List.mem_append.1 hx with m | m
      · rcases List.mem_append.1 m with m | m
        · exact (hk.2 x m).mono (fun j hj => by simp [Forest.ids, hj])
        · refine (i2 x m).mono (fun j hj => ?_)
          rcases List.mem_cons.1 hj with e | m'
          · simp [Forest.ids, e]
          · simp [Forest.ids, m']
      · exact (r2 x m).mono (fun j hj => by simp [Forest.ids, hj])

/-! ## `clearV` at any location of a well-formed document -/

theorem WFG.extH {d : Doc} {F : Forest} (w : WFG d F) : ExtH d F.ids := by
  constructor
  · intro j hj e he hm
    obtain ⟨⟨p, hp⟩, _, _⟩ := w.ext (.slot j) (mem_holders.2 (Or.inr ⟨j, hj, rfl⟩)) e he
    exact ext_ne_var hp (w.isVar e hm) rfl
  · intro j hj j' hj' e he he'
    have := (w.ext (.slot j) (mem_holders.2 (Or.inr ⟨j, hj, rfl⟩)) e he).2.2 (.slot j')
      (mem_holders.2 (Or.inr ⟨j', hj', rfl⟩)) he'
    cases this; rfl

/-- the references of the survivors when the value at `l` is cleared -/
def keepL (d : Doc) (F : Forest) (l : Loc) : List Nat :=
  (holders (replaceAt F l .nil)).flatMap (fun l0 => if l0 = l then [] else strOfV (d.get l0))

theorem mem_ids_cleared {F : Forest} {l : Loc} (hnd : F.ids.Nodup) (hl : isLoc F l) (x : Nat) :
    x ∈ (replaceAt F l .nil).ids ↔ x ∈ F.ids ∧ x ∉ (layoutAt F l).ids := by
  rw [mem_ids_replaceAt .nil hnd hl]; simp [Forest.ids]

theorem loc_mem_cleared {F : Forest} {l : Loc} (hnd : F.ids.Nodup) (hl : isLoc F l) :
    l ∈ holders (replaceAt F l .nil) := by
  cases l with
  | root => exact mem_holders.2 (Or.inl rfl)
  | slot i =>
    exact mem_holders.2 (Or.inr ⟨i, (mem_ids_cleared hnd hl i).2 ⟨isLoc_ids hl, self_notin_layoutAt hnd i⟩, rfl⟩)

theorem nodup_cleared {F : Forest} {l : Loc} (hnd : F.ids.Nodup) (hl : isLoc F l) : (replaceAt F l .nil).ids.Nodup :=
  nodup_replaceAt .nil hnd hl List.nodup_nil (fun x hx => by cases hx)

/-- the references of `d` split into those dropped by clearing `l` and those of the survivors -/
theorem strRefs_split {d : Doc} {F : Forest} {l : Loc} (hnd : F.ids.Nodup) (hl : isLoc F l) :
    List.Perm (d.strRefs F) (strOfV (d.get l) ++ (goneF d (layoutAt F l) ++ keepL d F l)) := by
  have hnd' := nodup_cleared hnd hl
  have hsnd := layoutAt_nodup hnd hl
  -- holders
  have hp : List.Perm (holders F) ((layoutAt F l).ids.map Loc.slot ++ holders (replaceAt F l .nil)) := by
    have h1 : List.Perm F.ids ((layoutAt F l).ids ++ (replaceAt F l .nil).ids) := by
      refine (List.perm_ext_iff_of_nodup hnd (List.nodup_append.2 ⟨hsnd, hnd', ?_⟩)).2 ?_
      · intro a ha b hb e; subst e
        exact ((mem_ids_cleared hnd hl a).1 hb).2 ha
      · intro x
        simp only [List.mem_append, mem_ids_cleared hnd hl]
        constructor
        · intro hx
          by_cases hs : x ∈ (layoutAt F l).ids
          · exact Or.inl hs
          · exact Or.inr ⟨hx, hs⟩
        · rintro (hs | ⟨hx, _⟩)
          · exact layoutAt_ids_sub F l x hs
          · exact hx
    have h2 := (h1.map Loc.slot).cons Loc.root
    rw [List.map_append] at h2
    refine h2.trans ?_
    show List.Perm ([Loc.root] ++ (_ ++ _)) (_ ++ ([Loc.root] ++ _))
    rw [← List.append_assoc, ← List.append_assoc]
    exact List.Perm.append_right _ List.perm_append_comm
  have h3 := hp.flatMap_right (fun l0 => strOfV (d.get l0))
  rw [List.flatMap_append, List.flatMap_map] at h3
  have h4 := flatMap_split (fun l0 => strOfV (d.get l0)) l _ (holders_nodup hnd') (loc_mem_cleared hnd hl)
  refine h3.trans ?_
  refine ((List.Perm.refl _).append h4).trans ?_
  show List.Perm (goneF d _ ++ (_ ++ keepL d F l)) _
  rw [← List.append_assoc, ← List.append_assoc]
  exact List.Perm.append_right _ List.perm_append_comm

/-- `VariantData::clear` on any reachable location `l` (scalar, string or collection): with `dm` the document just
    before the final store of null, all slots of the subtree and their extension slots (`fp`) were released, nothing
    else was touched, the string table is consistent for the survivors. -/
theorem clearV_eff {d : Doc} {F : Forest} {l : Loc} (w : WFG d F) (hs : StrOK d (d.strRefs F)) (hl : isLoc F l) :
    ∃ dm fp, d.clearV l = dm.set l .null ∧ Eff d dm fp (keepL d F l) ∧
      (∀ x ∈ (layoutAt F l).ids, x ∈ fp) ∧
      (∀ x ∈ fp, x ∈ extOfV (d.get l) ∨ Terr d (layoutAt F l).ids x) := by
  have hv := VOK_at w hl
  have hsF := layoutAt_ids_sub F l
  have hsnd := layoutAt_nodup w.nodup hl
  have hlen : (layoutAt F l).ids.length ≤ F.ids.length := List.Nodup.length_le_of_subset hsnd (fun x hx => hsF x hx)
  have hfu := w.fuel_ok
  obtain ⟨t1, t2⟩ := fpF_terr_nodup w.extH (layoutAt F l) hsF hsnd
  have hmem : ∀ x ∈ extOfV (d.get l) ++ fpF d (layoutAt F l), x ∈ extOfV (d.get l) ∨ Terr d (layoutAt F l).ids x := by
    intro x hx
    rcases List.mem_append.1 hx with m | m
    · exact Or.inl m
    · exact Or.inr (t2 x m)
  have hlive : ∀ x ∈ extOfV (d.get l) ++ fpF d (layoutAt F l), PL.live d.g d.pl x := by
    intro x hx
    rcases hmem x hx with m | m | ⟨j, hj, e⟩
    · exact (w.ext l (loc_mem_holders hl) x m).2.1
    · exact w.live x (hsF x m)
    · exact (w.ext (.slot j) (mem_holders.2 (Or.inr ⟨j, hsF j hj, rfl⟩)) x e).2.1
  have hnd : (extOfV (d.get l) ++ fpF d (layoutAt F l)).Nodup := by
    by_cases hc : isColl (d.get l)
    · have : extOfV (d.get l) = [] := by
        cases hg : d.get l <;> rw [hg] at hc <;> first | rfl | exact absurd hc (fun h => h)
      rw [this]; exact t1
    · have hnil : layoutAt F l = .nil := (VOK_scalar hc _).1 hv
      rw [hnil]; simp only [fpF, List.append_nil]; exact extOfV_nodup _
  obtain ⟨dm, hdm, he⟩ := PV_of_PC (PCs_all (layoutAt F l)) (f := d.fuel) (d := d) (l := l) (keep := keepL d F l) hv
    (Nat.lt_of_le_of_lt (layoutAt F l).depth_le (by omega)) (by omega) w.pool hlive hnd
    (StrOK_perm (strRefs_split w.nodup hl) hs)
  exact ⟨dm, _, hdm, he, fun x hx => List.mem_append_right _ (ids_sub_fpF d _ x hx), hmem⟩

/-- what survives a `clearV l`: facts shared by the refinement and the frame theorem -/
theorem clearV_survivors {d : Doc} {F : Forest} {l : Loc} (w : WFG d F) (hs : StrOK d (d.strRefs F)) (hl : isLoc F l) :
    ∃ dm fp, d.clearV l = dm.set l .null ∧ Eff d dm fp (keepL d F l) ∧ (∀ x ∈ (layoutAt F l).ids, x ∈ fp) ∧
      (∀ x ∈ F.ids, x ∉ (layoutAt F l).ids → x ∉ fp) ∧
      (∀ l0 ∈ holders F, l0 ≠ l → (∀ j ∈ (layoutAt F l).ids, l0 ≠ .slot j) → ∀ e ∈ extOfV (d.get l0), e ∉ fp) := by
  obtain ⟨dm, fp, h1, h2, h3, h4⟩ := clearV_eff w hs hl
  have hsF := layoutAt_ids_sub F l
  have H := w.extH
  refine ⟨dm, fp, h1, h2, h3, ?_, ?_⟩
  · intro x hx hxs m
    rcases h4 x m with m | m | ⟨j, hj, e⟩
    · obtain ⟨⟨p, hp⟩, _, _⟩ := w.ext l (loc_mem_holders hl) x m
      exact ext_ne_var hp (w.isVar x hx) rfl
    · exact hxs m
    · exact H.notid j (hsF j hj) x e hx
  · intro l0 h0 hne hns e he m
    obtain ⟨⟨p, hp⟩, _, hu⟩ := w.ext l0 h0 e he
    rcases h4 e m with m | m | ⟨j, hj, e'⟩
    · exact hne (hu l (loc_mem_holders hl) m).symm
    · exact ext_ne_var hp (w.isVar e (hsF e m)) rfl
    · exact hns j hj (hu (.slot j) (mem_holders.2 (Or.inr ⟨j, hsF j hj, rfl⟩)) e').symm

/-- `VariantData::clear` on any reachable location (scalar, string or collection) -/
theorem clearV_spec {d : Doc} {F : Forest} {l : Loc} (w : WFG d F) (hs : StrOK d (d.strRefs F)) (hl : isLoc F l) :
    WFG (d.clearV l) (replaceAt F l .nil) ∧
    StrOK (d.clearV l) ((d.clearV l).strRefs (replaceAt F l .nil)) ∧
    abs (d.clearV l) = absWith d F l .null ∧
    (∀ x ∈ (layoutAt F l).ids, ¬ PL.live (d.clearV l).g (d.clearV l).pl x) := by
  obtain ⟨dm, fp, hdm, he, hin, hout, hexts⟩ := clearV_survivors w hs hl
  have hsF := layoutAt_ids_sub F l
  rw [hdm]
  have hn : (dm.set l .null).null = d.null := by rw [set_null, he.null]
  have hlh := loc_mem_holders hl
  -- holders that survive keep their value
  have hget : ∀ x ∈ F.ids, x ∉ (layoutAt F l).ids → Loc.slot x ≠ l → (dm.set l .null).get (.slot x) = d.get (.slot x) :=
    fun x hx hxs hxl => by rw [get_set_ne hxl]; exact get_of_cell (he.cells x (hout x hx hxs))
  have hkeep : ∀ l0 ∈ holders (replaceAt F l .nil), l0 ≠ l → ∀ n ∈ strOfV (d.get l0), n ∈ keepL d F l := by
    intro l0 h0 hne n hn'
    simp only [keepL, List.mem_flatMap]
    exact ⟨l0, h0, by rw [if_neg hne]; exact hn'⟩
  have hsurv : ∀ x ∈ F.ids, x ∉ (layoutAt F l).ids → Loc.slot x ∈ holders (replaceAt F l .nil) := fun x hx hxs =>
    mem_holders.2 (Or.inr ⟨x, (mem_ids_cleared w.nodup hl x).2 ⟨hx, hxs⟩, rfl⟩)
  have hscal : ∀ x ∈ F.ids, x ∉ (layoutAt F l).ids → Loc.slot x ≠ l →
      (dm.set l .null).scalar (d.get (.slot x)) = d.scalar (d.get (.slot x)) := by
    intro x hx hxs hxl
    have hh : Loc.slot x ∈ holders F := mem_holders.2 (Or.inr ⟨x, hx, rfl⟩)
    refine scalar_congr (fun n hn' => ?_) (fun e hee => ?_)
    · rw [strBytes_set]; exact he.bytes n (hkeep _ (hsurv x hx hxs) hxl n hn')
    · have hne : e ∉ fp := hexts _ hh hxl (fun j hj e' => by cases e'; exact hxs hj) e hee
      obtain ⟨⟨p, hp⟩, _, _⟩ := w.ext _ hh e hee
      have hel : Loc.slot e ≠ l := by
        intro e'
        exact ext_ne_var hp (w.isVar e (isLoc_ids (e' ▸ hl))) rfl
      rw [cell_set_ne hel]; exact he.cells e hne
  have hres := wfg_replaceAt (d' := dm.set l .null) (v' := .null) (s' := .nil) w hl hn (get_set_self _ _ _)
    (fun i e => by
      subst e
      have hi := isLoc_ids hl
      have hc : dm.cell i = d.cell i := he.cells i (hout i hi (self_notin_layoutAt w.nodup i))
      exact ⟨by rw [cell_set_slot, if_pos rfl, nextOf_of_cell hc he.null], by rw [root_set_slot, he.root]⟩)
    ((VOK_scalar (v := VData.null) (fun h => h) _).2 rfl)
    (fun j hj hjl hjs => ⟨by rw [cell_set_ne hjl]; exact he.cells j (hout j hj hjs), hscal j hj hjs hjl⟩)
    List.nodup_nil (fun x hx => by cases hx) (fun x hx => by cases hx)
    (by rw [set_pl, set_g]; exact he.pool) (fun x hx => by cases hx)
    (fun x hx hxs => by rw [set_pl, set_g]; exact (he.live x).2 ⟨w.live x hx, hout x hx hxs⟩)
    (by
      refine ExtOK_of w.ext ?_ ?_
      · intro l' hl'
        by_cases hll : l' = l
        · subst hll; left; rw [get_set_self]; rfl
        · right
          rcases mem_holders.1 hl' with e | ⟨x, hx, e⟩
          · subst e
            refine ⟨mem_holders.2 (Or.inl rfl), ?_⟩
            rw [get_set_ne hll]; exact he.root
          · subst e
            obtain ⟨hxF, hxs⟩ := (mem_ids_cleared w.nodup hl x).1 hx
            exact ⟨mem_holders.2 (Or.inr ⟨x, hxF, rfl⟩), hget x hxF hxs hll⟩
      · intro l' hl' hl'F hg e hee
        have hll : l' ≠ l := by
          intro e'; subst e'
          rw [get_set_self] at hg
          rw [← hg] at hee; cases hee
        have hns : ∀ j ∈ (layoutAt F l).ids, l' ≠ .slot j := by
          intro j hj e'; subst e'
          rcases mem_holders.1 hl' with e'' | ⟨x, hx, e''⟩
          · cases e''
          · cases e''; exact ((mem_ids_cleared w.nodup hl j).1 hx).2 hj
        have hne : e ∉ fp := hexts l' hl'F hll hns e hee
        obtain ⟨⟨p, hp⟩, hlv, _⟩ := w.ext l' hl'F e hee
        have hel : Loc.slot e ≠ l := by
          intro e'
          exact ext_ne_var hp (w.isVar e (isLoc_ids (e' ▸ hl))) rfl
        refine ⟨by rw [cell_set_ne hel]; exact he.cells e hne, ?_⟩
        rw [set_pl, set_g]; exact (he.live e).2 ⟨hlv, hne⟩)
  refine ⟨hres.1, ?_, ?_, ?_⟩
  · refine StrOK_congr (set_strings _ _ _) (set_nextNode _ _ _) ?_
    have : (dm.set l .null).strRefs (replaceAt F l .nil) = keepL d F l := by
      apply flatMap_congr'
      intro l0 h0
      by_cases hll : l0 = l
      · subst hll; rw [get_set_self, if_pos rfl]; rfl
      · rw [if_neg hll]
        rcases mem_holders.1 h0 with e | ⟨x, hx, e⟩
        · subst e; rw [get_set_ne hll]; show strOfV dm.root = _; rw [he.root]; rfl
        · subst e
          obtain ⟨hxF, hxs⟩ := (mem_ids_cleared w.nodup hl x).1 hx
          rw [hget x hxF hxs hll]
    rw [this]; exact he.str
  · rw [hres.2]; rfl
  · intro x hx hlv
    rw [set_pl, set_g] at hlv
    exact ((he.live x).1 hlv).2 (hin x hx)

/-- FRAME for `clearV`: a location `l'` that is not `l`, not inside the cleared subtree, and whose own subtree
    contains neither `l` nor anything of the cleared subtree, designates exactly the same value afterwards. -/
theorem clearV_frame_spec {d : Doc} {F : Forest} {l l' : Loc} (w : WFG d F) (hs : StrOK d (d.strRefs F))
    (hl : isLoc F l) (hl' : isLoc F l') (hne : l' ≠ l)
    (hout' : ∀ j, l' = .slot j → j ∉ (layoutAt F l).ids)
    (hdisj : ∀ x ∈ (layoutAt F l').ids, x ∉ (layoutAt F l).ids ∧ Loc.slot x ≠ l) :
    (d.clearV l).toVal ((d.clearV l).get l') = d.toVal (d.get l') := by
  obtain ⟨dm, fp, hdm, he, hin, hout, hexts⟩ := clearV_survivors w hs hl
  have hsF := layoutAt_ids_sub F l
  have hs'F := layoutAt_ids_sub F l'
  rw [hdm]
  have hn : (dm.set l .null).null = d.null := by rw [set_null, he.null]
  have hl'h := loc_mem_holders hl'
  -- scalars of surviving holders
  have hscal : ∀ l0 ∈ holders F, l0 ≠ l → (∀ j ∈ (layoutAt F l).ids, l0 ≠ .slot j) →
      (dm.set l .null).scalar (d.get l0) = d.scalar (d.get l0) := by
    intro l0 h0 hll hns
    have hl0' : l0 ∈ holders (replaceAt F l .nil) := by
      rcases mem_holders.1 h0 with e | ⟨x, hx, e⟩
      · subst e; exact mem_holders.2 (Or.inl rfl)
      · subst e
        exact mem_holders.2 (Or.inr ⟨x, (mem_ids_cleared w.nodup hl x).2 ⟨hx, fun m => hns x m rfl⟩, rfl⟩)
    refine scalar_congr (fun n hn' => ?_) (fun e hee => ?_)
    · rw [strBytes_set]
      refine he.bytes n ?_
      simp only [keepL, List.mem_flatMap]
      exact ⟨l0, hl0', by rw [if_neg hll]; exact hn'⟩
    · have hnfp : e ∉ fp := hexts l0 h0 hll hns e hee
      obtain ⟨⟨p, hp⟩, _, _⟩ := w.ext l0 h0 e hee
      have hel : Loc.slot e ≠ l := by
        intro e'
        exact ext_ne_var hp (w.isVar e (isLoc_ids (e' ▸ hl))) rfl
      rw [cell_set_ne hel]; exact he.cells e hnfp
  have hgood : ∀ x ∈ (layoutAt F l').ids, Good d (dm.set l .null) x := by
    intro x hx
    obtain ⟨hxs, hxl⟩ := hdisj x hx
    refine ⟨by rw [cell_set_ne hxl]; exact he.cells x (hout x (hs'F x hx) hxs), ?_⟩
    exact hscal (.slot x) (mem_holders.2 (Or.inr ⟨x, hs'F x hx, rfl⟩)) hxl (fun j hj e => by cases e; exact hxs hj)
  have hget : (dm.set l .null).get l' = d.get l' := by
    rw [get_set_ne hne]
    cases l' with
    | root => exact he.root
    | slot j => exact get_of_cell (he.cells j (hout j (isLoc_ids hl') (hout' j rfl)))
  have hvok : VOK (dm.set l .null) (d.get l') (layoutAt F l') :=
    VOK_congr (agree_of_good hn hgood).1 (VOK_at w hl')
  have hlen : (layoutAt F l').ids.length < d.fuel :=
    Nat.lt_of_le_of_lt (List.Nodup.length_le_of_subset (layoutAt_nodup w.nodup hl') (fun x hx => hs'F x hx)) w.fuel_ok
  have hfu : (dm.set l .null).fuel = d.fuel := by simp only [Doc.fuel, set_g, he.g]
  rw [hget, toVal_eq hvok (by rw [hfu]; exact hlen), toVal_at w hl']
  simp only [Doc.valOf]
  obtain ⟨a, sa⟩ := agree_of_good hn hgood
  rw [vals_congr noOv _ a sa, mkVal_congr]
  exact hscal l' hl'h hne (fun j hj e => hout' j e hj)

end DL
