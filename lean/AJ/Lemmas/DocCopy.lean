/- The deep copy `copyInto` / `copyIntoF` / `copyElems` / `copyMembers` of AJ/Model/DL.lean (model of
   `JsonVariant::set(JsonVariantConst)`, `JsonArray::set`, `JsonObject::set`) over the layout invariant of
   AJ/Lemmas/DocInv.lean: a local ("separation style") specification `Post` of what the copy builds at its target, proved
   by induction on the layout of the SOURCE value, and its assembly into the document invariant `WFG`.
   The loops stop at the first round that reports failure (`arr_step`, `obj_step`); an array element whose copy failed is
   released again (`free_built`, on top of `DocClear.step_slot`); in a document that is already flagged every loop stops
   after its first round (`FlaggedCopy`). Used by AJ/Props/C04Copy.lean and AJ/Props/C05Copy.lean. -/
import AJ.Lemmas.DocPair
namespace DL
open JD (Byte Val)

/-! ## What a copy is, abstractly -/

/-- how `setArg (.f64 b)` stores a double: as a float when the float has the same value -/
def normF64 (b : Nat) : Val := match JD.storeDouble b with | .f32 f => .num (.f32 f) | _ => .num (.f64 b)

def normNum : JD.Num → Val
  | .f64 b => normF64 b
  | n => .num n

mutual
/-- the abstract value a COMPLETE copy produces: the same tree, in which a double stored in 8 bytes whose value fits a
    float is re-stored as a float (the copy goes through `setArg`, as every other way of storing a double does) -/
def copyVal : Val → Val
  | .null => .null
  | .bool b => .bool b
  | .num n => normNum n
  | .str s => .str s
  | .raw s => .raw s
  | .arr xs => .arr (copyVals xs)
  | .obj ms => .obj (copyMems ms)
def copyVals : List Val → List Val
  | [] => []
  | x :: xs => copyVal x :: copyVals xs
def copyMems : List (List Byte × Val) → List (List Byte × Val)
  | [] => []
  | (k, v) :: ms => (k, copyVal v) :: copyMems ms
end

mutual
/-- no object of the tree has two members with the same key -/
def NoDupKeys : Val → Prop
  | .arr xs => NoDupKeysL xs
  | .obj ms => (ms.map (·.1)).Nodup ∧ NoDupKeysM ms
  | _ => True
def NoDupKeysL : List Val → Prop
  | [] => True
  | x :: xs => NoDupKeys x ∧ NoDupKeysL xs
def NoDupKeysM : List (List Byte × Val) → Prop
  | [] => True
  | (_, v) :: ms => NoDupKeys v ∧ NoDupKeysM ms
end

/-- values that own no chain: everything but arrays and objects -/
def isScalarVal : Val → Prop
  | .arr _ => False
  | .obj _ => False
  | _ => True

mutual
/-- `PartialCopy x' x`: `x'` is what a copy of `x` interrupted by an allocation failure can leave behind. The copy STOPS at the
    first failure: a scalar or string is copied completely, or left null; an array holds complete copies of a PREFIX of
    the elements (the element at which the copy failed is released again, so there is no partial last element); an
    object holds complete copies of a prefix of the members, possibly followed by ONE more member - with its key -
    whose value is a partial copy (possibly null). There is no other shape: in particular no member without key or value. -/
inductive PartialCopy : Val → Val → Prop
  | done (v : Val) : PartialCopy v v
  | null {v : Val} : isScalarVal v → PartialCopy .null v
  | arr {xs' xs : List Val} : xs' <+: xs → PartialCopy (.arr xs') (.arr xs)
  | obj {ms' ms : List (List Byte × Val)} : PartialM ms' ms → PartialCopy (.obj ms') (.obj ms)
inductive PartialM : List (List Byte × Val) → List (List Byte × Val) → Prop
  | pre {ms' ms : List (List Byte × Val)} : ms' <+: ms → PartialM ms' ms
  | last {p : List (List Byte × Val)} {k : List Byte} {v' v : Val} {rest : List (List Byte × Val)} :
      PartialCopy v' v → PartialM (p ++ [(k, v')]) (p ++ (k, v) :: rest)
end

/-- `FlaggedCopy x' x`: what a copy of `x` leaves in a document that is ALREADY flagged `overflowed`. Every `set` of a value
    reports `!overflowed()`, and the flag is sticky, so every loop stops after its first round: a scalar or string is
    still copied (or left null if its own allocation fails); an array is left EMPTY (its first element is copied into a
    new slot, reported as failed, and released); an object keeps at most its FIRST member, whose value is again a
    flagged copy. -/
inductive FlaggedCopy : Val → Val → Prop
  | scalar {v : Val} : isScalarVal v → FlaggedCopy v v
  | null {v : Val} : isScalarVal v → FlaggedCopy .null v
  | arr (xs : List Val) : FlaggedCopy (.arr []) (.arr xs)
  | objNone (ms : List (List Byte × Val)) : FlaggedCopy (.obj []) (.obj ms)
  | objFirst {k : List Byte} {x v : Val} {rest : List (List Byte × Val)} :
      FlaggedCopy x v → FlaggedCopy (.obj [(k, x)]) (.obj ((k, v) :: rest))

theorem PartialM.cons_head (m : List Byte × Val) :
    ∀ {ms' ms : List (List Byte × Val)}, PartialM ms' ms → PartialM (m :: ms') (m :: ms)
  | _, _, .pre hp => .pre (List.cons_prefix_cons.2 ⟨rfl, hp⟩)
  | _, _, .last (p := p) hq => PartialM.last (p := m :: p) hq

/-- a flagged copy is in particular a partial copy -/
theorem FlaggedCopy.partial : ∀ {x' x : Val}, FlaggedCopy x' x → PartialCopy x' x
  | _, _, .scalar _ => .done _
  | _, _, .null h => .null h
  | _, _, .arr xs => .arr (List.nil_prefix)
  | _, _, .objNone ms => .obj (.pre List.nil_prefix)
  | _, _, .objFirst h => .obj (PartialM.last (p := []) (FlaggedCopy.partial h))

/-! ## Appending an element together with the layout below it -/

namespace Forest
/-- append the element `i` (with key slot `k` for an object member) whose value is laid out as `se` -/
def snocS : Forest → Option Nat → Nat → Forest → Forest
  | nil, k, i, se => cons k i se nil
  | cons k' j s r, k, i, se => cons k' j s (snocS r k i se)

theorem top_snocS (F : Forest) (k : Option Nat) (i : Nat) (se : Forest) : (F.snocS k i se).top = F.top ++ (keyL k ++ [i]) := by
  induction F with
  | nil => simp [snocS, top]
  | cons k' j s r _ ihr => simp [snocS, top, ihr]

theorem ids_snocS (F : Forest) (k : Option Nat) (i : Nat) (se : Forest) :
    (F.snocS k i se).ids = F.ids ++ (keyL k ++ i :: se.ids) := by
  induction F with
  | nil => simp [snocS, ids]
  | cons k' j s r _ ihr => simp [snocS, ids, ihr]
end Forest

theorem vals_snocS (d : Doc) (o : Nat → Option Val) (s : Forest) (key : Option Nat) (id : Nat) (se : Forest) :
    vals d o (s.snocS key id se) =
      vals d o s ++ [(keyB d key, (o id).getD (mkVal d (d.get (.slot id)) (vals d o se)))] := by
  induction s with
  | nil => rfl
  | cons k j s0 r _ ihr => simp only [Forest.snocS, vals, ihr, List.cons_append]

theorem top_snocS_last (s : Forest) (key : Option Nat) (id x : Nat) (se : Forest) :
    (s.snocS key id se).top.getLast?.getD x = id := by
  rw [Forest.top_snocS, List.getLast?_append, List.getLast?_append]
  simp

theorem Lk_snocS {d d1 : Doc} {key : Option Nat} {id n0 : Nat} {se : Forest} (hn : d1.null = d.null) :
    ∀ (s : Forest) {b : Bool} {h : Nat}, Lk d b h s → s ≠ .nil → s.ids.Nodup →
      d1.cell (s.top.getLast?.getD d.null) = .var (d.get (.slot (s.top.getLast?.getD d.null))) n0 →
      (∀ j ∈ s.ids, j ≠ s.top.getLast?.getD d.null → d1.cell j = d.cell j) →
      Lk d1 b n0 (.cons key id se .nil) → Lk d1 b h (s.snocS key id se) := by
  intro s
  induction s with
  | nil => intro b h _ hne; exact absurd rfl hne
  | cons k j s0 r _ ihr =>
    intro b h hl _ hnd hct hoth hnew
    rw [Lk_cons] at hl
    obtain ⟨h1, h2, h3, h4, h5⟩ := hl
    obtain ⟨nds, ndr, njs, njr, nsr, nk⟩ := Forest.nodup_cons hnd
    rw [Forest.top_cons_last] at hct hoth
    simp only [Forest.snocS]
    rw [Lk_cons]
    by_cases hr : r = .nil
    · subst hr
      simp only [Forest.top, List.getLast?_nil, Option.getD_none] at hct hoth
      have hk : ∀ q ∈ Forest.keyL k, d1.cell q = d.cell q := fun q hq =>
        hoth q (by simp [Forest.ids, hq]) (nk q hq).1
      have as : Agree d d1 s0.ids := ⟨hn, fun x hx => hoth x (by simp [Forest.ids, hx]) (fun e => njs (e ▸ hx))⟩
      refine ⟨KeyOK_congr hn hk h1, hn ▸ h2, isVar_of_var hct, ?_, ?_⟩
      · rw [nextOf_of_var hct]; exact hnew
      · rw [get_of_var hct]; exact VOK_congr as h5
    · obtain ⟨t, ht, hm⟩ := Forest.top_ne_nil hr
      have htd : r.top.getLast?.getD j = r.top.getLast?.getD d.null := by rw [ht]; rfl
      rw [htd] at hct hoth
      have htr : r.top.getLast?.getD d.null ∈ r.ids := by rw [ht]; exact r.top_sub_ids t hm
      have hjc : d1.cell j = d.cell j := hoth j (by simp [Forest.ids]) (fun e => njr (e ▸ htr))
      have hk : ∀ q ∈ Forest.keyL k, d1.cell q = d.cell q := fun q hq =>
        hoth q (by simp [Forest.ids, hq]) (fun e => (nk q hq).2.2 (e ▸ htr))
      have as : Agree d d1 s0.ids :=
        ⟨hn, fun x hx => hoth x (by simp [Forest.ids, hx]) (fun e => nsr x hx (e ▸ htr))⟩
      refine ⟨KeyOK_congr hn hk h1, hn ▸ h2, isVar_congr hjc hn h3, ?_, ?_⟩
      · rw [nextOf_of_cell hjc hn]
        exact ihr h4 hr ndr hct (fun x hx => hoth x (by simp [Forest.ids, hx])) hnew
      · rw [get_of_cell hjc]; exact VOK_congr as h5

theorem append_chainS {d d' : Doc} {s : Forest} {b : Bool} {h t : Nat} {key : Option Nat} {id n0 : Nat} {se : Forest}
    (hn : d'.null = d.null) (hl : Lk d b h s) (ht : t = s.top.getLast?.getD d.null) (hnd : s.ids.Nodup)
    (hct : t ≠ d.null → d'.cell t = .var (d.get (.slot t)) n0)
    (hoth : ∀ j ∈ s.ids, j ≠ t → d'.cell j = d.cell j)
    (hnew : Lk d' b n0 (.cons key id se .nil)) :
    Lk d' b (if t ≠ d.null then h else n0) (s.snocS key id se) := by
  by_cases htn : t = d.null
  · have : s = .nil := (last_null_iff hl).1 (ht ▸ htn)
    subst this
    simp only [htn, ne_eq, not_true_eq_false, if_false, Forest.snocS]
    exact hnew
  · have hne : s ≠ .nil := fun e => htn (by rw [ht]; exact (last_null_iff hl).2 e)
    simp only [ne_eq, htn, not_false_eq_true, if_true]
    subst ht
    exact Lk_snocS hn s hl hne hnd (hct htn) hoth hnew

/-! ## Local specification of a value being built -/

def coll : Bool → Nat → Nat → VData
  | true, h, t => .obj h t
  | false, h, t => .arr h t

theorem VOK_coll (d : Doc) (b : Bool) (h t : Nat) (s : Forest) :
    VOK d (coll b h t) s ↔ (Lk d b h s ∧ t = s.top.getLast?.getD d.null) := by
  cases b <;> exact Iff.rfl
theorem strOfV_coll (b : Bool) (h t : Nat) : strOfV (coll b h t) = [] := by cases b <;> rfl
theorem extOfV_coll (b : Bool) (h t : Nat) : extOfV (coll b h t) = [] := by cases b <;> rfl
theorem isColl_coll (b : Bool) (h t : Nat) : isColl (coll b h t) := by cases b <;> trivial

theorem live_lt_null {d : Doc} (hp : PL.Inv d.g d.pl) {x : Nat} (h : PL.live d.g d.pl x) : x < d.null :=
  PL.allocP_lt_null hp.pools_ok h.1

theorem StrOK_weaken {d : Doc} {a rs : List Nat} (h : StrOK d (a ++ rs)) : StrOK d rs :=
  ⟨h.ids_nodup, h.ids_lt, fun n hn => Nat.le_trans (by rw [List.count_append]; omega) (h.refs n hn),
    fun r hr => h.present r (List.mem_append_right _ hr)⟩

/-- extension-slot discipline for a list of holders: each referenced extension slot holds a payload, is live, and is
    referenced by one holder of the list only (`ExtOK d F` is `ExtL d (holders F)`) -/
def ExtL (d : Doc) (hs : List Loc) : Prop :=
  ∀ l ∈ hs, ∀ e ∈ extOfV (d.get l), (∃ p, d.cell e = .ext p) ∧ PL.live d.g d.pl e ∧
    ∀ l' ∈ hs, e ∈ extOfV (d.get l') → l' = l

/-- FRAME of a step `d → d'` with exceptions `ex`: everything live in `d` (but the excepted locations) keeps its cell and
    stays live, string nodes keep their bytes, a consistent string table stays consistent, the overflow flag is not
    reset. Newly allocated slots and string nodes are not constrained. -/
structure Fr (d d' : Doc) (ex : List Loc) : Prop where
  g : d'.g = d.g
  root : Loc.root ∉ ex → d'.root = d.root
  cells : ∀ x, PL.live d.g d.pl x → Loc.slot x ∉ ex → d'.cell x = d.cell x
  pool : PL.Inv d'.g d'.pl
  live : ∀ x, PL.live d.g d.pl x → PL.live d'.g d'.pl x
  /-- a string table that is consistent for the references `rs` stays so, and the referenced nodes keep their bytes -/
  strs : ∀ rs, StrOK d rs → StrOK d' rs ∧ ∀ m ∈ rs, d'.strBytes m = d.strBytes m
  ov : d.overflowed = true → d'.overflowed = true

theorem Fr.null {d d' : Doc} {ex : List Loc} (h : Fr d d' ex) : d'.null = d.null := by simp only [Doc.null, h.g]

theorem Fr.strok {d d' : Doc} {ex : List Loc} (h : Fr d d' ex) (rs : List Nat) (hs : StrOK d rs) : StrOK d' rs :=
  (h.strs rs hs).1

/-- bytes of a node that some consistent reference list mentions -/
theorem Fr.bytes {d d' : Doc} {ex : List Loc} (h : Fr d d' ex) {rs : List Nat} (hs : StrOK d rs) {m : Nat}
    (hm : m ∈ rs) : d'.strBytes m = d.strBytes m :=
  (h.strs rs hs).2 m hm

theorem Fr.refl {d : Doc} (hp : PL.Inv d.g d.pl) (ex : List Loc) : Fr d d ex :=
  ⟨rfl, fun _ => rfl, fun _ _ _ => rfl, hp, fun _ h => h, fun _ h => ⟨h, fun _ _ => rfl⟩, fun h => h⟩

theorem Fr.mono {d d' : Doc} {ex ex' : List Loc} (h : Fr d d' ex) (hs : ∀ l ∈ ex, l ∈ ex') : Fr d d' ex' :=
  ⟨h.g, fun hr => h.root (fun m => hr (hs _ m)), fun x hx hn => h.cells x hx (fun m => hn (hs _ m)), h.pool, h.live,
    h.strs, h.ov⟩

theorem Fr.trans {d d1 d2 : Doc} {e1 e2 : List Loc} (h1 : Fr d d1 e1) (h2 : Fr d1 d2 e2)
    (he : ∀ l ∈ e2, l ∈ e1 ∨ ∃ i, l = .slot i ∧ ¬ PL.live d.g d.pl i) : Fr d d2 e1 := by
  refine ⟨by rw [h2.g, h1.g], ?_, ?_, h2.pool, fun x hx => h2.live x (h1.live x hx), ?_, fun ho => h2.ov (h1.ov ho)⟩
  · intro hr
    rw [h2.root ?_, h1.root hr]
    intro m
    rcases he _ m with a | ⟨i, e, _⟩
    · exact hr a
    · cases e
  · intro x hx hn
    rw [h2.cells x (h1.live x hx) ?_, h1.cells x hx hn]
    intro m
    rcases he _ m with a | ⟨i, e, hi⟩
    · exact hn a
    · cases e; exact hi hx
  · intro rs hs
    obtain ⟨a1, b1⟩ := h1.strs rs hs
    obtain ⟨a2, b2⟩ := h2.strs rs a1
    exact ⟨a2, fun m hm => by rw [b2 m hm, b1 m hm]⟩

theorem strBytes_of_present {d d' : Doc} (hb : ∀ m, (∃ n ∈ d.strings, n.id = m) → d'.strBytes m = d.strBytes m)
    {rs : List Nat} (hs : StrOK d rs) : ∀ m ∈ rs, d'.strBytes m = d.strBytes m :=
  fun m hm => hb m (hs.present m hm)

theorem Fr.of_grow {d d' : Doc} (h : Grow d d') (ho : d.overflowed = true → d'.overflowed = true) (ex : List Loc) :
    Fr d d' ex :=
  ⟨h.g, fun _ => h.root, fun x hx _ => h.cells x hx, h.pool, h.live,
    fun rs hs => ⟨StrOK_congr h.strings h.nextNode hs, fun m _ => strBytes_of_strings h.strings m⟩, ho⟩

/-- what has been built at `l` since `d0`: the value `v` laid out as `s` over slots that were not live in `d0`, with its own
    extension slots and string references accounted for -/
structure Att (d0 d : Doc) (l : Loc) (v : VData) (s : Forest) : Prop where
  str : ∀ rs, StrOK d0 rs → StrOK d ((strOfV v ++ goneF d s) ++ rs)
  get : d.get l = v
  slot : ∀ i, l = .slot i → d.cell i = .var v (d0.nextOf i)
  vok : VOK d v s
  nodup : s.ids.Nodup
  fresh : ∀ x ∈ s.ids, ¬ PL.live d0.g d0.pl x ∧ PL.live d.g d.pl x
  ext : ExtL d (l :: s.ids.map .slot)
  extfresh : ∀ l' ∈ l :: s.ids.map Loc.slot, ∀ e ∈ extOfV (d.get l'), ¬ PL.live d0.g d0.pl e

/-- POST-condition of a copy into `l` started in `d0`: frame + what was built -/
structure Post (d0 d : Doc) (l : Loc) (v : VData) (s : Forest) : Prop where
  fr : Fr d0 d [l]
  att : Att d0 d l v s

/-- PRE-condition: `l` is a cleared place of a document with a consistent pool and string table -/
structure Pre (d : Doc) (l : Loc) : Prop where
  gok : PL.GeoOK d.g
  pool : PL.Inv d.g d.pl
  null : d.get l = .null
  slot : ∀ i, l = .slot i → PL.live d.g d.pl i ∧ d.isVar i
  str : ∃ rs, StrOK d rs

theorem Pre.cell {d : Doc} {l : Loc} (P : Pre d l) {i : Nat} (e : l = .slot i) : d.cell i = .var .null (d.nextOf i) := by
  have h := (P.slot i e).2
  have hn := P.null
  subst e
  rw [Doc.isVar, hn] at h; exact h

/-! ## Scalars and strings -/

theorem post_null {d d1 : Doc} {l : Loc} (P : Pre d l) (hf : Fr d d1 []) : Post d d1 l .null .nil := by
  have hget : d1.get l = .null := by
    cases l with
    | root => show d1.root = .null; rw [hf.root (by simp)]; exact P.null
    | slot i => rw [get_of_cell (hf.cells i (P.slot i rfl).1 (by simp))]; exact P.null
  refine ⟨hf.mono (by simp), ⟨?_, hget, ?_, rfl, List.nodup_nil, (fun x hx => by cases hx), ?_, ?_⟩⟩
  · intro rs hs; exact hf.strok rs hs
  · intro i e; rw [hf.cells i (P.slot i e).1 (by simp), P.cell e]
  · intro l' hl' e he
    simp only [Forest.ids, List.map_nil, List.mem_singleton] at hl'
    subst hl'; rw [hget] at he; cases he
  · intro l' hl' e he
    simp only [Forest.ids, List.map_nil, List.mem_singleton] at hl'
    subst hl'; rw [hget] at he; cases he

/-- storing `v'` (a scalar, a string, or an empty collection) on the cleared place, after its resource was acquired -/
theorem post_set {d d1 : Doc} {l : Loc} {v' : VData} (P : Pre d l) (hf : Fr d d1 [])
    (hv : VOK d1 v' .nil)
    (hstr : ∀ rs, StrOK d rs → StrOK d1 (strOfV v' ++ rs))
    (hext : ∀ e ∈ extOfV v', (∃ p, d1.cell e = .ext p) ∧ PL.live d1.g d1.pl e ∧ ¬ PL.live d.g d.pl e) :
    Post d (d1.set l v') l v' .nil := by
  have hne : ∀ e p, d1.cell e = .ext p → Loc.slot e ≠ l := by
    intro e p hp he
    have hc := hf.cells e (P.slot e he.symm).1 (by simp)
    rw [P.cell he.symm, hp] at hc; cases hc
  have hfr : Fr d (d1.set l v') [l] := by
    refine ⟨by rw [set_g, hf.g], ?_, ?_, by rw [set_pl, set_g]; exact hf.pool,
      fun x hx => by rw [set_pl, set_g]; exact hf.live x hx,
      fun rs hs => ⟨StrOK_congr (set_strings _ _ _) (set_nextNode _ _ _) (hf.strok rs hs),
        fun m hm => by rw [strBytes_set]; exact hf.bytes hs hm⟩,
      fun ho => by rw [set_overflowed]; exact hf.ov ho⟩
    · intro hr
      cases l with
      | root => exact absurd (List.mem_singleton.2 rfl) hr
      | slot i => rw [root_set_slot]; exact hf.root (by simp)
    · intro x hx hn
      rw [cell_set_ne (fun e => hn (List.mem_singleton.2 e))]; exact hf.cells x hx (by simp)
  refine ⟨hfr, ⟨?_, get_set_self _ _ _, ?_, ?_, List.nodup_nil, (fun x hx => by cases hx), ?_, ?_⟩⟩
  · intro rs hs
    have : goneF (d1.set l v') .nil = [] := rfl
    rw [this, List.append_nil]
    exact StrOK_congr (set_strings _ _ _) (set_nextNode _ _ _) (hstr rs hs)
  · intro i e; subst e
    rw [cell_set_slot, if_pos rfl, nextOf_of_cell (hf.cells i (P.slot i rfl).1 (by simp)) hf.null]
  · exact VOK_congr ⟨set_null _ _ _, fun j hj => by cases hj⟩ hv
  · intro l' hl' e he
    simp only [Forest.ids, List.map_nil, List.mem_singleton] at hl'
    subst hl'; rw [get_set_self] at he
    obtain ⟨⟨p, hp⟩, hlv, _⟩ := hext e he
    refine ⟨⟨p, by rw [cell_set_ne (hne e p hp)]; exact hp⟩, by rw [set_pl, set_g]; exact hlv, ?_⟩
    intro l2 hl2 _
    simp only [Forest.ids, List.map_nil, List.mem_singleton] at hl2
    exact hl2
  · intro l' hl' e he
    simp only [Forest.ids, List.map_nil, List.mem_singleton] at hl'
    subst hl'; rw [get_set_self] at he
    exact (hext e he).2.2

theorem allocExt_some {d d1 : Doc} {p : Int} {e : Nat} (gok : PL.GeoOK d.g) (hp : PL.Inv d.g d.pl)
    (h : d.allocExt p = (some e, d1)) :
    Grow d d1 ∧ d1.overflowed = d.overflowed ∧ d1.cell e = .ext p ∧ ¬ PL.live d.g d.pl e ∧ PL.live d1.g d1.pl e := by
  simp only [Doc.allocExt] at h
  split at h
  · rename_i id' pl heq
    simp only [Prod.mk.injEq, Option.some.injEq] at h
    obtain ⟨rfl, rfl⟩ := h
    obtain ⟨a, b, c, dd⟩ := C19.alloc_fresh gok hp heq
    refine ⟨⟨rfl, rfl, rfl, rfl, ?_, dd, fun x hx => (c x).2 (Or.inl hx)⟩, rfl, ?_, b, (c id').2 (Or.inr rfl)⟩
    · intro x hx; rw [cell_insert, if_neg (show ¬ id' = x from fun e => b (e ▸ hx))]
    · rw [cell_insert, if_pos rfl]
  · simp only [Prod.mk.injEq] at h; exact absurd h.1 (by simp)

theorem saveString_present {d d1 : Doc} {s : List Byte} {r : Option Nat} (h : d.saveString s = (r, d1)) :
    ∀ m, (∃ x ∈ d.strings, x.id = m) → ∃ x ∈ d1.strings, x.id = m := by
  simp only [Doc.saveString] at h
  split at h
  · rename_i x hfind
    simp only [Prod.mk.injEq] at h
    obtain ⟨_, rfl⟩ := h
    rintro m ⟨y, hy, rfl⟩
    refine ⟨_, List.mem_map_of_mem hy, ?_⟩
    split <;> rfl
  · split at h
    · simp only [Prod.mk.injEq] at h; obtain ⟨_, rfl⟩ := h; exact fun m hm => hm
    generalize d.pl.alloc (s.length + d.strOverhead) = q at h
    obtain ⟨ok, pl⟩ := q
    simp only at h
    split at h
    · simp only [Prod.mk.injEq] at h; obtain ⟨_, rfl⟩ := h; exact fun m hm => hm
    · simp only [Prod.mk.injEq] at h; obtain ⟨_, rfl⟩ := h
      rintro m ⟨y, hy, rfl⟩
      exact ⟨y, List.mem_cons_of_mem _ hy, rfl⟩

theorem saveString_fr {d d1 : Doc} {s : List Byte} {n : Nat} (hp : PL.Inv d.g d.pl) (hs0 : ∃ rs, StrOK d rs)
    (h : d.saveString s = (some n, d1)) :
    Fr d d1 [] ∧ d1.strBytes n = s ∧ (∀ rs, StrOK d rs → StrOK d1 (n :: rs)) ∧ d1.overflowed = d.overflowed := by
  obtain ⟨rs0, hs0⟩ := hs0
  obtain ⟨hg, hroot, hcells, hb, hkeep, h1, h2, h3, h4⟩ := saveString_spec hs0.ids_nodup hs0.ids_lt h
  have hc : ∀ j, d1.cell j = d.cell j := fun j => by simp only [Doc.cell, hcells]
  refine ⟨⟨hg, fun _ => hroot, fun x _ _ => hc x, by rw [hg]; exact hp.congr h1 h3 h4 h2,
    fun x hx => by rw [hg, live_congr h1 h2]; exact hx,
    fun rs hs => ⟨StrOK_weaken (a := [n]) (saveString_strOK hs h), strBytes_of_present hkeep hs⟩,
    fun ho => by rw [saveString_overflowed h]; exact ho⟩,
    hb, fun rs hs => saveString_strOK hs h, saveString_overflowed h⟩

/-- the abstract value an argument of `setArg` stands for (the same function as `C04.argVal`) -/
def argV : Arg → Val
  | .null => .null
  | .bool b => .bool b
  | .sint v => .num (.sint v)
  | .uint v => .num (.uint v)
  | .f32 b => .num (.f32 b)
  | .f64 b => normF64 b
  | .strLinked s => .str s
  | .strCopied s => .str s
  | .raw s => .raw s

/-- outcome of a copy into `l` started in `d`, whose complete result would be `X`: the frame holds, something laid out
    over fresh slots was built at `l`, its value is a partial copy of `X`, it is `X` itself unless the overflow flag is
    set, and it is NOT `X` when the overflow flag was set by this copy -/
def CopyRes (d d' : Doc) (l : Loc) (X : Val) : Prop :=
  ∃ v s, Post d d' l v s ∧ PartialCopy (d'.valOf v s) X ∧ (d'.overflowed = false → d'.valOf v s = X) ∧
    (d.overflowed = false → d'.overflowed = true → d'.valOf v s ≠ X) ∧
    (d.overflowed = true → FlaggedCopy (d'.valOf v s) X)

theorem CopyRes.ok {d d' : Doc} {l : Loc} {X : Val} {v : VData} {s : Forest} (h : Post d d' l v s)
    (hv : d'.valOf v s = X) (hov : d'.overflowed = d.overflowed) (hsc : isScalarVal X) : CopyRes d d' l X :=
  ⟨v, s, h, hv ▸ PartialCopy.done _, fun _ => hv, (fun h0 h1 => by rw [hov, h0] at h1; cases h1),
    fun _ => hv ▸ FlaggedCopy.scalar (hv ▸ hsc)⟩

theorem CopyRes.fail {d d' : Doc} {l : Loc} {X : Val} (h : Post d d' l .null .nil) (ho : d'.overflowed = true)
    (hX : X ≠ .null) (hsc : isScalarVal X) : CopyRes d d' l X :=
  ⟨.null, .nil, h, PartialCopy.null hsc, (fun hf => by rw [ho] at hf; cases hf), (fun _ _ e => hX e.symm),
    fun _ => FlaggedCopy.null hsc⟩

theorem scalar_set_self {d1 : Doc} {l : Loc} {v' : VData}
    (hne : ∀ e ∈ extOfV v', Loc.slot e ≠ l) : (d1.set l v').scalar v' = d1.scalar v' :=
  scalar_congr (fun n _ => strBytes_set d1 l v' n) (fun e he => cell_set_ne (hne e he))

theorem setArg_res {d : Doc} {l : Loc} (P : Pre d l) (a : Arg) : CopyRes d (d.setArg l a).2 l (argV a) := by
  have hfr0 : Fr d d [] := Fr.refl P.pool []
  have hsc : isScalarVal (argV a) := by
    cases a
    case f64 b => show isScalarVal (normF64 b); unfold normF64; split <;> exact True.intro
    all_goals exact True.intro
  have plain : ∀ v', ¬ isColl v' → extOfV v' = [] → strOfV v' = [] → d.scalar v' = argV a →
      CopyRes d (d.set l v') l (argV a) := by
    intro v' hc he hs hval
    refine CopyRes.ok (v := v') (s := .nil)
      (post_set P hfr0 ((VOK_scalar hc _).2 rfl) (fun rs h => by rw [hs]; exact h) (by rw [he]; intro e h; cases h)) ?_
      (set_overflowed _ _ _) hsc
    rw [Doc.valOf, mkVal_scalar hc, scalar_set_self (by rw [he]; intro e h; cases h)]; exact hval
  have ext : ∀ (p : Int) (k : Nat → VData), (∀ e, ¬ isColl (k e) ∧ extOfV (k e) = [e] ∧ strOfV (k e) = []) →
      (∀ e (d1 : Doc), d1.extOf e = p → d1.scalar (k e) = argV a) → argV a ≠ .null →
      CopyRes d (match d.allocExt p with | (some s, d) => (true, d.set l (k s)) | (none, d) => (false, d)).2 l (argV a) := by
    intro p k hk hval hX
    generalize hal : d.allocExt p = r
    obtain ⟨m, d1⟩ := r
    cases m with
    | none =>
      obtain ⟨hg, ho, _⟩ := allocExt_none P.gok P.pool hal
      exact CopyRes.fail (post_null P (Fr.of_grow hg (fun _ => ho) [])) ho hX hsc
    | some e =>
      obtain ⟨hg, ho, hce, hnl, hlv⟩ := allocExt_some P.gok P.pool hal
      obtain ⟨hc, he, hs⟩ := hk e
      have hel : Loc.slot e ≠ l := by
        intro h
        exact hnl (P.slot e h.symm).1
      refine CopyRes.ok (v := k e) (s := .nil)
        (post_set P (Fr.of_grow hg (fun h => by rw [ho]; exact h) []) ((VOK_scalar hc _).2 rfl)
          (fun rs h => by rw [hs]; exact StrOK_congr hg.strings hg.nextNode h)
          (by rw [he]; intro e' he'; simp only [List.mem_singleton] at he'; subst he'; exact ⟨⟨p, hce⟩, hlv, hnl⟩)) ?_
        (by rw [set_overflowed, ho]) hsc
      show (d1.set l (k e)).valOf (k e) .nil = _
      rw [Doc.valOf, mkVal_scalar hc]
      refine hval e _ ?_
      simp only [Doc.extOf, cell_set_ne hel, hce]
  have str : ∀ (s : List Byte) (k : Nat → VData), (∀ n, ¬ isColl (k n) ∧ extOfV (k n) = [] ∧ strOfV (k n) = [n]) →
      (∀ n (d1 : Doc), d1.strBytes n = s → d1.scalar (k n) = argV a) → argV a ≠ .null →
      CopyRes d (match d.saveString s with
        | (some n, d) => (let d := d.set l (k n); (!d.overflowed, d)) | (none, d) => (!d.overflowed, d)).2 l (argV a) := by
    intro s k hk hval hX
    generalize hal : d.saveString s = r
    obtain ⟨m, d1⟩ := r
    cases m with
    | none =>
      obtain ⟨hg, ho, _⟩ := saveString_none P.pool hal
      exact CopyRes.fail (post_null P (Fr.of_grow hg (fun _ => ho) [])) ho hX hsc
    | some n =>
      obtain ⟨hf, hb, hst, hov1⟩ := saveString_fr P.pool P.str hal
      obtain ⟨hc, he, hs⟩ := hk n
      refine CopyRes.ok (v := k n) (s := .nil)
        (post_set P hf ((VOK_scalar hc _).2 rfl) (fun rs h => by rw [hs]; exact hst rs h)
          (by rw [he]; intro e h; cases h)) ?_ (by rw [set_overflowed, hov1]) hsc
      show (d1.set l (k n)).valOf (k n) .nil = _
      rw [Doc.valOf, mkVal_scalar hc]
      exact hval n _ (by rw [strBytes_set]; exact hb)
  cases a with
  | null => exact CopyRes.ok (v := .null) (s := .nil) (post_null P hfr0) rfl rfl trivial
  | bool b => exact plain (.bool b) (fun h => h) rfl rfl rfl
  | f32 b => exact plain (.f32 b) (fun h => h) rfl rfl rfl
  | strLinked s => exact plain (.linked s) (fun h => h) rfl rfl rfl
  | sint v =>
    simp only [Doc.setArg]
    split
    · exact plain (.i32 v) (fun h => h) rfl rfl rfl
    · exact ext v .i64 (fun e => ⟨fun h => h, rfl, rfl⟩) (fun e d1 h => by simp only [Doc.scalar, h, argV])
        (by simp [argV])
  | uint v =>
    simp only [Doc.setArg]
    split
    · exact plain (.u32 v) (fun h => h) rfl rfl rfl
    · exact ext v .u64 (fun e => ⟨fun h => h, rfl, rfl⟩)
        (fun e d1 h => by simp only [Doc.scalar, h, argV, Int.toNat_natCast]) (by simp [argV])
  | f64 b =>
    simp only [Doc.setArg]
    split
    · rename_i f heq
      refine plain (.f32 f) (fun h => h) rfl rfl ?_
      simp only [Doc.scalar, argV, normF64, heq]
    · rename_i hne
      refine ext b .f64 (fun e => ⟨fun h => h, rfl, rfl⟩) (fun e d1 h => ?_) ?_
      · simp only [Doc.scalar, h, argV, normF64, Int.toNat_natCast]
      · simp only [argV, normF64]
        intro h; cases h
  | strCopied s =>
    simp only [Doc.setArg]
    exact str s .owned (fun n => ⟨fun h => h, rfl, rfl⟩) (fun n d1 h => by simp only [Doc.scalar, h, argV])
      (by simp [argV])
  | raw s =>
    simp only [Doc.setArg]
    exact str s .raw (fun n => ⟨fun h => h, rfl, rfl⟩) (fun n d1 h => by simp only [Doc.scalar, h, argV])
      (by simp [argV])

/-! ## Appending a built element to the collection being built -/

theorem mem_newH {l l' : Loc} {A B : List Nat} :
    l' ∈ l :: (A ++ B).map Loc.slot ↔ l' = l ∨ (∃ j ∈ A, l' = .slot j) ∨ (∃ j ∈ B, l' = .slot j) := by
  simp only [List.mem_cons, List.mem_map, List.mem_append]
  constructor
  · rintro (h | ⟨j, hj | hj, e⟩)
    · exact Or.inl h
    · exact Or.inr (Or.inl ⟨j, hj, e.symm⟩)
    · exact Or.inr (Or.inr ⟨j, hj, e.symm⟩)
  · rintro (h | ⟨j, hj, e⟩ | ⟨j, hj, e⟩)
    · exact Or.inl h
    · exact Or.inr ⟨j, Or.inl hj, e.symm⟩
    · exact Or.inr ⟨j, Or.inr hj, e.symm⟩

/-- The collection `coll b h t` built so far at `l` (laid out as `sl`) gets the element `id` (with key slot `key`), itself
    laid out as `se` over fresh slots, linked behind its tail: the local specification is re-established for the layout
    `sl.snocS key id se`, and the abstract members are the old ones followed by the new one. -/
theorem post_snoc {d0 d d3 : Doc} {l : Loc} {b : Bool} {h t : Nat} {sl se : Forest} {key : Option Nat} {id : Nat}
    (P0 : Pre d0 l) (P : Post d0 d l (coll b h t) sl)
    (hfr : Fr d d3 [l, .slot t])
    (hct : t ≠ d.null → d3.cell t = .var (d.get (.slot t)) (key.getD id))
    (hget : d3.get l = coll b (if t ≠ d.null then h else key.getD id) id)
    (hslot : ∀ i, l = .slot i → d3.cell i = .var (coll b (if t ≠ d.null then h else key.getD id) id) (d.nextOf i))
    (hnew : Lk d3 b (key.getD id) (.cons key id se .nil))
    (hnd : (Forest.keyL key ++ id :: se.ids).Nodup)
    (hfresh : ∀ x ∈ Forest.keyL key ++ id :: se.ids, ¬ PL.live d.g d.pl x ∧ PL.live d3.g d3.pl x)
    (hext : ExtL d3 ((Forest.keyL key ++ id :: se.ids).map .slot))
    (hextfresh : ∀ x ∈ Forest.keyL key ++ id :: se.ids, ∀ e ∈ extOfV (d3.get (.slot x)), ¬ PL.live d.g d.pl e)
    (hstr : ∀ rs, StrOK d rs →
      StrOK d3 ((Forest.keyL key ++ id :: se.ids).flatMap (fun j => strOfV (d3.get (.slot j))) ++ rs)) :
    Post d0 d3 l (coll b (if t ≠ d.null then h else key.getD id) id) (sl.snocS key id se) ∧
    vals d3 noOv (sl.snocS key id se) =
      vals d noOv sl ++ [(keyB d3 key, mkVal d3 (d3.get (.slot id)) (vals d3 noOv se))] := by
  generalize hN : Forest.keyL key ++ id :: se.ids = N at hnd hfresh hext hextfresh hstr
  have hn3 : d3.null = d.null := hfr.null
  have hn : d.null = d0.null := P.fr.null
  obtain ⟨hlk, ht⟩ := (VOK_coll _ _ _ _ _).1 P.att.vok
  -- the place `l`
  have hlslot : ∀ i, l = .slot i → PL.live d0.g d0.pl i ∧ d.cell i = .var (coll b h t) (d0.nextOf i) :=
    fun i e => ⟨(P0.slot i e).1, P.att.slot i e⟩
  -- the old tail
  have htf : t ≠ d.null → t ∈ sl.ids ∧ d.isVar t := by
    intro htn
    have hne : sl ≠ .nil := fun e => htn (by rw [ht]; exact (last_null_iff hlk).2 e)
    obtain ⟨t', ht', hm⟩ := Forest.top_ne_nil hne
    have : t = t' := by rw [ht, ht']; rfl
    subst this
    exact ⟨sl.top_sub_ids t hm, Lk_top_isVar _ hlk t hm⟩
  have hslive : ∀ j ∈ sl.ids, PL.live d.g d.pl j := fun j hj => (P.att.fresh j hj).2
  have hsnl : ∀ j ∈ sl.ids, Loc.slot j ≠ l := fun j hj e => (P.att.fresh j hj).1 (hlslot j e.symm).1
  have htnotlive : ¬ PL.live d0.g d0.pl t := by
    intro hl
    by_cases htn : t = d.null
    · exact absurd (live_lt_null P0.pool hl) (by rw [htn, hn]; exact Nat.lt_irrefl _)
    · exact (P.att.fresh t (htf htn).1).1 hl
  have hcell3 : ∀ x, PL.live d.g d.pl x → Loc.slot x ≠ l → x ≠ t → d3.cell x = d.cell x := by
    intro x hx h1 h2
    refine hfr.cells x hx ?_
    simp only [List.mem_cons, List.not_mem_nil, or_false, Loc.slot.injEq, not_or]
    exact ⟨h1, h2⟩
  have hoth : ∀ j ∈ sl.ids, j ≠ t → d3.cell j = d.cell j := fun j hj hjt => hcell3 j (hslive j hj) (hsnl j hj) hjt
  have hgets : ∀ j ∈ sl.ids, d3.get (.slot j) = d.get (.slot j) := by
    intro j hj
    by_cases hjt : j = t
    · subst hjt
      have htn : j ≠ d.null := Nat.ne_of_lt (live_lt_null P.fr.pool (hslive j hj))
      exact get_of_var (hct htn)
    · exact get_of_cell (hoth j hj hjt)
  -- extension slots referenced from the old layout
  have hextold : ∀ j ∈ sl.ids, ∀ e ∈ extOfV (d.get (.slot j)), PL.live d.g d.pl e ∧ d3.cell e = d.cell e ∧
      ∃ p, d.cell e = .ext p := by
    intro j hj e he
    obtain ⟨⟨p, hp⟩, hlv, _⟩ := P.att.ext (.slot j) (List.mem_cons_of_mem _ (List.mem_map_of_mem hj)) e he
    refine ⟨hlv, hcell3 e hlv ?_ ?_, p, hp⟩
    · intro e'
      rw [(hlslot e e'.symm).2] at hp; cases hp
    · intro e'
      have htn : t ≠ d.null := e' ▸ Nat.ne_of_lt (live_lt_null P.fr.pool hlv)
      have := (htf htn).2
      rw [Doc.isVar, ← e', hp] at this; cases this
  obtain ⟨rs0, hrs0⟩ := P0.str
  have hsa : SAgree d d3 sl.ids := by
    intro j hj
    refine scalar_congr (fun n hn' => hfr.bytes (P.att.str rs0 hrs0) ?_) (fun e he => (hextold j hj e he).2.1)
    refine List.mem_append_left _ (List.mem_append_right _ ?_)
    simp only [goneF, List.mem_flatMap]; exact ⟨j, hj, hn'⟩
  have hval : vals d3 noOv (sl.snocS key id se) =
      vals d noOv sl ++ [(keyB d3 key, mkVal d3 (d3.get (.slot id)) (vals d3 noOv se))] := by
    rw [vals_snocS, vals_congr' noOv sl hgets hsa]; rfl
  refine ⟨⟨?_, ⟨?_, hget, ?_, ?_, ?_, ?_, ?_, ?_⟩⟩, hval⟩
  · -- frame
    refine Fr.trans P.fr hfr ?_
    intro l' hl'
    simp only [List.mem_cons, List.not_mem_nil, or_false] at hl'
    rcases hl' with e | e
    · exact Or.inl (by simp [e])
    · exact Or.inr ⟨t, e, htnotlive⟩
  · -- string table
    intro rs hs
    have h1 := hstr _ (P.att.str rs hs)
    have hg3 : goneF d3 (sl.snocS key id se) =
        goneF d sl ++ N.flatMap (fun j => strOfV (d3.get (.slot j))) := by
      simp only [goneF, Forest.ids_snocS, hN, List.flatMap_append]
      rw [flatMap_congr' sl.ids (fun j hj => by rw [hgets j hj])]
    rw [hg3, strOfV_coll]
    rw [strOfV_coll] at h1
    refine StrOK_perm ?_ h1
    simp only [List.nil_append, List.append_assoc]
    exact List.perm_append_comm_assoc _ _ _
  · intro i e
    rw [hslot i e, nextOf_of_var (hlslot i e).2]
  · rw [VOK_coll]
    exact ⟨append_chainS hn3 hlk ht P.att.nodup hct hoth hnew, by rw [top_snocS_last]⟩
  · rw [Forest.ids_snocS, hN]
    refine List.nodup_append.2 ⟨P.att.nodup, hnd, ?_⟩
    intro a ha b' hb' e; subst e
    exact (hfresh a hb').1 (hslive a ha)
  · intro x hx
    rw [Forest.ids_snocS, hN, List.mem_append] at hx
    rcases hx with hx | hx
    · exact ⟨(P.att.fresh x hx).1, hfr.live x (hslive x hx)⟩
    · exact ⟨fun h0 => (hfresh x hx).1 (P.fr.live x h0), (hfresh x hx).2⟩
  · -- extension slots
    rw [Forest.ids_snocS, hN]
    intro l' hl' e he
    rcases mem_newH.1 hl' with e' | ⟨j, hj, e'⟩ | ⟨j, hj, e'⟩
    · subst e'; rw [hget, extOfV_coll] at he; cases he
    · subst e'
      rw [hgets j hj] at he
      obtain ⟨hlv, hc3, p, hp⟩ := hextold j hj e he
      refine ⟨⟨p, by rw [hc3, hp]⟩, hfr.live e hlv, ?_⟩
      intro l2 hl2 he2
      rcases mem_newH.1 hl2 with e2 | ⟨j2, hj2, e2⟩ | ⟨j2, hj2, e2⟩
      · subst e2; rw [hget, extOfV_coll] at he2; cases he2
      · subst e2
        rw [hgets j2 hj2] at he2
        exact (P.att.ext (.slot j) (List.mem_cons_of_mem _ (List.mem_map_of_mem hj)) e he).2.2 (.slot j2)
          (List.mem_cons_of_mem _ (List.mem_map_of_mem hj2)) he2
      · subst e2
        exact absurd hlv (hextfresh j2 hj2 e he2)
    · subst e'
      obtain ⟨hp, hlv, hu⟩ := hext (.slot j) (List.mem_map_of_mem hj) e he
      refine ⟨hp, hlv, ?_⟩
      intro l2 hl2 he2
      rcases mem_newH.1 hl2 with e2 | ⟨j2, hj2, e2⟩ | ⟨j2, hj2, e2⟩
      · subst e2; rw [hget, extOfV_coll] at he2; cases he2
      · subst e2
        rw [hgets j2 hj2] at he2
        exact absurd (hextold j2 hj2 e he2).1 (hextfresh j hj e he)
      · subst e2
        exact hu (.slot j2) (List.mem_map_of_mem hj2) he2
  · rw [Forest.ids_snocS, hN]
    intro l' hl' e he
    rcases mem_newH.1 hl' with e' | ⟨j, hj, e'⟩ | ⟨j, hj, e'⟩
    · subst e'; rw [hget, extOfV_coll] at he; cases he
    · subst e'
      rw [hgets j hj] at he
      exact P.att.extfresh (.slot j) (List.mem_cons_of_mem _ (List.mem_map_of_mem hj)) e he
    · subst e'
      exact fun h0 => hextfresh j hj e he (P.fr.live e h0)

/-! ## What was built survives a step that leaves it alone -/

theorem Att.frame {d0 d d' : Doc} {l : Loc} {v : VData} {s : Forest} {ex : List Loc}
    (A : Att d0 d l v s) (hs0 : ∃ rs, StrOK d0 rs) (hll : ∀ i, l = .slot i → PL.live d.g d.pl i)
    (hf : Fr d d' ex) (hex : ∀ l' ∈ l :: s.ids.map Loc.slot, l' ∉ ex)
    (hexe : ∀ l' ∈ l :: s.ids.map Loc.slot, ∀ e ∈ extOfV (d.get l'), Loc.slot e ∉ ex) :
    Att d0 d' l v s ∧ d'.valOf v s = d.valOf v s := by
  have hgl : d'.get l = d.get l := by
    cases l with
    | root => exact hf.root (hex _ List.mem_cons_self)
    | slot i => exact get_of_cell (hf.cells i (hll i rfl) (hex _ List.mem_cons_self))
  have hcs : ∀ j ∈ s.ids, d'.cell j = d.cell j := fun j hj =>
    hf.cells j (A.fresh j hj).2 (hex _ (List.mem_cons_of_mem _ (List.mem_map_of_mem hj)))
  obtain ⟨rs0, hrs0⟩ := hs0
  have hpres := (A.str rs0 hrs0).present
  have hgs : ∀ j ∈ s.ids, d'.get (.slot j) = d.get (.slot j) := fun j hj => get_of_cell (hcs j hj)
  have hgH : ∀ l' ∈ l :: s.ids.map Loc.slot, d'.get l' = d.get l' := by
    intro l' hl'
    rcases List.mem_cons.1 hl' with e | m
    · rw [e]; exact hgl
    · obtain ⟨j, hj, e⟩ := List.mem_map.1 m
      subst e; exact hgs j hj
  have hextc : ∀ l' ∈ l :: s.ids.map Loc.slot, ∀ e ∈ extOfV (d.get l'), d'.cell e = d.cell e := fun l' hl' e he =>
    hf.cells e (A.ext l' hl' e he).2.1 (hexe l' hl' e he)
  have ag : Agree d d' s.ids := ⟨hf.null, hcs⟩
  have hscal : ∀ l' ∈ l :: s.ids.map Loc.slot, d'.scalar (d.get l') = d.scalar (d.get l') := by
    intro l' hl'
    refine scalar_congr (fun n hn' => hf.bytes (A.str rs0 hrs0) ?_) (hextc l' hl')
    refine List.mem_append_left _ ?_
    rcases List.mem_cons.1 hl' with e | m
    · rw [e, A.get] at hn'; exact List.mem_append_left _ hn'
    · obtain ⟨j, hj, e⟩ := List.mem_map.1 m
      subst e
      refine List.mem_append_right _ ?_
      simp only [goneF, List.mem_flatMap]; exact ⟨j, hj, hn'⟩
  have sa : SAgree d d' s.ids := fun j hj => hscal (.slot j) (List.mem_cons_of_mem _ (List.mem_map_of_mem hj))
  refine ⟨⟨?_, by rw [hgl]; exact A.get, ?_, VOK_congr ag A.vok,
    A.nodup, fun x hx => ⟨(A.fresh x hx).1, hf.live x (A.fresh x hx).2⟩, ?_, ?_⟩, ?_⟩
  · intro rs hs
    rw [goneF_congr s hgs]
    exact hf.strok _ (A.str rs hs)
  · intro i e
    rw [hf.cells i (hll i e) (e ▸ hex _ List.mem_cons_self)]; exact A.slot i e
  · intro l' hl' e he
    rw [hgH l' hl'] at he
    obtain ⟨⟨p, hp⟩, hlv, hu⟩ := A.ext l' hl' e he
    refine ⟨⟨p, by rw [hextc l' hl' e he, hp]⟩, hf.live e hlv, ?_⟩
    intro l2 hl2 he2
    rw [hgH l2 hl2] at he2
    exact hu l2 hl2 he2
  · intro l' hl' e he
    rw [hgH l' hl'] at he
    exact A.extfresh l' hl' e he
  · simp only [Doc.valOf]
    rw [vals_congr noOv s ag sa]
    have := hscal l (List.mem_cons_self)
    rw [A.get] at this
    exact mkVal_congr this _

theorem Post.frame {d0 d d' : Doc} {l : Loc} {v : VData} {s : Forest} (P0 : Pre d0 l) (P : Post d0 d l v s)
    (hf : Fr d d' []) : Post d0 d' l v s ∧ d'.valOf v s = d.valOf v s := by
  obtain ⟨a, b⟩ := P.att.frame P0.str (fun i e => P.fr.live i (P0.slot i e).1) hf (fun _ _ h => by cases h)
    (fun _ _ _ _ h => by cases h)
  exact ⟨⟨Fr.trans P.fr hf (fun l' hl' => by cases hl'), a⟩, b⟩

/-! ## Frames of the primitives -/

theorem setNext_overflowed (d : Doc) (i n : Nat) : (d.setNext i n).overflowed = d.overflowed := by
  simp only [Doc.setNext]; split <;> rfl

theorem set_fr {d : Doc} (hp : PL.Inv d.g d.pl) (l : Loc) (v : VData) : Fr d (d.set l v) [l] := by
  refine ⟨set_g _ _ _, ?_, ?_, by rw [set_pl, set_g]; exact hp, fun x hx => by rw [set_pl, set_g]; exact hx,
    fun rs hs => ⟨StrOK_congr (set_strings _ _ _) (set_nextNode _ _ _) hs, fun m _ => strBytes_set d l v m⟩,
    fun ho => by rw [set_overflowed]; exact ho⟩
  · intro hr
    cases l with
    | root => exact absurd (List.mem_singleton.2 rfl) hr
    | slot i => rfl
  · intro x _ hn
    exact cell_set_ne (fun e => hn (List.mem_singleton.2 e))

theorem fr_of_same {d d' : Doc} {ex : List Loc} (hp : PL.Inv d.g d.pl) (hg : d'.g = d.g) (hpl : d'.pl = d.pl)
    (hstr : d'.strings = d.strings) (hnn : d'.nextNode = d.nextNode) (hov : d'.overflowed = d.overflowed)
    (hroot : Loc.root ∉ ex → d'.root = d.root) (hcells : ∀ x, Loc.slot x ∉ ex → d'.cell x = d.cell x) : Fr d d' ex :=
  ⟨hg, hroot, fun x _ hn => hcells x hn, by rw [hpl, hg]; exact hp, fun x hx => by rw [hpl, hg]; exact hx,
    fun rs hs => ⟨StrOK_congr hstr hnn hs, fun m _ => strBytes_of_strings hstr m⟩,
    fun ho => by rw [hov]; exact ho⟩

theorem appendOne_fr {d : Doc} {l : Loc} {h t id : Nat} (hp : PL.Inv d.g d.pl) (hv : d.get l = .arr h t)
    (htl : Loc.slot t ≠ l) : Fr d (d.appendOne l id) [l, .slot t] := by
  obtain ⟨hn, hstr, hpl, hg, _, hco, _, hroot, _⟩ := appendOne_cells (id := id) hv htl
  have hmisc : (d.appendOne l id).nextNode = d.nextNode ∧ (d.appendOne l id).overflowed = d.overflowed := by
    rw [appendOne_get hv]; split
    · exact ⟨by rw [set_nextNode, setNext_nextNode], by rw [set_overflowed, setNext_overflowed]⟩
    · exact ⟨set_nextNode _ _ _, set_overflowed _ _ _⟩
  refine fr_of_same hp hg hpl hstr hmisc.1 hmisc.2 ?_ ?_
  · intro hr; exact hroot (fun e => hr (by simp [e]))
  · intro x hx
    simp only [List.mem_cons, List.not_mem_nil, or_false, Loc.slot.injEq, not_or] at hx
    exact hco x hx.1 (fun _ => hx.2)

theorem appendOne_ov_eq {d : Doc} {l : Loc} {h t id : Nat} (hv : d.get l = .arr h t) :
    (d.appendOne l id).overflowed = d.overflowed := by
  rw [appendOne_get hv]; split
  · rw [set_overflowed, setNext_overflowed]
  · exact set_overflowed _ _ _

/-- cells of the document after `appendPair` -/
theorem appendPair_cellsC {d : Doc} {l : Loc} {h t k v nk : Nat} {kv : VData} (hv : d.get l = .obj h t)
    (hk : d.cell k = .var kv nk) (hkl : Loc.slot k ≠ l) (htl : Loc.slot t ≠ l) (hkt : k ≠ t)
    (htv : t ≠ d.null → d.isVar t) :
    let d' := d.appendPair l k v
    d'.null = d.null ∧ d'.strings = d.strings ∧ d'.pl = d.pl ∧ d'.g = d.g ∧ d'.nextNode = d.nextNode ∧
    d'.overflowed = d.overflowed ∧
    d'.get l = .obj (if t ≠ d.null then h else k) v ∧
    d'.cell k = .var kv v ∧
    (∀ j, Loc.slot j ≠ l → j ≠ k → (t ≠ d.null → j ≠ t) → d'.cell j = d.cell j) ∧
    (t ≠ d.null → d'.cell t = .var (d.get (.slot t)) k) ∧
    (l ≠ .root → d'.root = d.root) ∧
    (∀ i, l = .slot i → d'.cell i = .var (.obj (if t ≠ d.null then h else k) v) (d.nextOf i)) := by
  intro d'
  have hd' : d' = _ := appendPair_get (v := v) hv hkl
  have hk0 : (d.setNext k v).cell k = .var kv v := cell_setNext_var hk v
  have ho0 : ∀ j, j ≠ k → (d.setNext k v).cell j = d.cell j := fun j hj => cell_setNext_ne d v (Ne.symm hj)
  by_cases htn : t = d.null
  · simp only [htn, ne_eq, not_true_eq_false, if_false] at hd' ⊢
    rw [hd']
    refine ⟨by rw [set_null, setNext_null], by rw [set_strings, setNext_strings], by rw [set_pl, setNext_pl],
      by rw [set_g, setNext_g], by rw [set_nextNode, setNext_nextNode], by rw [set_overflowed, setNext_overflowed],
      get_set_self _ _ _, by rw [cell_set_ne hkl]; exact hk0, ?_, fun h => h.elim, ?_, ?_⟩
    · intro j hj hjk _; rw [cell_set_ne hj]; exact ho0 j hjk
    · intro hl'; cases l with
      | root => exact absurd rfl hl'
      | slot i => exact setNext_root d k v
    · intro i hi; subst hi
      rw [cell_set_slot, if_pos rfl,
        nextOf_of_cell (ho0 i (fun (e : i = k) => hkl (by rw [e]))) (setNext_null d k v)]
  · simp only [ne_eq, htn, not_false_eq_true, if_true] at hd' ⊢
    rw [hd']
    have htk : t ≠ k := Ne.symm hkt
    have hvar0 : (d.setNext k v).cell t = .var (d.get (.slot t)) (d.nextOf t) := by
      rw [ho0 t htk]; exact htv htn
    refine ⟨by rw [set_null, setNext_null, setNext_null], by rw [set_strings, setNext_strings, setNext_strings],
      by rw [set_pl, setNext_pl, setNext_pl], by rw [set_g, setNext_g, setNext_g],
      by rw [set_nextNode, setNext_nextNode, setNext_nextNode],
      by rw [set_overflowed, setNext_overflowed, setNext_overflowed], get_set_self _ _ _,
      ?_, ?_, ?_, ?_, ?_⟩
    · rw [cell_set_ne hkl, cell_setNext_ne _ k htk]; exact hk0
    · intro j hj hjk hjt
      rw [cell_set_ne hj, cell_setNext_ne _ k (Ne.symm (hjt trivial))]; exact ho0 j hjk
    · intro _
      rw [cell_set_ne htl]; exact cell_setNext_var hvar0 k
    · intro hl'; cases l with
      | root => exact absurd rfl hl'
      | slot i => rw [root_set_slot, setNext_root, setNext_root]
    · intro i hi; subst hi
      rw [cell_set_slot, if_pos rfl]
      have hit : t ≠ i := fun e => htl (by rw [e])
      have hik : i ≠ k := fun e => hkl (by rw [e])
      rw [nextOf_of_cell (cell_setNext_ne _ k hit) (setNext_null _ t k),
        nextOf_of_cell (ho0 i hik) (setNext_null d k v)]

/-! ## The cleared place -/

theorem clearV_null {d : Doc} {l : Loc} (h : d.get l = .null) : d.clearV l = d.set l .null := by
  rw [clearV_scalar_eq (by rw [h]; exact fun h => h), h]; rfl

theorem Pre.cleared {d : Doc} {l : Loc} (P : Pre d l) : Pre (d.set l .null) l := by
  refine ⟨by rw [set_g]; exact P.gok, by rw [set_pl, set_g]; exact P.pool, get_set_self _ _ _, ?_, ?_⟩
  · intro i e; subst e
    refine ⟨by rw [set_pl, set_g]; exact (P.slot i rfl).1, ?_⟩
    exact isVar_of_var (by rw [cell_set_slot, if_pos rfl])
  · obtain ⟨rs, hs⟩ := P.str
    exact ⟨rs, StrOK_congr (set_strings _ _ _) (set_nextNode _ _ _) hs⟩

theorem Post.of_cleared {d0 d : Doc} {l : Loc} {v : VData} {s : Forest} (P0 : Pre d0 l)
    (P : Post (d0.set l .null) d l v s) : Post d0 d l v s := by
  have hf : Fr d0 (d0.set l .null) [l] := set_fr P0.pool l .null
  have hlive : ∀ x, PL.live (d0.set l .null).g (d0.set l .null).pl x ↔ PL.live d0.g d0.pl x := by
    intro x; rw [set_pl, set_g]
  have hso : ∀ rs, StrOK d0 rs → StrOK (d0.set l .null) rs := fun rs hs =>
    StrOK_congr (set_strings _ _ _) (set_nextNode _ _ _) hs
  refine ⟨Fr.trans hf P.fr (fun l' hl' => Or.inl hl'), ⟨fun rs hs => P.att.str rs (hso rs hs), P.att.get, ?_, P.att.vok,
    P.att.nodup, fun x hx => ⟨fun h => (P.att.fresh x hx).1 ((hlive x).2 h), (P.att.fresh x hx).2⟩, P.att.ext,
    fun l' hl' e he h => P.att.extfresh l' hl' e he ((hlive e).2 h)⟩⟩
  intro i e
  rw [P.att.slot i e]
  subst e
  rw [nextOf_of_var (show (d0.set (.slot i) .null).cell i = .var .null (d0.nextOf i) by rw [cell_set_slot, if_pos rfl])]

theorem CopyRes.of_cleared {d0 d : Doc} {l : Loc} {X : Val} (P0 : Pre d0 l) (h : CopyRes (d0.set l .null) d l X) :
    CopyRes d0 d l X := by
  obtain ⟨v, s, P, a, b, c, f⟩ := h
  exact ⟨v, s, P.of_cleared P0, a, b, fun h0 => c (by rw [set_overflowed]; exact h0),
    fun h0 => f (by rw [set_overflowed]; exact h0)⟩

/-! ## `clearV` does not touch the overflow flag -/

theorem derefString_overflowed (d : Doc) (n : Nat) : (d.derefString n).overflowed = d.overflowed := by
  simp only [Doc.derefString]
  split
  · rfl
  · split <;> rfl

theorem walkFree_overflowed (free1 : Doc → Nat → Doc) (h1 : ∀ d id, (free1 d id).overflowed = d.overflowed) :
    ∀ (w : Nat) (d : Doc) (id : Nat), (walkFree free1 w d id).overflowed = d.overflowed := by
  intro w
  induction w with
  | zero => intro d id; rfl
  | succ w ih =>
    intro d id
    simp only [walkFree]
    split
    · rfl
    · rw [ih, h1]

theorem clearVF_overflowed : ∀ (f : Nat) (d : Doc) (l : Loc), (Doc.clearVF f d l).overflowed = d.overflowed := by
  intro f
  induction f with
  | zero => intro d l; exact set_overflowed _ _ _
  | succ f ih =>
    intro d l
    have hw : ∀ (d : Doc) (w h : Nat),
        (walkFree (fun d id => (Doc.clearVF f d (.slot id)).freeCell id) w d h).overflowed = d.overflowed :=
      fun d w h => walkFree_overflowed (fun d id => (Doc.clearVF f d (.slot id)).freeCell id)
        (fun d id => ih d (.slot id)) w d h
    simp only [Doc.clearVF]
    rw [set_overflowed]
    cases d.get l <;> simp only [hw, derefString_overflowed] <;> rfl

theorem clearV_overflowed (d : Doc) (l : Loc) : (d.clearV l).overflowed = d.overflowed := clearVF_overflowed _ d l

theorem freeVariant_overflowed (d : Doc) (id : Nat) : (d.freeVariant id).overflowed = d.overflowed :=
  clearV_overflowed d (.slot id)

/-! ## One element of an array -/

/-- `dst.set(src element)` once the slot `m` exists: the copy function passed to `copyElems` / `copyMembers` -/
def memCopy (f : Nat) (src : Doc) (d : Doc) (m v : Nat) : Doc := copyIntoF f d (.slot m) src (src.get (.slot v))

theorem copyIntoF_arr (f : Nat) (d : Doc) (l : Loc) (src : Doc) (h t : Nat) :
    copyIntoF (f+1) d l src (.arr h t) =
      copyElems l (memCopy f src) ((d.clearV l).set l (.arr (d.clearV l).null (d.clearV l).null)) (src.chain h) := rfl

theorem copyIntoF_obj (f : Nat) (d : Doc) (l : Loc) (src : Doc) (h t : Nat) :
    copyIntoF (f+1) d l src (.obj h t) =
      copyMembers l src (memCopy f src) ((d.clearV l).set l (.obj (d.clearV l).null (d.clearV l).null)) (src.chain h) := rfl

/-- the array being built at `l`: its value so far is `.arr xs` -/
def ArrInv (d0 d : Doc) (l : Loc) (xs : List Val) : Prop :=
  ∃ h t sl, Post d0 d l (.arr h t) sl ∧ d.valOf (.arr h t) sl = .arr xs

/-- the object being built at `l`: its value so far is `.obj ms` -/
def ObjInv (d0 d : Doc) (l : Loc) (ms : List (List Byte × Val)) : Prop :=
  ∃ h t sl, Post d0 d l (.obj h t) sl ∧ d.valOf (.obj h t) sl = .obj ms

/-- the tail slot of the collection being built -/
theorem Post.tail {d0 d : Doc} {l : Loc} {b : Bool} {h t : Nat} {sl : Forest} (P0 : Pre d0 l)
    (P : Post d0 d l (coll b h t) sl) :
    (t ≠ d.null → t ∈ sl.ids ∧ d.isVar t ∧ PL.live d.g d.pl t) ∧ Loc.slot t ≠ l ∧ ¬ PL.live d0.g d0.pl t ∧
    (∀ x, PL.live d.g d.pl x → ¬ PL.live d0.g d0.pl x → x ∉ sl.ids → x ≠ t) := by
  obtain ⟨hlk, ht⟩ := (VOK_coll _ _ _ _ _).1 P.att.vok
  have hn : d.null = d0.null := P.fr.null
  have htf : t ≠ d.null → t ∈ sl.ids ∧ d.isVar t ∧ PL.live d.g d.pl t := by
    intro htn
    have hne : sl ≠ .nil := fun e => htn (by rw [ht]; exact (last_null_iff hlk).2 e)
    obtain ⟨t', ht', hm⟩ := Forest.top_ne_nil hne
    have : t = t' := by rw [ht, ht']; rfl
    subst this
    exact ⟨sl.top_sub_ids t hm, Lk_top_isVar _ hlk t hm, (P.att.fresh t (sl.top_sub_ids t hm)).2⟩
  have htnotlive : ¬ PL.live d0.g d0.pl t := by
    intro hl
    by_cases htn : t = d.null
    · exact absurd (live_lt_null P0.pool hl) (by rw [htn, hn]; exact Nat.lt_irrefl _)
    · exact (P.att.fresh t (htf htn).1).1 hl
  refine ⟨htf, fun e => htnotlive (P0.slot t e.symm).1, htnotlive, ?_⟩
  intro x hx _ hxs e
  subst e
  by_cases htn : x = d.null
  · exact absurd (live_lt_null P.fr.pool hx) (by rw [htn]; exact Nat.lt_irrefl _)
  · exact hxs (htf htn).1

/-- the slot `id` just allocated, holding what a copy built in it (`Post d1 d2 (.slot id) ve se`), is appended to the array
    being built at `l` -/
theorem arr_append {d0 d d1 d2 : Doc} {l : Loc} {id h t : Nat} {xs : List Val} {sl se : Forest} {ve : VData}
    (P0 : Pre d0 l) (P : Post d0 d l (.arr h t) sl) (hv : d.valOf (.arr h t) sl = .arr xs)
    (hal : d.allocVariant = (some id, d1)) (P2 : Post d1 d2 (.slot id) ve se) :
    ArrInv d0 (d2.appendOne l id) l (xs ++ [d2.valOf ve se]) ∧ (d2.appendOne l id).overflowed = d2.overflowed := by
  have gokd : PL.GeoOK d.g := by rw [P.fr.g]; exact P0.gok
  obtain ⟨rs0, hrs0⟩ := P0.str
  have hsd := P.att.str rs0 hrs0
  obtain ⟨hg, hov, hcid, hco, hnl, hlt, hlv⟩ := allocVariant_some gokd P.fr.pool hal
  have hn1 : d1.null = d.null := by simp only [Doc.null, hg.g]
  have hlid1 : PL.live d1.g d1.pl id := (hlv id).2 (Or.inr rfl)
  have pre1 : Pre d1 (.slot id) :=
    ⟨by rw [hg.g]; exact gokd, hg.pool, get_of_var hcid, fun i e => by cases e; exact ⟨hlid1, isVar_of_var hcid⟩,
      ⟨_, StrOK_congr hg.strings hg.nextNode hsd⟩⟩
  -- the frame from `d` to `d2`
  have Fd2 : Fr d d2 [] := Fr.trans (Fr.of_grow hg (fun h => by rw [hov]; exact h) []) P2.fr
    (fun l' hl' => Or.inr ⟨id, List.mem_singleton.1 hl', hnl⟩)
  obtain ⟨Pd2, hvd2⟩ := P.frame P0 Fd2
  obtain ⟨htf, htl, _, htne⟩ := Post.tail (b := false) P0 P
  obtain ⟨htf2, _, _, _⟩ := Post.tail (b := false) P0 Pd2
  have hn2 : d2.null = d.null := Fd2.null
  have hll : ∀ i, l = .slot i → PL.live d.g d.pl i := fun i e => P.fr.live i (P0.slot i e).1
  have hlid : Loc.slot id ≠ l := fun e => hnl (hll id e.symm)
  have hidt : id ≠ t := by
    intro e'
    by_cases htn : t = d.null
    · exact absurd hlt (by rw [e', htn]; exact Nat.lt_irrefl _)
    · exact hnl (e' ▸ (htf htn).2.2)
  obtain ⟨hn3, hstr3, hpl3, hg3, hget3, hco3, hct3, hroot3, hci3⟩ := appendOne_cells (id := id) Pd2.att.get htl
  have F23 : Fr d2 (d2.appendOne l id) [l, .slot t] := appendOne_fr Pd2.fr.pool Pd2.att.get htl
  have hov3 : (d2.appendOne l id).overflowed = d2.overflowed := appendOne_ov_eq Pd2.att.get
  generalize d2.appendOne l id = d3 at *
  -- what was built at `id` survives the linking
  have hne_t : ∀ j, PL.live d2.g d2.pl j → (t ≠ d.null → j ≠ t) → j ≠ t := by
    intro j hj hh e'
    by_cases htn : t = d.null
    · exact absurd (live_lt_null Pd2.fr.pool hj) (by rw [e', htn, hn2]; exact Nat.lt_irrefl _)
    · exact hh htn e'
  have hlid2 : PL.live d2.g d2.pl id := P2.fr.live id hlid1
  have hidt : id ≠ t := hne_t id hlid2 (fun htn e' => hnl (e' ▸ (htf htn).2.2))
  have hex2 : ∀ l' ∈ Loc.slot id :: se.ids.map Loc.slot, l' ∉ [l, Loc.slot t] := by
    intro l' hl' hm
    simp only [List.mem_cons, List.not_mem_nil, or_false] at hm
    rcases List.mem_cons.1 hl' with e' | m
    · subst e'
      rcases hm with hm | hm
      · exact hlid hm
      · exact hidt (by injection hm)
    · obtain ⟨j, hj, e'⟩ := List.mem_map.1 m
      subst e'
      rcases hm with hm | hm
      · exact (P2.att.fresh j hj).1 (hg.live j (hll j hm.symm))
      · refine hne_t j (P2.att.fresh j hj).2 (fun htn e' => ?_) (by injection hm)
        exact (P2.att.fresh j hj).1 (hg.live j (e' ▸ (htf htn).2.2))
  have hexe2 : ∀ l' ∈ Loc.slot id :: se.ids.map Loc.slot, ∀ e ∈ extOfV (d2.get l'), Loc.slot e ∉ [l, Loc.slot t] := by
    intro l' hl' e he hm
    obtain ⟨⟨p, hp⟩, hlv, _⟩ := P2.att.ext l' hl' e he
    simp only [List.mem_cons, List.not_mem_nil, or_false] at hm
    rcases hm with hm | hm
    · have := Pd2.att.slot e hm.symm
      rw [hp] at this; cases this
    · have hm' : e = t := by injection hm
      refine hne_t e hlv (fun htn e' => ?_) hm'
      have := (htf2 (by rw [hn2]; exact htn)).2.1
      rw [Doc.isVar, ← e', hp] at this; cases this
  obtain ⟨A3, hval3⟩ := P2.att.frame pre1.str (fun i e => by cases e; exact hlid2) F23 hex2 hexe2
  have hcid3 : d3.cell id = .var ve d.null := by rw [A3.slot id rfl, nextOf_of_var hcid]
  have hsn := post_snoc (d0 := d0) (d := d) (d3 := d3) (b := false) (key := none) (id := id) (se := se) P0 P
    (Fr.trans (Fd2.mono (fun _ h => by cases h)) F23 (fun l' hl' => Or.inl hl'))
    (fun htn => by
      rw [hct3 (by rw [hn2]; exact htn) (htf2 (by rw [hn2]; exact htn)).2.1,
        get_of_cell (Fd2.cells t (htf htn).2.2 (by simp))]; rfl)
    (by rw [hget3, hn2]; rfl)
    (fun i e => by
      rw [hci3 i e, hn2, nextOf_of_cell (Fd2.cells i (hll i e) (by simp)) hn2]; rfl)
    ((Lk_cons _ _ _ _ _ _ _).2 ⟨rfl, by rw [hn3, hn2]; exact Nat.ne_of_lt hlt, isVar_of_var hcid3,
      by rw [nextOf_of_var hcid3, Lk_nil, hn3, hn2], by rw [get_of_var hcid3]; exact A3.vok⟩)
    (List.nodup_cons.2 ⟨fun m => (A3.fresh id m).1 hlid1, A3.nodup⟩)
    (fun x hx => by
      rcases List.mem_cons.1 hx with e' | m
      · subst e'; exact ⟨hnl, F23.live _ hlid2⟩
      · exact ⟨fun h0 => (A3.fresh x m).1 (hg.live x h0), (A3.fresh x m).2⟩)
    A3.ext
    (fun x hx e he h0 => A3.extfresh (.slot x) (List.mem_map_of_mem hx) e he (hg.live e h0))
    (fun rs hs => by
      have := A3.str rs (StrOK_congr hg.strings hg.nextNode hs)
      have e1 : (Forest.keyL none ++ id :: se.ids).flatMap (fun j => strOfV (d3.get (.slot j))) =
          strOfV ve ++ goneF d3 se := by
        simp only [Forest.keyL, List.nil_append, List.flatMap_cons, A3.get, goneF]
      rw [e1]; exact this)
  obtain ⟨Pn, hvals⟩ := hsn
  have hxs : (vals d noOv sl).map (·.2) = xs := by
    have := hv
    simp only [Doc.valOf, mkVal] at this
    injection this
  refine ⟨⟨_, id, sl.snocS none id se, Pn, ?_⟩, hov3⟩
  show Val.arr ((vals d3 noOv (sl.snocS none id se)).map (·.2)) = _
  rw [hvals, List.map_append, hxs, ← hval3]
  simp only [List.map_cons, List.map_nil, Doc.valOf, A3.get]

/-! ## Releasing the element whose copy failed -/

theorem Att.isVar {d0 d : Doc} {l : Loc} {v : VData} {s : Forest} (A : Att d0 d l v s) : ∀ x ∈ s.ids, d.isVar x := by
  intro x hx
  have hne : s ≠ .nil := by intro e; subst e; cases hx
  obtain ⟨b, h, hlk, _⟩ := VOK_coll_of_ne_nil A.vok hne
  exact Lk_ids_isVar s hlk x hx

/-- `JsonArray::add` on failure: the slot `id` allocated for the element, and everything the failed copy built in it
    (`Post d1 d2 (.slot id) ve se`), is released by `freeVariant`: relative to the document `d` before the allocation,
    nothing live changed - slots, extension slots and string references of the partial copy are all given back. -/
theorem free_built {d d1 d2 : Doc} {id : Nat} {ve : VData} {se : Forest} (F1 : Fr d d1 [])
    (hnl : ¬ PL.live d.g d.pl id) (hl1 : PL.live d1.g d1.pl id) (hs1 : ∃ rs, StrOK d1 rs)
    (P2 : Post d1 d2 (.slot id) ve se) : Fr d (d2.freeVariant id) [] := by
  have hgid : d2.get (.slot id) = ve := P2.att.get
  have hvar : ∀ x ∈ id :: se.ids, d2.isVar x := by
    intro x hx
    rcases List.mem_cons.1 hx with e | m
    · subst e; exact isVar_of_var (P2.att.slot x rfl)
    · exact P2.att.isVar x m
  have hmemH : ∀ j ∈ id :: se.ids, Loc.slot j ∈ Loc.slot id :: se.ids.map Loc.slot := by
    intro j hj
    rcases List.mem_cons.1 hj with e | m
    · subst e; exact List.mem_cons_self
    · exact List.mem_cons_of_mem _ (List.mem_map_of_mem m)
  have H : ExtH d2 (id :: se.ids) := by
    constructor
    · intro j hj e he hm
      obtain ⟨⟨p, hp⟩, _, _⟩ := P2.att.ext (.slot j) (hmemH j hj) e he
      exact ext_ne_var hp (hvar e hm) rfl
    · intro j hj j' hj' e he he'
      have := (P2.att.ext (.slot j) (hmemH j hj) e he).2.2 (.slot j') (hmemH j' hj') he'
      injection this with this
      exact this.symm
  have hidn : id ∉ se.ids := fun m => (P2.att.fresh id m).1 hl1
  obtain ⟨hX, hXt⟩ := fpF_terr_nodup H se (fun j hj => List.mem_cons_of_mem _ hj) P2.att.nodup
  obtain ⟨hnd, hterr⟩ := slot_piece (i := id) H hX hXt List.mem_cons_self (fun j hj => List.mem_cons_of_mem _ hj) hidn
  -- the footprint is live in `d2` and not live in `d`
  have hfp : ∀ x ∈ (extOfV (d2.get (.slot id)) ++ fpF d2 se) ++ [id], PL.live d2.g d2.pl x ∧ ¬ PL.live d.g d.pl x := by
    intro x hx
    rcases hterr x hx with m | ⟨j, hj, he⟩
    · rcases List.mem_cons.1 m with e | m
      · subst e; exact ⟨P2.fr.live x hl1, hnl⟩
      · exact ⟨(P2.att.fresh x m).2, fun h0 => (P2.att.fresh x m).1 (F1.live x h0)⟩
    · exact ⟨(P2.att.ext (.slot j) (hmemH j hj) x he).2.1,
        fun h0 => P2.att.extfresh (.slot j) (hmemH j hj) x he (F1.live x h0)⟩
  have hlen : se.ids.length < d2.fuel := by
    have := length_le_of_nodup_lt P2.att.nodup (fun x hx => live_lt_null P2.fr.pool (P2.att.fresh x hx).2)
    simp only [Doc.fuel, Doc.null] at *; omega
  have heff : ∀ rs, StrOK d1 rs →
      Eff d2 (d2.freeVariant id) ((extOfV (d2.get (.slot id)) ++ fpF d2 se) ++ [id]) rs := by
    intro rs hs
    have hs2 := P2.att.str rs hs
    rw [List.append_assoc] at hs2
    exact step_slot (PCs_all se) (f := d2.fuel) (d := d2) (i := id) (keep := rs) (by rw [hgid]; exact P2.att.vok)
      (Nat.lt_of_le_of_lt se.depth_le hlen) (Nat.le_of_lt hlen) P2.fr.pool (fun x hx => (hfp x hx).1) hnd
      (by rw [hgid]; exact hs2)
  obtain ⟨rs1, hrs1⟩ := hs1
  have he := heff rs1 hrs1
  refine ⟨by rw [he.g, P2.fr.g, F1.g], fun _ => by rw [he.root, P2.fr.root (by simp), F1.root (by simp)], ?_, he.pool,
    ?_, ?_, fun ho => by rw [freeVariant_overflowed]; exact P2.fr.ov (F1.ov ho)⟩
  · intro x hx _
    have hx1 := F1.live x hx
    rw [he.cells x (fun m => (hfp x m).2 hx),
      P2.fr.cells x hx1 (by simp only [List.mem_singleton, Loc.slot.injEq]; exact fun e => hnl (e ▸ hx)),
      F1.cells x hx (by simp)]
  · intro x hx
    exact (he.live x).2 ⟨P2.fr.live x (F1.live x hx), fun m => (hfp x m).2 hx⟩
  · intro rs hs
    obtain ⟨a1, b1⟩ := F1.strs rs hs
    obtain ⟨_, b2⟩ := P2.fr.strs rs a1
    have he' := heff rs a1
    exact ⟨he'.str, fun m hm => by rw [he'.bytes m hm, b2 m hm, b1 m hm]⟩

/-- ONE ROUND of `JsonArray::set` (`add(element)`): either the round stops the loop - the slot could not be allocated, or
    the copy into it left the document flagged and the slot was released - and the array built so far is unchanged and
    the document flagged; or the element was copied COMPLETELY and appended, the document is not flagged, and the loop
    goes on. -/
theorem arr_step {src d0 d : Doc} {l : Loc} {f e : Nat} {xs : List Val} {X : Val}
    (P0 : Pre d0 l) (hI : ArrInv d0 d l xs)
    (hrec : ∀ d1 id, Pre d1 (.slot id) → CopyRes d1 (memCopy f src d1 id e) (.slot id) X) :
    (∃ dS, (∀ rest, copyElems l (memCopy f src) d (e :: rest) = dS) ∧ ArrInv d0 dS l xs ∧ dS.overflowed = true) ∨
    (∃ dC, (∀ rest, copyElems l (memCopy f src) d (e :: rest) = copyElems l (memCopy f src) dC rest) ∧
      ArrInv d0 dC l (xs ++ [X]) ∧ dC.overflowed = false ∧ d.overflowed = false) := by
  obtain ⟨h, t, sl, P, hv⟩ := hI
  have gokd : PL.GeoOK d.g := by rw [P.fr.g]; exact P0.gok
  obtain ⟨rs0, hrs0⟩ := P0.str
  have hsd := P.att.str rs0 hrs0
  generalize hal : d.allocVariant = r
  obtain ⟨m, d1⟩ := r
  cases m with
  | none =>
    obtain ⟨hg, ho, _⟩ := allocVariant_none gokd P.fr.pool hal
    obtain ⟨P1, hv1⟩ := P.frame P0 (Fr.of_grow hg (fun _ => ho) [])
    exact Or.inl ⟨d1, fun rest => by simp only [copyElems, hal], ⟨h, t, sl, P1, hv1.trans hv⟩, ho⟩
  | some id =>
    obtain ⟨hg, hov, hcid, hco, hnl, hlt, hlv⟩ := allocVariant_some gokd P.fr.pool hal
    have hlid1 : PL.live d1.g d1.pl id := (hlv id).2 (Or.inr rfl)
    have hs1 : ∃ rs, StrOK d1 rs := ⟨_, StrOK_congr hg.strings hg.nextNode hsd⟩
    have pre1 : Pre d1 (.slot id) :=
      ⟨by rw [hg.g]; exact gokd, hg.pool, get_of_var hcid, fun i e => by cases e; exact ⟨hlid1, isVar_of_var hcid⟩, hs1⟩
    obtain ⟨ve, se, P2, _, hcomp, _, _⟩ := hrec d1 id pre1
    have F1 : Fr d d1 [] := Fr.of_grow hg (fun h => by rw [hov]; exact h) []
    cases h2 : (memCopy f src d1 id e).overflowed with
    | true =>
      have F3 := free_built F1 hnl hlid1 hs1 P2
      obtain ⟨P3, hv3⟩ := P.frame P0 F3
      refine Or.inl ⟨(memCopy f src d1 id e).freeVariant id, fun rest => ?_, ⟨h, t, sl, P3, hv3.trans hv⟩, ?_⟩
      · simp only [copyElems, hal, h2, if_true]
      · rw [freeVariant_overflowed]; exact h2
    | false =>
      obtain ⟨hA, hovA⟩ := arr_append P0 P hv hal P2
      rw [hcomp h2] at hA
      refine Or.inr ⟨(memCopy f src d1 id e).appendOne l id, fun rest => ?_, hA, by rw [hovA]; exact h2, ?_⟩
      · simp only [copyElems, hal, h2, Bool.false_eq_true, if_false]
      · cases h0 : d.overflowed with
        | false => rfl
        | true => rw [P2.fr.ov (by rw [hov]; exact h0)] at h2; cases h2

/-! ## One member of an object -/

theorem addMember_none {d d' : Doc} {l : Loc} {key : List Byte} {linked : Bool} (gok : PL.GeoOK d.g)
    (hp : PL.Inv d.g d.pl) (h : d.addMember l key linked = (none, d')) : Grow d d' ∧ d'.overflowed = true := by
  simp only [Doc.addMember] at h
  generalize hal1 : d.allocVariant = r1 at h
  obtain ⟨m1, d1⟩ := r1
  cases m1 with
  | none =>
    simp only [Prod.mk.injEq, true_and] at h; subst h
    obtain ⟨hg, ho, _⟩ := allocVariant_none gok hp hal1
    exact ⟨hg, ho⟩
  | some k =>
    obtain ⟨hg1, _, _, _, _, _, _⟩ := allocVariant_some gok hp hal1
    have gok1 : PL.GeoOK d1.g := by rw [hg1.g]; exact gok
    simp only at h
    generalize hal2 : d1.allocVariant = r2 at h
    obtain ⟨m2, d2⟩ := r2
    cases m2 with
    | none =>
      simp only [Prod.mk.injEq, true_and] at h; subst h
      obtain ⟨hg2, ho, _⟩ := allocVariant_none gok1 hg1.pool hal2
      exact ⟨hg1.trans hg2, ho⟩
    | some v =>
      obtain ⟨hg2, _, _, _, _, _, _⟩ := allocVariant_some gok1 hg1.pool hal2
      simp only at h
      cases linked with
      | true => simp at h
      | false =>
        simp only [Bool.false_eq_true, if_false] at h
        generalize hal3 : d2.saveString key = r3 at h
        obtain ⟨m3, d3⟩ := r3
        cases m3 with
        | some n => simp at h
        | none =>
          simp only [Prod.mk.injEq, true_and] at h; subst h
          obtain ⟨hg3, ho, _⟩ := saveString_none hg2.pool hal3
          exact ⟨(hg1.trans hg2).trans hg3, ho⟩

/-- `addMember` that succeeds: two fresh slots `k` (holding the key string `kv`) and `v` (holding null) were obtained
    and `appendPair` links them; `dK` is the document just before the linking -/
theorem addMember_some {d d' : Doc} {l : Loc} {key : List Byte} {linked : Bool} {v : Nat} (gok : PL.GeoOK d.g)
    (hp : PL.Inv d.g d.pl) (hs : ∃ rs, StrOK d rs) (h : d.addMember l key linked = (some v, d')) :
    ∃ (k : Nat) (dK : Doc) (kv : VData) (nk : Nat), d' = dK.appendPair l k v ∧ Fr d dK [] ∧
      dK.overflowed = d.overflowed ∧ dK.cell k = .var kv nk ∧ dK.cell v = .var .null d.null ∧ isKey kv ∧
      keyOfV dK kv = key ∧ k ≠ v ∧ ¬ PL.live d.g d.pl k ∧ ¬ PL.live d.g d.pl v ∧ PL.live dK.g dK.pl k ∧
      PL.live dK.g dK.pl v ∧ (∀ rs, StrOK d rs → StrOK dK (strOfV kv ++ rs)) := by
  simp only [Doc.addMember] at h
  generalize hal1 : d.allocVariant = r1 at h
  obtain ⟨m1, d1⟩ := r1
  cases m1 with
  | none => simp at h
  | some k =>
    obtain ⟨hg1, hov1, hck, hco1, hnk, hklt, hlv1⟩ := allocVariant_some gok hp hal1
    have gok1 : PL.GeoOK d1.g := by rw [hg1.g]; exact gok
    have hn1 : d1.null = d.null := by simp only [Doc.null, hg1.g]
    simp only at h
    generalize hal2 : d1.allocVariant = r2 at h
    obtain ⟨m2, d2⟩ := r2
    cases m2 with
    | none => simp at h
    | some v' =>
      obtain ⟨hg2, hov2, hcv, hco2, hnv, hvlt, hlv2⟩ := allocVariant_some gok1 hg1.pool hal2
      have hk1 : PL.live d1.g d1.pl k := (hlv1 k).2 (Or.inr rfl)
      have hkv : k ≠ v' := fun e => hnv (e ▸ hk1)
      have hk2 : PL.live d2.g d2.pl k := (hlv2 k).2 (Or.inl hk1)
      have hv2 : PL.live d2.g d2.pl v' := (hlv2 v').2 (Or.inr rfl)
      have hnv0 : ¬ PL.live d.g d.pl v' := fun hh => hnv ((hlv1 v').2 (Or.inl hh))
      have F2 : Fr d d2 [] := Fr.trans (Fr.of_grow hg1 (fun h => by rw [hov1]; exact h) [])
        (Fr.of_grow hg2 (fun h => by rw [hov2]; exact h) []) (fun _ h => by cases h)
      have hs2 : ∀ rs, StrOK d rs → StrOK d2 rs := fun rs hs =>
        StrOK_congr hg2.strings hg2.nextNode (StrOK_congr hg1.strings hg1.nextNode hs)
      simp only at h
      cases linked with
      | true =>
        simp only [if_true, Prod.mk.injEq, Option.some.injEq] at h
        obtain ⟨rfl, rfl⟩ := h
        refine ⟨k, d2.set (.slot k) (.linked key), .linked key, d2.nextOf k, rfl,
          Fr.trans F2 (set_fr hg2.pool _ _) (fun l' hl' => Or.inr ⟨k, List.mem_singleton.1 hl', hnk⟩),
          by rw [set_overflowed, hov2, hov1], by rw [cell_set_slot, if_pos rfl],
          by rw [cell_set_slot, if_neg hkv, hcv, hn1], trivial, rfl, hkv, hnk, hnv0,
          by rw [set_pl, set_g]; exact hk2, by rw [set_pl, set_g]; exact hv2, ?_⟩
        intro rs hs
        exact StrOK_congr (set_strings _ _ _) (set_nextNode _ _ _) (hs2 rs hs)
      | false =>
        simp only [Bool.false_eq_true, if_false] at h
        generalize hal3 : d2.saveString key = r3 at h
        obtain ⟨m3, d3⟩ := r3
        cases m3 with
        | none => simp at h
        | some n =>
          simp only [Prod.mk.injEq, Option.some.injEq] at h
          obtain ⟨rfl, rfl⟩ := h
          obtain ⟨rs0, hrs0⟩ := hs
          obtain ⟨F3, hb, hst, hov3⟩ := saveString_fr hg2.pool ⟨rs0, hs2 rs0 hrs0⟩ hal3
          have hc3 : ∀ x, PL.live d2.g d2.pl x → d3.cell x = d2.cell x := fun x hx => F3.cells x hx (by simp)
          refine ⟨k, d3.set (.slot k) (.owned n), .owned n, d3.nextOf k, rfl,
            Fr.trans (Fr.trans F2 F3 (fun _ h => by cases h)) (set_fr F3.pool _ _)
              (fun l' hl' => Or.inr ⟨k, List.mem_singleton.1 hl', hnk⟩),
            by rw [set_overflowed, hov3, hov2, hov1], by rw [cell_set_slot, if_pos rfl],
            by rw [cell_set_slot, if_neg hkv, hc3 v' hv2, hcv, hn1], trivial, ?_, hkv, hnk, hnv0,
            by rw [set_pl, set_g]; exact F3.live k hk2, by rw [set_pl, set_g]; exact F3.live v' hv2, ?_⟩
          · show (d3.set (.slot k) (.owned n)).strBytes n = key
            rw [strBytes_set]; exact hb
          · intro rs hs
            exact StrOK_congr (set_strings _ _ _) (set_nextNode _ _ _) (hst rs (hs2 rs hs))

theorem ExtL.cons_noext {d : Doc} {H : List Loc} {l0 : Loc} (h : ExtL d H) (h0 : extOfV (d.get l0) = []) :
    ExtL d (l0 :: H) := by
  intro l' hl' e he
  rcases List.mem_cons.1 hl' with e' | m
  · subst e'; rw [h0] at he; cases he
  · obtain ⟨a, b, c⟩ := h l' m e he
    refine ⟨a, b, ?_⟩
    intro l2 hl2 he2
    rcases List.mem_cons.1 hl2 with e2 | m2
    · subst e2; rw [h0] at he2; cases he2
    · exact c l2 m2 he2

theorem keyOf_fst (src : Doc) (k : Nat) : (src.keyOf k).1 = keyOfV src (src.get (.slot k)) := by
  simp only [Doc.keyOf]
  cases src.get (.slot k) <;> rfl

theorem getOrAddMember_obj {d : Doc} {l : Loc} {h t : Nat} {key : List Byte} {linked : Bool}
    (hv : d.get l = .obj h t) (hf : d.findKey l key = none) :
    d.getOrAddMember l key linked = d.addMember l key linked := by
  simp only [Doc.getOrAddMember, hv, hf]

theorem findKey_none {d : Doc} {l : Loc} {h t : Nat} {sl : Forest} {key : List Byte} (hv : d.get l = .obj h t)
    (hlk : Lk d true h sl) (hf : sl.ids.length < d.fuel) (hk : key ∉ (vals d noOv sl).map (·.1)) :
    d.findKey l key = none := by
  simp only [Doc.findKey, hv, chain_eq hlk (Nat.le_of_lt hf)]
  have h1 := findIn_spec key sl hlk hf
  have h2 : (vals d noOv sl).find? (fun m => m.1 == key) = none := by
    rw [List.find?_eq_none]
    intro x hx hb
    exact hk (List.mem_map.2 ⟨x, hx, by simpa using hb⟩)
  rw [h2] at h1
  cases hfi : d.findIn key sl.top with
  | none => rfl
  | some p => rw [hfi] at h1; cases h1

/-- ONE ROUND of `JsonObject::set` (`dst[key].set(value)`): (1) the member could not be added - the loop stops, the object
    built so far is unchanged, the document is flagged; or (2) the member was added with its key, but the copy of its
    value left the document flagged - the loop stops with this member last, its value a partial copy; or (3) the member
    was added and its value copied COMPLETELY, the document is not flagged, and the loop goes on. -/
theorem obj_step {src d0 d : Doc} {l : Loc} {f ksrc vsrc : Nat} {ms : List (List Byte × Val)} {X : Val}
    (P0 : Pre d0 l) (hI : ObjInv d0 d l ms)
    (hfreshkey : keyOfV src (src.get (.slot ksrc)) ∉ ms.map (·.1))
    (hrec : ∀ d1 id, Pre d1 (.slot id) → CopyRes d1 (memCopy f src d1 id vsrc) (.slot id) X) :
    (∃ dS, (∀ rest, copyMembers l src (memCopy f src) d (ksrc :: vsrc :: rest) = dS) ∧ ObjInv d0 dS l ms ∧
      dS.overflowed = true) ∨
    (∃ dS x, (∀ rest, copyMembers l src (memCopy f src) d (ksrc :: vsrc :: rest) = dS) ∧
      ObjInv d0 dS l (ms ++ [(keyOfV src (src.get (.slot ksrc)), x)]) ∧ dS.overflowed = true ∧ PartialCopy x X ∧
      (d.overflowed = false → x ≠ X) ∧ (d.overflowed = true → FlaggedCopy x X)) ∨
    (∃ dC, (∀ rest, copyMembers l src (memCopy f src) d (ksrc :: vsrc :: rest) =
        copyMembers l src (memCopy f src) dC rest) ∧
      ObjInv d0 dC l (ms ++ [(keyOfV src (src.get (.slot ksrc)), X)]) ∧ dC.overflowed = false ∧
      d.overflowed = false) := by
  obtain ⟨h, t, sl, P, hv⟩ := hI
  have gokd : PL.GeoOK d.g := by rw [P.fr.g]; exact P0.gok
  obtain ⟨rs0, hrs0⟩ := P0.str
  have hsd := P.att.str rs0 hrs0
  obtain ⟨hlk, ht⟩ := (VOK_obj _ _ _ _).1 P.att.vok
  have hms : vals d noOv sl = ms := by
    have := hv
    simp only [Doc.valOf, mkVal] at this
    injection this
  have hfuel : sl.ids.length < d.fuel := by
    have := length_le_of_nodup_lt P.att.nodup (fun x hx => live_lt_null P.fr.pool (P.att.fresh x hx).2)
    simp only [Doc.fuel, Doc.null] at *; omega
  have hfk : d.findKey l (src.keyOf ksrc).1 = none :=
    findKey_none P.att.get hlk hfuel (by rw [hms, keyOf_fst]; exact hfreshkey)
  have hcm : ∀ rest, copyMembers l src (memCopy f src) d (ksrc :: vsrc :: rest) =
      (match d.addMember l (src.keyOf ksrc).1 (src.keyOf ksrc).2 with
       | (some m, d1) => if (memCopy f src d1 m vsrc).overflowed then memCopy f src d1 m vsrc
                          else copyMembers l src (memCopy f src) (memCopy f src d1 m vsrc) rest
       | (none, d1) => d1) := by
    intro rest
    simp only [copyMembers, getOrAddMember_obj P.att.get hfk]
    first | rfl | (split <;> rename_i heq <;> simp only [heq])
  generalize ham : d.addMember l (src.keyOf ksrc).1 (src.keyOf ksrc).2 = r at hcm
  obtain ⟨m, d'⟩ := r
  cases m with
  | none =>
    obtain ⟨hg, ho⟩ := addMember_none gokd P.fr.pool ham
    obtain ⟨P1, hv1⟩ := P.frame P0 (Fr.of_grow hg (fun _ => ho) [])
    exact Or.inl ⟨d', fun rest => hcm rest, ⟨h, t, sl, P1, hv1.trans hv⟩, ho⟩
  | some v =>
    simp only at hcm
    obtain ⟨k, dK, kv, nk, hd', FK, hovK, hck, hcv, hkey, hkb, hkv, hnk, hnv, hlk', hlv', hstK⟩ :=
      addMember_some gokd P.fr.pool ⟨_, hsd⟩ ham
    subst hd'
    obtain ⟨PK, hvK⟩ := P.frame P0 FK
    obtain ⟨htf, _, _, _⟩ := Post.tail (b := true) P0 P
    obtain ⟨htfK, htl, _, htneK⟩ := Post.tail (b := true) P0 PK
    have hnK : dK.null = d.null := FK.null
    have hll : ∀ i, l = .slot i → PL.live d.g d.pl i := fun i e => P.fr.live i (P0.slot i e).1
    have hkl : Loc.slot k ≠ l := fun e => hnk (hll k e.symm)
    have hvl : Loc.slot v ≠ l := fun e => hnv (hll v e.symm)
    have hnotsl : ∀ x, ¬ PL.live d.g d.pl x → x ∉ sl.ids := fun x hx m => hx (P.att.fresh x m).2
    have hkt : k ≠ t := htneK k hlk' (fun h0 => hnk (P.fr.live k h0)) (hnotsl k hnk)
    have hvt : v ≠ t := htneK v hlv' (fun h0 => hnv (P.fr.live v h0)) (hnotsl v hnv)
    obtain ⟨hn', hstr', hpl', hg', hnn', hov', hget', hck', hco', hct', hroot', hci'⟩ :=
      appendPair_cellsC (v := v) PK.att.get hck hkl htl hkt (fun htn => (htfK htn).2.1)
    have FKp : Fr dK (dK.appendPair l k v) [l, .slot t, .slot k] := by
      refine fr_of_same PK.fr.pool hg' hpl' hstr' hnn' hov' (fun hr => hroot' (fun e => hr (by simp [e]))) ?_
      intro x hx
      simp only [List.mem_cons, List.not_mem_nil, or_false, Loc.slot.injEq, not_or] at hx
      exact hco' x hx.1 hx.2.2 (fun _ => hx.2.1)
    generalize dK.appendPair l k v = d1 at *
    -- the member's value slot is a cleared place of `d1`
    have hcv1 : d1.cell v = .var .null d.null := by rw [hco' v hvl (Ne.symm hkv) (fun _ => hvt)]; exact hcv
    have hlv1 : PL.live d1.g d1.pl v := FKp.live v hlv'
    have pre1 : Pre d1 (.slot v) :=
      ⟨by rw [hg', FK.g]; exact gokd, FKp.pool, get_of_var hcv1,
        fun i e => by cases e; exact ⟨hlv1, isVar_of_var hcv1⟩, ⟨_, FKp.strok _ (FK.strok _ hsd)⟩⟩
    obtain ⟨ve, se, P2, hpc, hcomp, hinc, hflag⟩ := hrec d1 v pre1
    generalize memCopy f src d1 v vsrc = d2 at *
    have hn2 : d2.null = d.null := by rw [P2.fr.null, hn', hnK]
    have hlive1 : ∀ x, PL.live d.g d.pl x → PL.live d1.g d1.pl x := fun x hx => FKp.live x (FK.live x hx)
    have hc2 : ∀ x, PL.live d1.g d1.pl x → x ≠ v → d2.cell x = d1.cell x := fun x hx hxv =>
      P2.fr.cells x hx (by simp only [List.mem_singleton, Loc.slot.injEq]; exact hxv)
    have hlk1 : PL.live d1.g d1.pl k := FKp.live k hlk'
    have hck2 : d2.cell k = .var kv v := by rw [hc2 k hlk1 hkv]; exact hck'
    have hcv2 : d2.cell v = .var ve d.null := by rw [P2.att.slot v rfl, nextOf_of_var hcv1]
    have Fd1 : Fr d d1 [l, .slot t] := Fr.trans (FK.mono (fun _ h => by cases h)) FKp (fun l' hl' => by
      simp only [List.mem_cons, List.not_mem_nil, or_false] at hl'
      rcases hl' with e | e | e
      · exact Or.inl (by simp [e])
      · exact Or.inl (by simp [e])
      · exact Or.inr ⟨k, e, hnk⟩)
    have Fd2 : Fr d d2 [l, .slot t] := Fr.trans Fd1 P2.fr
      (fun l' hl' => Or.inr ⟨v, List.mem_singleton.1 hl', hnv⟩)
    have hsn := post_snoc (d0 := d0) (d := d) (d3 := d2) (b := true) (key := some k) (id := v) (se := se) P0 P Fd2
      (fun htn => by
        have htn' : t ≠ dK.null := by rw [hnK]; exact htn
        have htv : t ≠ v := Ne.symm hvt
        rw [hc2 t (hlive1 t (htf htn).2.2) htv, hct' htn', get_of_cell (FK.cells t (htf htn).2.2 (by simp))]; rfl)
      (by
        have : d2.get l = d1.get l := by
          cases l with
          | root => exact P2.fr.root (by simp)
          | slot i => exact get_of_cell (hc2 i (hlive1 i (hll i rfl)) (fun e => hvl (by rw [e])))
        rw [this, hget', hnK]; rfl)
      (fun i e => by
        rw [hc2 i (hlive1 i (hll i e)) (fun e' => hvl (by rw [← e', e])), hci' i e, hnK,
          nextOf_of_cell (FK.cells i (hll i e) (by simp)) hnK]; rfl)
      ((Lk_cons _ _ _ _ _ _ _).2 ⟨⟨rfl, by rw [hn2]; exact Nat.ne_of_lt (hnK ▸ live_lt_null PK.fr.pool hlk'),
          isVar_of_var hck2, by rw [get_of_var hck2]; exact hkey, nextOf_of_var hck2⟩,
        by rw [hn2]; exact Nat.ne_of_lt (hnK ▸ live_lt_null PK.fr.pool hlv'), isVar_of_var hcv2,
        by rw [nextOf_of_var hcv2, Lk_nil, hn2], by rw [get_of_var hcv2]; exact P2.att.vok⟩)
      (by
        show (k :: v :: se.ids).Nodup
        refine List.nodup_cons.2 ⟨?_, List.nodup_cons.2 ⟨fun m => (P2.att.fresh v m).1 hlv1, P2.att.nodup⟩⟩
        intro m
        rcases List.mem_cons.1 m with e | m
        · exact hkv e
        · exact (P2.att.fresh k m).1 hlk1)
      (fun x hx => by
        have hx' : x = k ∨ x = v ∨ x ∈ se.ids := by simpa [Forest.keyL] using hx
        rcases hx' with e | e | m
        · subst e; exact ⟨hnk, P2.fr.live _ hlk1⟩
        · subst e; exact ⟨hnv, P2.fr.live _ hlv1⟩
        · exact ⟨fun h0 => (P2.att.fresh x m).1 (hlive1 x h0), (P2.att.fresh x m).2⟩)
      (by
        show ExtL d2 (Loc.slot k :: Loc.slot v :: se.ids.map Loc.slot)
        exact P2.att.ext.cons_noext (by rw [get_of_var hck2]; exact isKey_ext hkey))
      (fun x hx e he => by
        have hx' : x = k ∨ x = v ∨ x ∈ se.ids := by simpa [Forest.keyL] using hx
        rcases hx' with e' | hx'
        · subst e'; rw [get_of_var hck2, isKey_ext hkey] at he; cases he
        · refine fun h0 => P2.att.extfresh (.slot x) ?_ e he (hlive1 e h0)
          rcases hx' with e' | m
          · subst e'; exact List.mem_cons_self
          · exact List.mem_cons_of_mem _ (List.mem_map_of_mem m))
      (fun rs hs => by
        have h1 := P2.att.str _ (FKp.strok _ (hstK rs hs))
        have e1 : (Forest.keyL (some k) ++ v :: se.ids).flatMap (fun j => strOfV (d2.get (.slot j))) =
            strOfV kv ++ (strOfV ve ++ goneF d2 se) := by
          simp only [Forest.keyL, List.cons_append, List.nil_append, List.flatMap_cons, get_of_var hck2,
            get_of_var hcv2, goneF]
        rw [e1]
        refine StrOK_perm ?_ h1
        rw [List.append_assoc (strOfV kv)]
        exact List.perm_append_comm_assoc _ _ _)
    obtain ⟨Pn, hvals⟩ := hsn
    -- the key reads the same
    have hkb2 : keyOfV d2 kv = (src.keyOf ksrc).1 := by
      rw [← hkb]
      refine keyOfV_of_scalar (scalar_congr (fun n hn' => ?_) (by rw [isKey_ext hkey]; intro e he; cases he))
      rw [P2.fr.bytes (FKp.strok _ (hstK _ hsd)) (List.mem_append_left _ hn'), strBytes_of_strings hstr']
    have hI2 : ObjInv d0 d2 l (ms ++ [(keyOfV src (src.get (.slot ksrc)), d2.valOf ve se)]) := by
      refine ⟨_, v, sl.snocS (some k) v se, Pn, ?_⟩
      show Val.obj (vals d2 noOv (sl.snocS (some k) v se)) = _
      rw [hvals, hms]
      simp only [keyB, get_of_var hck2, hkb2, keyOf_fst, get_of_var hcv2, Doc.valOf]
    have hov1 : d1.overflowed = d.overflowed := by rw [hov', hovK]
    cases h2 : d2.overflowed with
    | true =>
      exact Or.inr (Or.inl ⟨d2, d2.valOf ve se, fun rest => by rw [hcm rest, h2]; rfl, hI2, h2, hpc,
        fun h0 => hinc (by rw [hov1]; exact h0) h2, fun h0 => hflag (by rw [hov1]; exact h0)⟩)
    | false =>
      rw [hcomp h2] at hI2
      refine Or.inr (Or.inr ⟨d2, fun rest => by rw [hcm rest, h2]; rfl, hI2, h2, ?_⟩)
      cases h0 : d.overflowed with
      | false => rfl
      | true => rw [P2.fr.ov (by rw [hov1]; exact h0)] at h2; cases h2

/-! ## The induction on the layout of the source value -/

/-- statement for a source value laid out as `ss` -/
def CpV (src : Doc) (ss : Forest) : Prop :=
  ∀ (f : Nat) (d : Doc) (l : Loc) (sv : VData), VOK src sv ss → ss.depth < f → ss.ids.length ≤ src.fuel →
    NoDupKeys (src.valOf sv ss) → Pre d l → CopyRes d (copyIntoF f d l src sv) l (copyVal (src.valOf sv ss))

/-- what a copy into an already flagged document leaves of a member list: nothing, or the first member only -/
def FlaggedM (rest full : List (List Byte × Val)) : Prop :=
  rest = [] ∨ ∃ k x v tl, full = (k, v) :: tl ∧ rest = [(k, x)] ∧ FlaggedCopy x v

theorem FlaggedM.flagged {rest full : List (List Byte × Val)} (h : FlaggedM rest full) :
    FlaggedCopy (.obj rest) (.obj full) := by
  rcases h with e | ⟨k, x, v, tl, e1, e2, hf⟩
  · subst e; exact FlaggedCopy.objNone _
  · subst e1 e2; exact FlaggedCopy.objFirst hf

/-- statement for (the rest of) a source array chain laid out as `r`: the loop appends complete copies of a prefix of the
    elements; the whole chain unless the result is flagged; nothing at all if the document was flagged already -/
def CpArr (src : Doc) (r : Forest) : Prop :=
  ∀ (f : Nat) (d0 d : Doc) (l : Loc) (start : Nat) (xs : List Val),
    Lk src false start r → r.depth ≤ f → r.ids.length ≤ src.fuel → NoDupKeysL ((vals src noOv r).map (·.2)) →
    Pre d0 l → ArrInv d0 d l xs →
    ∃ rest, ArrInv d0 (copyElems l (memCopy f src) d r.top) l (xs ++ rest) ∧
      rest <+: copyVals ((vals src noOv r).map (·.2)) ∧
      ((copyElems l (memCopy f src) d r.top).overflowed = false → rest = copyVals ((vals src noOv r).map (·.2))) ∧
      (d.overflowed = true → (copyElems l (memCopy f src) d r.top).overflowed = true) ∧
      (d.overflowed = false → (copyElems l (memCopy f src) d r.top).overflowed = true →
        rest ≠ copyVals ((vals src noOv r).map (·.2))) ∧
      (d.overflowed = true → rest = [])

/-- statement for (the rest of) a source object chain laid out as `r` -/
def CpObj (src : Doc) (r : Forest) : Prop :=
  ∀ (f : Nat) (d0 d : Doc) (l : Loc) (start : Nat) (ms : List (List Byte × Val)),
    Lk src true start r → r.depth ≤ f → r.ids.length ≤ src.fuel → NoDupKeysM (vals src noOv r) →
    (ms.map (·.1) ++ (vals src noOv r).map (·.1)).Nodup →
    Pre d0 l → ObjInv d0 d l ms →
    ∃ rest, ObjInv d0 (copyMembers l src (memCopy f src) d r.top) l (ms ++ rest) ∧
      PartialM rest (copyMems (vals src noOv r)) ∧
      ((copyMembers l src (memCopy f src) d r.top).overflowed = false → rest = copyMems (vals src noOv r)) ∧
      (d.overflowed = true → (copyMembers l src (memCopy f src) d r.top).overflowed = true) ∧
      (d.overflowed = false → (copyMembers l src (memCopy f src) d r.top).overflowed = true →
        rest ≠ copyMems (vals src noOv r)) ∧
      (d.overflowed = true → FlaggedM rest (copyMems (vals src noOv r)))

/-- statement for a source value laid out as `ss`, for ANY destination `d` whose cleared form `d.clearV l` is `dc` (the
    copy starts by clearing its target) -/
def CpVb (src : Doc) (ss : Forest) : Prop :=
  ∀ (f : Nat) (d dc : Doc) (l : Loc) (sv : VData), VOK src sv ss → ss.depth < f → ss.ids.length ≤ src.fuel →
    NoDupKeys (src.valOf sv ss) → Pre dc l → d.clearV l = dc →
    CopyRes dc (copyIntoF f d l src sv) l (copyVal (src.valOf sv ss))

theorem CpVb_of_chain {src : Doc} {ss : Forest} (ha : CpArr src ss) (ho : CpObj src ss) : CpVb src ss := by
  intro f d dc l sv hv hd hfu hnd Pc hcl
  obtain ⟨f', rfl⟩ : ∃ f', f = f' + 1 := ⟨f - 1, by omega⟩
  have scal : ∀ (a : Arg), ¬ isColl sv → copyIntoF (f'+1) d l src sv = ((d.clearV l).setArg l a).2 →
      copyVal (src.scalar sv) = argV a →
      CopyRes dc (copyIntoF (f'+1) d l src sv) l (copyVal (src.valOf sv ss)) := by
    intro a hc he hx
    have := (VOK_scalar hc ss).1 hv
    subst this
    rw [he, hcl, Doc.valOf, mkVal_scalar hc, hx]
    exact setArg_res Pc a
  cases sv with
  | null =>
    have := (VOK_scalar (v := .null) (fun h => h) ss).1 hv
    subst this
    show CopyRes _ (d.clearV l) l _
    rw [hcl]
    exact CopyRes.ok (post_null Pc (Fr.refl Pc.pool [])) rfl rfl True.intro
  | bool b => exact scal (.bool b) (fun h => h) rfl rfl
  | i32 v => exact scal (.sint v) (fun h => h) rfl rfl
  | u32 v => exact scal (.uint v) (fun h => h) rfl rfl
  | f32 b => exact scal (.f32 b) (fun h => h) rfl rfl
  | i64 s => exact scal (.sint (src.extOf s)) (fun h => h) rfl rfl
  | u64 s => exact scal (.uint (src.extOf s).toNat) (fun h => h) rfl rfl
  | f64 s => exact scal (.f64 (src.extOf s).toNat) (fun h => h) rfl rfl
  | linked s => exact scal (.strLinked s) (fun h => h) rfl rfl
  | owned n => exact scal (.strCopied (src.strBytes n)) (fun h => h) rfl rfl
  | raw n => exact scal (.raw (src.strBytes n)) (fun h => h) rfl rfl
  | arr h t =>
    obtain ⟨hlk, _⟩ := (VOK_arr _ _ _ _).1 hv
    rw [copyIntoF_arr, chain_eq hlk hfu, hcl]
    have Pi : Post dc (dc.set l (.arr dc.null dc.null)) l (.arr dc.null dc.null) .nil :=
      post_set Pc (Fr.refl Pc.pool []) ⟨rfl, rfl⟩ (fun rs h => h) (fun e he => by cases he)
    obtain ⟨rest, ⟨h', t', sl, Pf, hvf⟩, hpl, hcomp, _, hinc, hfl⟩ :=
      ha f' dc _ l h [] hlk (by omega) hfu hnd Pc ⟨_, _, .nil, Pi, rfl⟩
    refine ⟨.arr h' t', sl, Pf, ?_, ?_, ?_, ?_⟩
    · rw [hvf]; exact PartialCopy.arr hpl
    · intro hf; rw [hvf, hcomp hf]; rfl
    · intro h0 h1
      rw [hvf]
      intro e
      have e' : rest = copyVals ((vals src noOv ss).map (·.2)) := by
        simp only [Doc.valOf, mkVal, copyVal] at e
        injection e
      exact hinc (by rw [set_overflowed]; exact h0) h1 e'
    · intro h0
      rw [hvf, hfl (by rw [set_overflowed]; exact h0)]
      exact FlaggedCopy.arr _
  | obj h t =>
    obtain ⟨hlk, _⟩ := (VOK_obj _ _ _ _).1 hv
    rw [copyIntoF_obj, chain_eq hlk hfu, hcl]
    have Pi : Post dc (dc.set l (.obj dc.null dc.null)) l (.obj dc.null dc.null) .nil :=
      post_set Pc (Fr.refl Pc.pool []) ⟨rfl, rfl⟩ (fun rs h => h) (fun e he => by cases he)
    obtain ⟨rest, ⟨h', t', sl, Pf, hvf⟩, hpl, hcomp, _, hinc, hfl⟩ :=
      ho f' dc _ l h [] hlk (by omega) hfu hnd.2 hnd.1 Pc ⟨_, _, .nil, Pi, rfl⟩
    refine ⟨.obj h' t', sl, Pf, ?_, ?_, ?_, ?_⟩
    · rw [hvf]; exact PartialCopy.obj hpl
    · intro hf; rw [hvf, hcomp hf]; rfl
    · intro h0 h1
      rw [hvf]
      intro e
      have e' : rest = copyMems (vals src noOv ss) := by
        simp only [Doc.valOf, mkVal, copyVal] at e
        injection e
      exact hinc (by rw [set_overflowed]; exact h0) h1 e'
    · intro h0
      rw [hvf]
      exact (hfl (by rw [set_overflowed]; exact h0)).flagged

theorem CpV_of_chain {src : Doc} {ss : Forest} (ha : CpArr src ss) (ho : CpObj src ss) : CpV src ss := by
  intro f d l sv hv hd hfu hnd P
  exact CopyRes.of_cleared P (CpVb_of_chain ha ho f d _ l sv hv hd hfu hnd P.cleared (clearV_null P.null))

theorem Cp_all (src : Doc) (F : Forest) : CpArr src F ∧ CpObj src F := by
  induction F with
  | nil =>
    constructor
    · intro f d0 d l start xs _ _ _ _ _ hI
      refine ⟨[], by rw [List.append_nil]; exact hI, List.prefix_refl _, fun _ => rfl, fun h => h, ?_, fun _ => rfl⟩
      intro h0 h1
      have h2 : d.overflowed = true := h1
      rw [h0] at h2; cases h2
    · intro f d0 d l start ms _ _ _ _ _ _ hI
      refine ⟨[], by rw [List.append_nil]; exact hI, PartialM.pre (List.prefix_refl _), fun _ => rfl, fun h => h, ?_,
        fun _ => Or.inl rfl⟩
      intro h0 h1
      have h2 : d.overflowed = true := h1
      rw [h0] at h2; cases h2
  | cons key i s r ihs ihr =>
    have pvs : CpV src s := CpV_of_chain ihs.1 ihs.2
    constructor
    · intro f d0 d l start xs hl hd hfu hnd P0 hI
      rw [Lk_cons] at hl
      obtain ⟨h1, _, _, h4, h5⟩ := hl
      cases key <;> simp only [KeyOK] at h1
      simp only [Forest.depth] at hd
      simp only [Forest.ids, Forest.keyL, List.nil_append, List.length_cons, List.length_append] at hfu
      simp only [vals, List.map_cons, NoDupKeysL] at hnd
      simp only [Forest.top, Forest.keyL, List.nil_append, vals, List.map_cons, copyVals, noOv, Option.getD_none]
      rcases arr_step (src := src) (f := f) (e := i) P0 hI
        (fun d1 id pre => pvs f d1 (.slot id) (src.get (.slot i)) h5 (by omega) (by omega) hnd.1 pre) with
        ⟨dS, heq, hI1, ho1⟩ | ⟨dC, heq, hI1, hoC, hod⟩
      · rw [heq]
        refine ⟨[], by rw [List.append_nil]; exact hI1, List.nil_prefix, ?_, fun _ => ho1, ?_, fun _ => rfl⟩
        · intro hf; rw [ho1] at hf; cases hf
        · intro _ _ e; cases e
      · rw [heq]
        obtain ⟨rest, hIf, hpl, hcomp', _, hinc', _⟩ :=
          ihr.1 f d0 dC l (src.nextOf i) _ h4 (by omega) (by omega) hnd.2 P0 hI1
        refine ⟨_ :: rest, by rw [List.append_assoc] at hIf; exact hIf, List.cons_prefix_cons.2 ⟨rfl, hpl⟩, ?_,
          (fun h => by rw [hod] at h; cases h), ?_, (fun h => by rw [hod] at h; cases h)⟩
        · intro hf; rw [hcomp' hf]
        · intro _ hfin e
          injection e with _ e2
          exact hinc' hoC hfin e2
    · intro f d0 d l start ms hl hd hfu hnd hkeys P0 hI
      rw [Lk_cons] at hl
      obtain ⟨h1, _, _, h4, h5⟩ := hl
      cases key <;> simp only [KeyOK] at h1
      rename_i k
      simp only [Forest.depth] at hd
      simp only [Forest.ids, Forest.keyL, List.cons_append, List.nil_append, List.length_cons,
        List.length_append] at hfu
      simp only [vals, NoDupKeysM, noOv, Option.getD_none] at hnd
      simp only [vals, List.map_cons, keyB, noOv, Option.getD_none] at hkeys
      simp only [Forest.top, Forest.keyL, List.cons_append, List.nil_append, vals, copyMems, noOv, Option.getD_none,
        keyB]
      have hfreshkey : keyOfV src (src.get (.slot k)) ∉ ms.map (·.1) := by
        intro m
        exact (List.nodup_append.1 hkeys).2.2 _ m _ List.mem_cons_self rfl
      rcases obj_step (src := src) (f := f) (ksrc := k) (vsrc := i) P0 hI hfreshkey
        (fun d1 id pre => pvs f d1 (.slot id) (src.get (.slot i)) h5 (by omega) (by omega) hnd.1 pre) with
        ⟨dS, heq, hI1, ho1⟩ | ⟨dS, x, heq, hI1, ho1, hpc, hne, hfl⟩ | ⟨dC, heq, hI1, hoC, hod⟩
      · rw [heq]
        refine ⟨[], by rw [List.append_nil]; exact hI1, PartialM.pre List.nil_prefix, ?_, fun _ => ho1, ?_,
          fun _ => Or.inl rfl⟩
        · intro hf; rw [ho1] at hf; cases hf
        · intro _ _ e; cases e
      · rw [heq]
        refine ⟨[(keyOfV src (src.get (.slot k)), x)], hI1, PartialM.last (p := []) hpc, ?_, fun _ => ho1, ?_,
          fun h0 => Or.inr ⟨_, x, _, _, rfl, rfl, hfl h0⟩⟩
        · intro hf; rw [ho1] at hf; cases hf
        · intro h0 _ e
          injection e with e1 _
          injection e1 with _ e1
          exact hne h0 e1
      · rw [heq]
        obtain ⟨rest, hIf, hpl, hcomp', _, hinc', _⟩ :=
          ihr.2 f d0 dC l (src.nextOf i) _ h4 (by omega) (by omega) hnd.2 (by simpa using hkeys) P0 hI1
        refine ⟨_ :: rest, by rw [List.append_assoc] at hIf; exact hIf, hpl.cons_head _, ?_,
          (fun h => by rw [hod] at h; cases h), ?_, (fun h => by rw [hod] at h; cases h)⟩
        · intro hf; rw [hcomp' hf]
        · intro _ hfin e
          injection e with _ e2
          exact hinc' hoC hfin e2

/-- LOCAL SPECIFICATION of the deep copy: for a source value `sv` of `src` laid out as `ss` (no object with a duplicate
    key) and a cleared place `l` of `d`, `copyIntoF f d l src sv` (with enough fuel) satisfies the frame, builds at `l`
    a value over fresh slots which is a partial copy of `copyVal (src.valOf sv ss)`, and is that value itself unless the
    overflow flag is set. -/
theorem copyIntoF_local {src : Doc} {ss : Forest} {f : Nat} {d : Doc} {l : Loc} {sv : VData} (hv : VOK src sv ss)
    (hd : ss.depth < f) (hfu : ss.ids.length ≤ src.fuel) (hnd : NoDupKeys (src.valOf sv ss)) (P : Pre d l) :
    CopyRes d (copyIntoF f d l src sv) l (copyVal (src.valOf sv ss)) :=
  CpV_of_chain (Cp_all src ss).1 (Cp_all src ss).2 f d l sv hv hd hfu hnd P

/-- the same for an arbitrary destination `d`: the specification is relative to the cleared document `d.clearV l` -/
theorem copyIntoF_local_gen {src : Doc} {ss : Forest} {f : Nat} {d : Doc} {l : Loc} {sv : VData} (hv : VOK src sv ss)
    (hd : ss.depth < f) (hfu : ss.ids.length ≤ src.fuel) (hnd : NoDupKeys (src.valOf sv ss)) (P : Pre (d.clearV l) l) :
    CopyRes (d.clearV l) (copyIntoF f d l src sv) l (copyVal (src.valOf sv ss)) :=
  CpVb_of_chain (Cp_all src ss).1 (Cp_all src ss).2 f d _ l sv hv hd hfu hnd P rfl

/-! ## From the local specification to the document invariant -/

theorem pre_of_wfg {d : Doc} {F : Forest} {l : Loc} (w : WFG d F) (hs : StrOK d (d.strRefs F)) (gok : PL.GeoOK d.g)
    (hl : isLoc F l) (hnull : d.get l = .null) : Pre d l :=
  ⟨gok, w.pool, hnull, fun i e => by subst e; exact ⟨w.live i (isLoc_ids hl), w.isVar i (isLoc_ids hl)⟩, ⟨_, hs⟩⟩

theorem flatMap_map_slot {β : Type} (g : Loc → List β) (xs : List Nat) :
    (xs.map Loc.slot).flatMap g = xs.flatMap (fun j => g (.slot j)) := by
  induction xs with
  | nil => rfl
  | cons a xs ih => simp only [List.map_cons, List.flatMap_cons, ih]

/-- ASSEMBLY: what a copy built at the cleared location `l` of a well-formed document (local specification `Post`)
    gives a well-formed document whose layout has the new layout `s` at `l`, and which is the old abstract document
    with the value at `l` replaced by the value built. -/
theorem post_assemble {d d' : Doc} {F : Forest} {l : Loc} {v : VData} {s : Forest}
    (w : WFG d F) (hs : StrOK d (d.strRefs F)) (hl : isLoc F l) (hnull : d.get l = .null) (P : Post d d' l v s) :
    WFG d' (replaceAt F l s) ∧ StrOK d' (d'.strRefs (replaceAt F l s)) ∧
    abs d' = absWith d F l (d'.valOf v s) := by
  have hn : d'.null = d.null := P.fr.null
  have hnil : layoutAt F l = .nil := layoutAt_nil_of_scalar w hl (by rw [hnull]; exact fun h => h)
  have hlvar : ∀ i, l = .slot i → d.isVar i := fun i e => w.isVar i (isLoc_ids (e ▸ hl))
  have hextne : ∀ l0 ∈ holders F, ∀ e ∈ extOfV (d.get l0), Loc.slot e ∉ [l] := by
    intro l0 h0 e he hm
    obtain ⟨⟨p, hp⟩, _, _⟩ := w.ext l0 h0 e he
    exact ext_ne_var hp (hlvar e (List.mem_singleton.1 hm).symm) rfl
  have hextc : ∀ l0 ∈ holders F, ∀ e ∈ extOfV (d.get l0), d'.cell e = d.cell e := fun l0 h0 e he =>
    P.fr.cells e (w.ext l0 h0 e he).2.1 (hextne l0 h0 e he)
  have hgold : ∀ l0 ∈ holders F, l0 ≠ l → d'.get l0 = d.get l0 := by
    intro l0 h0 hne
    rcases mem_holders.1 h0 with e | ⟨x, hx, e⟩
    · subst e; exact P.fr.root (fun m => hne (List.mem_singleton.1 m))
    · subst e; exact get_of_cell (P.fr.cells x (w.live x hx) (fun m => hne (List.mem_singleton.1 m)))
  -- classification of the holders of the new layout
  have hclass : ∀ l0 ∈ holders (replaceAt F l s),
      l0 ∈ l :: s.ids.map Loc.slot ∨ (l0 ∈ holders F ∧ l0 ≠ l) := by
    intro l0 h0
    by_cases hl0 : l0 = l
    · exact Or.inl (hl0 ▸ List.mem_cons_self)
    · rcases mem_holders.1 h0 with e | ⟨x, hx, e⟩
      · exact Or.inr ⟨mem_holders.2 (Or.inl e), hl0⟩
      · rcases (mem_ids_replaceAt s w.nodup hl x).1 hx with ⟨hxF, _⟩ | hxs
        · exact Or.inr ⟨mem_holders.2 (Or.inr ⟨x, hxF, e⟩), hl0⟩
        · exact Or.inl (List.mem_cons_of_mem _ (e ▸ List.mem_map_of_mem hxs))
  have hext : ExtOK d' (replaceAt F l s) := by
    intro l0 h0 e he
    rcases hclass l0 h0 with hnew | ⟨hold, hne⟩
    · obtain ⟨a, b, c⟩ := P.att.ext l0 hnew e he
      refine ⟨a, b, ?_⟩
      intro l2 h2 he2
      rcases hclass l2 h2 with hnew2 | ⟨hold2, hne2⟩
      · exact c l2 hnew2 he2
      · rw [hgold l2 hold2 hne2] at he2
        exact absurd (w.ext l2 hold2 e he2).2.1 (P.att.extfresh l0 hnew e he)
    · rw [hgold l0 hold hne] at he
      obtain ⟨⟨p, hp⟩, hlv, hu⟩ := w.ext l0 hold e he
      refine ⟨⟨p, by rw [hextc l0 hold e he, hp]⟩, P.fr.live e hlv, ?_⟩
      intro l2 h2 he2
      rcases hclass l2 h2 with hnew2 | ⟨hold2, hne2⟩
      · exact absurd hlv (P.att.extfresh l2 hnew2 e he2)
      · rw [hgold l2 hold2 hne2] at he2
        exact hu l2 hold2 he2
  have hres := wfg_replaceAt (d' := d') (v' := v) (s' := s) w hl hn P.att.get
    (fun i e => ⟨P.att.slot i e, P.fr.root (by rw [e]; simp)⟩) P.att.vok
    (fun j hj hjl _ => by
      have hh : Loc.slot j ∈ holders F := mem_holders.2 (Or.inr ⟨j, hj, rfl⟩)
      refine ⟨P.fr.cells j (w.live j hj) (fun m => hjl (List.mem_singleton.1 m)), ?_⟩
      refine scalar_congr (fun n hn' => P.fr.bytes hs ?_) (hextc _ hh)
      simp only [Doc.strRefs, List.mem_flatMap]; exact ⟨_, hh, hn'⟩)
    P.att.nodup (fun x hx hxF => absurd (w.live x hxF) (P.att.fresh x hx).1)
    (fun x hx => hn ▸ live_lt_null P.fr.pool (P.att.fresh x hx).2) P.fr.pool (fun x hx => (P.att.fresh x hx).2)
    (fun x hx _ => P.fr.live x (w.live x hx)) hext
  refine ⟨hres.1, ?_, hres.2⟩
  -- string table
  have hidsp : List.Perm (replaceAt F l s).ids (F.ids ++ s.ids) := by
    refine (List.perm_ext_iff_of_nodup hres.1.nodup ?_).2 ?_
    · refine List.nodup_append.2 ⟨w.nodup, P.att.nodup, ?_⟩
      intro a ha b hb e; subst e
      exact (P.att.fresh a hb).1 (w.live a ha)
    · intro x
      rw [mem_ids_replaceAt s w.nodup hl, hnil, List.mem_append]
      simp [Forest.ids]
  have hhp : List.Perm (holders (replaceAt F l s)) (holders F ++ s.ids.map Loc.slot) := by
    have := (hidsp.map Loc.slot).cons Loc.root
    simpa [holders] using this
  have h1 := hhp.flatMap_right (fun l0 => strOfV (d'.get l0))
  rw [List.flatMap_append, flatMap_map_slot] at h1
  have h2 : List.Perm ((holders F).flatMap (fun l0 => strOfV (d'.get l0))) (strOfV v ++ d.strRefs F) := by
    have := strRefs_set_perm (d := d) (d' := d') w.nodup (loc_mem_holders hl)
      (fun l0 h0 hne => by rw [hgold l0 h0 hne]) (by rw [hnull]; rfl)
    rw [P.att.get] at this
    exact this
  refine StrOK_perm ?_ (P.att.str _ hs)
  refine List.Perm.symm (h1.trans ?_)
  refine (h2.append_right _).trans ?_
  show List.Perm ((strOfV v ++ d.strRefs F) ++ goneF d' s) ((strOfV v ++ goneF d' s) ++ d.strRefs F)
  rw [List.append_assoc, List.append_assoc]
  exact List.Perm.append_left _ List.perm_append_comm

/-! ## The layout is determined by the document -/

def layArr (sub : Nat → Forest) : List Nat → Forest
  | [] => .nil
  | e :: rest => .cons none e (sub e) (layArr sub rest)
def layObj (sub : Nat → Forest) : List Nat → Forest
  | k :: v :: rest => .cons (some k) v (sub v) (layObj sub rest)
  | _ => .nil
/-- the layout of the value `v` read off the document (chains followed with the usual fuel) -/
def Doc.layF (d : Doc) : Nat → VData → Forest
  | 0, _ => .nil
  | f+1, v =>
    match v with
    | .arr h _ => layArr (fun e => Doc.layF d f (d.get (.slot e))) (d.chain h)
    | .obj h _ => layObj (fun e => Doc.layF d f (d.get (.slot e))) (d.chain h)
    | _ => .nil
def Doc.lay (d : Doc) (v : VData) : Forest := d.layF d.fuel v

def LaySpec (d : Doc) (F : Forest) : Prop :=
  ∀ (f : Nat) (b : Bool) (h : Nat), Lk d b h F → F.depth ≤ f → F.ids.length ≤ d.fuel →
    (b = false → layArr (fun e => d.layF f (d.get (.slot e))) F.top = F) ∧
    (b = true → layObj (fun e => d.layF f (d.get (.slot e))) F.top = F)

theorem layF_node {d : Doc} {v : VData} {s : Forest} (hs : LaySpec d s) (hv : VOK d v s) {f : Nat}
    (hd : s.depth < f) (hf : s.ids.length ≤ d.fuel) : d.layF f v = s := by
  obtain ⟨f', rfl⟩ : ∃ f', f = f' + 1 := ⟨f - 1, by omega⟩
  cases v
  case arr h t =>
    obtain ⟨hl, _⟩ := (VOK_arr d h t s).mp hv
    simp only [Doc.layF, chain_eq hl hf]
    exact (hs f' false h hl (by omega) hf).1 rfl
  case obj h t =>
    obtain ⟨hl, _⟩ := (VOK_obj d h t s).mp hv
    simp only [Doc.layF, chain_eq hl hf]
    exact (hs f' true h hl (by omega) hf).2 rfl
  all_goals exact hv.symm

theorem laySpec (d : Doc) (F : Forest) : LaySpec d F := by
  induction F with
  | nil => intro f b h _ _ _; exact ⟨fun _ => rfl, fun _ => rfl⟩
  | cons key i s r ihs ihr =>
    intro f b h hl hd hf
    rw [Lk_cons] at hl
    obtain ⟨h1, h2, _, h4, h5⟩ := hl
    simp only [Forest.depth] at hd
    simp only [Forest.ids, List.length_append, List.length_cons] at hf
    have hnode : d.layF f (d.get (.slot i)) = s := layF_node ihs h5 (by omega) (by omega)
    have hr := ihr f b (d.nextOf i) h4 (by omega) (by omega)
    cases b <;> cases key <;> simp only [KeyOK] at h1
    · refine ⟨fun _ => ?_, fun e => (by cases e)⟩
      simp only [Forest.top, Forest.keyL, List.nil_append, layArr]
      rw [hnode, hr.1 rfl]
    · refine ⟨fun e => (by cases e), fun _ => ?_⟩
      simp only [Forest.top, Forest.keyL, List.cons_append, List.nil_append, layObj]
      rw [hnode, hr.2 rfl]

/-- a value laid out as `s` has no other layout: `s` is the layout read off the document -/
theorem lay_eq {d : Doc} {v : VData} {s : Forest} (hv : VOK d v s) (hf : s.ids.length < d.fuel) : d.lay v = s :=
  layF_node (laySpec d s) hv (Nat.lt_of_le_of_lt s.depth_le hf) (Nat.le_of_lt hf)

theorem Post.ids_lt_fuel {d0 d : Doc} {l : Loc} {v : VData} {s : Forest} (P : Post d0 d l v s) :
    s.ids.length < d.fuel := by
  have := length_le_of_nodup_lt P.att.nodup (fun x hx => live_lt_null P.fr.pool (P.att.fresh x hx).2)
  simp only [Doc.fuel, Doc.null] at *; omega

/-! ## Document-level statements -/

/-- FRAME for any step that only touches `l` and fresh slots: a location `l'` other than `l` whose subtree does not
    contain `l` designates the same value afterwards -/
theorem fr_toVal {d d' : Doc} {F : Forest} {l l' : Loc} (w : WFG d F) (hs : StrOK d (d.strRefs F)) (hf : Fr d d' [l])
    (hl : isLoc F l) (hl' : isLoc F l') (hne : l' ≠ l) (hnotin : ∀ i, l = .slot i → i ∉ (layoutAt F l').ids) :
    d'.get l' = d.get l' ∧ d'.toVal (d'.get l') = d.toVal (d.get l') := by
  have hsF := layoutAt_ids_sub F l'
  have hget : d'.get l' = d.get l' := by
    cases l' with
    | root => exact hf.root (fun m => hne (List.mem_singleton.1 m))
    | slot j => exact get_of_cell (hf.cells j (w.live j (isLoc_ids hl')) (fun m => hne (List.mem_singleton.1 m)))
  have hxl : ∀ x ∈ (layoutAt F l').ids, Loc.slot x ∉ [l] := fun x hx m => hnotin x (List.mem_singleton.1 m).symm hx
  have ag : Agree d d' (layoutAt F l').ids := ⟨hf.null, fun x hx => hf.cells x (w.live x (hsF x hx)) (hxl x hx)⟩
  have hsc : ∀ l0 ∈ holders F, d'.scalar (d.get l0) = d.scalar (d.get l0) := by
    intro l0 h0
    refine scalar_congr (fun n hn' => hf.bytes hs ?_) (fun e he => ?_)
    · simp only [Doc.strRefs, List.mem_flatMap]; exact ⟨l0, h0, hn'⟩
    · obtain ⟨⟨p, hp⟩, hlv, _⟩ := w.ext l0 h0 e he
      refine hf.cells e hlv (fun m => ?_)
      have e' := List.mem_singleton.1 m
      exact ext_ne_var hp (w.isVar e (isLoc_ids (e' ▸ hl))) rfl
  have sa : SAgree d d' (layoutAt F l').ids := fun j hj => hsc (.slot j) (mem_holders.2 (Or.inr ⟨j, hsF j hj, rfl⟩))
  have hlen : (layoutAt F l').ids.length < d.fuel :=
    Nat.lt_of_le_of_lt (List.Nodup.length_le_of_subset (layoutAt_nodup w.nodup hl') (fun x hx => hsF x hx)) w.fuel_ok
  have hfuel : d'.fuel = d.fuel := by simp only [Doc.fuel, hf.g]
  refine ⟨hget, ?_⟩
  rw [hget, toVal_eq (VOK_congr ag (VOK_at w hl')) (by rw [hfuel]; exact hlen), toVal_eq (VOK_at w hl') hlen]
  simp only [Doc.valOf]
  rw [vals_congr noOv _ ag sa]
  exact mkVal_congr (hsc l' (loc_mem_holders hl')) _

/-- The deep copy at the level of the document invariant (success and failure alike). -/
theorem copyInto_doc {d src : Doc} {F ss : Forest} {l : Loc} {sv : VData}
    (w : WFG d F) (hs : StrOK d (d.strRefs F)) (gok : PL.GeoOK d.g) (hl : isLoc F l) (hnull : d.get l = .null)
    (hv : VOK src sv ss) (hfu : ss.ids.length < src.fuel) (hnd : NoDupKeys (src.toVal sv)) :
    WFG (copyInto d l src sv) (replaceAt F l ((copyInto d l src sv).lay ((copyInto d l src sv).get l))) ∧
    StrOK (copyInto d l src sv)
      ((copyInto d l src sv).strRefs (replaceAt F l ((copyInto d l src sv).lay ((copyInto d l src sv).get l)))) ∧
    abs (copyInto d l src sv) = absWith d F l ((copyInto d l src sv).toVal ((copyInto d l src sv).get l)) ∧
    PartialCopy ((copyInto d l src sv).toVal ((copyInto d l src sv).get l)) (copyVal (src.toVal sv)) ∧
    ((copyInto d l src sv).overflowed = false →
      (copyInto d l src sv).toVal ((copyInto d l src sv).get l) = copyVal (src.toVal sv)) ∧
    (d.overflowed = false → (copyInto d l src sv).overflowed = true →
      (copyInto d l src sv).toVal ((copyInto d l src sv).get l) ≠ copyVal (src.toVal sv)) ∧
    (d.overflowed = true →
      FlaggedCopy ((copyInto d l src sv).toVal ((copyInto d l src sv).get l)) (copyVal (src.toVal sv))) ∧
    (∀ x ∈ ((copyInto d l src sv).lay ((copyInto d l src sv).get l)).ids, ¬ PL.live d.g d.pl x) ∧
    Fr d (copyInto d l src sv) [l] := by
  have hsv : src.toVal sv = src.valOf sv ss := toVal_eq hv hfu
  rw [hsv] at hnd ⊢
  obtain ⟨v, s, P, hpc, hcomp, hinc, hflg⟩ := copyIntoF_local (f := src.fuel) hv (Nat.lt_of_le_of_lt ss.depth_le hfu)
    (Nat.le_of_lt hfu) hnd (pre_of_wfg w hs gok hl hnull)
  simp only [copyInto]
  generalize copyIntoF src.fuel d l src sv = d' at *
  rw [P.att.get, lay_eq P.att.vok P.ids_lt_fuel, toVal_eq P.att.vok P.ids_lt_fuel]
  obtain ⟨a, b, c⟩ := post_assemble w hs hl hnull P
  exact ⟨a, b, c, hpc, hcomp, hinc, hflg, fun x hx => (P.att.fresh x hx).1, P.fr⟩

/-! ## A decidable equality test for abstract values (used to evaluate examples in the kernel) -/

mutual
def valEq : Val → Val → Bool
  | .null, .null => true
  | .bool a, .bool b => a == b
  | .num a, .num b => a == b
  | .str a, .str b => a == b
  | .raw a, .raw b => a == b
  | .arr a, .arr b => valsEq a b
  | .obj a, .obj b => memsEq a b
  | _, _ => false
def valsEq : List Val → List Val → Bool
  | [], [] => true
  | x :: xs, y :: ys => valEq x y && valsEq xs ys
  | _, _ => false
def memsEq : List (List Byte × Val) → List (List Byte × Val) → Bool
  | [], [] => true
  | (k, x) :: xs, (k', y) :: ys => k == k' && valEq x y && memsEq xs ys
  | _, _ => false
end

mutual
theorem valEq_sound : ∀ (a b : Val), valEq a b = true → a = b
  | .null, b, h => by cases b <;> first | rfl | (simp [valEq] at h)
  | .bool x, b, h => by cases b <;> simp [valEq] at h ⊢; exact h
  | .num x, b, h => by cases b <;> simp [valEq] at h ⊢; exact h
  | .str x, b, h => by cases b <;> simp [valEq] at h ⊢; exact h
  | .raw x, b, h => by cases b <;> simp [valEq] at h ⊢; exact h
  | .arr xs, b, h => by
    cases b <;> simp only [valEq, Bool.false_eq_true] at h
    rename_i ys; rw [valsEq_sound xs ys h]
  | .obj xs, b, h => by
    cases b <;> simp only [valEq, Bool.false_eq_true] at h
    rename_i ys; rw [memsEq_sound xs ys h]
theorem valsEq_sound : ∀ (a b : List Val), valsEq a b = true → a = b
  | [], b, h => by cases b <;> first | rfl | (simp [valsEq] at h)
  | x :: xs, b, h => by
    cases b with
    | nil => simp [valsEq] at h
    | cons y ys =>
      simp only [valsEq, Bool.and_eq_true] at h
      rw [valEq_sound x y h.1, valsEq_sound xs ys h.2]
theorem memsEq_sound : ∀ (a b : List (List Byte × Val)), memsEq a b = true → a = b
  | [], b, h => by cases b <;> first | rfl | (simp [memsEq] at h)
  | (k, x) :: xs, b, h => by
    cases b with
    | nil => simp [memsEq] at h
    | cons q ys =>
      obtain ⟨k', y⟩ := q
      simp only [memsEq, Bool.and_eq_true, beq_iff_eq] at h
      rw [h.1.1, valEq_sound x y h.1.2, memsEq_sound xs ys h.2]
end

/-! ## Locations of a layout after a replacement -/

theorem Forest.self_mem_locs_replaceSub (F : Forest) (i : Nat) (s' : Forest) (h : i ∈ F.locs) :
    i ∈ (F.replaceSub i s').locs := by
  induction F with
  | nil => cases h
  | cons k j s r ihs ihr =>
    simp only [Forest.replaceSub]
    split
    · rename_i e; simp [Forest.locs, e]
    · rename_i hji
      simp only [Forest.locs, List.mem_cons, List.mem_append] at h ⊢
      rcases h with e | m | m
      · exact absurd e.symm hji
      · exact Or.inr (Or.inl (ihs m))
      · exact Or.inr (Or.inr (ihr m))

theorem Forest.new_mem_locs_replaceSub (F : Forest) (i : Nat) (s' : Forest) (h : i ∈ F.locs) {x : Nat}
    (hx : x ∈ s'.locs) : x ∈ (F.replaceSub i s').locs := by
  induction F with
  | nil => cases h
  | cons k j s r ihs ihr =>
    simp only [Forest.replaceSub]
    split
    · simp [Forest.locs, hx]
    · rename_i hji
      simp only [Forest.locs, List.mem_cons, List.mem_append] at h ⊢
      rcases h with e | m | m
      · exact absurd e.symm hji
      · exact Or.inr (Or.inl (ihs m))
      · exact Or.inr (Or.inr (ihr m))

/-- the target of a replacement is still a location -/
theorem isLoc_replaceAt_self {F : Forest} {l : Loc} (s' : Forest) (hl : isLoc F l) : isLoc (replaceAt F l s') l := by
  cases l with
  | root => trivial
  | slot i => exact Forest.self_mem_locs_replaceSub F i s' hl

/-- the value slots of the new layout are locations -/
theorem isLoc_replaceAt_new {F : Forest} {l : Loc} {s' : Forest} (hl : isLoc F l) {x : Nat} (hx : x ∈ s'.locs) :
    isLoc (replaceAt F l s') (.slot x) := by
  cases l with
  | root => exact hx
  | slot i => exact Forest.new_mem_locs_replaceSub F i s' hl hx

theorem Forest.old_mem_locs_replaceSub (F : Forest) (i : Nat) (s' : Forest) (hnd : F.ids.Nodup) {x : Nat}
    (hx : x ∈ F.locs) (hout : x ∉ (F.subOf i).locs) : x ∈ (F.replaceSub i s').locs := by
  induction F with
  | nil => cases hx
  | cons k j s r ihs ihr =>
    obtain ⟨nds, ndr, njs, njr, nsr, nk⟩ := Forest.nodup_cons hnd
    simp only [Forest.replaceSub]
    split
    · rename_i e
      simp only [Forest.subOf, if_pos e] at hout
      simp only [Forest.locs, List.mem_cons, List.mem_append] at hx ⊢
      rcases hx with e' | m | m
      · exact Or.inl e'
      · exact absurd m hout
      · exact Or.inr (Or.inr m)
    · rename_i hji
      simp only [Forest.subOf, if_neg hji] at hout
      simp only [Forest.locs, List.mem_cons, List.mem_append] at hx ⊢
      rcases hx with e' | m | m
      · exact Or.inl e'
      · refine Or.inr (Or.inl (ihs nds m ?_))
        by_cases his : i ∈ s.locs
        · rw [if_pos his] at hout; exact hout
        · rw [Forest.subOf_of_notin s i his]; exact fun h => by cases h
      · refine Or.inr (Or.inr (ihr ndr m ?_))
        by_cases his : i ∈ s.locs
        · have hir : i ∉ r.locs := fun m' => nsr i (s.locs_sub_ids i his) (r.locs_sub_ids i m')
          rw [Forest.subOf_of_notin r i hir]; exact fun h => by cases h
        · rw [if_neg his] at hout; exact hout

/-- a location outside the replaced subtree is still a location -/
theorem isLoc_replaceAt_old {F : Forest} {l l' : Loc} (s' : Forest) (hnd : F.ids.Nodup) (hl' : isLoc F l')
    (hout : ∀ x, l' = .slot x → x ∉ (layoutAt F l).locs) (hlr : l = .root → l' = .root) :
    isLoc (replaceAt F l s') l' := by
  cases l' with
  | root => trivial
  | slot x =>
    cases l with
    | root => cases hlr rfl
    | slot i => exact Forest.old_mem_locs_replaceSub F i s' hnd hl' (hout x rfl)

/-! ## Copy onto a location that still holds a value: the copy clears it first -/

theorem Forest.replaceSub_replaceSub (F : Forest) (i : Nat) (s1 s2 : Forest) :
    (F.replaceSub i s1).replaceSub i s2 = F.replaceSub i s2 := by
  induction F with
  | nil => rfl
  | cons k j s r ihs ihr =>
    simp only [Forest.replaceSub]
    split
    · rename_i e; simp only [Forest.replaceSub, if_pos e]
    · rename_i e; simp only [Forest.replaceSub, if_neg e, ihs, ihr]

theorem replaceAt_replaceAt (F : Forest) (l : Loc) (s1 s2 : Forest) :
    replaceAt (replaceAt F l s1) l s2 = replaceAt F l s2 := by
  cases l with
  | root => rfl
  | slot i => exact Forest.replaceSub_replaceSub F i s1 s2

/-- `Keep d d' F l`: everything of the document `d` (laid out as `F`) that lies outside the location `l` and the subtree
    below it is kept in `d'`: same cells, same values, and the scalars / strings stored there read the same -/
structure Keep (d d' : Doc) (F : Forest) (l : Loc) : Prop where
  null : d'.null = d.null
  g : d'.g = d.g
  cells : ∀ j ∈ F.ids, Loc.slot j ≠ l → j ∉ (layoutAt F l).ids → d'.cell j = d.cell j
  hold : ∀ l0 ∈ holders F, l0 ≠ l → (∀ j ∈ (layoutAt F l).ids, l0 ≠ .slot j) →
    d'.get l0 = d.get l0 ∧ d'.scalar (d.get l0) = d.scalar (d.get l0)

theorem Keep.good {d d' : Doc} {F : Forest} {l : Loc} (k : Keep d d' F l) {j : Nat} (hj : j ∈ F.ids)
    (hjl : Loc.slot j ≠ l) (hjs : j ∉ (layoutAt F l).ids) : Good d d' j :=
  ⟨k.cells j hj hjl hjs, (k.hold (.slot j) (mem_holders.2 (Or.inr ⟨j, hj, rfl⟩)) hjl
    (fun x hx e => by cases e; exact hjs hx)).2⟩

/-- a location outside the mutated subtree, whose own subtree does not meet it, designates the same value -/
theorem Keep.toVal {d d' : Doc} {F : Forest} {l l' : Loc} (k : Keep d d' F l) (w : WFG d F) (hl' : isLoc F l')
    (hne : l' ≠ l) (hout' : ∀ j, l' = .slot j → j ∉ (layoutAt F l).ids)
    (hdisj : ∀ x ∈ (layoutAt F l').ids, x ∉ (layoutAt F l).ids ∧ Loc.slot x ≠ l) :
    d'.get l' = d.get l' ∧ d'.toVal (d'.get l') = d.toVal (d.get l') := by
  have hs'F := layoutAt_ids_sub F l'
  have hgood : ∀ x ∈ (layoutAt F l').ids, Good d d' x := fun x hx =>
    k.good (hs'F x hx) (hdisj x hx).2 (hdisj x hx).1
  obtain ⟨hget, hsc⟩ := k.hold l' (loc_mem_holders hl') hne (fun j hj e => hout' j e hj)
  obtain ⟨a, sa⟩ := agree_of_good k.null hgood
  have hlen : (layoutAt F l').ids.length < d.fuel :=
    Nat.lt_of_le_of_lt (List.Nodup.length_le_of_subset (layoutAt_nodup w.nodup hl') (fun x hx => hs'F x hx)) w.fuel_ok
  have hfu : d'.fuel = d.fuel := by simp only [Doc.fuel, k.g]
  refine ⟨hget, ?_⟩
  rw [hget, toVal_eq (VOK_congr a (VOK_at w hl')) (by rw [hfu]; exact hlen), toVal_at w hl']
  simp only [Doc.valOf]
  rw [vals_congr noOv _ a sa, mkVal_congr hsc]

/-- what `clearV l` keeps of a well-formed document -/
theorem clearV_keep {d : Doc} {F : Forest} {l : Loc} (w : WFG d F) (hs : StrOK d (d.strRefs F)) (hl : isLoc F l) :
    Keep d (d.clearV l) F l := by
  obtain ⟨dm, fp, hdm, he, hin, hout, hexts⟩ := clearV_survivors w hs hl
  rw [hdm]
  refine ⟨by rw [set_null, he.null], by rw [set_g, he.g], ?_, ?_⟩
  · intro x hx hxl hxs
    rw [cell_set_ne hxl]; exact he.cells x (hout x hx hxs)
  · intro l0 h0 hll hns
    have hl0' : l0 ∈ holders (replaceAt F l .nil) := by
      rcases mem_holders.1 h0 with e | ⟨x, hx, e⟩
      · subst e; exact mem_holders.2 (Or.inl rfl)
      · subst e
        exact mem_holders.2 (Or.inr ⟨x, (mem_ids_cleared w.nodup hl x).2 ⟨hx, fun m => hns x m rfl⟩, rfl⟩)
    constructor
    · rw [get_set_ne hll]
      rcases mem_holders.1 h0 with e | ⟨x, hx, e⟩
      · subst e; exact he.root
      · subst e; exact get_of_cell (he.cells x (hout x hx (fun m => hns x m rfl)))
    · refine scalar_congr (fun n hn' => ?_) (fun e hee => ?_)
      · rw [strBytes_set]
        refine he.bytes n ?_
        simp only [keepL, List.mem_flatMap]
        exact ⟨l0, hl0', by rw [if_neg hll]; exact hn'⟩
      · have hnfp : e ∉ fp := hexts l0 h0 hll hns e hee
        obtain ⟨⟨p, hp⟩, _, _⟩ := w.ext l0 h0 e hee
        have hel : Loc.slot e ≠ l := by
          intro e'
          exact ext_ne_var hp (w.isVar e (isLoc_ids (e' ▸ hl))) rfl
        rw [cell_set_ne hel]; exact he.cells e hnfp

/-- what `clearV l` leaves of a well-formed document, as needed to compose it with a later mutation at `l` -/
theorem clearV_good {d : Doc} {F : Forest} {l : Loc} (w : WFG d F) (hs : StrOK d (d.strRefs F)) (hl : isLoc F l) :
    (d.clearV l).get l = .null ∧ (d.clearV l).null = d.null ∧
    (∀ i, l = .slot i → (d.clearV l).nextOf i = d.nextOf i ∧ (d.clearV l).root = d.root) ∧
    (∀ j ∈ F.ids, Loc.slot j ≠ l → j ∉ (layoutAt F l).ids → Good d (d.clearV l) j) ∧
    (∀ x ∈ F.ids, x ∉ (layoutAt F l).ids → PL.live (d.clearV l).g (d.clearV l).pl x) := by
  obtain ⟨dm, fp, hdm, he, hin, hout, hexts⟩ := clearV_survivors w hs hl
  rw [hdm]
  refine ⟨get_set_self _ _ _, by rw [set_null, he.null], ?_, ?_, ?_⟩
  · intro i e; subst e
    have hc : dm.cell i = d.cell i := he.cells i (hout i (isLoc_ids hl) (self_notin_layoutAt w.nodup i))
    refine ⟨?_, by rw [root_set_slot, he.root]⟩
    rw [nextOf_of_var (show (dm.set (.slot i) .null).cell i = .var .null (dm.nextOf i) by rw [cell_set_slot, if_pos rfl]),
      nextOf_of_cell hc he.null]
  · intro x hx hxl hxs
    have hh : Loc.slot x ∈ holders F := mem_holders.2 (Or.inr ⟨x, hx, rfl⟩)
    have hsurv : Loc.slot x ∈ holders (replaceAt F l .nil) :=
      mem_holders.2 (Or.inr ⟨x, (mem_ids_cleared w.nodup hl x).2 ⟨hx, hxs⟩, rfl⟩)
    refine ⟨by rw [cell_set_ne hxl]; exact he.cells x (hout x hx hxs), ?_⟩
    refine scalar_congr (fun n hn' => ?_) (fun e hee => ?_)
    · rw [strBytes_set]
      refine he.bytes n ?_
      simp only [keepL, List.mem_flatMap]
      exact ⟨_, hsurv, by rw [if_neg hxl]; exact hn'⟩
    · have hne : e ∉ fp := hexts _ hh hxl (fun j hj e' => by cases e'; exact hxs hj) e hee
      obtain ⟨⟨p, hp⟩, _, _⟩ := w.ext _ hh e hee
      have hel : Loc.slot e ≠ l := by
        intro e'
        exact ext_ne_var hp (w.isVar e (isLoc_ids (e' ▸ hl))) rfl
      rw [cell_set_ne hel]; exact he.cells e hne
  · intro x hx hxs
    rw [set_pl, set_g]; exact (he.live x).2 ⟨w.live x hx, hout x hx hxs⟩

/-- what a copy into the cleared location `l` keeps of the document -/
theorem post_keep {d d' : Doc} {F : Forest} {l : Loc} {v : VData} {s : Forest}
    (w : WFG d F) (hs : StrOK d (d.strRefs F)) (hl : isLoc F l) (P : Post d d' l v s) :
    (∀ j ∈ F.ids, Loc.slot j ≠ l → d'.cell j = d.cell j) ∧
    (∀ l0 ∈ holders F, l0 ≠ l → d'.get l0 = d.get l0 ∧ d'.scalar (d.get l0) = d.scalar (d.get l0)) := by
  have hlvar : ∀ i, l = .slot i → d.isVar i := fun i e => w.isVar i (isLoc_ids (e ▸ hl))
  have hc : ∀ j ∈ F.ids, Loc.slot j ≠ l → d'.cell j = d.cell j := fun j hj hjl =>
    P.fr.cells j (w.live j hj) (fun m => hjl (List.mem_singleton.1 m))
  refine ⟨hc, ?_⟩
  intro l0 h0 hne
  constructor
  · rcases mem_holders.1 h0 with e | ⟨x, hx, e⟩
    · subst e; exact P.fr.root (fun m => hne (List.mem_singleton.1 m))
    · subst e; exact get_of_cell (hc x hx hne)
  · refine scalar_congr (fun n hn' => P.fr.bytes hs ?_) (fun e he => ?_)
    · simp only [Doc.strRefs, List.mem_flatMap]; exact ⟨l0, h0, hn'⟩
    · obtain ⟨⟨p, hp⟩, hlv, _⟩ := w.ext l0 h0 e he
      refine P.fr.cells e hlv (fun m => ?_)
      exact ext_ne_var hp (hlvar e (List.mem_singleton.1 m).symm) rfl

/-- The deep copy at the level of the document invariant, for a target location `l` holding ANY value (the copy clears it
    first): success and failure alike. -/
theorem copyInto_doc_gen {d src : Doc} {F ss : Forest} {l : Loc} {sv : VData}
    (w : WFG d F) (hs : StrOK d (d.strRefs F)) (gok : PL.GeoOK d.g) (hl : isLoc F l)
    (hv : VOK src sv ss) (hfu : ss.ids.length < src.fuel) (hnd : NoDupKeys (src.toVal sv)) :
    WFG (copyInto d l src sv) (replaceAt F l ((copyInto d l src sv).lay ((copyInto d l src sv).get l))) ∧
    StrOK (copyInto d l src sv)
      ((copyInto d l src sv).strRefs (replaceAt F l ((copyInto d l src sv).lay ((copyInto d l src sv).get l)))) ∧
    (copyInto d l src sv).g = d.g ∧
    abs (copyInto d l src sv) = absWith d F l ((copyInto d l src sv).toVal ((copyInto d l src sv).get l)) ∧
    PartialCopy ((copyInto d l src sv).toVal ((copyInto d l src sv).get l)) (copyVal (src.toVal sv)) ∧
    ((copyInto d l src sv).overflowed = false →
      (copyInto d l src sv).toVal ((copyInto d l src sv).get l) = copyVal (src.toVal sv)) ∧
    (d.overflowed = true → (copyInto d l src sv).overflowed = true) ∧
    (d.overflowed = false → (copyInto d l src sv).overflowed = true →
      (copyInto d l src sv).toVal ((copyInto d l src sv).get l) ≠ copyVal (src.toVal sv)) ∧
    (d.overflowed = true →
      FlaggedCopy ((copyInto d l src sv).toVal ((copyInto d l src sv).get l)) (copyVal (src.toVal sv))) ∧
    (∀ x ∈ ((copyInto d l src sv).lay ((copyInto d l src sv).get l)).ids, x ∈ F.ids → x ∈ (layoutAt F l).ids) ∧
    (∀ x ∈ F.ids, x ∉ (layoutAt F l).ids → PL.live (copyInto d l src sv).g (copyInto d l src sv).pl x) ∧
    Keep d (copyInto d l src sv) F l := by
  have hsv : src.toVal sv = src.valOf sv ss := toVal_eq hv hfu
  rw [hsv] at hnd ⊢
  obtain ⟨w0, s0, _, _⟩ := clearV_spec w hs hl
  obtain ⟨hnull0, hn0, hsl0, _, hlive0⟩ := clearV_good w hs hl
  have k1 := clearV_keep w hs hl
  have hg0 : (d.clearV l).g = d.g := clearV_g w hs hl
  have hl0 : isLoc (replaceAt F l .nil) l := isLoc_replaceAt_self .nil hl
  have P0 : Pre (d.clearV l) l := pre_of_wfg w0 s0 (by rw [hg0]; exact gok) hl0 hnull0
  obtain ⟨v, s, P, hpc, hcomp, hinc, hflg⟩ := copyIntoF_local_gen (f := src.fuel) (d := d) hv
    (Nat.lt_of_le_of_lt ss.depth_le hfu) (Nat.le_of_lt hfu) hnd P0
  simp only [copyInto]
  generalize copyIntoF src.fuel d l src sv = d' at *
  generalize hdc : d.clearV l = dc at *
  obtain ⟨a, b, _⟩ := post_assemble w0 s0 hl0 hnull0 P
  obtain ⟨k2c, k2h⟩ := post_keep w0 s0 hl0 P
  rw [replaceAt_replaceAt] at a b
  -- what is kept of `d`
  have hsurv : ∀ l0 ∈ holders F, l0 ≠ l → (∀ j ∈ (layoutAt F l).ids, l0 ≠ .slot j) →
      l0 ∈ holders (replaceAt F l .nil) := by
    intro l0 h0 _ hns
    rcases mem_holders.1 h0 with e | ⟨x, hx, e⟩
    · subst e; exact mem_holders.2 (Or.inl rfl)
    · subst e
      exact mem_holders.2 (Or.inr ⟨x, (mem_ids_cleared w.nodup hl x).2 ⟨hx, fun m => hns x m rfl⟩, rfl⟩)
  have keep : Keep d d' F l := by
    refine ⟨by rw [P.fr.null, hn0], by rw [P.fr.g, hg0], ?_, ?_⟩
    · intro j hj hjl hjs
      rw [k2c j ((mem_ids_cleared w.nodup hl j).2 ⟨hj, hjs⟩) hjl, k1.cells j hj hjl hjs]
    · intro l0 h0 hne hns
      obtain ⟨g1, c1⟩ := k1.hold l0 h0 hne hns
      obtain ⟨g2, c2⟩ := k2h l0 (hsurv l0 h0 hne hns) hne
      refine ⟨by rw [g2, g1], ?_⟩
      rw [g1] at c2
      rw [c2, c1]
  have hlen := P.ids_lt_fuel
  rw [P.att.get, lay_eq P.att.vok hlen, toVal_eq P.att.vok hlen]
  refine ⟨a, b, by rw [P.fr.g, hg0], ?_, hpc, hcomp, fun ho => P.fr.ov (by rw [← hdc, clearV_overflowed]; exact ho),
    fun h0 => hinc (by rw [← hdc, clearV_overflowed]; exact h0),
    fun h0 => hflg (by rw [← hdc, clearV_overflowed]; exact h0), ?_,
    fun x hx hxs => P.fr.live x (hlive0 x hx hxs), keep⟩
  · -- the abstract document
    rw [abs_eq a]
    have hlift := lift_at (d := d) (d' := d') (v' := v) (s' := s) w hl keep.null P.att.get
      (fun i e => by
        obtain ⟨hnx, hrt⟩ := hsl0 i e
        exact ⟨by rw [P.att.slot i e, hnx], by rw [P.fr.root (by rw [e]; simp), hrt]⟩)
      P.att.vok (fun j hj hjl hjs => keep.good hj hjl hjs)
    exact hlift.2
  · intro x hx hxF
    by_cases hxs : x ∈ (layoutAt F l).ids
    · exact hxs
    · exact absurd (hlive0 x hxF hxs) (P.att.fresh x hx).1

end DL
