/- A general frame lemma for the document invariant, and its uses: allocation failures (C05), release of a detached
   subtree. Used by AJ/Props/C04.lean and AJ/Props/C05.lean. -/
import AJ.Lemmas.DocClear
namespace DL
open JD (Byte Val)

/-- FRAME: if `d'` agrees with `d` on the root, on every slot of the layout and every extension slot it references,
    keeps them live in a consistent pool, and keeps the string table consistent with the same bytes for every referenced
    node, then `d'` is well-formed with the same layout and is the same abstract document — whatever else changed
    (other slots, the allocator state, the overflow flag). -/
theorem wfg_frame {d d' : Doc} {F : Forest} (w : WFG d F)
    (hg : d'.g = d.g) (hroot : d'.root = d.root)
    (hcells : ∀ x ∈ F.ids, d'.cell x = d.cell x)
    (hext : ∀ l0 ∈ holders F, ∀ e ∈ extOfV (d.get l0), d'.cell e = d.cell e ∧ PL.live d'.g d'.pl e)
    (hpool : PL.Inv d'.g d'.pl) (hlive : ∀ x ∈ F.ids, PL.live d'.g d'.pl x)
    (hstr : StrOK d' (d.strRefs F)) (hbytes : ∀ n ∈ d.strRefs F, d'.strBytes n = d.strBytes n) :
    WFG d' F ∧ StrOK d' (d'.strRefs F) ∧ abs d' = abs d := by
  have hn : d'.null = d.null := by simp only [Doc.null, hg]
  have ag : Agree d d' F.ids := ⟨hn, hcells⟩
  have hget : ∀ l0 ∈ holders F, d'.get l0 = d.get l0 := by
    intro l0 h0
    rcases mem_holders.1 h0 with e | ⟨x, hx, e⟩
    · subst e; exact hroot
    · subst e; exact get_of_cell (hcells x hx)
  have hsc : ∀ l0 ∈ holders F, d'.scalar (d.get l0) = d.scalar (d.get l0) := by
    intro l0 h0
    refine scalar_congr (fun n hn' => hbytes n ?_) (fun e he => (hext l0 h0 e he).1)
    simp only [Doc.strRefs, List.mem_flatMap]; exact ⟨l0, h0, hn'⟩
  have w' : WFG d' F := by
    refine ⟨by rw [hroot]; exact VOK_congr ag w.root, w.nodup, fun i hi => by rw [hn]; exact w.lt i hi, hpool, hlive, ?_⟩
    exact ExtOK_of w.ext (fun l0 h0 => Or.inr ⟨h0, hget l0 h0⟩) (fun l0 _ h0 _ e he => hext l0 h0 e he)
  refine ⟨w', ?_, ?_⟩
  · have : d'.strRefs F = d.strRefs F := flatMap_congr' _ (fun l0 h0 => by rw [hget l0 h0])
    rw [this]; exact hstr
  · rw [abs_eq w', abs_eq w, hroot]
    simp only [Doc.valOf]
    have sa : SAgree d d' F.ids := fun j hj => hsc (.slot j) (mem_holders.2 (Or.inr ⟨j, hj, rfl⟩))
    rw [vals_congr noOv F ag sa]
    exact mkVal_congr (hsc .root (mem_holders.2 (Or.inl rfl))) _

/-! ## Documents that only grew their pool (allocations, failed or leaked) -/

/-- `Grow d d'`: `d'` is `d` after allocator traffic only: same root, strings, geometry; every slot live in `d` is
    still live with the same content; the pool is consistent. Newly allocated slots are not constrained. -/
structure Grow (d d' : Doc) : Prop where
  g : d'.g = d.g
  root : d'.root = d.root
  strings : d'.strings = d.strings
  nextNode : d'.nextNode = d.nextNode
  cells : ∀ x, PL.live d.g d.pl x → d'.cell x = d.cell x
  pool : PL.Inv d'.g d'.pl
  live : ∀ x, PL.live d.g d.pl x → PL.live d'.g d'.pl x

theorem Grow.refl {d : Doc} (hp : PL.Inv d.g d.pl) : Grow d d := ⟨rfl, rfl, rfl, rfl, fun _ _ => rfl, hp, fun _ h => h⟩

theorem Grow.trans {d d1 d2 : Doc} (h1 : Grow d d1) (h2 : Grow d1 d2) : Grow d d2 :=
  ⟨by rw [h2.g, h1.g], by rw [h2.root, h1.root], by rw [h2.strings, h1.strings], by rw [h2.nextNode, h1.nextNode],
    fun x hx => by rw [h2.cells x (h1.live x hx), h1.cells x hx], h2.pool, fun x hx => h2.live x (h1.live x hx)⟩

/-- a well-formed document stays well-formed, and the same abstract document, when the pool only grew -/
theorem wfg_of_grow {d d' : Doc} {F : Forest} (w : WFG d F) (hs : StrOK d (d.strRefs F)) (h : Grow d d') :
    WFG d' F ∧ StrOK d' (d'.strRefs F) ∧ abs d' = abs d :=
  wfg_frame w h.g h.root (fun x hx => h.cells x (w.live x hx))
    (fun l0 h0 e he => ⟨h.cells e (w.ext l0 h0 e he).2.1, h.live e (w.ext l0 h0 e he).2.1⟩)
    h.pool (fun x hx => h.live x (w.live x hx)) (StrOK_congr h.strings h.nextNode hs)
    (fun n _ => strBytes_of_strings h.strings n)

theorem allocVariant_none {d d' : Doc} (gok : PL.GeoOK d.g) (hp : PL.Inv d.g d.pl) (h : d.allocVariant = (none, d')) :
    Grow d d' ∧ d'.overflowed = true ∧ (∀ x, PL.live d'.g d'.pl x ↔ PL.live d.g d.pl x) := by
  simp only [Doc.allocVariant] at h
  split at h
  · simp only [Prod.mk.injEq] at h; exact absurd h.1 (by simp)
  · rename_i pl heq
    simp only [Prod.mk.injEq, true_and] at h; subst h
    obtain ⟨a, _, c⟩ := C19.alloc_fail_clean gok hp heq
    exact ⟨⟨rfl, rfl, rfl, rfl, fun _ _ => rfl, c, fun x hx => (a x).2 hx⟩, rfl, a⟩

theorem allocVariant_some {d d' : Doc} {id : Nat} (gok : PL.GeoOK d.g) (hp : PL.Inv d.g d.pl)
    (h : d.allocVariant = (some id, d')) :
    Grow d d' ∧ d'.overflowed = d.overflowed ∧ d'.cell id = .var .null d.null ∧ (∀ j, j ≠ id → d'.cell j = d.cell j) ∧
    ¬ PL.live d.g d.pl id ∧ id < d.null ∧ (∀ x, PL.live d'.g d'.pl x ↔ PL.live d.g d.pl x ∨ x = id) := by
  simp only [Doc.allocVariant] at h
  split at h
  · rename_i id' pl heq
    simp only [Prod.mk.injEq, Option.some.injEq] at h
    obtain ⟨rfl, rfl⟩ := h
    obtain ⟨a, b, c, dd⟩ := C19.alloc_fresh gok hp heq
    refine ⟨⟨rfl, rfl, rfl, rfl, ?_, dd, fun x hx => (c x).2 (Or.inl hx)⟩, rfl, ?_, ?_, b, a, c⟩
    · intro x hx; rw [cell_insert, if_neg (show ¬ id' = x from fun e => b (e ▸ hx))]
    · rw [cell_insert, if_pos rfl]
    · intro j hj; rw [cell_insert, if_neg (Ne.symm hj)]
  · simp only [Prod.mk.injEq] at h; exact absurd h.1 (by simp)

theorem allocExt_none {d d' : Doc} {p : Int} (gok : PL.GeoOK d.g) (hp : PL.Inv d.g d.pl) (h : d.allocExt p = (none, d')) :
    Grow d d' ∧ d'.overflowed = true ∧ (∀ x, PL.live d'.g d'.pl x ↔ PL.live d.g d.pl x) := by
  simp only [Doc.allocExt] at h
  split at h
  · simp only [Prod.mk.injEq] at h; exact absurd h.1 (by simp)
  · rename_i pl heq
    simp only [Prod.mk.injEq, true_and] at h; subst h
    obtain ⟨a, _, c⟩ := C19.alloc_fail_clean gok hp heq
    exact ⟨⟨rfl, rfl, rfl, rfl, fun _ _ => rfl, c, fun x hx => (a x).2 hx⟩, rfl, a⟩

theorem saveString_none {d d' : Doc} {s : List Byte} (hp : PL.Inv d.g d.pl) (h : d.saveString s = (none, d')) :
    Grow d d' ∧ d'.overflowed = true ∧ (∀ x, PL.live d'.g d'.pl x ↔ PL.live d.g d.pl x) := by
  simp only [Doc.saveString] at h
  split at h
  · simp only [Prod.mk.injEq] at h; exact absurd h.1 (by simp)
  · split at h
    · simp only [Prod.mk.injEq, true_and] at h; subst h
      exact ⟨⟨rfl, rfl, rfl, rfl, fun _ _ => rfl, hp, fun x hx => hx⟩, rfl, fun x => Iff.rfl⟩
    generalize hal : d.pl.alloc (s.length + d.strOverhead) = q at h
    obtain ⟨ok, pl⟩ := q
    simp only at h
    have hpl : pl = (d.pl.alloc (s.length + d.strOverhead)).2 := by rw [hal]
    split at h
    · simp only [Prod.mk.injEq, true_and] at h; subst h
      have h1 : pl.pools = d.pl.pools := by rw [hpl]; rfl
      have h2 : pl.free = d.pl.free := by rw [hpl]; rfl
      refine ⟨⟨rfl, rfl, rfl, rfl, fun _ _ => rfl, hp.congr h1 (by rw [hpl]; rfl) (by rw [hpl]; rfl) h2,
        fun x hx => (live_congr h1 h2 x).2 hx⟩, rfl, fun x => live_congr h1 h2 x⟩
    · simp only [Prod.mk.injEq] at h; exact absurd h.1 (by simp)

theorem saveString_overflowed {d d1 : Doc} {s : List Byte} {n : Nat} (h : d.saveString s = (some n, d1)) :
    d1.overflowed = d.overflowed := by
  simp only [Doc.saveString] at h
  split at h
  · simp only [Prod.mk.injEq, Option.some.injEq] at h; obtain ⟨_, rfl⟩ := h; rfl
  · split at h
    · simp only [Prod.mk.injEq] at h; exact absurd h.1 (by simp)
    generalize d.pl.alloc (s.length + d.strOverhead) = q at h
    obtain ⟨ok, pl⟩ := q
    simp only at h
    split at h
    · simp only [Prod.mk.injEq] at h; exact absurd h.1 (by simp)
    · simp only [Prod.mk.injEq, Option.some.injEq] at h; obtain ⟨_, rfl⟩ := h; rfl

/-! ## Observations are preserved by growth; geometry is preserved by every primitive -/

theorem grow_obs {d d' : Doc} {F : Forest} (w : WFG d F) (hs : StrOK d (d.strRefs F)) (h : Grow d d') {l : Loc}
    (hl : isLoc F l) :
    d'.get l = d.get l ∧ d'.toVal (d'.get l) = d.toVal (d.get l) ∧ ∀ x, absWith d' F l x = absWith d F l x := by
  obtain ⟨w', _, _⟩ := wfg_of_grow w hs h
  have hn : d'.null = d.null := by simp only [Doc.null, h.g]
  have ag : Agree d d' F.ids := ⟨hn, fun x hx => h.cells x (w.live x hx)⟩
  have hget : ∀ l0 ∈ holders F, d'.get l0 = d.get l0 := by
    intro l0 h0
    rcases mem_holders.1 h0 with e | ⟨x, hx, e⟩
    · subst e; exact h.root
    · subst e; exact get_of_cell (ag.cell x hx)
  have hsc : ∀ l0 ∈ holders F, d'.scalar (d.get l0) = d.scalar (d.get l0) := fun l0 h0 =>
    scalar_congr (fun n _ => strBytes_of_strings h.strings n) (fun e he => h.cells e (w.ext l0 h0 e he).2.1)
  have sa : SAgree d d' F.ids := fun j hj => hsc (.slot j) (mem_holders.2 (Or.inr ⟨j, hj, rfl⟩))
  have hgl := hget l (loc_mem_holders hl)
  refine ⟨hgl, ?_, ?_⟩
  · rw [toVal_at w' hl, toVal_at w hl, hgl]
    simp only [Doc.valOf]
    have hsub := layoutAt_ids_sub F l
    rw [vals_congr noOv _ (ag.mono hsub) (sa.mono hsub)]
    exact mkVal_congr (hsc l (loc_mem_holders hl)) _
  · intro x
    cases l with
    | root => rfl
    | slot i =>
      simp only [absWith]
      rw [vals_congr _ F ag sa, h.root]
      exact mkVal_congr (hsc .root (mem_holders.2 (Or.inl rfl))) _

theorem appendOne_g (d : Doc) (l : Loc) (id : Nat) : (d.appendOne l id).g = d.g := by
  simp only [Doc.appendOne]
  split
  · split
    · rw [set_g, setNext_g]
    · rw [set_g]
  · rfl

theorem derefString_g (d : Doc) (n : Nat) : (d.derefString n).g = d.g := by
  simp only [Doc.derefString]
  split
  · rfl
  · split <;> rfl

theorem saveString_g (d : Doc) (s : List Byte) : (d.saveString s).2.g = d.g := by
  simp only [Doc.saveString]
  split
  · rfl
  · split
    · rfl
    generalize d.pl.alloc (s.length + d.strOverhead) = q
    obtain ⟨ok, pl⟩ := q
    simp only
    split <;> rfl

theorem allocExt_g (d : Doc) (p : Int) : (d.allocExt p).2.g = d.g := by
  simp only [Doc.allocExt]; split <;> rfl

theorem allocVariant_g (d : Doc) : d.allocVariant.2.g = d.g := by
  simp only [Doc.allocVariant]; split <;> rfl

theorem setArg_g (d : Doc) (l : Loc) (a : Arg) : (d.setArg l a).2.g = d.g := by
  have ext : ∀ (p : Int) (k : Nat → VData), (match d.allocExt p with
      | (some s, d) => (true, d.set l (k s)) | (none, d) => (false, d)).2.g = d.g := by
    intro p k
    have := allocExt_g d p
    generalize d.allocExt p = r at this ⊢
    obtain ⟨m, d1⟩ := r
    cases m <;> simp only [set_g] <;> exact this
  have str : ∀ (s : List Byte) (k : Nat → VData), (match d.saveString s with
      | (some n, d) => (let d := d.set l (k n); (!d.overflowed, d)) | (none, d) => (!d.overflowed, d)).2.g = d.g := by
    intro s k
    have := saveString_g d s
    generalize d.saveString s = r at this ⊢
    obtain ⟨m, d1⟩ := r
    cases m <;> simp only [set_g] <;> exact this
  cases a with
  | null => rfl
  | bool b => exact set_g _ _ _
  | f32 b => exact set_g _ _ _
  | strLinked s => exact set_g _ _ _
  | sint v => simp only [Doc.setArg]; split; exact set_g _ _ _; exact ext v .i64
  | uint v => simp only [Doc.setArg]; split; exact set_g _ _ _; exact ext v .u64
  | f64 b =>
    simp only [Doc.setArg]; split
    · exact set_g _ _ _
    · exact ext b .f64
  | strCopied s => simp only [Doc.setArg]; exact str s .owned
  | raw s => simp only [Doc.setArg]; exact str s .raw

theorem clearV_g {d : Doc} {F : Forest} {l : Loc} (w : WFG d F) (hs : StrOK d (d.strRefs F)) (hl : isLoc F l) :
    (d.clearV l).g = d.g := by
  obtain ⟨dm, fp, hdm, he, _⟩ := clearV_survivors w hs hl
  rw [hdm, set_g, he.g]

end DL
