/- Well-formedness invariant of the slot-level document store `DL.Doc` and its abstraction to an ordered tree.
   Ghost data: a `Forest` records, for a collection value, the ids of the slots of its chain (for objects: key
   slot and value slot of every member) and, recursively, the forests of the values stored in these slots.
   Used by AJ/Props/C04.lean. -/
import AJ.Model.DL
import AJ.Lemmas.PoolInv
namespace DL
open JD (Byte Val)

/-! ## Store access lemmas -/

theorem cell_insert (d : Doc) (id j : Nat) (c : Cell) (pl : PL.St) :
    ({ d with pl := pl, cells := d.cells.insert id c } : Doc).cell j = if id = j then c else d.cell j := by
  simp only [Doc.cell, Std.HashMap.getD_insert, beq_iff_eq]

theorem cell_insert' (d : Doc) (id j : Nat) (c : Cell) :
    ({ d with cells := d.cells.insert id c } : Doc).cell j = if id = j then c else d.cell j := by
  simp only [Doc.cell, Std.HashMap.getD_insert, beq_iff_eq]

theorem get_slot (d : Doc) (j : Nat) : d.get (.slot j) = match d.cell j with | .var v _ => v | _ => .null := rfl

theorem get_of_cell {d d' : Doc} {j : Nat} (h : d'.cell j = d.cell j) : d'.get (.slot j) = d.get (.slot j) := by
  simp only [get_slot, h]

theorem nextOf_of_cell {d d' : Doc} {j : Nat} (h : d'.cell j = d.cell j) (hn : d'.null = d.null) :
    d'.nextOf j = d.nextOf j := by
  simp only [Doc.nextOf, h, hn]

theorem extOf_of_cell {d d' : Doc} {j : Nat} (h : d'.cell j = d.cell j) : d'.extOf j = d.extOf j := by
  simp only [Doc.extOf, h]

theorem get_of_var {d : Doc} {j : Nat} {v : VData} {n : Nat} (h : d.cell j = .var v n) : d.get (.slot j) = v := by
  simp only [get_slot, h]
theorem nextOf_of_var {d : Doc} {j : Nat} {v : VData} {n : Nat} (h : d.cell j = .var v n) : d.nextOf j = n := by
  simp only [Doc.nextOf, h]

/-- the cell is a variant cell -/
def Doc.isVar (d : Doc) (j : Nat) : Prop := d.cell j = .var (d.get (.slot j)) (d.nextOf j)

theorem isVar_of_var {d : Doc} {j : Nat} {v : VData} {n : Nat} (h : d.cell j = .var v n) : d.isVar j := by
  simp only [Doc.isVar, get_of_var h, nextOf_of_var h, h]

/-! `Doc.set` -/
theorem set_null (d : Doc) (l : Loc) (v : VData) : (d.set l v).null = d.null := by cases l <;> rfl
theorem set_pl (d : Doc) (l : Loc) (v : VData) : (d.set l v).pl = d.pl := by cases l <;> rfl
theorem set_strings (d : Doc) (l : Loc) (v : VData) : (d.set l v).strings = d.strings := by cases l <;> rfl
theorem set_overflowed (d : Doc) (l : Loc) (v : VData) : (d.set l v).overflowed = d.overflowed := by cases l <;> rfl
theorem set_nextNode (d : Doc) (l : Loc) (v : VData) : (d.set l v).nextNode = d.nextNode := by cases l <;> rfl
theorem set_g (d : Doc) (l : Loc) (v : VData) : (d.set l v).g = d.g := by cases l <;> rfl
theorem set_strOverhead (d : Doc) (l : Loc) (v : VData) : (d.set l v).strOverhead = d.strOverhead := by cases l <;> rfl
theorem cell_set_root (d : Doc) (v : VData) (j : Nat) : (d.set .root v).cell j = d.cell j := rfl
theorem cell_set_slot (d : Doc) (i : Nat) (v : VData) (j : Nat) :
    (d.set (.slot i) v).cell j = if i = j then .var v (d.nextOf i) else d.cell j := by
  simp only [Doc.set, cell_insert']
theorem root_set_root (d : Doc) (v : VData) : (d.set .root v).root = v := rfl
theorem root_set_slot (d : Doc) (i : Nat) (v : VData) : (d.set (.slot i) v).root = d.root := rfl
theorem get_set_self (d : Doc) (l : Loc) (v : VData) : (d.set l v).get l = v := by
  cases l with
  | root => rfl
  | slot i => simp only [get_slot, cell_set_slot, if_true]

/-! `Doc.setNext` -/
theorem setNext_null (d : Doc) (i n : Nat) : (d.setNext i n).null = d.null := by
  simp only [Doc.setNext]; split <;> rfl
theorem setNext_root (d : Doc) (i n : Nat) : (d.setNext i n).root = d.root := by
  simp only [Doc.setNext]; split <;> rfl
theorem setNext_g (d : Doc) (i n : Nat) : (d.setNext i n).g = d.g := by
  simp only [Doc.setNext]; split <;> rfl
theorem setNext_pl (d : Doc) (i n : Nat) : (d.setNext i n).pl = d.pl := by
  simp only [Doc.setNext]; split <;> rfl
theorem setNext_strings (d : Doc) (i n : Nat) : (d.setNext i n).strings = d.strings := by
  simp only [Doc.setNext]; split <;> rfl
theorem cell_setNext (d : Doc) (i n j : Nat) :
    (d.setNext i n).cell j = if i = j then (match d.cell i with | .var v _ => .var v n | c => c) else d.cell j := by
  simp only [Doc.setNext]
  split
  · rename_i v m heq
    simp only [cell_insert', heq]
  · rename_i hne
    split
    · rename_i e; subst e
      split
      · rename_i v m heq; exact absurd heq (hne v m)
      · rfl
    · rfl

theorem cell_setNext_var {d : Doc} {i : Nat} {v : VData} {m : Nat} (h : d.cell i = .var v m) (n : Nat) :
    (d.setNext i n).cell i = .var v n := by
  simp only [cell_setNext, if_true, h]
theorem cell_setNext_ne (d : Doc) {i j : Nat} (n : Nat) (h : i ≠ j) : (d.setNext i n).cell j = d.cell j := by
  simp only [cell_setNext, if_neg h]

/-! `Doc.freeCell` -/
theorem freeCell_null (d : Doc) (i : Nat) : (d.freeCell i).null = d.null := rfl
theorem freeCell_root (d : Doc) (i : Nat) : (d.freeCell i).root = d.root := rfl
theorem freeCell_strings (d : Doc) (i : Nat) : (d.freeCell i).strings = d.strings := rfl
theorem cell_freeCell (d : Doc) (i j : Nat) : (d.freeCell i).cell j = if i = j then .free else d.cell j := by
  simp only [Doc.freeCell, cell_insert]

/-! ## Ghost forests -/

/-- Ghost layout of a chain: `cons key id sub rest` is one element stored in slot `id` (for an object member, `key`
    is the slot holding the key, linked in front of `id`), `sub` the layout of the collection stored in `id`
    (`nil` for scalars), `rest` the remainder of the chain. -/
inductive Forest
  | nil
  | cons (key : Option Nat) (id : Nat) (sub : Forest) (rest : Forest)

namespace Forest
def keyL : Option Nat → List Nat | none => [] | some k => [k]
/-- slot ids of the chain itself, in link order -/
def top : Forest → List Nat | nil => [] | cons k i _ r => keyL k ++ i :: top r
/-- all slot ids, pre-order -/
def ids : Forest → List Nat | nil => [] | cons k i s r => keyL k ++ i :: (ids s ++ ids r)
/-- slots that hold values (elements and member values): the locations a reference can designate -/
def locs : Forest → List Nat | nil => [] | cons _ i s r => i :: (locs s ++ locs r)
def depth : Forest → Nat | nil => 0 | cons _ _ s r => max (depth s + 1) (depth r)
def snoc : Forest → Option Nat → Nat → Forest
  | nil, k, i => cons k i nil nil
  | cons k' j s r, k, i => cons k' j s (snoc r k i)
/-- replace the layout below slot `i` -/
def replaceSub : Forest → Nat → Forest → Forest
  | nil, _, _ => nil
  | cons k j s r, i, s' => if j = i then cons k j s' r else cons k j (replaceSub s i s') (replaceSub r i s')
/-- layout below slot `i` -/
def subOf : Forest → Nat → Forest
  | nil, _ => nil
  | cons _ j s r, i => if j = i then s else if i ∈ s.locs then subOf s i else subOf r i

theorem locs_sub_ids (F : Forest) : ∀ x ∈ F.locs, x ∈ F.ids := by
  induction F with
  | nil => intro x h; cases h
  | cons k i s r ihs ihr =>
    intro x h
    simp only [locs, List.mem_cons, List.mem_append] at h
    simp only [ids, List.mem_cons, List.mem_append]
    rcases h with h | h | h
    · exact Or.inr (Or.inl h)
    · exact Or.inr (Or.inr (Or.inl (ihs x h)))
    · exact Or.inr (Or.inr (Or.inr (ihr x h)))

theorem top_sub_ids (F : Forest) : ∀ x ∈ F.top, x ∈ F.ids := by
  induction F with
  | nil => intro x h; cases h
  | cons k i s r ihs ihr =>
    intro x h
    simp only [top, List.mem_cons, List.mem_append] at h
    simp only [ids, List.mem_cons, List.mem_append]
    rcases h with h | h | h
    · exact Or.inl h
    · exact Or.inr (Or.inl h)
    · exact Or.inr (Or.inr (Or.inr (ihr x h)))

theorem top_length_le (F : Forest) : F.top.length ≤ F.ids.length := by
  induction F with
  | nil => exact Nat.le_refl _
  | cons k i s r ihs ihr =>
    simp only [top, ids, List.length_append, List.length_cons]; omega

theorem depth_le (F : Forest) : F.depth ≤ F.ids.length := by
  induction F with
  | nil => exact Nat.le_refl _
  | cons k i s r ihs ihr =>
    simp only [depth, ids, List.length_append, List.length_cons]; omega

theorem top_snoc (F : Forest) (k : Option Nat) (i : Nat) : (F.snoc k i).top = F.top ++ (keyL k ++ [i]) := by
  induction F with
  | nil => simp [snoc, top]
  | cons k' j s r _ ihr => simp [snoc, top, ihr]

theorem ids_snoc (F : Forest) (k : Option Nat) (i : Nat) : (F.snoc k i).ids = F.ids ++ (keyL k ++ [i]) := by
  induction F with
  | nil => simp [snoc, ids]
  | cons k' j s r _ ihr => simp [snoc, ids, ihr]

theorem locs_snoc (F : Forest) (k : Option Nat) (i : Nat) : (F.snoc k i).locs = F.locs ++ [i] := by
  induction F with
  | nil => simp [snoc, locs]
  | cons k' j s r _ ihr => simp [snoc, locs, ihr]

theorem top_replaceSub (i : Nat) (s' : Forest) (F : Forest) : (F.replaceSub i s').top = F.top := by
  induction F with
  | nil => rfl
  | cons k j s r _ ihr =>
    simp only [replaceSub]; split
    · simp only [top]
    · simp only [top, ihr]

theorem replaceSub_of_notin (i : Nat) (s' : Forest) (F : Forest) (h : i ∉ F.locs) : F.replaceSub i s' = F := by
  induction F with
  | nil => rfl
  | cons k j s r ihs ihr =>
    simp only [locs, List.mem_cons, List.mem_append, not_or] at h
    simp only [replaceSub, if_neg (Ne.symm h.1), ihs h.2.1, ihr h.2.2]
end Forest

/-! ## Layout predicate -/

def isKey : VData → Prop | .linked _ => True | .owned _ => True | _ => False
def isColl : VData → Prop | .arr _ _ => True | .obj _ _ => True | _ => False

/-- link in front of element `i`: for arrays the chain position is `i` itself, for objects it is the key slot -/
def KeyOK (d : Doc) (b : Bool) (start : Nat) (key : Option Nat) (i : Nat) : Prop :=
  match b, key with
  | false, none => start = i
  | true, some k => start = k ∧ k ≠ d.null ∧ d.isVar k ∧ isKey (d.get (.slot k)) ∧ d.nextOf k = i
  | _, _ => False

/-- the value `v` is laid out as `s`: scalars have no layout, a collection's chain starts at its head, ends in the
    null id, and its tail is the last slot of the chain (`lk b h` : the chain from `h` is laid out as `s`) -/
def ValOK (d : Doc) (lk : Bool → Nat → Prop) (v : VData) (s : Forest) : Prop :=
  match v with
  | .arr h t => lk false h ∧ t = s.top.getLast?.getD d.null
  | .obj h t => lk true h ∧ t = s.top.getLast?.getD d.null
  | _ => s = .nil

/-- `Lk d b start F`: following `next` from `start` visits exactly the chain `F.top` and reaches the null id; every
    slot is a variant cell; `b` tells whether this is an object chain (key slot, value slot alternating, keys are
    strings); the value in every element slot is laid out as the corresponding sub-forest. -/
def Lk (d : Doc) : Bool → Nat → Forest → Prop
  | _, start, .nil => start = d.null
  | b, start, .cons key i s r =>
      KeyOK d b start key i ∧ i ≠ d.null ∧ d.isVar i ∧ Lk d b (d.nextOf i) r ∧
      ValOK d (fun b' h => Lk d b' h s) (d.get (.slot i)) s

/-- the value `v` (stored anywhere) is laid out as `s` -/
def VOK (d : Doc) (v : VData) (s : Forest) : Prop := ValOK d (fun b h => Lk d b h s) v s

theorem Lk_nil (d : Doc) (b : Bool) (start : Nat) : Lk d b start .nil ↔ start = d.null := by
  simp only [Lk]
theorem Lk_cons (d : Doc) (b : Bool) (start : Nat) (key : Option Nat) (i : Nat) (s r : Forest) :
    Lk d b start (.cons key i s r) ↔
      (KeyOK d b start key i ∧ i ≠ d.null ∧ d.isVar i ∧ Lk d b (d.nextOf i) r ∧ VOK d (d.get (.slot i)) s) := by
  simp only [Lk, VOK]

theorem VOK_scalar {d : Doc} {v : VData} (h : ¬ isColl v) (s : Forest) : VOK d v s ↔ s = .nil := by
  cases v <;> first | rfl | exact absurd trivial h
theorem VOK_arr (d : Doc) (h t : Nat) (s : Forest) :
    VOK d (.arr h t) s ↔ (Lk d false h s ∧ t = s.top.getLast?.getD d.null) := Iff.rfl
theorem VOK_obj (d : Doc) (h t : Nat) (s : Forest) :
    VOK d (.obj h t) s ↔ (Lk d true h s ∧ t = s.top.getLast?.getD d.null) := Iff.rfl

/-! ## Abstraction to an ordered tree -/

/-- abstract value of a non-collection -/
def Doc.scalar (d : Doc) : VData → Val
  | .null => .null | .bool b => .bool b
  | .i32 x => .num (.sint x) | .u32 x => .num (.uint x) | .f32 b => .num (.f32 b)
  | .i64 s => .num (.sint (d.extOf s)) | .u64 s => .num (.uint (d.extOf s).toNat) | .f64 s => .num (.f64 (d.extOf s).toNat)
  | .linked s => .str s | .owned n => .str (d.strBytes n) | .raw n => .raw (d.strBytes n)
  | .arr _ _ => .null | .obj _ _ => .null

def keyOfV (d : Doc) : VData → List Byte
  | .linked s => s | .owned n => d.strBytes n | _ => []
def keyB (d : Doc) : Option Nat → List Byte
  | none => [] | some k => keyOfV d (d.get (.slot k))

def mkVal (d : Doc) (v : VData) (sub : List (List Byte × Val)) : Val :=
  match v with
  | .arr _ _ => .arr (sub.map (·.2))
  | .obj _ _ => .obj sub
  | v => d.scalar v

/-- members/elements (with key bytes, `[]` for array elements) of a chain laid out as `F`; `o i = some x` overrides
    the value read in slot `i` by `x` (used to state what a mutation of slot `i` does to the whole tree) -/
def vals (d : Doc) (o : Nat → Option Val) : Forest → List (List Byte × Val)
  | .nil => []
  | .cons key i s r => (keyB d key, (o i).getD (mkVal d (d.get (.slot i)) (vals d o s))) :: vals d o r

def noOv : Nat → Option Val := fun _ => none
def ov1 (i : Nat) (x : Val) : Nat → Option Val := fun j => if j = i then some x else none

/-- abstract value of `v` laid out as `s` -/
def Doc.valOf (d : Doc) (v : VData) (s : Forest) : Val := mkVal d v (vals d noOv s)

theorem mkVal_scalar {d : Doc} {v : VData} (h : ¬ isColl v) (sub) : mkVal d v sub = d.scalar v := by
  cases v <;> first | rfl | exact absurd trivial h

theorem keyBytes_getD (d : Doc) (k : Nat) : (d.keyBytes k).getD [] = keyOfV d (d.get (.slot k)) := by
  simp only [Doc.keyBytes]
  cases d.get (.slot k) <;> rfl

/-! ## Agreement of two stores on a set of slots -/

structure Agree (d d' : Doc) (js : List Nat) : Prop where
  null : d'.null = d.null
  cell : ∀ j ∈ js, d'.cell j = d.cell j

theorem Agree.mono {d d' : Doc} {js ks : List Nat} (h : Agree d d' js) (hs : ∀ j ∈ ks, j ∈ js) : Agree d d' ks :=
  ⟨h.null, fun j hj => h.cell j (hs j hj)⟩

/-- scalar values stored in the slots `js` of `d` read the same in `d'` (extension slots and string nodes agree) -/
def SAgree (d d' : Doc) (js : List Nat) : Prop := ∀ j ∈ js, d'.scalar (d.get (.slot j)) = d.scalar (d.get (.slot j))

theorem SAgree.mono {d d' : Doc} {js ks : List Nat} (h : SAgree d d' js) (hs : ∀ j ∈ ks, j ∈ js) : SAgree d d' ks :=
  fun j hj => h j (hs j hj)

theorem isVar_congr {d d' : Doc} {j : Nat} (hc : d'.cell j = d.cell j) (hn : d'.null = d.null) (h : d.isVar j) :
    d'.isVar j := by
  simp only [Doc.isVar, get_of_cell hc, nextOf_of_cell hc hn, hc]; exact h

theorem KeyOK_congr {d d' : Doc} {b : Bool} {start : Nat} {key : Option Nat} {i : Nat}
    (hn : d'.null = d.null) (hc : ∀ k ∈ Forest.keyL key, d'.cell k = d.cell k) (h : KeyOK d b start key i) :
    KeyOK d' b start key i := by
  cases b <;> cases key <;> simp only [KeyOK] at h ⊢
  · exact h
  · rename_i k
    have hk := hc k (by simp [Forest.keyL])
    obtain ⟨h1, h2, h3, h4, h5⟩ := h
    exact ⟨h1, hn ▸ h2, isVar_congr hk hn h3, (get_of_cell hk) ▸ h4, (nextOf_of_cell hk hn) ▸ h5⟩

theorem Lk_congr {d d' : Doc} (F : Forest) : ∀ {b : Bool} {h : Nat}, Agree d d' F.ids → Lk d b h F → Lk d' b h F := by
  induction F with
  | nil => intro b h ha hl; rw [Lk_nil] at hl ⊢; rw [ha.null]; exact hl
  | cons key i s r ihs ihr =>
    intro b h ha hl
    rw [Lk_cons] at hl ⊢
    obtain ⟨h1, h2, h3, h4, h5⟩ := hl
    have hi : d'.cell i = d.cell i := ha.cell i (by simp [Forest.ids])
    have has : Agree d d' s.ids := ha.mono (by intro j hj; simp [Forest.ids, hj])
    have har : Agree d d' r.ids := ha.mono (by intro j hj; simp [Forest.ids, hj])
    refine ⟨KeyOK_congr ha.null (fun k hk => ha.cell k (by simp [Forest.ids, hk])) h1, ha.null ▸ h2,
      isVar_congr hi ha.null h3, ?_, ?_⟩
    · rw [nextOf_of_cell hi ha.null]; exact ihr har h4
    · rw [get_of_cell hi]
      revert h5
      cases d.get (.slot i) <;> simp only [VOK, ValOK, ha.null] <;> intro h5
      all_goals first | exact h5 | exact ⟨ihs has h5.1, h5.2⟩

theorem VOK_congr {d d' : Doc} {v : VData} {s : Forest} (ha : Agree d d' s.ids) (h : VOK d v s) : VOK d' v s := by
  revert h
  cases v <;> simp only [VOK, ValOK, ha.null] <;> intro h
  all_goals first | exact h | exact ⟨Lk_congr s ha h.1, h.2⟩

theorem keyOfV_of_scalar {d d' : Doc} {v : VData} (h : d'.scalar v = d.scalar v) : keyOfV d' v = keyOfV d v := by
  cases v <;> first | rfl | (simp only [Doc.scalar, Val.str.injEq] at h; exact h)

theorem mkVal_congr {d d' : Doc} {v : VData} (h : d'.scalar v = d.scalar v) (sub) : mkVal d' v sub = mkVal d v sub := by
  cases v <;> first | rfl | exact h

theorem vals_congr' {d d' : Doc} (o : Nat → Option Val) (F : Forest) :
    (∀ j ∈ F.ids, d'.get (.slot j) = d.get (.slot j)) → SAgree d d' F.ids → vals d' o F = vals d o F := by
  induction F with
  | nil => intros; rfl
  | cons key i s r ihs ihr =>
    intro ha hs
    have hi : d'.get (.slot i) = d.get (.slot i) := ha i (by simp [Forest.ids])
    have hsub : ∀ j ∈ s.ids, j ∈ (Forest.cons key i s r).ids := by intro j hj; simp [Forest.ids, hj]
    have hrest : ∀ j ∈ r.ids, j ∈ (Forest.cons key i s r).ids := by intro j hj; simp [Forest.ids, hj]
    simp only [vals]
    rw [ihs (fun j hj => ha j (hsub j hj)) (hs.mono hsub), ihr (fun j hj => ha j (hrest j hj)) (hs.mono hrest), hi,
      mkVal_congr (hs i (by simp [Forest.ids]))]
    congr 2
    cases key with
    | none => rfl
    | some k =>
      have hk : d'.get (.slot k) = d.get (.slot k) := ha k (by simp [Forest.ids, Forest.keyL])
      simp only [keyB, hk]
      exact keyOfV_of_scalar (hs k (by simp [Forest.ids, Forest.keyL]))

theorem vals_congr {d d' : Doc} (o : Nat → Option Val) (F : Forest) (ha : Agree d d' F.ids) (hs : SAgree d d' F.ids) :
    vals d' o F = vals d o F :=
  vals_congr' o F (fun j hj => get_of_cell (ha.cell j hj)) hs

/-! ## The fuel never runs out on laid-out values -/

theorem chainF_null (d : Doc) (f : Nat) : d.chainF f d.null = [] := by
  cases f <;> simp [Doc.chainF]

theorem chainF_eq {d : Doc} (F : Forest) : ∀ {b : Bool} {h f : Nat}, Lk d b h F → F.top.length ≤ f → d.chainF f h = F.top := by
  induction F with
  | nil => intro b h f hl _; rw [Lk_nil] at hl; subst hl; exact chainF_null d f
  | cons key i s r _ ihr =>
    intro b h f hl hf
    rw [Lk_cons] at hl
    obtain ⟨h1, h2, _, h4, _⟩ := hl
    cases b <;> cases key <;> simp only [KeyOK] at h1
    · subst h1
      simp only [Forest.top, Forest.keyL, List.nil_append, List.length_cons] at hf ⊢
      obtain ⟨f', rfl⟩ : ∃ f', f = f' + 1 := ⟨f - 1, by omega⟩
      simp only [Doc.chainF, if_neg h2]
      rw [ihr h4 (by omega)]
    · rename_i k
      obtain ⟨rfl, hk, _, _, hki⟩ := h1
      simp only [Forest.top, Forest.keyL, List.cons_append, List.nil_append, List.length_cons] at hf ⊢
      obtain ⟨f', rfl⟩ : ∃ f', f = f' + 2 := ⟨f - 2, by omega⟩
      simp only [Doc.chainF, if_neg hk, hki, if_neg h2]
      rw [ihr h4 (by omega)]

theorem chain_eq {d : Doc} {F : Forest} {b : Bool} {h : Nat} (hl : Lk d b h F) (hf : F.ids.length ≤ d.fuel) :
    d.chain h = F.top :=
  chainF_eq F hl (Nat.le_trans F.top_length_le hf)

/-- what the fuelled `toValF` computes along a chain -/
def ChainSpec (d : Doc) (F : Forest) : Prop :=
  ∀ (f : Nat) (b : Bool) (h : Nat), Lk d b h F → F.depth ≤ f → F.ids.length ≤ d.fuel →
    (b = false → F.top.map (fun e => d.toValF f (d.get (.slot e))) = (vals d noOv F).map (·.2)) ∧
    (b = true → pairUp (fun k v => ((d.keyBytes k).getD [], d.toValF f (d.get (.slot v)))) F.top = vals d noOv F)

theorem toValF_node {d : Doc} {v : VData} {s : Forest} (hs : ChainSpec d s) (hv : VOK d v s) {f : Nat}
    (hd : s.depth < f) (hf : s.ids.length ≤ d.fuel) : d.toValF f v = d.valOf v s := by
  obtain ⟨f', rfl⟩ : ∃ f', f = f' + 1 := ⟨f - 1, by omega⟩
  cases v <;> try rfl
  · rename_i h t
    obtain ⟨hl, _⟩ := (VOK_arr d h t s).mp hv
    simp only [Doc.toValF, Doc.valOf, mkVal, chain_eq hl hf]
    rw [(hs f' false h hl (by omega) hf).1 rfl]
  · rename_i h t
    obtain ⟨hl, _⟩ := (VOK_obj d h t s).mp hv
    simp only [Doc.toValF, Doc.valOf, mkVal, chain_eq hl hf]
    rw [(hs f' true h hl (by omega) hf).2 rfl]

theorem chainSpec (d : Doc) (F : Forest) : ChainSpec d F := by
  induction F with
  | nil => intro f b h _ _ _; exact ⟨fun _ => rfl, fun _ => rfl⟩
  | cons key i s r ihs ihr =>
    intro f b h hl hd hf
    rw [Lk_cons] at hl
    obtain ⟨h1, h2, _, h4, h5⟩ := hl
    simp only [Forest.depth] at hd
    simp only [Forest.ids, List.length_append, List.length_cons] at hf
    have hnode : d.toValF f (d.get (.slot i)) = mkVal d (d.get (.slot i)) (vals d noOv s) :=
      toValF_node ihs h5 (by omega) (by omega)
    have hr := ihr f b (d.nextOf i) h4 (by omega) (by omega)
    cases b <;> cases key <;> simp only [KeyOK] at h1
    · refine ⟨fun _ => ?_, fun e => (by cases e)⟩
      simp only [Forest.top, Forest.keyL, List.nil_append, List.map_cons, vals, noOv, Option.getD_none]
      rw [hnode, hr.1 rfl]
    · rename_i k
      refine ⟨fun e => (by cases e), fun _ => ?_⟩
      simp only [Forest.top, Forest.keyL, List.cons_append, List.nil_append, pairUp, vals, noOv, Option.getD_none]
      rw [hnode, hr.2 rfl, keyBytes_getD]; rfl

/-- `toVal` of a laid-out value is the abstract value of the layout -/
theorem toVal_eq {d : Doc} {v : VData} {s : Forest} (hv : VOK d v s) (hf : s.ids.length < d.fuel) :
    d.toVal v = d.valOf v s :=
  toValF_node (chainSpec d s) hv (Nat.lt_of_le_of_lt s.depth_le hf) (Nat.le_of_lt hf)

/-! ## Well-formedness of a document -/

def extOfV : VData → List Nat | .i64 s => [s] | .u64 s => [s] | .f64 s => [s] | _ => []
def strOfV : VData → List Nat | .owned n => [n] | .raw n => [n] | _ => []
/-- the places that hold a value: the root and the slots of the layout -/
def holders (F : Forest) : List Loc := .root :: F.ids.map .slot
/-- string nodes referenced by the document (with multiplicity) -/
def Doc.strRefs (d : Doc) (F : Forest) : List Nat := (holders F).flatMap (fun l => strOfV (d.get l))

theorem mem_holders {F : Forest} {l : Loc} : l ∈ holders F ↔ l = .root ∨ ∃ j ∈ F.ids, l = .slot j := by
  simp only [holders, List.mem_cons, List.mem_map]
  constructor
  · rintro (h | ⟨j, hj, e⟩)
    · exact Or.inl h
    · exact Or.inr ⟨j, hj, e.symm⟩
  · rintro (h | ⟨j, hj, e⟩)
    · exact Or.inl h
    · exact Or.inr ⟨j, hj, e.symm⟩

/-- string table: node ids are distinct and below `nextNode`, every referenced node exists and its reference
    count is at least the number of references to it (so releasing one reference never frees a node that another
    value still uses) -/
structure StrOK (d : Doc) (rs : List Nat) : Prop where
  ids_nodup : (d.strings.map (·.id)).Nodup
  ids_lt : ∀ n ∈ d.strings, n.id < d.nextNode
  refs : ∀ n ∈ d.strings, rs.count n.id ≤ n.refs
  present : ∀ r ∈ rs, ∃ n ∈ d.strings, n.id = r

/-- extension slots: each one referenced by a value of the document holds a payload, is live in the pool (handed out, not on
    the free list), and is
    referenced by exactly one holder -/
def ExtOK (d : Doc) (F : Forest) : Prop :=
  ∀ l ∈ holders F, ∀ e ∈ extOfV (d.get l), (∃ p, d.cell e = .ext p) ∧ PL.live d.g d.pl e ∧
    ∀ l' ∈ holders F, e ∈ extOfV (d.get l') → l' = l

/-- `WFG d F`: the root value is laid out as the forest `F` (every chain is acyclic, ends in the null id, its tail is
    its last slot; object chains alternate string key slots and value slots; all slots are variant cells); no slot
    occurs twice in the pre-order walk (no sharing, no cycle); slots are proper ids and are live in the pool (handed
    out and not on the free list; the pool satisfies its own invariant `PL.Inv`); extension slots hold payloads, are not free and are referenced once. -/
structure WFG (d : Doc) (F : Forest) : Prop where
  root : VOK d d.root F
  nodup : F.ids.Nodup
  lt : ∀ i ∈ F.ids, i < d.null
  pool : PL.Inv d.g d.pl
  live : ∀ i ∈ F.ids, PL.live d.g d.pl i
  ext : ExtOK d F

/-- well-formed document: cells (`WFG`) and string table (`StrOK`) -/
def WF (d : Doc) : Prop := ∃ F, WFG d F ∧ StrOK d (d.strRefs F)

/-- the abstraction: the document as an ordered tree -/
def abs (d : Doc) : Val := d.toVal d.root

theorem length_le_of_nodup_lt {l : List Nat} {n : Nat} (hn : l.Nodup) (hl : ∀ x ∈ l, x < n) : l.length ≤ n := by
  have := List.Nodup.length_le_of_subset hn (l₂ := List.range n) (fun x hx => List.mem_range.2 (hl x hx))
  simpa using this

theorem WFG.fuel_ok {d : Doc} {F : Forest} (w : WFG d F) : F.ids.length < d.fuel := by
  have := length_le_of_nodup_lt w.nodup w.lt
  simp only [Doc.fuel, Doc.null] at *; omega

theorem abs_eq {d : Doc} {F : Forest} (w : WFG d F) : abs d = d.valOf d.root F :=
  toVal_eq w.root w.fuel_ok

/-! ## A mutation below one slot: the context lemma -/

namespace Forest
theorem subOf_ids_sub (F : Forest) (i : Nat) : ∀ x ∈ (F.subOf i).ids, x ∈ F.ids := by
  induction F with
  | nil => intro x h; cases h
  | cons k j s r ihs ihr =>
    intro x h
    simp only [subOf] at h
    simp only [ids, List.mem_append, List.mem_cons]
    split at h
    · exact Or.inr (Or.inr (Or.inl h))
    · split at h
      · exact Or.inr (Or.inr (Or.inl (ihs x h)))
      · exact Or.inr (Or.inr (Or.inr (ihr x h)))

theorem nodup_cons {key : Option Nat} {j : Nat} {s r : Forest} (h : (cons key j s r).ids.Nodup) :
    s.ids.Nodup ∧ r.ids.Nodup ∧ j ∉ s.ids ∧ j ∉ r.ids ∧ (∀ x ∈ s.ids, x ∉ r.ids) ∧
    (∀ k ∈ keyL key, k ≠ j ∧ k ∉ s.ids ∧ k ∉ r.ids) := by
  simp only [ids] at h
  obtain ⟨_, h2, h3⟩ := List.nodup_append.1 h
  obtain ⟨h4, h5⟩ := List.nodup_cons.1 h2
  obtain ⟨h6, h7, h8⟩ := List.nodup_append.1 h5
  refine ⟨h6, h7, fun m => h4 (List.mem_append_left _ m), fun m => h4 (List.mem_append_right _ m),
    fun x hx hx' => h8 x hx x hx' rfl, fun k hk => ⟨?_, ?_, ?_⟩⟩
  · exact h3 k hk j (by simp)
  · intro m; exact h3 k hk k (by simp [m]) rfl
  · intro m; exact h3 k hk k (by simp [m]) rfl
end Forest

theorem vals_ov_notin (d : Doc) (i : Nat) (x : Val) (F : Forest) (h : i ∉ F.locs) :
    vals d (ov1 i x) F = vals d noOv F := by
  induction F with
  | nil => rfl
  | cons k j s r ihs ihr =>
    simp only [Forest.locs, List.mem_cons, List.mem_append, not_or] at h
    simp only [vals, ihs h.2.1, ihr h.2.2, ov1, if_neg (Ne.symm h.1), noOv]

/-- agreement of `d'` with `d` on slot `j`: same cell, and the scalar stored there reads the same -/
def Good (d d' : Doc) (j : Nat) : Prop :=
  d'.cell j = d.cell j ∧ d'.scalar (d.get (.slot j)) = d.scalar (d.get (.slot j))

theorem agree_of_good {d d' : Doc} (hn : d'.null = d.null) {js : List Nat} (h : ∀ j ∈ js, Good d d' j) :
    Agree d d' js ∧ SAgree d d' js :=
  ⟨⟨hn, fun j hj => (h j hj).1⟩, fun j hj => (h j hj).2⟩

theorem keyB_good {d d' : Doc} {key : Option Nat} (h : ∀ k ∈ Forest.keyL key, Good d d' k) : keyB d' key = keyB d key := by
  cases key with
  | none => rfl
  | some k =>
    have hk := h k (by simp [Forest.keyL])
    simp only [keyB, get_of_cell hk.1]
    exact keyOfV_of_scalar hk.2

theorem VOK_coll_of_ne_nil {d : Doc} {v : VData} {s : Forest} (h : VOK d v s) (hne : s ≠ .nil) :
    ∃ b hd, Lk d b hd s ∧ isColl v := by
  cases v
  case arr hd t => exact ⟨false, hd, h.1, trivial⟩
  case obj hd t => exact ⟨true, hd, h.1, trivial⟩
  all_goals exact absurd h hne

theorem VOK_replace {d d' : Doc} {v : VData} {s s2 : Forest} (hn : d'.null = d.null) (h : VOK d v s) (hc : isColl v)
    (htop : s2.top = s.top) (hl : ∀ b hd, Lk d b hd s → Lk d' b hd s2) : VOK d' v s2 := by
  cases v
  case arr hd t => exact ⟨hl _ _ h.1, by rw [htop, hn]; exact h.2⟩
  case obj hd t => exact ⟨hl _ _ h.1, by rw [htop, hn]; exact h.2⟩
  all_goals exact absurd hc (by simp [isColl])

theorem mkVal_coll {d d' : Doc} {v : VData} (hc : isColl v) (sub) : mkVal d' v sub = mkVal d v sub := by
  cases v <;> first | rfl | exact absurd hc (by simp [isColl])

/-- Context lemma. `d` lays out the chain from `h` as `F`; `d'` differs from `d` only in slot `i` (a value slot of `F`)
    and below it (and possibly in slots outside `F`), where it now holds `v'` laid out as `s'`, with the same `next`
    link. Then `d'` lays out the chain as `F` with the layout below `i` replaced, and the abstract members are those
    of `d` with the value of slot `i` overridden by the new value: nothing else changed. -/
theorem ctx {d d' : Doc} {i : Nat} {v' : VData} {s' : Forest}
    (hn : d'.null = d.null) (hi : d'.cell i = .var v' (d.nextOf i)) (hv' : VOK d' v' s') :
    ∀ (F : Forest) {b : Bool} {h : Nat}, Lk d b h F → F.ids.Nodup → i ∈ F.locs →
      (∀ j ∈ F.ids, j ≠ i → j ∉ (F.subOf i).ids → Good d d' j) →
      Lk d' b h (F.replaceSub i s') ∧ vals d' noOv (F.replaceSub i s') = vals d (ov1 i (d'.valOf v' s')) F := by
  intro F
  induction F with
  | nil => intro b h _ _ hi; cases hi
  | cons key j s r ihs ihr =>
    intro b h hl hnd hmem hout
    rw [Lk_cons] at hl
    obtain ⟨h1, h2, h3, h4, h5⟩ := hl
    obtain ⟨nds, ndr, njs, njr, nsr, nk⟩ := Forest.nodup_cons hnd
    by_cases hji : j = i
    · -- the target node
      subst hji
      have hsub : (Forest.cons key j s r).subOf j = s := by simp only [Forest.subOf, if_true]
      rw [hsub] at hout
      have gk : ∀ k ∈ Forest.keyL key, Good d d' k := fun k hk =>
        hout k (by simp [Forest.ids, hk]) (nk k hk).1 (nk k hk).2.1
      have gr : ∀ x ∈ r.ids, Good d d' x := fun x hx =>
        hout x (by simp [Forest.ids, hx]) (fun e => njr (e ▸ hx)) (fun m => nsr x m hx)
      obtain ⟨ar, sr⟩ := agree_of_good hn gr
      simp only [Forest.replaceSub, if_true]
      constructor
      · rw [Lk_cons]
        refine ⟨KeyOK_congr hn (fun k hk => (gk k hk).1) h1, hn ▸ h2, isVar_of_var hi, ?_, ?_⟩
        · rw [nextOf_of_var hi]; exact Lk_congr r ar h4
        · rw [get_of_var hi]; exact hv'
      · simp only [vals, noOv, ov1, if_true, Option.getD_none, Option.getD_some, get_of_var hi]
        rw [vals_congr _ r ar sr, keyB_good gk, vals_ov_notin d j _ r (fun m => njr (r.locs_sub_ids j m))]
        rfl
    · have hjc : Good d d' j := by
        refine hout j (by simp [Forest.ids]) hji ?_
        intro m
        have := Forest.subOf_ids_sub _ _ _ m
        simp only [Forest.subOf, if_neg hji] at m
        split at m
        · exact njs (s.subOf_ids_sub i j m)
        · exact njr (r.subOf_ids_sub i j m)
      have gk : ∀ k ∈ Forest.keyL key, Good d d' k := by
        intro k hk
        refine hout k (by simp [Forest.ids, hk]) ?_ ?_
        · intro e; subst e
          simp only [Forest.locs, List.mem_cons, List.mem_append] at hmem
          rcases hmem with e | m | m
          · exact hji e.symm
          · exact (nk k hk).2.1 (s.locs_sub_ids k m)
          · exact (nk k hk).2.2 (r.locs_sub_ids k m)
        · intro m
          simp only [Forest.subOf, if_neg hji] at m
          split at m
          · exact (nk k hk).2.1 (s.subOf_ids_sub i k m)
          · exact (nk k hk).2.2 (r.subOf_ids_sub i k m)
      simp only [Forest.replaceSub, if_neg hji]
      simp only [Forest.locs, List.mem_cons, List.mem_append] at hmem
      have hmem' : i ∈ s.locs ∨ i ∈ r.locs := by
        rcases hmem with e | m | m
        · exact absurd e.symm hji
        · exact Or.inl m
        · exact Or.inr m
      by_cases his : i ∈ s.locs
      · -- target below this node
        have hir : i ∉ r.locs := fun m => nsr i (s.locs_sub_ids i his) (r.locs_sub_ids i m)
        have hsub : (Forest.cons key j s r).subOf i = s.subOf i := by simp only [Forest.subOf, if_neg hji, if_pos his]
        rw [hsub] at hout
        have gr : ∀ x ∈ r.ids, Good d d' x := fun x hx =>
          hout x (by simp [Forest.ids, hx]) (fun e => nsr i (s.locs_sub_ids i his) (e ▸ hx))
            (fun m => nsr x (s.subOf_ids_sub i x m) hx)
        obtain ⟨ar, sr⟩ := agree_of_good hn gr
        have hne : s ≠ .nil := by intro e; subst e; cases his
        obtain ⟨bb, hd, hls, hcoll⟩ := VOK_coll_of_ne_nil h5 hne
        have houts : ∀ x ∈ s.ids, x ≠ i → x ∉ (s.subOf i).ids → Good d d' x := fun x hx =>
          hout x (by simp [Forest.ids, hx])
        rw [Forest.replaceSub_of_notin i s' r hir]
        constructor
        · rw [Lk_cons]
          refine ⟨KeyOK_congr hn (fun k hk => (gk k hk).1) h1, hn ▸ h2, isVar_congr hjc.1 hn h3, ?_, ?_⟩
          · rw [nextOf_of_cell hjc.1 hn]; exact Lk_congr r ar h4
          · rw [get_of_cell hjc.1]
            exact VOK_replace hn h5 hcoll (Forest.top_replaceSub i s' s)
              (fun b' hd' hl' => (ihs hl' nds his houts).1)
        · simp only [vals, noOv, ov1, if_neg hji, Option.getD_none, get_of_cell hjc.1]
          rw [vals_congr _ r ar sr, keyB_good gk, vals_ov_notin d i _ r hir, mkVal_coll hcoll,
            (ihs hls nds his houts).2]
      · -- target in the rest of the chain
        have hir : i ∈ r.locs := hmem'.resolve_left his
        have hsub : (Forest.cons key j s r).subOf i = r.subOf i := by simp only [Forest.subOf, if_neg hji, if_neg his]
        rw [hsub] at hout
        have gs : ∀ x ∈ s.ids, Good d d' x := fun x hx =>
          hout x (by simp [Forest.ids, hx]) (fun e => nsr x hx (e ▸ r.locs_sub_ids i hir))
            (fun m => nsr x hx (r.subOf_ids_sub i x m))
        obtain ⟨as, ss⟩ := agree_of_good hn gs
        have houtr : ∀ x ∈ r.ids, x ≠ i → x ∉ (r.subOf i).ids → Good d d' x := fun x hx =>
          hout x (by simp [Forest.ids, hx])
        rw [Forest.replaceSub_of_notin i s' s his]
        have ih := ihr h4 ndr hir houtr
        constructor
        · rw [Lk_cons]
          refine ⟨KeyOK_congr hn (fun k hk => (gk k hk).1) h1, hn ▸ h2, isVar_congr hjc.1 hn h3, ?_, ?_⟩
          · rw [nextOf_of_cell hjc.1 hn]; exact ih.1
          · rw [get_of_cell hjc.1]; exact VOK_congr as h5
        · simp only [vals, noOv, ov1, if_neg hji, Option.getD_none, get_of_cell hjc.1]
          rw [vals_congr _ s as ss, keyB_good gk, vals_ov_notin d i _ s his, mkVal_congr hjc.2, ← ih.2]


/-! ## Replacing a sub-layout: slot sets -/
namespace Forest

theorem subOf_of_notin (F : Forest) (i : Nat) (h : i ∉ F.locs) : F.subOf i = .nil := by
  induction F with
  | nil => rfl
  | cons k j s r ihs ihr =>
    simp only [locs, List.mem_cons, List.mem_append, not_or] at h
    simp only [subOf, if_neg (Ne.symm h.1), if_neg h.2.1, ihr h.2.2]

theorem self_notin_subOf (F : Forest) (i : Nat) (hnd : F.ids.Nodup) : i ∉ (F.subOf i).ids := by
  induction F with
  | nil => intro h; cases h
  | cons k j s r ihs ihr =>
    obtain ⟨nds, ndr, njs, njr, nsr, nk⟩ := nodup_cons hnd
    simp only [subOf]
    split
    · rename_i e; subst e; exact njs
    · split
      · exact ihs nds
      · exact ihr ndr

theorem mem_ids_replaceSub (F : Forest) (i : Nat) (s' : Forest) (hnd : F.ids.Nodup) (hi : i ∈ F.locs) (x : Nat) :
    x ∈ (F.replaceSub i s').ids ↔ (x ∈ F.ids ∧ x ∉ (F.subOf i).ids) ∨ x ∈ s'.ids := by
  induction F with
  | nil => cases hi
  | cons k j s r ihs ihr =>
    obtain ⟨nds, ndr, njs, njr, nsr, nk⟩ := nodup_cons hnd
    by_cases hji : j = i
    · subst hji
      simp only [replaceSub, subOf, if_true, ids, List.mem_append, List.mem_cons]
      constructor
      · rintro (h | h | h | h)
        · exact Or.inl ⟨Or.inl h, (nk x h).2.1⟩
        · exact Or.inl ⟨Or.inr (Or.inl h), h ▸ njs⟩
        · exact Or.inr h
        · exact Or.inl ⟨Or.inr (Or.inr (Or.inr h)), fun m => nsr x m h⟩
      · rintro (⟨h | h | h | h, hn⟩ | h)
        · exact Or.inl h
        · exact Or.inr (Or.inl h)
        · exact absurd h hn
        · exact Or.inr (Or.inr (Or.inr h))
        · exact Or.inr (Or.inr (Or.inl h))
    · simp only [locs, List.mem_cons, List.mem_append] at hi
      by_cases his : i ∈ s.locs
      · have hir : i ∉ r.locs := fun m => nsr i (s.locs_sub_ids i his) (r.locs_sub_ids i m)
        simp only [replaceSub, subOf, if_neg hji, if_pos his, ids, List.mem_append, List.mem_cons,
          replaceSub_of_notin i s' r hir, ihs nds his]
        constructor
        · rintro (h | h | (⟨h, hn⟩ | h) | h)
          · exact Or.inl ⟨Or.inl h, fun m => (nk x h).2.1 (s.subOf_ids_sub i x m)⟩
          · exact Or.inl ⟨Or.inr (Or.inl h), fun m => njs (h ▸ s.subOf_ids_sub i x m)⟩
          · exact Or.inl ⟨Or.inr (Or.inr (Or.inl h)), hn⟩
          · exact Or.inr h
          · exact Or.inl ⟨Or.inr (Or.inr (Or.inr h)), fun m => nsr x (s.subOf_ids_sub i x m) h⟩
        · rintro (⟨h | h | h | h, hn⟩ | h)
          · exact Or.inl h
          · exact Or.inr (Or.inl h)
          · exact Or.inr (Or.inr (Or.inl (Or.inl ⟨h, hn⟩)))
          · exact Or.inr (Or.inr (Or.inr h))
          · exact Or.inr (Or.inr (Or.inl (Or.inr h)))
      · have hir : i ∈ r.locs := by
          rcases hi with e | m | m
          · exact absurd e.symm hji
          · exact absurd m his
          · exact m
        simp only [replaceSub, subOf, if_neg hji, if_neg his, ids, List.mem_append, List.mem_cons,
          replaceSub_of_notin i s' s his, ihr ndr hir]
        constructor
        · rintro (h | h | h | (⟨h, hn⟩ | h))
          · exact Or.inl ⟨Or.inl h, fun m => (nk x h).2.2 (r.subOf_ids_sub i x m)⟩
          · exact Or.inl ⟨Or.inr (Or.inl h), fun m => njr (h ▸ r.subOf_ids_sub i x m)⟩
          · exact Or.inl ⟨Or.inr (Or.inr (Or.inl h)), fun m => nsr x h (r.subOf_ids_sub i x m)⟩
          · exact Or.inl ⟨Or.inr (Or.inr (Or.inr h)), hn⟩
          · exact Or.inr h
        · rintro (⟨h | h | h | h, hn⟩ | h)
          · exact Or.inl h
          · exact Or.inr (Or.inl h)
          · exact Or.inr (Or.inr (Or.inl h))
          · exact Or.inr (Or.inr (Or.inr (Or.inl ⟨h, hn⟩)))
          · exact Or.inr (Or.inr (Or.inr (Or.inr h)))
end Forest
namespace Forest
theorem keyL_nodup (k : Option Nat) : (keyL k).Nodup := by cases k <;> simp [keyL]

theorem nodup_node {k : Option Nat} {j : Nat} {A B : List Nat} (hA : A.Nodup) (hB : B.Nodup) (hjA : j ∉ A) (hjB : j ∉ B)
    (hAB : ∀ x ∈ A, x ∉ B) (hk : ∀ q ∈ keyL k, q ≠ j ∧ q ∉ A ∧ q ∉ B) : (keyL k ++ j :: (A ++ B)).Nodup := by
  refine List.nodup_append.2 ⟨keyL_nodup k, List.nodup_cons.2 ⟨?_, List.nodup_append.2 ⟨hA, hB, ?_⟩⟩, ?_⟩
  · intro m; rcases List.mem_append.1 m with m | m
    · exact hjA m
    · exact hjB m
  · intro a ha b hb e; subst e; exact hAB a ha hb
  · intro a ha b hb e; subst e
    rcases List.mem_cons.1 hb with e | m
    · exact (hk a ha).1 e
    · rcases List.mem_append.1 m with m | m
      · exact (hk a ha).2.1 m
      · exact (hk a ha).2.2 m

theorem nodup_replaceSub (F : Forest) (i : Nat) (s' : Forest) (hnd : F.ids.Nodup) (hi : i ∈ F.locs)
    (hs' : s'.ids.Nodup) (hfresh : ∀ x ∈ s'.ids, x ∈ F.ids → x ∈ (F.subOf i).ids) :
    (F.replaceSub i s').ids.Nodup := by
  induction F with
  | nil => cases hi
  | cons k j s r ihs ihr =>
    obtain ⟨nds, ndr, njs, njr, nsr, nk⟩ := nodup_cons hnd
    by_cases hji : j = i
    · subst hji
      simp only [subOf, if_true] at hfresh
      simp only [replaceSub, if_true, ids]
      refine nodup_node hs' ndr ?_ njr ?_ ?_
      · intro m; exact njs (hfresh j m (by simp [ids]))
      · intro x hx hxr; exact nsr x (hfresh x hx (by simp [ids, hxr])) hxr
      · intro q hq
        exact ⟨(nk q hq).1, fun m => (nk q hq).2.1 (hfresh q m (by simp [ids, hq])), (nk q hq).2.2⟩
    · simp only [locs, List.mem_cons, List.mem_append] at hi
      by_cases his : i ∈ s.locs
      · have hir : i ∉ r.locs := fun m => nsr i (s.locs_sub_ids i his) (r.locs_sub_ids i m)
        simp only [subOf, if_neg hji, if_pos his] at hfresh
        have hf' : ∀ x ∈ s'.ids, x ∈ s.ids → x ∈ (s.subOf i).ids := fun x hx hxs => hfresh x hx (by simp [ids, hxs])
        simp only [replaceSub, if_neg hji, ids, replaceSub_of_notin i s' r hir]
        have hm := mem_ids_replaceSub s i s' nds his
        refine nodup_node (ihs nds his hf') ndr ?_ njr ?_ ?_
        · intro m; rcases (hm j).1 m with ⟨m, _⟩ | m
          · exact njs m
          · exact njs (s.subOf_ids_sub i j (hfresh j m (by simp [ids])))
        · intro x hx hxr; rcases (hm x).1 hx with ⟨m, _⟩ | m
          · exact nsr x m hxr
          · exact nsr x (s.subOf_ids_sub i x (hfresh x m (by simp [ids, hxr]))) hxr
        · intro q hq
          refine ⟨(nk q hq).1, fun m => ?_, (nk q hq).2.2⟩
          rcases (hm q).1 m with ⟨m, _⟩ | m
          · exact (nk q hq).2.1 m
          · exact (nk q hq).2.1 (s.subOf_ids_sub i q (hfresh q m (by simp [ids, hq])))
      · have hir : i ∈ r.locs := by
          rcases hi with e | m | m
          · exact absurd e.symm hji
          · exact absurd m his
          · exact m
        simp only [subOf, if_neg hji, if_neg his] at hfresh
        have hf' : ∀ x ∈ s'.ids, x ∈ r.ids → x ∈ (r.subOf i).ids := fun x hx hxs => hfresh x hx (by simp [ids, hxs])
        simp only [replaceSub, if_neg hji, ids, replaceSub_of_notin i s' s his]
        have hm := mem_ids_replaceSub r i s' ndr hir
        refine nodup_node nds (ihr ndr hir hf') njs ?_ ?_ ?_
        · intro m; rcases (hm j).1 m with ⟨m, _⟩ | m
          · exact njr m
          · exact njr (r.subOf_ids_sub i j (hfresh j m (by simp [ids])))
        · intro x hx hxr; rcases (hm x).1 hxr with ⟨m, _⟩ | m
          · exact nsr x hx m
          · exact nsr x hx (r.subOf_ids_sub i x (hfresh x m (by simp [ids, hx])))
        · intro q hq
          refine ⟨(nk q hq).1, (nk q hq).2.1, fun m => ?_⟩
          rcases (hm q).1 m with ⟨m, _⟩ | m
          · exact (nk q hq).2.2 m
          · exact (nk q hq).2.2 (r.subOf_ids_sub i q (hfresh q m (by simp [ids, hq])))

theorem Lk_subOf {d : Doc} (F : Forest) {i : Nat} : ∀ {b : Bool} {h : Nat}, Lk d b h F → F.ids.Nodup → i ∈ F.locs →
    d.isVar i ∧ i ≠ d.null ∧ VOK d (d.get (.slot i)) (F.subOf i) := by
  induction F with
  | nil => intro b h _ _ hi; cases hi
  | cons k j s r ihs ihr =>
    intro b h hl hnd hi
    rw [Lk_cons] at hl
    obtain ⟨h1, h2, h3, h4, h5⟩ := hl
    obtain ⟨nds, ndr, njs, njr, nsr, nk⟩ := nodup_cons hnd
    by_cases hji : j = i
    · subst hji; simp only [subOf, if_true]; exact ⟨h3, h2, h5⟩
    · simp only [locs, List.mem_cons, List.mem_append] at hi
      by_cases his : i ∈ s.locs
      · simp only [subOf, if_neg hji, if_pos his]
        have hne : s ≠ .nil := by intro e; subst e; cases his
        obtain ⟨bb, hd, hls, _⟩ := VOK_coll_of_ne_nil h5 hne
        exact ihs hls nds his
      · have hir : i ∈ r.locs := by
          rcases hi with e | m | m
          · exact absurd e.symm hji
          · exact absurd m his
          · exact m
        simp only [subOf, if_neg hji, if_neg his]
        exact ihr h4 ndr hir
end Forest

end DL
