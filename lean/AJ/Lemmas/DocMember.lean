/- `addMember` / `getOrAddMember` (key absent): two slot allocations, the key stored in the key slot (linked, or copied
   into the string table), then `appendPair`. Also the string-table half of `appendPair` and the conversion of a null
   location into an empty collection. Used by AJ/Props/C04Rem.lean. -/
import AJ.Lemmas.DocRemove
import AJ.Props.C05Doc
namespace DL
open JD (Byte Val)

/-! ## `appendPair`: cells, string table -/

/-- cells of the document after `appendPair` (restated from the proof of `appendPair_spec`, with `nextNode`) -/
theorem appendPair_cells {d : Doc} {l : Loc} {h t k v nk : Nat} {kv : VData} (hv : d.get l = .obj h t)
    (hk : d.cell k = .var kv nk) (hkl : Loc.slot k ≠ l) (htl : Loc.slot t ≠ l) (hkt : t ≠ d.null → k ≠ t)
    (htvar : t ≠ d.null → d.isVar t) :
    (d.appendPair l k v).null = d.null ∧ (d.appendPair l k v).strings = d.strings ∧
    (d.appendPair l k v).nextNode = d.nextNode ∧ (d.appendPair l k v).pl = d.pl ∧ (d.appendPair l k v).g = d.g ∧
    (d.appendPair l k v).get l = .obj (if t ≠ d.null then h else k) v ∧
    (d.appendPair l k v).cell k = .var kv v ∧
    (∀ j, Loc.slot j ≠ l → j ≠ k → (t ≠ d.null → j ≠ t) → (d.appendPair l k v).cell j = d.cell j) ∧
    (t ≠ d.null → (d.appendPair l k v).cell t = .var (d.get (.slot t)) k) ∧
    (l ≠ .root → (d.appendPair l k v).root = d.root) := by
  have hd' : d.appendPair l k v = _ := appendPair_get (v := v) hv hkl
  have hk0 : (d.setNext k v).cell k = .var kv v := cell_setNext_var hk v
  have ho0 : ∀ j, j ≠ k → (d.setNext k v).cell j = d.cell j := fun j hj => cell_setNext_ne d v (Ne.symm hj)
  by_cases htn : t = d.null
  · simp only [htn, ne_eq, not_true_eq_false, if_false] at hd' ⊢
    rw [hd']
    refine ⟨by rw [set_null, setNext_null], by rw [set_strings, setNext_strings],
      by rw [set_nextNode, setNext_nextNode], by rw [set_pl, setNext_pl],
      by rw [set_g, setNext_g], get_set_self _ _ _, by rw [cell_set_ne hkl]; exact hk0, ?_, fun h => h.elim, ?_⟩
    · intro j hj hjk _; rw [cell_set_ne hj]; exact ho0 j hjk
    · intro hl'; cases l with
      | root => exact absurd rfl hl'
      | slot i => exact setNext_root d k v
  · simp only [ne_eq, htn, not_false_eq_true, if_true] at hd' ⊢
    rw [hd']
    have htk : t ≠ k := Ne.symm (hkt htn)
    have hvar0 : (d.setNext k v).cell t = .var (d.get (.slot t)) (d.nextOf t) := by
      rw [ho0 t htk]; exact htvar htn
    refine ⟨by rw [set_null, setNext_null, setNext_null], by rw [set_strings, setNext_strings, setNext_strings],
      by rw [set_nextNode, setNext_nextNode, setNext_nextNode],
      by rw [set_pl, setNext_pl, setNext_pl], by rw [set_g, setNext_g, setNext_g], get_set_self _ _ _,
      ?_, ?_, ?_, ?_⟩
    · rw [cell_set_ne hkl, cell_setNext_ne _ k htk]; exact hk0
    · intro j hj hjk hjt
      rw [cell_set_ne hj, cell_setNext_ne _ k (Ne.symm (hjt trivial))]; exact ho0 j hjk
    · intro _
      rw [cell_set_ne htl]; exact cell_setNext_var hvar0 k
    · intro hl'; cases l with
      | root => exact absurd rfl hl'
      | slot i => rw [root_set_slot, setNext_root, setNext_root]

/-- string-table half of `appendPair_spec`: the key slot accounts for the reference of its (copied) key -/
theorem appendPair_strOK {d : Doc} {F : Forest} {l : Loc} {h t k v nk : Nat} {kv : VData} (w : WFG d F)
    (hs : StrOK d (strOfV kv ++ d.strRefs F)) (hl : isLoc F l)
    (hv : d.get l = .obj h t) (hk : d.cell k = .var kv nk) (hkey : isKey kv) (hvc : d.cell v = .var .null d.null)
    (hkv : k ≠ v) (hkF : k ∉ F.ids) (hvF : v ∉ F.ids) (hklt : k < d.null) (hvlt : v < d.null)
    (hklive : PL.live d.g d.pl k) (hvlive : PL.live d.g d.pl v) :
    StrOK (d.appendPair l k v)
      ((d.appendPair l k v).strRefs (replaceAt F l ((layoutAt F l).snoc (some k) v))) := by
  have w' := (appendPair_spec w hl hv hk hkey hvc hkv hkF hvF hklt hvlt hklive hvlive).1
  have hvs : VOK d (.obj h t) (layoutAt F l) := hv ▸ VOK_at w hl
  obtain ⟨hlk, ht⟩ := (VOK_obj _ _ _ _).1 hvs
  obtain ⟨htf, htl⟩ := tail_facts w hl hlk ht
  have hsF := layoutAt_ids_sub F l
  have hkl : Loc.slot k ≠ l := fun e => hkF (isLoc_ids (e ▸ hl))
  have hvl : Loc.slot v ≠ l := fun e => hvF (isLoc_ids (e ▸ hl))
  have hkt : t ≠ d.null → k ≠ t := fun htn e => hkF (e ▸ (htf htn).2.2.1)
  have hvt : t ≠ d.null → v ≠ t := fun htn e => hvF (e ▸ (htf htn).2.2.1)
  obtain ⟨hn, hstr, hnn, hpl, hg, hget, hck, hco, hct, hroot⟩ :=
    appendPair_cells (v := v) hv hk hkl htl hkt (fun htn => (htf htn).2.2.2)
  generalize d.appendPair l k v = d' at *
  have hperm : List.Perm (replaceAt F l ((layoutAt F l).snoc (some k) v)).ids (k :: v :: F.ids) := by
    refine (List.perm_ext_iff_of_nodup w'.nodup
      (List.nodup_cons.2 ⟨by simp [hkv, hkF], List.nodup_cons.2 ⟨hvF, w.nodup⟩⟩)).2 ?_
    intro x
    rw [mem_ids_replaceAt _ w.nodup hl, Forest.ids_snoc]
    simp only [Forest.keyL, List.cons_append, List.nil_append, List.mem_append, List.mem_cons, List.not_mem_nil, or_false]
    constructor
    · rintro (⟨h1, _⟩ | h1 | h1 | h1)
      · exact Or.inr (Or.inr h1)
      · exact Or.inr (Or.inr (hsF x h1))
      · exact Or.inl h1
      · exact Or.inr (Or.inl h1)
    · rintro (h1 | h1 | h1)
      · exact Or.inr (Or.inr (Or.inl h1))
      · exact Or.inr (Or.inr (Or.inr h1))
      · by_cases hx : x ∈ (layoutAt F l).ids
        · exact Or.inr (Or.inl hx)
        · exact Or.inl ⟨h1, hx⟩
  have hholders : List.Perm (holders (replaceAt F l ((layoutAt F l).snoc (some k) v)))
      (Loc.slot k :: Loc.slot v :: holders F) := by
    have h1 : List.Perm (holders (replaceAt F l ((layoutAt F l).snoc (some k) v)))
        (Loc.root :: Loc.slot k :: Loc.slot v :: F.ids.map Loc.slot) :=
      List.Perm.cons _ (by simpa using hperm.map Loc.slot)
    exact h1.trans ((List.Perm.swap _ _ _).trans ((List.Perm.swap _ _ _).cons _))
  have hgk : d'.get (.slot k) = kv := get_of_var hck
  have hgv : d'.get (.slot v) = .null := by
    refine get_of_var (v := .null) (n := d.null) ?_
    rw [hco v hvl (Ne.symm hkv) hvt, hvc]
  have hgets : ∀ l0 ∈ holders F, strOfV (d'.get l0) = strOfV (d.get l0) := by
    intro l0 h0
    by_cases hl0 : l0 = l
    · subst hl0; rw [hget, hv]; rfl
    · rcases mem_holders.1 h0 with e | ⟨x, hx, e⟩
      · subst e; show strOfV d'.root = strOfV d.root; rw [hroot (Ne.symm hl0)]
      · subst e
        by_cases hxt : t ≠ d.null ∧ x = t
        · obtain ⟨htn, rfl⟩ := hxt
          rw [get_of_var (hct htn)]
        · rw [get_of_cell (hco x hl0 (fun e => hkF (e ▸ hx)) (fun htn e => hxt ⟨htn, e⟩))]
  refine StrOK_congr hstr hnn ?_
  have hp := hholders.flatMap_right (fun l0 => strOfV (d'.get l0))
  have : (Loc.slot k :: Loc.slot v :: holders F).flatMap (fun l0 => strOfV (d'.get l0)) = strOfV kv ++ d.strRefs F := by
    rw [List.flatMap_cons, List.flatMap_cons, hgk, hgv]
    show strOfV kv ++ ([] ++ _) = _
    rw [List.nil_append]
    congr 1
    exact flatMap_congr' _ hgets
  rw [this] at hp
  exact StrOK_perm hp.symm hs

/-! ## Observations through a frame -/

/-- under the hypotheses of `wfg_frame`, every location of the layout designates the same value, and `absWith` reads the
    same (generalises `grow_obs`) -/
theorem frame_obs {d d' : Doc} {F : Forest} (w : WFG d F)
    (hg : d'.g = d.g) (hroot : d'.root = d.root)
    (hcells : ∀ x ∈ F.ids, d'.cell x = d.cell x)
    (hext : ∀ l0 ∈ holders F, ∀ e ∈ extOfV (d.get l0), d'.cell e = d.cell e ∧ PL.live d'.g d'.pl e)
    (hpool : PL.Inv d'.g d'.pl) (hlive : ∀ x ∈ F.ids, PL.live d'.g d'.pl x)
    (hstr : StrOK d' (d.strRefs F)) (hbytes : ∀ n ∈ d.strRefs F, d'.strBytes n = d.strBytes n) {l : Loc}
    (hl : isLoc F l) :
    d'.get l = d.get l ∧ d'.toVal (d'.get l) = d.toVal (d.get l) ∧ ∀ x, absWith d' F l x = absWith d F l x := by
  obtain ⟨w', _, _⟩ := wfg_frame w hg hroot hcells hext hpool hlive hstr hbytes
  have hn : d'.null = d.null := by simp only [Doc.null, hg]
  have ag : Agree d d' F.ids := ⟨hn, hcells⟩
  have hget : ∀ l0 ∈ holders F, d'.get l0 = d.get l0 := by
    intro l0 h0
    rcases mem_holders.1 h0 with e | ⟨x, hx, e⟩
    · subst e; exact hroot
    · subst e; exact get_of_cell (ag.cell x hx)
  have hsc : ∀ l0 ∈ holders F, d'.scalar (d.get l0) = d.scalar (d.get l0) := by
    intro l0 h0
    refine scalar_congr (fun n hn' => hbytes n ?_) (fun e he => (hext l0 h0 e he).1)
    simp only [Doc.strRefs, List.mem_flatMap]; exact ⟨l0, h0, hn'⟩
  have sa : SAgree d d' F.ids := fun j hj => hsc (.slot j) (mem_holders.2 (Or.inr ⟨j, hj, rfl⟩))
  have hgl := hget l (loc_mem_holders hl)
  refine ⟨hgl, ?_, ?_⟩
  · rw [toVal_at w' hl, toVal_at w hl, hgl]
    simp only [Doc.valOf]
    have hsub := layoutAt_ids_sub F l
    rw [vals_congr noOv _ (ag.mono hsub) (sa.mono hsub)]
    exact mkVal_congr (hsc l (loc_mem_holders hl)) _
  · intro x
    cases l with
    | root => rfl
    | slot i =>
      simp only [absWith]
      rw [vals_congr _ F ag sa, hroot]
      exact mkVal_congr (hsc .root (mem_holders.2 (Or.inl rfl))) _

/-! ## `addMember` -/

/-- last step of `addMember`: `dS` is `d2` (two fresh slots `k`, `v` allocated) in which the key was stored in slot `k`
    (possibly after a string node was acquired); then `appendPair` -/
theorem addMember_tail {d2 dS : Doc} {F : Forest} {l : Loc} {h t k v nk : Nat} {kv : VData} {key : List Byte}
    (w2 : WFG d2 F) (hl : isLoc F l) (hv2 : d2.get l = .obj h t)
    (hg : dS.g = d2.g) (hroot : dS.root = d2.root) (hcells : ∀ x, x ≠ k → dS.cell x = d2.cell x)
    (hpools : dS.pl.pools = d2.pl.pools) (hfree : dS.pl.free = d2.pl.free) (hcap : dS.pl.tableCap = d2.pl.tableCap)
    (hheap : dS.pl.tableHeap = d2.pl.tableHeap)
    (hstr : StrOK dS (strOfV kv ++ d2.strRefs F)) (hbytes : ∀ n ∈ d2.strRefs F, dS.strBytes n = d2.strBytes n)
    (hk : dS.cell k = .var kv nk) (hkey : isKey kv) (hkb : keyOfV dS kv = key)
    (hk2c : d2.cell k = .var .null d2.null) (hvc : d2.cell v = .var .null d2.null) (hkv : k ≠ v)
    (hkF : k ∉ F.ids) (hvF : v ∉ F.ids) (hklt : k < d2.null) (hvlt : v < d2.null)
    (hklive : PL.live d2.g d2.pl k) (hvlive : PL.live d2.g d2.pl v) :
    WFG (dS.appendPair l k v) (replaceAt F l ((layoutAt F l).snoc (some k) v)) ∧
    StrOK (dS.appendPair l k v) ((dS.appendPair l k v).strRefs (replaceAt F l ((layoutAt F l).snoc (some k) v))) ∧
    (∃ ms, d2.toVal (d2.get l) = .obj ms ∧ abs (dS.appendPair l k v) = absWith d2 F l (.obj (ms ++ [(key, .null)]))) ∧
    (dS.appendPair l k v).g = d2.g ∧ (dS.appendPair l k v).get (.slot v) = .null ∧
    (∀ x, PL.live (dS.appendPair l k v).g (dS.appendPair l k v).pl x ↔ PL.live d2.g d2.pl x) := by
  have hn : dS.null = d2.null := by simp only [Doc.null, hg]
  have hlv : ∀ x, PL.live dS.g dS.pl x ↔ PL.live d2.g d2.pl x := fun x => by rw [hg]; exact live_congr hpools hfree x
  have hkne : ∀ l0 ∈ holders F, ∀ e ∈ extOfV (d2.get l0), e ≠ k := by
    intro l0 h0 e he e'
    obtain ⟨⟨p, hp⟩, _, _⟩ := w2.ext l0 h0 e he
    rw [e', hk2c] at hp; cases hp
  have hfc : ∀ x ∈ F.ids, dS.cell x = d2.cell x := fun x hx => hcells x (fun e => hkF (e ▸ hx))
  have hfe : ∀ l0 ∈ holders F, ∀ e ∈ extOfV (d2.get l0), dS.cell e = d2.cell e ∧ PL.live dS.g dS.pl e :=
    fun l0 h0 e he => ⟨hcells e (hkne l0 h0 e he), (hlv e).2 (w2.ext l0 h0 e he).2.1⟩
  have hfp : PL.Inv dS.g dS.pl := by rw [hg]; exact w2.pool.congr hpools hcap hheap hfree
  have hfl : ∀ x ∈ F.ids, PL.live dS.g dS.pl x := fun x hx => (hlv x).2 (w2.live x hx)
  obtain ⟨wS, hsS, _⟩ := wfg_frame w2 hg hroot hfc hfe hfp hfl (StrOK_drop hstr) hbytes
  obtain ⟨o1, o2, o3⟩ := frame_obs w2 hg hroot hfc hfe hfp hfl (StrOK_drop hstr) hbytes hl
  have hrefs : dS.strRefs F = d2.strRefs F := by
    apply flatMap_congr'
    intro l0 h0
    rcases mem_holders.1 h0 with e | ⟨x, hx, e⟩
    · subst e; show strOfV dS.root = strOfV d2.root; rw [hroot]
    · subst e; rw [get_of_cell (hfc x hx)]
  have hvS : dS.get l = .obj h t := by rw [o1]; exact hv2
  have hvcS : dS.cell v = .var .null dS.null := by rw [hcells v (Ne.symm hkv), hn]; exact hvc
  have a := appendPair_spec (d := dS) wS hl hvS hk hkey hvcS hkv hkF hvF (hn ▸ hklt) (hn ▸ hvlt)
    ((hlv k).2 hklive) ((hlv v).2 hvlive)
  have b := appendPair_strOK (d := dS) wS (by rw [hrefs]; exact hstr) hl hvS hk hkey hvcS hkv hkF hvF
    (hn ▸ hklt) (hn ▸ hvlt) ((hlv k).2 hklive) ((hlv v).2 hvlive)
  -- cells of the result
  have hvs : VOK dS (.obj h t) (layoutAt F l) := hvS ▸ VOK_at wS hl
  obtain ⟨hlk, ht⟩ := (VOK_obj _ _ _ _).1 hvs
  obtain ⟨htf, htl⟩ := tail_facts wS hl hlk ht
  have hkl : Loc.slot k ≠ l := fun e => hkF (isLoc_ids (e ▸ hl))
  have hvl : Loc.slot v ≠ l := fun e => hvF (isLoc_ids (e ▸ hl))
  have hkt : t ≠ dS.null → k ≠ t := fun htn e => hkF (e ▸ (htf htn).2.2.1)
  have hvt : t ≠ dS.null → v ≠ t := fun htn e => hvF (e ▸ (htf htn).2.2.1)
  obtain ⟨_, _, _, cpl, cg, _, _, cco, _, _⟩ :=
    appendPair_cells (v := v) hvS hk hkl htl hkt (fun htn => (htf htn).2.2.2)
  obtain ⟨ms, hms, habs⟩ := a.2
  refine ⟨a.1, b, ⟨ms, by rw [← o2]; exact hms, by rw [habs, o3, hkb]⟩, by rw [cg, hg], ?_, ?_⟩
  · refine get_of_var (v := .null) (n := dS.null) ?_
    rw [cco v hvl (Ne.symm hkv) hvt]; exact hvcS
  · intro x; rw [cpl, cg]; exact hlv x

/-- `ObjectData::addMember` that succeeds (both slots and, for a copied key, the string node were obtained): the member
    `(key, null)` is appended to the object at `l`; `k` (first slot handed out) holds the key, the returned slot `v`
    holds null. -/
theorem addMember_spec {d d' : Doc} {F : Forest} {l : Loc} {h t v : Nat} {key : List Byte} {linked : Bool}
    (w : WFG d F) (hs : StrOK d (d.strRefs F)) (gok : PL.GeoOK d.g) (hl : isLoc F l) (hv : d.get l = .obj h t)
    (hr : d.addMember l key linked = (some v, d')) :
    ∃ k, d.allocVariant.1 = some k ∧ k ≠ v ∧ ¬ PL.live d.g d.pl k ∧ ¬ PL.live d.g d.pl v ∧
      WFG d' (replaceAt F l ((layoutAt F l).snoc (some k) v)) ∧
      StrOK d' (d'.strRefs (replaceAt F l ((layoutAt F l).snoc (some k) v))) ∧
      (∃ ms, d.toVal (d.get l) = .obj ms ∧ abs d' = absWith d F l (.obj (ms ++ [(key, .null)]))) ∧
      d'.g = d.g ∧ d'.get (.slot v) = .null ∧
      (∀ x, PL.live d'.g d'.pl x ↔ PL.live d.g d.pl x ∨ x = k ∨ x = v) := by
  simp only [Doc.addMember] at hr
  generalize hal1 : d.allocVariant = r1 at hr
  obtain ⟨m1, d1⟩ := r1
  cases m1 with
  | none => simp at hr
  | some k =>
    obtain ⟨hg1, _, hc1, hco1, hnk, hklt, hlv1⟩ := allocVariant_some gok w.pool hal1
    have gok1 : PL.GeoOK d1.g := by rw [hg1.g]; exact gok
    simp only at hr
    generalize hal2 : d1.allocVariant = r2 at hr
    obtain ⟨m2, d2⟩ := r2
    cases m2 with
    | none => simp at hr
    | some v' =>
      obtain ⟨hg2, _, hc2, hco2, hnv, hvlt, hlv2⟩ := allocVariant_some gok1 hg1.pool hal2
      have hg12 := hg1.trans hg2
      obtain ⟨w2, hs2, _⟩ := wfg_of_grow w hs hg12
      obtain ⟨o1, o2, o3⟩ := grow_obs w hs hg12 hl
      have hn1 : d1.null = d.null := by simp only [Doc.null, hg1.g]
      have hn2 : d2.null = d.null := by simp only [Doc.null, hg12.g]
      have hkv : k ≠ v' := fun e => hnv (e ▸ (hlv1 k).2 (Or.inr rfl))
      have hnv' : ¬ PL.live d.g d.pl v' := fun hh => hnv ((hlv1 v').2 (Or.inl hh))
      have hk2c : d2.cell k = .var .null d2.null := by rw [hco2 k hkv, hc1, hn2]
      have hvc : d2.cell v' = .var .null d2.null := by rw [hc2, hn1, hn2]
      have hkF : k ∉ F.ids := fun m => hnk (w.live k m)
      have hvF : v' ∉ F.ids := fun m => hnv' (w.live v' m)
      have hklive : PL.live d2.g d2.pl k := (hlv2 k).2 (Or.inl ((hlv1 k).2 (Or.inr rfl)))
      have hvlive : PL.live d2.g d2.pl v' := (hlv2 v').2 (Or.inr rfl)
      have hlive2 : ∀ x, PL.live d2.g d2.pl x ↔ PL.live d.g d.pl x ∨ x = k ∨ x = v' := by
        intro x; rw [hlv2 x, hlv1 x, or_assoc]
      have hv2 : d2.get l = .obj h t := by rw [o1]; exact hv
      simp only at hr
      have fin : ∀ (dS : Doc) (kv : VData) (nk : Nat), dS.g = d2.g → dS.root = d2.root →
          (∀ x, x ≠ k → dS.cell x = d2.cell x) → dS.pl.pools = d2.pl.pools → dS.pl.free = d2.pl.free →
          dS.pl.tableCap = d2.pl.tableCap → dS.pl.tableHeap = d2.pl.tableHeap →
          StrOK dS (strOfV kv ++ d2.strRefs F) → (∀ n ∈ d2.strRefs F, dS.strBytes n = d2.strBytes n) →
          dS.cell k = .var kv nk → isKey kv → keyOfV dS kv = key → (some v', dS.appendPair l k v') = (some v, d') →
          ∃ k, (some k : Option Nat) = some k ∧ d.allocVariant.1 = some k ∧ k ≠ v ∧ ¬ PL.live d.g d.pl k ∧
            ¬ PL.live d.g d.pl v ∧
            WFG d' (replaceAt F l ((layoutAt F l).snoc (some k) v)) ∧
            StrOK d' (d'.strRefs (replaceAt F l ((layoutAt F l).snoc (some k) v))) ∧
            (∃ ms, d.toVal (d.get l) = .obj ms ∧ abs d' = absWith d F l (.obj (ms ++ [(key, .null)]))) ∧
            d'.g = d.g ∧ d'.get (.slot v) = .null ∧
            (∀ x, PL.live d'.g d'.pl x ↔ PL.live d.g d.pl x ∨ x = k ∨ x = v) := by
        intro dS kv nk a1 a2 a3 a4 a5 a6 a7 a8 a9 a10 a11 a12 he
        simp only [Prod.mk.injEq, Option.some.injEq] at he
        obtain ⟨rfl, rfl⟩ := he
        obtain ⟨b1, b2, ⟨ms, b3, b4⟩, b5, b6, b7⟩ := addMember_tail w2 hl hv2 a1 a2 a3 a4 a5 a6 a7 a8 a9 a10 a11 a12
          hk2c hvc hkv hkF hvF (hn2 ▸ hklt) (by rw [hn2, ← hn1]; exact hvlt) hklive hvlive
        refine ⟨k, rfl, by rw [hal1], hkv, hnk, hnv', b1, b2, ⟨ms, by rw [← o2]; exact b3, by rw [b4, o3]⟩,
          by rw [b5, hg12.g], b6, fun x => by rw [b7 x, hlive2 x]⟩
      cases linked with
      | true =>
        simp only [if_true] at hr
        obtain ⟨k0, _, r⟩ := fin (d2.set (.slot k) (.linked key)) (.linked key) (d2.nextOf k) (set_g _ _ _) rfl
          (fun x hx => by rw [cell_set_slot, if_neg (Ne.symm hx)]) rfl rfl rfl rfl
          (StrOK_congr (set_strings _ _ _) (set_nextNode _ _ _) hs2) (fun n _ => strBytes_set _ _ _ n)
          (by rw [cell_set_slot, if_pos rfl]) trivial rfl hr
        exact ⟨k0, by rw [hal1] at r; exact r⟩
      | false =>
        simp only [Bool.false_eq_true, if_false] at hr
        generalize hal3 : d2.saveString key = r3 at hr
        obtain ⟨m3, d3⟩ := r3
        cases m3 with
        | none => simp at hr
        | some n =>
          simp only at hr
          obtain ⟨s1, s2, s3, s4, s5, s6, s7, s8, s9⟩ := saveString_spec hs2.ids_nodup hs2.ids_lt hal3
          obtain ⟨k0, _, r⟩ := fin (d3.set (.slot k) (.owned n)) (.owned n) (d3.nextOf k) (by rw [set_g, s1])
            (by rw [root_set_slot, s2])
            (fun x hx => by rw [cell_set_slot, if_neg (Ne.symm hx)]; simp only [Doc.cell, s3])
            (by rw [set_pl, s6]) (by rw [set_pl, s7]) (by rw [set_pl, s8]) (by rw [set_pl, s9])
            (StrOK_congr (set_strings _ _ _) (set_nextNode _ _ _) (saveString_strOK hs2 hal3))
            (fun m hm => by rw [strBytes_set]; exact s5 m (hs2.present m hm))
            (by rw [cell_set_slot, if_pos rfl]) trivial
            (by show (d3.set (.slot k) (.owned n)).strBytes n = key; rw [strBytes_set, s4]) hr
          exact ⟨k0, by rw [hal1] at r; exact r⟩

/-! ## A null location becomes an empty collection -/

/-- `absWith` at slot `i` does not read the value stored in slot `i` (nor what is below it) -/
theorem vals_ov_indep {d d' : Doc} {i : Nat} (x : Val) : ∀ (F : Forest), F.ids.Nodup → (i ∈ F.locs ∨ i ∉ F.ids) →
    (∀ j ∈ F.ids, j ≠ i → Good d d' j) → vals d' (ov1 i x) F = vals d (ov1 i x) F := by
  intro F
  induction F with
  | nil => intros; rfl
  | cons k j s r ihs ihr =>
    intro hnd hi hgood
    obtain ⟨nds, ndr, njs, njr, nsr, nk⟩ := Forest.nodup_cons hnd
    have hs' : i ∈ s.locs ∨ i ∉ s.ids := by
      rcases hi with hi | hi
      · simp only [Forest.locs, List.mem_cons, List.mem_append] at hi
        rcases hi with e | m | m
        · exact Or.inr (e ▸ njs)
        · exact Or.inl m
        · exact Or.inr (fun m' => nsr i m' (r.locs_sub_ids i m))
      · exact Or.inr (fun m => hi (by simp [Forest.ids, m]))
    have hr' : i ∈ r.locs ∨ i ∉ r.ids := by
      rcases hi with hi | hi
      · simp only [Forest.locs, List.mem_cons, List.mem_append] at hi
        rcases hi with e | m | m
        · exact Or.inr (e ▸ njr)
        · exact Or.inr (fun m' => nsr i (s.locs_sub_ids i m) m')
        · exact Or.inl m
      · exact Or.inr (fun m => hi (by simp [Forest.ids, m]))
    have hk : ∀ q ∈ Forest.keyL k, Good d d' q := by
      intro q hq
      refine hgood q (by simp [Forest.ids, hq]) ?_
      intro e; subst e
      rcases hi with hi | hi
      · simp only [Forest.locs, List.mem_cons, List.mem_append] at hi
        rcases hi with e | m | m
        · exact (nk q hq).1 e
        · exact (nk q hq).2.1 (s.locs_sub_ids q m)
        · exact (nk q hq).2.2 (r.locs_sub_ids q m)
      · exact hi (by simp [Forest.ids, hq])
    simp only [vals]
    rw [ihs nds hs' (fun q hq => hgood q (by simp [Forest.ids, hq])),
      ihr ndr hr' (fun q hq => hgood q (by simp [Forest.ids, hq])), keyB_good hk]
    by_cases hji : j = i
    · simp only [ov1, if_pos hji, Option.getD_some]
    · have hg := hgood j (by simp [Forest.ids]) hji
      simp only [ov1, if_neg hji, Option.getD_none, get_of_cell hg.1]
      rw [mkVal_congr hg.2]

/-- storing an empty array/object at a location that holds null: nothing else changes -/
theorem set_empty_coll {d : Doc} {F : Forest} {l : Loc} (w : WFG d F) (hs : StrOK d (d.strRefs F)) (hl : isLoc F l)
    (hnull : d.get l = .null) (b : Bool) :
    WFG (d.set l (mkC b d.null d.null)) F ∧
    StrOK (d.set l (mkC b d.null d.null)) ((d.set l (mkC b d.null d.null)).strRefs F) ∧
    abs (d.set l (mkC b d.null d.null)) = absWith d F l (mkVal d (mkC b d.null d.null) []) ∧
    (d.set l (mkC b d.null d.null)).toVal ((d.set l (mkC b d.null d.null)).get l) = mkVal d (mkC b d.null d.null) [] ∧
    (∀ x, absWith (d.set l (mkC b d.null d.null)) F l x = absWith d F l x) := by
  have hold : ¬ isColl (d.get l) := by rw [hnull]; exact fun h => h
  have hnil := layoutAt_nil_of_scalar w hl hold
  have hrep : replaceAt F l .nil = F := by rw [← hnil]; exact replaceAt_self w.nodup hl
  have hvar : ∀ i, l = .slot i → d.isVar i := fun i e => w.isVar i (isLoc_ids (e ▸ hl))
  have hextne : ∀ l0 ∈ holders F, ∀ e ∈ extOfV (d.get l0), Loc.slot e ≠ l := by
    intro l0 h0 e he e'
    obtain ⟨⟨p, hp⟩, _, _⟩ := w.ext l0 h0 e he
    exact ext_ne_var hp (hvar e e'.symm) rfl
  have hgood : ∀ j ∈ F.ids, Loc.slot j ≠ l → Good d (d.set l (mkC b d.null d.null)) j := fun j hj hjl =>
    good_of (set_strings _ _ _) (cell_set_ne hjl)
      (fun e he => cell_set_ne (hextne (.slot j) (mem_holders.2 (Or.inr ⟨j, hj, rfl⟩)) e he))
  have hres := wfg_replaceAt (d' := d.set l (mkC b d.null d.null)) (v' := mkC b d.null d.null) (s' := .nil) w hl
    (set_null _ _ _) (get_set_self _ _ _)
    (fun i e => by subst e; exact ⟨by rw [cell_set_slot, if_pos rfl], rfl⟩)
    (by rw [VOK_mkC, Lk_nil, set_null]; exact ⟨rfl, rfl⟩)
    (fun j hj hjl _ => hgood j hj hjl)
    List.nodup_nil (fun x hx => by cases hx) (fun x hx => by cases hx)
    (by rw [set_pl, set_g]; exact w.pool) (fun x hx => by cases hx)
    (fun x hx _ => by rw [set_pl, set_g]; exact w.live x hx)
    (by
      rw [hrep]
      refine ExtOK_of w.ext ?_ ?_
      · intro l' hl'
        by_cases hll : l' = l
        · left; rw [hll, get_set_self]; exact mkC_ext _ _ _
        · right; exact ⟨hl', get_set_ne hll⟩
      · intro l' _ hl'F _ e he
        refine ⟨cell_set_ne (hextne l' hl'F e he), ?_⟩
        rw [set_pl, set_g]; exact (w.ext l' hl'F e he).2.1)
  rw [hrep] at hres
  have hval : (d.set l (mkC b d.null d.null)).valOf (mkC b d.null d.null) .nil = mkVal d (mkC b d.null d.null) [] := by
    simp only [Doc.valOf, vals]
    exact mkVal_mkC _ _ _ _ _ _ _ _
  refine ⟨hres.1, ?_, by rw [hres.2, hval], ?_, ?_⟩
  · exact set_gen_strOK w hl (by rw [hnull]; rfl) rfl (fun _ _ => rfl) (by rw [mkC_str]; exact hs)
  · rw [toVal_at hres.1 hl, hnil, get_set_self]; exact hval
  · intro x
    cases l with
    | root => rfl
    | slot i =>
      simp only [absWith]
      rw [vals_ov_indep x F w.nodup (Or.inl hl)
        (fun j hj hji => hgood j hj (fun e => hji (by cases e; rfl))), root_set_slot]
      exact mkVal_congr (scalar_congr (fun n _ => strBytes_set _ _ _ n)
        (fun e he => cell_set_ne (hextne .root (mem_holders.2 (Or.inl rfl)) e he))) _

/-! ## `getOrAddMember` -/

/-- the members of the object designated by `l` (none when `l` holds null or anything that is not an object) -/
def membersAt (d : Doc) (l : Loc) : List (List Byte × Val) :=
  match d.toVal (d.get l) with | .obj ms => ms | _ => []

/-- `VariantData::toObject` on a null variant; identity otherwise (first step of `getOrAddMember`) -/
def toObj (d : Doc) (l : Loc) : Doc :=
  match d.get l with | .null => d.set l (.obj d.null d.null) | _ => d

theorem getOrAddMember_eq (d : Doc) (l : Loc) (key : List Byte) (linked : Bool) :
    d.getOrAddMember l key linked =
      match (toObj d l).get l with
      | .obj _ _ =>
        match (toObj d l).findKey l key with
        | some (_, v) => (some v, toObj d l)
        | none => (toObj d l).addMember l key linked
      | _ => (none, toObj d l) := rfl

theorem toVal_null (d : Doc) : d.toVal .null = .null := rfl

theorem toObj_spec {d : Doc} {F : Forest} {l : Loc} (w : WFG d F) (hs : StrOK d (d.strRefs F)) (hl : isLoc F l)
    (hobj : d.get l = .null ∨ ∃ h t, d.get l = .obj h t) :
    WFG (toObj d l) F ∧ StrOK (toObj d l) ((toObj d l).strRefs F) ∧ (∃ h t, (toObj d l).get l = .obj h t) ∧
    abs (toObj d l) = absWith d F l (.obj (membersAt d l)) ∧
    (toObj d l).toVal ((toObj d l).get l) = .obj (membersAt d l) ∧
    (∀ x, absWith (toObj d l) F l x = absWith d F l x) ∧ (toObj d l).g = d.g ∧ (toObj d l).pl = d.pl ∧
    (toObj d l).overflowed = d.overflowed := by
  rcases hobj with hnull | ⟨h, t, hv⟩
  · obtain ⟨a, b, c, e, f⟩ := set_empty_coll w hs hl hnull true
    have hm : membersAt d l = [] := by simp only [membersAt, hnull, toVal_null]
    have ht : toObj d l = d.set l (mkC true d.null d.null) := by simp only [toObj, hnull]; rfl
    rw [ht, hm]
    exact ⟨a, b, ⟨_, _, get_set_self _ _ _⟩, c, e, f, set_g _ _ _, set_pl _ _ _, set_overflowed _ _ _⟩
  · have ht : toObj d l = d := by simp only [toObj, hv]
    have hm : d.toVal (d.get l) = .obj (membersAt d l) := by
      have : d.toVal (d.get l) = .obj (vals d noOv (layoutAt F l)) := by rw [toVal_at w hl, hv]; rfl
      simp only [membersAt, this]
    rw [ht]
    exact ⟨w, hs, ⟨h, t, hv⟩, by rw [← hm]; exact (absWith_self w hl).symm, hm, fun _ => rfl, rfl, rfl, rfl⟩

theorem allocVariant_fst_congr {d d' : Doc} (hg : d'.g = d.g) (hpl : d'.pl = d.pl) :
    d'.allocVariant.1 = d.allocVariant.1 := by
  simp only [Doc.allocVariant, hg, hpl]
  split <;> rfl

/-- `getOrAddMember` when the object at `l` (or the empty object a null `l` is turned into) has a member with this key:
    returns the value slot of the FIRST such member; the document is unchanged -/
theorem getOrAddMember_found_spec {d : Doc} {F : Forest} {l : Loc} {h t : Nat} {key : List Byte} {linked : Bool}
    {m : List Byte × Val} (w : WFG d F) (hl : isLoc F l) (hv : d.get l = .obj h t)
    (hfound : (membersAt d l).find? (fun m => m.1 == key) = some m) :
    ∃ v, d.getOrAddMember l key linked = (some v, d) ∧ d.toVal (d.get (.slot v)) = m.2 := by
  obtain ⟨ms, hms, hfk⟩ := findKey_spec w hl hv key
  have hm : membersAt d l = ms := by simp only [membersAt, hms]
  rw [hm] at hfound
  rw [hfound] at hfk
  cases hf : d.findKey l key with
  | none => rw [hf] at hfk; cases hfk
  | some p =>
    obtain ⟨k, v⟩ := p
    rw [hf] at hfk
    simp only [Option.map_some, Option.some.injEq] at hfk
    exact ⟨v, by simp only [Doc.getOrAddMember, hv, hf], hfk⟩

/-- when no member has the key, `getOrAddMember` is `addMember` on the (possibly just created) object -/
theorem getOrAddMember_absent_eq {d : Doc} {F : Forest} {l : Loc} {key : List Byte} {linked : Bool}
    (w : WFG d F) (hs : StrOK d (d.strRefs F)) (hl : isLoc F l)
    (hobj : d.get l = .null ∨ ∃ h t, d.get l = .obj h t)
    (habsent : (membersAt d l).find? (fun m => m.1 == key) = none) :
    d.getOrAddMember l key linked = (toObj d l).addMember l key linked := by
  obtain ⟨w0, _, ⟨h, t, hv0⟩, _, htv0, _, _, _, _⟩ := toObj_spec w hs hl hobj
  obtain ⟨ms, hms, hfk⟩ := findKey_spec w0 hl hv0 key
  have hmm : ms = membersAt d l := by rw [htv0] at hms; injection hms with e; exact e.symm
  rw [hmm, habsent] at hfk
  have hnone : (toObj d l).findKey l key = none := by
    cases hf : (toObj d l).findKey l key with
    | none => rfl
    | some p => rw [hf] at hfk; cases hfk
  rw [getOrAddMember_eq]; simp only [hv0, hnone]

/-- `getOrAddMember` when no member of the object at `l` has this key (a null `l` first becomes the empty object):
    `addMember` runs. If it fails the document is the old one (with `l` an object) and the overflow flag is set; if it
    returns slot `v` the member `(key, null)` was appended, `v` holds null. -/
theorem getOrAddMember_absent_spec {d : Doc} {F : Forest} {l : Loc} {key : List Byte} {linked : Bool}
    (w : WFG d F) (hs : StrOK d (d.strRefs F)) (gok : PL.GeoOK d.g) (hl : isLoc F l)
    (hobj : d.get l = .null ∨ ∃ h t, d.get l = .obj h t)
    (habsent : (membersAt d l).find? (fun m => m.1 == key) = none) :
    ((d.getOrAddMember l key linked).1 = none →
      (d.getOrAddMember l key linked).2.overflowed = true ∧
      WFG (d.getOrAddMember l key linked).2 F ∧
      StrOK (d.getOrAddMember l key linked).2 ((d.getOrAddMember l key linked).2.strRefs F) ∧
      abs (d.getOrAddMember l key linked).2 = absWith d F l (.obj (membersAt d l)) ∧
      (d.getOrAddMember l key linked).2.g = d.g) ∧
    (∀ v, (d.getOrAddMember l key linked).1 = some v →
      ∃ k, d.allocVariant.1 = some k ∧ k ≠ v ∧ ¬ PL.live d.g d.pl k ∧ ¬ PL.live d.g d.pl v ∧
        WFG (d.getOrAddMember l key linked).2 (replaceAt F l ((layoutAt F l).snoc (some k) v)) ∧
        StrOK (d.getOrAddMember l key linked).2
          ((d.getOrAddMember l key linked).2.strRefs (replaceAt F l ((layoutAt F l).snoc (some k) v))) ∧
        abs (d.getOrAddMember l key linked).2 = absWith d F l (.obj (membersAt d l ++ [(key, .null)])) ∧
        (d.getOrAddMember l key linked).2.g = d.g ∧
        (d.getOrAddMember l key linked).2.get (.slot v) = .null ∧
        (∀ x, PL.live (d.getOrAddMember l key linked).2.g (d.getOrAddMember l key linked).2.pl x ↔
          PL.live d.g d.pl x ∨ x = k ∨ x = v)) := by
  obtain ⟨w0, hs0, ⟨h, t, hv0⟩, habs0, htv0, haw0, hg0, hpl0, hov0⟩ := toObj_spec w hs hl hobj
  have gok0 : PL.GeoOK (toObj d l).g := by rw [hg0]; exact gok
  obtain ⟨ms, hms, hfk⟩ := findKey_spec w0 hl hv0 key
  have hmm : ms = membersAt d l := by rw [htv0] at hms; injection hms with e; exact e.symm
  rw [hmm, habsent] at hfk
  have hnone : (toObj d l).findKey l key = none := by
    cases hf : (toObj d l).findKey l key with
    | none => rfl
    | some p => rw [hf] at hfk; cases hfk
  have heq : d.getOrAddMember l key linked = (toObj d l).addMember l key linked := by
    rw [getOrAddMember_eq]; simp only [hv0, hnone]
  rw [heq]
  generalize hr : (toObj d l).addMember l key linked = r
  obtain ⟨m, d'⟩ := r
  constructor
  · intro hm
    simp only at hm; subst hm
    have hfail : ((toObj d l).addMember l key linked).1 = none := by rw [hr]
    obtain ⟨a, b, c, e, _⟩ := C05.add_member_fail_clean w0 hs0 gok0 hfail
    rw [hr] at a b c e
    have hgg : d'.g = d.g := by
      have h1 : ((toObj d l).addMember l key linked).2.g = (toObj d l).g := by
        simp only [Doc.addMember]
        generalize hal1 : (toObj d l).allocVariant = r1
        obtain ⟨m1, d1⟩ := r1
        have g1 : d1.g = (toObj d l).g := by have := allocVariant_g (toObj d l); rw [hal1] at this; exact this
        cases m1 with
        | none => exact g1
        | some k =>
          simp only
          generalize hal2 : d1.allocVariant = r2
          obtain ⟨m2, d2⟩ := r2
          have g2 : d2.g = d1.g := by have := allocVariant_g d1; rw [hal2] at this; exact this
          cases m2 with
          | none => exact g2.trans g1
          | some v =>
            simp only
            cases linked with
            | true =>
              simp only [if_true]
              have hkl : ∀ (dd : Doc) (kv : VData), (dd.appendPair l k v).g = dd.g := by
                intro dd kv
                simp only [Doc.appendPair]
                split
                · split
                  · rw [set_g, setNext_g, setNext_g]
                  · rw [set_g, setNext_g]
                · rw [setNext_g]
              rw [hkl _ (.linked key), set_g]; exact g2.trans g1
            | false =>
              simp only [Bool.false_eq_true, if_false]
              generalize hal3 : d2.saveString key = r3
              obtain ⟨m3, d3⟩ := r3
              have g3 : d3.g = d2.g := by have := saveString_g d2 key; rw [hal3] at this; exact this
              cases m3 with
              | none => exact g3.trans (g2.trans g1)
              | some n =>
                simp only
                have hkl : ∀ (dd : Doc), (dd.appendPair l k v).g = dd.g := by
                  intro dd
                  simp only [Doc.appendPair]
                  split
                  · split
                    · rw [set_g, setNext_g, setNext_g]
                    · rw [set_g, setNext_g]
                  · rw [setNext_g]
                rw [hkl, set_g]; exact g3.trans (g2.trans g1)
      rw [hr] at h1; exact h1.trans hg0
    exact ⟨a, b, c, by rw [e, habs0], hgg⟩
  · intro v hm
    simp only at hm; subst hm
    obtain ⟨k, a1, a2, a3, a4, a5, a6, ⟨ms', a7, a8⟩, a9, a10, a11⟩ := addMember_spec w0 hs0 gok0 hl hv0 hr
    have hms' : ms' = membersAt d l := by rw [htv0] at a7; injection a7 with e; exact e.symm
    refine ⟨k, by rw [← allocVariant_fst_congr hg0 hpl0]; exact a1, a2, by rw [← hg0, ← hpl0]; exact a3,
      by rw [← hg0, ← hpl0]; exact a4, a5, a6, by rw [a8, haw0, hms'], a9.trans hg0, a10, ?_⟩
    intro x; rw [a11 x, hg0, hpl0]

/-! ## Projection lemmas (used to instantiate the theorems on concrete documents: `Std.HashMap` lookups of non-zero
   keys do not reduce in the kernel, the pool does) -/

theorem toVal_arr_inv {d : Doc} {v : VData} {xs : List Val} (h : d.toVal v = .arr xs) : ∃ hd t, v = .arr hd t := by
  cases v <;> simp [Doc.toVal, Doc.fuel, Doc.toValF] at h ⊢
theorem toVal_obj_inv {d : Doc} {v : VData} {ms : List (List Byte × Val)} (h : d.toVal v = .obj ms) : ∃ hd t, v = .obj hd t := by
  cases v <;> simp [Doc.toVal, Doc.fuel, Doc.toValF] at h ⊢

theorem allocVariant_fst (d : Doc) : d.allocVariant.1 = (PL.allocSlot d.g d.pl).1 := by
  simp only [Doc.allocVariant]; split <;> rename_i heq <;> rw [heq]
theorem allocVariant_pl (d : Doc) : d.allocVariant.2.pl = (PL.allocSlot d.g d.pl).2 := by
  simp only [Doc.allocVariant]; split <;> rename_i heq <;> rw [heq]
theorem appendOne_pl (d : Doc) (l : Loc) (id : Nat) : (d.appendOne l id).pl = d.pl := by
  simp only [Doc.appendOne]
  split
  · split
    · rw [set_pl, setNext_pl]
    · rw [set_pl]
  · rfl
theorem addElement_fst (d : Doc) (l : Loc) : (d.addElement l).1 = (PL.allocSlot d.g d.pl).1 := by
  rw [← allocVariant_fst]
  simp only [Doc.addElement]; split <;> rename_i heq <;> rw [heq]
theorem addElement_pl (d : Doc) (l : Loc) : (d.addElement l).2.pl = (PL.allocSlot d.g d.pl).2 := by
  rw [← allocVariant_pl]
  simp only [Doc.addElement]; split <;> rename_i heq <;> rw [heq]
  exact appendOne_pl _ _ _
theorem addElement_g (d : Doc) (l : Loc) : (d.addElement l).2.g = d.g := by
  have := allocVariant_g d
  simp only [Doc.addElement]; split <;> rename_i heq <;> rw [heq] at this
  · rw [appendOne_g]; exact this
  · exact this
theorem appendPair_pl (d : Doc) (l : Loc) (k v : Nat) : (d.appendPair l k v).pl = d.pl := by
  simp only [Doc.appendPair]
  split
  · split
    · rw [set_pl, setNext_pl, setNext_pl]
    · rw [set_pl, setNext_pl]
  · rw [setNext_pl]
/-- `addMember` with a linked key: success and the slot returned depend on the pool only -/
theorem addMember_linked_fst (d : Doc) (l : Loc) (key : List Byte) :
    (d.addMember l key true).1 =
      match PL.allocSlot d.g d.pl with
      | (some _, p1) => (PL.allocSlot d.g p1).1
      | (none, _) => none := by
  simp only [Doc.addMember, Doc.allocVariant]
  generalize PL.allocSlot d.g d.pl = r1
  obtain ⟨m1, p1⟩ := r1
  cases m1 with
  | none => rfl
  | some k =>
    simp only
    generalize PL.allocSlot d.g p1 = r2
    obtain ⟨m2, p2⟩ := r2
    cases m2 <;> rfl
theorem addMember_linked_pl (d : Doc) (l : Loc) (key : List Byte) :
    (d.addMember l key true).2.pl =
      match PL.allocSlot d.g d.pl with
      | (some _, p1) => (PL.allocSlot d.g p1).2
      | (none, p1) => p1 := by
  simp only [Doc.addMember, Doc.allocVariant]
  generalize PL.allocSlot d.g d.pl = r1
  obtain ⟨m1, p1⟩ := r1
  cases m1 with
  | none => rfl
  | some k =>
    simp only
    generalize PL.allocSlot d.g p1 = r2
    obtain ⟨m2, p2⟩ := r2
    cases m2 with
    | none => rfl
    | some v => simp only [if_true, appendPair_pl, set_pl]

/-- the chain of a laid-out array is the list of the top-level value slots of its layout -/
theorem chain_of_layout {d : Doc} {F : Forest} {l : Loc} {h t : Nat} (w : WFG d F) (hl : isLoc F l)
    (hv : d.get l = .arr h t) : d.chain h = (layoutAt F l).tl := by
  have hvs : VOK d (.arr h t) (layoutAt F l) := hv ▸ VOK_at w hl
  obtain ⟨hlk, _⟩ := (VOK_arr _ _ _ _).1 hvs
  have hlen : (layoutAt F l).ids.length ≤ d.fuel :=
    Nat.le_trans (List.Nodup.length_le_of_subset (layoutAt_nodup w.nodup hl) (fun x hx => layoutAt_ids_sub F l x hx))
      (Nat.le_of_lt w.fuel_ok)
  rw [chain_eq hlk hlen, tl_eq_top_arr _ hlk]

/-! ## A kernel-evaluable equality test on `JD.Val` (for concrete instances: `decide +kernel`) -/

mutual
def valEqb : Val → Val → Bool
  | .null, .null => true
  | .bool a, .bool b => a == b
  | .num a, .num b => decide (a = b)
  | .str a, .str b => decide (a = b)
  | .raw a, .raw b => decide (a = b)
  | .arr a, .arr b => valEqbL a b
  | .obj a, .obj b => valEqbM a b
  | _, _ => false
def valEqbL : List Val → List Val → Bool
  | [], [] => true
  | x :: xs, y :: ys => valEqb x y && valEqbL xs ys
  | _, _ => false
def valEqbM : List (List Byte × Val) → List (List Byte × Val) → Bool
  | [], [] => true
  | (k, x) :: xs, (k', y) :: ys => decide (k = k') && valEqb x y && valEqbM xs ys
  | _, _ => false
end

mutual
theorem valEqb_sound : ∀ (a b : Val), valEqb a b = true → a = b
  | .null, b, h => by cases b <;> simp_all [valEqb]
  | .bool x, b, h => by cases b <;> simp_all [valEqb]
  | .num x, b, h => by cases b <;> simp_all [valEqb]
  | .str x, b, h => by cases b <;> simp_all [valEqb]
  | .raw x, b, h => by cases b <;> simp_all [valEqb]
  | .arr x, b, h => by
    cases b with
    | arr y => simp only [valEqb] at h; rw [valEqbL_sound _ _ h]
    | _ => simp [valEqb] at h
  | .obj x, b, h => by
    cases b with
    | obj y => simp only [valEqb] at h; rw [valEqbM_sound _ _ h]
    | _ => simp [valEqb] at h
theorem valEqbL_sound : ∀ (a b : List Val), valEqbL a b = true → a = b
  | [], b, h => by cases b <;> simp_all [valEqbL]
  | x :: xs, b, h => by
    cases b with
    | nil => simp [valEqbL] at h
    | cons y ys =>
      simp only [valEqbL, Bool.and_eq_true] at h
      rw [valEqb_sound _ _ h.1, valEqbL_sound _ _ h.2]
theorem valEqbM_sound : ∀ (a b : List (List Byte × Val)), valEqbM a b = true → a = b
  | [], b, h => by cases b <;> simp_all [valEqbM]
  | (k, x) :: xs, b, h => by
    cases b with
    | nil => simp [valEqbM] at h
    | cons y ys =>
      obtain ⟨k', y⟩ := y
      simp only [valEqbM, Bool.and_eq_true, decide_eq_true_eq] at h
      rw [h.1.1, valEqb_sound _ _ h.1.2, valEqbM_sound _ _ h.2]
end

end DL
