/- Refinement lemmas for the primitives of `DL` (append, clear, set, remove) over the layout invariant of
   AJ/Lemmas/DocInv.lean. Used by AJ/Props/C04.lean. -/
import AJ.Lemmas.DocInv
import AJ.Props.C19
namespace DL
open JD (Byte Val)

/-! ## Chain ends -/

theorem Forest.top_ne_nil {F : Forest} (h : F ≠ .nil) : ∃ t, F.top.getLast? = some t ∧ t ∈ F.top := by
  cases F with
  | nil => exact absurd rfl h
  | cons k j s r =>
    have hne : (Forest.cons k j s r).top ≠ [] := by simp [Forest.top]
    obtain ⟨t, ht⟩ : ∃ t, (Forest.cons k j s r).top.getLast? = some t := by
      cases hx : (Forest.cons k j s r).top.getLast? with
      | none => exact absurd (List.getLast?_eq_none_iff.1 hx) hne
      | some t => exact ⟨t, rfl⟩
    exact ⟨t, ht, List.mem_of_getLast? ht⟩

theorem Forest.top_cons_last (k : Option Nat) (j : Nat) (s r : Forest) (x : Nat) :
    (Forest.cons k j s r).top.getLast?.getD x = r.top.getLast?.getD j := by
  simp only [Forest.top, List.getLast?_append, List.getLast?_cons]
  cases r.top.getLast? <;> simp

theorem Lk_top_ne_null {d : Doc} (F : Forest) : ∀ {b : Bool} {h : Nat}, Lk d b h F → ∀ x ∈ F.top, x ≠ d.null := by
  induction F with
  | nil => intro b h _ x hx; cases hx
  | cons key i s r _ ihr =>
    intro b h hl x hx
    rw [Lk_cons] at hl
    obtain ⟨h1, h2, _, h4, _⟩ := hl
    simp only [Forest.top, List.mem_append, List.mem_cons] at hx
    rcases hx with hx | hx | hx
    · cases b <;> cases key <;> simp only [KeyOK] at h1 <;> simp only [Forest.keyL, List.mem_singleton] at hx
      · cases hx
      · subst hx; exact h1.2.1
    · subst hx; exact h2
    · exact ihr h4 x hx

theorem Lk_nil_iff {d : Doc} {F : Forest} {b : Bool} {h : Nat} (hl : Lk d b h F) : F = .nil ↔ h = d.null := by
  cases F with
  | nil => rw [Lk_nil] at hl; simp [hl]
  | cons key i s r =>
    rw [Lk_cons] at hl
    obtain ⟨h1, h2, _, _, _⟩ := hl
    constructor
    · intro e; cases e
    · intro e; exfalso
      cases b <;> cases key <;> simp only [KeyOK] at h1
      · exact h2 (h1 ▸ e)
      · exact h1.2.1 (h1.1 ▸ e)

/-- the tail of a laid-out collection is the null id exactly when the chain is empty -/
theorem last_null_iff {d : Doc} {F : Forest} {b : Bool} {h : Nat} (hl : Lk d b h F) :
    F.top.getLast?.getD d.null = d.null ↔ F = .nil := by
  constructor
  · intro e
    cases hF : F with
    | nil => rfl
    | cons k j s r =>
      exfalso
      have hne : F ≠ .nil := by simp [hF]
      obtain ⟨t, ht, hm⟩ := Forest.top_ne_nil hne
      rw [ht] at e
      exact Lk_top_ne_null F hl t hm e
  · intro e; subst e; rfl

/-! ## Scalars read the same -/

theorem strBytes_of_strings {d d' : Doc} (h : d'.strings = d.strings) (n : Nat) : d'.strBytes n = d.strBytes n := by
  simp only [Doc.strBytes, h]

theorem scalar_congr {d d' : Doc} {v : VData} (hs : ∀ n ∈ strOfV v, d'.strBytes n = d.strBytes n)
    (he : ∀ e ∈ extOfV v, d'.cell e = d.cell e) : d'.scalar v = d.scalar v := by
  cases v <;> simp only [Doc.scalar]
  case i64 e => rw [extOf_of_cell (he e (by simp [extOfV]))]
  case u64 e => rw [extOf_of_cell (he e (by simp [extOfV]))]
  case f64 e => rw [extOf_of_cell (he e (by simp [extOfV]))]
  case owned n => rw [hs n (by simp [strOfV])]
  case raw n => rw [hs n (by simp [strOfV])]

theorem good_of {d d' : Doc} {j : Nat} (hs : d'.strings = d.strings) (hc : d'.cell j = d.cell j)
    (he : ∀ e ∈ extOfV (d.get (.slot j)), d'.cell e = d.cell e) : Good d d' j :=
  ⟨hc, scalar_congr (fun n _ => strBytes_of_strings hs n) he⟩

/-! ## Appending to a chain -/

theorem vals_snoc (d : Doc) (o : Nat → Option Val) (s : Forest) (key : Option Nat) (id : Nat) :
    vals d o (s.snoc key id) = vals d o s ++ [(keyB d key, (o id).getD (mkVal d (d.get (.slot id)) []))] := by
  induction s with
  | nil => rfl
  | cons k j s0 r _ ihr => simp only [Forest.snoc, vals, ihr, List.cons_append]

theorem Lk_snoc {d d1 : Doc} {key : Option Nat} {id n0 : Nat} (hn : d1.null = d.null) :
    ∀ (s : Forest) {b : Bool} {h : Nat}, Lk d b h s → s ≠ .nil → s.ids.Nodup →
      d1.cell (s.top.getLast?.getD d.null) = .var (d.get (.slot (s.top.getLast?.getD d.null))) n0 →
      (∀ j ∈ s.ids, j ≠ s.top.getLast?.getD d.null → d1.cell j = d.cell j) →
      Lk d1 b n0 (.cons key id .nil .nil) → Lk d1 b h (s.snoc key id) := by
  intro s
  induction s with
  | nil => intro b h _ hne; exact absurd rfl hne
  | cons k j s0 r _ ihr =>
    intro b h hl _ hnd hct hoth hnew
    rw [Lk_cons] at hl
    obtain ⟨h1, h2, h3, h4, h5⟩ := hl
    obtain ⟨nds, ndr, njs, njr, nsr, nk⟩ := Forest.nodup_cons hnd
    rw [Forest.top_cons_last] at hct hoth
    simp only [Forest.snoc]
    rw [Lk_cons]
    by_cases hr : r = .nil
    · subst hr
      simp only [Forest.top, List.getLast?_nil, Option.getD_none] at hct hoth
      have hk : ∀ q ∈ Forest.keyL k, d1.cell q = d.cell q := fun q hq =>
        hoth q (by simp [Forest.ids, hq]) (nk q hq).1
      have as : Agree d d1 s0.ids := ⟨hn, fun x hx => hoth x (by simp [Forest.ids, hx]) (fun e => njs (e ▸ hx))⟩
      refine ⟨KeyOK_congr hn hk h1, hn ▸ h2, isVar_of_var hct, ?_, ?_⟩
      · rw [nextOf_of_var hct]; exact hnew
      · rw [get_of_var hct]; exact VOK_congr as h5
    · obtain ⟨t, ht, hm⟩ := Forest.top_ne_nil hr
      have htd : r.top.getLast?.getD j = r.top.getLast?.getD d.null := by rw [ht]; rfl
      rw [htd] at hct hoth
      have htr : r.top.getLast?.getD d.null ∈ r.ids := by rw [ht]; exact r.top_sub_ids t hm
      have hjc : d1.cell j = d.cell j := hoth j (by simp [Forest.ids]) (fun e => njr (e ▸ htr))
      have hk : ∀ q ∈ Forest.keyL k, d1.cell q = d.cell q := fun q hq =>
        hoth q (by simp [Forest.ids, hq]) (fun e => (nk q hq).2.2 (e ▸ htr))
      have as : Agree d d1 s0.ids :=
        ⟨hn, fun x hx => hoth x (by simp [Forest.ids, hx]) (fun e => nsr x hx (e ▸ htr))⟩
      refine ⟨KeyOK_congr hn hk h1, hn ▸ h2, isVar_congr hjc hn h3, ?_, ?_⟩
      · rw [nextOf_of_cell hjc hn]
        exact ihr h4 hr ndr hct (fun x hx => hoth x (by simp [Forest.ids, hx])) hnew
      · rw [get_of_cell hjc]; exact VOK_congr as h5

theorem top_snoc_last (s : Forest) (key : Option Nat) (id x : Nat) : (s.snoc key id).top.getLast?.getD x = id := by
  rw [Forest.top_snoc, List.getLast?_append, List.getLast?_append]
  simp

theorem Lk_top_isVar {d : Doc} (F : Forest) : ∀ {b : Bool} {h : Nat}, Lk d b h F → ∀ x ∈ F.top, d.isVar x := by
  induction F with
  | nil => intro b h _ x hx; cases hx
  | cons key i s r _ ihr =>
    intro b h hl x hx
    rw [Lk_cons] at hl
    obtain ⟨h1, _, h3, h4, _⟩ := hl
    simp only [Forest.top, List.mem_append, List.mem_cons] at hx
    rcases hx with hx | hx | hx
    · cases b <;> cases key <;> simp only [KeyOK] at h1 <;> simp only [Forest.keyL, List.mem_singleton] at hx
      · cases hx
      · subst hx; exact h1.2.2.1
    · subst hx; exact h3
    · exact ihr h4 x hx

theorem append_chain {d d' : Doc} {s : Forest} {b : Bool} {h t : Nat} {key : Option Nat} {id n0 : Nat}
    (hn : d'.null = d.null) (hl : Lk d b h s) (ht : t = s.top.getLast?.getD d.null) (hnd : s.ids.Nodup)
    (hct : t ≠ d.null → d'.cell t = .var (d.get (.slot t)) n0)
    (hoth : ∀ j ∈ s.ids, j ≠ t → d'.cell j = d.cell j)
    (hnew : Lk d' b n0 (.cons key id .nil .nil)) :
    Lk d' b (if t ≠ d.null then h else n0) (s.snoc key id) := by
  by_cases htn : t = d.null
  · have : s = .nil := (last_null_iff hl).1 (ht ▸ htn)
    subst this
    simp only [htn, ne_eq, not_true_eq_false, if_false, Forest.snoc]
    exact hnew
  · have hne : s ≠ .nil := fun e => htn (by rw [ht]; exact (last_null_iff hl).2 e)
    simp only [ne_eq, htn, not_false_eq_true, if_true]
    subst ht
    exact Lk_snoc hn s hl hne hnd (hct htn) hoth hnew

/-- where a reference can point: the root or a value slot of the layout -/
def isLoc (F : Forest) : Loc → Prop
  | .root => True
  | .slot i => i ∈ F.locs

/-- the abstract tree of `d` (laid out as `F`) in which the value at location `l` is replaced by `x`, everything
    else unchanged -/
def absWith (d : Doc) (F : Forest) (l : Loc) (x : Val) : Val :=
  match l with
  | .root => x
  | .slot i => mkVal d d.root (vals d (ov1 i x) F)

/-- layout of the value at a location -/
def layoutAt (F : Forest) : Loc → Forest
  | .root => F
  | .slot i => F.subOf i

/-- layout of the document after the layout at a location has been replaced -/
def replaceAt (F : Forest) (l : Loc) (s' : Forest) : Forest :=
  match l with
  | .root => s'
  | .slot i => F.replaceSub i s'

theorem VOK_at {d : Doc} {F : Forest} (w : WFG d F) {l : Loc} (hl : isLoc F l) : VOK d (d.get l) (layoutAt F l) := by
  cases l with
  | root => exact w.root
  | slot i =>
    have hne : F ≠ .nil := by intro e; subst e; cases hl
    obtain ⟨b, h, hlk, _⟩ := VOK_coll_of_ne_nil w.root hne
    exact (Forest.Lk_subOf F hlk w.nodup hl).2.2

theorem layoutAt_ids_sub (F : Forest) (l : Loc) : ∀ x ∈ (layoutAt F l).ids, x ∈ F.ids := by
  cases l with
  | root => intro x h; exact h
  | slot i => exact F.subOf_ids_sub i

theorem layoutAt_nodup {F : Forest} (hnd : F.ids.Nodup) {l : Loc} (hl : isLoc F l) : (layoutAt F l).ids.Nodup := by
  cases l with
  | root => exact hnd
  | slot i =>
    induction F with
    | nil => cases hl
    | cons k j s r ihs ihr =>
      obtain ⟨nds, ndr, njs, njr, nsr, nk⟩ := Forest.nodup_cons hnd
      simp only [layoutAt, Forest.subOf]
      split
      · exact nds
      · rename_i hji
        split
        · rename_i his; exact ihs nds his
        · rename_i his
          simp only [isLoc, Forest.locs, List.mem_cons, List.mem_append] at hl
          rcases hl with e | m | m
          · exact absurd e.symm hji
          · exact absurd m his
          · exact ihr ndr m

theorem toVal_at {d : Doc} {F : Forest} (w : WFG d F) {l : Loc} (hl : isLoc F l) :
    d.toVal (d.get l) = d.valOf (d.get l) (layoutAt F l) := by
  refine toVal_eq (VOK_at w hl) (Nat.lt_of_le_of_lt ?_ w.fuel_ok)
  exact List.Nodup.length_le_of_subset (layoutAt_nodup w.nodup hl) (fun x hx => layoutAt_ids_sub F l x hx)

/-- lifting a mutation below slot `i` to the document -/
theorem lift_slot {d d' : Doc} {F : Forest} {i : Nat} {v' : VData} {s' : Forest}
    (w : WFG d F) (hi : i ∈ F.locs) (hroot : d'.root = d.root) (hn : d'.null = d.null)
    (hcell : d'.cell i = .var v' (d.nextOf i)) (hv' : VOK d' v' s')
    (hout : ∀ j ∈ F.ids, j ≠ i → j ∉ (F.subOf i).ids → Good d d' j) :
    VOK d' d'.root (F.replaceSub i s') ∧
    d'.valOf d'.root (F.replaceSub i s') = absWith d F (.slot i) (d'.valOf v' s') := by
  have hne : F ≠ .nil := by intro e; subst e; cases hi
  obtain ⟨b, h, hlk, hc⟩ := VOK_coll_of_ne_nil w.root hne
  have c := ctx hn hcell hv' F hlk w.nodup hi hout
  rw [hroot]
  refine ⟨VOK_replace hn w.root hc (Forest.top_replaceSub i s' F)
    (fun b' h' hl' => (ctx hn hcell hv' F hl' w.nodup hi hout).1), ?_⟩
  simp only [Doc.valOf, absWith]
  rw [c.2, mkVal_coll hc]
  rfl

/-! ## Generic reconstruction of the invariant after a local mutation -/

theorem mem_ids_replaceAt {F : Forest} {l : Loc} (s' : Forest) (hnd : F.ids.Nodup) (hl : isLoc F l) (x : Nat) :
    x ∈ (replaceAt F l s').ids ↔ (x ∈ F.ids ∧ x ∉ (layoutAt F l).ids) ∨ x ∈ s'.ids := by
  cases l with
  | root =>
    simp only [replaceAt, layoutAt]
    constructor
    · intro h; exact Or.inr h
    · rintro (⟨h, hn⟩ | h)
      · exact absurd h hn
      · exact h
  | slot i => exact Forest.mem_ids_replaceSub F i s' hnd hl x

theorem nodup_replaceAt {F : Forest} {l : Loc} (s' : Forest) (hnd : F.ids.Nodup) (hl : isLoc F l)
    (hs' : s'.ids.Nodup) (hfresh : ∀ x ∈ s'.ids, x ∈ F.ids → x ∈ (layoutAt F l).ids) :
    (replaceAt F l s').ids.Nodup := by
  cases l with
  | root => exact hs'
  | slot i => exact Forest.nodup_replaceSub F i s' hnd hl hs' hfresh

theorem self_notin_layoutAt {F : Forest} (hnd : F.ids.Nodup) (i : Nat) : i ∉ (layoutAt F (.slot i)).ids :=
  Forest.self_notin_subOf F i hnd

theorem ext_ne_var {d : Doc} {e x : Nat} {p : Int} (he : d.cell e = .ext p) (hx : d.isVar x) : e ≠ x := by
  intro h; subst h; rw [Doc.isVar, he] at hx; cases hx

/-- lifting a mutation at location `l` (root or slot) to the document -/
theorem lift_at {d d' : Doc} {F : Forest} {l : Loc} {v' : VData} {s' : Forest}
    (w : WFG d F) (hl : isLoc F l) (hn : d'.null = d.null) (hget : d'.get l = v')
    (hslot : ∀ i, l = .slot i → d'.cell i = .var v' (d.nextOf i) ∧ d'.root = d.root)
    (hv' : VOK d' v' s')
    (hout : ∀ j ∈ F.ids, .slot j ≠ l → j ∉ (layoutAt F l).ids → Good d d' j) :
    VOK d' d'.root (replaceAt F l s') ∧ d'.valOf d'.root (replaceAt F l s') = absWith d F l (d'.valOf v' s') := by
  cases l with
  | root =>
    have : d'.root = v' := hget
    rw [this]; exact ⟨hv', rfl⟩
  | slot i =>
    obtain ⟨hc, hr⟩ := hslot i rfl
    exact lift_slot w hl hr hn hc hv' (fun j hj hji hjs => hout j hj (fun e => hji (by cases e; rfl)) hjs)

/-- the invariant after a mutation at `l` that leaves everything outside the layout at `l` alone -/
theorem wfg_replaceAt {d d' : Doc} {F : Forest} {l : Loc} {v' : VData} {s' : Forest}
    (w : WFG d F) (hl : isLoc F l) (hn : d'.null = d.null) (hget : d'.get l = v')
    (hslot : ∀ i, l = .slot i → d'.cell i = .var v' (d.nextOf i) ∧ d'.root = d.root)
    (hv' : VOK d' v' s')
    (hout : ∀ j ∈ F.ids, .slot j ≠ l → j ∉ (layoutAt F l).ids → Good d d' j)
    (hs'nd : s'.ids.Nodup) (hs'fresh : ∀ x ∈ s'.ids, x ∈ F.ids → x ∈ (layoutAt F l).ids)
    (hs'lt : ∀ x ∈ s'.ids, x < d.null) (hpool : PL.Inv d'.g d'.pl) (hs'free : ∀ x ∈ s'.ids, PL.live d'.g d'.pl x)
    (hfree : ∀ x ∈ F.ids, x ∉ (layoutAt F l).ids → PL.live d'.g d'.pl x)
    (hext : ExtOK d' (replaceAt F l s')) :
    WFG d' (replaceAt F l s') ∧ abs d' = absWith d F l (d'.valOf v' s') := by
  obtain ⟨h1, h2⟩ := lift_at w hl hn hget hslot hv' hout
  have hm := mem_ids_replaceAt s' w.nodup hl
  have w' : WFG d' (replaceAt F l s') := by
    refine ⟨h1, nodup_replaceAt s' w.nodup hl hs'nd hs'fresh, ?_, hpool, ?_, hext⟩
    · intro x hx; rw [hn]
      rcases (hm x).1 hx with ⟨h, _⟩ | h
      · exact w.lt x h
      · exact hs'lt x h
    · intro x hx
      rcases (hm x).1 hx with ⟨h, hns⟩ | h
      · exact hfree x h hns
      · exact hs'free x h
  exact ⟨w', by rw [abs_eq w', h2]⟩

/-- extension-slot invariant after a mutation that creates no new reference to an extension slot -/
theorem ExtOK_of {d d' : Doc} {F F' : Forest} (hx : ExtOK d F)
    (hh : ∀ l ∈ holders F', extOfV (d'.get l) = [] ∨ (l ∈ holders F ∧ d'.get l = d.get l))
    (hc : ∀ l ∈ holders F', l ∈ holders F → d'.get l = d.get l → ∀ e ∈ extOfV (d.get l),
      d'.cell e = d.cell e ∧ PL.live d'.g d'.pl e) : ExtOK d' F' := by
  intro l hl e he
  rcases hh l hl with h0 | ⟨hlF, hg⟩
  · rw [h0] at he; cases he
  · rw [hg] at he
    obtain ⟨⟨p, hp⟩, _, hu⟩ := hx l hlF e he
    obtain ⟨hce, hfe⟩ := hc l hl hlF hg e he
    refine ⟨⟨p, by rw [hce, hp]⟩, hfe, ?_⟩
    intro l2 hl2 he2
    rcases hh l2 hl2 with h0 | ⟨hl2F, hg2⟩
    · rw [h0] at he2; cases he2
    · rw [hg2] at he2; exact hu l2 hl2F he2

/-! ## `appendOne` -/

theorem append_local {d d' : Doc} {s : Forest} {h t id : Nat} (hv : VOK d (.arr h t) s) (hnd : s.ids.Nodup)
    (hn : d'.null = d.null) (hstr : d'.strings = d.strings)
    (hid : d'.cell id = .var .null d.null) (hidn : id ≠ d.null)
    (hct : t ≠ d.null → d'.cell t = .var (d.get (.slot t)) id)
    (hoth : ∀ j ∈ s.ids, j ≠ t → d'.cell j = d.cell j)
    (hext : ∀ j ∈ s.ids, ∀ e ∈ extOfV (d.get (.slot j)), d'.cell e = d.cell e) :
    VOK d' (.arr (if t ≠ d.null then h else id) id) (s.snoc none id) ∧
    d'.valOf (.arr (if t ≠ d.null then h else id) id) (s.snoc none id) = .arr ((vals d noOv s).map (·.2) ++ [.null]) := by
  obtain ⟨hl, ht⟩ := (VOK_arr d h t s).1 hv
  have hnew : Lk d' false id (.cons none id .nil .nil) := by
    rw [Lk_cons]
    refine ⟨rfl, hn ▸ hidn, isVar_of_var hid, ?_, ?_⟩
    · rw [nextOf_of_var hid, Lk_nil, hn]
    · rw [get_of_var hid]; rfl
  have hg : ∀ j ∈ s.ids, d'.get (.slot j) = d.get (.slot j) := by
    intro j hj
    by_cases hjt : j = t
    · subst hjt
      have htn : j ≠ d.null := by
        intro e
        have : s = .nil := (last_null_iff hl).1 (ht ▸ e)
        subst this; cases hj
      exact get_of_var (hct htn)
    · exact get_of_cell (hoth j hj hjt)
  have hsa : SAgree d d' s.ids := fun j hj =>
    scalar_congr (fun n _ => strBytes_of_strings hstr n) (hext j hj)
  constructor
  · rw [VOK_arr]
    exact ⟨append_chain hn hl ht hnd hct hoth hnew, (top_snoc_last s none id _).symm⟩
  · simp only [Doc.valOf, mkVal]
    rw [vals_snoc, vals_congr' noOv s hg hsa, get_of_var hid]
    simp [noOv, mkVal, Doc.scalar]

theorem appendOne_get {d : Doc} {l : Loc} {h t id : Nat} (hv : d.get l = .arr h t) :
    d.appendOne l id = if t ≠ d.null then (d.setNext t id).set l (.arr h id) else d.set l (.arr id id) := by
  simp only [Doc.appendOne, hv]

/-- cells of the document after `appendOne` -/
theorem appendOne_cells {d : Doc} {l : Loc} {h t id : Nat} (hv : d.get l = .arr h t) (htl : .slot t ≠ l) :
    let d' := d.appendOne l id
    d'.null = d.null ∧ d'.strings = d.strings ∧ d'.pl = d.pl ∧ d'.g = d.g ∧
    d'.get l = .arr (if t ≠ d.null then h else id) id ∧
    (∀ j, .slot j ≠ l → (t ≠ d.null → j ≠ t) → d'.cell j = d.cell j) ∧
    (t ≠ d.null → d.isVar t → d'.cell t = .var (d.get (.slot t)) id) ∧
    (l ≠ .root → d'.root = d.root) ∧
    (∀ i, l = .slot i → d'.cell i = .var (.arr (if t ≠ d.null then h else id) id) (d.nextOf i)) := by
  intro d'
  have hd' : d' = if t ≠ d.null then (d.setNext t id).set l (.arr h id) else d.set l (.arr id id) := appendOne_get hv
  by_cases htn : t = d.null
  · simp only [htn, ne_eq, not_true_eq_false, if_false] at hd' ⊢
    rw [hd']
    refine ⟨set_null _ _ _, set_strings _ _ _, set_pl _ _ _, set_g _ _ _, get_set_self _ _ _, ?_, fun h => h.elim, ?_, ?_⟩
    · intro j hj _
      cases l with
      | root => rfl
      | slot i => rw [cell_set_slot, if_neg (fun (e : i = j) => hj (by rw [e]))]
    · intro hl; cases l with
      | root => exact absurd rfl hl
      | slot i => rfl
    · intro i hi; subst hi; rw [cell_set_slot, if_pos rfl]
  · simp only [ne_eq, htn, not_false_eq_true, if_true] at hd' ⊢
    rw [hd']
    refine ⟨by rw [set_null, setNext_null], by rw [set_strings, setNext_strings], by rw [set_pl, setNext_pl],
      by rw [set_g, setNext_g], get_set_self _ _ _, ?_, ?_, ?_, ?_⟩
    · intro j hj hjt
      cases l with
      | root => exact cell_setNext_ne d id (Ne.symm (hjt trivial))
      | slot i => rw [cell_set_slot, if_neg (fun (e : i = j) => hj (by rw [e]))]; exact cell_setNext_ne d id (Ne.symm (hjt trivial))
    · intro _ hvar
      cases l with
      | root => exact cell_setNext_var hvar id
      | slot i => rw [cell_set_slot, if_neg (fun (e : i = t) => htl (by rw [e]))]; exact cell_setNext_var hvar id
    · intro hl; cases l with
      | root => exact absurd rfl hl
      | slot i => exact setNext_root d t id
    · intro i hi; subst hi
      rw [cell_set_slot, if_pos rfl]
      have : (d.setNext t id).nextOf i = d.nextOf i :=
        nextOf_of_cell (cell_setNext_ne d id (fun (e : t = i) => htl (by rw [e]))) (setNext_null d t id)
      rw [this]

theorem Lk_ids_isVar {d : Doc} (F : Forest) : ∀ {b : Bool} {h : Nat}, Lk d b h F → ∀ x ∈ F.ids, d.isVar x := by
  induction F with
  | nil => intro b h _ x hx; cases hx
  | cons key i s r ihs ihr =>
    intro b h hl x hx
    rw [Lk_cons] at hl
    obtain ⟨h1, _, h3, h4, h5⟩ := hl
    simp only [Forest.ids, List.mem_append, List.mem_cons] at hx
    rcases hx with hx | hx | hx | hx
    · cases b <;> cases key <;> simp only [KeyOK] at h1 <;> simp only [Forest.keyL, List.mem_singleton] at hx
      · cases hx
      · subst hx; exact h1.2.2.1
    · subst hx; exact h3
    · have hne : s ≠ .nil := by intro e; subst e; cases hx
      obtain ⟨bb, hd, hls, _⟩ := VOK_coll_of_ne_nil h5 hne
      exact ihs hls x hx
    · exact ihr h4 x hx

theorem WFG.isVar {d : Doc} {F : Forest} (w : WFG d F) : ∀ x ∈ F.ids, d.isVar x := by
  intro x hx
  have hne : F ≠ .nil := by intro e; subst e; cases hx
  obtain ⟨b, h, hlk, _⟩ := VOK_coll_of_ne_nil w.root hne
  exact Lk_ids_isVar F hlk x hx

theorem isLoc_ids {F : Forest} {i : Nat} (h : isLoc F (.slot i)) : i ∈ F.ids := F.locs_sub_ids i h

/-- `CollectionData::appendOne` of a fresh slot refines `xs ++ [null]` on the array at `l`; nothing else changes -/
theorem appendOne_spec {d : Doc} {F : Forest} {l : Loc} {h t id : Nat} (w : WFG d F) (hl : isLoc F l)
    (hv : d.get l = .arr h t) (hid : d.cell id = .var .null d.null) (hidF : id ∉ F.ids) (hlt : id < d.null)
    (hfree : PL.live d.g d.pl id) :
    WFG (d.appendOne l id) (replaceAt F l ((layoutAt F l).snoc none id)) ∧
    ∃ xs, d.toVal (d.get l) = .arr xs ∧ abs (d.appendOne l id) = absWith d F l (.arr (xs ++ [.null])) := by
  have hvs : VOK d (.arr h t) (layoutAt F l) := hv ▸ VOK_at w hl
  obtain ⟨hlk, ht⟩ := (VOK_arr _ _ _ _).1 hvs
  have hsF := layoutAt_ids_sub F l
  have hsnd := layoutAt_nodup w.nodup hl
  -- the old tail
  have htfacts : t ≠ d.null → t ∈ (layoutAt F l).ids ∧ d.isVar t := by
    intro htn
    have hne : layoutAt F l ≠ .nil := fun e => htn (by rw [ht]; exact (last_null_iff hlk).2 e)
    obtain ⟨t', ht', hm⟩ := Forest.top_ne_nil hne
    have : t = t' := by rw [ht, ht']; rfl
    subst this
    exact ⟨(layoutAt F l).top_sub_ids t hm, Lk_top_isVar _ hlk t hm⟩
  have hlns : ∀ i, l = .slot i → i ∉ (layoutAt F l).ids ∧ i ∈ F.ids ∧ d.isVar i := by
    intro i e; subst e
    exact ⟨self_notin_layoutAt w.nodup i, isLoc_ids hl, w.isVar i (isLoc_ids hl)⟩
  have htl : Loc.slot t ≠ l := by
    intro e
    obtain ⟨h1, h2, _⟩ := hlns t e.symm
    by_cases htn : t = d.null
    · exact absurd (w.lt t h2) (by rw [htn]; exact Nat.lt_irrefl _)
    · exact h1 (htfacts htn).1
  obtain ⟨hn, hstr, hpl, hg, hget, hco, hct, hroot, hci⟩ := appendOne_cells (id := id) hv htl
  generalize d.appendOne l id = d' at *
  -- cells that keep their content
  have hcid : d'.cell id = .var .null d.null := by
    rw [hco id ?_ ?_, hid]
    · intro e; exact hidF (hlns id e.symm).2.1
    · intro htn e; exact hidF (hsF _ (e ▸ (htfacts htn).1))
  have hextcell : ∀ l0 ∈ holders F, ∀ e ∈ extOfV (d.get l0), d'.cell e = d.cell e := by
    intro l0 hl0 e he
    obtain ⟨⟨p, hp⟩, _, _⟩ := w.ext l0 hl0 e he
    refine hco e ?_ ?_
    · intro e'; exact ext_ne_var hp (hlns e e'.symm).2.2 rfl
    · intro htn; exact ext_ne_var hp (htfacts htn).2
  have hslotsame : ∀ j ∈ F.ids, Loc.slot j ≠ l → j ∉ (layoutAt F l).ids → d'.cell j = d.cell j := by
    intro j _ hjl hjs
    exact hco j hjl (fun htn e => hjs (e ▸ (htfacts htn).1))
  have hgs : ∀ j ∈ (layoutAt F l).ids, d'.get (.slot j) = d.get (.slot j) := by
    intro j hj
    by_cases hjt : j = t
    · subst hjt
      have htn : j ≠ d.null := fun e => absurd (w.lt j (hsF j hj)) (by rw [e]; exact Nat.lt_irrefl _)
      exact get_of_var (hct htn (htfacts htn).2)
    · refine get_of_cell (hco j ?_ (fun _ => hjt))
      intro e; exact (hlns j e.symm).1 hj
  have hloc := append_local (d' := d') hvs hsnd hn hstr hcid (Nat.ne_of_lt hlt)
    (fun htn => hct htn (htfacts htn).2)
    (fun j hj hjt => hco j (fun e => (hlns j e.symm).1 hj) (fun _ => hjt))
    (fun j hj e he => hextcell (.slot j) (mem_holders.2 (Or.inr ⟨j, hsF j hj, rfl⟩)) e he)
  have hids' : ∀ x, x ∈ ((layoutAt F l).snoc none id).ids ↔ x ∈ (layoutAt F l).ids ∨ x = id := by
    intro x; rw [Forest.ids_snoc]; simp [Forest.keyL]
  have hres := wfg_replaceAt (d' := d') (s' := (layoutAt F l).snoc none id) w hl hn hget
    (fun i e => ⟨hci i e, hroot (by rw [e]; exact fun e' => by cases e')⟩) hloc.1
    (fun j hj hjl hjs => good_of hstr (hslotsame j hj hjl hjs)
      (fun e he => hextcell (.slot j) (mem_holders.2 (Or.inr ⟨j, hj, rfl⟩)) e he))
    (by
      rw [Forest.ids_snoc]
      refine List.nodup_append.2 ⟨hsnd, by simp [Forest.keyL], ?_⟩
      intro a ha b hb e; subst e
      simp only [Forest.keyL, List.nil_append, List.mem_singleton] at hb
      exact hidF (hsF _ (hb ▸ ha)))
    (fun x hx hxF => by
      rcases (hids' x).1 hx with h' | h'
      · exact h'
      · exact absurd (h' ▸ hxF) hidF)
    (fun x hx => by
      rcases (hids' x).1 hx with h' | h'
      · exact w.lt x (hsF x h')
      · exact h' ▸ hlt)
    (by rw [hpl, hg]; exact w.pool)
    (fun x hx => by
      rw [hpl, hg]
      rcases (hids' x).1 hx with h' | h'
      · exact w.live x (hsF x h')
      · exact h' ▸ hfree)
    (fun x hx _ => by rw [hpl, hg]; exact w.live x hx)
    (by
      refine ExtOK_of w.ext ?_ ?_
      · intro l' hl'
        rcases mem_holders.1 hl' with e | ⟨x, hx, e⟩
        · subst e
          by_cases hlr : l = .root
          · subst hlr; left; rw [hget]; rfl
          · right; exact ⟨mem_holders.2 (Or.inl rfl), hroot hlr⟩
        · subst e
          rcases (mem_ids_replaceAt _ w.nodup hl x).1 hx with ⟨hxF, hxs⟩ | hxs
          · by_cases hxl : Loc.slot x = l
            · left; rw [hxl, hget]; rfl
            · right
              exact ⟨mem_holders.2 (Or.inr ⟨x, hxF, rfl⟩), get_of_cell (hslotsame x hxF hxl hxs)⟩
          · rcases (hids' x).1 hxs with h' | h'
            · right; exact ⟨mem_holders.2 (Or.inr ⟨x, hsF x h', rfl⟩), hgs x h'⟩
            · left; rw [h', get_of_var hcid]; rfl
      · intro l' _ hl'F _ e he
        refine ⟨hextcell l' hl'F e he, ?_⟩
        rw [hpl, hg]; exact (w.ext l' hl'F e he).2.1)
  refine ⟨hres.1, (vals d noOv (layoutAt F l)).map (·.2), ?_, ?_⟩
  · rw [toVal_at w hl, hv]; rfl
  · rw [hres.2, hloc.2]

/-! ## Storing a scalar -/

theorem Forest.replaceSub_self (F : Forest) (i : Nat) (hnd : F.ids.Nodup) (hi : i ∈ F.locs) :
    F.replaceSub i (F.subOf i) = F := by
  induction F with
  | nil => rfl
  | cons k j s r ihs ihr =>
    obtain ⟨nds, ndr, njs, njr, nsr, nk⟩ := Forest.nodup_cons hnd
    by_cases hji : j = i
    · simp only [Forest.replaceSub, Forest.subOf, if_pos hji]
    · simp only [Forest.locs, List.mem_cons, List.mem_append] at hi
      by_cases his : i ∈ s.locs
      · have hir : i ∉ r.locs := fun m => nsr i (s.locs_sub_ids i his) (r.locs_sub_ids i m)
        simp only [Forest.replaceSub, Forest.subOf, if_neg hji, if_pos his, ihs nds his,
          Forest.replaceSub_of_notin i _ r hir]
      · have hir : i ∈ r.locs := by
          rcases hi with e | m | m
          · exact absurd e.symm hji
          · exact absurd m his
          · exact m
        simp only [Forest.replaceSub, Forest.subOf, if_neg hji, if_neg his, ihr ndr hir,
          Forest.replaceSub_of_notin i _ s his]

theorem replaceAt_self {F : Forest} {l : Loc} (hnd : F.ids.Nodup) (hl : isLoc F l) : replaceAt F l (layoutAt F l) = F := by
  cases l with
  | root => rfl
  | slot i => exact Forest.replaceSub_self F i hnd hl

theorem layoutAt_nil_of_scalar {d : Doc} {F : Forest} (w : WFG d F) {l : Loc} (hl : isLoc F l)
    (hs : ¬ isColl (d.get l)) : layoutAt F l = .nil :=
  (VOK_scalar hs _).1 (VOK_at w hl)

theorem cell_set_ne {d : Doc} {l : Loc} {v : VData} {j : Nat} (h : Loc.slot j ≠ l) : (d.set l v).cell j = d.cell j := by
  cases l with
  | root => rfl
  | slot i => rw [cell_set_slot, if_neg (fun (e : i = j) => h (by rw [e]))]

theorem get_set_ne {d : Doc} {l l' : Loc} {v : VData} (h : l' ≠ l) : (d.set l v).get l' = d.get l' := by
  cases l' with
  | root =>
    cases l with
    | root => exact absurd rfl h
    | slot i => rfl
  | slot j => exact get_of_cell (cell_set_ne h)

theorem strBytes_set (d : Doc) (l : Loc) (v : VData) (n : Nat) : (d.set l v).strBytes n = d.strBytes n :=
  strBytes_of_strings (set_strings d l v) n

/-- Storing a non-collection value `v'` at a location that holds a non-collection, possibly after acquiring a
    resource for it (`d1`: the document after the extension slot / string node was obtained): the location then holds
    exactly that value and nothing else changes. -/
theorem set_scalar_gen {d d1 : Doc} {F : Forest} {l : Loc} {v' : VData} (w : WFG d F) (hl : isLoc F l)
    (hold : ¬ isColl (d.get l)) (hv' : ¬ isColl v')
    (hg : d1.g = d.g) (hroot : d1.root = d.root)
    (hcells : ∀ j ∈ F.ids, d1.cell j = d.cell j)
    (hextc : ∀ l0 ∈ holders F, l0 ≠ l → ∀ e ∈ extOfV (d.get l0), d1.cell e = d.cell e ∧ PL.live d1.g d1.pl e)
    (hstrb : ∀ l0 ∈ holders F, l0 ≠ l → ∀ n ∈ strOfV (d.get l0), d1.strBytes n = d.strBytes n)
    (hpool : PL.Inv d1.g d1.pl) (hlive : ∀ j ∈ F.ids, PL.live d1.g d1.pl j)
    (hnew : ∀ e ∈ extOfV v', (∃ p, d1.cell e = .ext p) ∧ PL.live d1.g d1.pl e ∧
      ∀ l0 ∈ holders F, l0 ≠ l → e ∉ extOfV (d.get l0)) :
    WFG (d1.set l v') F ∧ abs (d1.set l v') = absWith d F l (d1.scalar v') := by
  have hnil := layoutAt_nil_of_scalar w hl hold
  have hn1 : d1.null = d.null := by simp only [Doc.null, hg]
  have hn : (d1.set l v').null = d.null := by rw [set_null, hn1]
  have hvar : ∀ i, l = .slot i → d.isVar i := fun i e => w.isVar i (isLoc_ids (e ▸ hl))
  -- extension cells are not touched by the final `set`
  have hextne : ∀ e p, d1.cell e = .ext p → Loc.slot e ≠ l := by
    intro e p hp he
    have hi := isLoc_ids (he ▸ hl)
    have := hvar e he.symm
    rw [Doc.isVar, ← hcells e hi, hp] at this; cases this
  have hsc : (d1.set l v').scalar v' = d1.scalar v' := by
    refine scalar_congr (fun n _ => strBytes_set d1 l v' n) ?_
    intro e he
    obtain ⟨⟨p, hp⟩, _, _⟩ := hnew e he
    exact cell_set_ne (hextne e p hp)
  have hextc' : ∀ l0 ∈ holders F, l0 ≠ l → ∀ e ∈ extOfV (d.get l0), (d1.set l v').cell e = d.cell e := by
    intro l0 hl0 hne e he
    obtain ⟨⟨p, hp⟩, _, _⟩ := w.ext l0 hl0 e he
    rw [cell_set_ne (hextne e p (by rw [(hextc l0 hl0 hne e he).1, hp])), (hextc l0 hl0 hne e he).1]
  have hrep : replaceAt F l .nil = F := by rw [← hnil]; exact replaceAt_self w.nodup hl
  have hres := wfg_replaceAt (d' := d1.set l v') (v' := v') (s' := .nil) w hl hn (get_set_self _ _ _)
    (fun i e => by
      subst e
      refine ⟨?_, by rw [root_set_slot, hroot]⟩
      rw [cell_set_slot, if_pos rfl, nextOf_of_cell (hcells i (isLoc_ids hl)) hn1])
    ((VOK_scalar hv' _).2 rfl)
    (fun j hj hjl _ => by
      refine ⟨by rw [cell_set_ne hjl, hcells j hj], ?_⟩
      have hh : Loc.slot j ∈ holders F := mem_holders.2 (Or.inr ⟨j, hj, rfl⟩)
      exact scalar_congr (fun n hn' => by rw [strBytes_set, hstrb _ hh hjl n hn']) (hextc' _ hh hjl))
    (by simp [Forest.ids]) (fun x hx => by cases hx) (fun x hx => by cases hx)
    (by rw [set_pl, set_g]; exact hpool) (fun x hx => by cases hx)
    (fun x hx _ => by rw [set_pl, set_g]; exact hlive x hx)
    (by
      rw [hrep]
      intro l' hl' e he
      by_cases hll : l' = l
      · subst hll
        rw [get_set_self] at he
        obtain ⟨⟨p, hp⟩, hlv, hnr⟩ := hnew e he
        refine ⟨⟨p, by rw [cell_set_ne (hextne e p hp), hp]⟩, by rw [set_pl, set_g]; exact hlv, ?_⟩
        intro l2 hl2 he2
        by_cases h2 : l2 = l'
        · exact h2
        · rw [get_set_ne h2] at he2
          have : d1.get l2 = d.get l2 := by
            rcases mem_holders.1 hl2 with e' | ⟨x, hx, e'⟩
            · subst e'; exact hroot
            · subst e'; exact get_of_cell (hcells x hx)
          rw [this] at he2
          exact absurd he2 (hnr l2 hl2 h2)
      · rw [get_set_ne hll] at he
        have hsame : d1.get l' = d.get l' := by
          rcases mem_holders.1 hl' with e' | ⟨x, hx, e'⟩
          · subst e'; exact hroot
          · subst e'; exact get_of_cell (hcells x hx)
        rw [hsame] at he
        obtain ⟨⟨p, hp⟩, _, hu⟩ := w.ext l' hl' e he
        refine ⟨⟨p, by rw [hextc' l' hl' hll e he, hp]⟩, by rw [set_pl, set_g]; exact (hextc l' hl' hll e he).2, ?_⟩
        intro l2 hl2 he2
        by_cases h2 : l2 = l
        · subst h2
          rw [get_set_self] at he2
          exact absurd he ((hnew e he2).2.2 l' hl' hll)
        · rw [get_set_ne h2] at he2
          have : d1.get l2 = d.get l2 := by
            rcases mem_holders.1 hl2 with e' | ⟨x, hx, e'⟩
            · subst e'; exact hroot
            · subst e'; exact get_of_cell (hcells x hx)
          rw [this] at he2
          exact hu l2 hl2 he2)
  rw [hrep] at hres
  refine ⟨hres.1, ?_⟩
  rw [hres.2, Doc.valOf, mkVal_scalar hv', hsc]

/-! ## Acquiring resources -/

theorem live_congr {g : PL.Geo} {s s' : PL.St} (h1 : s'.pools = s.pools) (h4 : s'.free = s.free) (x : Nat) :
    PL.live g s' x ↔ PL.live g s x := by
  simp only [PL.live, PL.allocated, h1, h4]

/-- `allocExt` hands out a slot that nothing in the document uses -/
theorem allocExt_spec {d d1 : Doc} {F : Forest} {p : Int} {e : Nat} (w : WFG d F) (gok : PL.GeoOK d.g)
    (h : d.allocExt p = (some e, d1)) :
    d1.g = d.g ∧ d1.root = d.root ∧ d1.strings = d.strings ∧ d1.cell e = .ext p ∧ (∀ j, j ≠ e → d1.cell j = d.cell j) ∧
    PL.Inv d1.g d1.pl ∧ (∀ x, PL.live d1.g d1.pl x ↔ PL.live d.g d.pl x ∨ x = e) ∧ ¬ PL.live d.g d.pl e ∧
    e < d.null := by
  simp only [Doc.allocExt] at h
  split at h
  · rename_i id pl heq
    simp only [Prod.mk.injEq, Option.some.injEq] at h
    obtain ⟨rfl, rfl⟩ := h
    obtain ⟨a, b, c, dd⟩ := C19.alloc_fresh gok w.pool heq
    refine ⟨rfl, rfl, rfl, ?_, ?_, dd, c, b, a⟩
    · rw [cell_insert, if_pos rfl]
    · intro j hj; rw [cell_insert, if_neg (Ne.symm hj)]
  · simp only [Prod.mk.injEq] at h; exact absurd h.1 (by simp)

theorem find_id_of_nodup {l : List StrNode} (hnd : (l.map (·.id)).Nodup) {x : StrNode} (hx : x ∈ l) :
    l.find? (·.id == x.id) = some x := by
  induction l with
  | nil => cases hx
  | cons y ys ih =>
    simp only [List.map_cons, List.nodup_cons] at hnd
    rcases List.mem_cons.1 hx with e | m
    · subst e; simp [List.find?]
    · have hne : y.id ≠ x.id := fun e => hnd.1 (e ▸ List.mem_map_of_mem m)
      simp only [List.find?]
      have : (y.id == x.id) = false := by simp [hne]
      rw [this]; exact ih hnd.2 m

def strBytesL (l : List StrNode) (m : Nat) : List Byte :=
  match l.find? (·.id == m) with | some n => n.bytes | none => []
theorem strBytes_eq (d : Doc) (m : Nat) : d.strBytes m = strBytesL d.strings m := rfl

theorem strBytesL_map (l : List StrNode) (f : StrNode → StrNode) (hf : ∀ y, (f y).id = y.id ∧ (f y).bytes = y.bytes)
    (m : Nat) : strBytesL (l.map f) m = strBytesL l m := by
  simp only [strBytesL, List.find?_map]
  have : ((fun (y : StrNode) => y.id == m) ∘ f) = fun y => y.id == m := by
    funext y; simp only [Function.comp, (hf y).1]
  rw [this]
  cases l.find? (fun y => y.id == m) with
  | none => rfl
  | some y => simp only [Option.map_some, (hf y).2]

/-- `saveString` returns a node holding exactly the bytes; existing nodes keep their bytes -/
theorem saveString_spec {d d1 : Doc} {s : List Byte} {n : Nat}
    (hnd : (d.strings.map (·.id)).Nodup) (hlt : ∀ x ∈ d.strings, x.id < d.nextNode)
    (h : d.saveString s = (some n, d1)) :
    d1.g = d.g ∧ d1.root = d.root ∧ d1.cells = d.cells ∧ d1.strBytes n = s ∧
    (∀ m, (∃ x ∈ d.strings, x.id = m) → d1.strBytes m = d.strBytes m) ∧
    d1.pl.pools = d.pl.pools ∧ d1.pl.free = d.pl.free ∧ d1.pl.tableCap = d.pl.tableCap ∧
    d1.pl.tableHeap = d.pl.tableHeap := by
  simp only [Doc.saveString] at h
  split at h
  · rename_i x hfind
    simp only [Prod.mk.injEq, Option.some.injEq] at h
    obtain ⟨rfl, rfl⟩ := h
    have hx : x ∈ d.strings := List.mem_of_find?_eq_some hfind
    have hb : x.bytes = s := by have := List.find?_some hfind; simpa using this
    have hmap : ∀ m, strBytesL (d.strings.map
        (fun y => if y.id == x.id then { y with refs := y.refs + 1 } else y)) m = d.strBytes m := by
      intro m
      rw [strBytes_eq]
      refine strBytesL_map _ _ (fun y => ?_) m
      split <;> exact ⟨rfl, rfl⟩
    refine ⟨rfl, rfl, rfl, ?_, fun m _ => hmap m, rfl, rfl, rfl, rfl⟩
    show strBytesL _ x.id = s
    rw [hmap, Doc.strBytes, find_id_of_nodup hnd hx]; exact hb
  · rename_i hfind
    split at h
    · simp only [Prod.mk.injEq] at h; exact absurd h.1 (by simp)
    generalize hal : d.pl.alloc (s.length + d.strOverhead) = r at h
    obtain ⟨ok, pl⟩ := r
    simp only at h
    split at h
    · simp only [Prod.mk.injEq] at h; exact absurd h.1 (by simp)
    · simp only [Prod.mk.injEq, Option.some.injEq] at h
      obtain ⟨rfl, rfl⟩ := h
      have hpl : pl = (d.pl.alloc (s.length + d.strOverhead)).2 := by rw [hal]
      refine ⟨rfl, rfl, rfl, ?_, ?_, ?_, ?_, ?_, ?_⟩
      · simp [Doc.strBytes, List.find?]
      · rintro m ⟨x, hx, rfl⟩
        have hne : d.nextNode ≠ x.id := Nat.ne_of_gt (hlt x hx)
        simp only [Doc.strBytes, List.find?]
        have : (d.nextNode == x.id) = false := by simp [hne]
        rw [this]
      all_goals (rw [hpl]; rfl)

/-! ## `setArg` building blocks -/

theorem set_plain {d : Doc} {F : Forest} {l : Loc} {v' : VData} (w : WFG d F) (hl : isLoc F l)
    (hold : ¬ isColl (d.get l)) (hv' : ¬ isColl v') (he : extOfV v' = []) :
    WFG (d.set l v') F ∧ abs (d.set l v') = absWith d F l (d.scalar v') :=
  set_scalar_gen w hl hold hv' rfl rfl (fun _ _ => rfl) (fun l0 h0 _ e he => ⟨rfl, (w.ext l0 h0 e he).2.1⟩)
    (fun _ _ _ _ _ => rfl) w.pool w.live (by rw [he]; intro e h; cases h)

theorem set_ext {d d1 : Doc} {F : Forest} {l : Loc} {v' : VData} {p : Int} {e : Nat} (w : WFG d F) (hl : isLoc F l)
    (gok : PL.GeoOK d.g) (hold : ¬ isColl (d.get l)) (h : d.allocExt p = (some e, d1)) (hv' : ¬ isColl v')
    (he : extOfV v' = [e]) :
    WFG (d1.set l v') F ∧ abs (d1.set l v') = absWith d F l (d1.scalar v') ∧ d1.extOf e = p := by
  obtain ⟨hg, hroot, hstr, hce, hco, hpool, hlive, hnl, _⟩ := allocExt_spec w gok h
  have hne : ∀ x, PL.live d.g d.pl x → x ≠ e := fun x hx e' => hnl (e' ▸ hx)
  have := set_scalar_gen (d1 := d1) (v' := v') w hl hold hv' hg hroot
    (fun j hj => hco j (hne j (w.live j hj)))
    (fun l0 h0 _ e0 he0 => ⟨hco e0 (hne e0 (w.ext l0 h0 e0 he0).2.1), (hlive e0).2 (Or.inl (w.ext l0 h0 e0 he0).2.1)⟩)
    (fun _ _ _ n _ => strBytes_of_strings hstr n) hpool (fun j hj => (hlive j).2 (Or.inl (w.live j hj)))
    (by
      rw [he]; intro e' he'
      simp only [List.mem_singleton] at he'; subst he'
      exact ⟨⟨p, hce⟩, (hlive e').2 (Or.inr rfl), fun l0 h0 _ hm => hnl (w.ext l0 h0 e' hm).2.1⟩)
  exact ⟨this.1, this.2, by simp only [Doc.extOf, hce]⟩

theorem set_copied {d d1 : Doc} {F : Forest} {l : Loc} {v' : VData} {s : List Byte} {n : Nat} (w : WFG d F)
    (hl : isLoc F l) (hs : StrOK d (d.strRefs F)) (hold : ¬ isColl (d.get l)) (h : d.saveString s = (some n, d1))
    (hv' : ¬ isColl v') (he : extOfV v' = []) :
    WFG (d1.set l v') F ∧ abs (d1.set l v') = absWith d F l (d1.scalar v') ∧ d1.strBytes n = s := by
  obtain ⟨hg, hroot, hcells, hb, hkeep, h1, h2, h3, h4⟩ := saveString_spec hs.ids_nodup hs.ids_lt h
  have hc : ∀ j, d1.cell j = d.cell j := fun j => by simp only [Doc.cell, hcells]
  have := set_scalar_gen (d1 := d1) (v' := v') w hl hold hv' hg hroot (fun j _ => hc j)
    (fun l0 h0 _ e0 he0 => ⟨hc e0, by rw [hg, live_congr h1 h2]; exact (w.ext l0 h0 e0 he0).2.1⟩)
    (fun l0 h0 _ m hm => hkeep m (hs.present m (by
      simp only [Doc.strRefs, List.mem_flatMap]; exact ⟨l0, h0, hm⟩)))
    (by rw [hg]; exact w.pool.congr h1 h3 h4 h2)
    (fun j hj => by rw [hg, live_congr h1 h2]; exact w.live j hj)
    (by rw [he]; intro e h; cases h)
  exact ⟨this.1, this.2, hb⟩

/-! ## Releasing a string reference -/

theorem count_cons_le (a n : Nat) (keep : List Nat) : keep.count a ≤ (n :: keep).count a := by
  rw [List.count_cons]; omega

/-- `derefString` of one reference: the table stays consistent for the remaining references `keep`, and every node
    still referenced keeps its bytes (a node is only removed when its last reference goes) -/
theorem derefString_spec {d : Doc} {n : Nat} {keep : List Nat} (hs : StrOK d (n :: keep)) :
    (d.derefString n).g = d.g ∧ (d.derefString n).root = d.root ∧ (d.derefString n).cells = d.cells ∧
    (d.derefString n).pl.pools = d.pl.pools ∧ (d.derefString n).pl.free = d.pl.free ∧
    (d.derefString n).pl.tableCap = d.pl.tableCap ∧ (d.derefString n).pl.tableHeap = d.pl.tableHeap ∧
    StrOK (d.derefString n) keep ∧ ∀ m ∈ keep, (d.derefString n).strBytes m = d.strBytes m := by
  obtain ⟨x, hx, hxid⟩ := hs.present n (by simp)
  have hf : d.strings.find? (·.id == n) = some x := by rw [← hxid]; exact find_id_of_nodup hs.ids_nodup hx
  have hcnt : keep.count n + 1 ≤ x.refs := by
    have := hs.refs x hx
    rw [hxid, List.count_cons] at this; simpa using this
  simp only [Doc.derefString, hf]
  split
  · rename_i hle
    have hnk : n ∉ keep := by
      intro hm
      have : 0 < keep.count n := List.count_pos_iff.2 hm
      omega
    refine ⟨rfl, rfl, rfl, rfl, rfl, rfl, rfl, ⟨?_, ?_, ?_, ?_⟩, ?_⟩
    · exact List.Nodup.sublist ((List.filter_sublist).map _) hs.ids_nodup
    · intro y hy; exact hs.ids_lt y (List.mem_filter.1 hy).1
    · intro y hy
      exact Nat.le_trans (count_cons_le _ _ _) (hs.refs y (List.mem_filter.1 hy).1)
    · intro r hr
      obtain ⟨y, hy, hyid⟩ := hs.present r (List.mem_cons_of_mem _ hr)
      refine ⟨y, List.mem_filter.2 ⟨hy, ?_⟩, hyid⟩
      have : y.id ≠ n := by rw [hyid]; intro e; exact hnk (e ▸ hr)
      simpa using this
    · intro m hm
      have hmn : m ≠ n := fun e => hnk (e ▸ hm)
      show strBytesL _ m = strBytesL _ m
      simp only [strBytesL, List.find?_filter]
      have : (fun (a : StrNode) => decide ((a.id != n) = true ∧ (a.id == m) = true)) = fun a => a.id == m := by
        funext a
        by_cases ha : a.id = m
        · simp [ha, hmn]
        · simp [ha]
      rw [this]
  · rename_i hgt
    have hfid : ∀ y : StrNode, (if y.id == n then { y with refs := y.refs - 1 } else y).id = y.id ∧
        (if y.id == n then { y with refs := y.refs - 1 } else y).bytes = y.bytes := by
      intro y; split <;> exact ⟨rfl, rfl⟩
    refine ⟨rfl, rfl, rfl, rfl, rfl, rfl, rfl, ⟨?_, ?_, ?_, ?_⟩, ?_⟩
    · have : (d.strings.map (fun y => if y.id == n then { y with refs := y.refs - 1 } else y)).map (·.id)
          = d.strings.map (·.id) := by
        rw [List.map_map]; congr 1; funext y; exact (hfid y).1
      show (List.map (fun (x : StrNode) => x.id) (d.strings.map _)).Nodup
      rw [this]; exact hs.ids_nodup
    · intro y' hy'
      obtain ⟨y, hy, rfl⟩ := List.mem_map.1 hy'
      show _ < d.nextNode
      rw [(hfid y).1]; exact hs.ids_lt y hy
    · intro y' hy'
      obtain ⟨y, hy, rfl⟩ := List.mem_map.1 hy'
      rw [(hfid y).1]
      have := hs.refs y hy
      rw [List.count_cons] at this
      by_cases hyn : y.id = n
      · have hb : (y.id == n) = true := by simp [hyn]
        have hb' : (n == y.id) = true := by simp [hyn]
        simp only [hb, if_true]
        simp only [hb', if_true] at this
        show _ ≤ y.refs - 1
        omega
      · have hb : (y.id == n) = false := by simp [hyn]
        have hb' : (n == y.id) = false := by simp [Ne.symm hyn]
        simp only [hb] at this ⊢
        simp only [hb'] at this
        simpa using this
    · intro r hr
      obtain ⟨y, hy, hyid⟩ := hs.present r (List.mem_cons_of_mem _ hr)
      exact ⟨_, List.mem_map_of_mem hy, by rw [(hfid y).1]; exact hyid⟩
    · intro m _
      show strBytesL _ m = strBytesL _ m
      exact strBytesL_map _ _ hfid m

/-! ## Clearing a location that holds a scalar or a string -/

deriving instance DecidableEq for Loc

theorem flatMap_congr' {α β : Type} {f g : α → List β} : ∀ (l : List α), (∀ x ∈ l, f x = g x) → l.flatMap f = l.flatMap g := by
  intro l
  induction l with
  | nil => intro _; rfl
  | cons a l ih =>
    intro h
    simp only [List.flatMap_cons]
    rw [h a (by simp), ih (fun x hx => h x (List.mem_cons_of_mem _ hx))]

theorem flatMap_split {α β : Type} [DecidableEq α] (f : α → List β) (a : α) :
    ∀ (l : List α), l.Nodup → a ∈ l → List.Perm (l.flatMap f) (f a ++ l.flatMap (fun x => if x = a then [] else f x)) := by
  intro l
  induction l with
  | nil => intro _ h; cases h
  | cons b l ih =>
    intro hnd hm
    obtain ⟨hb, hnd'⟩ := List.nodup_cons.1 hnd
    by_cases hba : b = a
    · subst hba
      have : l.flatMap (fun x => if x = b then [] else f x) = l.flatMap f := by
        apply flatMap_congr'
        intro x hx
        have : x ≠ b := fun e => hb (e ▸ hx)
        simp [this]
      simp only [List.flatMap_cons, if_true, List.nil_append, this]
      exact List.Perm.refl _
    · have hm' : a ∈ l := by
        rcases List.mem_cons.1 hm with e | m
        · exact absurd e.symm hba
        · exact m
      simp only [List.flatMap_cons, if_neg hba]
      have h1 := (ih hnd' hm').append_left (f b)
      refine h1.trans ?_
      rw [← List.append_assoc, ← List.append_assoc]
      exact List.Perm.append_right _ List.perm_append_comm

theorem StrOK_perm {d : Doc} {rs rs' : List Nat} (hp : List.Perm rs rs') (h : StrOK d rs) : StrOK d rs' :=
  ⟨h.ids_nodup, h.ids_lt, fun n hn => by rw [← hp.count_eq]; exact h.refs n hn,
    fun r hr => h.present r (hp.mem_iff.2 hr)⟩

theorem StrOK_congr {d d' : Doc} {rs : List Nat} (h1 : d'.strings = d.strings) (h2 : d'.nextNode = d.nextNode)
    (h : StrOK d rs) : StrOK d' rs :=
  ⟨by rw [h1]; exact h.ids_nodup, by rw [h1, h2]; exact h.ids_lt, by rw [h1]; exact h.refs,
    by rw [h1]; exact h.present⟩

theorem holders_nodup {F : Forest} (h : F.ids.Nodup) : (holders F).Nodup := by
  refine List.nodup_cons.2 ⟨by simp, ?_⟩
  generalize F.ids = l at h
  induction l with
  | nil => exact List.nodup_nil
  | cons a l ih =>
    obtain ⟨ha, hl⟩ := List.nodup_cons.1 h
    refine List.nodup_cons.2 ⟨?_, ih hl⟩
    intro m
    obtain ⟨x, hx, e⟩ := List.mem_map.1 m
    cases e; exact ha hx

/-- release the resources of a non-collection value: string reference, extension slot -/
def releaseV (d : Doc) (v : VData) : Doc :=
  let d := match v with
    | .owned n | .raw n => d.derefString n
    | _ => d
  match v with
    | .i64 s | .u64 s | .f64 s => d.freeCell s
    | _ => d

theorem clearV_scalar_eq {d : Doc} {l : Loc} (h : ¬ isColl (d.get l)) :
    d.clearV l = (releaseV d (d.get l)).set l .null := by
  show Doc.clearVF (d.g.nullSlot + 1) d l = _
  simp only [Doc.clearVF]
  cases hv : d.get l <;> first | rfl | (rw [hv] at h; exact absurd trivial h)

/-- effect of releasing the resources of `v` -/
def RelSpec (d d1 : Doc) (v : VData) (keep : List Nat) : Prop :=
    d1.g = d.g ∧ d1.root = d.root ∧
    (∀ j, j ∉ extOfV v → d1.cell j = d.cell j) ∧
    PL.Inv d1.g d1.pl ∧
    (∀ x, PL.live d1.g d1.pl x ↔ PL.live d.g d.pl x ∧ x ∉ extOfV v) ∧
    StrOK d1 keep ∧ ∀ m ∈ keep, d1.strBytes m = d.strBytes m

theorem releaseV_spec {d : Doc} {v : VData} {keep : List Nat} (hp : PL.Inv d.g d.pl)
    (hs : StrOK d (strOfV v ++ keep)) (hext : ∀ e ∈ extOfV v, PL.live d.g d.pl e) :
    RelSpec d (releaseV d v) v keep := by
  have plain : extOfV v = [] → strOfV v = [] → RelSpec d d v keep := fun h1 h2 => by
    unfold RelSpec
    rw [h1]; rw [h2] at hs
    exact ⟨rfl, rfl, fun _ _ => rfl, hp, fun x => by simp, hs, fun _ _ => rfl⟩
  have str : ∀ n, extOfV v = [] → strOfV v = [n] → RelSpec d (d.derefString n) v keep := fun n h1 h2 => by
    unfold RelSpec
    rw [h1]; rw [h2] at hs
    obtain ⟨a1, a2, a3, a4, a5, a6, a7, a8, a9⟩ := derefString_spec hs
    refine ⟨a1, a2, fun j _ => by simp only [Doc.cell, a3], ?_, fun x => ?_, a8, a9⟩
    · rw [a1]; exact hp.congr a4 a6 a7 a5
    · rw [a1, live_congr a4 a5]; simp
  have ext : ∀ e, extOfV v = [e] → strOfV v = [] → RelSpec d (d.freeCell e) v keep := fun e h1 h2 => by
    unfold RelSpec
    have hl := hext e (by rw [h1]; simp)
    rw [h1]; rw [h2] at hs
    obtain ⟨b1, b2⟩ := PL.freeSlot_ok hp hl
    refine ⟨rfl, rfl, fun j hj => ?_, b1, fun x => ?_, StrOK_congr (d := d) rfl rfl (by simpa using hs), fun _ _ => rfl⟩
    · rw [cell_freeCell, if_neg (fun e' => hj (by simp [e']))]
    · have := b2 x
      show PL.live d.g (PL.freeSlot d.pl e) x ↔ _
      simpa using this
  cases v
  case owned n => exact str n rfl rfl
  case raw n => exact str n rfl rfl
  case i64 e => exact ext e rfl rfl
  case u64 e => exact ext e rfl rfl
  case f64 e => exact ext e rfl rfl
  all_goals exact plain rfl rfl

/-- `clearV` on a location that holds a scalar or a string: the location becomes null, its extension slot / string
    reference is released, and nothing else changes (in particular every other string keeps its bytes). -/
theorem clearV_scalar_spec {d : Doc} {F : Forest} {l : Loc} (w : WFG d F) (hs : StrOK d (d.strRefs F))
    (hl : isLoc F l) (hsc : ¬ isColl (d.get l)) :
    WFG (d.clearV l) F ∧ StrOK (d.clearV l) ((d.clearV l).strRefs F) ∧ abs (d.clearV l) = absWith d F l .null := by
  have hlh : l ∈ holders F := by
    cases l with
    | root => exact mem_holders.2 (Or.inl rfl)
    | slot i => exact mem_holders.2 (Or.inr ⟨i, isLoc_ids hl, rfl⟩)
  have hperm := flatMap_split (fun l0 => strOfV (d.get l0)) l (holders F) (holders_nodup w.nodup) hlh
  have hs' := StrOK_perm hperm hs
  obtain ⟨r1, r2, r3, r4, r5, r6, r7⟩ := releaseV_spec (v := d.get l) w.pool hs' (fun e he => (w.ext l hlh e he).2.1)
  rw [clearV_scalar_eq hsc]
  generalize releaseV d (d.get l) = d1 at *
  have hnotext : ∀ j ∈ F.ids, j ∉ extOfV (d.get l) := by
    intro j hj hm
    obtain ⟨⟨p, hp⟩, _, _⟩ := w.ext l hlh j hm
    exact ext_ne_var hp (w.isVar j hj) rfl
  have hothers : ∀ l0 ∈ holders F, l0 ≠ l → ∀ e ∈ extOfV (d.get l0), e ∉ extOfV (d.get l) := by
    intro l0 h0 hne e he hm
    exact hne ((w.ext l hlh e hm).2.2 l0 h0 he)
  have hres := set_scalar_gen (d1 := d1) (v' := .null) w hl hsc (fun h => h) r1 r2
    (fun j hj => r3 j (hnotext j hj))
    (fun l0 h0 hne e he => ⟨r3 e (hothers l0 h0 hne e he), (r5 e).2 ⟨(w.ext l0 h0 e he).2.1, hothers l0 h0 hne e he⟩⟩)
    (fun l0 h0 hne n hn => r7 n (by
      simp only [List.mem_flatMap]
      exact ⟨l0, h0, by rw [if_neg hne]; exact hn⟩))
    r4 (fun j hj => (r5 j).2 ⟨w.live j hj, hnotext j hj⟩)
    (fun e he => by cases he)
  refine ⟨hres.1, ?_, hres.2⟩
  refine StrOK_congr (set_strings _ _ _) (set_nextNode _ _ _) ?_
  have : (d1.set l .null).strRefs F = (holders F).flatMap (fun x => if x = l then [] else strOfV (d.get x)) := by
    apply flatMap_congr'
    intro l0 h0
    by_cases hne : l0 = l
    · subst hne; rw [get_set_self, if_pos rfl]; rfl
    · rw [get_set_ne hne, if_neg hne]
      rcases mem_holders.1 h0 with e | ⟨x, hx, e⟩
      · subst e; show strOfV d1.root = _; rw [r2]; rfl
      · subst e; rw [get_of_cell (r3 x (hnotext x hx))]
  rw [this]; exact r6

/-! ## Observers: `size`, `findKey` -/

theorem top_length_arr {d : Doc} (F : Forest) : ∀ {h : Nat}, Lk d false h F → F.top.length = (vals d noOv F).length := by
  induction F with
  | nil => intro h _; rfl
  | cons key i s r _ ihr =>
    intro h hl
    rw [Lk_cons] at hl
    obtain ⟨h1, _, _, h4, _⟩ := hl
    cases key <;> simp only [KeyOK] at h1
    simp only [Forest.top, Forest.keyL, List.nil_append, List.length_cons, vals, ihr h4]

theorem top_length_obj {d : Doc} (F : Forest) : ∀ {h : Nat}, Lk d true h F → F.top.length = 2 * (vals d noOv F).length := by
  induction F with
  | nil => intro h _; rfl
  | cons key i s r _ ihr =>
    intro h hl
    rw [Lk_cons] at hl
    obtain ⟨h1, _, _, h4, _⟩ := hl
    cases key <;> simp only [KeyOK] at h1
    simp only [Forest.top, Forest.keyL, List.cons_append, List.nil_append, List.length_cons, vals, ihr h4]
    omega

/-- `size` is the length of the abstract array / the number of members of the abstract object -/
theorem size_spec {d : Doc} {F : Forest} {l : Loc} (w : WFG d F) (hl : isLoc F l) :
    (∀ h t, d.get l = .arr h t → ∃ xs, d.toVal (d.get l) = .arr xs ∧ d.size (d.get l) = xs.length) ∧
    (∀ h t, d.get l = .obj h t → ∃ ms, d.toVal (d.get l) = .obj ms ∧ d.size (d.get l) = ms.length) := by
  have hv := VOK_at w hl
  have hfuel : (layoutAt F l).ids.length ≤ d.fuel :=
    Nat.le_trans (List.Nodup.length_le_of_subset (layoutAt_nodup w.nodup hl) (fun x hx => layoutAt_ids_sub F l x hx))
      (Nat.le_of_lt w.fuel_ok)
  constructor
  · intro h t e
    rw [toVal_at w hl, e]; rw [e] at hv
    obtain ⟨hlk, _⟩ := (VOK_arr _ _ _ _).1 hv
    refine ⟨_, rfl, ?_⟩
    simp only [Doc.size, chain_eq hlk hfuel, top_length_arr _ hlk, List.length_map]
  · intro h t e
    rw [toVal_at w hl, e]; rw [e] at hv
    obtain ⟨hlk, _⟩ := (VOK_obj _ _ _ _).1 hv
    refine ⟨_, rfl, ?_⟩
    simp only [Doc.size, chain_eq hlk hfuel, top_length_obj _ hlk]
    omega

theorem keyBytes_of_isKey {d : Doc} {k : Nat} (h : isKey (d.get (.slot k))) :
    d.keyBytes k = some (keyOfV d (d.get (.slot k))) := by
  simp only [Doc.keyBytes]
  cases hv : d.get (.slot k) <;> rw [hv] at h <;> first | rfl | exact absurd h (fun h => h)

/-- along an object chain, `findIn` returns the slots of the first member whose key is `key`: the value stored in
    the returned value slot is the value of the first member with that key in the abstraction (and `none` iff there
    is no such member) -/
theorem findIn_spec {d : Doc} (key : List Byte) (F : Forest) : ∀ {h : Nat}, Lk d true h F → F.ids.length < d.fuel →
    ((d.findIn key F.top).map (fun p => d.toVal (d.get (.slot p.2)))) =
      ((vals d noOv F).find? (fun m => m.1 == key)).map (·.2) := by
  induction F with
  | nil => intro h _ _; rfl
  | cons ko i s r _ ihr =>
    intro h hl hf
    rw [Lk_cons] at hl
    obtain ⟨h1, _, _, h4, h5⟩ := hl
    cases ko <;> simp only [KeyOK] at h1
    rename_i k
    obtain ⟨_, _, _, hk, _⟩ := h1
    simp only [Forest.ids, List.length_append, List.length_cons] at hf
    simp only [Forest.top, Forest.keyL, List.cons_append, List.nil_append, Doc.findIn, vals, keyBytes_of_isKey hk,
      Option.some.injEq, List.find?, keyB, noOv, Option.getD_none]
    by_cases hkey : keyOfV d (d.get (.slot k)) = key
    · have hb : (keyOfV d (d.get (.slot k)) == key) = true := by simp [hkey]
      simp only [hkey, if_true, Option.map_some, beq_self_eq_true]
      rw [toVal_eq h5 (by omega)]; rfl
    · have hb : (keyOfV d (d.get (.slot k)) == key) = false := by simp [hkey]
      simp only [if_neg hkey, hb]
      exact ihr h4 (by omega)

/-- `findKey` on an object location returns the first member with that key of the abstract object -/
theorem findKey_spec {d : Doc} {F : Forest} {l : Loc} {h t : Nat} (w : WFG d F) (hl : isLoc F l)
    (hv : d.get l = .obj h t) (key : List Byte) :
    ∃ ms, d.toVal (d.get l) = .obj ms ∧
      ((d.findKey l key).map (fun p => d.toVal (d.get (.slot p.2)))) = (ms.find? (fun m => m.1 == key)).map (·.2) := by
  have hvo := VOK_at w hl
  rw [hv] at hvo
  obtain ⟨hlk, _⟩ := (VOK_obj _ _ _ _).1 hvo
  have hfuel : (layoutAt F l).ids.length < d.fuel :=
    Nat.lt_of_le_of_lt (List.Nodup.length_le_of_subset (layoutAt_nodup w.nodup hl)
      (fun x hx => layoutAt_ids_sub F l x hx)) w.fuel_ok
  refine ⟨vals d noOv (layoutAt F l), by rw [toVal_at w hl, hv]; rfl, ?_⟩
  simp only [Doc.findKey, hv, chain_eq hlk (Nat.le_of_lt hfuel)]
  exact findIn_spec key _ hlk hfuel

/-! ## Frame: other references keep designating the same value -/

theorem toVal_frame {d d' : Doc} {F : Forest} (w : WFG d F) (w' : WFG d' F) {l' : Loc} (hl' : isLoc F l')
    (hn : d'.null = d.null) (hgood : ∀ x ∈ (layoutAt F l').ids, Good d d' x) (hv : d'.get l' = d.get l')
    (hsc : d'.scalar (d.get l') = d.scalar (d.get l')) : d'.toVal (d'.get l') = d.toVal (d.get l') := by
  obtain ⟨a, sa⟩ := agree_of_good hn hgood
  rw [toVal_at w' hl', toVal_at w hl', hv]
  simp only [Doc.valOf]
  rw [vals_congr noOv _ a sa, mkVal_congr hsc]

/-- after `clearV` of a scalar/string location `l`, every other location `l'` whose value does not contain `l` still
    designates exactly the same value -/
theorem clearV_scalar_frame {d : Doc} {F : Forest} {l l' : Loc} (w : WFG d F) (hs : StrOK d (d.strRefs F))
    (hl : isLoc F l) (hsc : ¬ isColl (d.get l)) (hl' : isLoc F l') (hne : l' ≠ l)
    (hnotin : ∀ i, l = .slot i → i ∉ (layoutAt F l').ids) :
    (d.clearV l).toVal ((d.clearV l).get l') = d.toVal (d.get l') := by
  have w' := (clearV_scalar_spec w hs hl hsc).1
  have hlh : l ∈ holders F := by
    cases l with
    | root => exact mem_holders.2 (Or.inl rfl)
    | slot i => exact mem_holders.2 (Or.inr ⟨i, isLoc_ids hl, rfl⟩)
  have hl'h : l' ∈ holders F := by
    cases l' with
    | root => exact mem_holders.2 (Or.inl rfl)
    | slot i => exact mem_holders.2 (Or.inr ⟨i, isLoc_ids hl', rfl⟩)
  have hperm := flatMap_split (fun l0 => strOfV (d.get l0)) l (holders F) (holders_nodup w.nodup) hlh
  have hs' := StrOK_perm hperm hs
  obtain ⟨r1, r2, r3, r4, r5, r6, r7⟩ := releaseV_spec (v := d.get l) w.pool hs' (fun e he => (w.ext l hlh e he).2.1)
  rw [clearV_scalar_eq hsc] at w' ⊢
  generalize releaseV d (d.get l) = d1 at *
  have hnotext : ∀ j ∈ F.ids, j ∉ extOfV (d.get l) := by
    intro j hj hm
    obtain ⟨⟨p, hp⟩, _, _⟩ := w.ext l hlh j hm
    exact ext_ne_var hp (w.isVar j hj) rfl
  have hothers : ∀ l0 ∈ holders F, l0 ≠ l → ∀ e ∈ extOfV (d.get l0), e ∉ extOfV (d.get l) := by
    intro l0 h0 hne e he hm
    exact hne ((w.ext l hlh e hm).2.2 l0 h0 he)
  have hextne : ∀ l0 ∈ holders F, ∀ e ∈ extOfV (d.get l0), Loc.slot e ≠ l := by
    intro l0 h0 e he heq
    obtain ⟨⟨p, hp⟩, _, _⟩ := w.ext l0 h0 e he
    exact ext_ne_var hp (w.isVar e (isLoc_ids (heq ▸ hl))) rfl
  -- scalars stored in holders other than `l` read the same
  have hscal : ∀ l0 ∈ holders F, l0 ≠ l → (d1.set l .null).scalar (d.get l0) = d.scalar (d.get l0) := by
    intro l0 h0 hne0
    refine scalar_congr (fun n hn' => ?_) (fun e he => ?_)
    · rw [strBytes_set]
      exact r7 n (by simp only [List.mem_flatMap]; exact ⟨l0, h0, by rw [if_neg hne0]; exact hn'⟩)
    · rw [cell_set_ne (hextne l0 h0 e he)]
      exact r3 e (hothers l0 h0 hne0 e he)
  have hn : (d1.set l .null).null = d.null := by rw [set_null]; simp only [Doc.null, r1]
  refine toVal_frame w w' hl' hn ?_ ?_ (hscal l' hl'h hne)
  · intro x hx
    have hxF := layoutAt_ids_sub F l' x hx
    have hxl : Loc.slot x ≠ l := fun e => hnotin x e.symm hx
    exact ⟨by rw [cell_set_ne hxl]; exact r3 x (hnotext x hxF),
      hscal (.slot x) (mem_holders.2 (Or.inr ⟨x, hxF, rfl⟩)) hxl⟩
  · rw [get_set_ne hne]
    cases l' with
    | root => exact r2
    | slot i => exact get_of_cell (r3 i (hnotext i (isLoc_ids hl')))

/-! ## `absWith` replaces exactly one location -/

theorem vals_ov_self (d : Doc) (i : Nat) (F : Forest) (hnd : F.ids.Nodup) (hi : i ∈ F.locs) :
    vals d (ov1 i (d.valOf (d.get (.slot i)) (F.subOf i))) F = vals d noOv F := by
  induction F with
  | nil => cases hi
  | cons k j s r ihs ihr =>
    obtain ⟨nds, ndr, njs, njr, nsr, nk⟩ := Forest.nodup_cons hnd
    by_cases hji : j = i
    · subst hji
      simp only [vals, Forest.subOf, if_true, ov1, Option.getD_some, noOv, Option.getD_none, Doc.valOf]
      rw [vals_ov_notin d j _ r (fun m => njr (r.locs_sub_ids j m))]
    · simp only [Forest.locs, List.mem_cons, List.mem_append] at hi
      by_cases his : i ∈ s.locs
      · have hir : i ∉ r.locs := fun m => nsr i (s.locs_sub_ids i his) (r.locs_sub_ids i m)
        simp only [vals, Forest.subOf, if_neg hji, if_pos his]
        rw [ihs nds his, vals_ov_notin d i _ r hir]
        simp only [ov1, if_neg hji, noOv]
      · have hir : i ∈ r.locs := by
          rcases hi with e | m | m
          · exact absurd e.symm hji
          · exact absurd m his
          · exact m
        simp only [vals, Forest.subOf, if_neg hji, if_neg his]
        rw [ihr ndr hir, vals_ov_notin d i _ s his]
        simp only [ov1, if_neg hji, noOv]

/-- replacing the value at `l` by itself gives the abstract document back: `absWith d F l x` differs from `abs d` at
    most at location `l` -/
theorem absWith_self {d : Doc} {F : Forest} {l : Loc} (w : WFG d F) (hl : isLoc F l) :
    absWith d F l (d.toVal (d.get l)) = abs d := by
  cases l with
  | root => rfl
  | slot i =>
    rw [toVal_at w hl, abs_eq w]
    simp only [absWith, layoutAt, Doc.valOf]
    rw [← Doc.valOf, vals_ov_self d i F w.nodup hl]

end DL
