/- Second part of the refinement lemmas for `DL`: string-table preservation, clearing collections, removal.
   Used by AJ/Props/C04.lean. -/
import AJ.Lemmas.DocOps
namespace DL
open JD (Byte Val)

/-! ## String references after a value was replaced -/

theorem loc_mem_holders {F : Forest} {l : Loc} (hl : isLoc F l) : l ∈ holders F := by
  cases l with
  | root => exact mem_holders.2 (Or.inl rfl)
  | slot i => exact mem_holders.2 (Or.inr ⟨i, isLoc_ids hl, rfl⟩)

/-- the references of `d'` laid out as `F`, when only the value at `l` (which held no string) was replaced -/
theorem strRefs_set_perm {d d' : Doc} {F : Forest} {l : Loc} (hnd : F.ids.Nodup) (hlh : l ∈ holders F)
    (hother : ∀ l0 ∈ holders F, l0 ≠ l → strOfV (d'.get l0) = strOfV (d.get l0)) (hold : strOfV (d.get l) = []) :
    List.Perm (d'.strRefs F) (strOfV (d'.get l) ++ d.strRefs F) := by
  have h := flatMap_split (fun l0 => strOfV (d'.get l0)) l (holders F) (holders_nodup hnd) hlh
  refine h.trans ?_
  have : (holders F).flatMap (fun x => if x = l then [] else strOfV (d'.get x)) = d.strRefs F := by
    apply flatMap_congr'
    intro x hx
    by_cases e : x = l
    · subst e; rw [if_pos rfl, hold]
    · rw [if_neg e, hother x hx e]
  rw [this]

theorem setNext_nextNode (d : Doc) (i n : Nat) : (d.setNext i n).nextNode = d.nextNode := by
  simp only [Doc.setNext]; split <;> rfl

/-- `saveString` accounts for one more reference to the node it returns -/
theorem saveString_strOK {d d1 : Doc} {s : List Byte} {n : Nat} {rs : List Nat} (hs : StrOK d rs)
    (h : d.saveString s = (some n, d1)) : StrOK d1 (n :: rs) := by
  simp only [Doc.saveString] at h
  split at h
  · rename_i x hfind
    simp only [Prod.mk.injEq, Option.some.injEq] at h
    obtain ⟨rfl, rfl⟩ := h
    have hx : x ∈ d.strings := List.mem_of_find?_eq_some hfind
    have hfid : ∀ y : StrNode, (if y.id == x.id then { y with refs := y.refs + 1 } else y).id = y.id := by
      intro y; split <;> rfl
    refine ⟨?_, ?_, ?_, ?_⟩
    · have : (d.strings.map (fun y => if y.id == x.id then { y with refs := y.refs + 1 } else y)).map (·.id)
          = d.strings.map (·.id) := by
        rw [List.map_map]; congr 1; funext y; exact hfid y
      show (List.map (fun (x : StrNode) => x.id) (d.strings.map _)).Nodup
      rw [this]; exact hs.ids_nodup
    · intro y' hy'
      obtain ⟨y, hy, rfl⟩ := List.mem_map.1 hy'
      show _ < d.nextNode
      rw [hfid y]; exact hs.ids_lt y hy
    · intro y' hy'
      obtain ⟨y, hy, rfl⟩ := List.mem_map.1 hy'
      rw [hfid y, List.count_cons]
      have := hs.refs y hy
      by_cases hyn : y.id = x.id
      · have hb : (y.id == x.id) = true := by simp [hyn]
        have hb' : (x.id == y.id) = true := by simp [hyn]
        simp only [hb, hb', if_true]
        show _ ≤ y.refs + 1
        omega
      · have hb : (y.id == x.id) = false := by simp [hyn]
        have hb' : (x.id == y.id) = false := by simp [Ne.symm hyn]
        simp only [hb, hb']
        simpa using this
    · intro r hr
      rcases List.mem_cons.1 hr with e | m
      · exact ⟨_, List.mem_map_of_mem hx, by rw [hfid x]; exact e.symm⟩
      · obtain ⟨y, hy, hyid⟩ := hs.present r m
        exact ⟨_, List.mem_map_of_mem hy, by rw [hfid y]; exact hyid⟩
  · split at h
    · simp only [Prod.mk.injEq] at h; exact absurd h.1 (by simp)
    generalize d.pl.alloc (s.length + d.strOverhead) = q at h
    obtain ⟨ok, pl⟩ := q
    simp only at h
    split at h
    · simp only [Prod.mk.injEq] at h; exact absurd h.1 (by simp)
    · simp only [Prod.mk.injEq, Option.some.injEq] at h
      obtain ⟨rfl, rfl⟩ := h
      have hnotin : d.nextNode ∉ rs := by
        intro m
        obtain ⟨y, hy, hyid⟩ := hs.present _ m
        exact absurd (hs.ids_lt y hy) (by rw [hyid]; exact Nat.lt_irrefl _)
      refine ⟨?_, ?_, ?_, ?_⟩
      · show (List.map (fun (x : StrNode) => x.id) (_ :: d.strings)).Nodup
        simp only [List.map_cons, List.nodup_cons]
        refine ⟨?_, hs.ids_nodup⟩
        intro m
        obtain ⟨y, hy, hyid⟩ := List.mem_map.1 m
        exact absurd (hs.ids_lt y hy) (by rw [hyid]; exact Nat.lt_irrefl _)
      · intro y hy
        show y.id < d.nextNode + 1
        rcases List.mem_cons.1 hy with e | m
        · subst e; exact Nat.lt_succ_self _
        · exact Nat.lt_succ_of_lt (hs.ids_lt y m)
      · intro y hy
        rw [List.count_cons]
        rcases List.mem_cons.1 hy with e | m
        · subst e
          have : rs.count d.nextNode = 0 := List.count_eq_zero.2 hnotin
          simp [this]
        · have hne : d.nextNode ≠ y.id := Nat.ne_of_gt (hs.ids_lt y m)
          have hb : (d.nextNode == y.id) = false := by simp [hne]
          simp only [hb]
          simpa using hs.refs y m
      · intro r hr
        rcases List.mem_cons.1 hr with e | m
        · exact ⟨_, List.mem_cons_self, e.symm⟩
        · obtain ⟨y, hy, hyid⟩ := hs.present r m
          exact ⟨y, List.mem_cons_of_mem _ hy, hyid⟩

theorem allocExt_str {d d1 : Doc} {p : Int} {e : Nat} (h : d.allocExt p = (some e, d1)) :
    d1.strings = d.strings ∧ d1.nextNode = d.nextNode := by
  simp only [Doc.allocExt] at h
  split at h
  · simp only [Prod.mk.injEq, Option.some.injEq] at h
    obtain ⟨_, rfl⟩ := h; exact ⟨rfl, rfl⟩
  · simp only [Prod.mk.injEq] at h; exact absurd h.1 (by simp)

/-- string table after storing `v'` at a location that held no string (`d1`: after the resource was acquired) -/
theorem set_gen_strOK {d d1 : Doc} {F : Forest} {l : Loc} {v' : VData} (w : WFG d F) (hl : isLoc F l)
    (hold : strOfV (d.get l) = []) (hroot : d1.root = d.root) (hcells : ∀ j ∈ F.ids, d1.cell j = d.cell j)
    (hs1 : StrOK d1 (strOfV v' ++ d.strRefs F)) : StrOK (d1.set l v') ((d1.set l v').strRefs F) := by
  refine StrOK_congr (set_strings _ _ _) (set_nextNode _ _ _) ?_
  have hp := strRefs_set_perm (d := d) (d' := d1.set l v') w.nodup (loc_mem_holders hl) ?_ hold
  · rw [get_set_self] at hp
    exact StrOK_perm hp.symm hs1
  · intro l0 h0 hne
    rw [get_set_ne hne]
    rcases mem_holders.1 h0 with e | ⟨x, hx, e⟩
    · subst e; show strOfV d1.root = _; rw [hroot]; rfl
    · subst e; rw [get_of_cell (hcells x hx)]

/-! ## `appendOne` keeps the string table -/

/-- facts about the tail slot of the collection stored at `l` -/
theorem tail_facts {d : Doc} {F : Forest} {l : Loc} {b : Bool} {h t : Nat} (w : WFG d F) (hl : isLoc F l)
    (hlk : Lk d b h (layoutAt F l)) (ht : t = (layoutAt F l).top.getLast?.getD d.null) :
    (t ≠ d.null → t ∈ (layoutAt F l).top ∧ t ∈ (layoutAt F l).ids ∧ t ∈ F.ids ∧ d.isVar t) ∧ Loc.slot t ≠ l := by
  have hsF := layoutAt_ids_sub F l
  have h1 : t ≠ d.null → t ∈ (layoutAt F l).top ∧ t ∈ (layoutAt F l).ids ∧ t ∈ F.ids ∧ d.isVar t := by
    intro htn
    have hne : layoutAt F l ≠ .nil := fun e => htn (by rw [ht]; exact (last_null_iff hlk).2 e)
    obtain ⟨t', ht', hm⟩ := Forest.top_ne_nil hne
    have : t = t' := by rw [ht, ht']; rfl
    subst this
    exact ⟨hm, (layoutAt F l).top_sub_ids t hm, hsF _ ((layoutAt F l).top_sub_ids t hm), Lk_top_isVar _ hlk t hm⟩
  refine ⟨h1, ?_⟩
  intro e
  subst e
  have h2 := isLoc_ids hl
  by_cases htn : t = d.null
  · exact absurd (w.lt t h2) (by rw [htn]; exact Nat.lt_irrefl _)
  · exact self_notin_layoutAt w.nodup t (h1 htn).2.1

theorem holders_perm_cons {F F' : Forest} {id : Nat} (hp : List.Perm F'.ids (id :: F.ids)) :
    List.Perm (holders F') (Loc.slot id :: holders F) := by
  have h1 : List.Perm (holders F') (Loc.root :: Loc.slot id :: F.ids.map Loc.slot) :=
    List.Perm.cons _ (by simpa using hp.map Loc.slot)
  exact h1.trans (List.Perm.swap _ _ _)

theorem appendOne_strOK {d : Doc} {F : Forest} {l : Loc} {h t id : Nat} (w : WFG d F) (hs : StrOK d (d.strRefs F))
    (hl : isLoc F l) (hv : d.get l = .arr h t) (hid : d.cell id = .var .null d.null) (hidF : id ∉ F.ids)
    (hlt : id < d.null) (hfree : PL.live d.g d.pl id) :
    StrOK (d.appendOne l id) ((d.appendOne l id).strRefs (replaceAt F l ((layoutAt F l).snoc none id))) := by
  have w' := (appendOne_spec w hl hv hid hidF hlt hfree).1
  have hvs : VOK d (.arr h t) (layoutAt F l) := hv ▸ VOK_at w hl
  obtain ⟨hlk, ht⟩ := (VOK_arr _ _ _ _).1 hvs
  obtain ⟨htf, htl⟩ := tail_facts w hl hlk ht
  obtain ⟨hn, hstr, hpl, hg, hget, hco, hct, hroot, hci⟩ := appendOne_cells (id := id) hv htl
  have hnn : (d.appendOne l id).nextNode = d.nextNode := by
    rw [appendOne_get hv]; split
    · rw [set_nextNode, setNext_nextNode]
    · rw [set_nextNode]
  generalize d.appendOne l id = d' at *
  have hsF := layoutAt_ids_sub F l
  -- ids of the new layout
  have hperm : List.Perm (replaceAt F l ((layoutAt F l).snoc none id)).ids (id :: F.ids) := by
    refine (List.perm_ext_iff_of_nodup w'.nodup (List.nodup_cons.2 ⟨hidF, w.nodup⟩)).2 ?_
    intro x
    rw [mem_ids_replaceAt _ w.nodup hl, Forest.ids_snoc]
    simp only [Forest.keyL, List.nil_append, List.mem_append, List.mem_cons, List.not_mem_nil, or_false]
    constructor
    · rintro (⟨h1, _⟩ | h1 | h1)
      · exact Or.inr h1
      · exact Or.inr (hsF x h1)
      · exact Or.inl h1
    · rintro (h1 | h1)
      · exact Or.inr (Or.inr h1)
      · by_cases hx : x ∈ (layoutAt F l).ids
        · exact Or.inr (Or.inl hx)
        · exact Or.inl ⟨h1, hx⟩
  have hgid : d'.get (.slot id) = .null := by
    refine get_of_var (v := .null) (n := d.null) ?_
    rw [hco id ?_ ?_, hid]
    · intro e
      have : id ∈ F.ids := isLoc_ids (e ▸ hl)
      exact hidF this
    · intro htn e; exact hidF (e ▸ (htf htn).2.2.1)
  have hgets : ∀ l0 ∈ holders F, strOfV (d'.get l0) = strOfV (d.get l0) := by
    intro l0 h0
    by_cases hl0 : l0 = l
    · subst hl0; rw [hget, hv]; rfl
    · rcases mem_holders.1 h0 with e | ⟨x, hx, e⟩
      · subst e; show strOfV d'.root = strOfV d.root; rw [hroot (Ne.symm hl0)]
      · subst e
        by_cases hxt : t ≠ d.null ∧ x = t
        · obtain ⟨htn, rfl⟩ := hxt
          rw [get_of_var (hct htn (htf htn).2.2.2)]
        · rw [get_of_cell (hco x hl0 (fun htn e => hxt ⟨htn, e⟩))]
  refine StrOK_congr hstr hnn ?_
  have hp := (holders_perm_cons hperm).flatMap_right (fun l0 => strOfV (d'.get l0))
  have : (Loc.slot id :: holders F).flatMap (fun l0 => strOfV (d'.get l0)) = d.strRefs F := by
    rw [List.flatMap_cons, hgid]
    exact flatMap_congr' _ hgets
  rw [this] at hp
  exact StrOK_perm hp.symm hs

end DL
