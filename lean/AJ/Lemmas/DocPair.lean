/- `appendPair`: appending a (key slot, value slot) pair to an object chain. Used by AJ/Props/C04.lean. -/
import AJ.Lemmas.DocFrame
namespace DL
open JD (Byte Val)

theorem appendPair_get {d : Doc} {l : Loc} {h t k v : Nat} (hv : d.get l = .obj h t) (hkl : Loc.slot k ≠ l) :
    d.appendPair l k v =
      if t ≠ d.null then ((d.setNext k v).setNext t k).set l (.obj h v) else (d.setNext k v).set l (.obj k v) := by
  have hg : (d.setNext k v).get l = d.get l := by
    cases l with
    | root => exact setNext_root d k v
    | slot i => exact get_of_cell (cell_setNext_ne d v (fun (e : k = i) => hkl (by rw [e])))
  simp only [Doc.appendPair, hg, hv, setNext_null]

theorem isKey_not_coll {v : VData} (h : isKey v) : ¬ isColl v := by
  cases v <;> first | exact fun h' => h' | exact absurd h (fun h' => h')
theorem isKey_ext {v : VData} (h : isKey v) : extOfV v = [] := by
  cases v <;> first | rfl | exact absurd h (fun h' => h')

/-- `CollectionData::appendPair` of a fresh key slot `k` (holding a string) and a fresh value slot `v` (holding null)
    to the object at `l`: the member `(key, null)` is appended, nothing else changes. -/
theorem appendPair_spec {d : Doc} {F : Forest} {l : Loc} {h t k v nk : Nat} {kv : VData} (w : WFG d F) (hl : isLoc F l)
    (hv : d.get l = .obj h t) (hk : d.cell k = .var kv nk) (hkey : isKey kv) (hvc : d.cell v = .var .null d.null)
    (hkv : k ≠ v) (hkF : k ∉ F.ids) (hvF : v ∉ F.ids) (hklt : k < d.null) (hvlt : v < d.null)
    (hklive : PL.live d.g d.pl k) (hvlive : PL.live d.g d.pl v) :
    WFG (d.appendPair l k v) (replaceAt F l ((layoutAt F l).snoc (some k) v)) ∧
    ∃ ms, d.toVal (d.get l) = .obj ms ∧
      abs (d.appendPair l k v) = absWith d F l (.obj (ms ++ [(keyOfV d kv, .null)])) := by
  have hvs : VOK d (.obj h t) (layoutAt F l) := hv ▸ VOK_at w hl
  obtain ⟨hlk, ht⟩ := (VOK_obj _ _ _ _).1 hvs
  have hsF := layoutAt_ids_sub F l
  have hsnd := layoutAt_nodup w.nodup hl
  obtain ⟨htf, htl⟩ := tail_facts w hl hlk ht
  have hlns : ∀ i, l = .slot i → i ∉ (layoutAt F l).ids ∧ i ∈ F.ids ∧ d.isVar i := by
    intro i e; subst e
    exact ⟨self_notin_layoutAt w.nodup i, isLoc_ids hl, w.isVar i (isLoc_ids hl)⟩
  have hkl : Loc.slot k ≠ l := fun e => hkF (hlns k e.symm).2.1
  have hvl : Loc.slot v ≠ l := fun e => hvF (hlns v e.symm).2.1
  have hkt : t ≠ d.null → k ≠ t := fun htn e => hkF (e ▸ (htf htn).2.2.1)
  have hvt : t ≠ d.null → v ≠ t := fun htn e => hvF (e ▸ (htf htn).2.2.1)
  -- cells of the result
  have hcells : let d' := d.appendPair l k v
      d'.null = d.null ∧ d'.strings = d.strings ∧ d'.pl = d.pl ∧ d'.g = d.g ∧
      d'.get l = .obj (if t ≠ d.null then h else k) v ∧
      d'.cell k = .var kv v ∧
      (∀ j, Loc.slot j ≠ l → j ≠ k → (t ≠ d.null → j ≠ t) → d'.cell j = d.cell j) ∧
      (t ≠ d.null → d'.cell t = .var (d.get (.slot t)) k) ∧
      (l ≠ .root → d'.root = d.root) ∧
      (∀ i, l = .slot i → d'.cell i = .var (.obj (if t ≠ d.null then h else k) v) (d.nextOf i)) := by
    intro d'
    have hd' : d' = _ := appendPair_get (v := v) hv hkl
    have hk0 : (d.setNext k v).cell k = .var kv v := cell_setNext_var hk v
    have ho0 : ∀ j, j ≠ k → (d.setNext k v).cell j = d.cell j := fun j hj => cell_setNext_ne d v (Ne.symm hj)
    by_cases htn : t = d.null
    · simp only [htn, ne_eq, not_true_eq_false, if_false] at hd' ⊢
      rw [hd']
      refine ⟨by rw [set_null, setNext_null], by rw [set_strings, setNext_strings], by rw [set_pl, setNext_pl],
        by rw [set_g, setNext_g], get_set_self _ _ _, by rw [cell_set_ne hkl]; exact hk0, ?_, fun h => h.elim, ?_, ?_⟩
      · intro j hj hjk _; rw [cell_set_ne hj]; exact ho0 j hjk
      · intro hl'; cases l with
        | root => exact absurd rfl hl'
        | slot i => exact setNext_root d k v
      · intro i hi; subst hi
        rw [cell_set_slot, if_pos rfl,
          nextOf_of_cell (ho0 i (fun (e : i = k) => hkl (by rw [e]))) (setNext_null d k v)]
    · simp only [ne_eq, htn, not_false_eq_true, if_true] at hd' ⊢
      rw [hd']
      have htk : t ≠ k := Ne.symm (hkt htn)
      have hvar0 : (d.setNext k v).cell t = .var (d.get (.slot t)) (d.nextOf t) := by
        rw [ho0 t htk]; exact (htf htn).2.2.2
      refine ⟨by rw [set_null, setNext_null, setNext_null], by rw [set_strings, setNext_strings, setNext_strings],
        by rw [set_pl, setNext_pl, setNext_pl], by rw [set_g, setNext_g, setNext_g], get_set_self _ _ _,
        ?_, ?_, ?_, ?_, ?_⟩
      · rw [cell_set_ne hkl, cell_setNext_ne _ k htk]; exact hk0
      · intro j hj hjk hjt
        rw [cell_set_ne hj, cell_setNext_ne _ k (Ne.symm (hjt trivial))]; exact ho0 j hjk
      · intro _
        rw [cell_set_ne htl]; exact cell_setNext_var hvar0 k
      · intro hl'; cases l with
        | root => exact absurd rfl hl'
        | slot i => rw [root_set_slot, setNext_root, setNext_root]
      · intro i hi; subst hi
        rw [cell_set_slot, if_pos rfl]
        have hit : t ≠ i := fun e => htl (by rw [e])
        have hik : i ≠ k := fun e => hkl (by rw [e])
        rw [nextOf_of_cell (cell_setNext_ne _ k hit) (setNext_null _ t k),
          nextOf_of_cell (ho0 i hik) (setNext_null d k v)]
  obtain ⟨hn, hstr, hpl, hg, hget, hck, hco, hct, hroot, hci⟩ := hcells
  generalize d.appendPair l k v = d' at *
  have hcv : d'.cell v = .var .null d.null := by
    rw [hco v hvl (Ne.symm hkv) hvt]; exact hvc
  have hextcell : ∀ l0 ∈ holders F, ∀ e ∈ extOfV (d.get l0), d'.cell e = d.cell e := by
    intro l0 hl0 e he
    obtain ⟨⟨p, hp⟩, _, _⟩ := w.ext l0 hl0 e he
    refine hco e ?_ ?_ ?_
    · intro e'; exact ext_ne_var hp (hlns e e'.symm).2.2 rfl
    · intro e'; subst e'; rw [hk] at hp; cases hp
    · intro htn; exact ext_ne_var hp (htf htn).2.2.2
  have hslotsame : ∀ j ∈ F.ids, Loc.slot j ≠ l → j ∉ (layoutAt F l).ids → d'.cell j = d.cell j := by
    intro j hj hjl hjs
    exact hco j hjl (fun e => hkF (e ▸ hj)) (fun htn e => hjs (e ▸ (htf htn).2.1))
  have hgs : ∀ j ∈ (layoutAt F l).ids, d'.get (.slot j) = d.get (.slot j) := by
    intro j hj
    by_cases hjt : j = t
    · subst hjt
      have htn : j ≠ d.null := fun e => absurd (w.lt j (hsF j hj)) (by rw [e]; exact Nat.lt_irrefl _)
      exact get_of_var (hct htn)
    · refine get_of_cell (hco j ?_ (fun e => hkF (e ▸ hsF j hj)) (fun _ => hjt))
      intro e; exact (hlns j e.symm).1 hj
  -- the new chain
  have hnew : Lk d' true k (.cons (some k) v .nil .nil) := by
    rw [Lk_cons]
    refine ⟨⟨rfl, hn ▸ Nat.ne_of_lt hklt, isVar_of_var hck, by rw [get_of_var hck]; exact hkey, nextOf_of_var hck⟩,
      hn ▸ Nat.ne_of_lt hvlt, isVar_of_var hcv, ?_, ?_⟩
    · rw [nextOf_of_var hcv, Lk_nil, hn]
    · rw [get_of_var hcv]; rfl
  have hchain := append_chain (d' := d') (key := some k) (id := v) (n0 := k) hn hlk ht hsnd hct
    (fun j hj hjt => hco j (fun e => (hlns j e.symm).1 hj) (fun e => hkF (e ▸ hsF j hj)) (fun _ => hjt)) hnew
  have hvok : VOK d' (.obj (if t ≠ d.null then h else k) v) ((layoutAt F l).snoc (some k) v) := by
    rw [VOK_obj]; exact ⟨hchain, (top_snoc_last _ (some k) v _).symm⟩
  have hsa : SAgree d d' (layoutAt F l).ids := fun j hj =>
    scalar_congr (fun n _ => strBytes_of_strings hstr n)
      (fun e he => hextcell (.slot j) (mem_holders.2 (Or.inr ⟨j, hsF j hj, rfl⟩)) e he)
  have hval : d'.valOf (.obj (if t ≠ d.null then h else k) v) ((layoutAt F l).snoc (some k) v) =
      .obj (vals d noOv (layoutAt F l) ++ [(keyOfV d kv, .null)]) := by
    simp only [Doc.valOf, mkVal]
    rw [vals_snoc, vals_congr' noOv _ hgs hsa, get_of_var hcv]
    simp only [keyB, get_of_var hck, noOv, Option.getD_none, mkVal, Doc.scalar]
    have : keyOfV d' kv = keyOfV d kv := by
      cases kv <;> first | rfl | exact congrArg _ rfl | skip
      all_goals simp only [keyOfV, strBytes_of_strings hstr]
    rw [this]
  have hids' : ∀ x, x ∈ ((layoutAt F l).snoc (some k) v).ids ↔ x ∈ (layoutAt F l).ids ∨ x = k ∨ x = v := by
    intro x; rw [Forest.ids_snoc]; simp [Forest.keyL]
  have hres := wfg_replaceAt (d' := d') (s' := (layoutAt F l).snoc (some k) v) w hl hn hget
    (fun i e => ⟨hci i e, hroot (by rw [e]; exact fun e' => by cases e')⟩) hvok
    (fun j hj hjl hjs => good_of hstr (hslotsame j hj hjl hjs)
      (fun e he => hextcell (.slot j) (mem_holders.2 (Or.inr ⟨j, hj, rfl⟩)) e he))
    (by
      rw [Forest.ids_snoc]
      refine List.nodup_append.2 ⟨hsnd, by simp [Forest.keyL, hkv], ?_⟩
      intro a ha b hb e; subst e
      simp only [Forest.keyL, List.cons_append, List.nil_append, List.mem_cons, List.not_mem_nil, or_false] at hb
      rcases hb with e | e
      · exact hkF (hsF _ (e ▸ ha))
      · exact hvF (hsF _ (e ▸ ha)))
    (fun x hx hxF => by
      rcases (hids' x).1 hx with h' | h' | h'
      · exact h'
      · exact absurd (h' ▸ hxF) hkF
      · exact absurd (h' ▸ hxF) hvF)
    (fun x hx => by
      rcases (hids' x).1 hx with h' | h' | h'
      · exact w.lt x (hsF x h')
      · exact h' ▸ hklt
      · exact h' ▸ hvlt)
    (by rw [hpl, hg]; exact w.pool)
    (fun x hx => by
      rw [hpl, hg]
      rcases (hids' x).1 hx with h' | h' | h'
      · exact w.live x (hsF x h')
      · exact h' ▸ hklive
      · exact h' ▸ hvlive)
    (fun x hx _ => by rw [hpl, hg]; exact w.live x hx)
    (by
      refine ExtOK_of w.ext ?_ ?_
      · intro l' hl'
        rcases mem_holders.1 hl' with e | ⟨x, hx, e⟩
        · subst e
          by_cases hlr : l = .root
          · subst hlr; left; rw [hget]; rfl
          · right; exact ⟨mem_holders.2 (Or.inl rfl), hroot hlr⟩
        · subst e
          rcases (mem_ids_replaceAt _ w.nodup hl x).1 hx with ⟨hxF, hxs⟩ | hxs
          · by_cases hxl : Loc.slot x = l
            · left; rw [hxl, hget]; rfl
            · right
              exact ⟨mem_holders.2 (Or.inr ⟨x, hxF, rfl⟩), get_of_cell (hslotsame x hxF hxl hxs)⟩
          · rcases (hids' x).1 hxs with h' | h' | h'
            · right; exact ⟨mem_holders.2 (Or.inr ⟨x, hsF x h', rfl⟩), hgs x h'⟩
            · left; rw [h', get_of_var hck]; exact isKey_ext hkey
            · left; rw [h', get_of_var hcv]; rfl
      · intro l' _ hl'F _ e he
        refine ⟨hextcell l' hl'F e he, ?_⟩
        rw [hpl, hg]; exact (w.ext l' hl'F e he).2.1)
  refine ⟨hres.1, vals d noOv (layoutAt F l), ?_, ?_⟩
  · rw [toVal_at w hl, hv]; rfl
  · rw [hres.2, hval]

end DL
